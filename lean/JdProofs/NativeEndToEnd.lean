/-
  JdProofs.NativeEndToEnd — property C02, the END-TO-END consequence, LIST reading of arrays,
  STRICT strategy: "a diff printed by `jd a b` and applied with `jd -p` turns a into b".
  Everything lives in the namespace `Jd.E2E`.  STAGE REACHED: C (full composition), plus the total
  form (the renderer succeeds) and two counter-witnesses for the one new hypothesis.

  What was missing between the existing pieces
      C01  (`DPL.diffM_list_correct` + `strictAll_applies_iff`): `a.Patch(a.Diff(b))` Equals `b`, in memory;
      C02  (`NativeRT.read_render`, `Robust.patchAll_normDiff_listMixed_gen`): reading the rendered text
           gives `normDiff d`, which has the effect of `d` — PROVIDED `wfDiff d`, `CodecOK nc d`,
           `d.all listHunkOK`;
  was that the hunks `Diff` really produces satisfy those premises.  This file proves it by
  induction over `diffNode / diffKvs / diffRest` (`DPL.listDiff_induct`) and composes.

  MAIN THEOREMS (about the LIBRARY functions `diffM`, `renderM`, `readDiffM`, `patchM` of the model)
   1. `diffM_premises`  — for list documents `a b` with nothing void inside and arrays of `b` shorter
        than 2^53, list reading, strict strategy:
          wfDiff (diffM o a b), (diffM o a b).all listHunkOK, noEmptySetKeys (diffM o a b), and for every
          hunk: `merge = false`, `voidOK`, path made of keys of `a` / `b` and natural indices < 2^53
          (`PathIn`: no set / multiset / keyed element at all).
        `diffM_listDocHunk` adds `(diffM o a b).all listDocHunk` (premise of identical re-rendering).
        Per hunk the induction (`diff_ok`, `diffM_hunkOK`) gives `HunkOK`: strict; key / index path;
        at most ONE before-context entry (so `[` can only come first); NO void entry in `remove`; NO
        void entry in `add` except the single hunk `- {..}` / `+ void` at the ROOT (an object replaced
        by the absent document; there `add = [void]` and the path is empty, where `voidOK` holds);
        at least one `-` / `+` line; several removed / added values only under a list index; every
        payload value is void (a boundary marker) or a sub-term of `a` or `b`, possibly re-typed as a
        `jsonList` (what `Diff` does with a replaced array).
   2. `diffM_payloads`, `diffM_codecOK` — every payload value of the diff has every property that
        all sub-terms of `a` and `b` have (for properties blind to the Go type of an array node), in
        particular the codec contract: `CodecOK nc (diffM o a b)` follows from `ValOK nc` on the
        SUB-TERMS of `a` and `b` plus `PathOK nc` on the paths of the diff
        (`diffM_pathOK_of_inputs`: or on all paths over the keys of `a`, `b` and indices < 2^53).
   3. `diff_text_lossless` — C02 proper for every diff PRODUCED by `Diff` (list / strict): the text
        is read back as a diff that renders to the IDENTICAL text and has the same effect as the
        original on EVERY list document (up to the Go type of array nodes of the result).  No
        hypothesis on hashes, numbers or key order.
   4. `diff_render_read_patch` (and `_noPrecision`) — THE END-TO-END THEOREM:
          renderM nc [] (diffM o a b) = some text  →
          ∃ d', readDiffM nc text = .ok d' ∧ d' = normDiff (diffM o a b) ∧
            ∃ r, patchM a d' = .ok r ∧ specEq r b ∧ specEq b r ∧ r.listDoc ∧
                 (PrecMono o → equivB o r b ∧ equals o r b).
   5. `diffM_renders`, `diff_print_read_patch` — the total form: if `json.Marshal` succeeds on the
        sub-terms and on the paths (it can only fail through the number codec), the text EXISTS:
          ∃ text d' r, renderM … = some text ∧ readDiffM nc text = .ok d' ∧ patchM a d' = .ok r ∧ …

  HYPOTHESES (all explicit; the first block is decidable on the inputs)
    `dispatchTag o = .list`, `isMerge o = false`   list reading, strict strategy (a Precision option is
                      allowed; then `Equals` needs `PrecMono o`, as in C01).
    `a.listDoc`, `b.listDoc`, `a.wf`, `b.wf`, `a.finiteNums`, `b.finiteNums`, `FloatLaws`, `HashOK o a b`,
    `ZeroOK a b`      the domain of the C01 list theorem (`DPL.diffM_list_correct`), unchanged; only
                      theorem 4 / 5 need more than `listDoc`.
    `voidFree a`, `voidFree b`  = `(subterms x).all kidsNonVoid`: no array ELEMENT and no object member
                      anywhere inside is void.  It CONTAINS `DPL.memOK` (`memOK_of_voidFree`), so `memOK`
                      is no longer a separate hypothesis.  The array-element part is NEW with respect to
                      C01 and CANNOT be dropped — see COUNTER-WITNESSES.  Void is the library's
                      "absent" value; no reader (JSON, YAML, diff) produces it inside a document.
    `shortArrays b`   every array node of `b` has fewer than 2^53 elements.  List indices are written
                      as float64 JSON numbers (`Path.JsonNode`), the reader converts back with `int(f)`;
                      `wfHunk` asks `idxOK`.  Every index in a path is ≤ the length of an array of `b`
                      (cursor invariant `k + |rest of b| ≤ |ys|`, proved in `diff_ok`).  Not a practical
                      restriction (2^53 elements do not fit in memory); no hypothesis on `a`.
    `∀ z ∈ subterms a ++ subterms b, ValOK nc z`   the contract on encoding/json for the VALUES occurring
                      in the two documents (text has no newline and reads back as the value up to
                      `untag`); encoding/json is not modelled (`NativeRT.CodecOK`).
    `∀ h ∈ diffM o a b, PathOK nc h.path`   the same contract for the path arrays `["k",2,1]` of the
                      diff; paths are not sub-terms of the documents.  `diffM_pathOK_of_inputs` derives it
                      from the contract on all paths over `docKeys a ++ docKeys b` and indices < 2^53.
    `renderM nc [] (diffM o a b) = some text`   (theorem 4) the renderer produced a text; in the total
                      form replaced by `(marshalNode nc z).isSome` / `(jsonM nc (pathToJson p)).isSome`.

  COUNTER-WITNESSES (section 10, `Jd.E2E.Witness`): the statement is FALSE on the model for documents
  in the domain of the C01 list theorem that have a void ARRAY ELEMENT (`memOK` only forbids void
  object members).  Both documents of each pair satisfy `listDoc ∧ wf ∧ finiteNums ∧ memOK`, and
  `a.Patch(a.Diff(b))` is correct IN MEMORY:
    `void_element_witness_read`    `[void]` → `[]`: the text is `@ [0]` / `[` / `]` (a removed void
                                   value has no `-` line) and `ReadDiffString` REJECTS it.
    `void_element_witness_effect`  `[true,null]` → `[void,null]`: the text `@ [0]` / `[` / `- true` /
                                   `  null` (no `+` line) IS accepted, and the diff read back patches
                                   `[true,null]` to `[null]` — success, but not the target.
  These are not reachable from `jd a b | jd -p` (no reader yields void inside a document), so they
  document why `voidFree` is there rather than a defect of the Go code reachable from text.

  NON-VACUITY (section 9, `Jd.E2E.Example`): `{"k":[true,null,["x"]]}` → `{"k":[false,null,["x","y"]],"n":null}`
  (three hunks: `[` marker + after-context; a hunk inside the nested list with before-context + `]`
  marker; an added member), with the concrete codec `NativeRT.exCodec`: every hypothesis of every main
  theorem is proved (`dom`, `ex_hash`, `ex_vals`, `ex_paths`), `ex_diff` computes the diff, and
  `ex_end_to_end` is the end-to-end statement for this pair with only `FloatLaws` left.

  NOT PROVED here: SET / MULTISET readings, SetKeys, the MERGE strategy (their hunks carry set /
  keyed path elements or merge metadata: other premises); colour output.
-/
import JdModel
import JdSpec
import JdProofs.EqualsList
import JdProofs.StrictPatch
import JdProofs.DiffPatchList
import JdProofs.NativeRoundTrip
import JdProofs.Robust

set_option linter.unusedVariables false

namespace Jd.E2E
open Jd Jd.Spec Jd.DPL Jd.NativeRT Jd.Robust

/-! ## 1. predicates over the sub-terms of a document -/

/-- `Q` holds of every sub-term -/
def AllSub (Q : Json → Prop) (x : Json) : Prop := ∀ z ∈ subterms x, Q z
def AllSubL (Q : Json → Prop) (xs : List Json) : Prop := ∀ z ∈ subtermsList xs, Q z
def AllSubK (Q : Json → Prop) (kvs : List (String × Json)) : Prop := ∀ z ∈ subtermsKvs kvs, Q z

theorem AllSub.self {Q : Json → Prop} {x : Json} (h : AllSub Q x) : Q x := h x (self_mem_subterms x)

theorem AllSub.arr {Q : Json → Prop} {t : Tag} {xs : List Json} (h : AllSub Q (.arr t xs)) :
    AllSubL Q xs := fun z hz => h z (by simp [subterms, hz])

theorem AllSub.obj {Q : Json → Prop} {kvs : List (String × Json)} (h : AllSub Q (.obj kvs)) :
    AllSubK Q kvs := fun z hz => h z (by simp [subterms, hz])

theorem AllSubL.cons {Q : Json → Prop} {x : Json} {r : List Json} (h : AllSubL Q (x :: r)) :
    AllSub Q x ∧ AllSubL Q r :=
  ⟨fun z hz => h z (by simp [subtermsList, hz]), fun z hz => h z (by simp [subtermsList, hz])⟩

theorem AllSubL.nil {Q : Json → Prop} : AllSubL Q [] := fun z hz => by simp [subtermsList] at hz

theorem AllSubK.cons {Q : Json → Prop} {k : String} {v : Json} {r : List (String × Json)}
    (h : AllSubK Q ((k, v) :: r)) : AllSub Q v ∧ AllSubK Q r :=
  ⟨fun z hz => h z (by simp [subtermsKvs, hz]), fun z hz => h z (by simp [subtermsKvs, hz])⟩

theorem AllSubK.mem {Q : Json → Prop} {kvs : List (String × Json)} (h : AllSubK Q kvs)
    {kv : String × Json} (hm : kv ∈ kvs) : AllSub Q kv.2 :=
  fun z hz => h z (subterms_of_mem_kvs (k := kv.1) (v := kv.2) hm z hz)

theorem AllSubK.lookup {Q : Json → Prop} {kvs : List (String × Json)} (h : AllSubK Q kvs)
    {k : String} {v : Json} (hl : alookup k kvs = some v) : AllSub Q v :=
  AllSubK.mem h (kv := (k, v)) (mem_of_alookup hl)

theorem AllSubL.mem {Q : Json → Prop} : ∀ {xs : List Json}, AllSubL Q xs → ∀ {x : Json}, x ∈ xs →
    AllSub Q x
  | [], _, _, hx => by cases hx
  | y :: r, h, x, hx => by
    rcases List.mem_cons.1 hx with rfl | hx
    · exact (AllSubL.cons h).1
    · exact AllSubL.mem (AllSubL.cons h).2 hx

/-- the direct constituents of a node are not void -/
def KidsNV : Json → Prop
  | .arr _ xs => ∀ x ∈ xs, x.isVoid = false
  | .obj kvs => ∀ kv ∈ kvs, kv.2.isVoid = false
  | _ => True

/-- an array node has at most `N` elements -/
def Short (N : Nat) : Json → Prop
  | .arr _ xs => xs.length ≤ N
  | _ => True

/-- the keys of an object node are in `K` -/
def KeysIn (K : List String) : Json → Prop
  | .obj kvs => ∀ kv ∈ kvs, kv.1 ∈ K
  | _ => True

/-- paths of keys in `K` and natural indices up to `N` -/
def PathIn (K : List String) (N : Nat) : Path → Prop
  | [] => True
  | .key k :: r => k ∈ K ∧ PathIn K N r
  | .idx i :: r => (0 ≤ i ∧ i ≤ (N : Int)) ∧ PathIn K N r
  | _ => False

theorem PathIn.snoc_key {K : List String} {N : Nat} {k : String} (hk : k ∈ K) :
    ∀ {p : Path}, PathIn K N p → PathIn K N (p ++ [.key k])
  | [], _ => ⟨hk, trivial⟩
  | .key _ :: r, h => ⟨h.1, PathIn.snoc_key hk h.2⟩
  | .idx _ :: r, h => ⟨h.1, PathIn.snoc_key hk h.2⟩
  | .set :: _, h => h.elim
  | .mset :: _, h => h.elim
  | .setKeys _ :: _, h => h.elim
  | .msetKeys _ :: _, h => h.elim

theorem PathIn.snoc_idx {K : List String} {N : Nat} {i : Nat} (hi : i ≤ N) :
    ∀ {p : Path}, PathIn K N p → PathIn K N (p ++ [.idx (i : Int)])
  | [], _ => ⟨⟨Int.natCast_nonneg i, Int.ofNat_le.2 hi⟩, trivial⟩
  | .key _ :: r, h => ⟨h.1, PathIn.snoc_idx hi h.2⟩
  | .idx _ :: r, h => ⟨h.1, PathIn.snoc_idx hi h.2⟩
  | .set :: _, h => h.elim
  | .mset :: _, h => h.elim
  | .setKeys _ :: _, h => h.elim
  | .msetKeys _ :: _, h => h.elim


/-! ## 2. the shape of one generated hunk -/

/-- what the induction establishes of every hunk of a list-mode, strict-strategy diff; `P` is any
    property of payload values that holds of the sub-terms of both documents and survives the
    re-typing of an array as a `jsonList` -/
structure HunkOK (P : Json → Prop) (K : List String) (N : Nat) (h : Hunk) : Prop where
  strict : h.merge = false
  path : PathIn K N h.path
  before1 : h.before.length ≤ 1
  remNV : ∀ v ∈ h.remove, v.isVoid = false
  addNV : (∀ v ∈ h.add, v.isVoid = false) ∨ (h.path = [] ∧ h.add.length ≤ 1)
  some : h.remove ≠ [] ∨ ∃ v ∈ h.add, v.isVoid = false
  multi : (h.remove.length ≤ 1 ∧ h.add.length ≤ 1) ∨ ∃ q i, h.path = q ++ [PathElem.idx i]
  pay : ∀ v ∈ h.before ++ h.remove ++ h.add ++ h.after, v.isVoid = true ∨ P v

theorem accHunk_ok {P : Json → Prop} {K : List String} {N : Nat} {p : Path} {s : Nat}
    {prev after : Json} {R A : List Json}
    (hp : PathIn K N p) (hs : s ≤ N) (h1 : prev.isVoid = true ∨ P prev)
    (h2 : ∀ x ∈ R, x.isVoid = false ∧ P x) (h3 : ∀ x ∈ A, x.isVoid = false ∧ P x)
    (h4 : after.isVoid = true ∨ P after) :
    ∀ h ∈ accHunk p s prev R A after, HunkOK P K N h := by
  intro h hm
  unfold accHunk at hm
  split at hm
  · cases hm
  · next hne =>
    simp only [List.mem_singleton] at hm
    subst hm
    refine ⟨rfl, PathIn.snoc_idx hs hp, by simp, fun v hv => (h2 v hv).1,
      .inl (fun v hv => (h3 v hv).1), ?_, .inr ⟨p, s, rfl⟩, ?_⟩
    · simp only [Bool.and_eq_true, List.isEmpty_iff, not_and] at hne
      cases R with
      | cons x r => exact .inl (by simp)
      | nil =>
        right
        cases A with
        | nil => exact absurd rfl (hne rfl)
        | cons y r => exact ⟨y, by simp, (h3 y (by simp)).1⟩
    · intro v hv
      simp only [List.mem_append, List.mem_singleton] at hv
      rcases hv with ((rfl | hv) | hv) | rfl
      · exact h1
      · exact .inr (h2 v hv).2
      · exact .inr (h3 v hv).2
      · exact h4


/-- a hunk that came through `subAfter`: it agrees with a hunk of the sub-diff on everything but the
    after-context, which is unchanged or the next element of the source (or the end marker) -/
theorem HunkOK.of_subAfter {P : Json → Prop} {K : List String} {N : Nat} {h h0 : Hunk} {nx : Json}
    (g : HunkOK P K N h0) (e1 : h.path = h0.path) (e2 : h.remove = h0.remove) (e3 : h.add = h0.add)
    (e4 : h.before = h0.before) (e5 : h.merge = h0.merge)
    (ha : h.after = h0.after ∨ h.after = [nx]) (hnx : nx.isVoid = true ∨ P nx) :
    HunkOK P K N h := by
  refine ⟨by rw [e5]; exact g.strict, by rw [e1]; exact g.path, by rw [e4]; exact g.before1,
    by rw [e2]; exact g.remNV, by rw [e1, e3]; exact g.addNV, by rw [e2, e3]; exact g.some,
    by rw [e1, e2, e3]; exact g.multi, ?_⟩
  intro v hv
  rw [e4, e2, e3] at hv
  rcases ha with ha | ha
  · rw [ha] at hv; exact g.pay v hv
  · rw [ha] at hv
    simp only [List.mem_append, List.mem_singleton] at hv
    rcases hv with hv | rfl
    · exact g.pay v (by simp only [List.mem_append]; exact .inl hv)
    · exact hnx

theorem mem_nodeList {v n : Json} : v ∈ n.nodeList ↔ v = n ∧ n.isVoid = false := by
  unfold Json.nodeList
  cases h : n.isVoid <;> simp

theorem nodeList_length_le (n : Json) : n.nodeList.length ≤ 1 := by
  unfold Json.nodeList
  split <;> simp

theorem nodeList_ne_nil {n : Json} (h : n.isVoid = false) : n.nodeList ≠ [] := by
  unfold Json.nodeList
  simp [h]

/-! ## 3. the induction over `diffNode` / `diffKvs` / `diffRest` -/

/-- what is known of the sub-terms of the source document -/
def QA (P : Json → Prop) (K : List String) (z : Json) : Prop := KidsNV z ∧ KeysIn K z ∧ P z
/-- what is known of the sub-terms of the target document -/
def QB (P : Json → Prop) (K : List String) (N : Nat) (z : Json) : Prop :=
  KidsNV z ∧ KeysIn K z ∧ P z ∧ Short N z

theorem diff_ok (o : Opts) (ho : dispatchTag o = .list) (P : Json → Prop)
    (hP : ∀ t xs, P (.arr t xs) → P (.arr .list xs)) (K : List String) (N : Nat) :
    (∀ a b, a.listDoc = true → b.listDoc = true → AllSub (QA P K) a → AllSub (QB P K N) b →
      ∀ p, PathIn K N p → (b.isVoid = true → p = []) →
      ∀ h ∈ diffNode o false a b p, HunkOK P K N h) ∧
    (∀ kvs' kvs, listDocKvs kvs' = true → listDocKvs kvs = true →
      AllSubK (QA P K) kvs → AllSubK (QB P K N) kvs' →
      (∀ kv ∈ kvs, kv.2.isVoid = false ∧ kv.1 ∈ K) → (∀ kv ∈ kvs', kv.2.isVoid = false ∧ kv.1 ∈ K) →
      ∀ p, PathIn K N p → ∀ h ∈ diffKvs o false p kvs' kvs, HunkOK P K N h) ∧
    (∀ k s prev a b c R A, listDocList a = true → listDocList b = true →
      AllSubL (QA P K) a → AllSubL (QB P K N) b →
      (∀ x ∈ a, x.isVoid = false) → (∀ x ∈ b, x.isVoid = false) →
      ∀ p, PathIn K N p → k + b.length ≤ N → s ≤ k → (prev.isVoid = true ∨ P prev) →
      (∀ x ∈ R, x.isVoid = false ∧ P x) → (∀ x ∈ A, x.isVoid = false ∧ P x) →
      ∀ h ∈ diffRest o p k s prev a b c R A, HunkOK P K N h) := by
  apply listDiff_induct o ho
    (mN := fun a b => AllSub (QA P K) a → AllSub (QB P K N) b →
      ∀ p, PathIn K N p → (b.isVoid = true → p = []) →
      ∀ h ∈ diffNode o false a b p, HunkOK P K N h)
    (mK := fun kvs' kvs => AllSubK (QA P K) kvs → AllSubK (QB P K N) kvs' →
      (∀ kv ∈ kvs, kv.2.isVoid = false ∧ kv.1 ∈ K) → (∀ kv ∈ kvs', kv.2.isVoid = false ∧ kv.1 ∈ K) →
      ∀ p, PathIn K N p → ∀ h ∈ diffKvs o false p kvs' kvs, HunkOK P K N h)
    (mR := fun k s prev a b c R A => AllSubL (QA P K) a → AllSubL (QB P K N) b →
      (∀ x ∈ a, x.isVoid = false) → (∀ x ∈ b, x.isVoid = false) →
      ∀ p, PathIn K N p → k + b.length ≤ N → s ≤ k → (prev.isVoid = true ∨ P prev) →
      (∀ x ∈ R, x.isVoid = false ∧ P x) → (∀ x ∈ A, x.isVoid = false ∧ P x) →
      ∀ h ∈ diffRest o p k s prev a b c R A, HunkOK P K N h)
  · -- list against list
    intro t t' xs ys ht ht' htt _ _ ih hA hB p hp _ h hm
    rw [diffNode_arr_arr ho xs ys ht ht' htt] at hm
    have hlen : 0 + ys.length ≤ N := by
      have := hB.self.2.2.2; simpa [Short] using this
    exact ih hA.arr hB.arr hA.self.1 hB.self.1 p hp hlen (Nat.le_refl 0) (.inl rfl)
      (by simp) (by simp) h hm
  · -- list against something else
    intro t xs b ht _ _ hbb hA hB p hp _ h hm
    rw [diffNode_arr_other ho xs b ht hbb] at hm
    simp only [List.mem_singleton] at hm
    subst hm
    refine ⟨rfl, hp, by simp, by simp [Json.isVoid], .inl (fun v hv => ?_), .inl (by simp),
      .inl ⟨by simp, nodeList_length_le b⟩, ?_⟩
    · rw [(mem_nodeList.1 hv).1]; exact (mem_nodeList.1 hv).2
    · intro v hv
      simp only [List.nil_append, List.append_nil, List.mem_append, List.mem_singleton] at hv
      rcases hv with rfl | hv
      · exact .inr (hP t xs hA.self.2.2)
      · rw [(mem_nodeList.1 hv).1]; exact .inr hB.self.2.2.1
  · -- object against object
    intro kvs kvs' _ _ ih hA hB p hp _ h hm
    have kA : ∀ kv ∈ kvs, kv.2.isVoid = false ∧ kv.1 ∈ K :=
      fun kv hkv => ⟨hA.self.1 kv hkv, hA.self.2.1 kv hkv⟩
    have kB : ∀ kv ∈ kvs', kv.2.isVoid = false ∧ kv.1 ∈ K :=
      fun kv hkv => ⟨hB.self.1 kv hkv, hB.self.2.1 kv hkv⟩
    rw [diffNode_obj_obj, List.mem_append] at hm
    rcases hm with hm | hm
    · exact ih hA.obj hB.obj kA kB p hp h hm
    · obtain ⟨kv, hkv, rfl⟩ := List.mem_map.1 hm
      have hkv' : kv ∈ kvs' := (List.mem_filter.1 hkv).1
      have nv := (kB kv hkv').1
      refine ⟨rfl, PathIn.snoc_key (kB kv hkv').2 hp, by simp, by simp, .inl (fun v hv => ?_),
        .inr ⟨kv.2, mem_nodeList.2 ⟨rfl, nv⟩, nv⟩, .inl ⟨by simp, nodeList_length_le _⟩, ?_⟩
      · rw [(mem_nodeList.1 hv).1]; exact nv
      · intro v hv
        simp only [List.nil_append, List.append_nil] at hv
        rw [(mem_nodeList.1 hv).1]
        exact .inr (hB.obj.mem hkv').self.2.2.1
  · -- object against something else
    intro kvs b _ _ hbb hA hB p hp hbv h hm
    rw [diffNode_obj_other o kvs b hbb] at hm
    simp only [List.mem_singleton] at hm
    subst hm
    refine ⟨rfl, hp, by simp, by simp [Json.isVoid], ?_, .inl (by simp), .inl ⟨by simp, by simp⟩, ?_⟩
    · cases hb : b.isVoid with
      | false => exact .inl (by simp [hb])
      | true => exact .inr ⟨hbv hb, by simp⟩
    · intro v hv
      simp only [List.nil_append, List.append_nil, List.mem_append, List.mem_singleton] at hv
      rcases hv with rfl | rfl
      · exact .inr hA.self.2.2
      · exact .inr hB.self.2.2.1
  · -- scalars
    intro a b h1 h2 _ hA hB p hp _ h hm
    rw [diffNode_scalar o a b h1 h2] at hm
    unfold diffCommon at hm
    split at hm
    · cases hm
    · next hne =>
      simp only [Bool.false_eq_true, if_false, List.mem_singleton] at hm
      subst hm
      refine ⟨rfl, hp, by simp, fun v hv => ?_, .inl (fun v hv => ?_), ?_,
        .inl ⟨nodeList_length_le a, nodeList_length_le b⟩, ?_⟩
      · rw [(mem_nodeList.1 hv).1]; exact (mem_nodeList.1 hv).2
      · rw [(mem_nodeList.1 hv).1]; exact (mem_nodeList.1 hv).2
      · cases ha : a.isVoid with
        | false => exact .inl (nodeList_ne_nil ha)
        | true =>
          right
          have hb : b.isVoid = false := by
            cases a <;> simp [Json.isVoid] at ha
            simpa [equals] using hne
          exact ⟨b, mem_nodeList.2 ⟨rfl, hb⟩, hb⟩
      · intro v hv
        simp only [List.nil_append, List.append_nil, List.mem_append] at hv
        rcases hv with hv | hv
        · rw [(mem_nodeList.1 hv).1]; exact .inr hA.self.2.2
        · rw [(mem_nodeList.1 hv).1]; exact .inr hB.self.2.2.1
  · intro kvs' _ _ _ _ p _ h hm
    rw [diffKvs_nil] at hm; cases hm
  · -- one key of the first object
    intro kvs' k v r hl' _ _ ihN ihK hA hB kA kB p hp h hm
    rw [diffKvs_cons, List.mem_append] at hm
    have hkv := kA (k, v) (List.mem_cons_self ..)
    rcases hm with hm | hm
    · cases hlk : alookup k kvs' with
      | none =>
        rw [hlk] at hm
        simp only [List.mem_singleton] at hm
        subst hm
        refine ⟨rfl, PathIn.snoc_key hkv.2 hp, by simp, fun w hw => ?_, .inl (by simp),
          .inl (nodeList_ne_nil hkv.1), .inl ⟨nodeList_length_le _, by simp⟩, ?_⟩
        · rw [(mem_nodeList.1 hw).1]; exact hkv.1
        · intro w hw
          simp only [List.nil_append, List.append_nil] at hw
          rw [(mem_nodeList.1 hw).1]
          exact .inr hA.cons.1.self.2.2
      | some v' =>
        rw [hlk] at hm
        have hv' := alookup_listDoc hlk hl'
        have nv' := (kB (k, v') (mem_of_alookup hlk)).1
        exact ihN v' hv' hA.cons.1 (hB.lookup hlk) (p ++ [.key k]) (PathIn.snoc_key hkv.2 hp)
          (fun e => by rw [nv'] at e; cases e) h hm
    · exact ihK hA.cons.2 hB (fun kv hk => kA kv (List.mem_cons_of_mem _ hk)) kB p hp h hm
  · -- first list exhausted
    intro k s prev c R A b _ _ hB _ nB p hp hk hs h1 h2 h3 h hm
    rw [diffRest_nilA] at hm
    refine accHunk_ok hp (by omega) h1 h2 (fun x hx => ?_) (.inl rfl) h hm
    rcases List.mem_append.1 hx with hx | hx
    · exact h3 x hx
    · exact ⟨nB x hx, (hB.mem hx).self.2.2.1⟩
  · -- second list exhausted
    intro k s prev c R A a hne _ hA _ nA _ p hp hk hs h1 h2 h3 h hm
    rw [diffRest_nilB _ _ _ _ _ _ _ _ _ hne] at hm
    refine accHunk_ok hp (by omega) h1 (fun x hx => ?_) h3 (.inl rfl) h hm
    rcases List.mem_append.1 hx with hx | hx
    · exact h2 x hx
    · exact ⟨nA x hx, (hA.mem hx).self.2.2⟩
  · -- both cursors at the common element
    intro k s prev c R A x a' y b' _ _ hcA hcB ih hA hB nA nB p hp hk hs h1 h2 h3 h hm
    rw [diffRest_cons] at hm
    simp only [hcA, hcB, Bool.and_self, if_true, List.mem_append] at hm
    simp only [List.length_cons] at hk
    rcases hm with hm | hm
    · exact accHunk_ok hp (by omega) h1 h2 h3 (.inr hA.cons.1.self.2.2) h hm
    · exact ih hA.cons.2 hB.cons.2 (fun z hz => nA z (List.mem_cons_of_mem _ hz))
        (fun z hz => nB z (List.mem_cons_of_mem _ hz)) p hp (by omega) (Nat.le_refl _)
        (.inr hB.cons.1.self.2.2.1) (by simp) (by simp) h hm
  · -- only the first cursor at the common element: `y` is added
    intro k s prev c R A x a' y b' _ _ hcA hcB ih hA hB nA nB p hp hk hs h1 h2 h3 h hm
    rw [diffRest_cons] at hm
    simp only [hcA, hcB, Bool.and_false, Bool.false_eq_true, if_false, if_true] at hm
    simp only [List.length_cons] at hk
    refine ih hA hB.cons.2 nA (fun z hz => nB z (List.mem_cons_of_mem _ hz)) p hp (by omega)
      (by omega) h1 h2 (fun z hz => ?_) h hm
    rcases List.mem_append.1 hz with hz | hz
    · exact h3 z hz
    · rw [List.mem_singleton.1 hz]
      exact ⟨nB y (List.mem_cons_self ..), hB.cons.1.self.2.2.1⟩
  · -- only the second cursor at the common element: `x` is removed
    intro k s prev c R A x a' y b' _ _ hcA hcB ih hA hB nA nB p hp hk hs h1 h2 h3 h hm
    rw [diffRest_cons] at hm
    simp only [hcA, hcB, Bool.false_and, Bool.false_eq_true, if_false, if_true] at hm
    refine ih hA.cons.2 hB (fun z hz => nA z (List.mem_cons_of_mem _ hz)) nB p hp hk hs h1
      (fun z hz => ?_) h3 h hm
    rcases List.mem_append.1 hz with hz | hz
    · exact h2 z hz
    · rw [List.mem_singleton.1 hz]
      exact ⟨nA x (List.mem_cons_self ..), hA.cons.1.self.2.2⟩
  · -- two containers of the same type: sub-diff
    intro k s prev c R A x a' y b' _ _ hcA hcB hs' ihN ihR hA hB nA nB p hp hk hs h1 h2 h3 h hm
    rw [diffRest_cons] at hm
    simp only [hcA, hcB, hs', Bool.false_and, Bool.false_eq_true, if_false, if_true,
      List.mem_append] at hm
    simp only [List.length_cons] at hk
    have nvy := nB y (List.mem_cons_self ..)
    rcases hm with (hm | hm) | hm
    · refine accHunk_ok hp (by omega) h1 h2 h3 ?_ h hm
      split
      · cases a' with
        | nil => exact .inl rfl
        | cons z r => exact .inr hA.cons.2.cons.1.self.2.2
      · exact .inr hA.cons.1.self.2.2
    · obtain ⟨h0, hm0, e1, e2, e3, e4, e5, ha⟩ := mem_subAfter' hm
      refine (ihN hA.cons.1 hB.cons.1 (p ++ [.idx k]) (PathIn.snoc_idx (by omega) hp)
        (fun e => by rw [nvy] at e; cases e) h0 hm0).of_subAfter e1 e2 e3 e4 e5 ha ?_
      cases a' with
      | nil => exact .inl rfl
      | cons z r => exact .inr hA.cons.2.cons.1.self.2.2
    · exact ihR hA.cons.2 hB.cons.2 (fun z hz => nA z (List.mem_cons_of_mem _ hz))
        (fun z hz => nB z (List.mem_cons_of_mem _ hz)) p hp (by omega) (Nat.le_refl _)
        (.inr hB.cons.1.self.2.2.1) (by simp) (by simp) h hm
  · -- different kinds: `x` removed, `y` added
    intro k s prev c R A x a' y b' _ _ hcA hcB hs' ih hA hB nA nB p hp hk hs h1 h2 h3 h hm
    rw [diffRest_cons] at hm
    simp only [hcA, hcB, hs', Bool.false_and, Bool.false_eq_true, if_false] at hm
    simp only [List.length_cons] at hk
    refine ih hA.cons.2 hB.cons.2 (fun z hz => nA z (List.mem_cons_of_mem _ hz))
      (fun z hz => nB z (List.mem_cons_of_mem _ hz)) p hp (by omega) (by omega) h1
      (fun z hz => ?_) (fun z hz => ?_) h hm
    · rcases List.mem_append.1 hz with hz | hz
      · exact h2 z hz
      · rw [List.mem_singleton.1 hz]
        exact ⟨nA x (List.mem_cons_self ..), hA.cons.1.self.2.2⟩
    · rcases List.mem_append.1 hz with hz | hz
      · exact h3 z hz
      · rw [List.mem_singleton.1 hz]
        exact ⟨nB y (List.mem_cons_self ..), hB.cons.1.self.2.2.1⟩


/-! ## 4. a generated hunk satisfies the premises of the round-trip theorems -/

theorem PathIn.strict {K : List String} {N : Nat} : ∀ {p : Path}, PathIn K N p → strictPath p = true
  | [], _ => rfl
  | .key _ :: r, h => by simp only [strictPath]; exact PathIn.strict h.2
  | .idx _ :: r, h => by simp only [strictPath]; exact PathIn.strict h.2
  | .set :: _, h => h.elim
  | .mset :: _, h => h.elim
  | .setKeys _ :: _, h => h.elim
  | .msetKeys _ :: _, h => h.elim

theorem PathIn.idxOK {K : List String} {N : Nat} (hN : N < 2 ^ 53) :
    ∀ {p : Path}, PathIn K N p → idxOK p = true
  | [], _ => rfl
  | .key _ :: r, h => by simp only [NativeRT.idxOK]; exact PathIn.idxOK hN h.2
  | .idx i :: r, h => by
    simp only [NativeRT.idxOK, Bool.and_eq_true, beq_iff_eq]
    exact ⟨NativeRT.floatTrunc_intToFloatBits i (by have := h.1; omega), PathIn.idxOK hN h.2⟩
  | .set :: _, h => h.elim
  | .mset :: _, h => h.elim
  | .setKeys _ :: _, h => h.elim
  | .msetKeys _ :: _, h => h.elim

/-- no keyed path element at all -/
theorem PathIn.noEmptySetKeys {K : List String} {N : Nat} :
    ∀ {p : Path}, PathIn K N p → noEmptySetKeysP p = true
  | [], _ => rfl
  | .key _ :: r, h => by
    have := PathIn.noEmptySetKeys h.2
    simpa [noEmptySetKeysP] using this
  | .idx _ :: r, h => by
    have := PathIn.noEmptySetKeys h.2
    simpa [noEmptySetKeysP] using this
  | .set :: _, h => h.elim
  | .mset :: _, h => h.elim
  | .setKeys _ :: _, h => h.elim
  | .msetKeys _ :: _, h => h.elim

theorem PathIn.listDocPath {K : List String} {N : Nat} :
    ∀ {p : Path}, PathIn K N p → listDocPath p = true
  | [], _ => rfl
  | .key _ :: r, h => by simp only [NativeRT.listDocPath]; exact PathIn.listDocPath h.2
  | .idx _ :: r, h => by simp only [NativeRT.listDocPath]; exact PathIn.listDocPath h.2
  | .set :: _, h => h.elim
  | .mset :: _, h => h.elim
  | .setKeys _ :: _, h => h.elim
  | .msetKeys _ :: _, h => h.elim

theorem multiLast_snoc_idx (q : Path) (i : Int) : multiLast (q ++ [PathElem.idx i]) = true := by
  unfold multiLast
  rw [List.getLast?_append]
  simp only [List.getLast?_singleton, Option.some_or]
  rfl

theorem filter_nonvoid_self {l : List Json} (h : ∀ v ∈ l, v.isVoid = false) :
    l.filter (fun v => !v.isVoid) = l :=
  List.filter_eq_self.2 (fun v hv => by simp [h v hv])

theorem HunkOK.remLines {P : Json → Prop} {K : List String} {N : Nat} {h : Hunk}
    (hk : HunkOK P K N h) : remLines h = h.remove := filter_nonvoid_self hk.remNV

theorem HunkOK.addLines {P : Json → Prop} {K : List String} {N : Nat} {h : Hunk}
    (hk : HunkOK P K N h) : addLines h = h.add.filter (fun v => !v.isVoid) := by
  unfold NativeRT.addLines; rw [hk.strict]; rfl

theorem HunkOK.wfHunk {P : Json → Prop} {K : List String} {N : Nat} (hN : N < 2 ^ 53) {h : Hunk}
    (hk : HunkOK P K N h) : wfHunk h = true := by
  unfold NativeRT.wfHunk
  rw [hk.remLines, hk.addLines]
  simp only [Bool.and_eq_true, Bool.or_eq_true]
  refine ⟨⟨⟨PathIn.idxOK hN hk.path, ?_⟩, ?_⟩, ?_⟩
  · have : h.before.drop 1 = [] := by
      have := hk.before1
      cases hb : h.before with
      | nil => rfl
      | cons x r => rw [hb] at this; cases r <;> simp_all
    rw [this]; rfl
  · rcases hk.some with h1 | ⟨v, hv, nv⟩
    · left
      cases hr : h.remove with
      | nil => exact absurd hr h1
      | cons x r => rfl
    · right
      have : v ∈ h.add.filter (fun v => !v.isVoid) := List.mem_filter.2 ⟨hv, by simp [nv]⟩
      cases hf : h.add.filter (fun v => !v.isVoid) with
      | nil => rw [hf] at this; cases this
      | cons x r => rfl
  · rcases hk.multi with ⟨h1, h2⟩ | ⟨q, i, hq⟩
    · left
      have := List.length_filter_le (fun v : Json => !v.isVoid) h.add
      exact ⟨by simp only [decide_eq_true_eq]; omega, by simpa using h1⟩
    · right; rw [hq]; exact multiLast_snoc_idx q i

theorem HunkOK.voidOK {P : Json → Prop} {K : List String} {N : Nat} {h : Hunk}
    (hk : HunkOK P K N h) : voidOK h = true := by
  unfold Robust.voidOK
  rw [hk.strict]
  have hr : Robust.noVoid h.remove = true := by
    unfold Robust.noVoid; rw [List.all_eq_true]; intro v hv; simp [hk.remNV v hv]
  simp only [Bool.false_eq_true, if_false, Bool.or_eq_true, Bool.and_eq_true]
  rcases hk.addNV with h1 | ⟨h1, h2⟩
  · left
    refine ⟨hr, ?_⟩
    unfold Robust.noVoid; rw [List.all_eq_true]; intro v hv; simp [h1 v hv]
  · right
    refine ⟨⟨by rw [h1]; rfl, by unfold voidAlone; simp [hr]⟩, ?_⟩
    unfold voidAlone; simp [h2]

theorem HunkOK.hunkListDoc {P : Json → Prop} {K : List String} {N : Nat} {h : Hunk}
    (hPl : ∀ v, P v → v.listDoc = true) (hk : HunkOK P K N h) : hunkListDoc h = true := by
  have key : ∀ v ∈ h.before ++ h.remove ++ h.add ++ h.after, v.listDoc = true := by
    intro v hv
    rcases hk.pay v hv with h1 | h1
    · cases v <;> simp [Json.isVoid] at h1; rfl
    · exact hPl v h1
  unfold Spec.hunkListDoc
  simp only [Bool.and_eq_true, listDocList_iff]
  refine ⟨⟨⟨?_, ?_⟩, ?_⟩, ?_⟩ <;> intro v hv <;> exact key v (by simp [hv])

theorem HunkOK.listHunkOK {P : Json → Prop} {K : List String} {N : Nat} {h : Hunk}
    (hPl : ∀ v, P v → v.listDoc = true) (hk : HunkOK P K N h) : listHunkOK h = true := by
  unfold Robust.listHunkOK
  simp only [Bool.and_eq_true, Bool.or_eq_true]
  exact ⟨hk.voidOK, .inr ⟨PathIn.strict hk.path, hk.hunkListDoc hPl⟩⟩

theorem HunkOK.payloads {P : Json → Prop} {K : List String} {N : Nat} {h : Hunk}
    (hk : HunkOK P K N h) : ∀ v ∈ payloads h, P v := by
  intro v hv
  unfold NativeRT.payloads at hv
  obtain ⟨h1, h2⟩ := List.mem_filter.1 hv
  rcases hk.pay v h1 with h3 | h3
  · simp [h3] at h2
  · exact h3

theorem mergeMono_of_strict : ∀ (d : Diff) (m : Bool), m = false → (∀ h ∈ d, h.merge = false) →
    mergeMono m d = true
  | [], _, _, _ => rfl
  | h :: r, m, hm, hd => by
    subst hm
    simp only [mergeMono, Bool.not_false, Bool.true_or, Bool.true_and]
    exact mergeMono_of_strict r h.merge (hd h (List.mem_cons_self ..))
      (fun x hx => hd x (List.mem_cons_of_mem _ hx))


/-! ## 5. decidable hypotheses on the two documents -/

/-- no array element and no object member of this node is void -/
def kidsNonVoid : Json → Bool
  | .arr _ xs => xs.all (fun x => !x.isVoid)
  | .obj kvs => kvs.all (fun kv => !kv.2.isVoid)
  | _ => true

/-- nothing strictly inside the document is void (void stands for "absent"; no reader produces it
    inside a document). For object members this is `DPL.memOK`; for array ELEMENTS it is new, and
    needed: see `void_element_witness_read`, `void_element_witness_effect`. -/
def voidFree (x : Json) : Bool := (subterms x).all kidsNonVoid

def shortArr : Json → Bool
  | .arr _ xs => decide (xs.length < 2 ^ 53)
  | _ => true

/-- every array node has fewer than 2^53 elements (list indices are written as float64 numbers) -/
def shortArrays (x : Json) : Bool := (subterms x).all shortArr

/-- all object keys occurring in the document -/
def docKeys (x : Json) : List String :=
  (subterms x).flatMap (fun z => match z with | .obj kvs => kvs.map (·.1) | _ => [])

theorem kidsNV_of {z : Json} (h : kidsNonVoid z = true) : KidsNV z := by
  cases z with
  | arr t xs =>
    simp only [kidsNonVoid, List.all_eq_true] at h
    exact fun x hx => by simpa using h x hx
  | obj kvs =>
    simp only [kidsNonVoid, List.all_eq_true] at h
    exact fun kv hkv => by simpa using h kv hkv
  | _ => trivial

theorem short_of {z : Json} (h : shortArr z = true) : Short (2 ^ 53 - 1) z := by
  cases z <;> simp_all [shortArr, Short]
  omega

theorem keysIn_docKeys {x z : Json} (hz : z ∈ subterms x) : KeysIn (docKeys x) z := by
  cases z with
  | obj kvs =>
    intro kv hkv
    unfold docKeys
    exact List.mem_flatMap.2 ⟨.obj kvs, hz, List.mem_map.2 ⟨kv, hkv, rfl⟩⟩
  | _ => trivial

theorem KeysIn.mono {K K' : List String} (hs : ∀ k ∈ K, k ∈ K') {z : Json} (h : KeysIn K z) :
    KeysIn K' z := by
  cases z with
  | obj kvs => exact fun kv hkv => hs _ (h kv hkv)
  | _ => trivial

mutual
theorem listDoc_subterms : ∀ a : Json, a.listDoc = true → ∀ z ∈ subterms a, z.listDoc = true
  | .arr t xs, h, z, hz => by
    simp only [subterms, List.mem_cons] at hz
    rcases hz with rfl | hz
    · exact h
    · simp only [Json.listDoc, Bool.and_eq_true] at h
      exact listDoc_subtermsList xs h.2 z hz
  | .obj kvs, h, z, hz => by
    simp only [subterms, List.mem_cons] at hz
    rcases hz with rfl | hz
    · exact h
    · simp only [Json.listDoc] at h
      exact listDoc_subtermsKvs kvs h z hz
  | .void, h, z, hz => by simp only [subterms, List.mem_singleton] at hz; rw [hz]; rfl
  | .null, h, z, hz => by simp only [subterms, List.mem_singleton] at hz; rw [hz]; rfl
  | .bool _, h, z, hz => by simp only [subterms, List.mem_singleton] at hz; rw [hz]; rfl
  | .num _, h, z, hz => by simp only [subterms, List.mem_singleton] at hz; rw [hz]; rfl
  | .str _, h, z, hz => by simp only [subterms, List.mem_singleton] at hz; rw [hz]; rfl
theorem listDoc_subtermsList : ∀ xs : List Json, listDocList xs = true →
    ∀ z ∈ subtermsList xs, z.listDoc = true
  | [], _, z, hz => by simp [subtermsList] at hz
  | x :: r, h, z, hz => by
    simp only [listDocList, Bool.and_eq_true] at h
    simp only [subtermsList, List.mem_append] at hz
    rcases hz with hz | hz
    · exact listDoc_subterms x h.1 z hz
    · exact listDoc_subtermsList r h.2 z hz
theorem listDoc_subtermsKvs : ∀ kvs : List (String × Json), listDocKvs kvs = true →
    ∀ z ∈ subtermsKvs kvs, z.listDoc = true
  | [], _, z, hz => by simp [subtermsKvs] at hz
  | (k, v) :: r, h, z, hz => by
    simp only [listDocKvs, Bool.and_eq_true] at h
    simp only [subtermsKvs, List.mem_append] at hz
    rcases hz with hz | hz
    · exact listDoc_subterms v h.1 z hz
    · exact listDoc_subtermsKvs r h.2 z hz
end

/-- **the generated hunks.** List mode, strict strategy, list documents with nothing void inside,
    arrays of the target shorter than 2^53; `P0` any property of the sub-terms of both documents
    that does not depend on the Go type of an array node: every hunk of `a.Diff(b)` is `HunkOK`. -/
theorem diffM_hunkOK (o : Opts) (ho : dispatchTag o = .list) (hm : isMerge o = false) (a b : Json)
    (ha : a.listDoc = true) (hb : b.listDoc = true) (hva : voidFree a = true)
    (hvb : voidFree b = true) (hlen : shortArrays b = true)
    (P0 : Json → Prop) (hP0 : ∀ t xs, P0 (.arr t xs) → P0 (.arr .list xs))
    (h0 : ∀ z ∈ subterms a ++ subterms b, P0 z) :
    ∀ h ∈ diffM o a b,
      HunkOK (fun z => z.listDoc = true ∧ P0 z) (docKeys a ++ docKeys b) (2 ^ 53 - 1) h := by
  intro h hmem
  unfold diffM at hmem
  rw [hm] at hmem
  unfold voidFree at hva hvb
  unfold shortArrays at hlen
  rw [List.all_eq_true] at hva hvb hlen
  refine (diff_ok o ho (fun z => z.listDoc = true ∧ P0 z) ?_ (docKeys a ++ docKeys b)
    (2 ^ 53 - 1)).1 a b ha hb ?_ ?_ [] trivial (fun _ => rfl) h hmem
  · intro t xs hh
    refine ⟨?_, hP0 t xs hh.2⟩
    have := hh.1
    simp only [Json.listDoc, Bool.and_eq_true] at this ⊢
    exact ⟨by simp, this.2⟩
  · intro z hz
    exact ⟨kidsNV_of (hva z hz),
      KeysIn.mono (fun k hk => List.mem_append_left _ hk) (keysIn_docKeys hz),
      listDoc_subterms a ha z hz, h0 z (List.mem_append_left _ hz)⟩
  · intro z hz
    exact ⟨kidsNV_of (hvb z hz),
      KeysIn.mono (fun k hk => List.mem_append_right _ hk) (keysIn_docKeys hz),
      ⟨listDoc_subterms b hb z hz, h0 z (List.mem_append_right _ hz)⟩, short_of (hlen z hz)⟩

/-- **the premises of the round-trip theorems hold of `a.Diff(b)`**: the hunk sequence is in the
    domain of the reader (`wfDiff`), every hunk is in the domain of the list-mode effect theorem
    (`listHunkOK`: void entries harmless, key / index path, list-document payloads), there is no
    keyed path element (`noEmptySetKeys`), and every path consists of keys of the two documents
    and of natural indices below 2^53 -/
theorem diffM_premises (o : Opts) (ho : dispatchTag o = .list) (hm : isMerge o = false) (a b : Json)
    (ha : a.listDoc = true) (hb : b.listDoc = true) (hva : voidFree a = true)
    (hvb : voidFree b = true) (hlen : shortArrays b = true) :
    wfDiff (diffM o a b) = true ∧ (diffM o a b).all listHunkOK = true ∧
    noEmptySetKeys (diffM o a b) = true ∧
    (∀ h ∈ diffM o a b, h.merge = false ∧ voidOK h = true ∧
      PathIn (docKeys a ++ docKeys b) (2 ^ 53 - 1) h.path) := by
  have key := diffM_hunkOK o ho hm a b ha hb hva hvb hlen (fun _ => True) (fun _ _ _ => trivial)
    (fun _ _ => trivial)
  refine ⟨?_, ?_, ?_, fun h hh => ⟨(key h hh).strict, (key h hh).voidOK, (key h hh).path⟩⟩
  · unfold NativeRT.wfDiff
    rw [Bool.and_eq_true, List.all_eq_true]
    exact ⟨fun h hh => (key h hh).wfHunk (by decide),
      mergeMono_of_strict _ false rfl (fun h hh => (key h hh).strict)⟩
  · rw [List.all_eq_true]
    exact fun h hh => (key h hh).listHunkOK (fun v hv => hv.1)
  · unfold Robust.noEmptySetKeys
    rw [List.all_eq_true]
    exact fun h hh => PathIn.noEmptySetKeys (key h hh).path

/-- every payload value of `a.Diff(b)` has every property `P0` that all sub-terms of `a` and `b`
    have and that does not depend on the Go type of an array node -/
theorem diffM_payloads (o : Opts) (ho : dispatchTag o = .list) (hm : isMerge o = false) (a b : Json)
    (ha : a.listDoc = true) (hb : b.listDoc = true) (hva : voidFree a = true)
    (hvb : voidFree b = true) (hlen : shortArrays b = true)
    (P0 : Json → Prop) (hP0 : ∀ t xs, P0 (.arr t xs) → P0 (.arr .list xs))
    (h0 : ∀ z ∈ subterms a ++ subterms b, P0 z) :
    ∀ h ∈ diffM o a b, ∀ v ∈ payloads h, P0 v :=
  fun h hh v hv =>
    ((diffM_hunkOK o ho hm a b ha hb hva hvb hlen P0 hP0 h0 h hh).payloads v hv).2


/-- no set / multiset typed array node in the payloads, no key object in the paths: the premise of
    the identical re-rendering theorem `NativeRT.render_norm` -/
theorem diffM_listDocHunk (o : Opts) (ho : dispatchTag o = .list) (hm : isMerge o = false)
    (a b : Json) (ha : a.listDoc = true) (hb : b.listDoc = true) (hva : voidFree a = true)
    (hvb : voidFree b = true) (hlen : shortArrays b = true) :
    (diffM o a b).all listDocHunk = true := by
  have key := diffM_hunkOK o ho hm a b ha hb hva hvb hlen (fun _ => True) (fun _ _ _ => trivial)
    (fun _ _ => trivial)
  rw [List.all_eq_true]
  intro h hh
  unfold NativeRT.listDocHunk
  rw [Bool.and_eq_true]
  exact ⟨(key h hh).hunkListDoc (fun v hv => hv.1), PathIn.listDocPath (key h hh).path⟩

mutual
/-- `voidFree` contains `DPL.memOK` (no void object member) -/
theorem memOK_of_kids : ∀ x : Json, (∀ z ∈ subterms x, kidsNonVoid z = true) → memOK x = true
  | .arr t xs, h => by
    simp only [memOK]
    exact memOKList_of_kids xs (fun z hz => h z (by simp [subterms, hz]))
  | .obj kvs, h => by
    simp only [memOK]
    have hk := h (.obj kvs) (self_mem_subterms _)
    simp only [kidsNonVoid, List.all_eq_true] at hk
    exact memOKKvs_of_kids kvs (fun kv hkv => by simpa using hk kv hkv)
      (fun z hz => h z (by simp [subterms, hz]))
  | .void, _ => rfl
  | .null, _ => rfl
  | .bool _, _ => rfl
  | .num _, _ => rfl
  | .str _, _ => rfl
theorem memOKList_of_kids : ∀ xs : List Json, (∀ z ∈ subtermsList xs, kidsNonVoid z = true) →
    memOKList xs = true
  | [], _ => rfl
  | x :: r, h => by
    simp only [memOKList, Bool.and_eq_true]
    exact ⟨memOK_of_kids x (fun z hz => h z (by simp [subtermsList, hz])),
      memOKList_of_kids r (fun z hz => h z (by simp [subtermsList, hz]))⟩
theorem memOKKvs_of_kids : ∀ kvs : List (String × Json), (∀ kv ∈ kvs, kv.2.isVoid = false) →
    (∀ z ∈ subtermsKvs kvs, kidsNonVoid z = true) → memOKKvs kvs = true
  | [], _, _ => rfl
  | (k, v) :: r, hk, h => by
    simp only [memOKKvs, Bool.and_eq_true, Bool.not_eq_true']
    exact ⟨⟨hk (k, v) (List.mem_cons_self ..),
      memOK_of_kids v (fun z hz => h z (by simp [subtermsKvs, hz]))⟩,
      memOKKvs_of_kids r (fun kv hkv => hk kv (List.mem_cons_of_mem _ hkv))
        (fun z hz => h z (by simp [subtermsKvs, hz]))⟩
end

theorem memOK_of_voidFree {x : Json} (h : voidFree x = true) : memOK x = true := by
  unfold voidFree at h
  rw [List.all_eq_true] at h
  exact memOK_of_kids x h

/-! ## 6. the codec contract, derived from the sub-terms of the documents -/

theorem valOK_retag (nc : NumCodec) (t : Tag) (xs : List Json) (h : ValOK nc (.arr t xs)) :
    ValOK nc (.arr .list xs) := by
  intro s hs
  have := h s (by simpa only [marshalNode] using hs)
  simpa only [untag] using this

/-- the codec contract of `NativeRT.read_render` for the diff `a.Diff(b)`, from: the contract on
    every sub-term of `a` and of `b` (payload values), and on the paths of the diff -/
theorem diffM_codecOK (nc : NumCodec) (o : Opts) (ho : dispatchTag o = .list)
    (hm : isMerge o = false) (a b : Json)
    (ha : a.listDoc = true) (hb : b.listDoc = true) (hva : voidFree a = true)
    (hvb : voidFree b = true) (hlen : shortArrays b = true)
    (hv : ∀ z ∈ subterms a ++ subterms b, ValOK nc z)
    (hp : ∀ h ∈ diffM o a b, PathOK nc h.path) :
    CodecOK nc (diffM o a b) :=
  fun h hh => ⟨hp h hh,
    diffM_payloads o ho hm a b ha hb hva hvb hlen (ValOK nc) (valOK_retag nc) hv h hh⟩

/-! ## 7. composition: print the diff, read it back, apply it -/

theorem strictAll_of_premises {d : Diff} (h1 : d.all listHunkOK = true)
    (h2 : ∀ h ∈ d, h.merge = false) :
    d.all (fun h => !h.merge && strictPath h.path && hunkListDoc h) = true := by
  rw [List.all_eq_true] at h1 ⊢
  intro h hh
  have := h1 h hh
  unfold Robust.listHunkOK at this
  simp only [h2 h hh, Bool.false_or, Bool.and_eq_true] at this
  simp [h2 h hh, this.2.1, this.2.2]

/-- a sequence of strict key / index hunks with list-document payloads keeps list documents list
    documents -/
theorem patchAll_listDoc (sw : Bool) (d : Diff) :
    ∀ (n : Json), d.all (fun h => !h.merge && strictPath h.path && hunkListDoc h) = true →
      n.listDoc = true → ∀ r, patchAll sw n d = .ok r → r.listDoc = true := by
  induction d with
  | nil => intro n _ hn r he; simp only [patchAll, Outcome.ok.injEq] at he; rw [← he]; exact hn
  | cons h d ih =>
    intro n hd hn r he
    simp only [List.all_cons, Bool.and_eq_true, Bool.not_eq_true'] at hd
    obtain ⟨⟨⟨hm, hp⟩, hh⟩, hd⟩ := hd
    simp only [patchAll, hm] at he
    cases hP : patchNode sw false n h.path h.before h.remove h.add h.after with
    | ok n1 =>
      rw [hP] at he
      exact ih n1 hd (patchNode_strict_listDoc sw n h h.path hp hn hh n1 hP) r he
    | err => rw [hP] at he; cases he
    | panic => rw [hP] at he; cases he

theorem normDiff_strict {d : Diff}
    (hs : d.all (fun h => !h.merge && strictPath h.path && hunkListDoc h) = true) :
    (normDiff d).all (fun h => !h.merge && strictPath h.path && hunkListDoc h) = true := by
  rw [List.all_eq_true] at hs ⊢
  intro h hh
  obtain ⟨h0, hh0, rfl⟩ := List.mem_map.1 hh
  have := hs h0 hh0
  simp only [Bool.and_eq_true, Bool.not_eq_true'] at this ⊢
  refine ⟨⟨this.1.1, ?_⟩, hunkListDoc_normHunk h0⟩
  show strictPath (normPath h0.path) = true
  rw [normPath_strict h0.path this.1.2]; exact this.1.2

/-- **C02 end to end, LIST reading, strict strategy.** The text printed for `a.Diff(b)` is read
    back as a diff `d'` (namely `normDiff (a.Diff(b))`), and the LIBRARY's `a.Patch(d')` succeeds with
    a document `r` that is structurally equal to `b` (`specEq`, from either side), is a list
    document, and `Equals` `b` under the options of the diff (under `PrecMono o` when there is a
    Precision option). -/
theorem diff_render_read_patch (L : FloatLaws) (nc : NumCodec) (o : Opts)
    (ho : dispatchTag o = .list) (hm : isMerge o = false) (a b : Json)
    (ha1 : a.listDoc = true) (ha2 : a.wf = true) (ha3 : a.finiteNums = true)
    (hb1 : b.listDoc = true) (hb2 : b.wf = true) (hb3 : b.finiteNums = true)
    (H : HashOK o a b) (Z : ZeroOK a b)
    (hva : voidFree a = true) (hvb : voidFree b = true) (hlen : shortArrays b = true)
    (hv : ∀ z ∈ subterms a ++ subterms b, ValOK nc z)
    (hp : ∀ h ∈ diffM o a b, PathOK nc h.path)
    (text : String) (hr : renderM nc [] (diffM o a b) = some text) :
    ∃ d', readDiffM nc text = .ok d' ∧ d' = normDiff (diffM o a b) ∧
      ∃ r, patchM a d' = .ok r ∧ specEq r b = true ∧ specEq b r = true ∧ r.listDoc = true ∧
        (PrecMono o → equivB o r b = true ∧ equals o r b = true) := by
  obtain ⟨hw, hl, _, hst⟩ := diffM_premises o ho hm a b ha1 hb1 hva hvb hlen
  have hc := diffM_codecOK nc o ho hm a b ha1 hb1 hva hvb hlen hv hp
  refine ⟨normDiff (diffM o a b), read_render nc _ text hw hc hr, rfl, ?_⟩
  -- the in-memory diff applies (C01)
  obtain ⟨m, hm1, hm2, hm3, _, hm5⟩ :=
    diffM_list_correct L o ho hm a b ha1 ha2 ha3 (memOK_of_voidFree hva) hb1 hb2 hb3
      (memOK_of_voidFree hvb) H Z
  have hs := strictAll_of_premises hl (fun h hh => (hst h hh).1)
  obtain ⟨r0, hr0⟩ := (strictAll_applies_iff true a _ hs ha1).2 (by rw [hm1]; rfl)
  obtain ⟨m', hm', hu⟩ := strictAll_result true a _ hs ha1 r0 hr0
  rw [hm1] at hm'
  cases hm'
  -- the diff read back has the same effect
  have hmono : mergeMono false (diffM o a b) = true := by
    simp only [NativeRT.wfDiff, Bool.and_eq_true] at hw; exact hw.2
  have heff := patchAll_normDiff_listMixed_gen true (diffM o a b) hmono hl a a rfl ha1 ha1
  rw [hr0] at heff
  cases hR : patchAll true a (normDiff (diffM o a b)) with
  | err => rw [hR] at heff; simp [Outcome.mapO] at heff
  | panic => rw [hR] at heff; simp [Outcome.mapO] at heff
  | ok r =>
    rw [hR] at heff
    simp only [Outcome.mapO, Outcome.ok.injEq] at heff
    have hur : untag r = untag m := heff.trans hu
    have hrl : r.listDoc = true := patchAll_listDoc true _ a (normDiff_strict hs) ha1 r hR
    refine ⟨r, hR, ?_, ?_, hrl, fun hpm => ?_⟩
    · rw [← specEq_untag_left, hur, specEq_untag_left]; exact hm2
    · rw [← specEq_untag_right, hur, specEq_untag_right]; exact hm3
    · have e : equivB o r b = true := by
        rw [← equivB_untag_left o ho, hur, equivB_untag_left o ho]; exact (hm5 hpm).1
      exact ⟨e, by rw [equals_eq_equivB_list o ho r b hrl hb1]; exact e⟩

/-- the headline without a Precision option: `jd a b` printed, `jd -p` applied to `a`, gives a
    document that `Equals` `b` -/
theorem diff_render_read_patch_noPrecision (L : FloatLaws) (nc : NumCodec) (o : Opts)
    (ho : dispatchTag o = .list) (hm : isMerge o = false) (hprec : precOf o = 0) (a b : Json)
    (ha1 : a.listDoc = true) (ha2 : a.wf = true) (ha3 : a.finiteNums = true)
    (hb1 : b.listDoc = true) (hb2 : b.wf = true) (hb3 : b.finiteNums = true)
    (H : HashOK o a b) (Z : ZeroOK a b)
    (hva : voidFree a = true) (hvb : voidFree b = true) (hlen : shortArrays b = true)
    (hv : ∀ z ∈ subterms a ++ subterms b, ValOK nc z)
    (hp : ∀ h ∈ diffM o a b, PathOK nc h.path)
    (text : String) (hr : renderM nc [] (diffM o a b) = some text) :
    ∃ d', readDiffM nc text = .ok d' ∧
      ∃ r, patchM a d' = .ok r ∧ specEq r b = true ∧ equals o r b = true := by
  obtain ⟨d', h1, _, r, h2, h3, _, _, h4⟩ := diff_render_read_patch L nc o ho hm a b ha1 ha2 ha3
    hb1 hb2 hb3 H Z hva hvb hlen hv hp text hr
  exact ⟨d', h1, r, h2, h3, (h4 (PrecMono.of_noPrecision hprec)).2⟩


/-- **C02 for every diff PRODUCED by `Diff` in list mode (strict strategy): the text is a lossless
    carrier.** No hypothesis about hashes, numbers or key order: for list documents with nothing void
    inside, the printed text of `a.Diff(b)` is read back as a diff that renders to the IDENTICAL
    text and has the same effect as `a.Diff(b)` on EVERY list document `c` (same success / failure,
    same result up to the Go type of array nodes) -/
theorem diff_text_lossless (nc : NumCodec) (o : Opts) (ho : dispatchTag o = .list)
    (hm : isMerge o = false) (a b : Json)
    (ha : a.listDoc = true) (hb : b.listDoc = true) (hva : voidFree a = true)
    (hvb : voidFree b = true) (hlen : shortArrays b = true)
    (hv : ∀ z ∈ subterms a ++ subterms b, ValOK nc z)
    (hp : ∀ h ∈ diffM o a b, PathOK nc h.path)
    (text : String) (hr : renderM nc [] (diffM o a b) = some text) :
    ∃ d', readDiffM nc text = .ok d' ∧ renderM nc [] d' = some text ∧
      ∀ c : Json, c.listDoc = true →
        Outcome.mapO untag (patchM c d') = Outcome.mapO untag (patchM c (diffM o a b)) := by
  obtain ⟨hw, hl, _, _⟩ := diffM_premises o ho hm a b ha hb hva hvb hlen
  have hc := diffM_codecOK nc o ho hm a b ha hb hva hvb hlen hv hp
  have hmono : mergeMono false (diffM o a b) = true := by
    simp only [NativeRT.wfDiff, Bool.and_eq_true] at hw; exact hw.2
  refine ⟨normDiff (diffM o a b), read_render nc _ text hw hc hr, ?_, fun c hcl => ?_⟩
  · rw [render_norm nc _ (diffM_listDocHunk o ho hm a b ha hb hva hvb hlen), hr]
  · exact patchAll_normDiff_listMixed_gen true _ hmono hl c c rfl hcl hcl

/-- the input-level form of the path hypothesis: it is enough that the codec contract holds of
    every path made of keys of the two documents and natural indices below 2^53 -/
theorem diffM_pathOK_of_inputs (nc : NumCodec) (o : Opts) (ho : dispatchTag o = .list)
    (hm : isMerge o = false) (a b : Json)
    (ha : a.listDoc = true) (hb : b.listDoc = true) (hva : voidFree a = true)
    (hvb : voidFree b = true) (hlen : shortArrays b = true)
    (hpaths : ∀ p, PathIn (docKeys a ++ docKeys b) (2 ^ 53 - 1) p → PathOK nc p) :
    ∀ h ∈ diffM o a b, PathOK nc h.path :=
  fun h hh => hpaths _ ((diffM_premises o ho hm a b ha hb hva hvb hlen).2.2.2 h hh).2.2

/-! ## 8. the renderer succeeds when every value and every path has a text -/

theorem optAll_isSome {α} : ∀ (l : List (Option α)), (∀ x ∈ l, x.isSome = true) →
    (optAll l).isSome = true
  | [], _ => rfl
  | none :: r, h => by have := h none (List.mem_cons_self ..); cases this
  | some x :: r, h => by
    have ih := optAll_isSome r (fun y hy => h y (List.mem_cons_of_mem _ hy))
    simp only [optAll, Option.isSome_map]; exact ih

theorem optAll_map_isSome {α β} (G : α → Option β) (l : List α)
    (h : ∀ x ∈ l, (G x).isSome = true) : ∃ ls, optAll (l.map G) = some ls :=
  Option.isSome_iff_exists.1 (optAll_isSome _ (fun y hy => by
    obtain ⟨x, hx, rfl⟩ := List.mem_map.1 hy; exact h x hx))

/-- `DiffElement.Render` fails only when `json.Marshal` fails on the path or on a payload value -/
theorem renderHunk_isSome (nc : NumCodec) (h : Hunk)
    (hpath : (jsonM nc (pathToJson h.path)).isSome = true)
    (hv : ∀ v ∈ payloads h, (marshalNode nc v).isSome = true) :
    (renderHunk nc [] h).isSome = true := by
  have mem : ∀ v, v ∈ h.before ++ h.remove ++ h.add ++ h.after → v.isVoid = false →
      (marshalNode nc v).isSome = true := fun v hv1 hv2 =>
    hv v (List.mem_filter.2 ⟨hv1, by simp [hv2]⟩)
  obtain ⟨pt, hpt⟩ := Option.isSome_iff_exists.1 hpath
  obtain ⟨lb, hb⟩ := optAll_map_isSome (ctxLine nc "[") h.before (fun v hv => by
    unfold ctxLine
    cases hvv : v.isVoid with
    | true => rfl
    | false => simpa using mem v (by simp [hv]) hvv)
  obtain ⟨lf, hf⟩ := optAll_map_isSome (ctxLine nc "]") h.after (fun v hv => by
    unfold ctxLine
    cases hvv : v.isVoid with
    | true => rfl
    | false => simpa using mem v (by simp [hv]) hvv)
  obtain ⟨lr, hr⟩ := optAll_map_isSome (remLine nc) (remLines h) (fun v hv => by
    unfold remLine
    obtain ⟨h1, h2⟩ := List.mem_filter.1 hv
    simpa using mem v (by simp [h1]) (by simpa using h2))
  obtain ⟨la, ha⟩ := optAll_map_isSome (addLine nc) (addLines h) (fun v hv => by
    unfold addLine
    cases hvv : v.isVoid with
    | true => rfl
    | false =>
      have : v ∈ h.add := by
        unfold NativeRT.addLines at hv
        split at hv
        · exact hv
        · exact (List.mem_filter.1 hv).1
      simpa using mem v (by simp [this]) hvv)
  rw [renderHunk_lines]
  simp [hunkLines, hpt, hb, hf, hr, ha]

theorem renderM_isSome (nc : NumCodec) (d : Diff)
    (h : ∀ x ∈ d, (renderHunk nc [] x).isSome = true) : ∃ text, renderM nc [] d = some text := by
  obtain ⟨ls, hls⟩ := optAll_map_isSome (renderHunk nc []) d h
  exact ⟨String.join ls, by unfold renderM; rw [hls]; rfl⟩

theorem marshal_retag (nc : NumCodec) (t : Tag) (xs : List Json)
    (h : (marshalNode nc (.arr t xs)).isSome = true) :
    (marshalNode nc (.arr .list xs)).isSome = true := by
  simpa only [marshalNode] using h

/-- `a.Diff(b).Render()` succeeds when `json.Marshal` succeeds on every sub-term of `a` and `b` and
    on the paths of the diff (it can only fail on a number, through the number codec) -/
theorem diffM_renders (nc : NumCodec) (o : Opts) (ho : dispatchTag o = .list)
    (hm : isMerge o = false) (a b : Json)
    (ha : a.listDoc = true) (hb : b.listDoc = true) (hva : voidFree a = true)
    (hvb : voidFree b = true) (hlen : shortArrays b = true)
    (hmv : ∀ z ∈ subterms a ++ subterms b, (marshalNode nc z).isSome = true)
    (hmp : ∀ h ∈ diffM o a b, (jsonM nc (pathToJson h.path)).isSome = true) :
    ∃ text, renderM nc [] (diffM o a b) = some text :=
  renderM_isSome nc _ (fun h hh => renderHunk_isSome nc h (hmp h hh)
    (diffM_payloads o ho hm a b ha hb hva hvb hlen (fun z => (marshalNode nc z).isSome = true)
      (marshal_retag nc) hmv h hh))

/-- **C02 end to end, total form**: when the values and paths at hand have a JSON text, the text
    EXISTS, is read back, and the diff read back patches `a` to a document equal to `b` -/
theorem diff_print_read_patch (L : FloatLaws) (nc : NumCodec) (o : Opts)
    (ho : dispatchTag o = .list) (hm : isMerge o = false) (a b : Json)
    (ha1 : a.listDoc = true) (ha2 : a.wf = true) (ha3 : a.finiteNums = true)
    (hb1 : b.listDoc = true) (hb2 : b.wf = true) (hb3 : b.finiteNums = true)
    (H : HashOK o a b) (Z : ZeroOK a b)
    (hva : voidFree a = true) (hvb : voidFree b = true) (hlen : shortArrays b = true)
    (hv : ∀ z ∈ subterms a ++ subterms b, (marshalNode nc z).isSome = true ∧ ValOK nc z)
    (hp : ∀ h ∈ diffM o a b, (jsonM nc (pathToJson h.path)).isSome = true ∧ PathOK nc h.path) :
    ∃ text d' r, renderM nc [] (diffM o a b) = some text ∧ readDiffM nc text = .ok d' ∧
      patchM a d' = .ok r ∧ specEq r b = true ∧ specEq b r = true ∧ r.listDoc = true ∧
      (PrecMono o → equivB o r b = true ∧ equals o r b = true) := by
  obtain ⟨text, ht⟩ := diffM_renders nc o ho hm a b ha1 hb1 hva hvb hlen (fun z hz => (hv z hz).1)
    (fun h hh => (hp h hh).1)
  obtain ⟨d', h1, _, r, h2, h3, h4, h5, h6⟩ := diff_render_read_patch L nc o ho hm a b ha1 ha2 ha3
    hb1 hb2 hb3 H Z hva hvb hlen (fun z hz => (hv z hz).2) (fun h hh => (hp h hh).2) text ht
  exact ⟨text, d', r, ht, h1, h2, h3, h4, h5, h6⟩


/-! ## 9. non-vacuity: a concrete pair, with the concrete codec `NativeRT.exCodec` -/

theorem valOK_intro {nc : NumCodec} {v : Json} (t : String) (h1 : marshalNode nc v = some t)
    (h2 : '\n' ∉ t.toList) (h3 : readJsonM nc (" " ++ t) = .ok (untag v)) :
    (marshalNode nc v).isSome = true ∧ ValOK nc v :=
  ⟨by rw [h1]; rfl, fun s hs => by rw [h1] at hs; cases hs; exact ⟨h2, h3⟩⟩

theorem pathOK_intro {nc : NumCodec} {p : Path} (t : String) (h1 : jsonM nc (pathToJson p) = some t)
    (h2 : '\n' ∉ t.toList) (h3 : readJsonM nc (" " ++ t) = .ok (untag (pathToJson p))) :
    (jsonM nc (pathToJson p)).isSome = true ∧ PathOK nc p :=
  ⟨by rw [h1]; rfl, fun s hs => by rw [h1] at hs; cases hs; exact ⟨h2, h3⟩⟩

theorem fmt_zero : fmtNum exCodec (intToFloatBits 0) = some "0" := by
  have h1 : intToFloatBits 0 = 0 := by decide
  have h2 : floatToInt? 0 = some 0 := by decide
  have h3 : natToDigits 0 = "0" := by decide
  simp [fmtNum, h1, h2, h3]

theorem fmt_two : fmtNum exCodec (intToFloatBits 2) = some "2" := by
  have h1 : intToFloatBits 2 = 4611686018427387904 := by decide
  have h2 : floatToInt? 4611686018427387904 = some 2 := by decide
  have h3 : natToDigits 2 = "2" := by decide
  simp [fmtNum, h1, h2, h3]

set_option linter.unusedSimpArgs false

/-- the text of a value under `exCodec`, and its reading back, by evaluation -/
macro "val_ok " t:term : tactic =>
  `(tactic| (refine valOK_intro $t ?_ ?_ ?_
             · simp [marshalNode, marshalList, jsonText, jsonTextList, jsonTextKvs, rawNorm, rawNormList,
                 rawNormKvs, quoteString, escapeBody, escapeChar, String.intercalate_cons_cons,
                 String.intercalate_singleton]
             · simp
             · simp [readJsonM, trimGoSpace, parseJson, parseValue, skipWs, isJsonWs, parseElems,
                 parseMembers, lexString, untag, untagList, untagKvs, ainsert]))

/-- the text of a path under `exCodec`, and its reading back, by evaluation -/
macro "path_ok " t:term : tactic =>
  `(tactic| (refine pathOK_intro $t ?_ ?_ ?_
             · simp [jsonM, pathToJson, rawNorm, rawNormList, jsonText, jsonTextList, quoteString,
                 escapeBody, escapeChar, exCodec_fmt_one, fmt_zero, fmt_two,
                 String.intercalate_cons_cons, String.intercalate_singleton]
             · simp
             · simp [readJsonM, trimGoSpace, parseJson, parseValue, skipWs, isJsonWs, parseElems,
                 lexString, isDigit, lexNumber, lexNumber.lexFrac, lexNumber.lexExp, parseNumToken,
                 exCodec, takeDigits, untag, untagList, pathToJson]))

namespace Example

/-- `{"k":[true,null,["x"]]}` -/
def exA : Json := .obj [("k", .arr .raw [.bool true, .null, .arr .raw [.str "x"]])]
/-- `{"k":[false,null,["x","y"]],"n":null}` -/
def exB : Json :=
  .obj [("k", .arr .raw [.bool false, .null, .arr .raw [.str "x", .str "y"]]), ("n", .null)]

theorem h1 : hashCode [] (.bool true) = 2079635739932584740 := by decide +kernel
theorem h2 : hashCode [] .null = 3942432649579961653 := by decide +kernel
theorem h3 : hashCode [] (.arr .raw [.str "x"]) = 3137035804415266084 := by decide +kernel
theorem h4 : hashCode [] (.bool false) = 13771864770451290310 := by decide +kernel
theorem h5 : hashCode [] (.arr .raw [.str "x", .str "y"]) = 1797125989231641989 := by
  decide +kernel
theorem h6 : hashCode [] (.str "x") = 12638214688346347271 := by decide +kernel
theorem h7 : hashCode [] (.str "y") = 12638213588834719060 := by decide +kernel

/-- the diff, computed: a list hunk with the array-start marker and an after-context line, a hunk
    inside the nested list with a before-context line and the array-end marker, an added member -/
theorem ex_diff : diffM [] exA exB =
    [ { path := [.key "k", .idx 0], before := [.void], remove := [.bool true], add := [.bool false],
        after := [.null] },
      { path := [.key "k", .idx 2, .idx 1], before := [.str "x"], remove := [], add := [.str "y"],
        after := [.void] },
      { path := [.key "n"], add := [.null] } ] := by
  unfold diffM exA exB
  rw [show isMerge [] = false from rfl, diffNode_obj_obj]
  have raw_raw : ∀ xs ys p, diffNode [] false (.arr .raw xs) (.arr .raw ys) p =
      diffRest [] p 0 0 .void xs ys (lcsValues (hashList [] xs) (hashList [] ys)) [] [] :=
    fun xs ys p => diffNode_arr_arr (o := []) rfl xs ys rfl rfl (.inl rfl) p
  simp [diffKvs_cons, diffKvs_nil, alookup, diffRest_cons, atC, h1, h2, h3, h4, h5, h6, h7,
    sameContainerType, Json.dispatch, dispatchTag, accHunk, diffRest_nilA, raw_raw, hashList,
    lcsValues, lcsRows, lcsRow, lcsRowGo, lcsBack, Json.nodeList, Json.isVoid, subAfter]

/-- the decidable hypotheses -/
theorem dom : exA.listDoc = true ∧ exA.wf = true ∧ exA.finiteNums = true ∧ memOK exA = true ∧
    exB.listDoc = true ∧ exB.wf = true ∧ exB.finiteNums = true ∧ memOK exB = true ∧
    voidFree exA = true ∧ voidFree exB = true ∧ shortArrays exB = true :=
  ⟨by decide, by decide, by decide, by decide, by decide, by decide, by decide, by decide,
    by decide, by decide, by decide⟩

/-- the codec contract (and `json.Marshal` succeeding) on every sub-term of the two documents -/
theorem ex_vals : ∀ z ∈ subterms exA ++ subterms exB,
    (marshalNode exCodec z).isSome = true ∧ ValOK exCodec z := by
  intro z hz
  simp only [exA, exB, subterms, subtermsList, subtermsKvs, List.cons_append, List.nil_append,
    List.append_nil, List.mem_cons, List.not_mem_nil, or_false] at hz
  rcases hz with rfl | rfl | rfl | rfl | rfl | rfl | rfl | rfl | rfl | rfl | rfl | rfl | rfl | rfl
  · val_ok "{\"k\":[true,null,[\"x\"]]}"
  · val_ok "[true,null,[\"x\"]]"
  · val_ok "true"
  · val_ok "null"
  · val_ok "[\"x\"]"
  · val_ok "\"x\""
  · val_ok "{\"k\":[false,null,[\"x\",\"y\"]],\"n\":null}"
  · val_ok "[false,null,[\"x\",\"y\"]]"
  · val_ok "false"
  · val_ok "null"
  · val_ok "[\"x\",\"y\"]"
  · val_ok "\"x\""
  · val_ok "\"y\""
  · val_ok "null"

/-- the codec contract on the three paths of the diff -/
theorem ex_paths : ∀ h ∈ diffM [] exA exB,
    (jsonM exCodec (pathToJson h.path)).isSome = true ∧ PathOK exCodec h.path := by
  intro h hh
  rw [ex_diff] at hh
  simp only [List.mem_cons, List.not_mem_nil, or_false] at hh
  rcases hh with rfl | rfl | rfl
  · path_ok "[\"k\",0]"
  · path_ok "[\"k\",2,1]"
  · path_ok "[\"n\"]"

set_option maxRecDepth 8000 in
/-- no hash collision and no signed-zero pair between the sub-terms (6 × 8 pairs) -/
theorem ex_hash (L : FloatLaws) : HashOK [] exA exB ∧ ZeroOK exA exB := by
  refine ⟨?_, ?_⟩
  · intro x hx y hy h
    simp only [exA, exB, subterms, subtermsList, subtermsKvs, List.cons_append, List.nil_append,
      List.append_nil, List.mem_cons, List.not_mem_nil, or_false] at hx hy
    have g1 : Good (Json.str "x") := ⟨by decide, by decide, by decide, by decide⟩
    have g2 : Good Json.null := ⟨by decide, by decide, by decide, by decide⟩
    rcases hx with rfl | rfl | rfl | rfl | rfl | rfl <;>
      rcases hy with rfl | rfl | rfl | rfl | rfl | rfl | rfl | rfl <;>
      first
        | exact specEq_refl L g1
        | exact specEq_refl L g2
        | exact absurd h (by decide +kernel)
  · intro u v hu hv _
    simp [exA, subterms, subtermsList, subtermsKvs] at hu

/-- the hypotheses of `diffM_premises` hold, hence its conclusions -/
example : wfDiff (diffM [] exA exB) = true ∧ (diffM [] exA exB).all listHunkOK = true ∧
    noEmptySetKeys (diffM [] exA exB) = true := by
  obtain ⟨a1, _, _, _, b1, _, _, _, va, vb, lb⟩ := dom
  obtain ⟨h1, h2, h3, _⟩ := diffM_premises [] rfl rfl exA exB a1 b1 va vb lb
  exact ⟨h1, h2, h3⟩

/-- the hypotheses of `diffM_codecOK` hold -/
example : CodecOK exCodec (diffM [] exA exB) := by
  obtain ⟨a1, _, _, _, b1, _, _, _, va, vb, lb⟩ := dom
  exact diffM_codecOK exCodec [] rfl rfl exA exB a1 b1 va vb lb (fun z hz => (ex_vals z hz).2)
    (fun h hh => (ex_paths h hh).2)

/-- the hypotheses of `diff_render_read_patch` hold -/
example (L : FloatLaws) (text : String) (hr : renderM exCodec [] (diffM [] exA exB) = some text) :
    ∃ d', readDiffM exCodec text = .ok d' ∧
      ∃ r, patchM exA d' = .ok r ∧ specEq r exB = true ∧ equals [] r exB = true := by
  obtain ⟨a1, a2, a3, a4, b1, b2, b3, b4, va, vb, lb⟩ := dom
  obtain ⟨H, Z⟩ := ex_hash L
  exact diff_render_read_patch_noPrecision L exCodec [] rfl rfl rfl exA exB a1 a2 a3 b1 b2 b3
    H Z va vb lb (fun z hz => (ex_vals z hz).2) (fun h hh => (ex_paths h hh).2) text hr

/-- **the end-to-end theorem on the concrete pair**: every hypothesis holds (only the IEEE-754
    laws of `FloatLaws` remain), so the printed diff exists, is read back, and patches `exA` to a
    document equal to `exB` -/
theorem ex_end_to_end (L : FloatLaws) :
    ∃ text d' r, renderM exCodec [] (diffM [] exA exB) = some text ∧
      readDiffM exCodec text = .ok d' ∧ patchM exA d' = .ok r ∧ specEq r exB = true ∧
      equals [] r exB = true := by
  obtain ⟨a1, a2, a3, a4, b1, b2, b3, b4, va, vb, lb⟩ := dom
  obtain ⟨H, Z⟩ := ex_hash L
  obtain ⟨text, d', r, h1, h2, h3, h4, _, _, h5⟩ := diff_print_read_patch L exCodec [] rfl rfl
    exA exB a1 a2 a3 b1 b2 b3 H Z va vb lb ex_vals ex_paths
  exact ⟨text, d', r, h1, h2, h3, h4, (h5 (PrecMono.of_noPrecision rfl)).2⟩

end Example

/-! ## 10. `voidFree` cannot be dropped: a void ELEMENT of an array breaks the round trip

  The documents below are in the domain of the C01 list theorem (`listDoc`, `wf`, `finiteNums`,
  `memOK`: `memOK` speaks about object members only) and `a.Patch(a.Diff(b))` works IN MEMORY, but a
  void value has no text: the renderer writes nothing for it. No reader of the library produces a
  void inside a document, so this is outside what `jd a b | jd -p` can meet; it is the reason for
  the extra hypothesis, not a defect reachable from text. -/

namespace Witness

/-- `[void]` -/
def wA : Json := .arr .raw [.void]
/-- `[]` -/
def wB : Json := .arr .raw []

theorem w_diff : diffM [] wA wB =
    [ { path := [.idx 0], before := [.void], remove := [.void], add := [], after := [.void] } ] := by
  unfold diffM wA wB
  rw [show isMerge [] = false from rfl, diffNode_arr_arr (o := []) rfl _ _ rfl rfl (.inl rfl)]
  simp [diffRest_nilB, accHunk]

theorem w_render : renderM exCodec [] (diffM [] wA wB) = some (unlines ["@ [0]", "[", "]"]) := by
  rw [w_diff, renderM_lines]
  simp [diffLines, hunkLines, optAll, jsonM, pathToJson, rawNorm, rawNormList, jsonText, jsonTextList,
    fmt_zero, String.intercalate_singleton, ctxLine, NativeRT.remLines, NativeRT.addLines,
    Json.isVoid]

theorem read_zero : readJsonM exCodec " [0]" = .ok (.arr .raw [.num 0]) := by
  simp [readJsonM, trimGoSpace, parseJson, parseValue, skipWs, isJsonWs, parseElems,
    isDigit, lexNumber, lexNumber.lexFrac, lexNumber.lexExp, parseNumToken, exCodec, takeDigits]
  decide

theorem w_read : readDiffM exCodec (unlines ["@ [0]", "[", "]"]) = .err := by
  unfold readDiffM
  rw [unlines, splitOn_unlines _ (by simp)]
  have e1 : newPathM (.arr .raw [.num 0]) = .ok [.idx 0] := by
    have : floatTrunc 0 = 0 := by decide
    simp [newPathM, newPathM.go, this]
  have s1 : readLine exCodec {} "@ [0]" =
      .ok { st := .at, cur := { path := [.idx 0] }, out := [] } := by
    simp [readLine, readerAllows, readerFlushes, tableLookup, Gen.readerAllow, Gen.readerFlush,
      RState.name, read_zero, e1]
  have s2 : readLine exCodec { st := .at, cur := { path := [.idx 0] }, out := [] } "[" =
      .ok { st := .before, cur := { path := [.idx 0], before := [.void] }, out := [] } := by
    simp [readLine, readerAllows, readerFlushes, tableLookup, Gen.readerAllow, Gen.readerFlush,
      RState.name, Gen.readerOpenFrom]
  have s3 : readLine exCodec
      { st := .before, cur := { path := [.idx 0], before := [.void] }, out := [] } "]" = .err := by
    simp [readLine, readerAllows, tableLookup, Gen.readerAllow, RState.name]
  simp [readLines, s1, s2, s3]

theorem w_patch : patchM wA (diffM [] wA wB) = .ok (.arr .list []) := by
  rw [w_diff]
  simp [patchM, patchAll, wA, patchNode_idx_leaf, Json.listDoc, listDocList, patchListLeaf,
    checkBefore, removeLoop, checkAfter, spliceP, idxP, removeAtP, equals, Json.isVoid]
  rfl

/-- **WITNESS 1 (the reader rejects the printed diff).** `[void]` → `[]`: both documents satisfy
    every hypothesis of the C01 list theorem; the diff applies in memory; it is printed as
    `@ [0]` / `[` / `]` (the removed void value has no line), and `ReadDiffString` rejects that
    text (`]` is not accepted right after `[`). Only `voidFree wA` fails. -/
theorem void_element_witness_read :
    wA.listDoc = true ∧ wA.wf = true ∧ wA.finiteNums = true ∧ memOK wA = true ∧
    wB.listDoc = true ∧ wB.wf = true ∧ wB.finiteNums = true ∧ memOK wB = true ∧
    voidFree wA = false ∧ voidFree wB = true ∧ shortArrays wB = true ∧
    patchM wA (diffM [] wA wB) = .ok (.arr .list []) ∧
    ∃ text, renderM exCodec [] (diffM [] wA wB) = some text ∧ readDiffM exCodec text = .err :=
  ⟨by decide, by decide, by decide, by decide, by decide, by decide, by decide, by decide,
    by decide, by decide, by decide, w_patch, _, w_render, w_read⟩

/-- `[true, null]` -/
def vA : Json := .arr .raw [.bool true, .null]
/-- `[void, null]` -/
def vB : Json := .arr .raw [.void, .null]

theorem hv1 : hashCode [] (.bool true) = 2079635739932584740 := by decide +kernel
theorem hv2 : hashCode [] .null = 3942432649579961653 := by decide +kernel
theorem hv3 : hashCode [] .void = 2074782764524187119 := by decide +kernel

theorem v_diff : diffM [] vA vB =
    [ { path := [.idx 0], before := [.void], remove := [.bool true], add := [.void],
        after := [.null] } ] := by
  unfold diffM vA vB
  rw [show isMerge [] = false from rfl, diffNode_arr_arr (o := []) rfl _ _ rfl rfl (.inl rfl)]
  simp [diffRest_cons, diffRest_nil_nil, atC, hv1, hv2, hv3, sameContainerType, Json.dispatch,
    accHunk, hashList, lcsValues, lcsRows, lcsRow, lcsRowGo, lcsBack]

theorem v_norm : normDiff (diffM [] vA vB) =
    [ { path := [.idx 0], before := [.void], remove := [.bool true], add := [],
        after := [.null] } ] := by
  rw [v_diff]
  simp [normDiff, normHunk, normPath, normElem, NativeRT.remLines, NativeRT.addLines, untag,
    Json.isVoid]

theorem v_codec : CodecOK exCodec (diffM [] vA vB) := by
  intro h hh
  rw [v_diff] at hh
  simp only [List.mem_singleton] at hh
  subst hh
  refine ⟨(by path_ok "[0]" : _ ∧ PathOK exCodec [.idx 0]).2, fun v hv => ?_⟩
  simp only [payloads, List.cons_append, List.nil_append, List.filter_cons, Json.isVoid,
    Bool.not_true, Bool.false_eq_true, ↓reduceIte, Bool.not_false, List.filter_nil,
    List.mem_cons, List.not_mem_nil, or_false] at hv
  rcases hv with rfl | rfl
  · exact (by val_ok "true" : _ ∧ ValOK exCodec (.bool true)).2
  · exact (by val_ok "null" : _ ∧ ValOK exCodec .null).2

theorem v_render :
    renderM exCodec [] (diffM [] vA vB) = some (unlines ["@ [0]", "[", "- true", "  null"]) := by
  rw [v_diff, renderM_lines]
  simp [diffLines, hunkLines, optAll, jsonM, pathToJson, rawNorm, rawNormList, jsonText, jsonTextList,
    fmt_zero, String.intercalate_singleton, ctxLine, remLine, NativeRT.remLines, NativeRT.addLines,
    Json.isVoid, marshalNode]

theorem v_patch_back : patchM vA (normDiff (diffM [] vA vB)) = .ok (.arr .list [.null]) := by
  rw [v_norm]
  simp [patchM, patchAll, vA, patchNode_idx_leaf, Json.listDoc, listDocList, patchListLeaf,
    checkBefore, removeLoop, checkAfter, spliceP, idxP, removeAtP, equals, Json.isVoid, Json.isNull]
  rfl

theorem v_patch_mem : patchM vA (diffM [] vA vB) = .ok (.arr .list [.void, .null]) := by
  rw [v_diff]
  simp [patchM, patchAll, vA, patchNode_idx_leaf, Json.listDoc, listDocList, patchListLeaf,
    checkBefore, removeLoop, checkAfter, spliceP, idxP, removeAtP, equals, Json.isVoid, Json.isNull]
  rfl

/-- **WITNESS 2 (the diff read back silently does something else).** `[true, null]` →
    `[void, null]`: in the domain of the C01 list theorem, the diff applies in memory and gives
    `[void, null]`; its text `@ [0]` / `[` / `- true` / `  null` (no `+` line for the void value)
    IS accepted by the reader, and the diff read back patches `[true, null]` to `[null]`, which is
    not structurally equal to the target. Only `voidFree vB` fails. -/
theorem void_element_witness_effect :
    vA.listDoc = true ∧ vA.wf = true ∧ vA.finiteNums = true ∧ memOK vA = true ∧
    vB.listDoc = true ∧ vB.wf = true ∧ vB.finiteNums = true ∧ memOK vB = true ∧
    voidFree vA = true ∧ voidFree vB = false ∧ shortArrays vB = true ∧
    patchM vA (diffM [] vA vB) = .ok (.arr .list [.void, .null]) ∧
    ∃ text d', renderM exCodec [] (diffM [] vA vB) = some text ∧
      readDiffM exCodec text = .ok d' ∧ patchM vA d' = .ok (.arr .list [.null]) ∧
      specEq (.arr .list [.null]) vB = false := by
  refine ⟨by decide, by decide, by decide, by decide, by decide, by decide, by decide, by decide,
    by decide, by decide, by decide, v_patch_mem, _, _, v_render, ?_, v_patch_back, ?_⟩
  · exact read_render exCodec _ _ (by rw [v_diff]; decide) v_codec v_render
  · simp [specEq, vB, equivB, equivList, dispatchTag]

end Witness

end Jd.E2E

/-! ### axioms -/

#print axioms Jd.E2E.diff_ok
#print axioms Jd.E2E.diffM_hunkOK
#print axioms Jd.E2E.diffM_premises
#print axioms Jd.E2E.diffM_listDocHunk
#print axioms Jd.E2E.diffM_payloads
#print axioms Jd.E2E.diffM_codecOK
#print axioms Jd.E2E.diffM_pathOK_of_inputs
#print axioms Jd.E2E.memOK_of_voidFree
#print axioms Jd.E2E.diff_text_lossless
#print axioms Jd.E2E.diff_render_read_patch
#print axioms Jd.E2E.diff_render_read_patch_noPrecision
#print axioms Jd.E2E.diffM_renders
#print axioms Jd.E2E.diff_print_read_patch
#print axioms Jd.E2E.Example.ex_diff
#print axioms Jd.E2E.Example.ex_end_to_end
#print axioms Jd.E2E.Witness.void_element_witness_read
#print axioms Jd.E2E.Witness.void_element_witness_effect
