/-
  JdProofs.CondSites.P_C18 — the branch conditions of the Go functions that the model definitions behind property C18
  mirror (59 conditions; functions per tools/condfacts/property_map.json). HAND-KEPT: it records the conditions the
  model was written against; the regenerated table Gen.condSitesFor_C18 must be equal to it.
-/
import JdModel.Gen.CondSitesByProp

namespace Jd.CondSites

def expectedFor_C18 : List (String × String) := [
  ("lib/diff_read.go:ReadPatchFile:if#1", "err != nil"),
  ("lib/diff_read.go:ReadPatchString:if#1", "err != nil"),
  ("lib/diff_read.go:ReadPatchString:if#2", "len(patch) == 0"),
  ("lib/diff_read.go:ReadPatchString:for#1", "<forever>"),
  ("lib/diff_read.go:ReadPatchString:if#3", "len(patch) == 0"),
  ("lib/diff_read.go:ReadPatchString:if#4", "err != nil"),
  ("lib/diff_read.go:readPatchDiffElement:if#1", "len(patch) == 0"),
  ("lib/diff_read.go:readPatchDiffElement:switch#1", "p.Op"),
  ("lib/diff_read.go:readPatchDiffElement:case#1", "\"test\""),
  ("lib/diff_read.go:readPatchDiffElement:case#2", "\"add\""),
  ("lib/diff_read.go:readPatchDiffElement:case#3", "default"),
  ("lib/diff_read.go:readPatchDiffElement:if#2", "err != nil"),
  ("lib/diff_read.go:readPatchDiffElement:if#3", "err != nil"),
  ("lib/diff_read.go:readPatchDiffElement:if#4", "len(patch) == 0 || patch[0].Op != \"remove\""),
  ("lib/diff_read.go:readPatchDiffElement:if#5", "patch[0].Path != p.Path"),
  ("lib/diff_read.go:readPatchDiffElement:if#6", "err != nil"),
  ("lib/diff_read.go:readPatchDiffElement:if#7", "!testValue.Equals(removeValue)"),
  ("lib/diff_read.go:readPatchDiffElement:if#8", "err != nil"),
  ("lib/diff_read.go:readPatchDiffElement:if#9", "err != nil"),
  ("lib/diff_read.go:ReadMergeFile:if#1", "err != nil"),
  ("lib/diff_read.go:ReadMergeString:if#1", "err != nil"),
  ("lib/diff_read.go:ReadMergeString:if#2", "n.Equals(jsonObject{})"),
  ("lib/diff_read.go:readMergeInto:switch#1", "n := n.(type)"),
  ("lib/diff_read.go:readMergeInto:typecase#1", "jsonObject"),
  ("lib/diff_read.go:readMergeInto:typecase#2", "voidNode"),
  ("lib/diff_read.go:readMergeInto:typecase#3", "default"),
  ("lib/diff_read.go:readMergeInto:range#1", "k := range n"),
  ("lib/diff_read.go:readMergeInto:range#2", "_, k := range keys"),
  ("lib/diff_read.go:readMergeInto:if#1", "len(n) == 0"),
  ("lib/diff_read.go:readMergeInto:if#2", "isNull(n)"),
  ("lib/diff_write.go:Diff.RenderPatch:if#1", "len(d) == 0"),
  ("lib/diff_write.go:Diff.RenderPatch:range#1", "_, element := range d"),
  ("lib/diff_write.go:Diff.RenderPatch:if#2", "err != nil"),
  ("lib/diff_write.go:Diff.RenderPatch:if#3", "len(element.OldValues) > 1"),
  ("lib/diff_write.go:Diff.RenderPatch:if#4", "len(element.NewValues) > 1"),
  ("lib/diff_write.go:Diff.RenderPatch:if#5", "len(element.OldValues) == 0 && len(element.NewValues) == 0"),
  ("lib/diff_write.go:Diff.RenderPatch:if#6", "len(element.OldValues) == 1 && !isVoid(element.OldValues[0])"),
  ("lib/diff_write.go:Diff.RenderPatch:if#7", "len(element.NewValues) == 1 && !isVoid(element.NewValues[0])"),
  ("lib/diff_write.go:Diff.RenderPatch:if#8", "err != nil"),
  ("lib/diff_write.go:Diff.RenderMerge:if#1", "len(d) == 0"),
  ("lib/diff_write.go:Diff.RenderMerge:range#1", "j, e := range d"),
  ("lib/diff_write.go:Diff.RenderMerge:if#2", "len(e.Path) == 0 || !(jsonArray{jsonString(MERGE.string())}).Equals(e.Path[0])"),
  ("lib/diff_write.go:Diff.RenderMerge:range#2", "i := range newValues"),
  ("lib/diff_write.go:Diff.RenderMerge:if#3", "isVoid(newValues[i])"),
  ("lib/diff_write.go:Diff.RenderMerge:if#4", "err != nil"),
  ("lib/pointer.go:readPointer:if#1", "err != nil"),
  ("lib/pointer.go:readPointer:range#1", "i, t := range tokens"),
  ("lib/pointer.go:readPointer:if#2", "_, err := strconv.Atoi(t); err == nil"),
  ("lib/pointer.go:readPointer:if#3", "err != nil"),
  ("lib/pointer.go:readPointer:if#4", "s, ok := element.(jsonString); ok && s == \"-\""),
  ("lib/pointer.go:writePointer:range#1", "_, element := range path"),
  ("lib/pointer.go:writePointer:switch#1", "e := element.(type)"),
  ("lib/pointer.go:writePointer:typecase#1", "jsonNumber"),
  ("lib/pointer.go:writePointer:typecase#2", "jsonString"),
  ("lib/pointer.go:writePointer:typecase#3", "jsonStringOrInteger"),
  ("lib/pointer.go:writePointer:typecase#4", "jsonArray"),
  ("lib/pointer.go:writePointer:typecase#5", "default"),
  ("lib/pointer.go:writePointer:if#1", "int(e) == -1"),
  ("lib/pointer.go:writePointer:if#2", "string(e) == \"-\"")
]

/-- the code behind C18 branches on exactly the conditions the model was written against -/
theorem conditions_as_modelled_C18 : Gen.condSitesFor_C18 = expectedFor_C18 := by rfl

def expectedOptFor_C18 : List (String × String) := [
  ("lib/diff_read.go:readPatchDiffElement:Equals#1", "none"),
  ("lib/diff_read.go:ReadMergeString:Equals#1", "none"),
  ("lib/diff_write.go:Diff.RenderMerge:Equals#1", "none")
]

/-- every call inside the functions behind C18 passes on the option / metadata list the model passes on -/
theorem option_plumbing_as_modelled_C18 : Gen.optSitesFor_C18 = expectedOptFor_C18 := by rfl

end Jd.CondSites
