/-
  JdProofs.CondSites.P_C11 — the branch conditions of the Go functions that the model definitions behind property C11
  mirror (23 conditions; functions per tools/condfacts/property_map.json). HAND-KEPT: it records the conditions the
  model was written against; the regenerated table Gen.condSitesFor_C11 must be equal to it.
-/
import JdModel.Gen.CondSitesByProp

namespace Jd.CondSites

def expectedFor_C11 : List (String × String) := [
  ("v2/diff_write.go:Diff.RenderMerge:if#1", "len(d) == 0"),
  ("v2/diff_write.go:Diff.RenderMerge:range#1", "j, e := range d"),
  ("v2/diff_write.go:Diff.RenderMerge:if#2", "!e.Metadata.Merge"),
  ("v2/diff_write.go:Diff.RenderMerge:range#2", "i := range e.Add"),
  ("v2/diff_write.go:Diff.RenderMerge:if#3", "isVoid(e.Add[i])"),
  ("v2/diff_write.go:Diff.RenderMerge:if#4", "err != nil"),
  ("v2/object.go:jsonObject.raw:range#1", "k, v := range o"),
  ("v2/object.go:jsonObject.diff:if#1", "!ok"),
  ("v2/object.go:jsonObject.diff:switch#1", "strategy"),
  ("v2/object.go:jsonObject.diff:case#1", "mergePatchStrategy"),
  ("v2/object.go:jsonObject.diff:case#2", "default"),
  ("v2/object.go:jsonObject.diff:range#1", "k := range o1"),
  ("v2/object.go:jsonObject.diff:range#2", "k := range o2"),
  ("v2/object.go:jsonObject.diff:range#3", "_, k1 := range o1Keys"),
  ("v2/object.go:jsonObject.diff:if#2", "v2, ok := o2[k1]; ok"),
  ("v2/object.go:jsonObject.diff:switch#2", "strategy"),
  ("v2/object.go:jsonObject.diff:case#3", "mergePatchStrategy"),
  ("v2/object.go:jsonObject.diff:case#4", "default"),
  ("v2/object.go:jsonObject.diff:range#4", "_, k2 := range o2Keys"),
  ("v2/object.go:jsonObject.diff:if#3", "_, ok := o1[k2]; !ok"),
  ("v2/object.go:jsonObject.diff:switch#3", "strategy"),
  ("v2/object.go:jsonObject.diff:case#5", "mergePatchStrategy"),
  ("v2/object.go:jsonObject.diff:case#6", "default")
]

/-- the code behind C11 branches on exactly the conditions the model was written against -/
theorem conditions_as_modelled_C11 : Gen.condSitesFor_C11 = expectedFor_C11 := by rfl

def expectedOptFor_C11 : List (String × String) := [
  ("v2/object.go:jsonObject.Diff:getPatchStrategy#1", "own")
]

/-- every call inside the functions behind C11 passes on the option / metadata list the model passes on -/
theorem option_plumbing_as_modelled_C11 : Gen.optSitesFor_C11 = expectedOptFor_C11 := by rfl

end Jd.CondSites
