/-
  JdProofs.CondSites.P_C09 — the branch conditions of the Go functions that the model definitions behind property C09
  mirror (37 conditions; functions per tools/condfacts/property_map.json). HAND-KEPT: it records the conditions the
  model was written against; the regenerated table Gen.condSitesFor_C09 must be equal to it.
-/
import JdModel.Gen.CondSitesByProp

namespace Jd.CondSites

def expectedFor_C09 : List (String × String) := [
  ("v2/diff_write.go:Diff.RenderPatch:if#1", "len(d) == 0"),
  ("v2/diff_write.go:Diff.RenderPatch:range#1", "_, element := range d"),
  ("v2/diff_write.go:Diff.RenderPatch:if#2", "err != nil"),
  ("v2/diff_write.go:Diff.RenderPatch:if#3", "len(element.Remove) == 0 && len(element.Add) == 0"),
  ("v2/diff_write.go:Diff.RenderPatch:if#4", "lenBefore > 1"),
  ("v2/diff_write.go:Diff.RenderPatch:if#5", "len(element.Before) == 1 && !isVoid(element.Before[0])"),
  ("v2/diff_write.go:Diff.RenderPatch:if#6", "len(element.Path) == 0"),
  ("v2/diff_write.go:Diff.RenderPatch:if#7", "!ok"),
  ("v2/diff_write.go:Diff.RenderPatch:if#8", "err != nil"),
  ("v2/diff_write.go:Diff.RenderPatch:if#9", "lenAfter > 1"),
  ("v2/diff_write.go:Diff.RenderPatch:if#10", "len(element.After) == 1 && !isVoid(element.After[0])"),
  ("v2/diff_write.go:Diff.RenderPatch:if#11", "len(element.Path) == 0"),
  ("v2/diff_write.go:Diff.RenderPatch:if#12", "!ok"),
  ("v2/diff_write.go:Diff.RenderPatch:if#13", "err != nil"),
  ("v2/diff_write.go:Diff.RenderPatch:range#2", "_, e := range element.Remove"),
  ("v2/diff_write.go:Diff.RenderPatch:if#14", "isVoid(element.Remove[0])"),
  ("v2/diff_write.go:Diff.RenderPatch:range#3", "_, e := range adds"),
  ("v2/diff_write.go:Diff.RenderPatch:if#15", "isVoid(element.Add[0])"),
  ("v2/diff_write.go:Diff.RenderPatch:if#16", "err != nil"),
  ("v2/pointer.go:readPointer:if#1", "err != nil"),
  ("v2/pointer.go:readPointer:if#2", "err := checkPointerEscapes(s); err != nil"),
  ("v2/pointer.go:readPointer:range#1", "i, t := range tokens"),
  ("v2/pointer.go:readPointer:if#3", "err == nil && number >= 0 && strconv.Itoa(number) == t"),
  ("v2/pointer.go:readPointer:if#4", "err != nil"),
  ("v2/pointer.go:readPointer:if#5", "s, ok := element.(jsonString); ok && s == \"-\""),
  ("v2/pointer.go:checkPointerEscapes:for#1", "i := 0; i < len(s); i++"),
  ("v2/pointer.go:checkPointerEscapes:if#1", "s[i] != '~'"),
  ("v2/pointer.go:checkPointerEscapes:if#2", "i+1 >= len(s) || (s[i+1] != '0' && s[i+1] != '1')"),
  ("v2/pointer.go:writePointer:range#1", "_, element := range path"),
  ("v2/pointer.go:writePointer:switch#1", "e := element.(type)"),
  ("v2/pointer.go:writePointer:typecase#1", "jsonNumber"),
  ("v2/pointer.go:writePointer:typecase#2", "jsonString"),
  ("v2/pointer.go:writePointer:typecase#3", "jsonArray"),
  ("v2/pointer.go:writePointer:typecase#4", "default"),
  ("v2/pointer.go:writePointer:if#1", "int(e) == -1"),
  ("v2/pointer.go:writePointer:if#2", "_, err := strconv.Atoi(string(e)); err == nil"),
  ("v2/pointer.go:writePointer:if#3", "string(e) == \"-\"")
]

/-- the code behind C09 branches on exactly the conditions the model was written against -/
theorem conditions_as_modelled_C09 : Gen.condSitesFor_C09 = expectedFor_C09 := by rfl

def expectedOptFor_C09 : List (String × String) := [

]

/-- every call inside the functions behind C09 passes on the option / metadata list the model passes on -/
theorem option_plumbing_as_modelled_C09 : Gen.optSitesFor_C09 = expectedOptFor_C09 := by rfl

end Jd.CondSites
