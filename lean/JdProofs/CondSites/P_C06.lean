/-
  JdProofs.CondSites.P_C06 — the branch conditions of the Go functions that the model definitions behind property C06
  mirror (45 conditions; functions per tools/condfacts/property_map.json). HAND-KEPT: it records the conditions the
  model was written against; the regenerated table Gen.condSitesFor_C06 must be equal to it.
-/
import JdModel.Gen.CondSitesByProp

namespace Jd.CondSites

def expectedFor_C06 : List (String × String) := [
  ("v2/list.go:jsonList.diff:if#1", "!ok"),
  ("v2/list.go:jsonList.diff:if#2", "strategy == mergePatchStrategy"),
  ("v2/list.go:jsonList.diff:range#1", "i, v := range a"),
  ("v2/list.go:jsonList.diff:range#2", "i, v := range b"),
  ("v2/list.go:jsonList.diffRest:retcmp#1", "aCursor == len(a)"),
  ("v2/list.go:jsonList.diffRest:retcmp#2", "bCursor == len(b)"),
  ("v2/list.go:jsonList.diffRest:if#1", "endA() || len(commonSequence) == 0"),
  ("v2/list.go:jsonList.diffRest:retcmp#3", "aHashes[aCursor] == commonSequence[0]"),
  ("v2/list.go:jsonList.diffRest:if#2", "endB() || len(commonSequence) == 0"),
  ("v2/list.go:jsonList.diffRest:retcmp#4", "bHashes[bCursor] == commonSequence[0]"),
  ("v2/list.go:jsonList.diffRest:if#3", "len(d) == 0"),
  ("v2/list.go:jsonList.diffRest:if#4", "len(d[0].Add) > 0 || len(d[0].Remove) > 0"),
  ("v2/list.go:jsonList.diffRest:if#5", "i+1 > len(a)"),
  ("v2/list.go:jsonList.diffRest:for#1", "<forever>"),
  ("v2/list.go:jsonList.diffRest:switch#1", "<none>"),
  ("v2/list.go:jsonList.diffRest:case#1", "endA()"),
  ("v2/list.go:jsonList.diffRest:case#2", "endB()"),
  ("v2/list.go:jsonList.diffRest:case#3", "atCommonA() && atCommonB()"),
  ("v2/list.go:jsonList.diffRest:case#4", "atCommonA()"),
  ("v2/list.go:jsonList.diffRest:case#5", "atCommonB()"),
  ("v2/list.go:jsonList.diffRest:case#6", "sameContainerType(a[aCursor], b[bCursor], options)"),
  ("v2/list.go:jsonList.diffRest:case#7", "default"),
  ("v2/list.go:jsonList.diffRest:for#2", "!endB()"),
  ("v2/list.go:jsonList.diffRest:for#3", "!endA()"),
  ("v2/list.go:jsonList.diffRest:for#4", "!atCommonB()"),
  ("v2/list.go:jsonList.diffRest:for#5", "!atCommonA()"),
  ("v2/list.go:jsonList.diffRest:if#6", "haveDiff()"),
  ("v2/list.go:jsonList.diffRest:if#7", "!haveDiff()"),
  ("v2/list.go:jsonList.diffRest:if#8", "len(d[0].Path) > len(path)"),
  ("v2/list.go:jsonList.diffRest:if#9", "len(d) < 2"),
  ("v2/list.go:jsonList.diffRest:if#10", "endA() && endB()"),
  ("v2/list.go:jsonList.diffDifferentTypes:switch#1", "strategy"),
  ("v2/list.go:jsonList.diffDifferentTypes:case#1", "mergePatchStrategy"),
  ("v2/list.go:jsonList.diffDifferentTypes:case#2", "default"),
  ("v2/list.go:jsonList.diffMergePatchStrategy:if#1", "!a.Equals(b, options...)"),
  ("v2/list.go:sameContainerType:switch#1", "c1.(type)"),
  ("v2/list.go:sameContainerType:typecase#1", "jsonObject"),
  ("v2/list.go:sameContainerType:typecase#2", "jsonList"),
  ("v2/list.go:sameContainerType:typecase#3", "jsonSet"),
  ("v2/list.go:sameContainerType:typecase#4", "jsonMultiset"),
  ("v2/list.go:sameContainerType:typecase#5", "default"),
  ("v2/list.go:sameContainerType:if#1", "_, ok := c2.(jsonObject); ok"),
  ("v2/list.go:sameContainerType:if#2", "_, ok := c2.(jsonList); ok"),
  ("v2/list.go:sameContainerType:if#3", "_, ok := c2.(jsonSet); ok"),
  ("v2/list.go:sameContainerType:if#4", "_, ok := c2.(jsonMultiset); ok")
]

/-- the code behind C06 branches on exactly the conditions the model was written against -/
theorem conditions_as_modelled_C06 : Gen.condSitesFor_C06 = expectedFor_C06 := by rfl

def expectedOptFor_C06 : List (String × String) := [
  ("v2/list.go:jsonList.Diff:getPatchStrategy#1", "own"),
  ("v2/list.go:jsonList.diff:diffMergePatchStrategy#1", "own"),
  ("v2/list.go:jsonList.diff:hashCode#1", "own"),
  ("v2/list.go:jsonList.diff:hashCode#2", "own"),
  ("v2/list.go:jsonList.diff:diffRest#1", "own"),
  ("v2/list.go:jsonList.diffRest:sameContainerType#1", "own"),
  ("v2/list.go:jsonList.diffRest:diffRest#1", "own"),
  ("v2/list.go:jsonList.diffMergePatchStrategy:Equals#1", "own"),
  ("v2/list.go:sameContainerType:dispatch#1", "own"),
  ("v2/list.go:sameContainerType:dispatch#2", "own")
]

/-- every call inside the functions behind C06 passes on the option / metadata list the model passes on -/
theorem option_plumbing_as_modelled_C06 : Gen.optSitesFor_C06 = expectedOptFor_C06 := by rfl

end Jd.CondSites
