/-
  JdProofs.CondSites.P_C03 — the branch conditions of the Go functions that the model definitions behind property C03
  mirror (71 conditions; functions per tools/condfacts/property_map.json). HAND-KEPT: it records the conditions the
  model was written against; the regenerated table Gen.condSitesFor_C03 must be equal to it.
-/
import JdModel.Gen.CondSitesByProp

namespace Jd.CondSites

def expectedFor_C03 : List (String × String) := [
  ("v2/list.go:jsonList.patch:if#1", "strategy == mergePatchStrategy"),
  ("v2/list.go:jsonList.patch:if#2", "len(pathAhead) == 0"),
  ("v2/list.go:jsonList.patch:if#3", "len(removeValues) > 1 || len(addValues) > 1"),
  ("v2/list.go:jsonList.patch:if#4", "len(removeValues) == 0 && strategy == strictPatchStrategy"),
  ("v2/list.go:jsonList.patch:if#5", "!l.Equals(removeValues[0])"),
  ("v2/list.go:jsonList.patch:if#6", "len(addValues) == 0"),
  ("v2/list.go:jsonList.patch:if#7", "!ok"),
  ("v2/list.go:jsonList.patch:if#8", "len(rest) > 0"),
  ("v2/list.go:jsonList.patch:if#9", "int(i) < 0 || int(i) > len(l)-1"),
  ("v2/list.go:jsonList.patch:if#10", "err != nil"),
  ("v2/list.go:jsonList.patch:if#11", "int(i) == -1"),
  ("v2/list.go:jsonList.patch:if#12", "len(removeValues) > 0"),
  ("v2/list.go:jsonList.patch:if#13", "int(i) < 0 || int(i) > len(l)"),
  ("v2/list.go:jsonList.patch:range#1", "j, b := range before"),
  ("v2/list.go:jsonList.patch:switch#1", "<none>"),
  ("v2/list.go:jsonList.patch:case#1", "bIndex < 0"),
  ("v2/list.go:jsonList.patch:case#2", "!b.Equals(l[bIndex])"),
  ("v2/list.go:jsonList.patch:if#14", "bIndex == -1 && isVoid(b)"),
  ("v2/list.go:jsonList.patch:for#1", "len(removeValues) > 0"),
  ("v2/list.go:jsonList.patch:if#15", "int(i) > len(l)-1"),
  ("v2/list.go:jsonList.patch:if#16", "!l[i].Equals(removeValues[0])"),
  ("v2/list.go:jsonList.patch:if#17", "int(i) < len(l)"),
  ("v2/list.go:jsonList.patch:range#2", "j, a := range after"),
  ("v2/list.go:jsonList.patch:if#18", "aIndex > len(l)-1"),
  ("v2/list.go:jsonList.patch:if#19", "aIndex == len(l) && isVoid(a)"),
  ("v2/list.go:jsonList.patch:if#20", "!a.Equals(l[aIndex])"),
  ("v2/object.go:jsonObject.patch:if#1", "(len(pathAhead) == 0) && (len(oldValues) > 1 || len(newValues) > 1)"),
  ("v2/object.go:jsonObject.patch:if#2", "len(pathAhead) == 0"),
  ("v2/object.go:jsonObject.patch:if#3", "strategy == mergePatchStrategy"),
  ("v2/object.go:jsonObject.patch:if#4", "!o.Equals(oldValue)"),
  ("v2/object.go:jsonObject.patch:if#5", "!ok"),
  ("v2/object.go:jsonObject.patch:if#6", "!ok"),
  ("v2/object.go:jsonObject.patch:switch#1", "strategy"),
  ("v2/object.go:jsonObject.patch:case#1", "mergePatchStrategy"),
  ("v2/object.go:jsonObject.patch:case#2", "strictPatchStrategy"),
  ("v2/object.go:jsonObject.patch:case#3", "default"),
  ("v2/object.go:jsonObject.patch:if#7", "len(rest) == 0"),
  ("v2/object.go:jsonObject.patch:if#8", "err != nil"),
  ("v2/object.go:jsonObject.patch:if#9", "isVoid(patchedNode)"),
  ("v2/patch_common.go:patchAll:range#1", "_, de := range d"),
  ("v2/patch_common.go:patchAll:if#1", "de.Metadata.Merge"),
  ("v2/patch_common.go:patchAll:if#2", "err != nil"),
  ("v2/patch_common.go:patch:if#1", "!pathAhead.isLeaf()"),
  ("v2/patch_common.go:patch:if#2", "strategy != mergePatchStrategy"),
  ("v2/patch_common.go:patch:if#3", "!ok"),
  ("v2/patch_common.go:patch:if#4", "err != nil"),
  ("v2/patch_common.go:patch:if#5", "!isVoid(value) || len(rest) > 0"),
  ("v2/patch_common.go:patch:if#6", "len(pathAhead) > 0 && strategy != mergePatchStrategy"),
  ("v2/patch_common.go:patch:if#7", "len(oldValues) > 1 || len(newValues) > 1"),
  ("v2/patch_common.go:patch:switch#1", "strategy"),
  ("v2/patch_common.go:patch:case#1", "mergePatchStrategy"),
  ("v2/patch_common.go:patch:case#2", "strictPatchStrategy"),
  ("v2/patch_common.go:patch:case#3", "default"),
  ("v2/patch_common.go:patch:if#8", "!isVoid(oldValue)"),
  ("v2/patch_common.go:patch:if#9", "!node.Equals(oldValue)"),
  ("v2/patch_common.go:singleValue:if#1", "len(nodes) == 0"),
  ("v2/patch_common.go:patchErrExpectColl:switch#1", "pe := pe.(type)"),
  ("v2/patch_common.go:patchErrExpectColl:typecase#1", "string"),
  ("v2/patch_common.go:patchErrExpectColl:typecase#2", "float64"),
  ("v2/patch_common.go:patchErrExpectColl:typecase#3", "default"),
  ("v2/patch_common.go:patchErrNonSetDiff:if#1", "len(oldValues) > 1"),
  ("v2/patch_common.go:cloneNodes:if#1", "nodes == nil"),
  ("v2/patch_common.go:cloneNodes:range#1", "i, n := range nodes"),
  ("v2/patch_common.go:cloneNode:switch#1", "t := n.(type)"),
  ("v2/patch_common.go:cloneNode:typecase#1", "jsonObject"),
  ("v2/patch_common.go:cloneNode:typecase#2", "jsonArray"),
  ("v2/patch_common.go:cloneNode:typecase#3", "jsonList"),
  ("v2/patch_common.go:cloneNode:typecase#4", "jsonSet"),
  ("v2/patch_common.go:cloneNode:typecase#5", "jsonMultiset"),
  ("v2/patch_common.go:cloneNode:typecase#6", "default"),
  ("v2/patch_common.go:cloneNode:range#1", "k, v := range t")
]

/-- the code behind C03 branches on exactly the conditions the model was written against -/
theorem conditions_as_modelled_C03 : Gen.condSitesFor_C03 = expectedFor_C03 := by rfl

def expectedOptFor_C03 : List (String × String) := [
  ("v2/list.go:jsonList.patch:Equals#1", "none"),
  ("v2/list.go:jsonList.patch:Equals#2", "none"),
  ("v2/list.go:jsonList.patch:Equals#3", "none"),
  ("v2/list.go:jsonList.patch:Equals#4", "none"),
  ("v2/object.go:jsonObject.patch:Equals#1", "none"),
  ("v2/patch_common.go:patch:Equals#1", "none")
]

/-- every call inside the functions behind C03 passes on the option / metadata list the model passes on -/
theorem option_plumbing_as_modelled_C03 : Gen.optSitesFor_C03 = expectedOptFor_C03 := by rfl

end Jd.CondSites
