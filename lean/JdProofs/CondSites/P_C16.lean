/-
  JdProofs.CondSites.P_C16 — the branch conditions of the Go functions that the model definitions behind property C16
  mirror (30 conditions; functions per tools/condfacts/property_map.json). HAND-KEPT: it records the conditions the
  model was written against; the regenerated table Gen.condSitesFor_C16 must be equal to it.
-/
import JdModel.Gen.CondSitesByProp

namespace Jd.CondSites

def expectedFor_C16 : List (String × String) := [
  ("v2/node.go:NewJsonNode:switch#1", "t := n.(type)"),
  ("v2/node.go:NewJsonNode:typecase#1", "map[string]interface{}"),
  ("v2/node.go:NewJsonNode:typecase#2", "map[interface{}]interface{}"),
  ("v2/node.go:NewJsonNode:typecase#3", "[]interface{}"),
  ("v2/node.go:NewJsonNode:typecase#4", "float64"),
  ("v2/node.go:NewJsonNode:typecase#5", "int"),
  ("v2/node.go:NewJsonNode:typecase#6", "string"),
  ("v2/node.go:NewJsonNode:typecase#7", "bool"),
  ("v2/node.go:NewJsonNode:typecase#8", "nil"),
  ("v2/node.go:NewJsonNode:typecase#9", "default"),
  ("v2/node.go:NewJsonNode:range#1", "k, v := range t"),
  ("v2/node.go:NewJsonNode:if#1", "!ok"),
  ("v2/node.go:NewJsonNode:if#2", "err != nil"),
  ("v2/node.go:NewJsonNode:range#2", "k, v := range t"),
  ("v2/node.go:NewJsonNode:if#3", "!ok"),
  ("v2/node.go:NewJsonNode:if#4", "_, ok := v.(JsonNode); !ok"),
  ("v2/node.go:NewJsonNode:if#5", "err != nil"),
  ("v2/node.go:NewJsonNode:range#3", "i, v := range t"),
  ("v2/node.go:NewJsonNode:if#6", "_, ok := v.(JsonNode); !ok"),
  ("v2/node.go:NewJsonNode:if#7", "err != nil"),
  ("v2/node.go:NewJsonNode:if#8", "math.IsNaN(t) || math.IsInf(t, 0)"),
  ("v2/node.go:nodeList:if#1", "len(n) == 0"),
  ("v2/node.go:nodeList:if#2", "n[0].Equals(voidNode{})"),
  ("v2/node_read.go:ReadJsonFile:if#1", "err != nil"),
  ("v2/node_read.go:ReadYamlFile:if#1", "err != nil"),
  ("v2/node_read.go:unmarshal:if#1", "strings.Trim(string(bytes), \" \\t\\r\\n\") == \"\""),
  ("v2/node_read.go:unmarshal:if#2", "err != nil"),
  ("v2/node_read.go:unmarshal:if#3", "err != nil"),
  ("v2/node_write.go:renderJson:if#1", "err != nil"),
  ("v2/node_write.go:renderYaml:if#1", "err != nil")
]

/-- the code behind C16 branches on exactly the conditions the model was written against -/
theorem conditions_as_modelled_C16 : Gen.condSitesFor_C16 = expectedFor_C16 := by rfl

def expectedOptFor_C16 : List (String × String) := [
  ("v2/node.go:nodeList:Equals#1", "none")
]

/-- every call inside the functions behind C16 passes on the option / metadata list the model passes on -/
theorem option_plumbing_as_modelled_C16 : Gen.optSitesFor_C16 = expectedOptFor_C16 := by rfl

end Jd.CondSites
