/-
  JdProofs.CondSites.P_C12 — the branch conditions of the Go functions that the model definitions behind property C12
  mirror (57 conditions; functions per tools/condfacts/property_map.json). HAND-KEPT: it records the conditions the
  model was written against; the regenerated table Gen.condSitesFor_C12 must be equal to it.
-/
import JdModel.Gen.CondSitesByProp

namespace Jd.CondSites

def expectedFor_C12 : List (String × String) := [
  ("v2/diff_read.go:ReadMergeFile:if#1", "err != nil"),
  ("v2/diff_read.go:ReadMergeString:if#1", "err != nil"),
  ("v2/diff_read.go:ReadMergeString:if#2", "n.Equals(jsonObject{})"),
  ("v2/diff_read.go:ReadMergeString:if#3", "err != nil"),
  ("v2/diff_read.go:readMergeInto:switch#1", "n := n.(type)"),
  ("v2/diff_read.go:readMergeInto:typecase#1", "jsonObject"),
  ("v2/diff_read.go:readMergeInto:typecase#2", "voidNode"),
  ("v2/diff_read.go:readMergeInto:typecase#3", "default"),
  ("v2/diff_read.go:readMergeInto:range#1", "k := range n"),
  ("v2/diff_read.go:readMergeInto:range#2", "_, k := range keys"),
  ("v2/diff_read.go:readMergeInto:if#1", "len(n) == 0"),
  ("v2/diff_read.go:readMergeInto:if#2", "isNull(n)"),
  ("v2/object.go:jsonObject.patch:if#1", "(len(pathAhead) == 0) && (len(oldValues) > 1 || len(newValues) > 1)"),
  ("v2/object.go:jsonObject.patch:if#2", "len(pathAhead) == 0"),
  ("v2/object.go:jsonObject.patch:if#3", "strategy == mergePatchStrategy"),
  ("v2/object.go:jsonObject.patch:if#4", "!o.Equals(oldValue)"),
  ("v2/object.go:jsonObject.patch:if#5", "!ok"),
  ("v2/object.go:jsonObject.patch:if#6", "!ok"),
  ("v2/object.go:jsonObject.patch:switch#1", "strategy"),
  ("v2/object.go:jsonObject.patch:case#1", "mergePatchStrategy"),
  ("v2/object.go:jsonObject.patch:case#2", "strictPatchStrategy"),
  ("v2/object.go:jsonObject.patch:case#3", "default"),
  ("v2/object.go:jsonObject.patch:if#7", "len(rest) == 0"),
  ("v2/object.go:jsonObject.patch:if#8", "err != nil"),
  ("v2/object.go:jsonObject.patch:if#9", "isVoid(patchedNode)"),
  ("v2/patch_common.go:patchAll:range#1", "_, de := range d"),
  ("v2/patch_common.go:patchAll:if#1", "de.Metadata.Merge"),
  ("v2/patch_common.go:patchAll:if#2", "err != nil"),
  ("v2/patch_common.go:patch:if#1", "!pathAhead.isLeaf()"),
  ("v2/patch_common.go:patch:if#2", "strategy != mergePatchStrategy"),
  ("v2/patch_common.go:patch:if#3", "!ok"),
  ("v2/patch_common.go:patch:if#4", "err != nil"),
  ("v2/patch_common.go:patch:if#5", "!isVoid(value) || len(rest) > 0"),
  ("v2/patch_common.go:patch:if#6", "len(pathAhead) > 0 && strategy != mergePatchStrategy"),
  ("v2/patch_common.go:patch:if#7", "len(oldValues) > 1 || len(newValues) > 1"),
  ("v2/patch_common.go:patch:switch#1", "strategy"),
  ("v2/patch_common.go:patch:case#1", "mergePatchStrategy"),
  ("v2/patch_common.go:patch:case#2", "strictPatchStrategy"),
  ("v2/patch_common.go:patch:case#3", "default"),
  ("v2/patch_common.go:patch:if#8", "!isVoid(oldValue)"),
  ("v2/patch_common.go:patch:if#9", "!node.Equals(oldValue)"),
  ("v2/patch_common.go:singleValue:if#1", "len(nodes) == 0"),
  ("v2/patch_common.go:patchErrExpectColl:switch#1", "pe := pe.(type)"),
  ("v2/patch_common.go:patchErrExpectColl:typecase#1", "string"),
  ("v2/patch_common.go:patchErrExpectColl:typecase#2", "float64"),
  ("v2/patch_common.go:patchErrExpectColl:typecase#3", "default"),
  ("v2/patch_common.go:patchErrNonSetDiff:if#1", "len(oldValues) > 1"),
  ("v2/patch_common.go:cloneNodes:if#1", "nodes == nil"),
  ("v2/patch_common.go:cloneNodes:range#1", "i, n := range nodes"),
  ("v2/patch_common.go:cloneNode:switch#1", "t := n.(type)"),
  ("v2/patch_common.go:cloneNode:typecase#1", "jsonObject"),
  ("v2/patch_common.go:cloneNode:typecase#2", "jsonArray"),
  ("v2/patch_common.go:cloneNode:typecase#3", "jsonList"),
  ("v2/patch_common.go:cloneNode:typecase#4", "jsonSet"),
  ("v2/patch_common.go:cloneNode:typecase#5", "jsonMultiset"),
  ("v2/patch_common.go:cloneNode:typecase#6", "default"),
  ("v2/patch_common.go:cloneNode:range#1", "k, v := range t")
]

/-- the code behind C12 branches on exactly the conditions the model was written against -/
theorem conditions_as_modelled_C12 : Gen.condSitesFor_C12 = expectedFor_C12 := by rfl

def expectedOptFor_C12 : List (String × String) := [
  ("v2/diff_read.go:ReadMergeString:Equals#1", "none"),
  ("v2/object.go:jsonObject.patch:Equals#1", "none"),
  ("v2/patch_common.go:patch:Equals#1", "none")
]

/-- every call inside the functions behind C12 passes on the option / metadata list the model passes on -/
theorem option_plumbing_as_modelled_C12 : Gen.optSitesFor_C12 = expectedOptFor_C12 := by rfl

end Jd.CondSites
