/-
  JdProofs.CondSites.P_C04 — the branch conditions of the Go functions that the model definitions behind property C04
  mirror (51 conditions; functions per tools/condfacts/property_map.json). HAND-KEPT: it records the conditions the
  model was written against; the regenerated table Gen.condSitesFor_C04 must be equal to it.
-/
import JdModel.Gen.CondSitesByProp

namespace Jd.CondSites

def expectedFor_C04 : List (String × String) := [
  ("v2/array.go:jsonArray.raw:range#1", "i, n := range a"),
  ("v2/bool.go:jsonBool.Equals:if#1", "!ok"),
  ("v2/bool.go:jsonBool.Equals:retcmp#1", "b1 == b2"),
  ("v2/bool.go:jsonBool.hashCode:if#1", "b"),
  ("v2/hash_common.go:hashCodes.Less:if#1", "bytes.Compare(h[i][:], h[j][:]) == -1"),
  ("v2/hash_common.go:hashCodes.combine:range#1", "_, hc := range h"),
  ("v2/list.go:jsonList.Equals:if#1", "!ok"),
  ("v2/list.go:jsonList.Equals:if#2", "len(l1) != len(l2)"),
  ("v2/list.go:jsonList.Equals:range#1", "i, v1 := range l1"),
  ("v2/list.go:jsonList.Equals:if#3", "!v1.Equals(v2, options...)"),
  ("v2/list.go:jsonList.hashCode:range#1", "_, n := range l"),
  ("v2/multiset.go:jsonMultiset.Equals:if#1", "!ok"),
  ("v2/multiset.go:jsonMultiset.Equals:if#2", "len(a1) != len(a2)"),
  ("v2/multiset.go:jsonMultiset.Equals:if#3", "a1.hashCode(options) == a2.hashCode(options)"),
  ("v2/multiset.go:jsonMultiset.hashCode:range#1", "_, v := range a"),
  ("v2/multiset.go:jsonMultiset.hashCode:range#2", "_, c := range h"),
  ("v2/null.go:jsonNull.Equals:switch#1", "node.(type)"),
  ("v2/null.go:jsonNull.Equals:typecase#1", "jsonNull"),
  ("v2/null.go:jsonNull.Equals:typecase#2", "default"),
  ("v2/number.go:jsonNumber.Equals:if#1", "p, ok := getOption[precisionOption](options); ok"),
  ("v2/number.go:jsonNumber.Equals:if#2", "!ok"),
  ("v2/number.go:jsonNumber.Equals:retcmp#1", "math.Abs(float64(n1)-float64(n2)) <= precision"),
  ("v2/number.go:jsonNumber.hashCode:if#1", "n == 0"),
  ("v2/object.go:jsonObject.Equals:if#1", "!ok"),
  ("v2/object.go:jsonObject.Equals:if#2", "len(o1) != len(o2)"),
  ("v2/object.go:jsonObject.Equals:range#1", "key1, val1 := range o1"),
  ("v2/object.go:jsonObject.Equals:if#3", "!ok"),
  ("v2/object.go:jsonObject.Equals:if#4", "!ret"),
  ("v2/object.go:jsonObject.hashCode:range#1", "k := range o"),
  ("v2/object.go:jsonObject.hashCode:range#2", "_, k := range keys"),
  ("v2/object.go:jsonObject.ident:if#1", "!ok"),
  ("v2/object.go:jsonObject.ident:range#1", "_, key := range []string(*keys)"),
  ("v2/object.go:jsonObject.ident:if#2", "ok"),
  ("v2/object.go:jsonObject.ident:if#3", "len(hashes) == 0"),
  ("v2/object.go:jsonObject.pathIdent:range#1", "k := range pathObject"),
  ("v2/object.go:jsonObject.pathIdent:range#2", "_, key := range keys"),
  ("v2/object.go:jsonObject.pathIdent:if#1", "value, ok := o[key]; ok"),
  ("v2/object.go:jsonObject.pathIdent:if#2", "_, isNull := pathObject[key].(jsonNull); isNull && absentIsNull"),
  ("v2/set.go:jsonSet.Equals:if#1", "!ok"),
  ("v2/set.go:jsonSet.Equals:if#2", "s1.hashCode(options) == s2.hashCode(options)"),
  ("v2/set.go:jsonSet.hashCode:range#1", "_, v := range s"),
  ("v2/set.go:jsonSet.hashCode:range#2", "hc := range sMap"),
  ("v2/string.go:jsonString.Equals:if#1", "!ok"),
  ("v2/string.go:jsonString.Equals:retcmp#1", "s1 == s2"),
  ("v2/void.go:isVoid:if#1", "n == nil"),
  ("v2/void.go:isVoid:if#2", "_, ok := n.(voidNode); ok"),
  ("v2/void.go:isNull:if#1", "n == nil"),
  ("v2/void.go:isNull:if#2", "_, ok := n.(jsonNull); ok"),
  ("v2/void.go:voidNode.Equals:switch#1", "n.(type)"),
  ("v2/void.go:voidNode.Equals:typecase#1", "voidNode"),
  ("v2/void.go:voidNode.Equals:typecase#2", "default")
]

/-- the code behind C04 branches on exactly the conditions the model was written against -/
theorem conditions_as_modelled_C04 : Gen.condSitesFor_C04 = expectedFor_C04 := by rfl

def expectedOptFor_C04 : List (String × String) := [
  ("v2/array.go:jsonArray.Json:dispatch#1", "own"),
  ("v2/array.go:jsonArray.Yaml:dispatch#1", "own"),
  ("v2/array.go:jsonArray.Equals:dispatch#1", "own"),
  ("v2/array.go:jsonArray.Equals:dispatch#2", "own"),
  ("v2/array.go:jsonArray.Equals:Equals#1", "own"),
  ("v2/array.go:jsonArray.hashCode:dispatch#1", "own"),
  ("v2/array.go:jsonArray.hashCode:hashCode#1", "own"),
  ("v2/array.go:jsonArray.Diff:dispatch#1", "own"),
  ("v2/array.go:jsonArray.Diff:dispatch#2", "own"),
  ("v2/array.go:jsonArray.Diff:getPatchStrategy#1", "own"),
  ("v2/array.go:jsonArray.diff:dispatch#1", "own"),
  ("v2/array.go:jsonArray.diff:dispatch#2", "own"),
  ("v2/array.go:jsonArray.patch:dispatch#1", "expr:metadata"),
  ("v2/bool.go:jsonBool.Diff:getPatchStrategy#1", "own"),
  ("v2/list.go:jsonList.Equals:dispatch#1", "own"),
  ("v2/list.go:jsonList.Equals:Equals#1", "own"),
  ("v2/list.go:jsonList.hashCode:hashCode#1", "own"),
  ("v2/multiset.go:jsonMultiset.Equals:dispatch#1", "own"),
  ("v2/multiset.go:jsonMultiset.Equals:hashCode#1", "own"),
  ("v2/multiset.go:jsonMultiset.Equals:hashCode#2", "own"),
  ("v2/multiset.go:jsonMultiset.hashCode:hashCode#1", "own"),
  ("v2/null.go:jsonNull.Diff:getPatchStrategy#1", "own"),
  ("v2/number.go:jsonNumber.Diff:getPatchStrategy#1", "own"),
  ("v2/object.go:jsonObject.Equals:Equals#1", "own"),
  ("v2/object.go:jsonObject.hashCode:hashCode#1", "own"),
  ("v2/object.go:jsonObject.ident:hashCode#1", "own"),
  ("v2/object.go:jsonObject.ident:hashCode#2", "own"),
  ("v2/object.go:jsonObject.ident:hashCode#3", "own"),
  ("v2/object.go:jsonObject.pathIdent:hashCode#1", "own"),
  ("v2/set.go:jsonSet.Equals:dispatch#1", "own"),
  ("v2/set.go:jsonSet.Equals:hashCode#1", "own"),
  ("v2/set.go:jsonSet.Equals:hashCode#2", "own"),
  ("v2/set.go:jsonSet.hashCode:dispatch#1", "own"),
  ("v2/set.go:jsonSet.hashCode:hashCode#1", "own"),
  ("v2/string.go:jsonString.Diff:getPatchStrategy#1", "own"),
  ("v2/void.go:voidNode.Diff:getPatchStrategy#1", "own")
]

/-- every call inside the functions behind C04 passes on the option / metadata list the model passes on -/
theorem option_plumbing_as_modelled_C04 : Gen.optSitesFor_C04 = expectedOptFor_C04 := by rfl

end Jd.CondSites
