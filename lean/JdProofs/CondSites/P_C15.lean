/-
  JdProofs.CondSites.P_C15 — the branch conditions of the Go functions that the model definitions behind property C15
  mirror (32 conditions; functions per tools/condfacts/property_map.json). HAND-KEPT: it records the conditions the
  model was written against; the regenerated table Gen.condSitesFor_C15 must be equal to it.
-/
import JdModel.Gen.CondSitesByProp

namespace Jd.CondSites

def expectedFor_C15 : List (String × String) := [
  ("v2/patch_common.go:patchAll:range#1", "_, de := range d"),
  ("v2/patch_common.go:patchAll:if#1", "de.Metadata.Merge"),
  ("v2/patch_common.go:patchAll:if#2", "err != nil"),
  ("v2/patch_common.go:patch:if#1", "!pathAhead.isLeaf()"),
  ("v2/patch_common.go:patch:if#2", "strategy != mergePatchStrategy"),
  ("v2/patch_common.go:patch:if#3", "!ok"),
  ("v2/patch_common.go:patch:if#4", "err != nil"),
  ("v2/patch_common.go:patch:if#5", "!isVoid(value) || len(rest) > 0"),
  ("v2/patch_common.go:patch:if#6", "len(pathAhead) > 0 && strategy != mergePatchStrategy"),
  ("v2/patch_common.go:patch:if#7", "len(oldValues) > 1 || len(newValues) > 1"),
  ("v2/patch_common.go:patch:switch#1", "strategy"),
  ("v2/patch_common.go:patch:case#1", "mergePatchStrategy"),
  ("v2/patch_common.go:patch:case#2", "strictPatchStrategy"),
  ("v2/patch_common.go:patch:case#3", "default"),
  ("v2/patch_common.go:patch:if#8", "!isVoid(oldValue)"),
  ("v2/patch_common.go:patch:if#9", "!node.Equals(oldValue)"),
  ("v2/patch_common.go:singleValue:if#1", "len(nodes) == 0"),
  ("v2/patch_common.go:patchErrExpectColl:switch#1", "pe := pe.(type)"),
  ("v2/patch_common.go:patchErrExpectColl:typecase#1", "string"),
  ("v2/patch_common.go:patchErrExpectColl:typecase#2", "float64"),
  ("v2/patch_common.go:patchErrExpectColl:typecase#3", "default"),
  ("v2/patch_common.go:patchErrNonSetDiff:if#1", "len(oldValues) > 1"),
  ("v2/patch_common.go:cloneNodes:if#1", "nodes == nil"),
  ("v2/patch_common.go:cloneNodes:range#1", "i, n := range nodes"),
  ("v2/patch_common.go:cloneNode:switch#1", "t := n.(type)"),
  ("v2/patch_common.go:cloneNode:typecase#1", "jsonObject"),
  ("v2/patch_common.go:cloneNode:typecase#2", "jsonArray"),
  ("v2/patch_common.go:cloneNode:typecase#3", "jsonList"),
  ("v2/patch_common.go:cloneNode:typecase#4", "jsonSet"),
  ("v2/patch_common.go:cloneNode:typecase#5", "jsonMultiset"),
  ("v2/patch_common.go:cloneNode:typecase#6", "default"),
  ("v2/patch_common.go:cloneNode:range#1", "k, v := range t")
]

/-- the code behind C15 branches on exactly the conditions the model was written against -/
theorem conditions_as_modelled_C15 : Gen.condSitesFor_C15 = expectedFor_C15 := by rfl

def expectedOptFor_C15 : List (String × String) := [
  ("v2/patch_common.go:patch:Equals#1", "none")
]

/-- every call inside the functions behind C15 passes on the option / metadata list the model passes on -/
theorem option_plumbing_as_modelled_C15 : Gen.optSitesFor_C15 = expectedOptFor_C15 := by rfl

end Jd.CondSites
