/-
  JdProofs.PatchParseBack — property C10, first clause: reading jd's own JSON Patch output gives the
  diff back (up to a stated normal form of the context lines), and applying what was read back to
  `a` reproduces `b`.

  Level: the operations `renderPatchOps` (model of `Diff.RenderPatch`) produces, read by
  `readPatchLoop` (model of the element loop of `ReadPatchString`: `readPatchDiffElement`,
  `setPatchDiffElementContext`, coalescing).

  Definitions (all `Bool`-valued, executable)
    `PBwfH h`   the domain, one hunk      `PBwf d`   the domain: every hunk, plus `chainOK d`
    `sepH h1 h2` separation of consecutive hunks: paths do not compare equal (`pathEq`, the
                 reader's own comparison) or the second hunk has a real context line
    `normH h`   the normal form, one hunk  `normPB d` the normal form (`d.map normH`)
    `jdShaped h` exactly one context line on each side of an array hunk (what jd's list diff emits)

  Main results
    `readPointer_write`       `readPointer` inverts `writePointerPath` on supported paths
    `atoi?_toString`          `strconv.Atoi` of the decimal text of `0 ≤ i < 2^63` is `i`
    `hunk_loop`               one hunk: its r+s single-operation elements are read and coalesced
                              into ONE hunk with `remove` and `add` in the original order
    `readPatch_render`        PARSE-BACK: `readPatchLoop (ops.length+1) ops [] = .ok (normPB d)`
    `normH_eq_self`           when the normal form is the hunk itself
    `applyStrictAll_normPB`   the normal form applies wherever the diff applies, same result
    `readPatch_render_apply`  … hence so does what was read back (reference semantics)
    `readPatch_render_patch`  … and the library's `Patch` (via JdProofs.StrictPatch), up to `untag`

  The reader's coalescing rule is the one after fix D26 (an element that removes is not coalesced
  into a hunk that already adds); inside one rendered hunk all removals precede all additions, so
  the rule never fires there (`absorb_rems` carries `cur.add = []`).

  Hypothesis `FloatLaws` (only `refl` is used): the reader compares the value of each `test` with
  the value of the `remove` that follows, and the paths of consecutive elements, with `Equals`;
  float comparison is opaque to the kernel.

  The only difference between `d` and `normPB d` on jd-shaped diffs: an array hunk that only adds
  and has the void marker on both sides (`[] → [x…]`) is read back WITHOUT context (JSON Patch has
  no test for "the array is empty"); everything else is read back verbatim (`normH_eq_self`).
-/
import JdProofs.EqualsList
import JdProofs.StrictPatch
import JdProofs.PatchRender
import JdProofs.NativeRoundTrip

namespace Jd.PB
open Jd Jd.Spec

/-! ### 1. the pointer layer: `readPointer` inverts `writePointerPath` -/

/-- first pass of `jsonpointer.Unescape` on escaped text: only `~` → `~0` remains -/
def esc0 : List Char → List Char
  | [] => []
  | c :: r => if c = '~' then '~' :: '0' :: esc0 r else c :: esc0 r

theorem pass1_escChars : ∀ l : List Char, ptrUnescape.pass '1' '/' (escChars l) = esc0 l
  | [] => rfl
  | c :: r => by
    have ih := pass1_escChars r
    unfold escChars esc0
    by_cases h1 : c = '~'
    · subst h1
      simp only [if_true]
      rw [ptrUnescape.pass]
      simp only [show ('0' == '1') = false by decide, Bool.false_eq_true, if_false]
      rw [ptrUnescape.pass]
      · rw [ih]
      · intro x t h; cases h
    · by_cases h2 : c = '/'
      · subst h2
        simp only [h1, if_false, if_true]
        rw [ptrUnescape.pass]
        simp [ih]
      · simp only [h1, h2, if_false]
        rw [ptrUnescape.pass]
        · rw [ih]
        · intro x t h; exact absurd h h1

theorem pass0_esc0 : ∀ l : List Char, ptrUnescape.pass '0' '~' (esc0 l) = l
  | [] => rfl
  | c :: r => by
    have ih := pass0_esc0 r
    unfold esc0
    by_cases h1 : c = '~'
    · subst h1
      simp only [if_true]
      rw [ptrUnescape.pass]
      simp [ih]
    · simp only [h1, if_false]
      rw [ptrUnescape.pass]
      · rw [ih]
      · intro x t h; exact absurd h h1

theorem ptrUnescape_esc (l : List Char) : ptrUnescape (String.ofList (escChars l)) = String.ofList l := by
  unfold ptrUnescape
  rw [String.toList_ofList, pass1_escChars, pass0_esc0]

/-! decimal text of a non-negative index -/

def signSplit (cs : List Char) : Bool × List Char :=
  match cs with
  | '-' :: r => (true, r)
  | '+' :: r => (false, r)
  | r => (false, r)

theorem signSplit_digits : ∀ ds : List Char, (∀ c ∈ ds, isDigit c = true) → signSplit ds = (false, ds) := by
  intro ds
  unfold signSplit
  split <;> intro hd
  · have := hd '-' List.mem_cons_self; simp [isDigit] at this
  · have := hd '+' List.mem_cons_self; simp [isDigit] at this
  · rfl

theorem atoi?_eq (s : String) : atoi? s =
    (if (signSplit s.toList).2.isEmpty || !((signSplit s.toList).2.all isDigit) then none
     else
      let n : Nat := (signSplit s.toList).2.foldl (fun (acc : Nat) c => acc * 10 + (c.toNat - 48)) 0
      if (signSplit s.toList).1 then (if n ≤ 2 ^ 63 then some (-(n : Int)) else none)
      else (if n < 2 ^ 63 then some (n : Int) else none)) := rfl

theorem atoi?_natRepr (n : Nat) (h : n < 2 ^ 63) : atoi? n.repr = some (n : Int) := by
  rw [atoi?_eq]
  simp only [Nat.toList_repr]
  have hd : ∀ c ∈ Nat.toDigits 10 n, isDigit c = true := by
    intro c hc
    have := Nat.isDigit_of_mem_toDigits (by decide) (by decide) hc
    simp only [Char.isDigit, Bool.and_eq_true, decide_eq_true_eq] at this
    simp only [isDigit, Bool.and_eq_true, decide_eq_true_eq]
    exact ⟨this.1, this.2⟩
  have hne : Nat.toDigits 10 n ≠ [] := Nat.toDigits_ne_nil
  rw [signSplit_digits _ hd]
  have h1 : (Nat.toDigits 10 n).isEmpty = false := by
    cases hh : Nat.toDigits 10 n with | nil => exact absurd hh hne | cons _ _ => rfl
  have h2 : (Nat.toDigits 10 n).all isDigit = true := List.all_eq_true.2 hd
  simp only [h1, h2, Bool.not_true, Bool.or_false, Bool.false_eq_true, if_false]
  rw [foldl_digits, Nat.ofDigitChars_ten_toDigits]
  simp [h]

theorem atoi?_toString {i : Int} (h0 : 0 ≤ i) (h : i < 2 ^ 63) : atoi? (toString i) = some i := by
  rw [Int.toString_eq_repr, Int.repr_eq_if, if_pos h0, atoi?_natRepr _ (by omega)]
  congr 1; omega

/-- a path element of the supported subset: a key that is not number-like and not `-`,
    or an index `0 ≤ i < 2^53` -/
def elemOK : PathElem → Bool
  | .key k => (atoi? k).isNone && k != "-"
  | .idx i => decide (0 ≤ i) && decide (i < 2 ^ 53)
  | _ => false

def pathOK (p : Path) : Bool := p.all elemOK

/-- the JSON form `readPointer` gives a token -/
def tokJson (t : String) : Json :=
  match indexToken? t with
  | some i => .num (intToFloatBits i)
  | none => if t == "-" then .num (intToFloatBits (-1)) else .str t

theorem indexToken?_of_atoi_none {t : String} (h : atoi? t = none) : indexToken? t = none := by
  simp [indexToken?, h]

theorem indexToken?_toString {i : Int} (h0 : 0 ≤ i) (h : i < 2 ^ 63) :
    indexToken? (toString i) = some i := by
  unfold indexToken?
  rw [atoi?_toString h0 h]
  simp [h0]

theorem escapesOK_cons_ne {c : Char} (h : c ≠ '~') (r : List Char) :
    escapesOK (c :: r) = escapesOK r := by
  rw [escapesOK.eq_def]
  split
  · rename_i heq; cases heq
  · rename_i heq; injection heq with heq _; exact absurd heq h
  · rename_i heq; injection heq with _ heq; rw [heq]

theorem escapesOK_tilde (x : Char) (r : List Char) :
    escapesOK ('~' :: x :: r) = ((x == '0' || x == '1') && escapesOK (x :: r)) := by
  rw [escapesOK.eq_def]; rfl

theorem escapesOK_tilde_nil : escapesOK ['~'] = false := by
  rw [escapesOK.eq_def]; rfl

/-- `escapesOK` holds of what `ptrEscape` writes, whatever follows it (a `/` or the end) -/
theorem escapesOK_escChars_append : ∀ (l rest : List Char), escapesOK rest = true →
    escapesOK (escChars l ++ rest) = true
  | [], rest, h => h
  | c :: r, rest, h => by
    have ih := escapesOK_escChars_append r rest h
    unfold escChars
    by_cases h1 : c = '~'
    · simp only [h1, if_true, List.cons_append]
      rw [escapesOK_tilde, escapesOK_cons_ne (by decide)]
      simpa using ih
    · by_cases h2 : c = '/'
      · simp only [h2, if_true, List.cons_append]
        rw [if_neg (by decide)]
        simp only [List.cons_append]
        rw [escapesOK_tilde, escapesOK_cons_ne (by decide)]
        simpa using ih
      · simp only [h1, h2, if_false, List.cons_append]
        rw [escapesOK_cons_ne h1]; exact ih

theorem escapesOK_ptrText : ∀ toks : List String,
    escapesOK (toks.flatMap (fun t => '/' :: escChars t.toList)) = true
  | [] => rfl
  | t :: r => by
    simp only [List.flatMap_cons, List.cons_append]
    rw [escapesOK_cons_ne (by decide)]
    exact escapesOK_escChars_append t.toList _ (escapesOK_ptrText r)

theorem idxTok_nonneg {i : Int} (h : 0 ≤ i) : idxTok i = toString i := by
  have : (i == -1) = false := by simp; omega
  simp [idxTok, this]

theorem go_tok {e : PathElem} (he : elemOK e = true) (r : List Json) :
    newPathM.go (tokJson (elemTok e) :: r) =
      (match newPathM.go r with | .ok p => .ok (e :: p) | e' => e') := by
  cases e with
  | key k =>
    simp only [elemOK, Bool.and_eq_true, Option.isNone_iff_eq_none, bne_iff_ne, ne_eq] at he
    have hk : (k == "-") = false := by simpa using he.2
    simp only [elemTok, tokJson, indexToken?_of_atoi_none he.1, hk, Bool.false_eq_true, if_false,
      newPathM.go]
    cases newPathM.go r <;> rfl
  | idx i =>
    simp only [elemOK, Bool.and_eq_true, decide_eq_true_eq] at he
    simp only [elemTok, idxTok_nonneg he.1, tokJson, indexToken?_toString he.1 (by omega), newPathM.go,
      floatTrunc_intToFloatBits (i := i) (by omega)]
    cases newPathM.go r <;> rfl
  | _ => simp [elemOK] at he

theorem go_toks : ∀ {p : Path}, pathOK p = true → newPathM.go ((ptoks p).map tokJson) = .ok p
  | [], _ => rfl
  | e :: p, h => by
    simp only [pathOK, List.all_cons, Bool.and_eq_true] at h
    simp only [ptoks, List.map_cons]
    rw [go_tok h.1]
    have := go_toks (p := p) h.2
    simp only [ptoks] at this
    rw [this]

theorem idxRange_of_pathOK {p : Path} (h : pathOK p = true) : idxRange p := by
  intro i hi
  have := List.all_eq_true.1 h _ hi
  simp only [elemOK, Bool.and_eq_true, decide_eq_true_eq] at this
  exact floatTrunc_intToFloatBits (by omega)

theorem readPointer_eq (s : String) : readPointer s =
    (if s == "" then newPathM (.arr .raw [])
     else if !(s.startsWith "/") then .err
     else if !(escapesOK s.toList) then .err
     else newPathM (.arr .raw ((((s.splitOn "/").drop 1).map ptrUnescape).map tokJson))) := rfl

/-- **pointer round trip**: `readPointer` gives back the path `writePointerPath` wrote -/
theorem readPointer_write {p : Path} {s : String} (hp : pathOK p = true)
    (hs : writePointerPath p = .ok s) : readPointer s = .ok p := by
  have h := (writePointerPath_ok hs (idxRange_of_pathOK hp)).2
  rw [readPointer_eq]
  cases hpt : ptoks p with
  | nil =>
    have hp0 : p = [] := by simpa [ptoks] using hpt
    rw [hpt] at h
    have : s = "" := by apply String.toList_inj.1; simpa using h
    subst this; subst hp0
    simp [newPathM, newPathM.go]
  | cons t r =>
    rw [hpt] at h
    have hne : (s == "") = false := by
      rw [beq_eq_false_iff_ne]
      intro he; rw [he] at h; simp at h
    have hsw : s.startsWith "/" = true := by
      rw [String.startsWith_string_iff, h]
      exact ⟨_, rfl⟩
    have hesc : escapesOK s.toList = true := by rw [h]; exact escapesOK_ptrText _
    simp only [hne, hsw, hesc, Bool.false_eq_true, if_false, Bool.not_true]
    rw [splitOn_slash, h]
    have := splitOnP_tokens (· == '/') '/' (by simp)
      ((t :: r).map (fun t => escChars t.toList)) [] (by simp)
      (by
        intro t' ht' x hx
        obtain ⟨t'', _, rfl⟩ := List.mem_map.1 ht'
        have := escChars_no_slash t''.toList
        simp only [beq_eq_false_iff_ne, ne_eq]
        intro he; subst he; exact this hx)
    simp only [List.nil_append, List.flatMap_map] at this
    rw [this]
    simp only [List.map_cons, List.drop_succ_cons, List.drop_zero, List.map_map]
    have hm : (List.map (tokJson ∘ ptrUnescape ∘ String.ofList ∘ fun t => escChars t.toList) r)
        = r.map tokJson := by
      apply List.map_congr_left
      intro a _
      simp only [Function.comp, ptrUnescape_esc, String.ofList_toList]
    rw [ptrUnescape_esc, String.ofList_toList, hm]
    have := go_toks hp
    rw [hpt] at this
    simpa [newPathM] using this

/-! ### 2. path comparison of the coalescing step -/

/-- the comparison `last.Path.JsonNode().Equals(e.Path.JsonNode())` of the coalescing step -/
def pathEq (p q : Path) : Bool := equals [] (pathToJson p) (pathToJson q)

theorem finiteBits_intToFloatBits {i : Int} (h : i.natAbs < 2 ^ 53) :
    finiteBits (intToFloatBits i) = true := by
  have ht := floatTrunc_intToFloatBits h
  cases hf : finiteBits (intToFloatBits i) with
  | true => rfl
  | false =>
    exfalso
    simp only [finiteBits, bne_eq_false_iff_eq] at hf
    have : floatTrunc (intToFloatBits i) = -(2 ^ 63 : Int) := by
      unfold floatTrunc
      simp only [hf]
      rfl
    rw [ht] at this
    omega

theorem pathEq_self (L : FloatLaws) {p : Path} (hp : pathOK p = true) : pathEq p p = true := by
  unfold pathEq pathToJson
  rw [equals_arr_list (o := []) rfl _ _ (by rfl) (by rfl)]
  induction p with
  | nil => simp [equalsList]
  | cons e p ih =>
    simp only [pathOK, List.all_cons, Bool.and_eq_true] at hp
    simp only [List.map_cons, equalsList, Bool.and_eq_true]
    refine ⟨?_, ih hp.2⟩
    cases e with
    | key k => simp [equals]
    | idx i =>
      simp only [elemOK, Bool.and_eq_true, decide_eq_true_eq] at hp
      simp only [equals]
      exact L.refl _ _ (finiteBits_intToFloatBits (by omega)) (by decide)
    | _ => simp [elemOK] at hp


/-! ### 3. the reader, one element at a time -/

/-- the coalescing step of `readPatchLoop` -/
def pushElem (acc : Diff) (e : Hunk) : Diff :=
  match acc.getLast? with
  | none => [e]
  | some last =>
    if equals [] (pathToJson last.path) (pathToJson e.path) && !(hasContext e) &&
       !(!e.remove.isEmpty && !last.add.isEmpty) then
      acc.dropLast ++ [{ last with remove := last.remove ++ e.remove,
                                   add := if lastIdx? e.path == some (-1) then last.add ++ e.add else e.add ++ last.add }]
    else acc ++ [e]

theorem readPatchLoop_cons (fuel : Nat) (o : PatchOp) (patch : List PatchOp) (acc : Diff) :
    readPatchLoop (fuel + 1) (o :: patch) acc =
      match readPatchHunk (o :: patch) with
      | .err => .err
      | .panic => .panic
      | .ok (e, rest) => readPatchLoop fuel rest (pushElem acc e) := rfl

theorem readPatchLoop_step {fuel : Nat} {patch : List PatchOp} {acc : Diff} {e : Hunk}
    {rest : List PatchOp} (h : readPatchHunk patch = .ok (e, rest)) :
    readPatchLoop (fuel + 1) patch acc = readPatchLoop fuel rest (pushElem acc e) := by
  cases patch with
  | nil => simp [readPatchHunk] at h
  | cons o t => rw [readPatchLoop_cons, h]

/-- the part of `readPatchDiffElement` after the context has been inferred -/
def finishHunk (c : CtxRes) : Outcome (Hunk × List PatchOp) :=
  match c.rest with
  | [] => .err
  | q :: rest =>
    let before := c.before.getD []
    let after := c.after.getD []
    if q.op == "test" then
      match readPointer q.path with
      | .ok path =>
        (match rest with
         | [] => .err
         | r1 :: rest2 =>
           if r1.op != "remove" then .err
           else if r1.path != q.path then .err
           else if !(equals [] q.value r1.value) then .err
           else .ok ({ path := path, before := before, after := after, remove := [q.value] }, rest2))
      | .err => .err
      | .panic => .panic
    else if q.op == "add" then
      match readPointer q.path with
      | .ok path =>
        if lastIdx? path == some (-1) && (before.any (fun n => !n.isVoid) || after.any (fun n => !n.isVoid)) then .err
        else .ok ({ path := path, before := before, after := after, add := [q.value] }, rest)
      | .err => .err
      | .panic => .panic
    else .err

theorem readPatchHunk_cons (p : PatchOp) (tl : List PatchOp) :
    readPatchHunk (p :: tl) =
      match (if p.op == "test" then setPatchCtx (p :: tl)
             else .ok { before := none, after := none, rest := p :: tl }) with
      | .err => .err
      | .panic => .panic
      | .ok c => finishHunk c := rfl

def tst (s : String) (v : Json) : PatchOp := { op := "test", path := s, value := v }
def rmv (s : String) (v : Json) : PatchOp := { op := "remove", path := s, value := v }
def adp (s : String) (v : Json) : PatchOp := { op := "add", path := s, value := v }

theorem finishHunk_rem {c : CtxRes} {s : String} {x : Json} {tl : List PatchOp} {p : Path}
    (hc : c.rest = tst s x :: rmv s x :: tl) (hp : readPointer s = .ok p)
    (hx : equals [] x x = true) :
    finishHunk c = .ok ({ path := p, before := c.before.getD [], after := c.after.getD [],
                          remove := [x] }, tl) := by
  simp [finishHunk, hc, tst, rmv, hp, hx]

theorem finishHunk_add {c : CtxRes} {s : String} {x : Json} {tl : List PatchOp} {p : Path}
    (hc : c.rest = adp s x :: tl) (hp : readPointer s = .ok p)
    (hl : lastIdx? p ≠ some (-1)) :
    finishHunk c = .ok ({ path := p, before := c.before.getD [], after := c.after.getD [],
                          add := [x] }, tl) := by
  have : (lastIdx? p == some (-1)) = false := by simpa using hl
  simp [finishHunk, hc, adp, hp, this]

theorem lastIdxOfPointer_of {s : String} {p : Path} (h : readPointer s = .ok p) :
    lastIdxOfPointer s = .ok (lastIdx? p) := by
  simp [lastIdxOfPointer, h]

/-- an element that starts with an `add` -/
theorem readHunk_add {s : String} {x : Json} {tl : List PatchOp} {p : Path}
    (hp : readPointer s = .ok p) (hl : lastIdx? p ≠ some (-1)) :
    readPatchHunk (adp s x :: tl) = .ok ({ path := p, add := [x] }, tl) := by
  rw [readPatchHunk_cons]
  simp only [adp, show (("add" : String) == "test") = false by decide, Bool.false_eq_true, if_false]
  exact finishHunk_add (c := { before := none, after := none, rest := adp s x :: tl }) rfl hp hl

/-- `test p x, remove p x` with nothing in front, `p` a key path or the root: no context -/
theorem readHunk_rem_key {s : String} {x : Json} {tl : List PatchOp} {p : Path}
    (hp : readPointer s = .ok p) (hl : lastIdx? p = none) (hx : equals [] x x = true) :
    readPatchHunk (tst s x :: rmv s x :: tl) = .ok ({ path := p, remove := [x] }, tl) := by
  rw [readPatchHunk_cons]
  have : setPatchCtx (tst s x :: rmv s x :: tl) =
      .ok { before := none, after := none, rest := tst s x :: rmv s x :: tl } := by
    simp [setPatchCtx, tst, lastIdxOfPointer_of hp, hl]
  simp only [tst, beq_self_eq_true, if_true] at this ⊢
  rw [this]
  exact finishHunk_rem (c := { before := none, after := none, rest := tst s x :: rmv s x :: tl }) rfl hp hx

/-- `test p x, remove p x` with nothing in front, `p` ending in an index: boundary context -/
theorem readHunk_rem_idx {s : String} {x : Json} {tl : List PatchOp} {p : Path} {i : Int}
    (hp : readPointer s = .ok p) (hl : lastIdx? p = some i) (hx : equals [] x x = true) :
    readPatchHunk (tst s x :: rmv s x :: tl) =
      .ok ({ path := p, before := [.void], after := [.void], remove := [x] }, tl) := by
  rw [readPatchHunk_cons]
  have : setPatchCtx (tst s x :: rmv s x :: tl) =
      .ok { before := some [.void], after := some [.void], rest := tst s x :: rmv s x :: tl } := by
    simp [setPatchCtx, tst, rmv, lastIdxOfPointer_of hp, hl]
  simp only [tst, beq_self_eq_true, if_true] at this ⊢
  rw [this]
  exact finishHunk_rem (c := { before := some [.void], after := some [.void], rest := tst s x :: rmv s x :: tl }) rfl hp hx


theorem isEmpty_of_lastIdx {p : Path} {i : Int} (h : lastIdx? p = some i) : p.isEmpty = false := by
  cases p with
  | nil => simp [lastIdx?] at h
  | cons _ _ => rfl

/-- before-test, then adds only -/
theorem readHunk_B1 {pp s : String} {b v : Json} {tl : List PatchOp} {q p : Path} {f g : Int}
    (hq : readPointer pp = .ok q) (hf : lastIdx? q = some f)
    (hp : readPointer s = .ok p) (hg : lastIdx? p = some g) (hfg : f = g - 1) (hg1 : g ≠ -1) :
    readPatchHunk (tst pp b :: adp s v :: tl) =
      .ok ({ path := p, before := [b], after := [.void], add := [v] }, tl) := by
  rw [readPatchHunk_cons]
  have h1 : (f == g) = false := by simp; omega
  have h2 : (f == g - 1) = true := by simp; omega
  have : setPatchCtx (tst pp b :: adp s v :: tl) =
      .ok { before := some [b], after := some [.void], rest := adp s v :: tl } := by
    simp [setPatchCtx, tst, adp, lastIdxOfPointer_of hp, lastIdxOfPointer_of hq, hf, hg, h1, h2]
  simp only [tst, beq_self_eq_true, if_true] at this ⊢
  rw [this]
  exact finishHunk_add (c := { before := some [b], after := some [.void], rest := adp s v :: tl }) rfl hp
    (by rw [hg]; simpa using hg1)

/-- before-test, then removes -/
theorem readHunk_B2 {pp s : String} {b x : Json} {tl : List PatchOp} {q p : Path} {f g : Int}
    (hq : readPointer pp = .ok q) (hf : lastIdx? q = some f)
    (hp : readPointer s = .ok p) (hg : lastIdx? p = some g) (hfg : f < g)
    (hx : equals [] x x = true) :
    readPatchHunk (tst pp b :: tst s x :: rmv s x :: tl) =
      .ok ({ path := p, before := [b], after := [.void], remove := [x] }, tl) := by
  rw [readPatchHunk_cons]
  have h1 : ¬ (f > g) := by omega
  have : setPatchCtx (tst pp b :: tst s x :: rmv s x :: tl) =
      .ok { before := some [b], after := some [.void], rest := tst s x :: rmv s x :: tl } := by
    simp [setPatchCtx, tst, rmv, lastIdxOfPointer_of hp, lastIdxOfPointer_of hq, hf, hg, hp,
      isEmpty_of_lastIdx hg, h1, hfg]
  simp only [tst, beq_self_eq_true, if_true] at this ⊢
  rw [this]
  exact finishHunk_rem (c := { before := some [b], after := some [.void], rest := tst s x :: rmv s x :: tl }) rfl hp hx

/-- after-test, then adds only (no removes: the test is on the index itself) -/
theorem readHunk_A1 {np s : String} {a v : Json} {tl : List PatchOp} {q p : Path} {g : Int}
    (hq : readPointer np = .ok q) (hf : lastIdx? q = some g)
    (hp : readPointer s = .ok p) (hg : lastIdx? p = some g) (hg1 : g ≠ -1) :
    readPatchHunk (tst np a :: adp s v :: tl) =
      .ok ({ path := p, before := [.void], after := [a], add := [v] }, tl) := by
  rw [readPatchHunk_cons]
  have : setPatchCtx (tst np a :: adp s v :: tl) =
      .ok { before := some [.void], after := some [a], rest := adp s v :: tl } := by
    simp [setPatchCtx, tst, adp, lastIdxOfPointer_of hp, lastIdxOfPointer_of hq, hf, hg]
  simp only [tst, beq_self_eq_true, if_true] at this ⊢
  rw [this]
  exact finishHunk_add (c := { before := some [.void], after := some [a], rest := adp s v :: tl }) rfl hp
    (by rw [hg]; simpa using hg1)

/-- after-test, then removes -/
theorem readHunk_A2 {np s : String} {a x : Json} {tl : List PatchOp} {q p : Path} {f g : Int}
    (hq : readPointer np = .ok q) (hf : lastIdx? q = some f)
    (hp : readPointer s = .ok p) (hg : lastIdx? p = some g) (hfg : f > g)
    (hx : equals [] x x = true) :
    readPatchHunk (tst np a :: tst s x :: rmv s x :: tl) =
      .ok ({ path := p, before := [.void], after := [a], remove := [x] }, tl) := by
  rw [readPatchHunk_cons]
  have : setPatchCtx (tst np a :: tst s x :: rmv s x :: tl) =
      .ok { before := some [.void], after := some [a], rest := tst s x :: rmv s x :: tl } := by
    simp [setPatchCtx, tst, rmv, lastIdxOfPointer_of hp, lastIdxOfPointer_of hq, hf, hg, hp,
      isEmpty_of_lastIdx hg, hfg]
  simp only [tst, beq_self_eq_true, if_true] at this ⊢
  rw [this]
  exact finishHunk_rem (c := { before := some [.void], after := some [a], rest := tst s x :: rmv s x :: tl }) rfl hp hx

/-- both tests, then adds only -/
theorem readHunk_C1 {pp np s : String} {b a v : Json} {tl : List PatchOp} {q q' p : Path} {f g t : Int}
    (hq : readPointer pp = .ok q) (hf : lastIdx? q = some f)
    (hq' : readPointer np = .ok q') (hg : lastIdx? q' = some g)
    (hp : readPointer s = .ok p) (ht : lastIdx? p = some t) (htg : t ≤ g) (ht1 : t ≠ -1) :
    readPatchHunk (tst pp b :: tst np a :: adp s v :: tl) =
      .ok ({ path := p, before := [b], after := [a], add := [v] }, tl) := by
  rw [readPatchHunk_cons]
  have : setPatchCtx (tst pp b :: tst np a :: adp s v :: tl) =
      .ok { before := some [b], after := some [a], rest := adp s v :: tl } := by
    simp [setPatchCtx, tst, adp, lastIdxOfPointer_of hq, lastIdxOfPointer_of hq', hf, hg, hp,
      isEmpty_of_lastIdx ht, ht, htg]
  simp only [tst, beq_self_eq_true, if_true] at this ⊢
  rw [this]
  exact finishHunk_add (c := { before := some [b], after := some [a], rest := adp s v :: tl }) rfl hp
    (by rw [ht]; simpa using ht1)

/-- both tests, then removes -/
theorem readHunk_C2 {pp np s : String} {b a x : Json} {tl : List PatchOp} {q q' p : Path} {f g t : Int}
    (hq : readPointer pp = .ok q) (hf : lastIdx? q = some f)
    (hq' : readPointer np = .ok q') (hg : lastIdx? q' = some g)
    (hp : readPointer s = .ok p) (ht : lastIdx? p = some t) (htg : t ≤ g)
    (hx : equals [] x x = true) :
    readPatchHunk (tst pp b :: tst np a :: tst s x :: rmv s x :: tl) =
      .ok ({ path := p, before := [b], after := [a], remove := [x] }, tl) := by
  rw [readPatchHunk_cons]
  have : setPatchCtx (tst pp b :: tst np a :: tst s x :: rmv s x :: tl) =
      .ok { before := some [b], after := some [a], rest := tst s x :: rmv s x :: tl } := by
    simp [setPatchCtx, tst, lastIdxOfPointer_of hq, lastIdxOfPointer_of hq', hf, hg, hp,
      isEmpty_of_lastIdx ht, ht, htg]
  simp only [tst, beq_self_eq_true, if_true] at this ⊢
  rw [this]
  exact finishHunk_rem (c := { before := some [b], after := some [a], rest := tst s x :: rmv s x :: tl }) rfl hp hx


/-! ### 4. the loop: coalescing -/

/-- a context list with a real (non-boundary) entry -/
def realCtx (c : List Json) : Bool := c.any (fun n => !n.isVoid)

theorem hasContext_eq (h : Hunk) : hasContext h = (realCtx h.before || realCtx h.after) := rfl

def remPairs (s : String) (ys : List Json) : List PatchOp := ys.flatMap (fun e => [tst s e, rmv s e])
def addRun (s : String) (bs : List Json) : List PatchOp := bs.map (adp s)

theorem pushElem_merge {pre : Diff} {cur e : Hunk} (hpath : e.path = cur.path)
    (heq : pathEq cur.path cur.path = true) (hl : lastIdx? cur.path ≠ some (-1))
    (hc : hasContext e = false) (hra : e.remove = [] ∨ cur.add = []) :
    pushElem (pre ++ [cur]) e =
      pre ++ [{ cur with remove := cur.remove ++ e.remove, add := e.add ++ cur.add }] := by
  have hl' : (lastIdx? cur.path == some (-1)) = false := by simpa using hl
  have hra' : (!e.remove.isEmpty && !cur.add.isEmpty) = false := by
    rcases hra with h | h <;> simp [h]
  unfold pathEq at heq
  simp only [pushElem, List.getLast?_append, List.getLast?_singleton, Option.some_or, hpath, heq, hc,
    hra', Bool.not_false, Bool.and_self, if_true, List.dropLast_concat, hl', Bool.false_eq_true,
    if_false]

/-- what must hold between the accumulator and the next element for it not to be coalesced -/
def sep (acc : Diff) (p : Path) (ctx : Bool) : Bool :=
  match acc.getLast? with
  | none => true
  | some last => !(pathEq last.path p) || ctx

theorem pushElem_sep {acc : Diff} {e : Hunk} (h : sep acc e.path (hasContext e) = true) :
    pushElem acc e = acc ++ [e] := by
  unfold pushElem
  unfold sep at h
  cases hg : acc.getLast? with
  | none =>
    have : acc = [] := by simpa using hg
    simp [this]
  | some last =>
    rw [hg] at h
    simp only [pathEq, Bool.or_eq_true, Bool.not_eq_true'] at h
    have : (equals [] (pathToJson last.path) (pathToJson e.path) && !hasContext e) = false := by
      rcases h with h | h <;> simp [h]
    simp [this]

/-- a removed value the reader accepts (`test v` then `remove v` compares `v` with itself) -/
def valOK (v : Json) : Bool := !v.isVoid && v.listDoc && v.wf && v.finiteNums

theorem equals_self (L : FloatLaws) {v : Json} (h : valOK v = true) : equals [] v v = true := by
  simp only [valOK, Bool.and_eq_true] at h
  exact equals_refl_list L [] rfl (by decide) v h.1.1.2 h.1.2 h.2

structure PCtx (s : String) (p : Path) : Prop where
  rp : readPointer s = .ok p
  eq : pathEq p p = true
  nl : lastIdx? p ≠ some (-1)

theorem absorb_rems (L : FloatLaws) {s : String} {p : Path} (C : PCtx s p) {i : Int}
    (hi : lastIdx? p = some i) :
    ∀ (ys : List Json), ys.all valOK = true → ∀ (n : Nat) (tl : List PatchOp) (pre : Diff) (cur : Hunk),
      cur.path = p → cur.add = [] →
      readPatchLoop (n + ys.length) (remPairs s ys ++ tl) (pre ++ [cur]) =
        readPatchLoop n tl (pre ++ [{ cur with remove := cur.remove ++ ys }])
  | [], _, n, tl, pre, cur, _, _ => by simp [remPairs]
  | y :: ys, hv, n, tl, pre, cur, hc, ha0 => by
    simp only [List.all_cons, Bool.and_eq_true] at hv
    have : remPairs s (y :: ys) ++ tl = tst s y :: rmv s y :: (remPairs s ys ++ tl) := by
      simp [remPairs]
    rw [this, show n + (y :: ys).length = (n + ys.length) + 1 by simp; omega, readPatchLoop_cons,
      readHunk_rem_idx C.rp hi (equals_self L hv.1)]
    simp only
    rw [pushElem_merge (by exact hc.symm) (by rw [hc]; exact C.eq) (by rw [hc]; exact C.nl) rfl
      (Or.inr ha0)]
    refine (absorb_rems L C hi ys hv.2 n tl pre _ ?_ ?_).trans ?_
    · exact hc
    · simp [ha0]
    · simp

theorem absorb_adds {s : String} {p : Path} (C : PCtx s p) :
    ∀ (bs : List Json) (n : Nat) (tl : List PatchOp) (pre : Diff) (cur : Hunk),
      cur.path = p →
      readPatchLoop (n + bs.length) (addRun s bs ++ tl) (pre ++ [cur]) =
        readPatchLoop n tl (pre ++ [{ cur with add := bs.reverse ++ cur.add }])
  | [], n, tl, pre, cur, _ => by simp [addRun]
  | b :: bs, n, tl, pre, cur, hc => by
    have : addRun s (b :: bs) ++ tl = adp s b :: (addRun s bs ++ tl) := by simp [addRun]
    rw [this, show n + (b :: bs).length = (n + bs.length) + 1 by simp; omega, readPatchLoop_cons,
      readHunk_add C.rp C.nl]
    simp only
    rw [pushElem_merge (by exact hc.symm) (by rw [hc]; exact C.eq) (by rw [hc]; exact C.nl) rfl
      (Or.inl rfl)]
    refine (absorb_adds C bs n tl pre _ ?_).trans ?_
    · exact hc
    · simp

/-- everything after the first element of a hunk is coalesced into it -/
theorem after_first (L : FloatLaws) {s : String} {p : Path} (C : PCtx s p)
    (R' : List Json) (hR : R'.all valOK = true) (hidx : R' ≠ [] → ∃ i, lastIdx? p = some i)
    (bs : List Json) (n : Nat) (tl : List PatchOp) (acc : Diff) (e1 : Hunk) (he : e1.path = p)
    (ha0 : R' ≠ [] → e1.add = []) :
    readPatchLoop (n + (R'.length + bs.length)) (remPairs s R' ++ (addRun s bs ++ tl)) (acc ++ [e1]) =
      readPatchLoop n tl (acc ++ [{ e1 with remove := e1.remove ++ R', add := bs.reverse ++ e1.add }]) := by
  cases R' with
  | nil =>
    simp only [remPairs, List.flatMap_nil, List.nil_append, List.length_nil, Nat.zero_add,
      List.append_nil]
    exact absorb_adds C bs n tl acc e1 he
  | cons y ys =>
    obtain ⟨i, hi⟩ := hidx (by simp)
    rw [show n + ((y :: ys).length + bs.length) = (n + bs.length) + (y :: ys).length by omega,
      absorb_rems L C hi (y :: ys) hR (n + bs.length) _ acc e1 he (ha0 (by simp))]
    exact absorb_adds C bs n tl acc _ he


/-! ### 5. one hunk -/

theorem realCtx_false_of {c : List Json} (hl : c.length ≤ 1) (h : c.length = 1 → c = [.void]) :
    realCtx c = false := by
  match c, hl with
  | [], _ => rfl
  | [b], _ => have := h rfl; injection this with this; subst this; rfl

theorem realCtx_single {b : Json} (h : b.isVoid = false) : realCtx [b] = true := by
  simp [realCtx, h]

theorem mem_of_lastIdx {p : Path} {i : Int} (h : lastIdx? p = some i) : PathElem.idx i ∈ p := by
  unfold lastIdx? at h
  split at h
  · rename_i j hj
    injection h with h; subst h
    exact List.mem_of_getLast? hj
  · cases h

theorem lastIdx_bounds {p : Path} {i : Int} (hp : pathOK p = true) (h : lastIdx? p = some i) :
    0 ≤ i ∧ i < 2 ^ 53 := by
  have := List.all_eq_true.1 hp _ (mem_of_lastIdx h)
  simpa [elemOK] using this

theorem pathOK_setLastIdx {p : Path} {j : Int} (hp : pathOK p = true) (h0 : 0 ≤ j) (h1 : j < 2 ^ 53) :
    pathOK (setLastIdx p j) = true := by
  unfold pathOK setLastIdx
  rw [List.all_append]
  simp only [Bool.and_eq_true]
  constructor
  · rw [List.all_eq_true]
    intro e he
    exact List.all_eq_true.1 hp e (List.dropLast_subset _ he)
  · simp only [List.all_cons, List.all_nil, elemOK, Bool.and_true, Bool.and_eq_true, decide_eq_true_eq]
    exact ⟨h0, h1⟩

theorem lastIdx_setLastIdx (p : Path) (j : Int) : lastIdx? (setLastIdx p j) = some j := by
  simp [setLastIdx, lastIdx?]

/-- the one test a context line is rendered to, as the reader sees it -/
def CtxFront (bo : List PatchOp) (ctx : List Json) (j : Int) : Prop :=
  (bo = [] ∧ realCtx ctx = false) ∨
  ∃ b pp q, ctx = [b] ∧ realCtx ctx = true ∧ bo = [tst pp b] ∧ readPointer pp = .ok q ∧
    lastIdx? q = some j

theorem ctx_cases {h : Hunk} {ctx : List Json} {f : Int → Int} {bo : List PatchOp} {i : Int}
    (hp : pathOK h.path = true) (hl : lastIdx? h.path = some i) (hlen : ctx.length ≤ 1)
    (e : ctxOps h ctx f = .ok bo) (hf : realCtx ctx = true → 0 ≤ f i ∧ f i < 2 ^ 53) :
    CtxFront bo ctx (f i) := by
  rcases ctxOps_ok e with ⟨rfl, hv⟩ | ⟨b, i', pp, rfl, hb, hi', hw, rfl⟩
  · exact Or.inl ⟨rfl, realCtx_false_of hlen hv⟩
  · rw [hl] at hi'; injection hi' with hi'; subst hi'
    have hr := realCtx_single hb
    obtain ⟨h0, h1⟩ := hf hr
    exact Or.inr ⟨b, pp, _, rfl, hr, rfl, readPointer_write (pathOK_setLastIdx hp h0 h1) hw,
      lastIdx_setLastIdx _ _⟩

theorem ctx_none {h : Hunk} {ctx : List Json} {f : Int → Int} {bo : List PatchOp}
    (hl : lastIdx? h.path = none) (hlen : ctx.length ≤ 1) (e : ctxOps h ctx f = .ok bo) :
    bo = [] ∧ realCtx ctx = false := by
  rcases ctxOps_ok e with ⟨rfl, hv⟩ | ⟨b, i', pp, rfl, hb, hi', hw, rfl⟩
  · exact ⟨rfl, realCtx_false_of hlen hv⟩
  · rw [hl] at hi'; cases hi'

/-- context list as the reader reconstructs it: the value where a test was rendered, the array
    boundary marker otherwise -/
def normCtx (c : List Json) : List Json := if realCtx c then c else [.void]

theorem realCtx_normCtx (c : List Json) : realCtx (normCtx c) = realCtx c := by
  unfold normCtx
  cases h : realCtx c
  · simp only [Bool.false_eq_true, if_false]; rfl
  · rw [if_pos rfl]; exact h

theorem realCtx_nil : realCtx [] = false := rfl

theorem realCtx_ite (c : Bool) (l : List Json) :
    realCtx (if c = true then normCtx l else []) = (c && realCtx l) := by
  cases c
  · simp only [Bool.false_eq_true, if_false, Bool.false_and]; rfl
  · simp only [if_true, Bool.true_and, realCtx_normCtx]

theorem first_rem (L : FloatLaws) {s : String} {p : Path} {i j : Int} (C : PCtx s p)
    (hi : lastIdx? p = some i) {bo ao : List PatchOp} {cb ca : List Json}
    (hB : CtxFront bo cb (i - 1)) (hA : CtxFront ao ca j) (hj : i < j)
    {x : Json} (hx : valOK x = true) (rest : List PatchOp) :
    readPatchHunk (bo ++ ao ++ (tst s x :: rmv s x :: rest)) =
      .ok ({ path := p, before := normCtx cb, after := normCtx ca, remove := [x] }, rest) := by
  have hxx := equals_self L hx
  rcases hB with ⟨rfl, hb⟩ | ⟨b, pp, q, rfl, hb, rfl, hq, hql⟩ <;>
  rcases hA with ⟨rfl, ha⟩ | ⟨a, np, q', rfl, ha, rfl, hq', hql'⟩ <;>
  simp only [normCtx, hb, ha, if_true, if_false, Bool.false_eq_true, List.nil_append, List.cons_append]
  · exact readHunk_rem_idx C.rp hi hxx
  · exact readHunk_A2 hq' hql' C.rp hi (by omega) hxx
  · exact readHunk_B2 hq hql C.rp hi (by omega) hxx
  · exact readHunk_C2 hq hql hq' hql' C.rp hi (by omega) hxx

theorem first_add {s : String} {p : Path} {i : Int} (C : PCtx s p)
    (hi : lastIdx? p = some i) {bo ao : List PatchOp} {cb ca : List Json}
    (hB : CtxFront bo cb (i - 1)) (hA : CtxFront ao ca i)
    (v : Json) (rest : List PatchOp) :
    readPatchHunk (bo ++ ao ++ (adp s v :: rest)) =
      .ok ({ path := p, before := if realCtx cb || realCtx ca then normCtx cb else [],
             after := if realCtx cb || realCtx ca then normCtx ca else [], add := [v] }, rest) := by
  have hi1 : i ≠ -1 := by
    intro h; rw [h] at hi; exact C.nl hi
  rcases hB with ⟨rfl, hb⟩ | ⟨b, pp, q, rfl, hb, rfl, hq, hql⟩ <;>
  rcases hA with ⟨rfl, ha⟩ | ⟨a, np, q', rfl, ha, rfl, hq', hql'⟩ <;>
  simp only [normCtx, hb, ha, if_true, if_false, Bool.false_eq_true, List.nil_append, List.cons_append,
    Bool.or_self, Bool.or_true, Bool.true_or]
  · exact readHunk_add C.rp C.nl
  · exact readHunk_A1 hq' hql' C.rp hi hi1
  · exact readHunk_B1 hq hql C.rp hi rfl hi1
  · exact readHunk_C1 hq hql hq' hql' C.rp hi (by omega) hi1


/-- **the domain, one hunk**: what a list-mode `Diff` produces and `RenderPatch` accepts.
    Strict hunk; path of keys (not number-like, not `-`) and indices `0 ≤ i < 2^53`; at most one
    line of context on each side; removed values are real, well-formed list-mode documents without
    NaN/Inf (the reader compares each with itself), added values are not the void marker; something
    is removed or added. Path ending in an index `i`: a real `before` line needs `i ≥ 1`, and
    `i + |remove| < 2^53`. Path ending in a key, or the root: no real context, at most one removed
    and one added value. -/
def PBwfH (h : Hunk) : Bool :=
  !h.merge && pathOK h.path && decide (h.before.length ≤ 1) && decide (h.after.length ≤ 1) &&
  h.remove.all valOK && h.add.all (fun v => !v.isVoid) && !(h.remove.isEmpty && h.add.isEmpty) &&
  (match lastIdx? h.path with
   | some i => (!realCtx h.before || decide (1 ≤ i)) && decide (i + (h.remove.length : Int) < 2 ^ 53)
   | none => !realCtx h.before && !realCtx h.after && decide (h.remove.length ≤ 1) &&
             decide (h.add.length ≤ 1))

/-- **the normal form, one hunk**: same path, `remove`, `add`; context as the reader reconstructs
    it. For a path ending in an index whose rendering starts with a `test` (a context test or a
    removal): the value where a context test was rendered, the boundary marker `[void]` where not.
    Otherwise (key / root paths; index hunks with adds only and no real context): no context. -/
def normH (h : Hunk) : Hunk :=
  if (lastIdx? h.path).isSome && (realCtx h.before || realCtx h.after || !h.remove.isEmpty) then
    { path := h.path, before := normCtx h.before, after := normCtx h.after,
      remove := h.remove, add := h.add }
  else { path := h.path, remove := h.remove, add := h.add }

theorem remOpsOf_pairs {s : String} {R : List Json} (h : R.all valOK = true) :
    remOpsOf s R = remPairs s R := by
  rw [remOpsOf_eq]
  · rfl
  · intro x hx
    have := List.all_eq_true.1 h x hx
    simp only [valOK, Bool.and_eq_true, Bool.not_eq_true'] at this
    exact this.1.1.1

theorem addOpsOf_run {s : String} {S : List Json} (h : S.all (fun v => !v.isVoid) = true) :
    addOpsOf s S = addRun s S.reverse := by
  rw [addOpsOf_eq]
  · rfl
  · intro x hx
    simpa using List.all_eq_true.1 h x hx

/-- **one hunk**: reading the ops of a rendered hunk (followed by anything) appends the normal form
    of the hunk to the accumulator, provided the hunk is separated from the accumulator's last
    element -/
theorem hunk_loop (L : FloatLaws) {h : Hunk} (hw : PBwfH h = true) {ops : List PatchOp}
    (hr : renderPatchHunk h = .ok ops) (n : Nat) (tl : List PatchOp) (acc : Diff)
    (hs : sep acc h.path (hasContext h) = true) :
    readPatchLoop (n + (h.remove.length + h.add.length)) (ops ++ tl) acc =
      readPatchLoop n tl (acc ++ [normH h]) := by
  obtain ⟨s, bo, ao, hws, hne, hbl, hal, hb, ha, rfl⟩ := renderPatchHunk_ok hr
  simp only [PBwfH, Bool.and_eq_true, Bool.not_eq_true', decide_eq_true_eq] at hw
  obtain ⟨⟨⟨⟨⟨⟨⟨hm, hp⟩, _⟩, _⟩, hR⟩, hS⟩, _⟩, hcase⟩ := hw
  have rp := readPointer_write hp hws
  have heq := pathEq_self L hp
  rw [remOpsOf_pairs hR, addOpsOf_run hS]
  cases hl : lastIdx? h.path with
  | none =>
    rw [hl] at hcase
    simp only [Bool.and_eq_true, Bool.not_eq_true', decide_eq_true_eq] at hcase
    obtain ⟨⟨⟨hcb, hca⟩, hr1⟩, hs1⟩ := hcase
    have C : PCtx s h.path := ⟨rp, heq, by rw [hl]; simp⟩
    obtain ⟨rfl, _⟩ := ctx_none hl hbl hb
    obtain ⟨rfl, _⟩ := ctx_none hl hal ha
    have hN : normH h = { path := h.path, remove := h.remove, add := h.add } := by
      simp [normH, hl]
    have hs' : sep acc h.path false = true := by
      rw [hasContext_eq, hcb, hca] at hs; exact hs
    rw [hN]
    simp only [List.nil_append, List.append_assoc]
    cases hrem : h.remove with
    | nil =>
      cases hadd : h.add.reverse with
      | nil => rw [hrem] at hne; simp at hadd; simp [hadd] at hne
      | cons b1 bs =>
        have hlen : h.add.length = bs.length + 1 := by
          have := congrArg List.length hadd; simpa using this
        have hadd' : h.add = bs.reverse ++ [b1] := by
          have := congrArg List.reverse hadd; simpa using this
        simp only [remPairs, List.flatMap_nil, List.nil_append, addRun, List.map_cons, List.cons_append,
          List.length_nil, Nat.zero_add]
        rw [hlen, show n + (bs.length + 1) = (n + (0 + bs.length)) + 1 by omega, readPatchLoop_cons,
          readHunk_add rp C.nl]
        simp only
        rw [pushElem_sep (e := { path := h.path, add := [b1] }) hs']
        have := after_first L C [] rfl (by simp) bs n tl acc { path := h.path, add := [b1] } rfl
          (fun hne => absurd rfl hne)
        simp only [remPairs, List.flatMap_nil, List.nil_append, addRun, List.length_nil] at this
        rw [this, hadd']
    | cons x1 R' =>
      have hR' : x1 :: R' = [x1] := by
        rw [hrem] at hr1; simp at hr1; simp [hr1]
      injection hR' with _ hR'
      subst hR'
      rw [hrem] at hR
      simp only [List.all_cons, List.all_nil, Bool.and_true] at hR
      simp only [remPairs, List.flatMap_cons, List.flatMap_nil, List.append_nil, List.cons_append,
        List.nil_append, List.length_cons, List.length_nil]
      rw [show n + (0 + 1 + h.add.length) = (n + (0 + h.add.reverse.length)) + 1 by simp; omega,
        readPatchLoop_cons, readHunk_rem_key rp hl (equals_self L hR)]
      simp only
      rw [pushElem_sep (e := { path := h.path, remove := [x1] }) hs']
      have := after_first L C [] rfl (by simp) h.add.reverse n tl acc { path := h.path, remove := [x1] } rfl
        (fun _ => rfl)
      simp only [remPairs, List.flatMap_nil, List.nil_append, List.length_nil] at this
      rw [this]
      simp
  | some i =>
    rw [hl] at hcase
    simp only [Bool.and_eq_true, Bool.or_eq_true, Bool.not_eq_true', decide_eq_true_eq] at hcase
    obtain ⟨hb1, hir⟩ := hcase
    obtain ⟨hi0, hi1⟩ := lastIdx_bounds hp hl
    have C : PCtx s h.path := ⟨rp, heq, by rw [hl]; simp; omega⟩
    have hB : CtxFront bo h.before (i - 1) := ctx_cases (f := fun i => i - 1) hp hl hbl hb (fun hr => by
      rcases hb1 with hb1 | hb1
      · rw [hb1] at hr; cases hr
      · constructor <;> omega)
    have hA : CtxFront ao h.after (i + (h.remove.length : Int)) :=
      ctx_cases (f := fun i => i + (h.remove.length : Int)) hp hl hal ha (fun _ => ⟨by omega, hir⟩)
    simp only [List.append_assoc]
    cases hrem : h.remove with
    | nil =>
      rw [hrem] at hA
      simp only [List.length_nil, Int.natCast_zero, Int.add_zero] at hA
      cases hadd : h.add.reverse with
      | nil => rw [hrem] at hne; simp at hadd; simp [hadd] at hne
      | cons b1 bs =>
        have hlen : h.add.length = bs.length + 1 := by
          have := congrArg List.length hadd; simpa using this
        have hadd' : h.add = bs.reverse ++ [b1] := by
          have := congrArg List.reverse hadd; simpa using this
        simp only [remPairs, List.flatMap_nil, List.nil_append, addRun, List.map_cons, List.cons_append,
          List.length_nil, Nat.zero_add]
        rw [hlen, show n + (bs.length + 1) = (n + (0 + bs.length)) + 1 by omega,
          readPatchLoop_step (by rw [← List.append_assoc]; exact first_add C hl hB hA b1 _)]
        rw [pushElem_sep (by
          rw [hasContext_eq] at hs ⊢
          refine Eq.trans (congrArg _ ?_) hs
          cases hb' : realCtx h.before <;> cases ha' : realCtx h.after <;>
            simp [realCtx_normCtx, hb', ha', realCtx_nil])]
        have := after_first L C [] rfl (by simp) bs n tl acc
          { path := h.path, before := if realCtx h.before || realCtx h.after then normCtx h.before else [],
            after := if realCtx h.before || realCtx h.after then normCtx h.after else [], add := [b1] } rfl
          (fun hne => absurd rfl hne)
        simp only [remPairs, List.flatMap_nil, List.nil_append, addRun, List.length_nil] at this
        rw [this]
        congr 2
        simp only [normH, hl, hrem, hadd', Option.isSome_some, Bool.true_and, List.isEmpty_nil,
          Bool.not_true, Bool.or_false]
        split <;> rfl
    | cons x1 R' =>
      rw [hrem] at hA hR
      simp only [List.all_cons, Bool.and_eq_true] at hR
      have : remPairs s (x1 :: R') ++ (addRun s h.add.reverse ++ tl) =
          tst s x1 :: rmv s x1 :: (remPairs s R' ++ (addRun s h.add.reverse ++ tl)) := by
        simp [remPairs]
      rw [this, show n + ((x1 :: R').length + h.add.length) = (n + (R'.length + h.add.reverse.length)) + 1 by
          simp; omega,
        readPatchLoop_step (by rw [← List.append_assoc]; exact first_rem L C hl hB hA (by simp; omega) hR.1 _)]
      rw [pushElem_sep (by rw [hasContext_eq] at hs ⊢; simpa [realCtx_normCtx] using hs)]
      have := after_first L C R' hR.2 (fun _ => ⟨i, hl⟩) h.add.reverse n tl acc
        { path := h.path, before := normCtx h.before, after := normCtx h.after, remove := [x1] } rfl
        (fun _ => rfl)
      rw [this]
      congr 2
      simp [normH, hl, hrem]



/-! ### 6. a whole diff -/

/-- separation of consecutive hunks: the reader would coalesce the first element of the second
    hunk into the first hunk if their paths compare equal and the second has no real context line.
    (jd's list diff emits at most one hunk per position of one array, and a later hunk on the same
    index carries the context line that separates it.) -/
def sepH (h1 h2 : Hunk) : Bool := !(pathEq h1.path h2.path) || hasContext h2

def chainOK : Diff → Bool
  | h1 :: h2 :: r => sepH h1 h2 && chainOK (h2 :: r)
  | _ => true

/-- **the domain** -/
def PBwf (d : Diff) : Bool := d.all PBwfH && chainOK d

/-- **the normal form** -/
def normPB (d : Diff) : Diff := d.map normH

/-- number of elements the reader splits the rendering into -/
def cnt : Diff → Nat
  | [] => 0
  | h :: d => (h.remove.length + h.add.length) + cnt d

theorem normH_path (h : Hunk) : (normH h).path = h.path := by
  unfold normH; split <;> rfl

theorem hunk_len {h : Hunk} (hw : PBwfH h = true) {ops : List PatchOp}
    (hr : renderPatchHunk h = .ok ops) : h.remove.length + h.add.length ≤ ops.length := by
  obtain ⟨s, bo, ao, _, _, _, _, _, _, rfl⟩ := renderPatchHunk_ok hr
  simp only [PBwfH, Bool.and_eq_true] at hw
  obtain ⟨⟨⟨⟨_, hR⟩, hS⟩, _⟩, _⟩ := hw
  rw [remOpsOf_pairs hR, addOpsOf_run hS]
  have : (remPairs s h.remove).length = 2 * h.remove.length := by
    unfold remPairs
    induction h.remove with
    | nil => rfl
    | cons x r ih => simp only [List.flatMap_cons, List.length_append, ih, List.length_cons,
        List.length_nil]; omega
  simp only [List.length_append, this, addRun, List.length_map, List.length_reverse]
  omega

theorem diff_len : ∀ {d : Diff}, d.all PBwfH = true → ∀ {ops : List PatchOp},
    renderPatchOps d = .ok ops → cnt d ≤ ops.length
  | [], _, ops, _ => by simp [cnt]
  | h :: d, hw, ops, hr => by
    simp only [List.all_cons, Bool.and_eq_true] at hw
    obtain ⟨a, b, ha, hb, rfl⟩ := renderPatchOps_ok_cons hr
    have := hunk_len hw.1 ha
    have := diff_len hw.2 hb
    simp only [cnt, List.length_append]
    omega

theorem diff_loop (L : FloatLaws) : ∀ (d : Diff), d.all PBwfH = true → chainOK d = true →
    ∀ (ops : List PatchOp), renderPatchOps d = .ok ops → ∀ (n : Nat) (tl : List PatchOp) (acc : Diff),
      (match d with | [] => true | h :: _ => sep acc h.path (hasContext h)) = true →
      readPatchLoop (n + cnt d) (ops ++ tl) acc = readPatchLoop n tl (acc ++ normPB d)
  | [], _, _, ops, hr, n, tl, acc, _ => by
    rw [renderPatchOps] at hr; injection hr with hr; subst hr
    simp [cnt, normPB]
  | h :: d, hw, hc, ops, hr, n, tl, acc, hs => by
    simp only [List.all_cons, Bool.and_eq_true] at hw
    obtain ⟨a, b, ha, hb, rfl⟩ := renderPatchOps_ok_cons hr
    rw [List.append_assoc, cnt,
      show n + (h.remove.length + h.add.length + cnt d) = (n + cnt d) + (h.remove.length + h.add.length) by omega,
      hunk_loop L hw.1 ha (n + cnt d) (b ++ tl) acc hs]
    have hc' : chainOK d = true := by
      cases d with
      | nil => rfl
      | cons h2 r => simp only [chainOK, Bool.and_eq_true] at hc; exact hc.2
    rw [diff_loop L d hw.2 hc' b hb n tl (acc ++ [normH h])]
    · simp [normPB]
    · cases d with
      | nil => rfl
      | cons h2 r =>
        simp only [chainOK, Bool.and_eq_true] at hc
        simp only [sep, List.getLast?_append, List.getLast?_singleton, Option.some_or, normH_path]
        exact hc.1

/-- **PARSE-BACK** (property C10, first clause, at the level of operations): reading the JSON Patch
    operations `RenderPatch` produced for a diff of the domain gives the diff back in normal form.
    `FloatLaws` (reflexivity of the float comparison on finite numbers) is needed because the reader
    compares the value of each `test` with the value of the following `remove`, and the paths of
    consecutive elements, with `Equals`. -/
theorem readPatch_render (L : FloatLaws) (d : Diff) (hwf : PBwf d = true) (ops : List PatchOp)
    (h : renderPatchOps d = .ok ops) :
    readPatchLoop (ops.length + 1) ops [] = .ok (normPB d) := by
  simp only [PBwf, Bool.and_eq_true] at hwf
  have hlen := diff_len hwf.1 h
  have := diff_loop L d hwf.1 hwf.2 ops h (ops.length + 1 - cnt d) [] []
    (by cases d <;> rfl)
  rw [show ops.length + 1 - cnt d + cnt d = ops.length + 1 by omega, List.append_nil] at this
  rw [this, show ops.length + 1 - cnt d = (ops.length - cnt d) + 1 by omega]
  simp [readPatchLoop]


/-! ### 7. corollary: applying what was read back -/

/-- context weakening: a hunk with the same `remove` / `add` whose context accepts at least the
    same arrays applies wherever the original applies, with the same result -/
theorem applyStrict_ctx {h h' : Hunk} (hr : h'.remove = h.remove) (ha : h'.add = h.add)
    (hsp : ∀ l i r, splice l i h = some r → splice l i h' = some r) :
    ∀ (p : Path) (n r : Json), applyStrict n p h = some r → applyStrict n p h' = some r
  | [], n, r, e => by simp only [applyStrict, hr, ha] at e ⊢; exact e
  | [.idx i], n, r, e => by
    cases n with
    | arr t xs =>
      simp only [applyStrict, Option.map_eq_some_iff] at e ⊢
      obtain ⟨l, hl, rfl⟩ := e
      exact ⟨l, hsp _ _ _ hl, rfl⟩
    | _ => simp [applyStrict] at e
  | .idx i :: e2 :: rest, n, r, e => by
    cases n with
    | arr t xs =>
      simp only [applyStrict] at e ⊢
      split at e
      · cases e
      · rename_i hi
        rw [if_neg hi]
        split at e
        · rename_i x hx
          simp only [Option.map_eq_some_iff] at e ⊢
          obtain ⟨v, hv, rfl⟩ := e
          exact ⟨v, applyStrict_ctx hr ha hsp _ _ _ hv, rfl⟩
        · cases e
    | _ => simp [applyStrict] at e
  | .key k :: rest, n, r, e => by
    cases n with
    | obj kvs =>
      simp only [applyStrict, Option.map_eq_some_iff] at e ⊢
      obtain ⟨v, hv, rfl⟩ := e
      exact ⟨v, applyStrict_ctx hr ha hsp _ _ _ hv, rfl⟩
    | _ => simp [applyStrict] at e
  | .set :: _, n, r, e => by simp [applyStrict] at e
  | .mset :: _, n, r, e => by simp [applyStrict] at e
  | .setKeys _ :: _, n, r, e => by simp [applyStrict] at e
  | .msetKeys _ :: _, n, r, e => by simp [applyStrict] at e

theorem normH_remove (h : Hunk) : (normH h).remove = h.remove := by
  unfold normH; split <;> rfl

theorem normH_add (h : Hunk) : (normH h).add = h.add := by
  unfold normH; split <;> rfl

theorem normH_merge (h : Hunk) : (normH h).merge = false := by
  unfold normH; split <;> rfl

theorem normCtx_single {c : List Json} (h : c.length = 1) : normCtx c = c := by
  match c, h with
  | [x], _ =>
    unfold normCtx
    cases hx : realCtx [x]
    · simp only [Bool.false_eq_true, if_false]
      cases x <;> simp_all [realCtx, Json.isVoid]
    · rfl

/-- the shape of jd's own list-mode hunks: exactly one line of context on each side of a hunk on an
    array (a value, or the void marker at the array boundary) -/
def jdShaped (h : Hunk) : Bool :=
  match lastIdx? h.path with
  | some _ => h.before.length == 1 && h.after.length == 1
  | none => true

theorem splice_normH {h : Hunk} (hs : jdShaped h = true) :
    ∀ l i r, splice l i h = some r → splice l i (normH h) = some r := by
  unfold normH
  split
  · rename_i hc
    simp only [Bool.and_eq_true] at hc
    unfold jdShaped at hs
    cases hl : lastIdx? h.path with
    | none => rw [hl] at hc; simp at hc
    | some i =>
      rw [hl] at hs
      simp only [Bool.and_eq_true, beq_iff_eq] at hs
      rw [normCtx_single hs.1, normCtx_single hs.2]
      intro l i r e
      exact e
  · intro l i r e
    simp only [splice] at e ⊢
    split at e
    · rename_i h1; rw [if_pos h1]; exact e
    · rename_i h1; rw [if_neg h1]
      split at e
      · cases e
      · rename_i h2; rw [if_neg h2]
        split at e
        · rename_i h3
          simp only [Bool.and_eq_true] at h3
          simp only [h3.1.1, beforeOk, afterOk, Bool.and_self, if_true]
          exact e
        · cases e

/-- normalising the context of jd-shaped hunks never turns an applicable diff into an
    inapplicable one, nor changes its result -/
theorem applyStrictAll_normPB : ∀ (d : Diff), d.all jdShaped = true → ∀ (a b : Json),
    applyStrictAll a d = some b → applyStrictAll a (normPB d) = some b
  | [], _, a, b, e => e
  | h :: d, hs, a, b, e => by
    simp only [List.all_cons, Bool.and_eq_true] at hs
    simp only [applyStrictAll, normPB, List.map_cons, normH_path] at e ⊢
    cases h1 : applyStrict a h.path h with
    | none => rw [h1] at e; cases e
    | some a1 =>
      rw [h1] at e
      rw [applyStrict_ctx (normH_remove h) (normH_add h) (splice_normH hs.1) _ _ _ h1]
      exact applyStrictAll_normPB d hs.2 a1 b e

/-- **C10, first clause, reference semantics**: the diff read back from jd's own JSON Patch output
    applies wherever the original diff applies, with the same result -/
theorem readPatch_render_apply (L : FloatLaws) (d : Diff) (hwf : PBwf d = true)
    (hs : d.all jdShaped = true) (ops : List PatchOp) (h : renderPatchOps d = .ok ops) :
    ∃ d', readPatchLoop (ops.length + 1) ops [] = .ok d' ∧
      ∀ a b, applyStrictAll a d = some b → applyStrictAll a d' = some b :=
  ⟨normPB d, readPatch_render L d hwf ops h, applyStrictAll_normPB d hs⟩

theorem strictPath_of_pathOK : ∀ {p : Path}, pathOK p = true → strictPath p = true
  | [], _ => rfl
  | e :: p, h => by
    simp only [pathOK, List.all_cons, Bool.and_eq_true] at h
    have ih := strictPath_of_pathOK (p := p) h.2
    cases e with
    | key k => simpa [strictPath] using ih
    | idx i => simpa [strictPath] using ih
    | _ => simp [elemOK] at h

theorem listDocList_normCtx {c : List Json} (h : listDocList c = true) :
    listDocList (normCtx c) = true := by
  unfold normCtx; split
  · exact h
  · rfl

theorem hunkListDoc_normH {h : Hunk} (hd : hunkListDoc h = true) : hunkListDoc (normH h) = true := by
  simp only [hunkListDoc, Bool.and_eq_true] at hd
  unfold normH; split
  · simp [hunkListDoc, hd.1.1.2, hd.1.2, listDocList_normCtx hd.1.1.1, listDocList_normCtx hd.2]
  · simp [hunkListDoc, hd.1.1.2, hd.1.2, listDocList]

/-- **C10, first clause, library semantics**: if the diff turns `a` into `b` (reference semantics =
    library semantics by JdProofs.StrictPatch), then the library's `Patch` with the diff read back
    from jd's own JSON Patch output turns `a` into `b`, up to the Go dynamic type of array nodes -/
theorem readPatch_render_patch (L : FloatLaws) (d : Diff) (hwf : PBwf d = true)
    (hs : d.all jdShaped = true) (hld : d.all hunkListDoc = true)
    (ops : List PatchOp) (h : renderPatchOps d = .ok ops)
    (a b : Json) (ha : a.listDoc = true) (hab : applyStrictAll a d = some b) :
    ∃ d' r, readPatchLoop (ops.length + 1) ops [] = .ok d' ∧ patchM a d' = .ok r ∧
      untag r = untag b := by
  have hN := applyStrictAll_normPB d hs a b hab
  have hall : (normPB d).all (fun h => !h.merge && strictPath h.path && hunkListDoc h) = true := by
    simp only [PBwf, Bool.and_eq_true] at hwf
    rw [List.all_eq_true]
    intro h' hm
    obtain ⟨h0, hm0, rfl⟩ := List.mem_map.1 hm
    have hw := List.all_eq_true.1 hwf.1 h0 hm0
    have hl := List.all_eq_true.1 hld h0 hm0
    simp only [PBwfH, Bool.and_eq_true] at hw
    simp only [normH_merge, normH_path, Bool.not_false, Bool.true_and, Bool.and_eq_true]
    exact ⟨strictPath_of_pathOK hw.1.1.1.1.1.1.2, hunkListDoc_normH hl⟩
  have := patchM_strict_eq_ref a (normPB d) hall ha
  rw [hN] at this
  cases hP : patchM a (normPB d) with
  | ok r =>
    rw [hP] at this
    simp only [Outcome.mapO, optToOutcome, Outcome.ok.injEq] at this
    exact ⟨normPB d, r, readPatch_render L d hwf ops h, hP, this⟩
  | err => rw [hP] at this; simp [Outcome.mapO, optToOutcome] at this
  | panic => rw [hP] at this; simp [Outcome.mapO, optToOutcome] at this


/-- when the normal form is the hunk itself: key / root hunks without context; jd-shaped array
    hunks that remove something or carry a real context line -/
theorem normH_eq_self {h : Hunk} (hw : PBwfH h = true) (hs : jdShaped h = true)
    (hk : lastIdx? h.path = none → h.before = [] ∧ h.after = [])
    (hi : (lastIdx? h.path).isSome = true → (hasContext h || !h.remove.isEmpty) = true) :
    normH h = h := by
  simp only [PBwfH, Bool.and_eq_true, Bool.not_eq_true'] at hw
  have hm : h.merge = false := hw.1.1.1.1.1.1.1
  unfold normH
  cases hl : lastIdx? h.path with
  | none =>
    obtain ⟨h1, h2⟩ := hk hl
    simp only [Option.isSome_none, Bool.false_and, Bool.false_eq_true, if_false]
    cases h; simp_all
  | some i =>
    have := hi (by rw [hl]; rfl)
    rw [hasContext_eq] at this
    unfold jdShaped at hs
    rw [hl] at hs
    simp only [Bool.and_eq_true, beq_iff_eq] at hs
    simp only [Option.isSome_some, Bool.true_and, this, if_true, normCtx_single hs.1,
      normCtx_single hs.2]
    cases h; simp_all

#print axioms readPointer_write
#print axioms hunk_loop
#print axioms readPatch_render
#print axioms normH_eq_self
#print axioms applyStrictAll_normPB
#print axioms readPatch_render_apply
#print axioms readPatch_render_patch

end Jd.PB
