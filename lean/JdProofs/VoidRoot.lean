/-
  JdProofs.VoidRoot (namespace `Jd.VoidRoot`) — the EMPTY document (`Json.void`) at the ROOT of a
  diff, on either side, in every reading of arrays and both strategies.

  The properties C01 / C05 / C02 / C09 / C11 quantify over "any two documents a and b, including the
  empty document".  Audit (see REPORT.md for the table): the hypotheses `listDoc`, `rawDoc`, `wf`,
  `finiteNums`, `noNegZero`, `setDoc`, `DPL.memOK`, `E2E.voidFree`, `E2E.shortArrays`, `nullFree`,
  `HashOK`, `HashFaithful`, `KeysHyp` all HOLD of `Json.void` at the root (`voidFree` / `memOK` speak
  about array elements and object members only), so the strict-strategy theorems of C01 / C05 / C02
  already cover `a = void` and `b = void`.  EXCLUDED at the root are: `b = void` in every MERGE
  theorem of C01 / C02 / C11 / C14 (`Merge.objVoidFree b`, `Yaml.voidFree b`), and `a = void` /
  `b = void` wherever `Yaml.voidFree` / `JText.preOK` is asked of a document.

  Here the root-void cases are proved DIRECTLY, for ALL option lists `o` at once (list, SET,
  MULTISET, SetKeys, Precision, with or without MERGE) and with (almost) no hypothesis: at the root
  the diff is one whole-document hunk.

   §1 the diff:       `diffM_void_left`, `diffM_void_right`, `diffM_void_void`
   §2 C05:            `diff_empty_iff_equals_void_left`, `diff_empty_iff_equals_void_right`
   §3 C01:            `patch_void_left` (no hypothesis), `patch_void_right_merge` (no hypothesis),
                      `patch_void_right_strict` (`a.Equals(a)`, root not a typed set),
                      `typed_set_root_witness` (model only)
   §4 C02 (text):     `native_void_left`, `native_void_right`
   §5 C09 (RFC 6902): `renderPatch_void_left`, `renderPatch_void_right_strict`,
                      `renderPatch_void_right_merge_noop` (FINDING: a merge diff that deletes the
                      document renders to the no-op patch `[]`), `renderPatch_void_void`
   §6 C11 (RFC 7386): `renderMerge_void_left`, `renderMerge_void_right` (FINDING: the patch is `null`;
                      RFC 7386 yields `null`, not the empty document; jd's own reader reads it back
                      as "delete the document": KF-C12-rootnull seen from the writer's side),
                      `renderMerge_void_void`, `renderMerge_strict_err`
-/
import JdModel
import JdSpec
import JdProofs.NativeRoundTrip
import JdProofs.Robust

set_option autoImplicit false

namespace Jd.VoidRoot
open Jd Jd.Spec Jd.NativeRT

/-! ## 1. the diff when one side is the empty document -/

/-- `void.Diff(b)`: nothing when `b` is void too, otherwise ONE hunk at the root that adds `b`
    (a merge hunk under MERGE).  Every option list. -/
theorem diffM_void_left (o : Opts) (b : Json) :
    diffM o .void b =
      if b.isVoid then [] else [{ merge := isMerge o, path := [], add := [b] }] := by
  unfold diffM
  rw [diffNode.eq_def]
  cases b <;> cases hm : isMerge o <;>
    simp [diffCommon, equals, Json.isVoid, Json.nodeList]

theorem diffM_void_void (o : Opts) : diffM o .void .void = [] := by
  rw [diffM_void_left]; rfl

/-- the value the strict hunk removes at the root: the document itself, an array under the Go type
    its diff method runs on (`jsonArray` in the set readings, `jsonList` in the list reading) -/
def removedRoot (o : Opts) : Json → Json
  | .arr t xs =>
    match effTag o t with
    | .set => .arr .raw xs
    | .mset => .arr .raw xs
    | _ => .arr .list xs
  | a => a

/-- `jsonObject.diff` against a non-object writes the other node as it is: `Add = [void]`;
    the other kinds go through `nodeList`, which drops void -/
def addRoot : Json → List Json
  | .obj _ => [.void]
  | _ => []

/-- `a.Diff(void)` for a document `a`: ONE hunk at the root — under MERGE the merge hunk "write
    void" (= delete), otherwise the strict hunk that removes `a`.  Every option list. -/
theorem diffM_void_right (o : Opts) (a : Json) (ha : a.isVoid = false) :
    diffM o a .void =
      if isMerge o then [{ merge := true, path := [], add := [.void] }]
      else [{ path := [], remove := [removedRoot o a], add := addRoot a }] := by
  unfold diffM
  rw [diffNode.eq_def]
  cases a with
  | void => simp [Json.isVoid] at ha
  | arr t xs =>
    cases hm : isMerge o <;> cases he : effTag o t <;> cases t <;>
      simp_all [removedRoot, addRoot, Json.dispatch, Json.nodeList, Json.isVoid, effTag]
  | obj kvs => cases hm : isMerge o <;> simp [removedRoot, addRoot]
  | _ =>
    cases hm : isMerge o <;>
      simp [diffCommon, equals, Json.isVoid, Json.isNull, Json.nodeList, removedRoot, addRoot]

/-! ## 2. C05 at the root: the diff is empty exactly when `Equals` holds — every option list, no
      hypothesis -/

theorem equals_void_left (o : Opts) (b : Json) : equals o .void b = b.isVoid := by
  simp [equals]

theorem equals_void_right (o : Opts) (a : Json) : equals o a .void = a.isVoid := by
  cases a with
  | arr t xs => cases he : effTag o t <;> simp [equals, he, Json.dispatch, Json.isVoid]
  | _ => simp [equals, Json.isVoid, Json.isNull]

/-- **C05, `a` the empty document** -/
theorem diff_empty_iff_equals_void_left (o : Opts) (b : Json) :
    diffM o .void b = [] ↔ equals o .void b = true := by
  rw [diffM_void_left, equals_void_left]
  cases b.isVoid <;> simp

/-- **C05, `b` the empty document** -/
theorem diff_empty_iff_equals_void_right (o : Opts) (a : Json) :
    diffM o a .void = [] ↔ equals o a .void = true := by
  rw [equals_void_right]
  cases ha : a.isVoid with
  | true => cases a <;> simp [Json.isVoid] at ha; simp [diffM_void_void]
  | false => rw [diffM_void_right o a ha]; cases isMerge o <;> simp

/-! ## 3. C01 at the root: patching the diff yields the target -/

/-- **C01, `a` the empty document**: `void.Patch(void.Diff(b))` is `b` ITSELF — every option list,
    every `b` (void included), either variant of the patch code, no hypothesis -/
theorem patch_void_left (sw : Bool) (o : Opts) (b : Json) :
    patchAll sw .void (diffM o .void b) = .ok b := by
  rw [diffM_void_left]
  cases hb : b.isVoid with
  | true => cases b <;> simp [Json.isVoid] at hb; rfl
  | false =>
    cases hm : isMerge o <;>
      simp [patchAll, patchNode.eq_def, patchFresh, Path.isLeaf, Json.singleValue, Json.isVoid, equals]

/-- **C01, `b` the empty document, MERGE strategy**: the merge hunk "write void at the root"
    deletes the document — every option list with MERGE, every `a`, no hypothesis -/
theorem patch_void_right_merge (sw : Bool) (o : Opts) (hm : isMerge o = true) (a : Json) :
    patchAll sw a (diffM o a .void) = .ok .void := by
  cases ha : a.isVoid with
  | true => cases a <;> simp [Json.isVoid] at ha; rw [diffM_void_void]; rfl
  | false =>
    rw [diffM_void_right o a ha, hm]
    cases a with
    | void => simp [Json.isVoid] at ha
    | arr t xs =>
      cases he : effTag [] t <;>
        simp [patchAll, patchNode.eq_def, pathMeta, he, patchFresh, Path.isLeaf, Json.singleValue, Json.isVoid]
    | _ => simp [patchAll, patchNode.eq_def, patchFresh, Path.isLeaf, Json.singleValue, Json.isVoid]

/-- the root is not a `jsonSet` / `jsonMultiset` TYPED node (no reader produces one) -/
def plainRoot : Json → Bool
  | .arr .set _ => false
  | .arr .mset _ => false
  | _ => true

theorem plainRoot_of_listDoc {a : Json} (h : a.listDoc = true) : plainRoot a = true := by
  cases a with
  | arr t xs => cases t <;> simp_all [Json.listDoc, plainRoot]
  | _ => rfl

/-- the removed value of an array root is the array under the tag `jsonArray` or `jsonList` -/
theorem removedRoot_arr (o : Opts) (t : Tag) (xs : List Json) :
    ∃ t', (t' = .raw ∨ t' = .list) ∧ removedRoot o (.arr t xs) = .arr t' xs := by
  cases he : effTag o t
  · exact ⟨.list, .inr rfl, by simp [removedRoot, he]⟩
  · exact ⟨.list, .inr rfl, by simp [removedRoot, he]⟩
  · exact ⟨.raw, .inl rfl, by simp [removedRoot, he]⟩
  · exact ⟨.raw, .inl rfl, by simp [removedRoot, he]⟩

/-- the strict hunk "remove this array at the root" applies to the array (either plain tag on
    either side) when its elements `Equals` themselves -/
theorem patch_root_arr (sw : Bool) (t t' : Tag) (xs : List Json)
    (ht : t = .raw ∨ t = .list) (ht' : t' = .raw ∨ t' = .list)
    (hl : equalsList [] xs xs = true) :
    patchNode sw false (.arr t xs) [] [] [.arr t' xs] [] [] = .ok .void := by
  rw [patchNode.eq_def]
  rcases ht with rfl | rfl <;> rcases ht' with rfl | rfl <;>
    simp [pathMeta, effTag, dispatchTag, equals, Json.dispatch, hl]

/-- **C01, `b` the empty document, strict strategy**: the hunk removes the whole document, and the
    patch code checks the removed value with `Equals` (no options): the only hypothesis is that `a`
    `Equals` itself (false only with a NaN inside; follows from `finiteNums` by
    `equals_refl_list`).  Every option list without MERGE (list, SET, MULTISET, SetKeys, Precision). -/
theorem patch_void_right_strict (sw : Bool) (o : Opts) (hm : isMerge o = false) (a : Json)
    (hp : plainRoot a = true) (hr : equals [] a a = true) :
    patchAll sw a (diffM o a .void) = .ok .void := by
  cases ha : a.isVoid with
  | true => cases a <;> simp [Json.isVoid] at ha; rw [diffM_void_void]; rfl
  | false =>
    rw [diffM_void_right o a ha, hm]
    cases a with
    | void => simp [Json.isVoid] at ha
    | arr t xs =>
      have hl : equalsList [] xs xs = true := by
        cases t <;> simp_all [equals, effTag, dispatchTag, Json.dispatch, plainRoot]
      obtain ⟨t', ht', hrr⟩ := removedRoot_arr o t xs
      have hpl : t = .raw ∨ t = .list := by cases t <;> simp_all [plainRoot]
      simp only [Bool.false_eq_true, if_false, patchAll, hrr, addRoot]
      rw [patch_root_arr sw t t' xs hpl ht' hl]
    | obj kvs =>
      simp only [Bool.false_eq_true, if_false, patchAll, patchNode.eq_def, removedRoot, addRoot,
        List.length_singleton, Json.singleValue]
      simp [hr, Json.singleValue]
    | null => simp [patchAll, patchNode.eq_def, patchFresh, Path.isLeaf, Json.singleValue, removedRoot, addRoot, equals, Json.isNull]
    | bool x => simp [patchAll, patchNode.eq_def, patchFresh, Path.isLeaf, Json.singleValue, removedRoot, addRoot, equals]
    | num x =>
      simp only [Bool.false_eq_true, if_false, patchAll, patchNode.eq_def, removedRoot, addRoot]
      simp [patchFresh, Path.isLeaf, Json.singleValue, hr]
    | str x => simp [patchAll, patchNode.eq_def, patchFresh, Path.isLeaf, Json.singleValue, removedRoot, addRoot, equals]

/-- the property at the root in one statement: whenever one side is the empty document,
    `a.Patch(a.Diff(b))` succeeds and the result `Equals` `b` under the options -/
theorem diff_then_patch_root_void (sw : Bool) (o : Opts) (a b : Json)
    (hv : a.isVoid = true ∨ b.isVoid = true)
    (hp : plainRoot a = true) (hr : equals [] a a = true) :
    ∃ r, patchAll sw a (diffM o a b) = .ok r ∧ (r = b ∨ (r.isVoid = true ∧ b.isVoid = true)) := by
  rcases hv with hv | hv
  · cases a <;> simp [Json.isVoid] at hv
    exact ⟨b, patch_void_left sw o b, .inl rfl⟩
  · cases b <;> simp [Json.isVoid] at hv
    cases hm : isMerge o with
    | true => exact ⟨.void, patch_void_right_merge sw o hm a, .inl rfl⟩
    | false => exact ⟨.void, patch_void_right_strict sw o hm a hp hr, .inl rfl⟩

/-- `plainRoot` cannot be dropped IN THE MODEL: a `jsonSet`-typed root (not producible through the
    public API) is removed as a plain `jsonArray`, which the typed node does not `Equals` without
    options -/
theorem typed_set_root_witness :
    plainRoot (.arr .set []) = false ∧ equals [] (.arr .set []) (.arr .set []) = true ∧
    diffM [] (.arr .set []) .void = [{ path := [], remove := [.arr .raw []], add := [] }] ∧
    patchM (.arr .set []) (diffM [] (.arr .set []) .void) = .err := by
  refine ⟨rfl, by simp [equals, effTag, Json.dispatch], ?_, ?_⟩
  · rw [diffM_void_right [] _ rfl]; rfl
  · rw [diffM_void_right [] _ rfl]
    simp [patchM, patchAll, patchNode.eq_def, pathMeta, effTag, removedRoot, addRoot, equals,
      Json.dispatch, dispatchTag, isMerge, Json.singleValue]

/-! ## 4. C02 at the root: the native text of the diff, read back, patches `a` to `b` -/

/-- the hunk `[{merge, [], add [b]}]` as `ReadDiffString` returns it -/
theorem normDiff_add (m : Bool) (b : Json) (hb : b.isVoid = false) :
    normDiff [{ merge := m, path := [], add := [b] }] = [{ merge := m, path := [], add := [untag b] }] := by
  cases m <;> simp [normDiff, normHunk, normPath, remLines, addLines, hb]

/-- **native text, `a` the empty document** (every option list): the text of `void.Diff(b)` is read
    back as ONE root hunk that adds `b` (up to the Go type of array nodes: `untag`), and patching the
    empty document with it yields `b` (`untag b = b` for a document as read: `untag_rawDoc`).
    Hypotheses: the codec contract on the root path `[]` and on `b`. -/
theorem native_void_left (nc : NumCodec) (o : Opts) (b : Json) (hb : b.isVoid = false)
    (hP : PathOK nc []) (hV : ValOK nc b) (text : String)
    (hr : renderM nc [] (diffM o .void b) = some text) :
    readDiffM nc text = .ok [{ merge := isMerge o, path := [], add := [untag b] }] ∧
    ∀ sw, patchAll sw .void [{ merge := isMerge o, path := [], add := [untag b] }] = .ok (untag b) := by
  rw [diffM_void_left, hb] at hr
  simp only [Bool.false_eq_true, if_false] at hr
  have hw : wfDiff [{ merge := isMerge o, path := [], add := [b] }] = true := by
    cases isMerge o <;>
      simp [wfDiff, wfHunk, idxOK, remLines, addLines, hb, mergeMono]
  have hc : CodecOK nc [{ merge := isMerge o, path := [], add := [b] }] := by
    intro h hh
    simp only [List.mem_singleton] at hh
    subst hh
    refine ⟨hP, fun v hv => ?_⟩
    simp only [payloads, List.nil_append, List.append_nil, List.mem_filter, List.mem_singleton] at hv
    rw [hv.1]; exact hV
  have := read_render nc _ text hw hc hr
  rw [normDiff_add _ b hb] at this
  refine ⟨this, fun sw => ?_⟩
  have hu : (untag b).isVoid = false := by rw [untag_isVoid]; exact hb
  cases hm : isMerge o <;>
    simp [patchAll, patchNode.eq_def, patchFresh, Path.isLeaf, Json.singleValue, Json.isVoid, equals]

/-- **native text, `b` the empty document, strict strategy** (every option list without MERGE):
    for `a` as read from text (`rawDoc`) that `Equals` itself, the text `@ []` / `- a` is read back
    as the hunk that removes `a` at the root, and patching `a` with it yields the empty document.
    (The in-memory hunk of an OBJECT `a` carries `Add = [void]`, which has no `+` line: the diff read
    back has `Add = []` — same effect.) -/
theorem native_void_right (nc : NumCodec) (o : Opts) (hm : isMerge o = false) (a : Json)
    (ha : a.isVoid = false) (har : a.rawDoc = true) (hrefl : equals [] a a = true)
    (hP : PathOK nc []) (hV : ValOK nc (removedRoot o a)) (text : String)
    (hr : renderM nc [] (diffM o a .void) = some text) :
    readDiffM nc text = .ok [{ path := [], remove := [a] }] ∧
    ∀ sw, patchAll sw a [{ path := [], remove := [a] }] = .ok .void := by
  rw [diffM_void_right o a ha, hm] at hr
  simp only [Bool.false_eq_true, if_false] at hr
  have hrv : (removedRoot o a).isVoid = false := by
    cases a with
    | arr t xs => obtain ⟨t', _, e⟩ := removedRoot_arr o t xs; rw [e]; rfl
    | _ => simpa [removedRoot] using ha
  have hadd : ∀ v ∈ addRoot a, v.isVoid = true := by
    cases a <;> simp [addRoot, Json.isVoid]
  have hfil : (addRoot a).filter (fun v => !v.isVoid) = [] := by
    cases a <;> simp [addRoot, Json.isVoid]
  have hw : wfDiff [{ path := [], remove := [removedRoot o a], add := addRoot a }] = true := by
    simp [wfDiff, wfHunk, idxOK, remLines, addLines, hrv, hfil, mergeMono]
  have hc : CodecOK nc [{ path := [], remove := [removedRoot o a], add := addRoot a }] := by
    intro h hh
    simp only [List.mem_singleton] at hh
    subst hh
    refine ⟨hP, fun v hv => ?_⟩
    simp only [payloads, List.nil_append, List.append_nil, List.mem_filter, List.mem_append,
      List.mem_singleton] at hv
    rcases hv.1 with e | e
    · rw [e]; exact hV
    · have := hadd v e; simp [this] at hv
  have hu : untag (removedRoot o a) = a := by
    cases a with
    | arr t xs =>
      obtain ⟨t', _, e⟩ := removedRoot_arr o t xs
      rw [e]
      have h1 := Robust.untag_rawDoc _ har
      simp only [Json.rawDoc, Bool.and_eq_true, beq_iff_eq] at har
      rw [har.1] at h1 ⊢
      simpa [untag] using h1
    | _ => simpa [removedRoot] using Robust.untag_rawDoc _ har
  have := read_render nc _ text hw hc hr
  have hn : normDiff [{ path := [], remove := [removedRoot o a], add := addRoot a }]
      = [{ path := [], remove := [a] }] := by
    simp [normDiff, normHunk, normPath, remLines, addLines, hrv, hfil, hu]
  rw [hn] at this
  refine ⟨this, fun sw => ?_⟩
  have hpl : plainRoot a = true := by
    cases a with
    | arr t xs =>
      simp only [Json.rawDoc, Bool.and_eq_true, beq_iff_eq] at har
      rw [har.1]; rfl
    | _ => rfl
  -- the hunk read back is the in-memory hunk of a document whose removed value is `a` itself
  cases a with
  | void => simp [Json.isVoid] at ha
  | arr t xs =>
    have hl : equalsList [] xs xs = true := by
      simp only [Json.rawDoc, Bool.and_eq_true, beq_iff_eq] at har
      obtain ⟨rfl, _⟩ := har
      simpa [equals, effTag, dispatchTag, Json.dispatch] using hrefl
    simp only [Json.rawDoc, Bool.and_eq_true, beq_iff_eq] at har
    obtain ⟨rfl, _⟩ := har
    simp only [patchAll]
    rw [patch_root_arr sw .raw .raw xs (.inl rfl) (.inl rfl) hl]
  | obj kvs => simp [patchAll, patchNode.eq_def, hrefl, Json.singleValue]
  | null => simp [patchAll, patchNode.eq_def, patchFresh, Path.isLeaf, Json.singleValue, equals, Json.isNull]
  | bool x => simp [patchAll, patchNode.eq_def, patchFresh, Path.isLeaf, Json.singleValue, equals]
  | num x => simp [patchAll, patchNode.eq_def, patchFresh, Path.isLeaf, Json.singleValue, hrefl]
  | str x => simp [patchAll, patchNode.eq_def, patchFresh, Path.isLeaf, Json.singleValue, equals]

/-! ## 5. C09 at the root: `RenderPatch`, and what RFC 6902 makes of it -/

theorem writePointerPath_nil : writePointerPath [] = .ok "" := by
  simp [writePointerPath, pathToJson, writePointer]

/-- **RFC 6902, `a` the empty document** (every option list, MERGE included): `RenderPatch` gives
    the single operation `add` at the root pointer `""` with value `b`; the RFC 6902 evaluator turns
    "no document" into `b`. -/
theorem renderPatch_void_left (o : Opts) (b : Json) (hb : b.isVoid = false) :
    renderPatchOps (diffM o .void b) = .ok [{ op := "add", path := "", value := b }] ∧
    Spec.eval .void [{ op := "add", path := "", value := b }] = some b := by
  rw [diffM_void_left, hb]
  refine ⟨?_, ?_⟩
  · simp [renderPatchOps, renderPatchHunk, writePointerPath_nil, hb]
    rfl
  · simp [Spec.eval, Spec.evalOp, Spec.parsePointer, Spec.addP]

/-- **RFC 6902, `b` the empty document, strict strategy**: `RenderPatch` gives `test` then `remove`
    at the root pointer; RFC 6902 evaluation on `a` yields "no document" exactly when the tested
    value is `a` (structural equality of the evaluator; `a` up to the Go type of the root array). -/
theorem renderPatch_void_right_strict (o : Opts) (hm : isMerge o = false) (a : Json)
    (ha : a.isVoid = false) :
    renderPatchOps (diffM o a .void) =
      .ok [{ op := "test", path := "", value := removedRoot o a },
           { op := "remove", path := "", value := removedRoot o a }] ∧
    Spec.eval a [{ op := "test", path := "", value := removedRoot o a },
                 { op := "remove", path := "", value := removedRoot o a }]
      = if equivB [] a (removedRoot o a) then some .void else none := by
  have hrv : (removedRoot o a).isVoid = false := by
    cases a with
    | arr t xs => obtain ⟨t', _, e⟩ := removedRoot_arr o t xs; rw [e]; rfl
    | _ => simpa [removedRoot] using ha
  rw [diffM_void_right o a ha, hm]
  refine ⟨?_, ?_⟩
  · cases a <;> simp_all [renderPatchOps, renderPatchHunk, writePointerPath_nil, addRoot, Json.isVoid] <;> rfl
  · have hg : getP a [] = some a := by simp [Spec.getP, ha]
    cases he : equivB [] a (removedRoot o a) <;>
      simp [Spec.eval, Spec.evalOp, Spec.parsePointer, hg, he, Spec.removeP, ha]

/-- **FINDING (library level).** `a.Diff(void, MERGE).RenderPatch()` succeeds with the EMPTY list of
    operations — the text `[]`, the no-op patch (the only hunk writes void, and `RenderPatch` skips
    void additions) — although the diff deletes the document.  RFC 6902 evaluation of `[]` on `a`
    gives `a`, which is not the empty document.  (The CLI never combines `-f patch` with MERGE.) -/
theorem renderPatch_void_right_merge_noop (nc : NumCodec) (o : Opts) (hm : isMerge o = true)
    (a : Json) (ha : a.isVoid = false) :
    diffM o a .void ≠ [] ∧ renderPatchOps (diffM o a .void) = .ok [] ∧
    renderPatchM nc (diffM o a .void) = .ok (some "[]") ∧
    Spec.eval a [] = some a ∧ equals o a .void = false ∧
    patchAll true a (diffM o a .void) = .ok .void := by
  refine ⟨?_, ?_, ?_, rfl, by rw [equals_void_right]; exact ha, patch_void_right_merge true o hm a⟩
  · rw [diffM_void_right o a ha, hm]; simp
  · rw [diffM_void_right o a ha, hm]
    simp [renderPatchOps, renderPatchHunk, writePointerPath_nil, Json.isVoid]
    rfl
  · rw [diffM_void_right o a ha, hm]
    simp [renderPatchM, renderPatchOps, renderPatchHunk, writePointerPath_nil, Json.isVoid, optAll]
    rfl

/-- both documents empty: the text `[]`, which RFC 6902 evaluates to "no document" again -/
theorem renderPatch_void_void (nc : NumCodec) (o : Opts) :
    renderPatchM nc (diffM o .void .void) = .ok (some "[]") ∧ Spec.eval .void [] = some .void := by
  rw [diffM_void_void]; exact ⟨rfl, rfl⟩

/-! ## 6. C11 at the root: `RenderMerge`, and what RFC 7386 makes of it -/

/-- **RFC 7386, `a` the empty document, MERGE**: the merge patch document is `b` itself (the
    statement of C11 then follows from `Merge.mergePatch_copy`: `MergePatch(void, b) = b` for a
    null-free `b`; this case is already inside the C11 theorems, whose hypotheses on `a` allow void) -/
theorem renderMerge_void_left (o : Opts) (hm : isMerge o = true) (b : Json) (hb : b.isVoid = false) :
    renderMergeDoc (diffM o .void b) = .ok b := by
  rw [diffM_void_left, hb, hm]
  have hb' : (if b.isVoid = true then Json.null else b) = b := by simp [hb]
  simp [renderMergeDoc, hb', patchAll, patchNode.eq_def, patchFresh, Path.isLeaf, Json.singleValue]
  simp [Json.isVoid]

/-- **FINDING: C11 fails for `b` = the empty document** (every `a`, every option list with MERGE):
    the diff is the merge hunk "write void at the root"; `RenderMerge` turns void into `null` and
    returns the merge patch `null`; by RFC 7386 `MergePatch(a, null) = null`, which is NOT the empty
    document (neither `Equals` nor `equivB`).  JSON Merge Patch cannot express "delete the whole
    document".  jd's own reader maps the text back to the SAME diff (patch `null` at the root is read
    as "delete": known finding KF-C12-rootnull), so `jd -f merge a b | jd -p -f merge` still
    reproduces the empty document. -/
theorem renderMerge_void_right (o : Opts) (hm : isMerge o = true) (a : Json) (ha : a.isVoid = false) :
    renderMergeDoc (diffM o a .void) = .ok .null ∧
    mergePatch a .null = .null ∧
    equals o (mergePatch a .null) .void = false ∧ equivB o (mergePatch a .null) .void = false ∧
    readMergeDoc .null = diffM o a .void ∧
    patchAll true a (readMergeDoc .null) = .ok .void := by
  have hd : diffM o a .void = [{ merge := true, path := [], add := [.void] }] := by
    rw [diffM_void_right o a ha, hm]; rfl
  refine ⟨?_, rfl, by simp [mergePatch, equals, Json.isNull], by simp [mergePatch, equivB], ?_, ?_⟩
  · rw [hd]
    simp [renderMergeDoc, Json.isVoid, patchAll, patchNode.eq_def, patchFresh, Path.isLeaf,
      Json.singleValue]
  · rw [hd]; simp [readMergeDoc, equals, Json.isNull, readMergeInto]
  · have : readMergeDoc .null = diffM o a .void := by
      rw [hd]; simp [readMergeDoc, equals, Json.isNull, readMergeInto]
    rw [this]; exact patch_void_right_merge true o hm a

/-- both documents empty under MERGE: the empty diff renders to `{}`; RFC 7386 applied to "no
    document" gives `{}` (C11 excludes equal documents); jd reads `{}` back as the empty diff -/
theorem renderMerge_void_void (o : Opts) :
    renderMergeDoc (diffM o .void .void) = .ok (.obj []) ∧ mergePatch .void (.obj []) = .obj [] ∧
    readMergeDoc (.obj []) = [] := by
  rw [diffM_void_void]
  exact ⟨rfl, by simp [mergePatch, mergeMembers], by simp [readMergeDoc, equals, equalsKvs]⟩

/-- without MERGE a root-void diff (one strict hunk) is refused by `RenderMerge`, as any strict hunk -/
theorem renderMerge_strict_err (o : Opts) (hm : isMerge o = false) (a b : Json)
    (hv : a.isVoid = true ∨ b.isVoid = true) (hne : a.isVoid = false ∨ b.isVoid = false) :
    renderMergeDoc (diffM o a b) = .err := by
  rcases hv with hv | hv
  · cases a <;> simp [Json.isVoid] at hv
    have hb : b.isVoid = false := by simpa [Json.isVoid] using hne
    rw [diffM_void_left, hb, hm]; simp [renderMergeDoc]
  · cases b <;> simp [Json.isVoid] at hv
    have ha : a.isVoid = false := by simpa [Json.isVoid] using hne
    rw [diffM_void_right o a ha, hm]; simp [renderMergeDoc]

end Jd.VoidRoot
