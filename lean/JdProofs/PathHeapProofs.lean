/-
  JdProofs.PathHeapProofs — the imperative path model (`JdModel/PathHeap.lean`: Go slices over a heap of
  backing arrays, `append` with in-place growth, `clone`, `drop`, index assignment) REFINES the
  functional one, for every program that obeys the discipline `Act.okL`, for EVERY growth policy.

  Nothing of the rest of the project is used (imports `JdModel.PathHeap` only).  No definition of the
  model had to be corrected: the theorem holds for `JdModel/PathHeap.lean` as it stands.

  WHAT IS PROVED

  Target 1 — the refinement theorem.
  * `refinement grow prog (hok : Act.okL prog = true) h s (v : s.valid h)`: with
    `(h', out) := Act.runL grow s prog h`,
      (a) `out.map (read h') = Act.valsL (read h s) prog`   (stored slices, read at the END of the run,
          are the paths of the functional model),
      (b) `read h' s = read h s`                            (the frame's own parameter is unchanged),
      (c) `∀ a n, a < h.length → (a ≠ s.arr ∨ n ≤ s.len) →
             (h'.getD a []).take n = (h.getD a []).take n`  (every old region survives, except slots of
          the parameter's array at or behind its length).
    Stated with projections `.1`/`.2`; `refinement'` is the same statement in the `match … with
    | (h', out) => …` form of the task text; `refinement_act` is the statement for a single `Act`.
  * `refinement_extra` (same hypotheses): the heap only grows; no old backing array changes its number
    of slots; `s` stays valid; EVERY stored slice lives in an array allocated during the run
    (`h.length ≤ t.arr < h'.length`, i.e. it shares nothing with the caller); every old slice `t` with
    `t.arr ≠ s.arr ∨ t.len ≤ s.len` reads the same afterwards.
  * `eval_safe` / `eval_spec` (the evaluation lemma, for `e.safe`, `s.valid h`,
    `(h1, s1) := e.eval grow s h`): `s1.valid h1`; `read h1 s1 = e.val (read h s)`; the heap only grows;
    regions as in (c) are preserved; `s1` is either the parameter grown in place
    (`s1.arr = s.arr ∧ s.len ≤ s1.len`) or on a new array (`h.length ≤ s1.arr`), and for `e.fresh` it is
    on a NEW array.
  * lemmas for the primitives: `goAppend_spec`, `goClone_spec`, `goDrop_spec`; the frame condition
    `Pres h s h'` with `Pres.refl`, `Pres.trans` (composition along a call: the callee's parameter is the
    caller's grown in place, or on a new array), `Pres.valid`, `Pres.read_self`, `Pres.read_other`.
  * `run_spec` / `runL_spec`: mutual structural induction over `Act` / `List Act` with the invariant
    `RunOk` (frame condition; all stored slices are on new arrays; the stored slices read the functional
    values).  In the list case the slices stored by the head are protected from the tail because they
    live on arrays `≥ h.length > s.arr`.

  Hypotheses of `refinement`, and why each is needed.
  * `Act.okL prog = true` (Bool): needed, separately for each of its three clauses — see target 2.
  * `s.valid h` (decidable; instance given here): the invariant of a real Go slice (the array exists and
    has `cap ≥ len` slots).  Needed: `Witness.valid_needed` (a "slice" with `cap` beyond its backing
    array: `append` assigns a slot that does not exist, and the disciplined program
    `store(append(path,k).clone())` stores `[]` instead of `[k]`).
  * non-vacuity: the `example`s at the end of `Witness` (`progBig`: nested calls, stores of copies, an
    in-place edit of a copy, `drop`+`append` on a copy; parameter `[k1,k2,k3]` with spare capacity).
  * no hypothesis on `grow`.

  Target 2 — counter-witnesses (namespace `Witness`; closed terms; `growDouble`; start state
  `h0 = [[]]`, `s0 = ⟨0,0,0⟩`; proved by `rfl`/`decide`, inequalities by `simp` — `PathElem` has no
  `DecidableEq`, so the paths are first computed by `rfl` and then compared by constructor injectivity).
  (i)   `progAlias` = three nested `call (append param k)` and then `store (append param xa)`,
        `store (append param xb)`: `progAlias_run` (both stored slices ARE `⟨3,4,4⟩` and both read
        `[k1,k2,k3,xb]`), `progAlias_vals` (the functional model: `[…,xa]` and `[…,xb]`),
        `store_nonfresh_aliases` (clause (a) false).  `progCloned` (with `.clone()`) is ok:
        `progCloned_ok`, `progCloned_run`.
  (ii)  `notsafe_changes_param`: in the frame with parameter `[k1]`, `call (append (drop param) xa) []`
        makes the parameter read `[xa]` (clause (b) false); `notsafe_changes_param_top`: the same from
        the start state, observable in the stored result (clause (a) false for a program whose only
        defect is the non-safe argument).  (ii') `fresh_notsafe_changes_param`: `fresh` alone does not
        suffice for a `store`: `store (clone (append (drop param) xa))`.
  (iii) `write_nonfresh_changes_param` (`write param 0 xa` changes the parameter),
        `callee_write_changes_caller` (a callee that got `append(path, xa)` — the caller's array grown
        in place at depth 3 — writes through its parameter and changes the CALLER's path
        `[k1,k2,k3]` to `[xb,k2,k3]`), `write_nonfresh_top` (from the start state, observable);
        on a copy it is fine: `progWriteClone_ok`, `write_clone_top`.

  Target 3 — the symbolic layer.
  * `fresh_shape : e.fresh = e.shape.fresh`, `safe_shape : e.safe = e.shape.safe`.
  * `store_ok_of_shape`, `write_ok_of_shape`, `call_ok_of_shape`: `Act.ok` of each constructor in terms
    of `siteOk` on the shape.
  * `Act.sites` / `Act.sitesL` (defined HERE: kind and shape of every expression of a program),
    `ok_eq_all_sites`, `okL_eq_all_sites : Act.okL l = (Act.sitesL l).all (fun p => siteOk p.1 p.2)`,
    `okL_of_table` (a program all of whose sites occur in a table on which `siteOk` holds everywhere
    is ok), `refinement_of_table` (the refinement theorem from the table check).

  WHAT IS NOT PROVED / LIMITS OF THE MODEL
  * That the Go functions ARE such programs is not a theorem: it is the claim of the regenerated table
    of source sites (tools/pathfacts), checked separately.
  * `write` out of range is a no-op in the model (Go panics); the discipline is sufficient, not
    necessary (e.g. `call (drop param) body` with a body that never appends is harmless but not `ok`).
  * The slices have offset 0 (no reslicing from the left), as in the model file.
-/
import JdModel.PathHeap

namespace Jd.PathHeap
open Jd

/-- validity of a slice is decidable (used by the non-vacuity examples and the witnesses) -/
instance (h : Heap) (s : Slice) : Decidable (s.valid h) := by
  unfold Slice.valid
  exact inferInstance

/-! ### heap primitives -/

theorem length_writeAt (h : Heap) (a i : Nat) (x : PathElem) :
    (writeAt h a i x).length = h.length := by
  simp [writeAt]

theorem getD_writeAt (h : Heap) (a i : Nat) (x : PathElem) (b : Nat) :
    (writeAt h a i x).getD b [] = if a = b then (h.getD b []).set i x else h.getD b [] := by
  unfold writeAt
  simp only [List.getD_eq_getElem?_getD, List.getElem?_modify]
  split
  · cases h[b]? <;> simp
  · cases h[b]? <;> simp

theorem getD_append_left (h : Heap) (sl : List PathElem) (a : Nat) (ha : a < h.length) :
    (h ++ [sl]).getD a [] = h.getD a [] := by
  simp [List.getD_eq_getElem?_getD, List.getElem?_append_left ha]

theorem getD_append_new (h : Heap) (sl : List PathElem) :
    (h ++ [sl]).getD h.length [] = sl := by
  simp [List.getD_eq_getElem?_getD]


theorem take_succ_set {α} (l : List α) (i : Nat) (x : α) (hi : i < l.length) :
    (l.set i x).take (i + 1) = l.take i ++ [x] := by
  induction l generalizing i with
  | nil => simp at hi
  | cons y l ih =>
    cases i with
    | zero => simp
    | succ i =>
      simp only [List.length_cons, Nat.add_lt_add_iff_right] at hi
      simp [ih i hi]

theorem dropLast_take_le {α} (l : List α) (n : Nat) (hn : n ≤ l.length) :
    (l.take n).dropLast = l.take (n - 1) := by
  rw [List.dropLast_eq_take, List.take_take, List.length_take]
  congr 1
  omega

/-! ### the frame condition -/

/-- `h'` extends `h`; every array of `h` keeps its number of slots; every region of `h` is preserved,
    except the slots of `s`'s array at or behind `s.len` -/
structure Pres (h : Heap) (s : Slice) (h' : Heap) : Prop where
  len : h.length ≤ h'.length
  alen : ∀ a, a < h.length → (h'.getD a []).length = (h.getD a []).length
  keep : ∀ a n, a < h.length → (a ≠ s.arr ∨ n ≤ s.len) →
    (h'.getD a []).take n = (h.getD a []).take n

theorem Pres.refl (h : Heap) (s : Slice) : Pres h s h :=
  ⟨Nat.le_refl _, fun _ _ => rfl, fun _ _ _ _ => rfl⟩

/-- composition: the inner frame's slice is the outer one's grown in place, or lives in a new array -/
theorem Pres.trans {h h1 h2 : Heap} {s s1 : Slice} (p1 : Pres h s h1)
    (rel : (s1.arr = s.arr ∧ s.len ≤ s1.len) ∨ h.length ≤ s1.arr) (p2 : Pres h1 s1 h2) :
    Pres h s h2 := by
  refine ⟨Nat.le_trans p1.len p2.len, ?_, ?_⟩
  · intro a ha
    rw [p2.alen a (Nat.lt_of_lt_of_le ha p1.len), p1.alen a ha]
  · intro a n ha hn
    rw [p2.keep a n (Nat.lt_of_lt_of_le ha p1.len) (by omega), p1.keep a n ha hn]

theorem Pres.trans_same {h h1 h2 : Heap} {s : Slice} (p1 : Pres h s h1) (p2 : Pres h1 s h2) :
    Pres h s h2 :=
  p1.trans (Or.inl ⟨rfl, Nat.le_refl _⟩) p2

theorem Pres.valid {h h' : Heap} {s : Slice} (p : Pres h s h') (v : s.valid h) : s.valid h' := by
  obtain ⟨v1, v2, v3⟩ := v
  exact ⟨Nat.lt_of_lt_of_le v1 p.len, v2, by rw [p.alen _ v1]; exact v3⟩

theorem Pres.read_self {h h' : Heap} {s : Slice} (p : Pres h s h') (v : s.arr < h.length) :
    read h' s = read h s :=
  p.keep s.arr s.len v (Or.inr (Nat.le_refl _))

theorem Pres.read_other {h h' : Heap} {s : Slice} (p : Pres h s h') (t : Slice)
    (ht : t.arr < h.length) (hne : t.arr ≠ s.arr) : read h' t = read h t :=
  p.keep t.arr t.len ht (Or.inl hne)

/-! ### the slice operations -/

theorem length_read {h : Heap} {s : Slice} (v : s.valid h) : (read h s).length = s.len := by
  obtain ⟨_, v2, v3⟩ := v
  simp only [read, List.length_take]
  omega

theorem goAppend_spec (grow : Nat → Nat) (h : Heap) (s : Slice) (x : PathElem) (v : s.valid h) :
    Pres h s (goAppend grow h s x).1 ∧
    (goAppend grow h s x).2.valid (goAppend grow h s x).1 ∧
    read (goAppend grow h s x).1 (goAppend grow h s x).2 = read h s ++ [x] ∧
    (((goAppend grow h s x).2.arr = s.arr ∧ s.len ≤ (goAppend grow h s x).2.len) ∨
      h.length ≤ (goAppend grow h s x).2.arr) := by
  have hlen := length_read v
  obtain ⟨v1, v2, v3⟩ := v
  unfold goAppend
  split
  · rename_i hlt
    dsimp only
    refine ⟨⟨?_, ?_, ?_⟩, ⟨?_, ?_, ?_⟩, ?_, ?_⟩
    · simp [length_writeAt]
    · intro a _
      rw [getD_writeAt]
      split <;> simp
    · intro a n _ hn
      rw [getD_writeAt]
      split
      · rename_i he
        exact List.take_set_of_le (by omega)
      · rfl
    · simpa [length_writeAt] using v1
    · show s.len + 1 ≤ s.cap
      omega
    · show s.cap ≤ _
      rw [getD_writeAt]
      simpa using v3
    · show List.take (s.len + 1) (List.getD _ s.arr []) = _
      rw [getD_writeAt, if_pos rfl, take_succ_set _ _ _ (by omega)]
      rfl
    · exact Or.inl ⟨rfl, Nat.le_succ _⟩
  · rename_i hge
    dsimp only [alloc]
    refine ⟨⟨?_, ?_, ?_⟩, ⟨?_, ?_, ?_⟩, ?_, ?_⟩
    · simp
    · intro a ha
      rw [getD_append_left _ _ _ ha]
    · intro a n ha _
      rw [getD_append_left _ _ _ ha]
    · simp
    · show s.len + 1 ≤ max (grow s.cap) (s.len + 1)
      omega
    · show max (grow s.cap) (s.len + 1) ≤ _
      rw [getD_append_new]
      simp only [List.length_append, List.length_replicate, hlen, List.length_cons, List.length_nil]
      omega
    · show List.take (s.len + 1) (List.getD _ h.length []) = _
      rw [getD_append_new]
      apply List.take_left'
      simp [hlen]
    · exact Or.inr (Nat.le_refl _)

theorem goClone_spec (h : Heap) (s : Slice) (v : s.valid h) :
    Pres h s (goClone h s).1 ∧
    (goClone h s).2.valid (goClone h s).1 ∧
    read (goClone h s).1 (goClone h s).2 = read h s ∧
    h.length ≤ (goClone h s).2.arr := by
  have hlen := length_read v
  dsimp only [goClone, alloc]
  refine ⟨⟨?_, ?_, ?_⟩, ⟨?_, ?_, ?_⟩, ?_, ?_⟩
  · simp
  · intro a ha
    rw [getD_append_left _ _ _ ha]
  · intro a n ha _
    rw [getD_append_left _ _ _ ha]
  · simp
  · exact Nat.le_refl _
  · show s.len ≤ _
    rw [getD_append_new, hlen]
    exact Nat.le_refl _
  · show List.take s.len (List.getD _ h.length []) = _
    rw [getD_append_new]
    exact List.take_of_length_le (by omega)
  · exact Nat.le_refl _

theorem goDrop_spec (h : Heap) (s : Slice) (v : s.valid h) :
    (goDrop s).valid h ∧ read h (goDrop s) = (read h s).dropLast ∧ (goDrop s).arr = s.arr := by
  obtain ⟨v1, v2, v3⟩ := v
  unfold goDrop
  split
  · refine ⟨⟨v1, ?_, v3⟩, ?_, rfl⟩
    · show s.len - 1 ≤ s.cap
      omega
    · show List.take (s.len - 1) _ = _
      rw [read, dropLast_take_le _ _ (by omega)]
  · refine ⟨⟨v1, v2, v3⟩, ?_, rfl⟩
    have : s.len = 0 := by omega
    simp [read, this]


/-! ### evaluation of a safe expression -/

/-- the evaluation lemma -/
structure EvalOk (h : Heap) (s : Slice) (e : PExpr) (r : Heap × Slice) : Prop where
  pres : Pres h s r.1
  valid : r.2.valid r.1
  val : read r.1 r.2 = e.val (read h s)
  rel : (r.2.arr = s.arr ∧ s.len ≤ r.2.len) ∨ h.length ≤ r.2.arr
  fresh : e.fresh = true → h.length ≤ r.2.arr

theorem eval_spec (grow : Nat → Nat) (s : Slice) (e : PExpr) (h : Heap)
    (hs : e.safe = true) (v : s.valid h) : EvalOk h s e (e.eval grow s h) := by
  induction e with
  | param =>
    exact ⟨Pres.refl _ _, v, rfl, Or.inl ⟨rfl, Nat.le_refl _⟩, fun hf => by simp [PExpr.fresh] at hf⟩
  | append e x ih =>
    have ih := ih hs
    obtain ⟨g1, g2, g3, g4⟩ := goAppend_spec grow _ _ x ih.valid
    have hl := ih.pres.len
    refine ⟨ih.pres.trans ih.rel g1, g2, ?_, ?_, ?_⟩
    · show read _ _ = e.val (read h s) ++ [x]
      rw [← ih.val]
      exact g3
    · have := ih.rel
      show ((goAppend grow _ _ x).2.arr = s.arr ∧ s.len ≤ (goAppend grow _ _ x).2.len) ∨
        h.length ≤ (goAppend grow _ _ x).2.arr
      omega
    · intro hf
      have := ih.fresh hf
      show h.length ≤ (goAppend grow _ _ x).2.arr
      omega
  | clone e ih =>
    have ih := ih hs
    obtain ⟨g1, g2, g3, g4⟩ := goClone_spec _ _ ih.valid
    have hl := ih.pres.len
    have : h.length ≤ (goClone (e.eval grow s h).1 (e.eval grow s h).2).2.arr := by omega
    refine ⟨ih.pres.trans ih.rel g1, g2, ?_, Or.inr this, fun _ => this⟩
    show read _ _ = e.val (read h s)
    rw [← ih.val]
    exact g3
  | drop e ih =>
    simp only [PExpr.safe, Bool.and_eq_true] at hs
    have ih := ih hs.2
    obtain ⟨g1, g2, g3⟩ := goDrop_spec _ _ ih.valid
    have hf := ih.fresh hs.1
    have : h.length ≤ (goDrop (e.eval grow s h).2).arr := by omega
    refine ⟨ih.pres, g1, ?_, Or.inr this, fun _ => this⟩
    show read _ _ = (e.val (read h s)).dropLast
    rw [← ih.val]
    exact g2

/-! ### execution of a disciplined program -/

/-- the invariant of a run -/
structure RunOk (h : Heap) (s : Slice) (vals : List Path) (r : Heap × List Slice) : Prop where
  pres : Pres h s r.1
  new : ∀ t ∈ r.2, h.length ≤ t.arr ∧ t.arr < r.1.length
  vals : r.2.map (read r.1) = vals

theorem pres_writeAt_new {h0 h : Heap} {s : Slice} (a i : Nat) (x : PathElem)
    (ha : h0.length ≤ a) (p : Pres h0 s h) : Pres h0 s (writeAt h a i x) := by
  refine ⟨by rw [length_writeAt]; exact p.len, ?_, ?_⟩
  · intro b hb
    rw [getD_writeAt, if_neg (by omega)]
    exact p.alen b hb
  · intro b n hb hn
    rw [getD_writeAt, if_neg (by omega)]
    exact p.keep b n hb hn

mutual
theorem run_spec (grow : Nat → Nat) (s : Slice) (a : Act) (h : Heap)
    (hok : a.ok = true) (v : s.valid h) :
    RunOk h s (a.vals (read h s)) (a.run grow s h) := by
  cases a with
  | store e =>
    simp only [Act.ok, Bool.and_eq_true] at hok
    have ev := eval_spec grow s e h hok.2 v
    refine ⟨ev.pres, ?_, ?_⟩
    · intro t ht
      simp only [Act.run, List.mem_singleton] at ht
      subst ht
      exact ⟨ev.fresh hok.1, ev.valid.1⟩
    · simp only [Act.run, Act.vals, List.map_cons, List.map_nil]
      rw [ev.val]
  | call e body =>
    simp only [Act.ok, Bool.and_eq_true] at hok
    have ev := eval_spec grow s e h hok.1 v
    have ih := runL_spec grow (e.eval grow s h).2 body (e.eval grow s h).1 hok.2 ev.valid
    have hl := ev.pres.len
    refine ⟨ev.pres.trans ev.rel ih.pres, ?_, ?_⟩
    · intro t ht
      have := ih.new t ht
      simp only [Act.run]
      omega
    · simp only [Act.run, Act.vals]
      rw [← ev.val]
      exact ih.vals
  | write e i x =>
    simp only [Act.ok, Bool.and_eq_true] at hok
    have ev := eval_spec grow s e h hok.2 v
    refine ⟨?_, ?_, ?_⟩
    · simp only [Act.run]
      split
      · exact pres_writeAt_new _ i x (ev.fresh hok.1) ev.pres
      · exact ev.pres
    · intro t ht
      simp [Act.run] at ht
    · simp [Act.run, Act.vals]
theorem runL_spec (grow : Nat → Nat) (s : Slice) (l : List Act) (h : Heap)
    (hok : Act.okL l = true) (v : s.valid h) :
    RunOk h s (Act.valsL (read h s) l) (Act.runL grow s l h) := by
  cases l with
  | nil =>
    exact ⟨Pres.refl _ _, fun t ht => by simp [Act.runL] at ht, by simp [Act.runL, Act.valsL]⟩
  | cons a r =>
    simp only [Act.okL, Bool.and_eq_true] at hok
    have h1 := run_spec grow s a h hok.1 v
    have h2 := runL_spec grow s r (a.run grow s h).1 hok.2 (h1.pres.valid v)
    have hl := h1.pres.len
    have hl2 := h2.pres.len
    refine ⟨h1.pres.trans_same h2.pres, ?_, ?_⟩
    · intro t ht
      simp only [Act.runL, List.mem_append] at ht
      simp only [Act.runL]
      rcases ht with ht | ht
      · have := h1.new t ht
        omega
      · have := h2.new t ht
        omega
    · simp only [Act.runL, Act.valsL, List.map_append]
      have h2v := h2.vals
      rw [h1.pres.read_self v.1] at h2v
      rw [← h1.vals, ← h2v]
      congr 1
      apply List.map_congr_left
      intro t ht
      have := h1.new t ht
      exact h2.pres.read_other t this.2 (by have := v.1; omega)
end


/-! ### target 1: the refinement theorem -/

/-- THE REFINEMENT THEOREM (list of actions = a function body). -/
theorem refinement (grow : Nat → Nat) (prog : List Act) (hok : Act.okL prog = true)
    (h : Heap) (s : Slice) (v : s.valid h) :
    (Act.runL grow s prog h).2.map (read (Act.runL grow s prog h).1) = Act.valsL (read h s) prog ∧
    read (Act.runL grow s prog h).1 s = read h s ∧
    (∀ a n, a < h.length → (a ≠ s.arr ∨ n ≤ s.len) →
      ((Act.runL grow s prog h).1.getD a []).take n = (h.getD a []).take n) := by
  have r := runL_spec grow s prog h hok v
  exact ⟨r.vals, r.pres.read_self v.1, r.pres.keep⟩

/-- the same, in the `let (h', out) := …` form of the task text -/
theorem refinement' (grow : Nat → Nat) (prog : List Act) (hok : Act.okL prog = true)
    (h : Heap) (s : Slice) (v : s.valid h) :
    match Act.runL grow s prog h with
    | (h', out) =>
      out.map (read h') = Act.valsL (read h s) prog ∧
      read h' s = read h s ∧
      (∀ a n, a < h.length → (a ≠ s.arr ∨ n ≤ s.len) →
        (h'.getD a []).take n = (h.getD a []).take n) :=
  refinement grow prog hok h s v

/-- the refinement theorem for a single action -/
theorem refinement_act (grow : Nat → Nat) (a : Act) (hok : a.ok = true)
    (h : Heap) (s : Slice) (v : s.valid h) :
    (a.run grow s h).2.map (read (a.run grow s h).1) = a.vals (read h s) ∧
    read (a.run grow s h).1 s = read h s ∧
    (∀ b n, b < h.length → (b ≠ s.arr ∨ n ≤ s.len) →
      ((a.run grow s h).1.getD b []).take n = (h.getD b []).take n) := by
  have r := run_spec grow s a h hok v
  exact ⟨r.vals, r.pres.read_self v.1, r.pres.keep⟩

/-- additional facts of a disciplined run: the heap only grows, no backing array changes its number of
    slots, the parameter stays valid, every stored slice lives in an array allocated DURING the run
    (so it shares nothing with the caller), and any slice `t` of the old heap that is not on the
    parameter's array, or is a prefix of the parameter, reads the same afterwards -/
theorem refinement_extra (grow : Nat → Nat) (prog : List Act) (hok : Act.okL prog = true)
    (h : Heap) (s : Slice) (v : s.valid h) :
    h.length ≤ (Act.runL grow s prog h).1.length ∧
    (∀ a, a < h.length → ((Act.runL grow s prog h).1.getD a []).length = (h.getD a []).length) ∧
    s.valid (Act.runL grow s prog h).1 ∧
    (∀ t ∈ (Act.runL grow s prog h).2, h.length ≤ t.arr ∧ t.arr < (Act.runL grow s prog h).1.length) ∧
    (∀ t : Slice, t.arr < h.length → (t.arr ≠ s.arr ∨ t.len ≤ s.len) →
      read (Act.runL grow s prog h).1 t = read h t) := by
  have r := runL_spec grow s prog h hok v
  exact ⟨r.pres.len, r.pres.alen, r.pres.valid v, r.new, fun t ht hn => r.pres.keep t.arr t.len ht hn⟩

/-- the evaluation lemma in plain form (for one safe expression) -/
theorem eval_safe (grow : Nat → Nat) (s : Slice) (e : PExpr) (h : Heap)
    (hs : e.safe = true) (v : s.valid h) :
    (e.eval grow s h).2.valid (e.eval grow s h).1 ∧
    read (e.eval grow s h).1 (e.eval grow s h).2 = e.val (read h s) ∧
    h.length ≤ (e.eval grow s h).1.length ∧
    (∀ a n, a < h.length → (a ≠ s.arr ∨ n ≤ s.len) →
      ((e.eval grow s h).1.getD a []).take n = (h.getD a []).take n) ∧
    (e.fresh = true → h.length ≤ (e.eval grow s h).2.arr) := by
  have r := eval_spec grow s e h hs v
  exact ⟨r.valid, r.val, r.pres.len, r.pres.keep, r.fresh⟩

/-! ### target 3: the symbolic layer -/

theorem fresh_shape (e : PExpr) : e.fresh = e.shape.fresh := by
  induction e with
  | param => rfl
  | append e x ih => simpa [PExpr.fresh, PExpr.shape, SExpr.fresh] using ih
  | clone e ih => rfl
  | drop e ih => simpa [PExpr.fresh, PExpr.shape, SExpr.fresh] using ih

theorem safe_shape (e : PExpr) : e.safe = e.shape.safe := by
  induction e with
  | param => rfl
  | append e x ih => simpa [PExpr.safe, PExpr.shape, SExpr.safe] using ih
  | clone e ih => simpa [PExpr.safe, PExpr.shape, SExpr.safe] using ih
  | drop e ih => simp [PExpr.safe, PExpr.shape, SExpr.safe, ih, fresh_shape]

theorem store_ok_of_shape (e : PExpr) : (Act.store e).ok = siteOk .store e.shape := by
  simp [Act.ok, siteOk, fresh_shape, safe_shape]

theorem write_ok_of_shape (e : PExpr) (i : Nat) (x : PathElem) :
    (Act.write e i x).ok = siteOk .write e.shape := by
  simp [Act.ok, siteOk, fresh_shape, safe_shape]

theorem call_ok_of_shape (e : PExpr) (body : List Act) :
    (Act.call e body).ok = (siteOk .call e.shape && Act.okL body) := by
  simp [Act.ok, siteOk, safe_shape]

mutual
/-- the sites of a program: kind and shape of every path expression in it -/
def Act.sites : Act → List (SiteKind × SExpr)
  | .store e => [(.store, e.shape)]
  | .call e body => (.call, e.shape) :: Act.sitesL body
  | .write e _ _ => [(.write, e.shape)]
def Act.sitesL : List Act → List (SiteKind × SExpr)
  | [] => []
  | a :: r => a.sites ++ Act.sitesL r
end

mutual
theorem ok_eq_all_sites (a : Act) : a.ok = a.sites.all (fun p => siteOk p.1 p.2) := by
  cases a with
  | store e => simp [Act.sites, store_ok_of_shape]
  | call e body => simp [Act.sites, call_ok_of_shape, okL_eq_all_sites body]
  | write e i x => simp [Act.sites, write_ok_of_shape]
theorem okL_eq_all_sites (l : List Act) : Act.okL l = (Act.sitesL l).all (fun p => siteOk p.1 p.2) := by
  cases l with
  | nil => simp [Act.okL, Act.sitesL]
  | cons a r => simp [Act.okL, Act.sitesL, List.all_append, ok_eq_all_sites a, okL_eq_all_sites r]
end

/-- a program all of whose sites occur in a table of checked sites obeys the discipline -/
theorem okL_of_table (table : List (SiteKind × SExpr))
    (htab : table.all (fun p => siteOk p.1 p.2) = true) (prog : List Act)
    (hsub : ∀ p ∈ Act.sitesL prog, p ∈ table) : Act.okL prog = true := by
  rw [okL_eq_all_sites, List.all_eq_true]
  intro p hp
  exact List.all_eq_true.mp htab p (hsub p hp)

/-- the refinement theorem from a check on the table of source sites -/
theorem refinement_of_table (table : List (SiteKind × SExpr))
    (htab : table.all (fun p => siteOk p.1 p.2) = true) (grow : Nat → Nat) (prog : List Act)
    (hsub : ∀ p ∈ Act.sitesL prog, p ∈ table) (h : Heap) (s : Slice) (v : s.valid h) :
    (Act.runL grow s prog h).2.map (read (Act.runL grow s prog h).1) = Act.valsL (read h s) prog ∧
    read (Act.runL grow s prog h).1 s = read h s ∧
    (∀ a n, a < h.length → (a ≠ s.arr ∨ n ≤ s.len) →
      ((Act.runL grow s prog h).1.getD a []).take n = (h.getD a []).take n) :=
  refinement grow prog (okL_of_table table htab prog hsub) h s v


/-! ### target 2: counter-witnesses (closed terms; `growDouble`; empty heap, empty parameter) -/

namespace Witness

/-- the start state: one empty backing array, the empty slice on it -/
def h0 : Heap := [[]]
def s0 : Slice := ⟨0, 0, 0⟩

theorem s0_valid : s0.valid h0 := by decide

def k1 : PathElem := .key "a"
def k2 : PathElem := .key "b"
def k3 : PathElem := .key "c"
def xa : PathElem := .idx 0
def xb : PathElem := .idx 1

/-- three nested calls `f(append(path, k))`, the innermost body is `inner` -/
def nest3 (inner : List Act) : List Act :=
  [.call (.append .param k1) [.call (.append .param k2) [.call (.append .param k3) inner]]]

/-- (i) two siblings at depth 3 store `append(path, _)` WITHOUT a copy -/
def progAlias : List Act := nest3 [.store (.append .param xa), .store (.append .param xb)]
/-- (i) the same with `append(path, _).clone()` -/
def progCloned : List Act :=
  nest3 [.store (.clone (.append .param xa)), .store (.clone (.append .param xb))]

theorem progAlias_not_ok : Act.okL progAlias = false := by decide
theorem progCloned_ok : Act.okL progCloned = true := by decide

/-- the functional model: two DIFFERENT paths -/
theorem progAlias_vals :
    Act.valsL (read h0 s0) progAlias = [[k1, k2, k3, xa], [k1, k2, k3, xb]] := by
  rfl

/-- the heap run: both stored slices are the same slice of the same array and read the SECOND path -/
theorem progAlias_run :
    (Act.runL growDouble s0 progAlias h0).2 = [⟨3, 4, 4⟩, ⟨3, 4, 4⟩] ∧
    (Act.runL growDouble s0 progAlias h0).2.map (read (Act.runL growDouble s0 progAlias h0).1)
      = [[k1, k2, k3, xb], [k1, k2, k3, xb]] := by
  constructor <;> rfl

/-- (i) clause (a) of the refinement theorem is FALSE for a `store` of a non-fresh expression -/
theorem store_nonfresh_aliases :
    (Act.runL growDouble s0 progAlias h0).2.map (read (Act.runL growDouble s0 progAlias h0).1)
      ≠ Act.valsL (read h0 s0) progAlias := by
  rw [progAlias_run.2, progAlias_vals]
  simp [xa, xb]

/-- (i) with the copy the run agrees with the functional model (an instance of `refinement`, here
    by evaluation) -/
theorem progCloned_run :
    (Act.runL growDouble s0 progCloned h0).2.map (read (Act.runL growDouble s0 progCloned h0).1)
      = [[k1, k2, k3, xa], [k1, k2, k3, xb]] ∧
    Act.valsL (read h0 s0) progCloned = [[k1, k2, k3, xa], [k1, k2, k3, xb]] := by
  constructor <;> rfl


/-- the state inside the first call `f(append(path, k1))` from the start state: the callee's parameter
    is the slice `s1 = [k1]` on array 1 -/
def h1 : Heap := ((PExpr.append .param k1).eval growDouble s0 h0).1
def s1 : Slice := ((PExpr.append .param k1).eval growDouble s0 h0).2

theorem h1_s1 : h1 = [[], [k1]] ∧ s1 = ⟨1, 1, 1⟩ ∧ s1.valid h1 ∧ read h1 s1 = [k1] := by
  refine ⟨rfl, rfl, by decide, rfl⟩

/-- (ii) `callee(append(path.drop(), x))`: an expression that is NOT `safe` -/
def progDrop : List Act := [.call (.append (.drop .param) xa) []]

theorem progDrop_not_ok : Act.okL progDrop = false := by decide

/-- (ii) clause (b) is FALSE for a non-safe expression: the frame's own parameter `[k1]` reads `[xa]`
    afterwards (nothing is stored, nothing is assigned: the evaluation of the argument alone does it) -/
theorem notsafe_changes_param :
    read (Act.runL growDouble s1 progDrop h1).1 s1 = [xa] ∧ read h1 s1 = [k1] ∧
    read (Act.runL growDouble s1 progDrop h1).1 s1 ≠ read h1 s1 := by
  refine ⟨rfl, rfl, ?_⟩
  show [xa] ≠ [k1]
  simp [xa, k1]

/-- (ii) the same from the start state, observable in the result: the frame stores a COPY of its
    parameter after the call; the functional model says `[k1]`, the heap run stores `[xa]` -/
def progDropTop : List Act :=
  [.call (.append .param k1) [.call (.append (.drop .param) xa) [], .store (.clone .param)]]

theorem notsafe_changes_param_top :
    (Act.runL growDouble s0 progDropTop h0).2.map (read (Act.runL growDouble s0 progDropTop h0).1)
      = [[xa]] ∧
    Act.valsL (read h0 s0) progDropTop = [[k1]] ∧
    (Act.runL growDouble s0 progDropTop h0).2.map (read (Act.runL growDouble s0 progDropTop h0).1)
      ≠ Act.valsL (read h0 s0) progDropTop := by
  refine ⟨rfl, rfl, ?_⟩
  show [[xa]] ≠ [[k1]]
  simp [xa, k1]

/-- (ii') `fresh` alone is not enough for `store`: `append(path.drop(), x).clone()` is a copy, but its
    evaluation has already overwritten the last element of the parameter -/
def progDropClone : List Act := [.store (.clone (.append (.drop .param) xa))]

theorem progDropClone_fresh_not_safe :
    (PExpr.clone (.append (.drop .param) xa)).fresh = true ∧
    (PExpr.clone (.append (.drop .param) xa)).safe = false := by decide

theorem fresh_notsafe_changes_param :
    read (Act.runL growDouble s1 progDropClone h1).1 s1 ≠ read h1 s1 := by
  show [xa] ≠ [k1]
  simp [xa, k1]

/-- (iii) `q := path; q[0] = x`: a `write` through a non-fresh expression -/
def progWrite : List Act := [.write .param 0 xa]

theorem progWrite_not_ok : Act.okL progWrite = false := by decide

/-- (iii) clause (b) is FALSE: the parameter (the caller's data) is changed -/
theorem write_nonfresh_changes_param :
    read (Act.runL growDouble s1 progWrite h1).1 s1 = [xa] ∧
    read (Act.runL growDouble s1 progWrite h1).1 s1 ≠ read h1 s1 := by
  refine ⟨rfl, ?_⟩
  show [xa] ≠ [k1]
  simp [xa, k1]

/-- the state at depth 3 (parameter `[k1,k2,k3]` on array 3 with capacity 4) -/
def e3 : PExpr := .append (.append (.append .param k1) k2) k3
def h3 : Heap := (e3.eval growDouble s0 h0).1
def s3 : Slice := (e3.eval growDouble s0 h0).2

theorem h3_s3 : s3 = ⟨3, 3, 4⟩ ∧ s3.valid h3 ∧ read h3 s3 = [k1, k2, k3] := by
  refine ⟨rfl, by decide, rfl⟩

/-- (iii) a CALLEE writes through its (non-fresh) parameter; the callee's parameter
    `append(path, xa)` is the caller's array grown in place, so the caller's own path is changed -/
def progWriteCallee : List Act := [.call (.append .param xa) [.write .param 0 xb]]

theorem callee_write_changes_caller :
    read (Act.runL growDouble s3 progWriteCallee h3).1 s3 = [xb, k2, k3] ∧
    read (Act.runL growDouble s3 progWriteCallee h3).1 s3 ≠ read h3 s3 := by
  refine ⟨rfl, ?_⟩
  show [xb, k2, k3] ≠ [k1, k2, k3]
  simp [xb, k1]

/-- (iii) from the start state, observable in the result -/
def progWriteTop : List Act :=
  [.call (.append .param k1) [.write .param 0 xa, .store (.clone .param)]]

theorem write_nonfresh_top :
    (Act.runL growDouble s0 progWriteTop h0).2.map (read (Act.runL growDouble s0 progWriteTop h0).1)
      = [[xa]] ∧
    Act.valsL (read h0 s0) progWriteTop = [[k1]] := by
  constructor <;> rfl

/-- (iii) the same edit on a copy (`q := path.clone(); q[0] = x`) is fine (instance of `refinement`) -/
def progWriteClone : List Act :=
  [.call (.append .param k1) [.write (.clone .param) 0 xa, .store (.clone .param)]]

theorem progWriteClone_ok : Act.okL progWriteClone = true := by decide

theorem write_clone_top :
    (Act.runL growDouble s0 progWriteClone h0).2.map
      (read (Act.runL growDouble s0 progWriteClone h0).1) = [[k1]] := by
  rfl

/-- the hypothesis `s.valid h` is necessary: a "slice" whose capacity exceeds its backing array
    (impossible in Go) makes `append` write into a slot that does not exist; the disciplined program
    `store(append(path, k1).clone())` then stores `[]` where the functional model says `[k1]` -/
def sBad : Slice := ⟨0, 0, 1⟩
def progOne : List Act := [.store (.clone (.append .param k1))]

theorem valid_needed :
    Act.okL progOne = true ∧ ¬ sBad.valid h0 ∧
    (Act.runL growDouble sBad progOne h0).2.map (read (Act.runL growDouble sBad progOne h0).1)
      = [[]] ∧
    Act.valsL (read h0 sBad) progOne = [[k1]] := by
  refine ⟨by decide, by decide, rfl, rfl⟩

/-- non-vacuity: a non-trivial program (nested calls, stores of copies, an in-place edit of a copy,
    `drop` then `append` on a copy) satisfies the discipline, from a valid non-empty parameter with
    spare capacity; and `refinement` applies to it -/
def progBig : List Act :=
  [ .store (.clone (.append .param xa)),
    .call (.append .param xa)
      [ .store (.clone .param),
        .write (.append (.drop (.clone .param)) xb) 3 k1,
        .call (.clone (.append .param k2)) [.store (.append (.drop (.clone .param)) xb)],
        .store (.append (.clone .param) k3) ],
    .store (.append (.drop (.clone (.append .param xb))) k1) ]

example : Act.okL progBig = true ∧ s3.valid h3 := by
  constructor <;> decide

example :
    (Act.runL growDouble s3 progBig h3).2.map (read (Act.runL growDouble s3 progBig h3).1)
      = Act.valsL (read h3 s3) progBig :=
  (refinement growDouble progBig (by decide) h3 s3 h3_s3.2.1).1

theorem progBig_vals :
    Act.valsL (read h3 s3) progBig =
      [[k1, k2, k3, xa], [k1, k2, k3, xa], [k1, k2, k3, xa, xb], [k1, k2, k3, xa, k3],
       [k1, k2, k3, k1]] := by
  rfl

end Witness

end Jd.PathHeap
