/-
  JdProofs.V1PrecisionKeys — property C17 (v1 API `lib/`), `SetPrecision(eps)` (eps ≠ 0 allowed)
  COMBINED with the readings that had no theorem with a precision. Namespace `Jd.V1PK`.
  Neighbours: V1Precision (list reading), V1PrecisionModes (SET, MULTISET), V1PrecisionMerge (MERGE,
  list reading), V1KeysDiffPatchA–F (SET/MULTISET + MERGE, + setkeys, all at precision 0).

  PART 1 — list reading + Setkeys + precision (B1). NOTHING NEW IS NEEDED: `V1Pr.ListReading` /
    `V1Pr.PrecMode` never excluded a setkeys metadata (alone it leaves arrays lists in v1, and the
    list diff / `Equals` never look at it). `list_setkeys_*` are the instances for
    `[Setkeys ks, SetPrecision eps]`; `setkeys_inert_equals` / `setkeys_inert_diff`: in the list
    reading `Equals` and `Diff` under `m` are `Equals` and `Diff` under `[SetPrecision (precOf m)]`.
    MERGE + Setkeys + precision in the list reading is `V1PM.PMergeMode` (setkeys allowed) already.

  PART 2 — SET + Setkeys + precision (B2): the full-strength statement is FALSE, both clauses.
    `Witness.setkeys_precision_breaks`: `[{"id":"1","v":1}]` → `[{"id":"1","v":1.05}]` under
    `SET, Setkeys(id), SetPrecision(0.1)`: the two members have the same identity (the hash of the
    key value), `jsonSet.diff` sub-diffs them with `jsonObject.diff`, which compares the numbers
    under `v` WITH the precision: the diff is EMPTY. `jsonSet.Equals` compares full hash codes,
    which ignore the precision: `Equals` is FALSE. So "diff empty ⇒ Equals" fails and the patched
    document (= `a`) does not `Equals` `b`. Relative to the float fact `|1 - 1.05| ≤ 0.1`
    (`numWithin` is opaque to the kernel); the `Equals` part is a kernel computation. Replayed on
    /repo/lib (gocheck/c17: `diff(len 0)="" Equals(a,b,md)=false`). Without the precision the
    same pair gives the hunk `[["set","setkeys=id"],{"id":"1"},"v"] - 1 + 1.05` (`Witness.w_noPrec`).
    The known fact "inside arrays read as sets the precision is ignored by Diff and Equals alike"
    holds WITHOUT setkeys only (there same identity = same hash code).

  PART 3 — SET + MERGE and MULTISET + MERGE with a precision (B3), in memory, diff empty ⇔ Equals,
    and through the text. `PMMode m o`: MERGE present, SET or MULTISET, no setkeys,
    `nonnegBits (V1.precOf m)`; `PSetMergeMode m` / `PMsetMergeMode m`: the same as the caller writes
    the metadata (decidable).
      `v1_merge_diff_patch_setmodes_precision` : ∃ r, patchM a (diffM m a b) = .ok r ∧ equals m r b
      `v1_merge_diff_empty_iff_equals_setmodes_precision` : diffM m a b = [] ↔ equals m a b
      `v1_text_roundtrip_merge_setmodes_precision` : ∃ d' r, readDiffM nc text = .ok d' ∧
            patchM a d' = .ok r ∧ equals m r b
    hypotheses: those of `V1K.v1_merge_diff_patch_setmodes` (`a b : setDoc`, `memOK b`,
    `V1S.HashFaithful m o (subterms a ++ subterms b)`, `FloatEq0`, `FloatLaws`) with "precision 0"
    replaced by `precNN`; `b` MAY hold nulls. No `equivB` conclusion (see
    `V1PS.Witness.precision_ignored_inside_sets`).
    METHOD: `PKit m S SB` — the three facts the merge-strategy proofs use about the metadata
    (SET or MULTISET; `Equal` arrays have an EMPTY merge diff; reflexivity) — and `pkit_eq_ds1`,
    `pkit_memSound`, `pkit_main`, `pkit_text`: the inductions of V1KeysDiffPatchA/F (`diffNode_eq_ds1`,
    `memSound1`, `kit_main`, `kit_text`) re-run for the relation "`Equals` under `m`" (`E m`,
    `obj_stepE`); the pure diff `V1K.ds1` is already parametric in the precision. The kit of the
    set readings (`pkit_of_pmode`) comes from `diffNode_merge_nil_of_equivB0` (port of
    `V1K.diffNode_merge_nil_of_equivB`: equivalent at precision 0 ⇒ empty merge diff at eps) and
    the V1PrecisionModes lemmas (`equals_arrRaw_congr`, `diffNode_nil_of_equivB0`, `equals_refl_ok`).
    `ds1_nil_of_equals` (pure, no float law) gives "Equals ⇒ diff empty".

  PART 4 — MULTISET + Setkeys + precision (strict strategy), in memory and diff empty ⇔ Equals
    (`PXMsMode m`: MULTISET, no SET, no MERGE, set keys allowed, `nonnegBits (V1.precOf m)`):
      `v1_diff_patch_mset_setkeys_precision`, `v1_diff_empty_iff_equals_mset_setkeys_precision`
    hypotheses exactly those of `V1PS.v1_diff_patch_mset_precision`. With MULTISET the members are
    compared by hash code, never by identity, so the witness of Part 2 does not arise.
    METHOD: `node_stepG` / `nil_of_equalsG`: the inductions `V1PS.node_stepE` /
    `V1PS.diffNode_nil_of_equals` with the case of two arrays as a PARAMETER (and separate sub-term
    sets `SA`, `SB` for the two documents) (so any reading of
    arrays can be plugged in); the array case is transferred from `V1K.mset_stepX` /
    `V1K.diffNode_nil_of_equivB_X` at `noPrec m` by `diffNode_mset_noPrec` (no sub-diffs under
    MULTISET) and `V1PS.equals_arrRaw_congr`.

  PART 5 — SET + Setkeys + precision under the hypothesis that excludes the witness of Part 2:
    `arrSep eps a b : Bool` — for every array of `a` and every array of `b`, each number below the
    first is within eps of a number below the second only when it is within 0 of it (numbers outside
    arrays are free: there Diff and Equals both honour the precision). `PKMode m ks`: SET, set keys
    `ks ≠ []`, no MERGE, `nonnegBits (V1.precOf m)`. Other hypotheses: those of
    `V1K.v1_diff_patch_setkeys`, with `V1K.KeysHyp` read at `noPrec m` (hash codes and identities do
    not see the precision: `identOf_noPrecK`).
      `v1_diff_patch_setkeys_precision` : ∃ r, patchM a (diffM m a b) = .ok r ∧ equals m r b
      `v1_diff_empty_iff_equals_setkeys_precision` : diffM m a b = [] ↔ equals m a b
    METHOD: `diffNode_inert` (restricted congruence: under SET, on `DocOk` documents whose numbers
    are separated — `SepN` —, `V1.diffNode m false a b p = V1.diffNode (noPrec m) false a b p`;
    `dse_inert`, `equals_scalar_inert`), then `arr_stepKP`: the array step of `node_stepG` is
    `V1K.node_stepK` at `noPrec m` (`Equals` against a plain array compares hash codes:
    `V1PS.equals_arrRaw_congr`); `nil_of_equalsG` with `V1K.diffNode_nil_of_equivB_K`.
    `ExampleK`: `{"k":1,"s":[{"id":"1","v":1},{"id":"2","v":3}]}` → `{"k":1.05,"s":[{"id":"1","v":3},
    {"id":"3","v":1}]}`, eps 0.1 (all hypotheses, relative to `FloatLaws` and the float facts
    `|1 - 3| ≤ 0.1`, `≤ 0` both false); `witness_not_sep`: the witness of Part 2 violates `arrSep`.

  NOT PROVED: SET + Setkeys + precision and MULTISET + Setkeys + precision THROUGH THE TEXT (the
  in-memory theorems are there; the `Shape` induction was not re-run); MERGE over SET/MULTISET +
  Setkeys with a precision (`diffNode_inert` is stated for the strict strategy only; nothing found
  false: `#eval` and Go agree on the runs of gocheck/c17).
-/
import JdModel
import JdSpec
import JdProofs.V1KeysDiffPatchF
import JdProofs.V1PrecisionModes

namespace Jd.V1PK
open Jd Jd.Spec Jd.Merge
open Jd.SetDP (Ok Within)
open Jd.V1K (ds1 ds1Kvs strip strip_metaEq strip_noMerge MetaEq)
open Jd.V1PS (noPrec PMode)

/-! # Part 1. list reading + Setkeys + precision -/

/-- `[Setkeys ks, SetPrecision eps]` is in the domain of the list-reading theorems of V1Precision -/
theorem listReading_setkeys (ks : List String) (eps : UInt64) :
    V1Pr.ListReading [.setkeys ks, .prec eps] := ⟨rfl, rfl, rfl⟩

theorem precMode_setkeys (ks : List String) (eps : UInt64) (h : nonnegBits eps = true) :
    V1Pr.PrecMode [.setkeys ks, .prec eps] := ⟨rfl, rfl, rfl, h⟩

/-- in the list reading `Equals` does not see the set keys (nor anything but the precision) -/
theorem setkeys_inert_equals {m : V1.Metas} (hm : V1Pr.ListReading m) :
    V1.equals m = V1.equals [.prec (V1.precOf m)] := by
  funext a b
  exact V1S.equals_congr (m := m) (m' := [.prec (V1.precOf m)]) (by rw [hm.tag]; rfl) rfl a b

/-- **list reading + Setkeys + precision, in memory** (instance of
    `V1Pr.v1_diff_patch_list_precision`) -/
theorem list_setkeys_diff_patch (L : FloatLaws) {N : Nat} (I : V1P.IdxLaws N) (ks : List String)
    (eps : UInt64) (he : nonnegBits eps = true) (a b : Json)
    (ha1 : a.listDoc = true) (ha2 : a.wf = true) (ha3 : a.finiteNums = true)
    (ha4 : V1P.vfree a = true) (ha5 : V1P.lenLe N a = true)
    (hb1 : b.listDoc = true) (hb2 : b.wf = true) (hb3 : b.finiteNums = true)
    (hb4 : V1P.vfree b = true) :
    ∃ r, V1.patchM a (V1.diffM [.setkeys ks, .prec eps] a b) = .ok r ∧
      V1.equals [.setkeys ks, .prec eps] r b = true ∧
      V1.equals [.setkeys ks, .prec eps] b r = true ∧
      equivB [.prec eps] r b = true ∧ r.listDoc = true ∧ r.wf = true :=
  V1Pr.v1_diff_patch_list_precision L I _ (precMode_setkeys ks eps he) a b ha1 ha2 ha3 ha4 ha5
    hb1 hb2 hb3 hb4

/-- **list reading + Setkeys + precision: diff empty ⇔ Equals**, for ANY precision bit pattern -/
theorem list_setkeys_diff_empty_iff_equals (ks : List String) (eps : UInt64) (a b : Json)
    (ha1 : a.rawDoc = true) (ha2 : a.wf = true) (hb1 : b.listDoc = true) (hb2 : b.wf = true) :
    V1.diffM [.setkeys ks, .prec eps] a b = [] ↔
      V1.equals [.setkeys ks, .prec eps] a b = true :=
  V1Pr.v1_diff_empty_iff_equals_precision _ (listReading_setkeys ks eps) a b ha1 ha2 hb1 hb2

/-- **list reading + Setkeys + precision, through the text** -/
theorem list_setkeys_text_roundtrip (L : FloatLaws) {N : Nat} (I : V1P.IdxLaws N) (nc : NumCodec)
    (ks : List String) (eps : UInt64) (he : nonnegBits eps = true) (a b : Json)
    (ha1 : a.listDoc = true) (ha2 : a.wf = true) (ha3 : a.finiteNums = true)
    (ha4 : V1P.vfree a = true) (ha5 : V1P.lenLe N a = true)
    (hb1 : b.listDoc = true) (hb2 : b.wf = true) (hb3 : b.finiteNums = true)
    (hb4 : V1P.vfree b = true) (hbv : b.isVoid = false)
    (hc : V1S.CodecOK nc (V1.diffM [.setkeys ks, .prec eps] a b)) (text : String)
    (hr : V1.renderM nc false (V1.liftDiff (V1.diffM [.setkeys ks, .prec eps] a b))
      = .ok (some text)) :
    ∃ d' r, V1.readDiffM nc text = .ok d' ∧ V1.patchM a d' = .ok r ∧
      V1.equals [.setkeys ks, .prec eps] r b = true ∧ equivB [.prec eps] r b = true :=
  V1Pr.v1_text_roundtrip_list_precision L I nc _ (precMode_setkeys ks eps he) a b ha1 ha2 ha3 ha4
    ha5 hb1 hb2 hb3 hb4 hbv hc text hr

/-! # Part 2. SET + Setkeys + precision: the full-strength statement is false -/

namespace Witness
open Jd.V1S (metaItems)

/-- `0.1` -/
def eps : UInt64 := 0x3FB999999999999A
/-- `1.0` -/
def one : UInt64 := 0x3FF0000000000000
/-- `1.05` -/
def x105 : UInt64 := 0x3FF0CCCCCCCCCCCD
/-- `SET, Setkeys("id"), SetPrecision(0.1)` -/
def mW : V1.Metas := [.set, .setkeys ["id"], .prec eps]
/-- the same without the precision -/
def mW0 : V1.Metas := [.set, .setkeys ["id"]]
abbrev wx : Json := .obj [("id", .str "1"), ("v", .num one)]
abbrev wy : Json := .obj [("id", .str "1"), ("v", .num x105)]
/-- `[{"id":"1","v":1}]` -/
def wa : Json := .arr .raw [wx]
/-- `[{"id":"1","v":1.05}]` -/
def wb : Json := .arr .raw [wy]

-- the float fact of the witness: |1 - 1.05| ≤ 0.1, not ≤ 0
#eval (numWithin eps one x105, numWithin 0 one x105)

theorem w_ident : V1.identOf mW wy = V1.identOf mW wx := by decide +kernel
theorem w_ident0 : V1.identOf mW0 wy = V1.identOf mW0 wx := by decide +kernel

/-- with the precision the diff is empty: the two members have the same identity and their sub-diff
    compares `1` and `1.05` with the precision -/
theorem w_diff (h : numWithin eps one x105 = true) : V1.diffM mW wa wb = [] := by
  unfold V1.diffM wa wb
  rw [show V1.hasMerge mW = false from rfl, V1S.diffNode_set_set (m := mW) rfl]
  rw [V1S.diffSetElems_cons, V1S.diffSetElems_nil]
  simp [w_ident, V1.identLookup, ksort, kinsert, V1S.subOf, V1S.remOf, V1S.setAdd, hdedup, hsort]
  rw [V1P.diffNode_obj_obj, V1P.diffKvs_cons, V1P.diffKvs_cons, V1P.diffKvs_nil]
  simp [alookup, V1.diffNode, V1.diffCommon, V1.equals, V1.precOf, mW, h]

/-- `Equals` compares full hash codes, which ignore the precision (kernel computation) -/
theorem w_equals : V1.equals mW wa wb = false := by decide +kernel

/-- **SET + Setkeys + precision: both clauses of C17 fail.** `h`: `|1 - 1.05| ≤ 0.1`. The diff of
    `[{"id":"1","v":1}]` and `[{"id":"1","v":1.05}]` is EMPTY although `Equals` is false, and the
    patched document (the source) does not `Equals` the target. -/
theorem setkeys_precision_breaks (h : numWithin eps one x105 = true) :
    wa.setDoc = true ∧ wb.setDoc = true ∧ DPL.memOK wa = true ∧ DPL.memOK wb = true ∧
    V1.diffM mW wa wb = [] ∧ V1.equals mW wa wb = false ∧
    V1.patchM wa (V1.diffM mW wa wb) = .ok wa ∧
    ¬ (V1.diffM mW wa wb = [] ↔ V1.equals mW wa wb = true) ∧
    ¬ (∃ r, V1.patchM wa (V1.diffM mW wa wb) = .ok r ∧ V1.equals mW r wb = true) := by
  refine ⟨by decide, by decide, by decide, by decide, w_diff h, w_equals, by rw [w_diff h]; rfl,
    ?_, ?_⟩
  · intro e
    have := e.1 (w_diff h)
    rw [w_equals] at this
    cases this
  · rintro ⟨r, h1, h2⟩
    rw [w_diff h] at h1
    cases h1
    rw [w_equals] at h2
    cases h2

end Witness



/-! # Part 3. SET + MERGE and MULTISET + MERGE with a precision -/

/-- what the merge-strategy proofs need of the metadata `m` with a precision, on the sub-terms `S`
    (both documents) and `SB` (the second document) -/
structure PKit (m : V1.Metas) (S SB : List Json) : Prop where
  sm : V1.dispatchTag m = .set ∨ V1.dispatchTag m = .mset
  nilArr : ∀ xs ys, DocOk (.arr .raw xs) → DocOk (.arr .raw ys) → Within S (.arr .raw xs) →
    Within S (.arr .raw ys) → Within SB (.arr .raw ys) →
    V1.equals m (.arr .raw xs) (.arr .raw ys) = true →
    ∀ p, V1.diffNode m true (.arr .raw xs) (.arr .raw ys) p = []
  refl : ∀ b, Ok b → Within S b → V1.equals m b b = true

section Kit
variable {m : V1.Metas} {S SB : List Json}

/-- the library's merge diff is `ds1`, hunk by hunk (any precision) -/
theorem pkit_eq_ds1 (Kt : PKit m S SB) :
    ∀ a b, DocOk a → Ok b → Within S a → Within S b → Within SB b →
      ∀ q : List String,
        V1.diffNode m true a b (q.map Json.str)
          = (ds1 m (V1.dispatchTag m) a b).map (fun e => V1M.vh (q ++ e.1) e.2) := by
  have scalar : ∀ a b : Json, (∀ t xs, a ≠ .arr t xs) → (∀ kvs, a ≠ .obj kvs) →
      ∀ q : List String,
        V1.diffNode m true a b (q.map Json.str)
          = (ds1 m (V1.dispatchTag m) a b).map (fun e => V1M.vh (q ++ e.1) e.2) := by
    intro a b h1 h2 q
    have g1 : a.isObj = false := by cases a <;> simp_all [Json.isObj]
    have g2 : Merge.isArr a = false := by cases a <;> simp_all [Merge.isArr]
    rw [V1M.diffNode_scalar m a b h1 h2, V1K.ds1_scalar m _ g1 g2]
    split <;> simp [V1M.whole_keys]
  intro a
  induction a using jsonInd with
  | void => intro b _ _ _ _ _ q; exact scalar _ b (fun _ _ e => by cases e) (fun _ e => by cases e) q
  | null => intro b _ _ _ _ _ q; exact scalar _ b (fun _ _ e => by cases e) (fun _ e => by cases e) q
  | bool x => intro b _ _ _ _ _ q; exact scalar _ b (fun _ _ e => by cases e) (fun _ e => by cases e) q
  | num x => intro b _ _ _ _ _ q; exact scalar _ b (fun _ _ e => by cases e) (fun _ e => by cases e) q
  | str x => intro b _ _ _ _ _ q; exact scalar _ b (fun _ _ e => by cases e) (fun _ e => by cases e) q
  | arr t xs _ =>
    intro b ha hb wa wb wb' q
    have ht := ha.raw
    subst ht
    cases b with
    | arr t' ys =>
      have ht' := hb.raw
      subst ht'
      rw [V1K.ds1_arr_arr]
      cases he : V1.equals m (.arr .raw xs) (.arr .raw ys) with
      | true =>
        rw [Kt.nilArr _ _ ha hb.docOk wa wb wb' he]
        simp
      | false =>
        rw [V1K.diffNode_merge_arr_ne Kt.sm xs ys _ he]
        simp [V1M.whole_keys]
    | _ =>
      rw [V1K.diffNode_merge_arr_other Kt.sm xs _ (by simp), V1K.ds1_arr_other m _ _ xs rfl]
      simp [V1M.whole_keys]
  | obj kvs ih =>
    intro b ha hb wa wb wb' q
    cases b with
    | obj kvs' =>
      have hkv : ∀ r : List (String × Json), (∀ kv ∈ r, kv ∈ kvs) →
          V1.diffKvs m true (q.map Json.str) kvs' r
            = (ds1Kvs m (V1.dispatchTag m) kvs' r).map (fun e => V1M.vh (q ++ e.1) e.2) := by
        intro r
        induction r with
        | nil => intro _; rw [V1K.dk_nil, V1K.ds1Kvs_nil]; rfl
        | cons kv r ihr =>
          intro hsub
          obtain ⟨k, v⟩ := kv
          have hm1 : (k, v) ∈ kvs := hsub _ List.mem_cons_self
          rw [V1M.diffKvs_cons, V1K.ds1Kvs_cons, List.map_append,
            ihr (fun kv hh => hsub kv (List.mem_cons_of_mem _ hh))]
          congr 1
          cases hl : alookup k kvs' with
          | none => simp [V1M.whole_keys_snoc]
          | some v' =>
            have hm2 := mem_of_alookup hl
            have := ih k v hm1 v' (ha.val hm1) (hb.val hm2).1 (wa.val hm1) (wb.val hm2)
              (fun z hz => wb' z (subterms_val_sub hm2 hz)) (q ++ [k])
            simp only [List.map_append, List.map_cons, List.map_nil] at this
            simp only [this]
            simp [consE, Function.comp_def]
      rw [V1M.diffNode_obj_obj, V1K.ds1_obj_obj, List.map_append, hkv kvs (fun _ hh => hh),
        V1K.additions_eq1 q kvs kvs' (fun k v hm => (hb.val hm).2)]
    | _ =>
      rw [V1M.diffNode_obj_other m kvs _ (by simp), V1K.ds1_obj_other m _ kvs rfl]
      simp [V1M.whole_keys]

/-- the relation "is the target" with a precision: the library's `Equals` under the metadata -/
def E (m : V1.Metas) (x b : Json) : Prop := V1.equals m x b = true

def EOpt (m : V1.Metas) : Option Json → Option Json → Prop
  | some x, some y => E m x y
  | none, none => True
  | _, _ => False

theorem e_obj_of_lookups {R Y : List (String × Json)}
    (hR : keysSorted R = true) (hY : keysSorted Y = true)
    (h : ∀ j, EOpt m (alookup j R) (alookup j Y)) : E m (.obj R) (.obj Y) := by
  apply V1PS.obj_resultE (m := m) hR hY
  intro k
  have hk := h k
  cases h1 : alookup k R <;> cases h2 : alookup k Y <;> simp_all [EOpt, E]

theorem e_not_void {x y : Json} (h : E m x y) (hy : y.isVoid = false) : x.isVoid = false := by
  rw [V1PS.equals_isVoid h]; exact hy

open Jd.DPK (grpM groupsM)

/-- **object step** (port of `V1K.obj_step1` to the relation `E m`) -/
theorem obj_stepE (m : V1.Metas) (D : Json → Json → List (List String × Json))
    (DK : List (String × Json) → List (String × Json) → List (List String × Json))
    (kvs kvs' : List (String × Json))
    (hnil : DK kvs' [] = [])
    (hcons : ∀ k v r, DK kvs' ((k, v) :: r) =
      (match alookup k kvs' with
       | some v' => (D v v').map (consE k)
       | none => [([k], .void)]) ++ DK kvs' r)
    (hs : keysSorted kvs = true) (hs' : keysSorted kvs' = true)
    (hvoid : ∀ j v', alookup j kvs' = some v' → v'.isVoid = false)
    (hboth : ∀ j v v', alookup j kvs = some v → alookup j kvs' = some v' →
      E m (mapply (D v v') v) v')
    (honly : ∀ j v', alookup j kvs = none → alookup j kvs' = some v' → E m v' v') :
    E m (mapply (DK kvs' kvs ++
        (kvs'.filter (fun kv => (alookup kv.1 kvs).isNone)).map (fun kv => ([kv.1], kv.2)))
      (.obj kvs)) (.obj kvs') := by
  rw [DPK.DK_groups D DK kvs' hnil hcons kvs, DPK.additionsM_groups kvs kvs', ← flatG_append]
  obtain ⟨acc', he, hsa, hl⟩ := mapply_groups (groupsM D kvs' kvs ++ groupsB kvs kvs') kvs
    (by
      intro kg hm hnil' hlk
      rcases List.mem_append.1 hm with hA | hB
      · simp only [groupsM, List.mem_map] at hA
        obtain ⟨⟨k, v⟩, hkv, rfl⟩ := hA
        simp only at hnil' hlk
        have hv : alookup k kvs = some v := alookup_of_mem hs hkv
        rw [hv] at hlk
        cases hlk
        unfold grpM at hnil'
        cases hjb : alookup k kvs' with
        | none => rw [hjb] at hnil'; simp at hnil'
        | some v' =>
          rw [hjb] at hnil'
          have := hboth k .void v' hv hjb
          simp only at hnil'
          rw [hnil'] at this
          have hh := e_not_void this (hvoid k v' hjb)
          simp [mapply, Json.isVoid] at hh
      · simp only [groupsB, List.mem_map] at hB
        obtain ⟨kv, _, rfl⟩ := hB
        simp at hnil')
    (DPK.groupsM_nodup D [] hs hs') hs
  rw [he]
  refine e_obj_of_lookups hsa hs' (fun j => ?_)
  rw [hl j, DPK.groupsM_lookup]
  cases hja : alookup j kvs with
  | some v =>
    simp only [grpM]
    cases hjb : alookup j kvs' with
    | some v' =>
      have R := hboth j v v' hja hjb
      have hnv := e_not_void R (hvoid j v' hjb)
      simp only [getK, hja, Option.getD_some, toOpt, hnv, Bool.false_eq_true, if_false]
      exact R
    | none =>
      simp [mapply, mset, toOpt, Json.isVoid, EOpt]
  | none =>
    cases hjb : alookup j kvs' with
    | none => simp [EOpt]
    | some v' =>
      simp only [Option.map_some, mapply, List.foldl_cons, List.foldl_nil, mset, toOpt,
        hvoid j v' hjb, Bool.false_eq_true, if_false]
      exact honly j v' hja hjb

theorem pkit_typed_arr (Kt : PKit m S SB) {τ : Tag}
    (hτ : τ = .raw ∨ τ = V1.dispatchTag m) {ys : List Json} (hb : Ok (.arr .raw ys))
    (wb : Within S (.arr .raw ys)) : E m (.arr τ ys) (.arr .raw ys) := by
  have e1 := Kt.refl _ hb wb
  rcases hτ with rfl | rfl
  · exact e1
  · unfold E
    rcases Kt.sm with hd | hd <;> rw [hd] <;> simp [V1.equals, V1.effTag, V1.dispatch, hd]

theorem pkit_memSound (Kt : PKit m S SB) {τ : Tag}
    (hτ : τ = .raw ∨ τ = V1.dispatchTag m) :
    ∀ a, DocOk a → Within S a → ∀ b, Ok b → Within S b →
      E m (mapply (ds1 m τ a b) a) b := by
  have scalar : ∀ a b : Json, (∀ t xs, a ≠ .arr t xs) → (∀ kvs, a ≠ .obj kvs) → Ok b →
      Within S b → E m (mapply (ds1 m τ a b) a) b := by
    intro a b h1 h2 hb wb
    have g1 : a.isObj = false := by cases a <;> simp_all [Json.isObj]
    have g2 : Merge.isArr a = false := by cases a <;> simp_all [Merge.isArr]
    rw [V1K.ds1_scalar m τ g1 g2]
    cases he : V1.equals m a b with
    | true =>
      simp only [if_true, mapply, List.foldl_nil]
      exact he
    | false => simpa [mapply, mset, E] using Kt.refl b hb wb
  intro a
  induction a using jsonInd with
  | void => intro _ _ b hb wb; exact scalar _ b (fun _ _ e => by cases e) (fun _ e => by cases e) hb wb
  | null => intro _ _ b hb wb; exact scalar _ b (fun _ _ e => by cases e) (fun _ e => by cases e) hb wb
  | bool x => intro _ _ b hb wb; exact scalar _ b (fun _ _ e => by cases e) (fun _ e => by cases e) hb wb
  | num x => intro _ _ b hb wb; exact scalar _ b (fun _ _ e => by cases e) (fun _ e => by cases e) hb wb
  | str x => intro _ _ b hb wb; exact scalar _ b (fun _ _ e => by cases e) (fun _ e => by cases e) hb wb
  | arr t xs _ =>
    intro ha wa b hb wb
    have ht := ha.raw
    subst ht
    cases b with
    | arr t' ys =>
      have ht' := hb.raw
      subst ht'
      rw [V1K.ds1_arr_arr]
      cases he : V1.equals m (.arr .raw xs) (.arr .raw ys) with
      | true =>
        simp only [if_true, mapply, List.foldl_nil]
        exact he
      | false =>
        simp only [Bool.false_eq_true, if_false, mapply, List.foldl_cons, List.foldl_nil, mset]
        exact pkit_typed_arr Kt hτ hb wb
    | _ =>
      rw [V1K.ds1_arr_other m τ _ xs rfl]
      simpa [mapply, mset, E] using Kt.refl _ hb wb
  | obj kvs ih =>
    intro ha wa b hb wb
    cases b with
    | obj kvs' =>
      rw [V1K.ds1_obj_obj]
      refine obj_stepE m (ds1 m τ) (ds1Kvs m τ) kvs kvs' (V1K.ds1Kvs_nil m τ kvs')
        (V1K.ds1Kvs_cons m τ kvs') ha.sorted hb.sorted (fun j v' hj => (hb.lookup hj).2) ?_ ?_
      · intro j v v' hja hjb
        have hm1 := mem_of_alookup hja
        have hm2 := mem_of_alookup hjb
        exact ih j v hm1 (ha.val hm1) (wa.val hm1) v' (hb.val hm2).1 (wb.val hm2)
      · intro j v' _ hjb
        have hm2 := mem_of_alookup hjb
        exact Kt.refl _ (hb.val hm2).1 (wb.val hm2)
    | _ =>
      rw [V1K.ds1_obj_other m τ kvs rfl]
      simpa [mapply, mset, E] using Kt.refl _ hb wb

/-- `Equals` under the metadata ⇒ the pure merge diff is empty (no float law) -/
theorem ds1_nil_of_equals (hsm : V1.dispatchTag m = .set ∨ V1.dispatchTag m = .mset) (τ : Tag) :
    ∀ a b, DocOk a → DocOk b → V1.equals m a b = true → ds1 m τ a b = [] := by
  have scalar : ∀ a b : Json, (∀ t xs, a ≠ .arr t xs) → (∀ kvs, a ≠ .obj kvs) →
      V1.equals m a b = true → ds1 m τ a b = [] := by
    intro a b h1 h2 he
    have g1 : a.isObj = false := by cases a <;> simp_all [Json.isObj]
    have g2 : Merge.isArr a = false := by cases a <;> simp_all [Merge.isArr]
    rw [V1K.ds1_scalar m τ g1 g2, he]; rfl
  intro a
  induction a using jsonInd with
  | void => intro b _ _ h; exact scalar _ b (fun _ _ e => by cases e) (fun _ e => by cases e) h
  | null => intro b _ _ h; exact scalar _ b (fun _ _ e => by cases e) (fun _ e => by cases e) h
  | bool x => intro b _ _ h; exact scalar _ b (fun _ _ e => by cases e) (fun _ e => by cases e) h
  | num x => intro b _ _ h; exact scalar _ b (fun _ _ e => by cases e) (fun _ e => by cases e) h
  | str x => intro b _ _ h; exact scalar _ b (fun _ _ e => by cases e) (fun _ e => by cases e) h
  | arr t xs _ =>
    intro b ha hb h
    have ht := ha.raw
    subst ht
    cases b with
    | arr t' ys =>
      have ht' := hb.raw
      subst ht'
      rw [V1K.ds1_arr_arr, h]; rfl
    | _ =>
      exfalso
      rw [V1.equals.eq_def] at h
      rcases hsm with hd | hd <;> simp [V1.effTag, V1.dispatch, hd] at h
  | obj kvs ih =>
    intro b ha hb h
    cases b with
    | obj kvs' =>
      have hs := ha.sorted
      have hs' := hb.sorted
      simp only [V1.equals, Bool.and_eq_true, beq_iff_eq, V1S.equalsKvs_eq_lookAll, lookAll_iff] at h
      have hflip := AllLook.flip hs hs' h.1 h.2
      have hkv : ∀ r : List (String × Json), (∀ kv ∈ r, kv ∈ kvs) → ds1Kvs m τ kvs' r = [] := by
        intro r
        induction r with
        | nil => intro _; exact V1K.ds1Kvs_nil m τ kvs'
        | cons kv r ihr =>
          intro hsub
          obtain ⟨k, v⟩ := kv
          have hm1 : (k, v) ∈ kvs := hsub _ List.mem_cons_self
          obtain ⟨v', hl, he⟩ := h.2 k v hm1
          have hm2 := mem_of_alookup hl
          rw [V1K.ds1Kvs_cons, ihr (fun kv hh => hsub kv (List.mem_cons_of_mem _ hh)), hl]
          simp only [List.append_nil]
          rw [ih k v hm1 v' (ha.val hm1) (hb.val hm2) he]
          rfl
      rw [V1K.ds1_obj_obj, hkv kvs (fun _ hh => hh),
        filter_added_nil (kvs := kvs) (kvs' := kvs') (fun k' v' hm' => by
          obtain ⟨w, hl, _⟩ := hflip k' v' hm'
          simp [hl])]
      rfl
    | _ => simp [V1.equals] at h

end Kit

/-- `MetaEq` up to the precision: same SET / MULTISET / setkeys -/
theorem strip_equals (m : V1.Metas) : V1.equals m = V1.equals (strip m) := (strip_metaEq m).equals

/-- the results for a metadata list `m` holding MERGE, from a kit for `strip m` -/
theorem pkit_main {m : V1.Metas} (hmg : V1.hasMerge m = true) (a b : Json)
    (ha : a.setDoc = true) (hb : b.setDoc = true) (hb' : DPL.memOK b = true)
    (Kt : PKit (strip m) (subterms a ++ subterms b) (subterms b)) :
    (V1.diffM m a b = (ds1 (strip m) (V1.dispatchTag m) a b).map (fun e => V1M.vh e.1 e.2)) ∧
    (∃ r, V1.patchM a (V1.diffM m a b) = .ok r ∧ V1.equals m r b = true) ∧
    (V1.diffM m a b = [] ↔ V1.equals m a b = true) ∧
    E (strip m) (mapply (ds1 (strip m) .raw a b) a) b := by
  have EQ := strip_metaEq m
  have wa : Within (subterms a ++ subterms b) a := fun z hz => List.mem_append.2 (Or.inl hz)
  have wb : Within (subterms a ++ subterms b) b := fun z hz => List.mem_append.2 (Or.inr hz)
  have okb : Ok b := ⟨hb, hb'⟩
  have hd := pkit_eq_ds1 Kt a b (docOk_of_setDoc ha) okb wa wb (fun _ hz => hz) []
  simp only [List.map_nil, List.nil_append] at hd
  have e : V1.diffM m a b
      = (ds1 (strip m) (V1.dispatchTag m) a b).map (fun e => V1M.vh e.1 e.2) := by
    unfold V1.diffM
    rw [hmg, V1K.diffNode_meq EQ, hd, EQ.tag]
  have S1 := pkit_memSound Kt (τ := V1.dispatchTag m) (Or.inr EQ.tag) a (docOk_of_setDoc ha) wa b
    okb wb
  have S2 := pkit_memSound Kt (τ := .raw) (Or.inl rfl) a (docOk_of_setDoc ha) wa b okb wb
  have hp : V1.patchM a (V1.diffM m a b)
      = .ok (mapply (ds1 (strip m) (V1.dispatchTag m) a b) a) := by rw [e, V1M.patchM_vh]
  refine ⟨e, ⟨_, hp, by rw [EQ.equals]; exact S1⟩, ⟨fun h0 => ?_, fun he => ?_⟩, S2⟩
  · have hds : ds1 (strip m) (V1.dispatchTag m) a b = [] := by
      rw [e] at h0
      exact List.map_eq_nil_iff.1 h0
    rw [hds] at S1
    rw [EQ.equals]
    simpa [mapply, E] using S1
  · rw [EQ.equals] at he
    rw [e, ds1_nil_of_equals Kt.sm _ a b (docOk_of_setDoc ha) (docOk_of_setDoc hb) he]
    rfl

/-- … and through the text -/
theorem pkit_text {m : V1.Metas} (hmg : V1.hasMerge m = true) (nc : NumCodec)
    (a b : Json) (ha : a.setDoc = true) (hb : b.setDoc = true) (hb' : DPL.memOK b = true)
    (Kt : PKit (strip m) (subterms a ++ subterms b) (subterms b))
    (hc : V1S.CodecOK nc (V1.diffM m a b)) (text : String)
    (hr : V1.renderM nc false (V1.liftDiff (V1.diffM m a b)) = .ok (some text)) :
    ∃ d' r, V1.readDiffM nc text = .ok d' ∧ V1.patchM a d' = .ok r ∧ V1.equals m r b = true := by
  have EQ := strip_metaEq m
  have okb : Ok b := ⟨hb, hb'⟩
  obtain ⟨hd, _, _, S⟩ := pkit_main hmg a b ha hb hb' Kt
  have hrd : V1.readDiffM nc text = .ok (V1S.normDiff (V1.diffM m a b)) := by
    apply V1S.v1_read_render nc _ text _ hc hr
    intro h hh
    rw [hd] at hh
    obtain ⟨e, _, rfl⟩ := List.mem_map.1 hh
    exact V1S.wfHunk_vh e.1 e.2
  have hnd : V1S.normDiff (V1.diffM m a b) =
      (ds1 (strip m) .raw a b).map (fun e => V1M.vh e.1 e.2) := by
    rw [hd, V1S.normDiff, List.map_map, ← V1K.ds1_untag (strip m) (V1.dispatchTag m) a b okb.rawDoc,
      List.map_map]
    apply List.map_congr_left
    intro e _
    simp [V1S.normHunk_vh, V1S.untagE]
  refine ⟨_, _, hrd, ?_, by rw [EQ.equals]; exact S⟩
  rw [hnd, V1M.patchM_vh]



/-! ## 3.1 the kit for SET / MULTISET (no setkeys) with a precision -/

/-- documents equivalent at precision 0 have an EMPTY merge diff at any finite non-negative precision -/
theorem diffNode_merge_nil_of_equivB0 (F : FloatEq0) (L : FloatLaws) {m : V1.Metas} {o : Opts}
    (M : PMode m o) {S : List Json} (HF : V1S.HashFaithful m o S) :
    ∀ a b, DocOk a → DocOk b → Within S a → Within S b → equivB o a b = true →
      ∀ p, V1.diffNode m true a b p = [] := by
  have hk := M.keys
  have scalar : ∀ a b : Json, (∀ t xs, a ≠ .arr t xs) → (∀ kvs, a ≠ .obj kvs) →
      DocOk a → DocOk b → equivB o a b = true → ∀ p, V1.diffNode m true a b p = [] := by
    intro a b h1 h2 da db h p
    rw [V1M.diffNode_scalar m a b h1 h2 p,
      V1PS.scalar_equals_of_equivB F L M h1 h2 da db h]
    rfl
  intro a
  induction a using jsonInd with
  | void => intro b da db _ _ h; exact scalar _ b (fun _ _ e => by cases e) (fun _ e => by cases e) da db h
  | null => intro b da db _ _ h; exact scalar _ b (fun _ _ e => by cases e) (fun _ e => by cases e) da db h
  | bool x => intro b da db _ _ h; exact scalar _ b (fun _ _ e => by cases e) (fun _ e => by cases e) da db h
  | num x => intro b da db _ _ h; exact scalar _ b (fun _ _ e => by cases e) (fun _ e => by cases e) da db h
  | str x => intro b da db _ _ h; exact scalar _ b (fun _ _ e => by cases e) (fun _ e => by cases e) da db h
  | arr t xs ih =>
    intro b ha hb wa wb h p
    cases b with
    | arr t' ys =>
      have ht := ha.raw
      have ht' := hb.raw
      subst ht ht'
      have he : V1.equals m (.arr .raw xs) (.arr .raw ys) = true := by
        rw [V1PS.equals_arrRaw_congr (V1PS.tag_noPrec m).symm M.vsm,
          V1S.equals_eq_equivB_of F M.mode0 (V1PS.hashFaithful_noPrec HF) ha hb wa wb]
        exact h
      have H : ∀ kvs kvs', Json.obj kvs ∈ xs → Json.obj kvs' ∈ ys →
          V1.identOf m (.obj kvs) = V1.identOf m (.obj kvs') →
          ∀ q, V1.diffNode m true (.obj kvs) (.obj kvs') q
            = V1.diffNode m false (.obj kvs) (.obj kvs') q := by
        intro kvs kvs' hx hy e q
        rw [V1S.identOf_eq_hashCode hk, V1S.identOf_eq_hashCode hk] at e
        have hxy := HF _ (wa.elem hx).self _ (wb.elem hy).self e
        rw [ih _ hx _ (ha.elem hx) (hb.elem hy) (wa.elem hx) (wb.elem hy) hxy q,
          V1PS.diffNode_nil_of_equivB0 F L M HF _ _ (ha.elem hx) (hb.elem hy) (wa.elem hx)
            (wb.elem hy) hxy q]
      rw [V1K.diffNode_merge_arr_eq M.vsm xs ys p he H]
      exact V1PS.diffNode_nil_of_equivB0 F L M HF _ _ ha hb wa wb h p
    | _ => simp [equivB] at h
  | obj kvs ih =>
    intro b ha hb wa wb h p
    cases b with
    | obj kvs' =>
      have hs := ha.sorted
      have hs' := hb.sorted
      simp only [equivB, Bool.and_eq_true, beq_iff_eq, equivKvs_eq_lookAll, lookAll_iff] at h
      have hflip := AllLook.flip hs hs' h.1 h.2
      have hkv : ∀ r : List (String × Json), (∀ kv ∈ r, kv ∈ kvs) →
          V1.diffKvs m true p kvs' r = [] := by
        intro r
        induction r with
        | nil => intro _; exact V1K.dk_nil m true p kvs'
        | cons kv r ihr =>
          intro hsub
          obtain ⟨k, v⟩ := kv
          have hm1 : (k, v) ∈ kvs := hsub _ List.mem_cons_self
          obtain ⟨v', hl, he⟩ := h.2 k v hm1
          have hm2 := mem_of_alookup hl
          rw [V1K.dk_cons, ihr (fun kv hh => hsub kv (List.mem_cons_of_mem _ hh)), hl]
          simp only [List.append_nil]
          exact ih k v hm1 v' (ha.val hm1) (hb.val hm2) (wa.val hm1) (wb.val hm2) he _
      rw [V1M.diffNode_obj_obj, hkv kvs (fun _ hh => hh),
        filter_added_nil (kvs := kvs) (kvs' := kvs') (fun k' v' hm' => by
          obtain ⟨w, hl, _⟩ := hflip k' v' hm'
          simp [hl])]
      rfl
    | _ => simp [equivB] at h

/-- the kit of the set readings without setkeys, with a finite non-negative precision -/
theorem pkit_of_pmode (F : FloatEq0) (L : FloatLaws) {m : V1.Metas} {o : Opts} (M : PMode m o)
    {S SB : List Json} (HF : V1S.HashFaithful m o S) : PKit m S SB where
  sm := M.vsm
  nilArr := by
    intro xs ys ha hb wa wb _ he p
    rw [V1PS.equals_arrRaw_congr (V1PS.tag_noPrec m).symm M.vsm,
      V1S.equals_eq_equivB_of F M.mode0 (V1PS.hashFaithful_noPrec HF) ha hb wa wb] at he
    exact diffNode_merge_nil_of_equivB0 F L M HF _ _ ha hb wa wb he p
  refl := fun b hb _ => V1PS.equals_refl_ok L M hb

/-- MERGE together with SET or MULTISET (v1: SET wins), no setkeys, and a finite non-negative
    precision; tied to the precision-free options `o` under which the hash hypothesis is read.
    `V1K.MMode m o` is the case precision 0. -/
structure PMMode (m : V1.Metas) (o : Opts) : Prop where
  tag : V1.dispatchTag m = dispatchTag o
  sm : dispatchTag o = .set ∨ dispatchTag o = .mset
  prec : precOf o = 0
  precNN : nonnegBits (V1.precOf m) = true
  keys : V1.keysOf m = none
  merge : V1.hasMerge m = true

theorem PMMode.of_mmode {m : V1.Metas} {o : Opts} (M : V1K.MMode m o) : PMMode m o :=
  ⟨M.tag, M.sm, M.prec, by rw [M.vprec]; decide, M.keys, M.merge⟩

theorem PMMode.pmode {m : V1.Metas} {o : Opts} (M : PMMode m o) : PMode (strip m) o :=
  have E := strip_metaEq m
  ⟨E.tag.symm.trans M.tag, M.sm, M.prec, by rw [← E.prec]; exact M.precNN,
    E.keys.symm.trans M.keys, strip_noMerge m⟩

theorem PMMode.kit (F : FloatEq0) (L : FloatLaws) {m : V1.Metas} {o : Opts} (M : PMMode m o)
    {S SB : List Json} (HF : V1S.HashFaithful m o S) : PKit (strip m) S SB :=
  pkit_of_pmode F L M.pmode (V1K.hashFaithful_strip HF)

/-- **C17, SET + MERGE / MULTISET + MERGE with `SetPrecision(eps)`, in memory.** -/
theorem v1_merge_diff_patch_setmodes_precision (F : FloatEq0) (L : FloatLaws) {m : V1.Metas}
    {o : Opts} (M : PMMode m o) (a b : Json) (ha : a.setDoc = true) (hb : b.setDoc = true)
    (hb' : DPL.memOK b = true) (HF : V1S.HashFaithful m o (subterms a ++ subterms b)) :
    ∃ r, V1.patchM a (V1.diffM m a b) = .ok r ∧ V1.equals m r b = true :=
  (pkit_main M.merge a b ha hb hb' (M.kit F L HF)).2.1

/-- **C17, second half, SET + MERGE / MULTISET + MERGE with a precision** -/
theorem v1_merge_diff_empty_iff_equals_setmodes_precision (F : FloatEq0) (L : FloatLaws)
    {m : V1.Metas} {o : Opts} (M : PMMode m o) (a b : Json) (ha : a.setDoc = true)
    (hb : b.setDoc = true) (hb' : DPL.memOK b = true)
    (HF : V1S.HashFaithful m o (subterms a ++ subterms b)) :
    V1.diffM m a b = [] ↔ V1.equals m a b = true :=
  (pkit_main M.merge a b ha hb hb' (M.kit F L HF)).2.2.1

/-- **C17, SET + MERGE / MULTISET + MERGE with a precision, through the text** -/
theorem v1_text_roundtrip_merge_setmodes_precision (F : FloatEq0) (L : FloatLaws) (nc : NumCodec)
    {m : V1.Metas} {o : Opts} (M : PMMode m o) (a b : Json)
    (ha : a.setDoc = true) (hb : b.setDoc = true) (hb' : DPL.memOK b = true)
    (HF : V1S.HashFaithful m o (subterms a ++ subterms b))
    (hc : V1S.CodecOK nc (V1.diffM m a b)) (text : String)
    (hr : V1.renderM nc false (V1.liftDiff (V1.diffM m a b)) = .ok (some text)) :
    ∃ d' r, V1.readDiffM nc text = .ok d' ∧ V1.patchM a d' = .ok r ∧ V1.equals m r b = true :=
  pkit_text M.merge nc a b ha hb hb' (M.kit F L HF) hc text hr


/-! ## 3.2 the statements for the metadata as the caller gives them -/

/-- SET + MERGE with a precision: SET and MERGE present (SET wins over MULTISET), no setkeys, the
    precision a finite non-negative float64. Decidable. -/
structure PSetMergeMode (m : V1.Metas) : Prop where
  set : V1.hasSet m = true
  keys : V1.keysOf m = none
  merge : V1.hasMerge m = true
  precNN : nonnegBits (V1.precOf m) = true

/-- MULTISET + MERGE with a precision: MULTISET and MERGE present, SET absent, no setkeys, the
    precision a finite non-negative float64. Decidable. -/
structure PMsetMergeMode (m : V1.Metas) : Prop where
  noSet : V1.hasSet m = false
  mset : V1.hasMset m = true
  keys : V1.keysOf m = none
  merge : V1.hasMerge m = true
  precNN : nonnegBits (V1.precOf m) = true

def pSetMergeModeB (m : V1.Metas) : Bool :=
  V1.hasSet m && (V1.keysOf m).isNone && V1.hasMerge m && nonnegBits (V1.precOf m)

def pMsetMergeModeB (m : V1.Metas) : Bool :=
  !V1.hasSet m && V1.hasMset m && (V1.keysOf m).isNone && V1.hasMerge m &&
    nonnegBits (V1.precOf m)

theorem pSetMergeMode_iff (m : V1.Metas) : PSetMergeMode m ↔ pSetMergeModeB m = true := by
  simp only [pSetMergeModeB, Bool.and_eq_true, Option.isNone_iff_eq_none]
  exact ⟨fun h => ⟨⟨⟨h.set, h.keys⟩, h.merge⟩, h.precNN⟩, fun h => ⟨h.1.1.1, h.1.1.2, h.1.2, h.2⟩⟩

theorem pMsetMergeMode_iff (m : V1.Metas) : PMsetMergeMode m ↔ pMsetMergeModeB m = true := by
  simp only [pMsetMergeModeB, Bool.and_eq_true, Option.isNone_iff_eq_none, Bool.not_eq_true']
  exact ⟨fun h => ⟨⟨⟨⟨h.noSet, h.mset⟩, h.keys⟩, h.merge⟩, h.precNN⟩,
    fun h => ⟨h.1.1.1.1, h.1.1.1.2, h.1.1.2, h.1.2, h.2⟩⟩

instance (m : V1.Metas) : Decidable (PSetMergeMode m) :=
  decidable_of_iff _ (pSetMergeMode_iff m).symm
instance (m : V1.Metas) : Decidable (PMsetMergeMode m) :=
  decidable_of_iff _ (pMsetMergeMode_iff m).symm

theorem PSetMergeMode.mode {m : V1.Metas} (h : PSetMergeMode m) : PMMode m [.set] :=
  ⟨by simp [V1.dispatchTag, h.set, dispatchTag], Or.inl rfl, rfl, h.precNN, h.keys, h.merge⟩

theorem PMsetMergeMode.mode {m : V1.Metas} (h : PMsetMergeMode m) : PMMode m [.mset] :=
  ⟨by simp [V1.dispatchTag, h.noSet, h.mset, dispatchTag], Or.inr rfl, rfl, h.precNN, h.keys,
    h.merge⟩

theorem PSetMergeMode.prec (eps : UInt64) (h : nonnegBits eps = true) :
    PSetMergeMode [.set, .merge, .prec eps] := ⟨rfl, rfl, rfl, h⟩

theorem PMsetMergeMode.prec (eps : UInt64) (h : nonnegBits eps = true) :
    PMsetMergeMode [.mset, .merge, .prec eps] := ⟨rfl, rfl, rfl, rfl, h⟩

/-- precision 0 is the case of V1KeysDiffPatchA -/
theorem PSetMergeMode.of_setMergeMode {m : V1.Metas} (h : V1K.SetMergeMode m) : PSetMergeMode m :=
  have M := h.mode
  ⟨by
    have := M.tag
    cases hs : V1.hasSet m with
    | true => rfl
    | false =>
      cases hm : V1.hasMset m <;> simp [V1.dispatchTag, hs, hm, dispatchTag] at this,
    M.keys, M.merge, by rw [M.vprec]; decide⟩

/-! ## 3.3 `precNN` cannot be dropped; the result is not structurally the target -/

namespace Witness

/-- **`precNN` is needed with MERGE in the set readings too** (any metadata holding MERGE): when
    `|x - x| ≤ eps` is false (eps = -1), the merge diff of `x` and `x` is the hunk `+ x`, the patch
    returns `x`, which does not `Equals` `x` under the metadata. -/
theorem precNN_needed_merge_setmodes (m : V1.Metas) (hm : V1.hasMerge m = true) (x : UInt64)
    (hneg : numWithin (V1.precOf m) x x = false) :
    V1.diffM m (.num x) (.num x) = [V1M.vh [] (.num x)] ∧
    V1.patchM (.num x) (V1.diffM m (.num x) (.num x)) = .ok (.num x) ∧
    V1.equals m (.num x) (.num x) = false := by
  have he : V1.equals m (.num x) (.num x) = false := by simp [V1.equals, hneg]
  have hd : V1.diffM m (.num x) (.num x) = [V1M.vh [] (.num x)] := by
    unfold V1.diffM
    rw [hm, V1M.diffNode_scalar m _ _ (fun _ _ e => by cases e) (fun _ e => by cases e), he]
    simpa using V1M.whole_keys [] (.num x)
  refine ⟨hd, ?_, he⟩
  rw [hd]
  exact V1M.patchM_vh [([], .num x)] (.num x)

end Witness

/-! ## 3.4 non-vacuity: the pair of V1PrecisionModes under SET + MERGE / MULTISET + MERGE + precision -/

namespace Example
open Jd.V1PS.Example (pA pB p_docs p_hashFaithful_set p_hashFaithful_mset)

/-- `0.1` -/
def eps : UInt64 := V1PS.Example.eps

theorem eps_set : PSetMergeMode [.set, .merge, .prec eps] := PSetMergeMode.prec eps (by decide)
theorem eps_mset : PMsetMergeMode [.mset, .merge, .prec eps] := PMsetMergeMode.prec eps (by decide)
/-- any order, SET wins over MULTISET; a negative precision, or setkeys, are outside the domain -/
example : PSetMergeMode [.prec eps, .mset, .merge, .set] := by decide
example : ¬ PSetMergeMode [.set, .merge, .prec 0xBFF0000000000000] := by decide
example : ¬ PSetMergeMode [.set, .merge, .setkeys ["id"], .prec eps] := by decide

theorem hf_set (L : FloatLaws) :
    V1S.HashFaithful [.set, .merge, .prec eps] [.set] (subterms pA ++ subterms pB) :=
  V1K.ExampleM.hashFaithful_of_tag (m := [.set, .prec V1PS.Example.eps]) rfl (p_hashFaithful_set L)

theorem hf_mset (L : FloatLaws) :
    V1S.HashFaithful [.mset, .merge, .prec eps] [.mset] (subterms pA ++ subterms pB) :=
  V1K.ExampleM.hashFaithful_of_tag (m := [.mset, .prec V1PS.Example.eps]) rfl
    (p_hashFaithful_mset L)

-- `{"k":1,"s":[1,2,{"x":1}],"u":{"v":2}}` → `{"k":1.05,"s":[2,1.05,{"x":1.05}],"t":3,"u":{"v":2.05}}`,
-- eps 0.1: the model gives the two merge hunks `[["MERGE"],"s"] + [2,1.05,{"x":1.05}]`,
-- `[["MERGE"],"t"] + 3`; `k` and `u.v` stay (within eps); Go: the same (gocheck/c17, run P1/P2)
#eval (V1.diffM [.set, .merge, .prec eps] pA pB).map (fun h => (h.path, h.old, h.new))
#eval match V1.patchM pA (V1.diffM [.set, .merge, .prec eps] pA pB) with
  | .ok r => some (V1.equals [.set, .merge, .prec eps] r pB, V1.equals [.set, .merge] r pB)
  | _ => none

theorem p_set (F : FloatEq0) (L : FloatLaws) :
    ∃ r, V1.patchM pA (V1.diffM [.set, .merge, .prec eps] pA pB) = .ok r ∧
      V1.equals [.set, .merge, .prec eps] r pB = true :=
  v1_merge_diff_patch_setmodes_precision F L eps_set.mode pA pB p_docs.1 p_docs.2.1
    p_docs.2.2.2.1 (hf_set L)

theorem p_mset (F : FloatEq0) (L : FloatLaws) :
    ∃ r, V1.patchM pA (V1.diffM [.mset, .merge, .prec eps] pA pB) = .ok r ∧
      V1.equals [.mset, .merge, .prec eps] r pB = true :=
  v1_merge_diff_patch_setmodes_precision F L eps_mset.mode pA pB p_docs.1 p_docs.2.1
    p_docs.2.2.2.1 (hf_mset L)

end Example

open Jd.V1PS (StepE)
open Jd.V1P (shift)

/-! # Part 4. the strict induction with a precision, parametric in the array step;
  MULTISET + Setkeys + precision -/

section G
variable {m : V1.Metas}

theorem replace_stepG (L : FloatLaws)
    (hsm : V1.dispatchTag m = .set ∨ V1.dispatchTag m = .mset)
    (hp : nonnegBits (V1.precOf m) = true)
    {a b : Json} (ha : Ok a) (hb : Ok b) (p : List Json) (addl : List Json)
    (hl : addl.length ≤ 1) (hs : Json.singleValue addl = b)
    (hdiff : V1.diffNode m false a b p = [{ path := p, old := a.nodeList, new := addl }]) :
    StepE m a b p := by
  refine ⟨[{ path := [], old := a.nodeList, new := addl }], b, ?_, ?_, ?_,
    V1PS.equals_refl_prec L hsm hp b hb.rawDoc hb.wf hb.fin⟩
  · rw [hdiff]; simp [shift]
  · intro h hh
    simp only [List.mem_singleton] at hh
    subst hh; exact V1S.nm_nil _ _
  · rw [V1S.patch_replace L ha addl hl, hs]

theorem scalar_stepG (L : FloatLaws)
    (hsm : V1.dispatchTag m = .set ∨ V1.dispatchTag m = .mset)
    (hp : nonnegBits (V1.precOf m) = true)
    {a b : Json} (h1 : ∀ t xs, a ≠ .arr t xs) (h2 : ∀ kvs, a ≠ .obj kvs) (ha : Ok a) (hb : Ok b)
    (p : List Json) : StepE m a b p := by
  have hd := V1P.diffNode_scalar m a b h1 h2 p
  by_cases he : V1.equals m a b = true
  · refine ⟨[], a, ?_, by simp, rfl, he⟩
    rw [hd]; simp [V1.diffCommon, he]
  · apply replace_stepG L hsm hp ha hb p b.nodeList (V1S.nodeList_length_le b)
      (V1S.singleValue_nodeList b)
    rw [hd]; simp [V1.diffCommon, he]

/-- the induction of `V1PS.node_stepE` with the step for two arrays as a parameter: any metadata
    reading arrays as sets or multisets (setkeys allowed), a finite non-negative precision -/
theorem node_stepG (L : FloatLaws)
    (hsm : V1.dispatchTag m = .set ∨ V1.dispatchTag m = .mset)
    (hp : nonnegBits (V1.precOf m) = true) {SA SB : List Json}
    (harr : ∀ xs ys, Ok (.arr .raw xs) → Ok (.arr .raw ys) → Within SA (.arr .raw xs) →
      Within SB (.arr .raw ys) → ∀ p, StepE m (.arr .raw xs) (.arr .raw ys) p) :
    ∀ a b, Ok a → Ok b → Within SA a → Within SB b → ∀ p, StepE m a b p := by
  intro a
  induction a using jsonInd with
  | void =>
    intro b ha hb _ _ p
    exact scalar_stepG L hsm hp (fun _ _ e => by cases e) (fun _ e => by cases e) ha hb p
  | null =>
    intro b ha hb _ _ p
    exact scalar_stepG L hsm hp (fun _ _ e => by cases e) (fun _ e => by cases e) ha hb p
  | bool x =>
    intro b ha hb _ _ p
    exact scalar_stepG L hsm hp (fun _ _ e => by cases e) (fun _ e => by cases e) ha hb p
  | num x =>
    intro b ha hb _ _ p
    exact scalar_stepG L hsm hp (fun _ _ e => by cases e) (fun _ e => by cases e) ha hb p
  | str x =>
    intro b ha hb _ _ p
    exact scalar_stepG L hsm hp (fun _ _ e => by cases e) (fun _ e => by cases e) ha hb p
  | arr t xs _ =>
    intro b ha hb wa wb p
    have ht := ha.raw
    subst ht
    cases b with
    | arr t' ys =>
      have ht' := hb.raw
      subst ht'
      exact harr xs ys ha hb wa wb p
    | _ =>
      refine replace_stepG L hsm hp ha hb p _ (V1S.nodeList_length_le _)
        (V1S.singleValue_nodeList _) ?_
      rw [V1S.diffNode_arr_other hsm xs _ (fun _ _ e => by cases e) p]
      rfl
  | obj kvs ih =>
    intro b ha hb wa wb p
    cases b with
    | obj kvs' =>
      have hsa := ha.sorted
      have hsb := hb.sorted
      obtain ⟨D1, cur1, e1, m1, h1, hs1, hother1, hmem1⟩ := V1PS.kvs_stepE L m kvs' hb p kvs
        (fun k v hm => ⟨(ha.val hm).1, (ha.val hm).2, fun v' hl q =>
          ih k v hm v' (ha.val hm).1 (hb.lookup hl).1 (wa.val hm) (wb.val (mem_of_alookup hl)) q⟩)
        hsa kvs hsa (fun k v hm => alookup_of_mem hsa hm)
      obtain ⟨cur2, h2, hs2, hother2, hmem2⟩ := V1S.patch_adds L (fun k => (alookup k kvs).isNone)
        kvs' hsb (fun k v hm => (hb.val hm).2) cur1 hs1 (fun k v' _ hP => by
          have hkn : alookup k kvs = none := by simpa using hP
          rw [hother1 k (fun v hm => by rw [alookup_of_mem hsa hm] at hkn; cases hkn), hkn])
      have hfin : ∀ k, match alookup k kvs' with
          | none => alookup k cur2 = none
          | some v' => ∃ z, alookup k cur2 = some z ∧ V1.equals m z v' = true := by
        intro k
        cases hlk' : alookup k kvs' with
        | some v' =>
          simp only []
          have hm' := mem_of_alookup hlk'
          cases hlk : alookup k kvs with
          | none =>
            exact ⟨v', hmem2 k v' hm' (by simp [hlk]),
              V1PS.equals_refl_prec L hsm hp v' (hb.val hm').1.rawDoc (hb.val hm').1.wf
                (hb.val hm').1.fin⟩
          | some v =>
            have := hmem1 k v (mem_of_alookup hlk)
            rw [hlk'] at this
            obtain ⟨z, hz, hr⟩ := this
            refine ⟨z, ?_, hr⟩
            rw [hother2 k (fun _ _ => by simp [hlk]), hz]
        | none =>
          simp only []
          rw [hother2 k (fun v' hm => by rw [alookup_of_mem hsb hm] at hlk'; cases hlk')]
          cases hlk : alookup k kvs with
          | none =>
            rw [hother1 k (fun v hm => by rw [alookup_of_mem hsa hm] at hlk; cases hlk), hlk]
          | some v =>
            have := hmem1 k v (mem_of_alookup hlk)
            rw [hlk'] at this
            exact this
      have r2 := V1PS.obj_resultE (m := m) hs2 hsb hfin
      refine ⟨D1 ++ (kvs'.filter (fun kv => (alookup kv.1 kvs).isNone)).map V1S.addHunk,
        .obj cur2, ?_, ?_, ?_, r2⟩
      · rw [V1P.diffNode_obj_obj, e1, List.map_append, List.map_map]
        congr 1
      · intro h hh
        rcases List.mem_append.1 hh with hh | hh
        · exact m1 h hh
        · obtain ⟨kv, _, rfl⟩ := List.mem_map.1 hh
          rfl
      · rw [V1S.patchAll_append_ok _ _ _ _ h1]
        exact h2
    | _ =>
      refine replace_stepG L hsm hp ha hb p [_] (by simp) rfl ?_
      rw [V1P.diffNode_obj_other m kvs _ (fun _ e => by cases e) p]
      rfl

end G

/-! ## 4.1 MULTISET + Setkeys + precision -/

/-- MULTISET without SET, with or without set keys, no MERGE, a finite non-negative precision.
    `V1K.XMsMode` is the case precision 0. Decidable. -/
structure PXMsMode (m : V1.Metas) : Prop where
  noSet : V1.hasSet m = false
  mset : V1.hasMset m = true
  noMerge : V1.hasMerge m = false
  precNN : nonnegBits (V1.precOf m) = true

def pXMsModeB (m : V1.Metas) : Bool :=
  !V1.hasSet m && V1.hasMset m && !V1.hasMerge m && nonnegBits (V1.precOf m)

theorem pXMsMode_iff (m : V1.Metas) : PXMsMode m ↔ pXMsModeB m = true := by
  simp only [pXMsModeB, Bool.and_eq_true, Bool.not_eq_true']
  exact ⟨fun h => ⟨⟨⟨h.noSet, h.mset⟩, h.noMerge⟩, h.precNN⟩,
    fun h => ⟨h.1.1.1, h.1.1.2, h.1.2, h.2⟩⟩

instance (m : V1.Metas) : Decidable (PXMsMode m) := decidable_of_iff _ (pXMsMode_iff m).symm

theorem PXMsMode.withKeys (ks : List String) (eps : UInt64) (h : nonnegBits eps = true) :
    PXMsMode [.mset, .setkeys ks, .prec eps] := ⟨rfl, rfl, rfl, h⟩

theorem PXMsMode.tag {m : V1.Metas} (X : PXMsMode m) : V1.dispatchTag m = .mset := by
  simp [V1.dispatchTag, X.noSet, X.mset]

theorem PXMsMode.x0 {m : V1.Metas} (X : PXMsMode m) : V1K.XMsMode (noPrec m) :=
  ⟨(V1PS.hasSet_noPrec m).trans X.noSet, (V1PS.hasMset_noPrec m).trans X.mset,
    (V1PS.hasMerge_noPrec m).trans X.noMerge, V1PS.precOf_noPrec m⟩

/-- two plain arrays under MULTISET: the diff does not see the precision (members are compared by
    hash code, there are no sub-diffs) -/
theorem diffNode_mset_noPrec {m : V1.Metas} (hd : V1.dispatchTag m = .mset) (xs ys p : List Json) :
    V1.diffNode (noPrec m) false (.arr .raw xs) (.arr .raw ys) p =
      V1.diffNode m false (.arr .raw xs) (.arr .raw ys) p := by
  have e : ∀ xs ys, V1S.bagSurplus (noPrec m) xs ys = V1S.bagSurplus m xs ys := by
    intro xs ys
    unfold V1S.bagSurplus
    simp only [V1S.hashList_congr (V1PS.tag_noPrec m), V1PS.hashLookup_congr (V1PS.tag_noPrec m)]
  rw [V1S.diffNode_mset_mset ((V1PS.tag_noPrec m).trans hd), V1S.diffNode_mset_mset hd,
    V1PS.appendIndex_noPrec, e, e]

theorem arr_stepX (F : FloatEq0) {m : V1.Metas} (X : PXMsMode m) {S : List Json}
    (HF : V1S.HashFaithful m [.mset] S)
    (xs ys : List Json) (ha : Ok (.arr .raw xs)) (hb : Ok (.arr .raw ys))
    (wa : Within S (.arr .raw xs)) (wb : Within S (.arr .raw ys)) (p : List Json) :
    StepE m (.arr .raw xs) (.arr .raw ys) p := by
  obtain ⟨D, r, e, nm, hp, _, he⟩ :=
    V1K.mset_stepX F X.x0 (V1PS.hashFaithful_noPrec HF) xs ys ha hb wa wb p
  refine ⟨D, r, ?_, nm, hp, ?_⟩
  · rw [← diffNode_mset_noPrec X.tag xs ys p]; exact e
  · rw [V1PS.equals_arrRaw_congr (V1PS.tag_noPrec m).symm (Or.inr X.tag)]; exact he

/-- **C17, MULTISET + Setkeys + `SetPrecision(eps)`, in memory** -/
theorem v1_diff_patch_mset_setkeys_precision (F : FloatEq0) (L : FloatLaws) {m : V1.Metas}
    (X : PXMsMode m) (a b : Json) (ha : a.setDoc = true) (hb : b.setDoc = true)
    (ha' : DPL.memOK a = true) (hb' : DPL.memOK b = true)
    (HF : V1S.HashFaithful m [.mset] (subterms a ++ subterms b)) :
    ∃ r, V1.patchM a (V1.diffM m a b) = .ok r ∧ V1.equals m r b = true := by
  obtain ⟨D, r, e, _, h, h2⟩ := node_stepG L (Or.inr X.tag) X.precNN
    (fun xs ys ha hb wa wb p => arr_stepX F X HF xs ys ha hb wa wb p) a b ⟨ha, ha'⟩ ⟨hb, hb'⟩
    (fun z hz => List.mem_append.2 (Or.inl hz)) (fun z hz => List.mem_append.2 (Or.inr hz)) []
  refine ⟨r, ?_, h2⟩
  unfold V1.diffM V1.patchM
  rw [X.noMerge, e, V1S.shift_nil_map]
  exact h


/-- `Equals` under the metadata ⇒ empty diff, parametric in the case of two arrays -/
theorem nil_of_equalsG {m : V1.Metas}
    (hsm : V1.dispatchTag m = .set ∨ V1.dispatchTag m = .mset) {SA SB : List Json}
    (harr : ∀ xs ys, Ok (.arr .raw xs) → Ok (.arr .raw ys) → Within SA (.arr .raw xs) →
      Within SB (.arr .raw ys) → V1.equals m (.arr .raw xs) (.arr .raw ys) = true →
      ∀ p, V1.diffNode m false (.arr .raw xs) (.arr .raw ys) p = []) :
    ∀ a b, Ok a → Ok b → Within SA a → Within SB b → V1.equals m a b = true →
      ∀ p, V1.diffNode m false a b p = [] := by
  have scalar : ∀ a b : Json, (∀ t xs, a ≠ .arr t xs) → (∀ kvs, a ≠ .obj kvs) →
      V1.equals m a b = true → ∀ p, V1.diffNode m false a b p = [] := by
    intro a b h1 h2 h p
    rw [V1P.diffNode_scalar m a b h1 h2 p, V1S.diffCommon_nil_iff]
    exact h
  intro a
  induction a using jsonInd with
  | void => intro b _ _ _ _ h; exact scalar _ b (fun _ _ e => by cases e) (fun _ e => by cases e) h
  | null => intro b _ _ _ _ h; exact scalar _ b (fun _ _ e => by cases e) (fun _ e => by cases e) h
  | bool x => intro b _ _ _ _ h; exact scalar _ b (fun _ _ e => by cases e) (fun _ e => by cases e) h
  | num x => intro b _ _ _ _ h; exact scalar _ b (fun _ _ e => by cases e) (fun _ e => by cases e) h
  | str x => intro b _ _ _ _ h; exact scalar _ b (fun _ _ e => by cases e) (fun _ e => by cases e) h
  | arr t xs _ =>
    intro b ha hb wa wb h p
    have ht := ha.raw
    subst ht
    cases b with
    | arr t' ys =>
      have ht' := hb.raw
      subst ht'
      exact harr xs ys ha hb wa wb h p
    | _ =>
      exfalso
      rw [V1.equals.eq_def] at h
      rcases hsm with hd | hd <;> simp [V1.effTag, V1.dispatch, hd] at h
  | obj kvs ih =>
    intro b ha hb wa wb h p
    cases b with
    | obj kvs' =>
      have hs := ha.sorted
      have hs' := hb.sorted
      simp only [V1.equals, Bool.and_eq_true, beq_iff_eq, V1S.equalsKvs_eq_lookAll, lookAll_iff] at h
      have hflip := AllLook.flip hs hs' h.1 h.2
      have hkv : ∀ r : List (String × Json), (∀ kv ∈ r, kv ∈ kvs) →
          V1.diffKvs m false p kvs' r = [] := by
        intro r
        induction r with
        | nil => intro _; exact V1P.diffKvs_nil m p kvs'
        | cons kv r ihr =>
          intro hsub
          obtain ⟨k, v⟩ := kv
          have hm1 : (k, v) ∈ kvs := hsub _ List.mem_cons_self
          obtain ⟨v', hl, he⟩ := h.2 k v hm1
          have hm2 := mem_of_alookup hl
          rw [V1P.diffKvs_cons, ihr (fun kv hh => hsub kv (List.mem_cons_of_mem _ hh)), hl]
          simp only [List.append_nil]
          exact ih k v hm1 v' (ha.val hm1).1 (hb.val hm2).1 (wa.val hm1) (wb.val hm2) he _
      rw [V1P.diffNode_obj_obj, hkv kvs (fun _ hh => hh),
        filter_added_nil (kvs := kvs) (kvs' := kvs') (fun k' v' hm' => by
          obtain ⟨w, hl, _⟩ := hflip k' v' hm'
          simp [hl])]
      rfl
    | _ => simp [V1.equals] at h

/-- **C17, second half, MULTISET + Setkeys + precision: the diff is empty exactly when `Equals`
    (with the metadata) holds** -/
theorem v1_diff_empty_iff_equals_mset_setkeys_precision (F : FloatEq0) (L : FloatLaws)
    {m : V1.Metas} (X : PXMsMode m) (a b : Json) (ha : a.setDoc = true) (hb : b.setDoc = true)
    (ha' : DPL.memOK a = true) (hb' : DPL.memOK b = true)
    (HF : V1S.HashFaithful m [.mset] (subterms a ++ subterms b)) :
    V1.diffM m a b = [] ↔ V1.equals m a b = true := by
  constructor
  · intro hd
    obtain ⟨r, h1, h2⟩ := v1_diff_patch_mset_setkeys_precision F L X a b ha hb ha' hb' HF
    rw [hd] at h1
    cases h1
    exact h2
  · intro he
    unfold V1.diffM
    rw [X.noMerge]
    refine nil_of_equalsG (SA := subterms a ++ subterms b) (SB := subterms a ++ subterms b)
      (Or.inr X.tag) ?_ a b ⟨ha, ha'⟩ ⟨hb, hb'⟩
      (fun z hz => List.mem_append.2 (Or.inl hz)) (fun z hz => List.mem_append.2 (Or.inr hz)) he []
    intro xs ys oa ob wa wb h p
    have HF0 := V1PS.hashFaithful_noPrec HF
    rw [V1PS.equals_arrRaw_congr (V1PS.tag_noPrec m).symm (Or.inr X.tag), V1K.x_equals X.x0,
      V1S.equals_eq_equivB_of F V1K.MX (V1K.x_hf X.x0 HF0) oa.docOk ob.docOk wa wb] at h
    rw [← diffNode_mset_noPrec X.tag xs ys p]
    exact V1K.diffNode_nil_of_equivB_X F X.x0 _ _ oa.docOk ob.docOk h p


/-! ## 4.2 non-vacuity: the pair of V1PrecisionModes under MULTISET + Setkeys + precision -/

namespace ExampleX
open Jd.V1PS.Example (pA pB p_docs p_hashFaithful_mset)

theorem eps_x : PXMsMode [.mset, .setkeys ["x"], .prec Example.eps] :=
  PXMsMode.withKeys ["x"] Example.eps (by decide)
example : PXMsMode [.prec Example.eps, .setkeys ["x"], .mset] := by decide
example : ¬ PXMsMode [.mset, .set, .setkeys ["x"], .prec Example.eps] := by decide

theorem hf_x (L : FloatLaws) :
    V1S.HashFaithful [.mset, .setkeys ["x"], .prec Example.eps] [.mset]
      (subterms pA ++ subterms pB) :=
  V1K.ExampleM.hashFaithful_of_tag (m := [.mset, .prec V1PS.Example.eps]) rfl
    (p_hashFaithful_mset L)

-- the model: one multiset hunk `["s",["multiset","setkeys=x"],{}] - 1 - {"x":1} + 1.05 + {"x":1.05}` and
-- `["t"] + 3`; `k`, `u.v` stay. Go (gocheck/c17, run X3): the same.
#eval (V1.diffM [.mset, .setkeys ["x"], .prec Example.eps] pA pB).map (fun h => (h.path, h.old, h.new))

theorem p_x (F : FloatEq0) (L : FloatLaws) :
    ∃ r, V1.patchM pA (V1.diffM [.mset, .setkeys ["x"], .prec Example.eps] pA pB) = .ok r ∧
      V1.equals [.mset, .setkeys ["x"], .prec Example.eps] r pB = true :=
  v1_diff_patch_mset_setkeys_precision F L eps_x pA pB p_docs.1 p_docs.2.1 p_docs.2.2.1
    p_docs.2.2.2.1 (hf_x L)

end ExampleX

/-! # Part 5. SET + Setkeys + precision where the precision is inert inside arrays -/

section Inert
variable {m : V1.Metas}

/-- on the numbers of `a` against the numbers of `b`, "within eps" is "within 0" -/
def SepN (m : V1.Metas) (a b : Json) : Prop :=
  ∀ u v, Json.num u ∈ subterms a → Json.num v ∈ subterms b →
    numWithin (V1.precOf m) u v = numWithin 0 u v

theorem SepN.elemL {t : Tag} {xs : List Json} {x b : Json} (h : SepN m (.arr t xs) b)
    (hx : x ∈ xs) : SepN m x b :=
  fun u v hu hv => h u v (subterms_elem_sub hx hu) hv

theorem SepN.elemR {t : Tag} {ys : List Json} {y a : Json} (h : SepN m a (.arr t ys))
    (hy : y ∈ ys) : SepN m a y :=
  fun u v hu hv => h u v hu (subterms_elem_sub hy hv)

theorem SepN.valL {kvs : List (String × Json)} {k : String} {x b : Json}
    (h : SepN m (.obj kvs) b) (hx : (k, x) ∈ kvs) : SepN m x b :=
  fun u v hu hv => h u v (subterms_val_sub hx hu) hv

theorem SepN.valR {kvs : List (String × Json)} {k : String} {y a : Json}
    (h : SepN m a (.obj kvs)) (hy : (k, y) ∈ kvs) : SepN m a y :=
  fun u v hu hv => h u v hu (subterms_val_sub hy hv)

theorem hashCode_noPrecF (m : V1.Metas) : V1.hashCode (noPrec m) = V1.hashCode m :=
  funext (V1PS.hashCode_noPrec m)

theorem identKeyHashes_noPrec (m : V1.Metas) (kvs : List (String × Json)) :
    ∀ ks, V1.identKeyHashes (noPrec m) kvs ks = V1.identKeyHashes m kvs ks
  | [] => rfl
  | k :: r => by
    simp only [V1.identKeyHashes, identKeyHashes_noPrec m kvs r, hashCode_noPrecF]

/-- identities do not see the precision (with or without set keys) -/
theorem identOf_noPrecK (m : V1.Metas) : V1.identOf (noPrec m) = V1.identOf m := by
  funext a
  cases a <;>
    simp only [V1.identOf, V1.identObj, hashCode_noPrecF, V1PS.keysOf_noPrec,
      identKeyHashes_noPrec]

theorem equals_scalar_inert {a b : Json} (h1 : ∀ t xs, a ≠ .arr t xs) (h2 : ∀ kvs, a ≠ .obj kvs)
    (hs : SepN m a b) : V1.equals m a b = V1.equals (noPrec m) a b := by
  cases a with
  | arr t xs => exact absurd rfl (h1 t xs)
  | obj kvs => exact absurd rfl (h2 kvs)
  | num u =>
    cases b with
    | num v =>
      simp only [V1.equals, V1PS.precOf_noPrec]
      exact hs u v (by simp [subterms]) (by simp [subterms])
    | _ => simp [V1.equals]
  | _ => cases b <;> simp [V1.equals]

theorem dse_inert (p ys : List Json) :
    ∀ xs : List Json,
      (∀ x ∈ xs, ∀ y ∈ ys, ∀ q, V1.diffNode m false x y q = V1.diffNode (noPrec m) false x y q) →
      V1.diffSetElems (noPrec m) false p ys xs = V1.diffSetElems m false p ys xs
  | [], _ => by rw [V1S.diffSetElems_nil, V1S.diffSetElems_nil]
  | x :: r, H => by
    have ih := dse_inert p ys r (fun x' hx' => H x' (List.mem_cons_of_mem _ hx'))
    rw [V1S.diffSetElems_cons, V1S.diffSetElems_cons, ih, identOf_noPrecK,
      V1PS.identLookup_congr (identOf_noPrecK m)]
    split
    · rfl
    · cases hl : V1.identLookup m (V1.identOf m x) ys with
      | none => rfl
      | some y =>
        obtain ⟨hy, _⟩ := V1S.identLookup_some hl
        cases x with
        | obj kvs =>
          cases y with
          | obj kvs2 =>
            simp only []
            rw [H _ List.mem_cons_self _ hy, V1PS.pathObject_noPrec, V1PS.appendIndex_noPrec]
          | _ => rfl
        | _ => rfl

/-- **restricted congruence**: under SET, on documents as read from text whose numbers are
    separated (`SepN`), the strict diff does not see the precision -/
theorem diffNode_inert (hd : V1.dispatchTag m = .set) :
    ∀ a b, DocOk a → DocOk b → SepN m a b →
      ∀ p, V1.diffNode m false a b p = V1.diffNode (noPrec m) false a b p := by
  have scalar : ∀ a b : Json, (∀ t xs, a ≠ .arr t xs) → (∀ kvs, a ≠ .obj kvs) → SepN m a b →
      ∀ p, V1.diffNode m false a b p = V1.diffNode (noPrec m) false a b p := by
    intro a b h1 h2 hs p
    rw [V1P.diffNode_scalar m a b h1 h2 p, V1P.diffNode_scalar (noPrec m) a b h1 h2 p]
    simp only [V1.diffCommon, equals_scalar_inert h1 h2 hs]
  intro a
  induction a using jsonInd with
  | void => intro b _ _ hs; exact scalar _ b (fun _ _ e => by cases e) (fun _ e => by cases e) hs
  | null => intro b _ _ hs; exact scalar _ b (fun _ _ e => by cases e) (fun _ e => by cases e) hs
  | bool x => intro b _ _ hs; exact scalar _ b (fun _ _ e => by cases e) (fun _ e => by cases e) hs
  | num x => intro b _ _ hs; exact scalar _ b (fun _ _ e => by cases e) (fun _ e => by cases e) hs
  | str x => intro b _ _ hs; exact scalar _ b (fun _ _ e => by cases e) (fun _ e => by cases e) hs
  | arr t xs ih =>
    intro b ha hb hs p
    have ht := ha.raw
    subst ht
    have hd0 : V1.dispatchTag (noPrec m) = .set := (V1PS.tag_noPrec m).trans hd
    cases b with
    | arr t' ys =>
      have ht' := hb.raw
      subst ht'
      have e : V1S.setAdd (noPrec m) xs ys = V1S.setAdd m xs ys := by
        unfold V1S.setAdd
        rw [identOf_noPrecK]
        congr 1
        funext h
        exact V1PS.identLookup_congr (identOf_noPrecK m) h ys
      rw [V1S.diffNode_set_set hd0, V1S.diffNode_set_set hd,
        dse_inert p ys xs (fun x hx y hy q =>
          ih x hx y (ha.elem hx) (hb.elem hy) ((hs.elemL hx).elemR hy) q),
        V1PS.appendIndex_noPrec, e]
    | _ =>
      rw [V1S.diffNode_arr_other (Or.inl hd) xs _ (fun _ _ e => by cases e) p,
        V1S.diffNode_arr_other (Or.inl hd0) xs _ (fun _ _ e => by cases e) p]
  | obj kvs ih =>
    intro b ha hb hs p
    cases b with
    | obj kvs' =>
      have hkv : ∀ r : List (String × Json), (∀ kv ∈ r, kv ∈ kvs) →
          V1.diffKvs m false p kvs' r = V1.diffKvs (noPrec m) false p kvs' r := by
        intro r
        induction r with
        | nil => intro _; rw [V1P.diffKvs_nil, V1P.diffKvs_nil]
        | cons kv r ihr =>
          intro hsub
          obtain ⟨k, v⟩ := kv
          have hm1 : (k, v) ∈ kvs := hsub _ List.mem_cons_self
          rw [V1P.diffKvs_cons, V1P.diffKvs_cons,
            ihr (fun kv hh => hsub kv (List.mem_cons_of_mem _ hh))]
          congr 1
          cases hl : alookup k kvs' with
          | none => rfl
          | some v' =>
            have hm2 := mem_of_alookup hl
            exact ih k v hm1 v' (ha.val hm1) (hb.val hm2) ((hs.valL hm1).valR hm2) _
      rw [V1P.diffNode_obj_obj, V1P.diffNode_obj_obj, hkv kvs (fun _ hh => hh)]
    | _ =>
      rw [V1P.diffNode_obj_other m kvs _ (fun _ e => by cases e) p,
        V1P.diffNode_obj_other (noPrec m) kvs _ (fun _ e => by cases e) p]

end Inert

/-! ## 5.1 the hypothesis as a Bool; the theorems -/

/-- every number among `S` against every number among `T`: "within eps" iff "within 0" -/
def sepNums (eps : UInt64) (S T : List Json) : Bool :=
  S.all fun x => T.all fun y =>
    match x, y with
    | .num u, .num v => numWithin eps u v == numWithin 0 u v
    | _, _ => true

/-- **the precision is inert inside arrays**: for every array of `a` and every array of `b`, the
    numbers below the first against the numbers below the second are within eps only when they are
    within 0. (Numbers outside arrays are not constrained.) Decidable (a Bool; `numWithin` is
    evaluated by the runtime `Float`). -/
def arrSep (eps : UInt64) (a b : Json) : Bool :=
  (subterms a).all fun x => (subterms b).all fun y =>
    match x, y with
    | .arr _ _, .arr _ _ => sepNums eps (subterms x) (subterms y)
    | _, _ => true

/-- the global form: all numbers of `a` against all numbers of `b` -/
def epsSep (eps : UInt64) (a b : Json) : Bool := sepNums eps (subterms a) (subterms b)

theorem sepN_of_arrSep {m : V1.Metas} {a0 b0 : Json} (h : arrSep (V1.precOf m) a0 b0 = true)
    {xs ys : List Json} (wa : Within (subterms a0) (.arr .raw xs))
    (wb : Within (subterms b0) (.arr .raw ys)) : SepN m (.arr .raw xs) (.arr .raw ys) := by
  intro u v hu hv
  simp only [arrSep, List.all_eq_true] at h
  have := h _ wa.self _ wb.self
  simp only [sepNums, List.all_eq_true] at this
  simpa using this _ hu _ hv

/-- SET together with set keys (at least one key), no MERGE, a finite non-negative precision;
    MULTISET may be present as well (SET wins). `V1K.KMode` is the case precision 0. Decidable. -/
structure PKMode (m : V1.Metas) (ks : List String) : Prop where
  set : V1.hasSet m = true
  keys : V1.keysOf m = some ks
  nonempty : ks.isEmpty = false
  noMerge : V1.hasMerge m = false
  precNN : nonnegBits (V1.precOf m) = true

def pKModeB (m : V1.Metas) (ks : List String) : Bool :=
  V1.hasSet m && V1.keysOf m == some ks && !ks.isEmpty && !V1.hasMerge m &&
    nonnegBits (V1.precOf m)

theorem pKMode_iff (m : V1.Metas) (ks : List String) : PKMode m ks ↔ pKModeB m ks = true := by
  simp only [pKModeB, Bool.and_eq_true, Bool.not_eq_true', beq_iff_eq]
  exact ⟨fun h => ⟨⟨⟨⟨h.set, h.keys⟩, h.nonempty⟩, h.noMerge⟩, h.precNN⟩,
    fun h => ⟨h.1.1.1.1, h.1.1.1.2, h.1.1.2, h.1.2, h.2⟩⟩

instance (m : V1.Metas) (ks : List String) : Decidable (PKMode m ks) :=
  decidable_of_iff _ (pKMode_iff m ks).symm

theorem PKMode.k0 {m : V1.Metas} {ks : List String} (K : PKMode m ks) :
    V1K.KMode (noPrec m) ks :=
  ⟨(V1PS.hasSet_noPrec m).trans K.set, (V1PS.keysOf_noPrec m).trans K.keys, K.nonempty,
    (V1PS.hasMerge_noPrec m).trans K.noMerge, V1PS.precOf_noPrec m⟩

theorem PKMode.tag {m : V1.Metas} {ks : List String} (K : PKMode m ks) :
    V1.dispatchTag m = .set := by simp [V1.dispatchTag, K.set]

theorem PKMode.single (k : String) (r : List String) (eps : UInt64) (h : nonnegBits eps = true) :
    PKMode [.set, .setkeys (k :: r), .prec eps] (k :: r) := ⟨rfl, rfl, rfl, rfl, h⟩

section KP
variable {m : V1.Metas} {ks : List String}

/-- one array of keyed members against one array, with an inert precision: transferred from
    `V1K.node_stepK` at the metadata without the precision -/
theorem arr_stepKP (F : FloatEq0) (L : FloatLaws) (K : PKMode m ks) {a0 b0 : Json}
    (H : V1K.KeysHyp (noPrec m) ks a0 b0) (hsep : arrSep (V1.precOf m) a0 b0 = true)
    (xs ys : List Json) (ha : Ok (.arr .raw xs)) (hb : Ok (.arr .raw ys))
    (wa : Within (subterms a0) (.arr .raw xs)) (wb : Within (subterms b0) (.arr .raw ys))
    (p : List Json) : StepE m (.arr .raw xs) (.arr .raw ys) p := by
  obtain ⟨D, r, e, nm, hp, q, _⟩ := V1K.node_stepK F L K.k0 H _ _ ha hb wa wb p
  refine ⟨D, r, ?_, nm, hp, ?_⟩
  · rw [diffNode_inert K.tag _ _ ha.docOk hb.docOk (sepN_of_arrSep hsep wa wb) p]; exact e
  · rw [V1PS.equals_arrRaw_congr (V1PS.tag_noPrec m).symm (Or.inl K.tag)]; exact q.1

/-- **C17, SET + Setkeys + `SetPrecision(eps)` with the precision inert inside arrays, in memory** -/
theorem v1_diff_patch_setkeys_precision (F : FloatEq0) (L : FloatLaws) (K : PKMode m ks)
    (a b : Json) (ha : a.setDoc = true) (hb : b.setDoc = true)
    (ha' : DPL.memOK a = true) (hb' : DPL.memOK b = true)
    (H : V1K.KeysHyp (noPrec m) ks a b) (hsep : arrSep (V1.precOf m) a b = true) :
    ∃ r, V1.patchM a (V1.diffM m a b) = .ok r ∧ V1.equals m r b = true := by
  obtain ⟨D, r, e, _, h, h2⟩ := node_stepG L (Or.inl K.tag) K.precNN
    (fun xs ys oa ob wa wb p => arr_stepKP F L K H hsep xs ys oa ob wa wb p) a b ⟨ha, ha'⟩
    ⟨hb, hb'⟩ (fun _ hz => hz) (fun _ hz => hz) []
  refine ⟨r, ?_, h2⟩
  unfold V1.diffM V1.patchM
  rw [K.noMerge, e, V1S.shift_nil_map]
  exact h

/-- **C17, second half, SET + Setkeys + precision inert inside arrays: the diff is empty exactly
    when `Equals` (with the metadata) holds** -/
theorem v1_diff_empty_iff_equals_setkeys_precision (F : FloatEq0) (L : FloatLaws)
    (K : PKMode m ks) (a b : Json) (ha : a.setDoc = true) (hb : b.setDoc = true)
    (ha' : DPL.memOK a = true) (hb' : DPL.memOK b = true)
    (H : V1K.KeysHyp (noPrec m) ks a b) (hsep : arrSep (V1.precOf m) a b = true) :
    V1.diffM m a b = [] ↔ V1.equals m a b = true := by
  constructor
  · intro hd
    obtain ⟨r, h1, h2⟩ := v1_diff_patch_setkeys_precision F L K a b ha hb ha' hb' H hsep
    rw [hd] at h1
    cases h1
    exact h2
  · intro he
    unfold V1.diffM
    rw [K.noMerge]
    refine nil_of_equalsG (SA := subterms a) (SB := subterms b) (Or.inl K.tag) ?_ a b ⟨ha, ha'⟩
      ⟨hb, hb'⟩ (fun _ hz => hz) (fun _ hz => hz) he []
    intro xs ys oa ob wa wb h p
    have WA : Within (subterms a ++ subterms b) (.arr .raw xs) :=
      fun z hz => List.mem_append.2 (Or.inl (wa z hz))
    have WB : Within (subterms a ++ subterms b) (.arr .raw ys) :=
      fun z hz => List.mem_append.2 (Or.inr (wb z hz))
    rw [V1PS.equals_arrRaw_congr (V1PS.tag_noPrec m).symm (Or.inl K.tag), V1K.k_equals K.k0,
      V1S.equals_eq_equivB_of F V1K.M0 (V1K.k_hf K.k0 H.hf) oa.docOk ob.docOk WA WB] at h
    rw [diffNode_inert K.tag _ _ oa.docOk ob.docOk (sepN_of_arrSep hsep wa wb) p]
    exact V1K.diffNode_nil_of_equivB_K F K.k0 H.hf H.ib _ _ oa.docOk ob.docOk WA WB wb h p

end KP


/-! ## 5.2 non-vacuity: a keyed pair with a precision that matters outside the array -/

namespace ExampleK
open Jd.V1K

/-- `0.1` -/
def eps : UInt64 := 0x3FB999999999999A
def one : UInt64 := 0x3FF0000000000000
def three : UInt64 := 0x4008000000000000
def x105 : UInt64 := 0x3FF0CCCCCCCCCCCD
def mK : V1.Metas := [.set, .setkeys ["id"], .prec eps]
/-- `{"k":1,"s":[{"id":"1","v":1},{"id":"2","v":3}]}` -/
def kA : Json := .obj [("k", .num one), ("s", .arr .raw [
  .obj [("id", .str "1"), ("v", .num one)], .obj [("id", .str "2"), ("v", .num three)]])]
/-- `{"k":1.05,"s":[{"id":"1","v":3},{"id":"3","v":1}]}`: `k` moves within eps (no hunk), the member
    `1` is changed, `2` is removed, `3` is added -/
def kB : Json := .obj [("k", .num x105), ("s", .arr .raw [
  .obj [("id", .str "1"), ("v", .num three)], .obj [("id", .str "3"), ("v", .num one)]])]

-- the float facts: |1 - 3| ≤ 0.1 false, ≤ 0 false; |1 - 1.05| ≤ 0.1 (outside the array: honoured)
#eval (numWithin eps one three, numWithin 0 one three, numWithin eps one x105)
-- the model: `["s",["set","setkeys=id"],{"id":"1"},"v"] - 1 + 3`, `["s",["set","setkeys=id"],{}] - {"id":"2","v":3} + {"id":"3","v":1}`;
-- `k` stays 1. Go (gocheck/c17, run K2): the same.
#eval (V1.diffM mK kA kB).map (fun h => (h.path, h.old, h.new))
#eval match V1.patchM kA (V1.diffM mK kA kB) with
  | .ok r => some (V1.equals mK r kB, V1.equals (noPrec mK) r kB)
  | _ => none

theorem k_mode : PKMode mK ["id"] := PKMode.single "id" [] eps (by decide)
theorem k_docs : kA.setDoc = true ∧ kB.setDoc = true ∧ DPL.memOK kA = true ∧
    DPL.memOK kB = true := by decide

theorem k_hf (L : FloatLaws) :
    V1S.HashFaithful (noPrec mK) [.set] (subterms kA ++ subterms kB) := by
  have r1 : numWithin 0 0x3FF0000000000000 0x3FF0000000000000 = true :=
    L.refl 0 _ (by decide) (by decide)
  have r2 : numWithin 0 0x3FF0CCCCCCCCCCCD 0x3FF0CCCCCCCCCCCD = true :=
    L.refl 0 _ (by decide) (by decide)
  have r3 : numWithin 0 0x4008000000000000 0x4008000000000000 = true :=
    L.refl 0 _ (by decide) (by decide)
  intro x hx y hy
  simp only [kA, kB, one, three, x105, subterms, subtermsList, subtermsKvs,
    List.cons_append, List.nil_append, List.append_nil, List.mem_cons, List.not_mem_nil,
    or_false] at hx hy
  rcases hx with rfl | rfl | rfl | rfl | rfl | rfl | rfl | rfl | rfl | rfl | rfl | rfl | rfl |
    rfl | rfl | rfl | rfl | rfl <;>
  rcases hy with rfl | rfl | rfl | rfl | rfl | rfl | rfl | rfl | rfl | rfl | rfl | rfl | rfl |
    rfl | rfl | rfl | rfl | rfl <;>
  first
  | (intro _; simp [equivB, dispatchTag, precOf, allIn, allCovered, anyEquiv, equivKvs, alookup,
      r1, r2, r3]; done)
  | (intro e; exact absurd e (by decide +kernel))

theorem k_keysHyp (L : FloatLaws) : KeysHyp (noPrec mK) ["id"] kA kB where
  hf := k_hf L
  kd := keyedDistinct_of_check (by decide +kernel)
  hk := hasKey_of_check (by decide +kernel)
  ksep := kindSepI_of_check (by decide +kernel)
  ib := identInj_of_check (by decide +kernel)
  pf := pathFaithful_of_check (by decide +kernel)
  kt := keyTuple_of_check (by decide +kernel)

/-- the precision is inert inside the arrays of the pair, given the float facts `|1 - 3| ≤ 0.1` and
    `|1 - 3| ≤ 0` are both false -/
theorem k_sep (L : FloatLaws) (h1 : numWithin eps one three = false)
    (h0 : numWithin 0 one three = false) : arrSep (V1.precOf mK) kA kB = true := by
  have r1 : numWithin eps one one = true := L.refl _ _ (by decide) (by decide)
  have r3 : numWithin eps three three = true := L.refl _ _ (by decide) (by decide)
  have s1 : numWithin 0 one one = true := L.refl _ _ (by decide) (by decide)
  have s3 : numWithin 0 three three = true := L.refl _ _ (by decide) (by decide)
  have h1' : numWithin eps three one = false := by rw [L.symm]; exact h1
  have h0' : numWithin 0 three one = false := by rw [L.symm]; exact h0
  simp [arrSep, sepNums, kA, kB, mK, V1.precOf, subterms, subtermsList, subtermsKvs,
    r1, r3, s1, s3, h1, h0, h1', h0']

/-- the pair satisfies every hypothesis of the SET + Setkeys + precision theorem (relative to the
    IEEE-754 laws and the two float facts) -/
theorem k_run (F : FloatEq0) (L : FloatLaws) (h1 : numWithin eps one three = false)
    (h0 : numWithin 0 one three = false) :
    ∃ r, V1.patchM kA (V1.diffM mK kA kB) = .ok r ∧ V1.equals mK r kB = true :=
  v1_diff_patch_setkeys_precision F L k_mode kA kB k_docs.1 k_docs.2.1 k_docs.2.2.1 k_docs.2.2.2
    (k_keysHyp L) (k_sep L h1 h0)

/-- the witness of Part 2 is outside the hypothesis (given its float facts) -/
theorem witness_not_sep (h : numWithin Witness.eps Witness.one Witness.x105 = true)
    (h0 : numWithin 0 Witness.one Witness.x105 = false) :
    arrSep (V1.precOf Witness.mW) Witness.wa Witness.wb = false := by
  simp [arrSep, sepNums, Witness.wa, Witness.wb, Witness.mW, V1.precOf, subterms, subtermsList,
    subtermsKvs, h, h0]

end ExampleK

end Jd.V1PK
