/-
  JdProofs.NativeRoundTrip — property C02: rendering a diff in the native jd format and reading it
  back gives a diff that renders to the identical text and has the identical effect.

  encoding/json (the JSON text of payload values and of the path) is external code: the theorems are
  stated RELATIVE to an explicit contract about the payloads / paths of the diff at hand (`CodecOK`).
  What is proved is jd's own text logic: the line structure (`strings.Split(s, "\n")` of the rendered
  text, section 10), the 7-state reader automaton with the GENERATED transition / flush / open /
  close / non-terminal tables (section 4), the `@` and `^` headers, the `[` / `]` boundary markers,
  the bare `+` line of a merge deletion, the metadata line and its inheritance, `checkDiffElement`,
  and the path ↔ JSON mapping `Path.JsonNode` / `NewPath` (section 3).

  Everything lives in `namespace Jd.NativeRT`.

  Definitions
    `normHunk` / `normDiff`  what reading back can at most change: payload values `untag`ged, the key
                             objects of `{"k":v}` / `[{"k":v}]` path elements `untag`ged, the path
                             element `.setKeys []` ↦ `.set` (both are written `{}`), entries that
                             render as nothing dropped (void in `remove`; void in `add` of a strict
                             hunk). CHOICE: `untag`, not `rawNorm`: for payloads with set / multiset
                             typed nodes inside objects the contract `CodecOK` cannot hold (the text
                             is sorted by `rawNorm`), so they are outside theorem (i) by hypothesis,
                             and theorem (ii) asks for `listDocHunk` explicitly.
    `wfHunk`                 the domain (Bool): path indices survive float64 (`idxOK`, implied by
                             |i| < 2^53: `idxOK_of_bound`); a void `before` entry only in first
                             position (`[` is accepted only right after `@`); at least one `-` / `+`
                             line is rendered; `checkDiffElement` on what is rendered. Nothing is asked
                             of `after`, of void entries in `remove` / strict `add`, nor of the `add`
                             of a merge hunk (any list, void entries are bare `+` lines).
                             (A hunk rendering only context lines is accepted by the reader as the LAST
                             hunk if it has no `after`; that corner is not covered.)
    `wfDiff`                 all hunks `wfHunk`, and no strict hunk after a merge hunk (`mergeMono`).
    `CodecOK nc d`           for every hunk: `PathOK` (the path text has no newline and is read back
                             as `untag (pathToJson path)`) and `ValOK` for every non-void payload value
                             (its text `t` has no newline and `ReadJsonString(" " ++ t)` is `untag v`).
                             Satisfiable: `exDiff_codecOK`.
  Theorems
    (i)   `read_render`        wfDiff d → CodecOK nc d → renderM nc [] d = some text →
                               readDiffM nc text = .ok (normDiff d)
                               — on the TEXT, through `String.splitOn` (`splitOn_unlines`, proved from
                               the position lemmas of `Batteries.Data.String.Lemmas`; no Mathlib).
          `readLines_rendered` the same on the list of lines; `renderM_lines` : the rendered text is
                               `unlines` of `diffLines`.
          `readLines_hunk`     one hunk from any hunk boundary of the automaton.
    (ii)  `render_norm`        d.all listDocHunk → renderM nc [] (normDiff d) = renderM nc [] d
          `render_read_render` (i) + (ii): the text read back and rendered again is the same text.
          `marshalNode_untag`  marshalNode nc (untag v) = marshalNode nc v on list-mode documents.
    (iv)  `renderM_color_strip` NoEsc nc d → (renderM nc [.color] d).map (strip ANSI) = renderM nc [] d,
                               including the single-string-diff branch (`colorStringMarshal_strips`;
                               the escaped text never contains ESC: `escapeBody_noesc`).
    path  `newPathM_norm`      idxOK p → newPathM (untag (pathToJson p)) = .ok (normPath p)
          `floatTrunc_intToFloatBits`  |i| < 2^53 → floatTrunc (intToFloatBits i) = i
-/
import JdModel
import JdSpec
import JdProofs.StrictPatch
import Batteries.Data.String.Lemmas

set_option linter.deprecated false

namespace Jd.NativeRT
open Jd Jd.Spec

/-! ### 1. definitions -/

/-- what reading back does to one path element: `{}` is read as the plain set element, the key
    objects come back as plain documents -/
def normElem : PathElem → PathElem
  | .setKeys o => if o.isEmpty then .set else .setKeys (untagKvs o)
  | .msetKeys o => .msetKeys (untagKvs o)
  | e => e

def normPath (p : Path) : Path := p.map normElem

/-- the values that produce a `-` line -/
def remLines (h : Hunk) : List Json := h.remove.filter (fun v => !v.isVoid)

/-- the values that produce a `+` line: in a merge hunk every entry (void = the bare `+` of a
    deletion), in a strict hunk the non-void ones -/
def addLines (h : Hunk) : List Json := if h.merge then h.add else h.add.filter (fun v => !v.isVoid)

/-- what reading back can at most change -/
def normHunk (h : Hunk) : Hunk :=
  { merge := h.merge
    path := normPath h.path
    before := h.before.map untag
    remove := (remLines h).map untag
    add := (addLines h).map untag
    after := h.after.map untag }

def normDiff (d : Diff) : Diff := d.map normHunk

/-- path indices survive `float64 → int` -/
def idxOK : Path → Bool
  | [] => true
  | .idx i :: r => (floatTrunc (intToFloatBits i) == i) && idxOK r
  | _ :: r => idxOK r

/-- the last path element admits several removed / added values (the test of `checkDiffElement`) -/
def multiLast (p : Path) : Bool :=
  match p.getLast? with
  | none => false
  | some e => Gen.multiValueKinds.contains (pathElemKind e)

/-- the domain, per hunk -/
def wfHunk (h : Hunk) : Bool :=
  idxOK h.path
  -- `[` only right after `@`
  && (h.before.drop 1).all (fun v => !v.isVoid)
  -- at least one `-` / `+` line
  && (!(remLines h).isEmpty || !(addLines h).isEmpty)
  -- `checkDiffElement` on what is rendered
  && ((decide ((addLines h).length ≤ 1) && decide ((remLines h).length ≤ 1)) || multiLast h.path)

/-- no strict hunk after a merge hunk (starting with inherited flag `m`) -/
def mergeMono : Bool → Diff → Bool
  | _, [] => true
  | m, h :: r => (!m || h.merge) && mergeMono h.merge r

def wfDiff (d : Diff) : Bool := d.all wfHunk && mergeMono false d

/-- payload values: the non-void entries -/
def payloads (h : Hunk) : List Json :=
  (h.before ++ h.remove ++ h.add ++ h.after).filter (fun v => !v.isVoid)

/-- codec contract for one payload value -/
def ValOK (nc : NumCodec) (v : Json) : Prop :=
  ∀ t, marshalNode nc v = some t →
    '\n' ∉ t.toList ∧ readJsonM nc (" " ++ t) = .ok (untag v)

/-- codec contract for one path -/
def PathOK (nc : NumCodec) (p : Path) : Prop :=
  ∀ t, jsonM nc (pathToJson p) = some t →
    '\n' ∉ t.toList ∧ readJsonM nc (" " ++ t) = .ok (untag (pathToJson p))

def CodecOK (nc : NumCodec) (d : Diff) : Prop :=
  ∀ h ∈ d, PathOK nc h.path ∧ ∀ v ∈ payloads h, ValOK nc v

/-! ### 2. small facts -/

theorem untag_void_iff (v : Json) : (untag v).isVoid = v.isVoid := untag_isVoid v

theorem str_ofList_space (t : String) : String.ofList (' ' :: t.toList) = " " ++ t := by
  apply String.toList_inj.mp; simp

/-! ### 3. the path mapping -/

theorem pathElemKind_norm (e : PathElem) :
    Gen.multiValueKinds.contains (pathElemKind (normElem e)) =
      Gen.multiValueKinds.contains (pathElemKind e) := by
  cases e <;> simp only [normElem] <;> try rfl
  split
  · simp only [pathElemKind]; decide
  · simp only [pathElemKind]

theorem multiLast_norm (p : Path) : multiLast (normPath p) = multiLast p := by
  unfold multiLast normPath
  rw [List.getLast?_map]
  cases p.getLast? with
  | none => rfl
  | some e => simp only [Option.map_some]; exact pathElemKind_norm e

theorem newPathM_go_norm : ∀ p : Path, idxOK p = true →
    newPathM.go (untagList (p.map (fun e => match e with
      | .key k => Json.str k
      | .idx i => .num (intToFloatBits i)
      | .set => .obj []
      | .mset => .arr .raw []
      | .setKeys o => .obj o
      | .msetKeys o => .arr .raw [.obj o]))) = .ok (normPath p)
  | [], _ => by simp [untagList, newPathM.go, normPath]
  | e :: r, h => by
    have ih := newPathM_go_norm r
    cases e with
    | key k =>
      simp only [idxOK] at h
      simp [untagList, newPathM.go, untag, ih h, normPath, normElem] at *
    | idx i =>
      simp only [idxOK, Bool.and_eq_true, beq_iff_eq] at h
      simp [untagList, newPathM.go, untag, ih h.2, normPath, normElem, h.1] at *
    | set =>
      simp only [idxOK] at h
      simp [untagList, newPathM.go, untag, untagKvs, ih h, normPath, normElem] at *
    | mset =>
      simp only [idxOK] at h
      simp [untagList, newPathM.go, untag, ih h, normPath, normElem] at *
    | setKeys o =>
      simp only [idxOK] at h
      cases o with
      | nil => simp [untagList, newPathM.go, untag, untagKvs, ih h, normPath, normElem] at *
      | cons kv o =>
        obtain ⟨k, v⟩ := kv
        simp [untagList, newPathM.go, untag, untagKvs, ih h, normPath, normElem] at *
    | msetKeys o =>
      simp only [idxOK] at h
      simp [untagList, newPathM.go, untag, ih h, normPath, normElem] at *

theorem newPathM_norm (p : Path) (h : idxOK p = true) :
    newPathM (untag (pathToJson p)) = .ok (normPath p) := by
  simp only [pathToJson, untag, newPathM]
  exact newPathM_go_norm p h


/-! ### 4. the generated tables, as functions of the state -/

theorem allows_hat (st : RState) : readerAllows st (String.singleton '^') =
    (st == .init || st == .mt || st == .remove || st == .add || st == .after) := by
  cases st <;> decide
theorem allows_at (st : RState) : readerAllows st (String.singleton '@') =
    (st == .init || st == .mt || st == .remove || st == .add || st == .after) := by
  cases st <;> decide
theorem allows_open (st : RState) : readerAllows st (String.singleton '[') = (st == .at) := by
  cases st <;> decide
theorem allows_close (st : RState) : readerAllows st (String.singleton ']') =
    (st == .remove || st == .add || st == .after) := by
  cases st <;> decide
theorem allows_space (st : RState) : readerAllows st (String.singleton ' ') =
    (st == .before || st == .at || st == .remove || st == .add || st == .after) := by
  cases st <;> decide
theorem allows_minus (st : RState) : readerAllows st (String.singleton '-') =
    (st == .before || st == .at || st == .remove) := by
  cases st <;> decide
theorem allows_plus (st : RState) : readerAllows st (String.singleton '+') =
    (st == .before || st == .at || st == .remove || st == .add) := by
  cases st <;> decide
theorem flushes_hat (st : RState) : readerFlushes st (String.singleton '^') =
    (st == .remove || st == .add || st == .after) := by
  cases st <;> decide
theorem flushes_at (st : RState) : readerFlushes st (String.singleton '@') =
    (st == .remove || st == .add || st == .after) := by
  cases st <;> decide
theorem flushes_open (st : RState) : readerFlushes st (String.singleton '[') = false := by
  cases st <;> decide
theorem flushes_close (st : RState) : readerFlushes st (String.singleton ']') = false := by
  cases st <;> decide
theorem flushes_space (st : RState) : readerFlushes st (String.singleton ' ') = false := by
  cases st <;> decide
theorem flushes_minus (st : RState) : readerFlushes st (String.singleton '-') = false := by
  cases st <;> decide
theorem flushes_plus (st : RState) : readerFlushes st (String.singleton '+') = false := by
  cases st <;> decide
theorem openFrom_eq (st : RState) : Gen.readerOpenFrom.contains st.name = (st == .at) := by
  cases st <;> decide
theorem closeFrom_eq (st : RState) : Gen.readerCloseFrom.contains st.name =
    (st == .remove || st == .add || st == .after) := by
  cases st <;> decide
theorem nonTerminal_eq (st : RState) : Gen.readerNonTerminal.contains st.name =
    (st == .mt || st == .at) := by
  cases st <;> decide

/-! ### 5. one line -/

theorem readLine_rem (nc : NumCodec) (acc : RAcc) (t : String) (v : Json)
    (hst : acc.st = .at ∨ acc.st = .before ∨ acc.st = .remove)
    (hr : readJsonM nc (" " ++ t) = .ok v) :
    readLine nc acc ("- " ++ t) =
      .ok { acc with st := .remove, cur := { acc.cur with remove := acc.cur.remove ++ [v] } } := by
  have hl : ("- " ++ t).toList = '-' :: ' ' :: t.toList := by simp
  unfold readLine
  rw [hl]
  simp only [str_ofList_space, hr, allows_minus, flushes_minus]
  rcases hst with h | h | h <;> rw [h] <;> simp

theorem readLine_plus (nc : NumCodec) (acc : RAcc) (t : String) (v : Json)
    (hst : acc.st = .at ∨ acc.st = .before ∨ acc.st = .remove ∨ acc.st = .add)
    (hr : readJsonM nc (" " ++ t) = .ok v) :
    readLine nc acc ("+ " ++ t) =
      .ok { acc with st := .add, cur := { acc.cur with add := acc.cur.add ++ [v] } } := by
  have hl : ("+ " ++ t).toList = '+' :: ' ' :: t.toList := by simp
  unfold readLine
  rw [hl]
  simp only [str_ofList_space, hr, allows_plus, flushes_plus]
  rcases hst with h | h | h | h <;> rw [h] <;> simp

theorem readJsonM_empty (nc : NumCodec) : readJsonM nc "" = .ok .void := by rfl

theorem readLine_plusBare (nc : NumCodec) (acc : RAcc)
    (hst : acc.st = .at ∨ acc.st = .before ∨ acc.st = .remove ∨ acc.st = .add) :
    readLine nc acc "+" =
      .ok { acc with st := .add, cur := { acc.cur with add := acc.cur.add ++ [.void] } } := by
  have hl : ("+" : String).toList = ['+'] := by simp
  have he : String.ofList [] = "" := by simp
  unfold readLine
  rw [hl]
  simp only [he, readJsonM_empty, allows_plus, flushes_plus]
  rcases hst with h | h | h | h <;> rw [h] <;> simp

theorem readLine_ctxB (nc : NumCodec) (acc : RAcc) (t : String) (v : Json)
    (hst : acc.st = .at ∨ acc.st = .before)
    (hr : readJsonM nc (" " ++ t) = .ok v) :
    readLine nc acc ("  " ++ t) =
      .ok { acc with st := .before, cur := { acc.cur with before := acc.cur.before ++ [v] } } := by
  have hl : ("  " ++ t).toList = ' ' :: ' ' :: t.toList := by simp
  unfold readLine
  rw [hl]
  simp only [str_ofList_space, hr, allows_space, flushes_space]
  rcases hst with h | h <;> rw [h] <;> simp

theorem readLine_ctxA (nc : NumCodec) (acc : RAcc) (t : String) (v : Json)
    (hst : acc.st = .remove ∨ acc.st = .add ∨ acc.st = .after)
    (hr : readJsonM nc (" " ++ t) = .ok v) :
    readLine nc acc ("  " ++ t) =
      .ok { acc with st := .after, cur := { acc.cur with after := acc.cur.after ++ [v] } } := by
  have hl : ("  " ++ t).toList = ' ' :: ' ' :: t.toList := by simp
  unfold readLine
  rw [hl]
  simp only [str_ofList_space, hr, allows_space, flushes_space]
  rcases hst with h | h | h <;> rw [h] <;> simp

theorem readLine_open (nc : NumCodec) (acc : RAcc) (hst : acc.st = .at) :
    readLine nc acc "[" =
      .ok { acc with st := .before, cur := { acc.cur with before := acc.cur.before ++ [.void] } } := by
  have hl : ("[" : String).toList = ['['] := by simp
  unfold readLine
  rw [hl]
  simp only [allows_open, flushes_open, openFrom_eq]
  rw [hst]; simp

theorem readLine_close (nc : NumCodec) (acc : RAcc)
    (hst : acc.st = .remove ∨ acc.st = .add ∨ acc.st = .after) :
    readLine nc acc "]" =
      .ok { acc with st := .after, cur := { acc.cur with after := acc.cur.after ++ [.void] } } := by
  have hl : ("]" : String).toList = [']'] := by simp
  unfold readLine
  rw [hl]
  simp only [allows_close, flushes_close, closeFrom_eq]
  rcases hst with h | h | h <;> rw [h] <;> simp

theorem readLine_empty (nc : NumCodec) (acc : RAcc) : readLine nc acc "" = .ok acc := by
  have hl : ("" : String).toList = [] := by simp
  unfold readLine
  rw [hl]

/-- the accumulator is at a hunk boundary: nothing read yet, or a complete hunk is pending that
    passes `checkDiffElement` -/
def AtBoundary (acc : RAcc) : Prop :=
  acc.st = .init ∨ ((acc.st = .remove ∨ acc.st = .add ∨ acc.st = .after) ∧ checkHunk acc.cur = true)

/-- the hunks read so far, the pending one included -/
def flushOut (acc : RAcc) : Diff := if acc.st = .init then acc.out else acc.out ++ [acc.cur]

theorem readLine_at (nc : NumCodec) (acc : RAcc) (t : String) (n : Json) (p : Path)
    (hb : AtBoundary acc)
    (hr : readJsonM nc (" " ++ t) = .ok n) (hp : newPathM n = .ok p) :
    readLine nc acc ("@ " ++ t) =
      .ok { st := .at, cur := { merge := acc.cur.merge, path := p }, out := flushOut acc } := by
  have hl : ("@ " ++ t).toList = '@' :: ' ' :: t.toList := by simp
  unfold readLine
  rw [hl]
  simp only [str_ofList_space, hr, hp, allows_at, flushes_at, flushOut]
  rcases hb with h | ⟨h | h | h, hc⟩
  · rw [h]; simp
  all_goals (rw [h]; simp [hc])

theorem readLine_atMeta (nc : NumCodec) (acc : RAcc) (t : String) (n : Json) (p : Path)
    (hb : acc.st = .mt)
    (hr : readJsonM nc (" " ++ t) = .ok n) (hp : newPathM n = .ok p) :
    readLine nc acc ("@ " ++ t) =
      .ok { st := .at, cur := { merge := acc.cur.merge, path := p }, out := acc.out } := by
  have hl : ("@ " ++ t).toList = '@' :: ' ' :: t.toList := by simp
  unfold readLine
  rw [hl]
  simp only [str_ofList_space, hr, hp, allows_at, flushes_at]
  rw [hb]; simp

theorem readJsonM_mergeMeta (nc : NumCodec) :
    readJsonM nc " {\"Merge\":true}" = .ok (.obj [("Merge", .bool true)]) := by
  simp [readJsonM, trimGoSpace, parseJson, parseValue, skipWs, isJsonWs, parseMembers, lexString,
    ainsert]

theorem readLine_meta (nc : NumCodec) (acc : RAcc) (hb : AtBoundary acc) :
    readLine nc acc "^ {\"Merge\":true}" =
      .ok { st := .mt, cur := { acc.cur with merge := true }, out := flushOut acc } := by
  have hl : ("^ {\"Merge\":true}" : String).toList = '^' :: " {\"Merge\":true}".toList := by simp
  unfold readLine
  rw [hl]
  simp only [String.ofList_toList, readJsonM_mergeMeta, allows_hat, flushes_hat, flushOut]
  rcases hb with h | ⟨h | h | h, hc⟩
  · rw [h]; simp [readMetadataM]
  all_goals (rw [h]; simp [hc, readMetadataM])

/-! ### 6. runs of lines -/

theorem readLines_append (nc : NumCodec) : ∀ (a b : List String) (acc acc' : RAcc),
    readLines nc acc a = .ok acc' → readLines nc acc (a ++ b) = readLines nc acc' b
  | [], b, acc, acc', h => by
    simp only [readLines, Outcome.ok.injEq] at h
    simp [h]
  | l :: a, b, acc, acc', h => by
    simp only [readLines, List.cons_append] at h ⊢
    cases hl : readLine nc acc l with
    | ok a1 => rw [hl] at h; exact readLines_append nc a b a1 acc' h
    | err => rw [hl] at h; cases h
    | panic => rw [hl] at h; cases h

theorem optAll_cons_some {α} {x : Option α} {l : List (Option α)} {ls : List α}
    (h : optAll (x :: l) = some ls) : ∃ a r, x = some a ∧ optAll l = some r ∧ ls = a :: r := by
  cases x with
  | none => simp [optAll] at h
  | some a =>
    simp only [optAll, Option.map_eq_some_iff] at h
    obtain ⟨r, hr, rfl⟩ := h
    exact ⟨a, r, rfl, hr, rfl⟩

/-- line of a context entry -/
def ctxLine (nc : NumCodec) (mark : String) (v : Json) : Option String :=
  if v.isVoid then some mark else (marshalNode nc v).map (fun t => "  " ++ t)
def remLine (nc : NumCodec) (v : Json) : Option String :=
  (marshalNode nc v).map (fun t => "- " ++ t)
def addLine (nc : NumCodec) (v : Json) : Option String :=
  if v.isVoid then some "+" else (marshalNode nc v).map (fun t => "+ " ++ t)

theorem readLines_before (nc : NumCodec) : ∀ (vs : List Json) (ls : List String) (acc : RAcc),
    (∀ v ∈ vs, v.isVoid = false → ValOK nc v) →
    optAll (vs.map (ctxLine nc "[")) = some ls →
    ((acc.st = .at ∧ (vs.drop 1).all (fun v => !v.isVoid) = true) ∨
      (acc.st = .before ∧ vs.all (fun v => !v.isVoid) = true)) →
    ∃ st', readLines nc acc ls =
        .ok { acc with st := st', cur := { acc.cur with before := acc.cur.before ++ vs.map untag } } ∧
      (st' = .at ∨ st' = .before)
  | [], ls, acc, _, hl, hst => by
    simp only [List.map_nil, optAll, Option.some.injEq] at hl
    subst hl
    refine ⟨acc.st, ?_, ?_⟩
    · simp [readLines]
    · rcases hst with h | h <;> simp [h.1]
  | v :: r, ls, acc, hv, hl, hst => by
    simp only [List.map_cons] at hl
    obtain ⟨a, lr, ha, hlr, rfl⟩ := optAll_cons_some hl
    have hvr : ∀ v ∈ r, v.isVoid = false → ValOK nc v := fun w hw => hv w (List.mem_cons_of_mem _ hw)
    cases hvoid : v.isVoid with
    | true =>
      have hvv : v = .void := by cases v <;> simp_all [Json.isVoid]
      subst hvv
      simp only [ctxLine, Json.isVoid, ↓reduceIte, Option.some.injEq] at ha
      subst ha
      rcases hst with ⟨h1, h2⟩ | ⟨_, h2⟩
      · simp only [List.drop_succ_cons, List.drop_zero] at h2
        have h0 := readLine_open nc acc h1
        obtain ⟨st', hrd, hst'⟩ := readLines_before nc r lr
          { acc with st := .before, cur := { acc.cur with before := acc.cur.before ++ [.void] } }
          hvr hlr (Or.inr ⟨rfl, h2⟩)
        refine ⟨st', ?_, hst'⟩
        simp only [readLines, h0, hrd]
        simp [untag]
      · simp [Json.isVoid] at h2
    | false =>
      simp only [ctxLine, hvoid, Bool.false_eq_true, ↓reduceIte, Option.map_eq_some_iff] at ha
      obtain ⟨t, ht, rfl⟩ := ha
      have hok := (hv v (List.mem_cons_self ..) hvoid t ht).2
      have hst0 : acc.st = .at ∨ acc.st = .before := by rcases hst with h | h <;> simp [h.1]
      have hall : r.all (fun v => !v.isVoid) = true := by
        rcases hst with ⟨_, h2⟩ | ⟨_, h2⟩
        · simpa using h2
        · simp only [List.all_cons, Bool.and_eq_true] at h2; exact h2.2
      have h0 := readLine_ctxB nc acc t _ hst0 hok
      obtain ⟨st', hrd, hst'⟩ := readLines_before nc r lr
        { acc with st := .before, cur := { acc.cur with before := acc.cur.before ++ [untag v] } }
        hvr hlr (Or.inr ⟨rfl, hall⟩)
      refine ⟨st', ?_, hst'⟩
      simp only [readLines, h0, hrd]
      simp

theorem readLines_remove (nc : NumCodec) : ∀ (vs : List Json) (ls : List String) (acc : RAcc),
    (∀ v ∈ vs, v.isVoid = false ∧ ValOK nc v) →
    optAll (vs.map (remLine nc)) = some ls →
    (acc.st = .at ∨ acc.st = .before ∨ acc.st = .remove) →
    ∃ st', readLines nc acc ls =
        .ok { acc with st := st', cur := { acc.cur with remove := acc.cur.remove ++ vs.map untag } } ∧
      ((vs = [] ∧ st' = acc.st) ∨ (vs ≠ [] ∧ st' = .remove))
  | [], ls, acc, _, hl, hst => by
    simp only [List.map_nil, optAll, Option.some.injEq] at hl
    subst hl
    exact ⟨acc.st, by simp [readLines], Or.inl ⟨rfl, rfl⟩⟩
  | v :: r, ls, acc, hv, hl, hst => by
    simp only [List.map_cons] at hl
    obtain ⟨a, lr, ha, hlr, rfl⟩ := optAll_cons_some hl
    have hvr : ∀ v ∈ r, v.isVoid = false ∧ ValOK nc v := fun w hw => hv w (List.mem_cons_of_mem _ hw)
    simp only [remLine, Option.map_eq_some_iff] at ha
    obtain ⟨t, ht, rfl⟩ := ha
    have hok := ((hv v (List.mem_cons_self ..)).2 t ht).2
    have h0 := readLine_rem nc acc t _ hst hok
    obtain ⟨st', hrd, hst'⟩ := readLines_remove nc r lr
      { acc with st := .remove, cur := { acc.cur with remove := acc.cur.remove ++ [untag v] } }
      hvr hlr (Or.inr (Or.inr rfl))
    refine ⟨st', ?_, Or.inr ⟨by simp, ?_⟩⟩
    · simp only [readLines, h0, hrd]
      simp
    · rcases hst' with h | h
      · exact h.2
      · exact h.2

theorem readLines_add (nc : NumCodec) : ∀ (vs : List Json) (ls : List String) (acc : RAcc),
    (∀ v ∈ vs, v.isVoid = false → ValOK nc v) →
    optAll (vs.map (addLine nc)) = some ls →
    (acc.st = .at ∨ acc.st = .before ∨ acc.st = .remove ∨ acc.st = .add) →
    ∃ st', readLines nc acc ls =
        .ok { acc with st := st', cur := { acc.cur with add := acc.cur.add ++ vs.map untag } } ∧
      ((vs = [] ∧ st' = acc.st) ∨ (vs ≠ [] ∧ st' = .add))
  | [], ls, acc, _, hl, hst => by
    simp only [List.map_nil, optAll, Option.some.injEq] at hl
    subst hl
    exact ⟨acc.st, by simp [readLines], Or.inl ⟨rfl, rfl⟩⟩
  | v :: r, ls, acc, hv, hl, hst => by
    simp only [List.map_cons] at hl
    obtain ⟨a, lr, ha, hlr, rfl⟩ := optAll_cons_some hl
    have hvr : ∀ v ∈ r, v.isVoid = false → ValOK nc v := fun w hw => hv w (List.mem_cons_of_mem _ hw)
    cases hvoid : v.isVoid with
    | true =>
      have hvv : v = .void := by cases v <;> simp_all [Json.isVoid]
      subst hvv
      simp only [addLine, Json.isVoid, ↓reduceIte, Option.some.injEq] at ha
      subst ha
      have h0 := readLine_plusBare nc acc hst
      obtain ⟨st', hrd, hst'⟩ := readLines_add nc r lr
        { acc with st := .add, cur := { acc.cur with add := acc.cur.add ++ [.void] } }
        hvr hlr (Or.inr (Or.inr (Or.inr rfl)))
      refine ⟨st', ?_, Or.inr ⟨by simp, ?_⟩⟩
      · simp only [readLines, h0, hrd]
        simp [untag]
      · rcases hst' with h | h
        · exact h.2
        · exact h.2
    | false =>
      simp only [addLine, hvoid, Bool.false_eq_true, ↓reduceIte, Option.map_eq_some_iff] at ha
      obtain ⟨t, ht, rfl⟩ := ha
      have hok := (hv v (List.mem_cons_self ..) hvoid t ht).2
      have h0 := readLine_plus nc acc t _ hst hok
      obtain ⟨st', hrd, hst'⟩ := readLines_add nc r lr
        { acc with st := .add, cur := { acc.cur with add := acc.cur.add ++ [untag v] } }
        hvr hlr (Or.inr (Or.inr (Or.inr rfl)))
      refine ⟨st', ?_, Or.inr ⟨by simp, ?_⟩⟩
      · simp only [readLines, h0, hrd]
        simp
      · rcases hst' with h | h
        · exact h.2
        · exact h.2

theorem readLines_after (nc : NumCodec) : ∀ (vs : List Json) (ls : List String) (acc : RAcc),
    (∀ v ∈ vs, v.isVoid = false → ValOK nc v) →
    optAll (vs.map (ctxLine nc "]")) = some ls →
    (acc.st = .remove ∨ acc.st = .add ∨ acc.st = .after) →
    ∃ st', readLines nc acc ls =
        .ok { acc with st := st', cur := { acc.cur with after := acc.cur.after ++ vs.map untag } } ∧
      (st' = .remove ∨ st' = .add ∨ st' = .after)
  | [], ls, acc, _, hl, hst => by
    simp only [List.map_nil, optAll, Option.some.injEq] at hl
    subst hl
    exact ⟨acc.st, by simp [readLines], hst⟩
  | v :: r, ls, acc, hv, hl, hst => by
    simp only [List.map_cons] at hl
    obtain ⟨a, lr, ha, hlr, rfl⟩ := optAll_cons_some hl
    have hvr : ∀ v ∈ r, v.isVoid = false → ValOK nc v := fun w hw => hv w (List.mem_cons_of_mem _ hw)
    cases hvoid : v.isVoid with
    | true =>
      have hvv : v = .void := by cases v <;> simp_all [Json.isVoid]
      subst hvv
      simp only [ctxLine, Json.isVoid, ↓reduceIte, Option.some.injEq] at ha
      subst ha
      have h0 := readLine_close nc acc hst
      obtain ⟨st', hrd, hst'⟩ := readLines_after nc r lr
        { acc with st := .after, cur := { acc.cur with after := acc.cur.after ++ [.void] } }
        hvr hlr (Or.inr (Or.inr rfl))
      refine ⟨st', ?_, hst'⟩
      simp only [readLines, h0, hrd]
      simp [untag]
    | false =>
      simp only [ctxLine, hvoid, Bool.false_eq_true, ↓reduceIte, Option.map_eq_some_iff] at ha
      obtain ⟨t, ht, rfl⟩ := ha
      have hok := (hv v (List.mem_cons_self ..) hvoid t ht).2
      have h0 := readLine_ctxA nc acc t _ hst hok
      obtain ⟨st', hrd, hst'⟩ := readLines_after nc r lr
        { acc with st := .after, cur := { acc.cur with after := acc.cur.after ++ [untag v] } }
        hvr hlr (Or.inr (Or.inr rfl))
      refine ⟨st', ?_, hst'⟩
      simp only [readLines, h0, hrd]
      simp

/-! ### 7. one hunk -/

theorem mem_payloads {h : Hunk} {v : Json} (hv : v.isVoid = false)
    (hm : v ∈ h.before ∨ v ∈ h.remove ∨ v ∈ h.add ∨ v ∈ h.after) : v ∈ payloads h := by
  simp only [payloads, List.mem_filter, List.mem_append, hv, Bool.not_false, and_true]
  rcases hm with h | h | h | h <;> simp [h]

theorem mem_addLines {h : Hunk} {v : Json} (hm : v ∈ addLines h) : v ∈ h.add := by
  unfold addLines at hm
  split at hm
  · exact hm
  · exact (List.mem_filter.mp hm).1

theorem readLines_body (nc : NumCodec) (h : Hunk) (b r a f : List String) (acc : RAcc)
    (hw1 : (h.before.drop 1).all (fun v => !v.isVoid) = true)
    (hw2 : (!(remLines h).isEmpty || !(addLines h).isEmpty) = true)
    (hv : ∀ v ∈ payloads h, ValOK nc v)
    (hb : optAll (h.before.map (ctxLine nc "[")) = some b)
    (hr : optAll ((remLines h).map (remLine nc)) = some r)
    (ha : optAll ((addLines h).map (addLine nc)) = some a)
    (hf : optAll (h.after.map (ctxLine nc "]")) = some f)
    (hst : acc.st = .at) :
    ∃ st', readLines nc acc (b ++ (r ++ (a ++ f))) =
        .ok { acc with
              st := st'
              cur := { acc.cur with
                        before := acc.cur.before ++ h.before.map untag
                        remove := acc.cur.remove ++ (remLines h).map untag
                        add := acc.cur.add ++ (addLines h).map untag
                        after := acc.cur.after ++ h.after.map untag } } ∧
      (st' = .remove ∨ st' = .add ∨ st' = .after) := by
  obtain ⟨s1, e1, hs1⟩ := readLines_before nc h.before b acc
    (fun v hm hvv => hv v (mem_payloads hvv (Or.inl hm))) hb (Or.inl ⟨hst, hw1⟩)
  obtain ⟨s2, e2, hs2⟩ := readLines_remove nc (remLines h) r
    { acc with st := s1, cur := { acc.cur with before := acc.cur.before ++ h.before.map untag } }
    (fun v hm => by
      have := List.mem_filter.mp hm
      have hvv : v.isVoid = false := by simpa using this.2
      exact ⟨hvv, hv v (mem_payloads hvv (Or.inr (Or.inl this.1)))⟩) hr
    (by rcases hs1 with h | h <;> simp [h])
  obtain ⟨s3, e3, hs3⟩ := readLines_add nc (addLines h) a
    { acc with st := s2, cur := { acc.cur with
        before := acc.cur.before ++ h.before.map untag
        remove := acc.cur.remove ++ (remLines h).map untag } }
    (fun v hm hvv => hv v (mem_payloads hvv (Or.inr (Or.inr (Or.inl (mem_addLines hm)))))) ha
    (by
      rcases hs2 with ⟨_, h⟩ | ⟨_, h⟩
      · rcases hs1 with h' | h' <;> simp [h, h']
      · simp [h])
  have hs3' : s3 = .remove ∨ s3 = .add ∨ s3 = .after := by
    rcases hs3 with ⟨ha0, h3⟩ | ⟨_, h3⟩
    · rcases hs2 with ⟨hr0, _⟩ | ⟨_, h2⟩
      · simp [hr0, ha0] at hw2
      · left; rw [h3]; exact h2
    · right; left; exact h3
  obtain ⟨s4, e4, hs4⟩ := readLines_after nc h.after f
    { acc with st := s3, cur := { acc.cur with
        before := acc.cur.before ++ h.before.map untag
        remove := acc.cur.remove ++ (remLines h).map untag
        add := acc.cur.add ++ (addLines h).map untag } }
    (fun v hm hvv => hv v (mem_payloads hvv (Or.inr (Or.inr (Or.inr hm))))) hf hs3'
  refine ⟨s4, ?_, hs4⟩
  rw [readLines_append nc b _ acc _ e1, readLines_append nc r _ _ _ e2,
    readLines_append nc a _ _ _ e3, e4]

/-- the lines of one hunk (each is written followed by a newline) -/
def hunkLines (nc : NumCodec) (h : Hunk) : Option (List String) := do
  let pt ← jsonM nc (pathToJson h.path)
  let b ← optAll (h.before.map (ctxLine nc "["))
  let r ← optAll ((remLines h).map (remLine nc))
  let a ← optAll ((addLines h).map (addLine nc))
  let f ← optAll (h.after.map (ctxLine nc "]"))
  pure ((if h.merge then ["^ {\"Merge\":true}"] else []) ++ ("@ " ++ pt) :: (b ++ (r ++ (a ++ f))))

theorem checkHunk_norm (h : Hunk) (hw : wfHunk h = true) : checkHunk (normHunk h) = true := by
  simp only [wfHunk, Bool.and_eq_true] at hw
  obtain ⟨⟨_, _⟩, hc⟩ := hw
  simp only [checkHunk, normHunk, List.length_map]
  split
  · rename_i hgt
    have hm : multiLast h.path = true := by
      simp only [Bool.or_eq_true, Bool.and_eq_true, decide_eq_true_eq] at hc hgt
      rcases hc with ⟨h1, h2⟩ | h
      · omega
      · exact h
    rw [← multiLast_norm] at hm
    unfold multiLast at hm
    exact hm
  · rfl

theorem readLines_hunk (nc : NumCodec) (h : Hunk) (ls : List String) (acc : RAcc)
    (hw : wfHunk h = true) (hp : PathOK nc h.path) (hv : ∀ v ∈ payloads h, ValOK nc v)
    (hl : hunkLines nc h = some ls) (hb : AtBoundary acc)
    (hm : acc.cur.merge = true → h.merge = true) :
    ∃ st', readLines nc acc ls = .ok { st := st', cur := normHunk h, out := flushOut acc } ∧
      (st' = .remove ∨ st' = .add ∨ st' = .after) := by
  simp only [hunkLines, Option.bind_eq_bind, Option.pure_def, Option.bind_eq_some_iff,
    Option.some.injEq] at hl
  obtain ⟨pt, hpt, b, hbb, r, hr, a, ha, f, hf, rfl⟩ := hl
  have hw' := hw
  simp only [wfHunk, Bool.and_eq_true] at hw'
  obtain ⟨⟨⟨hidx, hw1⟩, hw2⟩, _⟩ := hw'
  have hread := (hp pt hpt).2
  have hnp := newPathM_norm h.path hidx
  -- the header lines
  have hhead : readLines nc acc ((if h.merge then ["^ {\"Merge\":true}"] else []) ++ ["@ " ++ pt]) =
      .ok { st := .at, cur := { merge := h.merge, path := normPath h.path }, out := flushOut acc } := by
    cases hmg : h.merge with
    | true =>
      simp only [↓reduceIte, List.cons_append, List.nil_append, readLines, readLine_meta nc acc hb]
      rw [readLine_atMeta nc _ pt _ _ rfl hread hnp]
    | false =>
      have : acc.cur.merge = false := by
        cases hc : acc.cur.merge with
        | false => rfl
        | true => rw [hm hc] at hmg; cases hmg
      simp only [Bool.false_eq_true, ↓reduceIte, List.nil_append, readLines,
        readLine_at nc acc pt _ _ hb hread hnp, this]
  obtain ⟨st', hbody, hst'⟩ := readLines_body nc h b r a f
    { st := .at, cur := { merge := h.merge, path := normPath h.path }, out := flushOut acc }
    hw1 hw2 hv hbb hr ha hf rfl
  refine ⟨st', ?_, hst'⟩
  have : (if h.merge then ["^ {\"Merge\":true}"] else []) ++ ("@ " ++ pt) :: (b ++ (r ++ (a ++ f))) =
      ((if h.merge then ["^ {\"Merge\":true}"] else []) ++ ["@ " ++ pt]) ++ (b ++ (r ++ (a ++ f))) := by
    simp
  rw [this, readLines_append nc _ _ _ _ hhead, hbody]
  simp [normHunk]

/-! ### 8. a sequence of hunks -/

/-- the lines of a diff -/
def diffLines (nc : NumCodec) (d : Diff) : Option (List String) :=
  (optAll (d.map (hunkLines nc))).map List.flatten

theorem readLines_diff (nc : NumCodec) : ∀ (d : Diff) (ls : List String) (acc : RAcc),
    d.all wfHunk = true → mergeMono acc.cur.merge d = true → CodecOK nc d →
    diffLines nc d = some ls → AtBoundary acc →
    ∃ acc', readLines nc acc ls = .ok acc' ∧ AtBoundary acc' ∧
      flushOut acc' = flushOut acc ++ normDiff d
  | [], ls, acc, _, _, _, hl, hb => by
    simp only [diffLines, List.map_nil, optAll, Option.map_some, List.flatten_nil,
      Option.some.injEq] at hl
    subst hl
    exact ⟨acc, by simp [readLines], hb, by simp [normDiff]⟩
  | h :: r, ls, acc, hw, hm, hc, hl, hb => by
    simp only [diffLines, List.map_cons, Option.map_eq_some_iff] at hl
    obtain ⟨lss, hlss, rfl⟩ := hl
    obtain ⟨lh, lr, hlh, hlr, rfl⟩ := optAll_cons_some hlss
    simp only [List.all_cons, Bool.and_eq_true] at hw
    simp only [mergeMono, Bool.and_eq_true, Bool.or_eq_true, Bool.not_eq_true'] at hm
    have hch := hc h (List.mem_cons_self ..)
    obtain ⟨st', e1, hst'⟩ := readLines_hunk nc h lh acc hw.1 hch.1 hch.2 hlh hb
      (fun hx => by rcases hm.1 with h0 | h0
                    · rw [hx] at h0; cases h0
                    · exact h0)
    have hb1 : AtBoundary { st := st', cur := normHunk h, out := flushOut acc } :=
      Or.inr ⟨hst', checkHunk_norm h hw.1⟩
    obtain ⟨acc', e2, hb2, hf2⟩ := readLines_diff nc r lr.flatten
      { st := st', cur := normHunk h, out := flushOut acc } hw.2
      (by simpa [normHunk] using hm.2)
      (fun x hx => hc x (List.mem_cons_of_mem _ hx))
      (by simp [diffLines, hlr]) hb1
    refine ⟨acc', ?_, hb2, ?_⟩
    · rw [List.flatten_cons, readLines_append nc lh _ acc _ e1, e2]
    · rw [hf2]
      have : flushOut { st := st', cur := normHunk h, out := flushOut acc } =
          flushOut acc ++ [normHunk h] := by
        unfold flushOut
        rcases hst' with h0 | h0 | h0 <;> simp [h0]
      rw [this]
      simp [normDiff]

/-- THEOREM (i), on lines: reading the rendered lines (plus the empty string that follows the last
    newline) gives the normalised diff -/
theorem readLines_rendered (nc : NumCodec) (d : Diff) (ls : List String)
    (hw : wfDiff d = true) (hc : CodecOK nc d) (hl : diffLines nc d = some ls) :
    ∃ acc, readLines nc {} (ls ++ [""]) = .ok acc ∧
      Gen.readerNonTerminal.contains acc.st.name = false ∧
      (if acc.st != .init then (if checkHunk acc.cur then Outcome.ok (acc.out ++ [acc.cur]) else .err)
        else .ok acc.out) = .ok (normDiff d) := by
  simp only [wfDiff, Bool.and_eq_true] at hw
  obtain ⟨acc, e, hb, hf⟩ := readLines_diff nc d ls {} hw.1 hw.2 hc hl (Or.inl rfl)
  refine ⟨acc, ?_, ?_, ?_⟩
  · rw [readLines_append nc ls _ _ _ e]
    simp [readLines, readLine_empty]
  · rw [nonTerminal_eq]
    rcases hb with h | ⟨h | h | h, _⟩ <;> simp [h]
  · have h0 : flushOut ({} : RAcc) = [] := by simp [flushOut]
    rw [h0, List.nil_append] at hf
    rw [← hf]
    unfold flushOut
    rcases hb with h | ⟨h | h | h, hck⟩
    · simp [h]
    all_goals simp [h, hck]

/-! ### 9. the rendered text, as lines -/

/-- the text of a list of lines -/
def unlines (ls : List String) : String := String.join (ls.map (fun l => l ++ "\n"))

theorem unlines_nil : unlines [] = "" := by simp [unlines, String.join_nil]
theorem unlines_cons (l : String) (ls : List String) : unlines (l :: ls) = l ++ "\n" ++ unlines ls := by
  simp [unlines, String.join_cons]
theorem unlines_append (a b : List String) : unlines (a ++ b) = unlines a ++ unlines b := by
  simp [unlines, String.join_append]

theorem optAll_map_congr {α β} {F G : α → Option β} (l : List α) (h : ∀ x ∈ l, F x = G x) :
    optAll (l.map F) = optAll (l.map G) := by
  rw [List.map_congr_left h]

theorem optAll_join_lines {α} (G : α → Option String) : ∀ l : List α,
    (optAll (l.map (fun x => (G x).map (fun t => t ++ "\n")))).map String.join =
      (optAll (l.map G)).map unlines
  | [] => by simp [optAll, unlines_nil, String.join_nil]
  | x :: l => by
    have ih := optAll_join_lines G l
    simp only [List.map_cons]
    cases hx : G x with
    | none => simp [optAll]
    | some g =>
      simp only [optAll, Option.map_some, Option.map_map]
      cases h1 : optAll (l.map G) with
      | none =>
        rw [h1] at ih
        cases h2 : optAll (l.map (fun x => (G x).map (fun t => t ++ "\n"))) with
        | none => simp
        | some u => rw [h2] at ih; simp at ih
      | some ls =>
        rw [h1] at ih
        cases h2 : optAll (l.map (fun x => (G x).map (fun t => t ++ "\n"))) with
        | none => rw [h2] at ih; simp at ih
        | some u =>
          rw [h2] at ih
          simp only [Option.map_some, Option.some.injEq] at ih
          simp [String.join_cons, unlines_cons, ih]

theorem optAll_join_lines_filter (G : Json → Option String) : ∀ l : List Json,
    (optAll (l.map (fun x => if x.isVoid then some "" else (G x).map (fun t => t ++ "\n")))).map
        String.join =
      (optAll ((l.filter (fun v => !v.isVoid)).map G)).map unlines
  | [] => by simp [optAll, unlines_nil, String.join_nil]
  | x :: l => by
    have ih := optAll_join_lines_filter G l
    simp only [List.map_cons]
    cases hv : x.isVoid with
    | true =>
      simp only [↓reduceIte, optAll, Option.map_map, List.filter_cons, hv, Bool.not_true,
        Bool.false_eq_true]
      rw [← ih]
      congr 1
    | false =>
      simp only [Bool.false_eq_true, ↓reduceIte, List.filter_cons, hv, Bool.not_false, List.map_cons]
      cases hx : G x with
      | none => simp [optAll]
      | some g =>
        simp only [optAll, Option.map_some, Option.map_map]
        cases h1 : optAll ((l.filter (fun v => !v.isVoid)).map G) with
        | none =>
          rw [h1] at ih
          cases h2 : optAll (l.map (fun x => if x.isVoid then some "" else (G x).map (fun t => t ++ "\n"))) with
          | none => simp
          | some u => rw [h2] at ih; simp at ih
        | some ls =>
          rw [h1] at ih
          cases h2 : optAll (l.map (fun x => if x.isVoid then some "" else (G x).map (fun t => t ++ "\n"))) with
          | none => rw [h2] at ih; simp at ih
          | some u =>
            rw [h2] at ih
            simp only [Option.map_some, Option.some.injEq] at ih
            simp [String.join_cons, unlines_cons, ih]


theorem map_eq_cases {α β γ} {x : Option α} {y : Option β} {f : α → γ} {g : β → γ}
    (h : x.map f = y.map g) :
    (x = none ∧ y = none) ∨ ∃ a b, x = some a ∧ y = some b ∧ f a = g b := by
  cases x <;> cases y <;> simp_all

theorem renderHunk_lines (nc : NumCodec) (h : Hunk) :
    renderHunk nc [] h = (hunkLines nc h).map unlines := by
  unfold renderHunk hunkLines
  simp only [isColor, isMerge, Bool.false_or, Bool.false_eq_true, ↓reduceIte]
  rw [optAll_map_congr (G := fun b => (ctxLine nc "[" b).map (fun t => t ++ "\n")) h.before (by
    intro b _
    simp only [ctxLine]
    split
    · simp
    · simp; rfl)]
  rw [optAll_map_congr (G := fun b => (ctxLine nc "]" b).map (fun t => t ++ "\n")) h.after (by
    intro b _
    simp only [ctxLine]
    split
    · simp
    · simp; rfl)]
  rw [optAll_map_congr
    (G := fun v => if v.isVoid then some "" else (remLine nc v).map (fun t => t ++ "\n")) h.remove (by
    intro v _
    simp only [remLine]
    split
    · rfl
    · split
      · simp_all
      · simp; rfl)]
  cases hmg : h.merge with
  | true =>
    rw [optAll_map_congr (G := fun v => (addLine nc v).map (fun t => t ++ "\n")) h.add (by
      intro v _
      simp only [addLine]
      split
      · simp
      · split
        · simp_all
        · simp; rfl)]
    simp only [addLines, hmg, ↓reduceIte]
    cases hpt : jsonM nc (pathToJson h.path) with
    | none => simp
    | some pt =>
      rcases map_eq_cases (optAll_join_lines (ctxLine nc "[") h.before) with ⟨h1, h2⟩ | ⟨tb, b, h1, h2, h3⟩
      · simp [h1, h2]
      rcases map_eq_cases (optAll_join_lines_filter (remLine nc) h.remove) with ⟨h4, h5⟩ | ⟨tr, r, h4, h5, h6⟩
      · simp [h1, h2, h4, h5, remLines]
      rcases map_eq_cases (optAll_join_lines (addLine nc) h.add) with ⟨h7, h8⟩ | ⟨ta, a, h7, h8, h9⟩
      · simp [h1, h2, h4, h5, h7, h8, remLines]
      rcases map_eq_cases (optAll_join_lines (ctxLine nc "]") h.after) with ⟨h10, h11⟩ | ⟨tf, f, h10, h11, h12⟩
      · simp [h1, h2, h4, h5, h7, h8, h10, h11, remLines]
      simp [h1, h2, h4, h5, h7, h8, h10, h11, remLines, h3, h6, h9, h12, unlines_cons, unlines_append,
        String.append_assoc]
      apply String.toList_inj.mp
      simp
  | false =>
    rw [optAll_map_congr
      (G := fun v => if v.isVoid then some "" else (addLine nc v).map (fun t => t ++ "\n")) h.add (by
      intro v _
      simp only [addLine]
      split
      · simp
      · split
        · simp_all
        · simp; rfl)]
    simp only [addLines, hmg, Bool.false_eq_true, ↓reduceIte]
    cases hpt : jsonM nc (pathToJson h.path) with
    | none => simp
    | some pt =>
      rcases map_eq_cases (optAll_join_lines (ctxLine nc "[") h.before) with ⟨h1, h2⟩ | ⟨tb, b, h1, h2, h3⟩
      · simp [h1, h2]
      rcases map_eq_cases (optAll_join_lines_filter (remLine nc) h.remove) with ⟨h4, h5⟩ | ⟨tr, r, h4, h5, h6⟩
      · simp [h1, h2, h4, h5, remLines]
      rcases map_eq_cases (optAll_join_lines_filter (addLine nc) h.add) with ⟨h7, h8⟩ | ⟨ta, a, h7, h8, h9⟩
      · simp [h1, h2, h4, h5, h7, h8, remLines]
      rcases map_eq_cases (optAll_join_lines (ctxLine nc "]") h.after) with ⟨h10, h11⟩ | ⟨tf, f, h10, h11, h12⟩
      · simp [h1, h2, h4, h5, h7, h8, h10, h11, remLines]
      simp [h1, h2, h4, h5, h7, h8, h10, h11, remLines, h3, h6, h9, h12, unlines_cons, unlines_append,
        String.append_assoc]

/-! ### 10. `strings.Split(s, "\n")` of a text made of newline-terminated lines -/


/-- list-level splitter on newline, accumulating the current line in `m`. -/
def splitNL : List Char → List Char → List (List Char)
  | [], m => [m]
  | c :: r, m => if c = '\n' then m :: splitNL r [] else splitNL r (m ++ [c])

private theorem nl_size : Char.utf8Size '\n' = 1 := rfl

open String in
theorem splitOnAux_nl (l m r : List Char) (acc : List String) :
    String.splitOnAux (String.ofList (l ++ m ++ r)) "\n" ⟨utf8Len l⟩ ⟨utf8Len l + utf8Len m⟩ 0 acc =
      acc.reverse ++ (splitNL r m).map String.ofList := by
  induction r generalizing l m acc with
  | nil =>
    rw [String.splitOnAux]
    have h1 : (⟨utf8Len l + utf8Len m⟩ : String.Pos.Raw).atEnd (String.ofList (l ++ m ++ [])) = true := by
      have := (String.atEnd_of_valid (l ++ m) []).2 rfl
      rwa [utf8Len_append] at this
    rw [if_pos h1, String.extract_of_valid l m []]
    simp [splitNL]
  | cons c r ih =>
    rw [String.splitOnAux]
    have h1 : ¬ (⟨utf8Len l + utf8Len m⟩ : String.Pos.Raw).atEnd (String.ofList (l ++ m ++ c :: r)) = true := by
      have := (String.atEnd_of_valid (l ++ m) (c :: r))
      rw [utf8Len_append] at this
      rw [this]; exact List.cons_ne_nil _ _
    rw [if_neg h1]
    have hget : (⟨utf8Len l + utf8Len m⟩ : String.Pos.Raw).get (String.ofList (l ++ m ++ c :: r)) = c := by
      have := String.get_of_valid (l ++ m) (c :: r)
      rwa [utf8Len_append] at this
    have hnext : (⟨utf8Len l + utf8Len m⟩ : String.Pos.Raw).next (String.ofList (l ++ m ++ c :: r)) =
        ⟨utf8Len l + utf8Len m + c.utf8Size⟩ := by
      have := String.next_of_valid (l ++ m) c r
      rwa [utf8Len_append] at this
    have hsep : (0 : String.Pos.Raw).get "\n" = '\n' := String.get_of_valid [] ['\n']
    have hsepn : (0 : String.Pos.Raw).next "\n" = ⟨1⟩ := String.next_of_valid [] '\n' []
    have hsepe : (⟨1⟩ : String.Pos.Raw).atEnd "\n" = true :=
      (String.atEnd_of_valid ['\n'] []).2 rfl
    rw [hget, hsep]
    by_cases hc : c = '\n'
    · subst hc
      simp only [beq_self_eq_true, if_true, hnext, hsepn, hsepe, splitNL]
      have hu : (⟨utf8Len l + utf8Len m + Char.utf8Size '\n'⟩ : String.Pos.Raw).unoffsetBy ⟨1⟩ =
          ⟨utf8Len l + utf8Len m⟩ := by
        apply String.Pos.Raw.ext; simp [String.Pos.Raw.unoffsetBy, nl_size]
      rw [hu, String.extract_of_valid l m ('\n' :: r)]
      have := ih (l ++ m ++ ['\n']) [] (String.ofList m :: acc)
      simp only [utf8Len_append, utf8Len_cons, utf8Len_nil, Nat.add_zero, Nat.zero_add,
        List.append_assoc, List.cons_append, List.nil_append, List.reverse_cons] at this
      simp only [List.append_assoc, Nat.add_assoc, List.map_cons] at this ⊢
      exact this
    · have hb : (c == '\n') = false := by simpa using hc
      rw [hb]
      simp only [Bool.false_eq_true, if_false, splitNL, if_neg hc]
      have hu : (⟨utf8Len l + utf8Len m⟩ : String.Pos.Raw).unoffsetBy 0 = ⟨utf8Len l + utf8Len m⟩ := by
        apply String.Pos.Raw.ext; simp [String.Pos.Raw.unoffsetBy]
      rw [hu, hnext]
      have := ih l (m ++ [c]) acc
      simp only [utf8Len_append, utf8Len_cons, utf8Len_nil, Nat.zero_add,
        List.append_assoc, List.cons_append, List.nil_append, Nat.add_assoc] at this ⊢
      exact this

theorem splitNL_line (l rest m : List Char) (h : '\n' ∉ l) :
    splitNL (l ++ '\n' :: rest) m = (m ++ l) :: splitNL rest [] := by
  induction l generalizing m with
  | nil => simp [splitNL]
  | cons c l ih =>
    have hc : c ≠ '\n' := fun e => h (e ▸ List.mem_cons_self)
    have hl : '\n' ∉ l := fun e => h (List.mem_cons_of_mem _ e)
    simp [splitNL, hc, ih _ hl]

theorem splitNL_lines (ls : List (List Char)) (h : ∀ l ∈ ls, '\n' ∉ l) :
    splitNL (ls.flatMap (fun l => l ++ ['\n'])) [] = ls ++ [[]] := by
  induction ls with
  | nil => simp [splitNL]
  | cons l ls ih =>
    have h1 := h l List.mem_cons_self
    have h2 : ∀ l ∈ ls, '\n' ∉ l := fun x hx => h x (List.mem_cons_of_mem _ hx)
    simp only [List.flatMap_cons, List.append_assoc, List.cons_append, List.nil_append]
    rw [splitNL_line _ _ _ h1, ih h2]; simp

theorem join_lines (ls : List String) :
    String.join (ls.map (fun l => l ++ "\n")) =
      String.ofList ((ls.map String.toList).flatMap (fun l => l ++ ['\n'])) := by
  apply String.toList_inj.1
  rw [String.toList_join, String.toList_ofList]
  induction ls with
  | nil => rfl
  | cons l ls ih => simp [List.flatMap_cons, ih]

theorem splitOn_unlines (ls : List String) (h : ∀ l ∈ ls, '\n' ∉ l.toList) :
    (String.join (ls.map (fun l => l ++ "\n"))).splitOn "\n" = ls ++ [""] := by
  have hne : ("\n" == "") = false := by decide
  rw [String.splitOn, hne, join_lines]
  have := splitOnAux_nl [] [] ((ls.map String.toList).flatMap (fun l => l ++ ['\n'])) []
  simp only [List.nil_append, String.utf8Len_nil, Nat.add_zero, List.reverse_nil] at this
  rw [if_neg (by simp)]
  refine Eq.trans this ?_
  rw [splitNL_lines]
  · simp [List.map_map]
  · intro l hl
    obtain ⟨s, hs, rfl⟩ := List.mem_map.1 hl
    exact h s hs


/-! ### 11. THEOREM (i) -/

theorem optAll_join_flatten {α} (G : α → Option (List String)) : ∀ l : List α,
    (optAll (l.map (fun x => (G x).map unlines))).map String.join =
      ((optAll (l.map G)).map List.flatten).map unlines
  | [] => by simp [optAll, unlines_nil, String.join_nil]
  | x :: l => by
    have ih := optAll_join_flatten G l
    simp only [List.map_cons]
    cases hx : G x with
    | none => simp [optAll]
    | some g =>
      simp only [optAll, Option.map_some, Option.map_map]
      rcases map_eq_cases ih with ⟨h1, h2⟩ | ⟨a, b, h1, h2, h3⟩
      · simp only [Option.map_eq_none_iff] at h2
        simp [h1, h2]
      · simp only [Option.map_eq_some_iff] at h2
        obtain ⟨c, h2, rfl⟩ := h2
        simp [h1, h2, String.join_cons, unlines_append, h3]

theorem renderM_lines (nc : NumCodec) (d : Diff) :
    renderM nc [] d = (diffLines nc d).map unlines := by
  unfold renderM diffLines
  rw [← optAll_join_flatten]
  congr 2
  exact List.map_congr_left (fun h _ => renderHunk_lines nc h)

theorem optAll_mem {α β} {G : α → Option β} : ∀ {l : List α} {ls : List β},
    optAll (l.map G) = some ls → ∀ y ∈ ls, ∃ x ∈ l, G x = some y
  | [], ls, h, y, hy => by
    simp only [List.map_nil, optAll, Option.some.injEq] at h
    subst h; cases hy
  | x :: l, ls, h, y, hy => by
    simp only [List.map_cons] at h
    obtain ⟨a, r, ha, hr, rfl⟩ := optAll_cons_some h
    rcases List.mem_cons.mp hy with rfl | hy
    · exact ⟨x, List.mem_cons_self .., ha⟩
    · obtain ⟨x', hx', hg⟩ := optAll_mem hr y hy
      exact ⟨x', List.mem_cons_of_mem _ hx', hg⟩

theorem ctxLine_noNL (nc : NumCodec) (mark : String) (hmk : '\n' ∉ mark.toList) (v : Json) (l : String)
    (hv : v.isVoid = false → ValOK nc v) (h : ctxLine nc mark v = some l) : '\n' ∉ l.toList := by
  unfold ctxLine at h
  split at h
  · simp only [Option.some.injEq] at h; subst h; exact hmk
  · rename_i hvv
    simp only [Option.map_eq_some_iff] at h
    obtain ⟨t, ht, rfl⟩ := h
    have := (hv (by simpa using hvv) t ht).1
    simp [this]

theorem hunkLines_noNL (nc : NumCodec) (h : Hunk) (ls : List String)
    (hp : PathOK nc h.path) (hv : ∀ v ∈ payloads h, ValOK nc v)
    (hl : hunkLines nc h = some ls) : ∀ l ∈ ls, '\n' ∉ l.toList := by
  simp only [hunkLines, Option.bind_eq_bind, Option.pure_def, Option.bind_eq_some_iff,
    Option.some.injEq] at hl
  obtain ⟨pt, hpt, b, hbb, r, hr, a, ha, f, hf, rfl⟩ := hl
  intro l hl
  simp only [List.mem_append, List.mem_cons] at hl
  rcases hl with hl | rfl | hl | hl | hl | hl
  · split at hl
    · simp only [List.mem_cons, List.not_mem_nil, or_false] at hl
      subst hl; simp
    · cases hl
  · have := (hp pt hpt).1
    simp [this]
  · obtain ⟨v, hvm, hg⟩ := optAll_mem hbb l hl
    exact ctxLine_noNL nc "[" (by simp) v l (fun hvv => hv v (mem_payloads hvv (Or.inl hvm))) hg
  · obtain ⟨v, hvm, hg⟩ := optAll_mem hr l hl
    have hm := List.mem_filter.mp hvm
    have hvv : v.isVoid = false := by simpa using hm.2
    simp only [remLine, Option.map_eq_some_iff] at hg
    obtain ⟨t, ht, rfl⟩ := hg
    have := (hv v (mem_payloads hvv (Or.inr (Or.inl hm.1))) t ht).1
    simp [this]
  · obtain ⟨v, hvm, hg⟩ := optAll_mem ha l hl
    unfold addLine at hg
    split at hg
    · simp only [Option.some.injEq] at hg; subst hg; simp
    · rename_i hvv
      simp only [Option.map_eq_some_iff] at hg
      obtain ⟨t, ht, rfl⟩ := hg
      have := (hv v (mem_payloads (by simpa using hvv) (Or.inr (Or.inr (Or.inl (mem_addLines hvm))))) t ht).1
      simp [this]
  · obtain ⟨v, hvm, hg⟩ := optAll_mem hf l hl
    exact ctxLine_noNL nc "]" (by simp) v l
      (fun hvv => hv v (mem_payloads hvv (Or.inr (Or.inr (Or.inr hvm))))) hg

theorem diffLines_noNL (nc : NumCodec) : ∀ (d : Diff) (ls : List String), CodecOK nc d →
    diffLines nc d = some ls → ∀ l ∈ ls, '\n' ∉ l.toList
  | [], ls, _, hl => by
    simp only [diffLines, List.map_nil, optAll, Option.map_some, List.flatten_nil,
      Option.some.injEq] at hl
    subst hl; intro l hl; cases hl
  | h :: r, ls, hc, hl => by
    simp only [diffLines, List.map_cons, Option.map_eq_some_iff] at hl
    obtain ⟨lss, hlss, rfl⟩ := hl
    obtain ⟨lh, lr, hlh, hlr, rfl⟩ := optAll_cons_some hlss
    have hch := hc h (List.mem_cons_self ..)
    intro l hl
    rw [List.flatten_cons, List.mem_append] at hl
    rcases hl with hl | hl
    · exact hunkLines_noNL nc h lh hch.1 hch.2 hlh l hl
    · exact diffLines_noNL nc r lr.flatten (fun x hx => hc x (List.mem_cons_of_mem _ hx))
        (by simp [diffLines, hlr]) l hl

/-- THEOREM (i): reading the rendered text of a well-formed diff gives the normalised diff. -/
theorem read_render (nc : NumCodec) (d : Diff) (text : String)
    (hw : wfDiff d = true) (hc : CodecOK nc d) (hr : renderM nc [] d = some text) :
    readDiffM nc text = .ok (normDiff d) := by
  rw [renderM_lines, Option.map_eq_some_iff] at hr
  obtain ⟨ls, hl, rfl⟩ := hr
  obtain ⟨acc, e, hnt, hfin⟩ := readLines_rendered nc d ls hw hc hl
  unfold readDiffM
  rw [unlines, splitOn_unlines ls (diffLines_noNL nc d ls hc hl), e]
  simp only [hnt, Bool.false_eq_true, ↓reduceIte]
  exact hfin


/-! ### 12. THEOREM (ii): the normalised diff renders to the same text -/

mutual
theorem rawNorm_untag : ∀ x : Json, x.listDoc = true → rawNorm (untag x) = rawNorm x
  | .void, _ => by simp [untag]
  | .null, _ => by simp [untag]
  | .bool _, _ => by simp [untag]
  | .num _, _ => by simp [untag]
  | .str _, _ => by simp [untag]
  | .arr t xs, h => by
    simp only [Json.listDoc, Bool.and_eq_true, Bool.or_eq_true, beq_iff_eq] at h
    rcases h with ⟨ht | ht, hx⟩ <;> subst ht <;> simp [untag, rawNorm, rawNormList_untag xs hx]
  | .obj kvs, h => by
    simp only [Json.listDoc] at h
    simp [untag, rawNorm, rawNormKvs_untag kvs h]
theorem rawNormList_untag : ∀ xs : List Json, listDocList xs = true →
    rawNormList (untagList xs) = rawNormList xs
  | [], _ => by simp [untagList]
  | x :: r, h => by
    simp only [listDocList, Bool.and_eq_true] at h
    simp [untagList, rawNormList, rawNorm_untag x h.1, rawNormList_untag r h.2]
theorem rawNormKvs_untag : ∀ kvs : List (String × Json), listDocKvs kvs = true →
    rawNormKvs (untagKvs kvs) = rawNormKvs kvs
  | [], _ => by simp [untagKvs]
  | (k, v) :: r, h => by
    simp only [listDocKvs, Bool.and_eq_true] at h
    simp [untagKvs, rawNormKvs, rawNorm_untag v h.1, rawNormKvs_untag r h.2]
end

mutual
theorem marshalNode_untag (nc : NumCodec) : ∀ x : Json, x.listDoc = true →
    marshalNode nc (untag x) = marshalNode nc x
  | .void, _ => by simp [untag]
  | .null, _ => by simp [untag]
  | .bool _, _ => by simp [untag]
  | .num _, _ => by simp [untag]
  | .str _, _ => by simp [untag]
  | .arr t xs, h => by
    simp only [Json.listDoc, Bool.and_eq_true] at h
    simp [untag, marshalNode, marshalList_untag nc xs h.2]
  | .obj kvs, h => by
    have := rawNorm_untag (.obj kvs) h
    simp only [untag] at this
    simp [untag, marshalNode, this]
theorem marshalList_untag (nc : NumCodec) : ∀ xs : List Json, listDocList xs = true →
    marshalList nc (untagList xs) = marshalList nc xs
  | [], _ => by simp [untagList]
  | x :: r, h => by
    simp only [listDocList, Bool.and_eq_true] at h
    simp [untagList, marshalList, marshalNode_untag nc x h.1, marshalList_untag nc r h.2]
end

/-- the key objects of a path are list-mode documents -/
def listDocPath : Path → Bool
  | [] => true
  | .setKeys o :: r => listDocKvs o && listDocPath r
  | .msetKeys o :: r => listDocKvs o && listDocPath r
  | _ :: r => listDocPath r

/-- no set / multiset typed array node in the payloads and in the path -/
def listDocHunk (h : Hunk) : Bool := hunkListDoc h && listDocPath h.path

theorem listDocList_mem : ∀ {l : List Json} {v : Json}, listDocList l = true → v ∈ l → v.listDoc = true
  | [], _, _, hm => by cases hm
  | x :: r, v, h, hm => by
    simp only [listDocList, Bool.and_eq_true] at h
    rcases List.mem_cons.mp hm with rfl | hm
    · exact h.1
    · exact listDocList_mem h.2 hm

theorem rawNormList_eq_map : ∀ xs : List Json, rawNormList xs = xs.map rawNorm
  | [] => by simp [rawNormList]
  | x :: r => by simp [rawNormList, rawNormList_eq_map r]

theorem rawNorm_normPath : ∀ p : Path, listDocPath p = true →
    rawNorm (pathToJson (normPath p)) = rawNorm (pathToJson p)
  | [], _ => rfl
  | e :: r, h => by
    have ih := rawNorm_normPath r
    simp only [pathToJson, rawNorm, normPath, List.map_cons, rawNormList, Json.arr.injEq, true_and,
      List.cons.injEq] at ih ⊢
    cases e with
    | key k => simp only [listDocPath] at h; exact ⟨rfl, ih h⟩
    | idx i => simp only [listDocPath] at h; exact ⟨rfl, ih h⟩
    | set => simp only [listDocPath] at h; exact ⟨rfl, ih h⟩
    | mset => simp only [listDocPath] at h; exact ⟨rfl, ih h⟩
    | setKeys o =>
      simp only [listDocPath, Bool.and_eq_true] at h
      have hk := rawNormKvs_untag o h.1
      refine ⟨?_, ih h.2⟩
      cases o with
      | nil => simp [normElem]
      | cons kv o => simp [normElem, rawNorm, hk]
    | msetKeys o =>
      simp only [listDocPath, Bool.and_eq_true] at h
      have hk := rawNormKvs_untag o h.1
      refine ⟨?_, ih h.2⟩
      simp [normElem, rawNorm, rawNormList, hk]

theorem jsonM_normPath (nc : NumCodec) (p : Path) (h : listDocPath p = true) :
    jsonM nc (pathToJson (normPath p)) = jsonM nc (pathToJson p) := by
  have := rawNorm_normPath p h
  simp only [jsonM, pathToJson] at this ⊢
  rw [this]

theorem filter_map_untag (l : List Json) :
    (l.map untag).filter (fun v => !v.isVoid) = (l.filter (fun v => !v.isVoid)).map untag := by
  rw [List.filter_map]
  congr 1
  apply List.filter_congr
  intro x _
  simp [untag_isVoid]

theorem filter_filter_nv (l : List Json) :
    (l.filter (fun v => !v.isVoid)).filter (fun v => !v.isVoid) = l.filter (fun v => !v.isVoid) := by
  simp [List.filter_filter]

theorem hunkLines_norm (nc : NumCodec) (h : Hunk) (hd : listDocHunk h = true) :
    hunkLines nc (normHunk h) = hunkLines nc h := by
  simp only [listDocHunk, hunkListDoc, Bool.and_eq_true] at hd
  obtain ⟨⟨⟨⟨hb, hr⟩, ha⟩, hf⟩, hp⟩ := hd
  have ctx : ∀ (mark : String) (l : List Json), listDocList l = true →
      (l.map untag).map (ctxLine nc mark) = l.map (ctxLine nc mark) := by
    intro mark l hl
    rw [List.map_map]
    apply List.map_congr_left
    intro v hv
    simp [ctxLine, untag_isVoid, marshalNode_untag nc v (listDocList_mem hl hv)]
  have hrem : remLines (normHunk h) = (remLines h).map untag := by
    simp only [remLines, normHunk]
    rw [filter_map_untag, filter_filter_nv]
  have hadd : addLines (normHunk h) = (addLines h).map untag := by
    simp only [addLines, normHunk]
    split
    · rfl
    · rw [filter_map_untag, filter_filter_nv]
  have hremL : ((remLines h).map untag).map (remLine nc) = (remLines h).map (remLine nc) := by
    rw [List.map_map]
    apply List.map_congr_left
    intro v hv
    have := listDocList_mem hr (List.mem_filter.mp hv).1
    simp [remLine, marshalNode_untag nc v this]
  have haddL : ((addLines h).map untag).map (addLine nc) = (addLines h).map (addLine nc) := by
    rw [List.map_map]
    apply List.map_congr_left
    intro v hv
    have := listDocList_mem ha (mem_addLines hv)
    simp [addLine, untag_isVoid, marshalNode_untag nc v this]
  unfold hunkLines
  rw [hrem, hadd, hremL, haddL]
  simp only [normHunk, ctx "[" h.before hb, ctx "]" h.after hf, jsonM_normPath nc h.path hp]
  rfl

/-- THEOREM (ii): the diff read back renders to the identical text. -/
theorem render_norm (nc : NumCodec) (d : Diff) (hd : d.all listDocHunk = true) :
    renderM nc [] (normDiff d) = renderM nc [] d := by
  rw [renderM_lines, renderM_lines]
  unfold diffLines normDiff
  rw [List.map_map]
  have : d.map (hunkLines nc ∘ normHunk) = d.map (hunkLines nc) :=
    List.map_congr_left (fun h hh => hunkLines_norm nc h (List.all_eq_true.mp hd h hh))
  rw [this]

/-- (i) + (ii): the text read back and rendered again is the same text -/
theorem render_read_render (nc : NumCodec) (d : Diff) (text : String)
    (hw : wfDiff d = true) (hd : d.all listDocHunk = true) (hc : CodecOK nc d)
    (hr : renderM nc [] d = some text) :
    ∃ d', readDiffM nc text = .ok d' ∧ renderM nc [] d' = some text :=
  ⟨normDiff d, read_render nc d text hw hc hr, by rw [render_norm nc d hd, hr]⟩

/-! ### 13. path indices: `int(float64(i)) = i` below 2^53 -/

theorem bits_fields (s e frac : Nat) (hs : s ≤ 1) (he : e < 2048) (hf : frac < 4503599627370496) :
    let N := s * 9223372036854775808 + e * 4503599627370496 + frac
    N < 18446744073709551616 ∧ N / 9223372036854775808 = s ∧
    (N / 4503599627370496) % 2048 = e ∧ N % 4503599627370496 = frac := by
  intro N
  omega

theorem floatTrunc_bits (s e frac : Nat) (hs : s ≤ 1) (he0 : 0 < e) (he : e ≤ 1075)
    (hf : frac < 2 ^ 52) :
    floatTrunc (UInt64.ofNat (s * 2 ^ 63 + e * 2 ^ 52 + frac)) =
      if s = 1 then -(((frac + 2 ^ 52) / 2 ^ (1075 - e) : Nat) : Int)
      else (((frac + 2 ^ 52) / 2 ^ (1075 - e) : Nat) : Int) := by
  have hf' : frac < 4503599627370496 := by simpa using hf
  obtain ⟨h1, h2, h3, h4⟩ := bits_fields s e frac hs (by omega) hf'
  generalize hN : s * 9223372036854775808 + e * 4503599627370496 + frac = N at h1 h2 h3 h4
  have hb : (UInt64.ofNat N).toNat = N := UInt64.toNat_ofNat_of_lt' (by simpa using h1)
  have hneg : ((UInt64.ofNat N) >>> 63 == 1) = decide (s = 1) := by
    rw [Bool.eq_iff_iff]
    simp only [beq_iff_eq, decide_eq_true_eq, ← UInt64.toNat_inj, UInt64.toNat_shiftRight, hb]
    simp [Nat.shiftRight_eq_div_pow, h2]
  have hE : (((UInt64.ofNat N) >>> 52) &&& 0x7FF).toNat = e := by
    simp only [UInt64.toNat_and, UInt64.toNat_shiftRight, hb]
    have : (2047 : Nat) = 2 ^ 11 - 1 := by decide
    simp [Nat.shiftRight_eq_div_pow]
    rw [this, Nat.and_two_pow_sub_one_eq_mod]
    simpa using h3
  have hF : ((UInt64.ofNat N) &&& 0xFFFFFFFFFFFFF).toNat = frac := by
    simp only [UInt64.toNat_and, hb]
    have : (4503599627370495 : Nat) = 2 ^ 52 - 1 := by decide
    simp
    rw [this, Nat.and_two_pow_sub_one_eq_mod]
    simpa using h4
  unfold floatTrunc
  simp only [hneg, hE, hF]
  have e1 : (e == 0x7FF) = false := by simp; omega
  have e2 : (e == 0) = false := by simp; omega
  have e3 : (if e ≥ 1075 then (frac + 2 ^ 52) * 2 ^ (e - 1075) else (frac + 2 ^ 52) / 2 ^ (1075 - e))
      = (frac + 2 ^ 52) / 2 ^ (1075 - e) := by
    split
    · have : e = 1075 := by omega
      subst this; simp
    · rfl
  have hv : (frac + 2 ^ 52) / 2 ^ (1075 - e) < 2 ^ 63 := by
    have := Nat.div_le_self (frac + 2 ^ 52) (2 ^ (1075 - e))
    omega
  have hv' : ¬ ((((frac + 2 ^ 52) / 2 ^ (1075 - e) : Nat) : Int) ≥ 2 ^ 63) := by
    omega
  rw [e3]
  simp only [e1, e2, if_false, Bool.false_eq_true, hv', decide_eq_true_eq]

theorem floatTrunc_intToFloatBits (i : Int) (h : i.natAbs < 2 ^ 53) :
    floatTrunc (intToFloatBits i) = i := by
  by_cases hi : i = 0
  · subst hi; decide
  have hn : i.natAbs ≠ 0 := by omega
  unfold intToFloatBits
  have hi' : (i == 0) = false := by simp [hi]
  simp only [hi', Bool.false_eq_true, if_false]
  have hk : natLog2 i.natAbs = i.natAbs.log2 := by simp [natLog2, hn]
  rw [hk]
  generalize hnn : i.natAbs = n at *
  have hlo : 2 ^ n.log2 ≤ n := Nat.log2_self_le hn
  have hhi : n < 2 ^ (n.log2 + 1) := Nat.lt_log2_self
  have hk53 : n.log2 < 53 := (Nat.log2_lt hn).2 h
  generalize n.log2 = k at *
  have hpow : 2 ^ k * 2 ^ (52 - k) = 2 ^ 52 := by
    rw [← Nat.pow_add]; congr 1; omega
  have hpos : 0 < 2 ^ (52 - k) := Nat.pow_pos (by decide)
  generalize hP : 2 ^ (52 - k) = P at *
  have hm1 : 2 ^ 52 ≤ n * P := by
    rw [← hpow]; exact Nat.mul_le_mul_right _ hlo
  have hm2 : n * P < 2 ^ 53 := by
    have : (n + 1) * P ≤ 2 ^ (k + 1) * P := Nat.mul_le_mul_right _ hhi
    rw [Nat.pow_succ, Nat.mul_right_comm, hpow] at this
    have h2 : (n + 1) * P = n * P + P := by rw [Nat.add_mul, Nat.one_mul]
    omega
  rw [floatTrunc_bits (if i < 0 then 1 else 0) (1023 + k) (n * P - 2 ^ 52)
    (by split <;> omega) (by omega) (by omega) (by omega)]
  have hsh : 1075 - (1023 + k) = 52 - k := by omega
  have hfr : n * P - 2 ^ 52 + 2 ^ 52 = n * P := by omega
  rw [hsh, hfr, hP, Nat.mul_div_cancel _ hpos]
  split <;> split at * <;> omega

/-- `idxOK` holds when every index of the path has magnitude below 2^53 -/
theorem idxOK_of_bound : ∀ p : Path, (∀ i, PathElem.idx i ∈ p → i.natAbs < 2 ^ 53) → idxOK p = true
  | [], _ => rfl
  | e :: r, h => by
    have ih := idxOK_of_bound r (fun i hi => h i (List.mem_cons_of_mem _ hi))
    cases e with
    | idx i =>
      simp only [idxOK, Bool.and_eq_true, beq_iff_eq]
      exact ⟨floatTrunc_intToFloatBits i (h i (List.mem_cons_self ..)), ih⟩
    | _ => simpa [idxOK] using ih

/-! ### 14. THEOREM (iv): colour only adds ANSI sequences -/

/-- remove the ANSI sequences `ESC [ … m` (flag: inside a sequence) -/
def stripGo : Bool → List Char → List Char
  | _, [] => []
  | true, c :: r => if c == 'm' then stripGo false r else stripGo true r
  | false, [c] => [c]
  | false, c :: r@(d :: r') =>
    if c == '\x1b' then (if d == '[' then stripGo true r' else c :: stripGo false r)
    else c :: stripGo false r

def stripAnsi (cs : List Char) : List Char := stripGo false cs

/-- codec contract (control characters are escaped): no rendered payload / path text contains ESC -/
def NoEsc (nc : NumCodec) (d : Diff) : Prop :=
  ∀ h ∈ d, (∀ t, jsonM nc (pathToJson h.path) = some t → '\x1b' ∉ t.toList) ∧
    ∀ v ∈ payloads h, ∀ t, marshalNode nc v = some t → '\x1b' ∉ t.toList

/-! ### the stripper on lists -/

theorem stripGo_false_cons_ne (c : Char) (r : List Char) (hc : c ≠ '\x1b') :
    stripGo false (c :: r) = c :: stripGo false r := by
  cases r <;> simp [stripGo, hc]

theorem stripGo_noesc_append (a b : List Char) (ha : '\x1b' ∉ a) :
    stripGo false (a ++ b) = a ++ stripGo false b := by
  induction a with
  | nil => rfl
  | cons c a ih =>
    simp only [List.mem_cons, not_or] at ha
    rw [List.cons_append, stripGo_false_cons_ne _ _ (fun h => ha.1 h.symm), ih ha.2, List.cons_append]

theorem stripGo_red (b : List Char) : stripGo false (colorRed.toList ++ b) = stripGo false b := by
  have : colorRed.toList = ['\x1b', '[', '3', '1', 'm'] := by simp [colorRed]
  rw [this]; simp [stripGo]

theorem stripGo_green (b : List Char) : stripGo false (colorGreen.toList ++ b) = stripGo false b := by
  have : colorGreen.toList = ['\x1b', '[', '3', '2', 'm'] := by simp [colorGreen]
  rw [this]; simp [stripGo]

theorem stripGo_default (b : List Char) : stripGo false (colorDefault.toList ++ b) = stripGo false b := by
  have : colorDefault.toList = ['\x1b', '[', '0', 'm'] := by simp [colorDefault]
  rw [this]; simp [stripGo]

/-! ### `Strips s s'`: `s` is `s'` with colour sequences inserted -/

def Strips (s s' : String) : Prop :=
  ∀ b : List Char, stripGo false (s.toList ++ b) = s'.toList ++ stripGo false b

theorem Strips.of_noesc {s : String} (h : '\x1b' ∉ s.toList) : Strips s s :=
  fun b => stripGo_noesc_append _ b h

theorem Strips.append {a a' b b' : String} (h1 : Strips a a') (h2 : Strips b b') :
    Strips (a ++ b) (a' ++ b') := by
  intro t
  simp only [String.toList_append, List.append_assoc]
  rw [h1, h2]

theorem Strips.empty : Strips "" "" := fun b => by simp

theorem Strips.code_red : Strips colorRed "" := fun b => by simpa using stripGo_red b
theorem Strips.code_green : Strips colorGreen "" := fun b => by simpa using stripGo_green b
theorem Strips.code_default : Strips colorDefault "" := fun b => by simpa using stripGo_default b

theorem Strips.final {s s' : String} (h : Strips s s') :
    String.ofList (stripAnsi s.toList) = s' := by
  have := h []
  simp only [List.append_nil] at this
  have h0 : stripGo false [] = [] := by simp [stripGo]
  rw [h0, List.append_nil] at this
  rw [stripAnsi, this, String.ofList_toList]

/-- the same on lists of lines (their concatenation) -/
def LStrips (l l' : List String) : Prop :=
  ∀ b : List Char, stripGo false (l.flatMap String.toList ++ b) = l'.flatMap String.toList ++ stripGo false b

theorem LStrips.join {l l' : List String} (h : LStrips l l') :
    Strips (String.join l) (String.join l') := by
  intro b
  simp only [String.toList_join]
  exact h b

theorem LStrips.nil : LStrips [] [] := fun b => by simp

theorem LStrips.cons {x y : String} {l l' : List String} (hx : Strips x y) (hl : LStrips l l') :
    LStrips (x :: l) (y :: l') := by
  intro b
  simp only [List.flatMap_cons, List.append_assoc]
  rw [hx, hl]

/-! ### relation lifted to `Option` -/

def ORel {α β} (R : α → β → Prop) : Option α → Option β → Prop
  | none, none => True
  | some x, some y => R x y
  | _, _ => False

theorem ORel.bind {α β} {R : α → α → Prop} {S : β → β → Prop} {a a' : Option α}
    {f f' : α → Option β} (h : ORel R a a') (hf : ∀ x y, R x y → ORel S (f x) (f' y)) :
    ORel S (a >>= f) (a' >>= f') := by
  cases a <;> cases a' <;> simp_all [ORel]

theorem ORel.optAll_map {α} (l : List α) (fc f : α → Option String)
    (h : ∀ x ∈ l, ORel Strips (fc x) (f x)) :
    ORel LStrips (optAll (l.map fc)) (optAll (l.map f)) := by
  induction l with
  | nil => simpa [optAll, ORel] using LStrips.nil
  | cons x l ih =>
    have hx := h x (by simp)
    have hl := ih (fun y hy => h y (by simp [hy]))
    simp only [List.map_cons]
    cases h1 : fc x <;> cases h2 : f x <;> rw [h1, h2] at hx <;> simp only [ORel] at hx
    · simp [optAll, ORel]
    · simp only [optAll]
      cases h3 : optAll (l.map fc) <;> cases h4 : optAll (l.map f) <;> rw [h3, h4] at hl <;>
        simp only [ORel] at hl <;> simp only [Option.map_none, Option.map_some, ORel]
      exact LStrips.cons hx hl

theorem ORel.final {a b : Option String} (h : ORel Strips a b) :
    a.map (fun s => String.ofList (stripAnsi s.toList)) = b := by
  cases a <;> cases b <;> simp only [ORel] at h <;> simp
  exact h.final

/-! ### escaped string bodies contain no ESC -/

theorem toNat_ofNatAux (k : Nat) (h : k.isValidChar) : (Char.ofNatAux k h).toNat = k := by
  simp [Char.ofNatAux, Char.toNat, UInt32.toNat]

theorem charOfNat_ne_esc (k : Nat) (hk : 28 ≤ k) : Char.ofNat k ≠ '\x1b' := by
  intro h
  have h' : (Char.ofNat k).toNat = 27 := by rw [h]; rfl
  unfold Char.ofNat at h'
  split at h'
  · rw [toNat_ofNatAux] at h'; omega
  · revert h'; decide

theorem esc_ne_hexNibble (n : Nat) : ('\x1b' = hexNibble n) = False := by
  apply eq_false
  intro h
  unfold hexNibble at h
  split at h
  · exact charOfNat_ne_esc _ (by omega) h.symm
  · exact charOfNat_ne_esc _ (by omega) h.symm

theorem escapeChar_noesc (c : Char) : '\x1b' ∉ escapeChar c := by
  unfold escapeChar
  repeat' split
  all_goals first
    | (simp [esc_ne_hexNibble]; done)
    | (rename_i h _ _
       intro hc
       simp only [List.mem_singleton] at hc
       subst hc
       revert h
       decide)

theorem escapeBody_noesc (s : String) : '\x1b' ∉ (escapeBody s).toList := by
  simp only [escapeBody, String.toList_ofList, List.mem_flatMap, not_exists, not_and]
  intro c _
  exact escapeChar_noesc c

/-! ### the rune-wise coloured string -/

theorem Strips.singleton {c : Char} (hc : c ≠ '\x1b') : Strips (String.singleton c) (String.singleton c) :=
  Strips.of_noesc (by simpa using fun h => hc h.symm)

theorem Strips.empty_left {s s' : String} : Strips s s' → Strips s ("" ++ s') := by
  intro h b; simpa using h b

theorem Strips.append_empty {s s' : String} : Strips s s' → Strips s (s' ++ "") := by
  intro h b; simpa using h b

theorem colorGo_strips (code : String) (hcode : Strips code "") (rs : List Char) :
    ∀ common, '\x1b' ∉ rs → Strips (colorStringMarshal.go code rs common) (String.ofList rs) := by
  induction rs with
  | nil =>
    intro common _
    cases common <;> simpa [colorStringMarshal.go] using Strips.empty
  | cons r rs ih =>
    intro common hr
    simp only [List.mem_cons, not_or] at hr
    have hr1 : r ≠ '\x1b' := fun h => hr.1 h.symm
    have hsplit : String.ofList (r :: rs) = String.singleton r ++ String.ofList rs := by
      apply String.toList_inj.mp; simp
    have hcol : ∀ cs, Strips (code ++ String.singleton r ++ colorDefault ++ colorStringMarshal.go code rs cs)
        (String.ofList (r :: rs)) := by
      intro cs b
      have h1 := ((hcode.append (Strips.singleton hr1)).append Strips.code_default).append (ih cs hr.2)
      have := h1 b
      simpa [String.toList_append] using this
    cases common with
    | nil => simpa [colorStringMarshal.go] using hcol []
    | cons c cs =>
      simp only [colorStringMarshal.go]
      split
      · rw [hsplit]; exact (Strips.singleton hr1).append (ih cs hr.2)
      · exact hcol (c :: cs)

theorem colorStringMarshal_strips (x : String) (common : List Char) (code : String)
    (hcode : Strips code "") : Strips (colorStringMarshal x common code) (quoteString x) := by
  unfold colorStringMarshal quoteString
  have hq : Strips "\"" "\"" := Strips.of_noesc (by simp)
  have := colorGo_strips code hcode (escapeBody x).toList common (escapeBody_noesc x)
  rw [String.ofList_toList] at this
  exact (hq.append this).append hq

theorem marshalNode_str (nc : NumCodec) (x : String) : marshalNode nc (.str x) = some (quoteString x) := by
  simp [marshalNode, jsonText]

/-! ### the hunk renderer -/

theorem ctx_line_strips (nc : NumCodec) (lit : String) (hlit : '\x1b' ∉ lit.toList) (v : Json)
    (hv : ¬ v.isVoid → ∀ t, marshalNode nc v = some t → '\x1b' ∉ t.toList) :
    ORel Strips
      (if v.isVoid = true then some lit else Option.map (fun t => "  " ++ t ++ "\n") (marshalNode nc v))
      (if v.isVoid = true then some lit else Option.map (fun t => "  " ++ t ++ "\n") (marshalNode nc v)) := by
  split
  · exact Strips.of_noesc hlit
  · rename_i hvoid
    cases hm : marshalNode nc v with
    | none => simp [ORel]
    | some t =>
      simp only [Option.map_some, ORel]
      exact ((Strips.of_noesc (by simp)).append (Strips.of_noesc (hv hvoid t hm))).append
        (Strips.of_noesc (by simp))

theorem chg_line_strips (nc : NumCodec) (sign : String) (hsign : '\x1b' ∉ sign.toList)
    (code : String) (hcode : Strips code "")
    (single : Option (String × String)) (common : List Char) (v : Json)
    (hv : ∀ t, marshalNode nc v = some t → '\x1b' ∉ t.toList) :
    ORel Strips
      (match (generalizing := false) single, true, v with
        | some _, true, .str x => some (sign ++ colorStringMarshal x common code ++ "\n")
        | _, _, _ => (marshalNode nc v).map (fun t =>
            (if true = true then code else "") ++ sign ++ t ++ "\n" ++ (if true = true then colorDefault else "")))
      (match (generalizing := false) single, false, v with
        | some _, true, .str x => some (sign ++ colorStringMarshal x common code ++ "\n")
        | _, _, _ => (marshalNode nc v).map (fun t =>
            (if false = true then code else "") ++ sign ++ t ++ "\n" ++ (if false = true then colorDefault else ""))) := by
  have hnl : Strips "\n" "\n" := Strips.of_noesc (by simp)
  have hsg : Strips sign sign := Strips.of_noesc hsign
  have hplain : ∀ t, '\x1b' ∉ t.toList → Strips (code ++ sign ++ t ++ "\n" ++ colorDefault) ("" ++ sign ++ t ++ "\n" ++ "") :=
    fun t ht => (((hcode.append hsg).append (Strips.of_noesc ht)).append hnl).append Strips.code_default
  have hfall : ORel Strips
      ((marshalNode nc v).map (fun t => code ++ sign ++ t ++ "\n" ++ colorDefault))
      ((marshalNode nc v).map (fun t => "" ++ sign ++ t ++ "\n" ++ "")) := by
    cases hm : marshalNode nc v with
    | none => simp [ORel]
    | some t => simpa only [Option.map_some, ORel] using hplain t (hv t hm)
  have hspecial : ∀ x, ORel Strips (some (sign ++ colorStringMarshal x common code ++ "\n"))
      ((marshalNode nc (.str x)).map (fun t => "" ++ sign ++ t ++ "\n" ++ "")) := by
    intro x
    rw [marshalNode_str]
    simp only [Option.map_some, ORel]
    exact ((hsg.append (colorStringMarshal_strips x common code hcode)).append hnl).empty_left.append_empty
  rcases single with _ | p <;> cases v <;>
    simp only [↓reduceIte, Bool.false_eq_true] <;>
    first | exact hfall | exact hspecial _

theorem void_add_strips (m : Bool) :
    ORel Strips
      (if m = true then some ((if true = true then colorGreen else "") ++ "+\n" ++ (if true = true then colorDefault else ""))
        else some "")
      (if m = true then some ((if false = true then colorGreen else "") ++ "+\n" ++ (if false = true then colorDefault else ""))
        else some "") := by
  cases m <;> simp only [↓reduceIte, Bool.false_eq_true, ORel]
  · exact Strips.empty
  · exact ((Strips.code_green.append (Strips.of_noesc (by simp))).append Strips.code_default).append_empty

theorem renderHunk_color_orel (nc : NumCodec) (h : Hunk) (hn : NoEsc nc [h]) :
    ORel Strips (renderHunk nc [.color] h) (renderHunk nc [] h) := by
  obtain ⟨hpath, hpay⟩ := hn h (by simp)
  have hpay' : ∀ v, (v ∈ h.before ∨ v ∈ h.remove ∨ v ∈ h.add ∨ v ∈ h.after) → ¬ v.isVoid = true →
      ∀ t, marshalNode nc v = some t → '\x1b' ∉ t.toList := by
    intro v hv hvoid
    apply hpay v
    simp only [payloads, List.mem_filter, List.mem_append]
    refine ⟨?_, by simpa using hvoid⟩
    rcases hv with h | h | h | h <;> simp [h]
  unfold renderHunk
  extract_lets color merge mline single common color' merge'
  have hc : color = true := rfl
  have hc' : color' = false := rfl
  have hm : merge = merge' := rfl
  clear_value color color' merge merge' single common
  subst hc hc' hm
  have hml : Strips mline mline := by
    apply Strips.of_noesc
    simp only [mline]
    split <;> simp
  clear_value mline
  refine ORel.bind (R := Strips) ?_ ?_
  · cases hp : jsonM nc (pathToJson h.path) with
    | none => simp [ORel]
    | some t => exact Strips.of_noesc (hpath t hp)
  intro pt pt' hpt
  refine ORel.bind (ORel.optAll_map _ _ _ ?_) ?_
  · intro v hv
    exact ctx_line_strips nc "[\n" (by simp) v (hpay' v (Or.inl hv))
  intro bf bf' hbf
  refine ORel.bind (ORel.optAll_map _ _ _ ?_) ?_
  · intro v hv
    split
    · exact Strips.empty
    · rename_i hvoid
      exact chg_line_strips nc "- " (by simp) colorRed Strips.code_red single common v
        (hpay' v (Or.inr (Or.inl hv)) hvoid)
  intro rm rm' hrm
  refine ORel.bind (ORel.optAll_map _ _ _ ?_) ?_
  · intro v hv
    split
    · exact void_add_strips merge
    · rename_i hvoid
      exact chg_line_strips nc "+ " (by simp) colorGreen Strips.code_green single common v
        (hpay' v (Or.inr (Or.inr (Or.inl hv))) hvoid)
  intro ad ad' had
  refine ORel.bind (ORel.optAll_map _ _ _ ?_) ?_
  · intro v hv
    exact ctx_line_strips nc "]\n" (by simp) v (hpay' v (Or.inr (Or.inr (Or.inr hv))))
  intro af af' haf
  show Strips _ _
  exact ((((((hml.append (Strips.of_noesc (by simp))).append hpt).append (Strips.of_noesc (by simp))).append
    hbf.join).append hrm.join).append had.join).append haf.join

theorem renderHunk_color_strip (nc : NumCodec) (h : Hunk) (hn : NoEsc nc [h]) :
    (renderHunk nc [.color] h).map (fun s => String.ofList (stripAnsi s.toList)) = renderHunk nc [] h :=
  (renderHunk_color_orel nc h hn).final

theorem renderM_color_strip (nc : NumCodec) (d : Diff) (hn : NoEsc nc d) :
    (renderM nc [.color] d).map (fun s => String.ofList (stripAnsi s.toList)) = renderM nc [] d := by
  apply ORel.final
  unfold renderM
  have := ORel.optAll_map d (renderHunk nc [.color]) (renderHunk nc []) (fun h hh =>
    renderHunk_color_orel nc h (fun h' hh' => by
      simp only [List.mem_singleton] at hh'; subst hh'; exact hn _ hh))
  revert this
  cases optAll (d.map (renderHunk nc [.color])) <;> cases optAll (d.map (renderHunk nc [])) <;>
    simp only [ORel, Option.map_none, Option.map_some, imp_self]
  exact LStrips.join


/-! ### 15. non-vacuity -/

/-- a codec that knows no number token (integers below 2^53 are handled by the model itself) -/
def exCodec : NumCodec := { fmt := fun _ => none, parse := fun _ => none }

/-- a list hunk with context followed by a merge hunk -/
def exDiff : Diff :=
  [ { path := [.key "a", .idx 1], before := [.void, .bool false], remove := [.str "x", .arr .list [.null]],
      add := [.void, .bool true], after := [.void] },
    { merge := true, path := [.key "b"], add := [.void] } ]

example : wfDiff exDiff = true := by decide
example : exDiff.all listDocHunk = true := by decide

theorem exCodec_fmt_one : fmtNum exCodec (intToFloatBits 1) = some "1" := by
  have h1 : intToFloatBits 1 = 4607182418800017408 := by decide
  have h2 : floatToInt? 4607182418800017408 = some 1 := by decide
  have h3 : natToDigits 1 = "1" := by decide
  simp [fmtNum, h1, h2, h3]

/-- the codec contract is satisfiable: it holds for the example -/
theorem exDiff_codecOK : CodecOK exCodec exDiff := by
  intro h hh
  simp only [exDiff, List.mem_cons, List.not_mem_nil, or_false] at hh
  rcases hh with rfl | rfl
  · refine ⟨?_, ?_⟩
    · intro t ht
      have : t = "[\"a\",1]" := by
        simpa [jsonM, pathToJson, rawNorm, rawNormList, jsonText, jsonTextList, quoteString, escapeBody,
          escapeChar, exCodec_fmt_one, eq_comm] using ht
      subst this
      refine ⟨by simp, ?_⟩
      simp [readJsonM, trimGoSpace, parseJson, parseValue, skipWs, isJsonWs, parseElems, lexString,
        isDigit, lexNumber, lexNumber.lexFrac, lexNumber.lexExp, parseNumToken, exCodec,
        takeDigits, untag, untagList, pathToJson]
    · intro v hv
      simp only [payloads, List.cons_append, List.nil_append, List.filter_cons, Json.isVoid,
        Bool.not_true, Bool.false_eq_true, ↓reduceIte, Bool.not_false, List.filter_nil,
        List.mem_cons, List.not_mem_nil, or_false] at hv
      rcases hv with rfl | rfl | rfl | rfl
      all_goals
        intro t ht
        simp [marshalNode, marshalList, jsonText, quoteString, escapeBody, escapeChar] at ht
        subst ht
        refine ⟨by simp, ?_⟩
        simp [readJsonM, trimGoSpace, parseJson, parseValue, skipWs, isJsonWs, parseElems, lexString,
          untag, untagList]
  · refine ⟨?_, ?_⟩
    · intro t ht
      have : t = "[\"b\"]" := by
        simpa [jsonM, pathToJson, rawNorm, rawNormList, jsonText, jsonTextList, quoteString, escapeBody,
          escapeChar, eq_comm] using ht
      subst this
      refine ⟨by simp, ?_⟩
      simp [readJsonM, trimGoSpace, parseJson, parseValue, skipWs, isJsonWs, parseElems, lexString,
        untag, untagList, pathToJson]
    · intro v hv
      simp [payloads, Json.isVoid] at hv

/-- the main theorem instantiated -/
example (text : String) (h : renderM exCodec [] exDiff = some text) :
    readDiffM exCodec text = .ok (normDiff exDiff) :=
  read_render exCodec exDiff text (by decide) exDiff_codecOK h

end Jd.NativeRT

#print axioms Jd.NativeRT.read_render
#print axioms Jd.NativeRT.readLines_rendered
#print axioms Jd.NativeRT.render_norm
#print axioms Jd.NativeRT.render_read_render
#print axioms Jd.NativeRT.renderM_color_strip
#print axioms Jd.NativeRT.renderHunk_color_strip
#print axioms Jd.NativeRT.newPathM_norm
#print axioms Jd.NativeRT.floatTrunc_intToFloatBits
#print axioms Jd.NativeRT.splitOn_unlines
#print axioms Jd.NativeRT.exDiff_codecOK
