/-
  JdProofs.YamlProofs — property C16 (JSON and YAML are interchangeable carriers of a document),
  on the level of jd's own glue (JdModel.Yaml): whatever the two decoders hand to `NewJsonNode`
  for a rendered document — `raw()` itself for encoding/json, `yamlize (raw())` for yaml.v2 (the
  contract checked against the real library by the harness) — is turned back into the document.

    §1  float bits: `intToFloatBits` inverts `floatToInt?` (the int detour yaml.v2 takes for integral
        floats of magnitude below 10^6 is exact, except that it loses the sign of -0)
    §2  JSON carrier:  newJsonNodeM (rawM j) = .ok (rawNorm j)
    §3  YAML carrier:  newJsonNodeM (yamlize (rawM j)) = .ok (posZero (rawNorm j))
    §4  the carriers agree; `unmarshalM`
    §5  what the glue rejects (int64, uint64, non-string keys, non-finite floats, foreign types) and
        what it mishandles (values that already are JsonNodes)
-/
import JdModel.Yaml
import JdModel.WF

namespace Jd.Yaml
open Jd

/-! ## §1 float bits -/

/-! ### the three bit fields as arithmetic on `b.toNat` -/

theorem fib_sign (b : UInt64) : (b >>> 63 == 1) = decide (b.toNat / 2 ^ 63 = 1) := by
  rw [Bool.eq_iff_iff]
  simp [← UInt64.toNat_inj, UInt64.toNat_shiftRight, Nat.shiftRight_eq_div_pow]

theorem fib_exp (b : UInt64) : ((b >>> 52) &&& 0x7FF).toNat = (b.toNat / 2 ^ 52) % 2 ^ 11 := by
  rw [UInt64.toNat_and, UInt64.toNat_shiftRight, Nat.shiftRight_eq_div_pow]
  exact Nat.and_two_pow_sub_one_eq_mod _ 11

theorem fib_frac (b : UInt64) : (b &&& 0xFFFFFFFFFFFFF).toNat = b.toNat % 2 ^ 52 := by
  rw [UInt64.toNat_and]
  exact Nat.and_two_pow_sub_one_eq_mod _ 52

/-- sign, exponent and fraction fields put back together -/
theorem fib_recompose (B : Nat) :
    B / 2 ^ 63 * 2 ^ 63 + (B / 2 ^ 52) % 2 ^ 11 * 2 ^ 52 + B % 2 ^ 52 = B := by
  omega

/-! ### the shifted significand -/

/-- `m = frac + 2^52` shifted right by `sh ≤ 52` exact bits: position of the leading bit and the
    shift back -/
theorem fib_shift (m sh : Nat) (hlo : 2 ^ 52 ≤ m) (hhi : m < 2 ^ 53) (hsh : sh ≤ 52)
    (hdiv : m % 2 ^ sh = 0) :
    m / 2 ^ sh ≠ 0 ∧ (m / 2 ^ sh).log2 = 52 - sh ∧
      m / 2 ^ sh * 2 ^ (52 - (52 - sh)) = m := by
  have hp : 0 < 2 ^ sh := Nat.pow_pos (by decide)
  have h52 : 2 ^ (52 - sh) * 2 ^ sh = 2 ^ 52 := by
    rw [← Nat.pow_add]; congr 1; omega
  have h53 : 2 ^ (52 - sh + 1) * 2 ^ sh = 2 ^ 53 := by
    rw [← Nat.pow_add]; congr 1; omega
  have hge : 2 ^ (52 - sh) ≤ m / 2 ^ sh := by
    rw [Nat.le_div_iff_mul_le hp, h52]; exact hlo
  have hlt : m / 2 ^ sh < 2 ^ (52 - sh + 1) := by
    rw [Nat.div_lt_iff_lt_mul hp, h53]; exact hhi
  have hne : m / 2 ^ sh ≠ 0 := by
    have : 0 < 2 ^ (52 - sh) := Nat.pow_pos (by decide)
    omega
  refine ⟨hne, (Nat.log2_eq_iff hne).2 ⟨hge, hlt⟩, ?_⟩
  have : 52 - (52 - sh) = sh := by omega
  rw [this]
  exact Nat.div_mul_cancel (Nat.dvd_of_mod_eq_zero hdiv)

/-- `intToFloatBits` of a nonzero integer with known magnitude and leading bit -/
theorem intToFloatBits_of_log2 (i : Int) (n k : Nat) (hn : i.natAbs = n) (hn0 : n ≠ 0)
    (hk : n.log2 = k) :
    intToFloatBits i =
      UInt64.ofNat ((if i < 0 then 1 else 0) * 2 ^ 63 + (1023 + k) * 2 ^ 52 +
        (n * 2 ^ (52 - k) - 2 ^ 52)) := by
  have hi : i ≠ 0 := by intro h; subst h; exact hn0 hn.symm
  simp [intToFloatBits, natLog2, hi, hn, hn0, hk]

theorem natAbs_signed (c : Bool) (v : Nat) :
    (if c = true then -(v : Int) else (v : Int)).natAbs = v := by
  cases c <;> simp

theorem neg_signed (c : Bool) (v : Nat) (hv : 0 < v) :
    ((if c = true then -(v : Int) else (v : Int)) < 0) ↔ c = true := by
  cases c <;> simp <;> omega

/-! ### main statements -/

/-- a finite binary64 with integral value i, |i| < 2^52, other than -0, is exactly what
    `intToFloatBits i` rebuilds -/
theorem intToFloatBits_of_floatToInt (b : UInt64) (i : Int)
    (h : floatToInt? b = some i) (hr : i.natAbs < 2 ^ 52) (hz : b ≠ 0x8000000000000000) :
    intToFloatBits i = b := by
  have hB : b.toNat < 2 ^ 64 := b.toNat_lt
  have hrec := fib_recompose b.toNat
  unfold floatToInt? at h
  simp only [fib_sign, fib_exp, fib_frac] at h
  generalize hs : b.toNat / 2 ^ 63 = s at h hrec
  generalize he : (b.toNat / 2 ^ 52) % 2 ^ 11 = e at h hrec
  generalize hf : b.toNat % 2 ^ 52 = frac at h hrec
  have hs2 : s < 2 := by omega
  have hf2 : frac < 2 ^ 52 := by omega
  split at h
  · exact absurd h (by simp)
  split at h
  · -- e = 0 : only ±0 has an integral value
    rename_i he0
    split at h
    · rename_i hf0
      have he0 : e = 0 := by simpa using he0
      have hf0 : frac = 0 := by simpa using hf0
      have hi : i = 0 := by simpa using h.symm
      subst hi
      have hs0 : s = 0 := by
        rcases (by omega : s = 0 ∨ s = 1) with h0 | h1
        · exact h0
        · exfalso; apply hz; apply UInt64.toNat_inj.1
          rw [← hrec, h1, he0, hf0]; rfl
      apply UInt64.toNat_inj.1
      rw [← hrec, hs0, he0, hf0]; rfl
    · exact absurd h (by simp)
  rename_i he7 he0
  have he0 : e ≠ 0 := by simpa using he0
  split at h
  · -- e ≥ 1075 : magnitude at least 2^52
    rename_i hge
    exfalso
    have hpos : 0 < 2 ^ (e - 1075) := Nat.pow_pos (by decide)
    have hmag : 2 ^ 52 ≤ (frac + 2 ^ 52) * 2 ^ (e - 1075) :=
      Nat.le_trans (Nat.le_add_left _ _) (Nat.le_mul_of_pos_right _ hpos)
    have hi : i.natAbs = (frac + 2 ^ 52) * 2 ^ (e - 1075) := by
      injection h with h
      rw [← h]; exact natAbs_signed _ _
    omega
  rename_i hlt
  split at h
  · exact absurd h (by simp)
  rename_i hsh
  split at h
  · rename_i hdiv
    have hdiv : (frac + 2 ^ 52) % 2 ^ (1075 - e) = 0 := by simpa using hdiv
    obtain ⟨hn0, hlog, hback⟩ :=
      fib_shift (frac + 2 ^ 52) (1075 - e) (by omega) (by omega) (by omega) hdiv
    generalize hnn : (frac + 2 ^ 52) / 2 ^ (1075 - e) = n at h hn0 hlog hback
    have hi : i.natAbs = n := by
      injection h with h
      rw [← h]; exact natAbs_signed _ _
    have hneg : (if i < 0 then 1 else 0 : Nat) = s := by
      injection h with h
      have hlt0 : i < 0 ↔ s = 1 := by
        rw [← h, neg_signed _ _ (Nat.pos_of_ne_zero hn0)]; simp
      by_cases h1 : s = 1
      · rw [if_pos (hlt0.2 h1), h1]
      · rw [if_neg (fun h2 => h1 (hlt0.1 h2))]; omega
    rw [intToFloatBits_of_log2 i n _ hi hn0 hlog, hneg, hback]
    have hexp : 1023 + (52 - (1075 - e)) = e := by omega
    rw [hexp, Nat.add_sub_cancel, hrec]
    exact UInt64.ofNat_toNat
  · exact absurd h (by simp)

/-- -0 has integral value 0 -/
theorem floatToInt_negZero : floatToInt? 0x8000000000000000 = some 0 := by
  decide


def negZero : UInt64 := 0x8000000000000000

/-- what the int detour of yaml.v2 does to a number: nothing, except -0 ↦ +0 -/
def posZeroBits (b : UInt64) : UInt64 := if b = negZero then 0 else b

theorem asNode?_yamlizeNum (b : UInt64) : asNode? (yamlizeNum b) = none := by
  unfold yamlizeNum
  split
  · split <;> rfl
  · rfl

/-- the glue on what yaml.v2 makes of a finite float64 -/
theorem new_yamlizeNum (b : UInt64) (hf : isFinite64 b = true) :
    newJsonNodeM (yamlizeNum b) = .ok (.num (posZeroBits b)) := by
  unfold yamlizeNum posZeroBits
  split
  · rename_i i hi
    split
    · rename_i hlt
      have h53 : i.natAbs < 2 ^ 53 := by
        have : (10 : Nat) ^ 6 < 2 ^ 53 := by decide
        omega
      have h52 : i.natAbs < 2 ^ 52 := by
        have : (10 : Nat) ^ 6 < 2 ^ 52 := by decide
        omega
      simp only [newJsonNodeM, intToF64, h53, if_true]
      by_cases hz : b = negZero
      · subst hz
        have : i = 0 := by
          have h0 := floatToInt_negZero
          unfold negZero at hi
          rw [h0] at hi
          injection hi with hi
          exact hi.symm
        subst this
        simp [negZero]
        rfl
      · rw [if_neg hz, intToFloatBits_of_floatToInt b i hi h52 hz]
    · rename_i hge
      have hz : b ≠ negZero := by
        intro hz
        subst hz
        have h0 := floatToInt_negZero
        unfold negZero at hi
        rw [h0] at hi
        injection hi with hi
        subst hi
        exact hge (by decide)
      simp [newJsonNodeM, hf, hz]
  · rename_i hnone
    have hz : b ≠ negZero := by
      intro hz
      subst hz
      have h0 := floatToInt_negZero
      unfold negZero at hnone
      rw [h0] at hnone
      exact absurd hnone (by simp)
    simp [newJsonNodeM, hf, hz]


/-! ## §2 JSON carrier -/

theorem asNode?_rawOf (d : Json) : asNode? (rawOf d) = none := by
  cases d <;> rfl

theorem keysSorted_tail' {β} (k : String) (v : β) (r : List (String × β))
    (h : keysSorted ((k, v) :: r) = true) : keysSorted r = true := by
  cases r with
  | nil => rfl
  | cons kv t =>
    obtain ⟨k', v'⟩ := kv
    simp only [keysSorted, Bool.and_eq_true] at h
    exact h.2

/-- putting the least key in front of a sorted list -/
theorem ainsert_sorted_head {β} (k : String) (v w : β) (r : List (String × β))
    (h : keysSorted ((k, w) :: r) = true) : ainsert k v r = (k, v) :: r := by
  cases r with
  | nil => rfl
  | cons kv t =>
    obtain ⟨k', v'⟩ := kv
    simp only [keysSorted, Bool.and_eq_true, decide_eq_true_eq] at h
    simp [ainsert, h.1]

mutual
/-- `NewJsonNode` undoes the structural translation on text documents -/
theorem new_rawOf : ∀ (d : Json), d.rawDoc = true → d.wf = true → voidFree d = true →
    finite d = true → newJsonNodeM (rawOf d) = .ok d
  | .void, _, _, hv, _ => by simp [voidFree] at hv
  | .null, _, _, _, _ => rfl
  | .bool _, _, _, _, _ => rfl
  | .num b, _, _, _, hf => by
    simp only [finite] at hf
    simp [rawOf, newJsonNodeM, hf]
  | .str _, _, _, _, _ => rfl
  | .arr t xs, hr, hw, hv, hf => by
    simp only [Json.rawDoc, Bool.and_eq_true, beq_iff_eq] at hr
    simp only [Json.wf] at hw
    simp only [voidFree] at hv
    simp only [finite] at hf
    obtain ⟨ht, hr⟩ := hr
    subst ht
    simp [rawOf, newJsonNodeM, newSlice_rawOfList xs hr hw hv hf, Except.map]
  | .obj kvs, hr, hw, hv, hf => by
    simp only [Json.rawDoc] at hr
    simp only [Json.wf, Bool.and_eq_true] at hw
    simp only [voidFree] at hv
    simp only [finite] at hf
    simp [rawOf, newJsonNodeM, newMapS_rawOfKvs kvs hw.1 hr hw.2 hv hf, Except.map]
theorem newSlice_rawOfList : ∀ (xs : List Json), rawDocList xs = true → wfList xs = true →
    voidFreeList xs = true → finiteList xs = true → newSlice (rawOfList xs) = .ok xs
  | [], _, _, _, _ => rfl
  | x :: r, hr, hw, hv, hf => by
    simp only [rawDocList, wfList, voidFreeList, finiteList, Bool.and_eq_true] at hr hw hv hf
    simp [rawOfList, newSlice, asNode?_rawOf, new_rawOf x hr.1 hw.1 hv.1 hf.1,
      newSlice_rawOfList r hr.2 hw.2 hv.2 hf.2, both]
theorem newMapS_rawOfKvs : ∀ (kvs : List (String × Json)), keysSorted kvs = true →
    rawDocKvs kvs = true → wfKvs kvs = true → voidFreeKvs kvs = true → finiteKvs kvs = true →
    newMapS (rawOfKvs kvs) = .ok kvs
  | [], _, _, _, _, _ => rfl
  | (k, v) :: r, hs, hr, hw, hv, hf => by
    simp only [rawDocKvs, wfKvs, voidFreeKvs, finiteKvs, Bool.and_eq_true] at hr hw hv hf
    simp [rawOfKvs, newMapS, asNode?_rawOf, new_rawOf v hr.1 hw.1 hv.1 hf.1,
      newMapS_rawOfKvs r (keysSorted_tail' k v r hs) hr.2 hw.2 hv.2 hf.2, both,
      ainsert_sorted_head k v v r hs]
end


/-! ## §3 YAML carrier -/

mutual
/-- the document with every -0 replaced by +0 -/
def posZero : Json → Json
  | .num b => .num (posZeroBits b)
  | .arr t xs => .arr t (posZeroList xs)
  | .obj kvs => .obj (posZeroKvs kvs)
  | n => n
def posZeroList : List Json → List Json
  | [] => []
  | x :: r => posZero x :: posZeroList r
def posZeroKvs : List (String × Json) → List (String × Json)
  | [] => []
  | (k, v) :: r => (k, posZero v) :: posZeroKvs r
end

theorem asNode?_yamlize_rawOf (d : Json) : asNode? (yamlize (rawOf d)) = none := by
  cases d with
  | num b => simpa [rawOf, yamlize] using asNode?_yamlizeNum b
  | _ => simp [rawOf, yamlize, asNode?]

theorem ainsert_posZeroKvs (k : String) (v w : Json) (r : List (String × Json))
    (h : keysSorted ((k, w) :: r) = true) :
    ainsert k v (posZeroKvs r) = (k, v) :: posZeroKvs r := by
  cases r with
  | nil => rfl
  | cons kv t =>
    obtain ⟨k', v'⟩ := kv
    simp only [keysSorted, Bool.and_eq_true, decide_eq_true_eq] at h
    simp [posZeroKvs, ainsert, h.1]

mutual
/-- `NewJsonNode` on what yaml.v2 returns for a rendered text document: the document, up to the
    sign of zero -/
theorem new_yamlize_rawOf : ∀ (d : Json), d.rawDoc = true → d.wf = true → voidFree d = true →
    finite d = true → newJsonNodeM (yamlize (rawOf d)) = .ok (posZero d)
  | .void, _, _, hv, _ => by simp [voidFree] at hv
  | .null, _, _, _, _ => rfl
  | .bool _, _, _, _, _ => rfl
  | .num b, _, _, _, hf => by
    simp only [finite] at hf
    simp only [rawOf, yamlize, posZero]
    exact new_yamlizeNum b hf
  | .str _, _, _, _, _ => rfl
  | .arr t xs, hr, hw, hv, hf => by
    simp only [Json.rawDoc, Bool.and_eq_true, beq_iff_eq] at hr
    simp only [Json.wf] at hw
    simp only [voidFree] at hv
    simp only [finite] at hf
    obtain ⟨ht, hr⟩ := hr
    subst ht
    simp [rawOf, yamlize, posZero, newJsonNodeM, newSlice_yamlize xs hr hw hv hf, Except.map]
  | .obj kvs, hr, hw, hv, hf => by
    simp only [Json.rawDoc] at hr
    simp only [Json.wf, Bool.and_eq_true] at hw
    simp only [voidFree] at hv
    simp only [finite] at hf
    simp [rawOf, yamlize, posZero, newJsonNodeM, newMapI_yamlize kvs hw.1 hr hw.2 hv hf, Except.map]
theorem newSlice_yamlize : ∀ (xs : List Json), rawDocList xs = true → wfList xs = true →
    voidFreeList xs = true → finiteList xs = true →
    newSlice (yamlizeList (rawOfList xs)) = .ok (posZeroList xs)
  | [], _, _, _, _ => rfl
  | x :: r, hr, hw, hv, hf => by
    simp only [rawDocList, wfList, voidFreeList, finiteList, Bool.and_eq_true] at hr hw hv hf
    simp [rawOfList, yamlizeList, posZeroList, newSlice, asNode?_yamlize_rawOf,
      new_yamlize_rawOf x hr.1 hw.1 hv.1 hf.1, newSlice_yamlize r hr.2 hw.2 hv.2 hf.2, both]
theorem newMapI_yamlize : ∀ (kvs : List (String × Json)), keysSorted kvs = true →
    rawDocKvs kvs = true → wfKvs kvs = true → voidFreeKvs kvs = true → finiteKvs kvs = true →
    newMapI (yamlizeKvs (rawOfKvs kvs)) = .ok (posZeroKvs kvs)
  | [], _, _, _, _, _ => rfl
  | (k, v) :: r, hs, hr, hw, hv, hf => by
    simp only [rawDocKvs, wfKvs, voidFreeKvs, finiteKvs, Bool.and_eq_true] at hr hw hv hf
    simp [rawOfKvs, yamlizeKvs, posZeroKvs, newMapI, asNode?_yamlize_rawOf,
      new_yamlize_rawOf v hr.1 hw.1 hv.1 hf.1,
      newMapI_yamlize r (keysSorted_tail' k v r hs) hr.2 hw.2 hv.2 hf.2, both,
      ainsert_posZeroKvs k (posZero v) v r hs]
end

mutual
/-- without -0 nothing changes -/
theorem posZero_of_noNegZero : ∀ (d : Json), noNegZero d = true → posZero d = d
  | .void, _ => rfl
  | .null, _ => rfl
  | .bool _, _ => rfl
  | .num b, h => by
    simp only [noNegZero, bne_iff_ne, ne_eq] at h
    simp [posZero, posZeroBits, negZero, h]
  | .str _, _ => rfl
  | .arr t xs, h => by
    simp only [noNegZero] at h
    simp [posZero, posZeroList_of_noNegZero xs h]
  | .obj kvs, h => by
    simp only [noNegZero] at h
    simp [posZero, posZeroKvs_of_noNegZero kvs h]
theorem posZeroList_of_noNegZero : ∀ (xs : List Json), noNegZeroList xs = true → posZeroList xs = xs
  | [], _ => rfl
  | x :: r, h => by
    simp only [noNegZeroList, Bool.and_eq_true] at h
    simp [posZeroList, posZero_of_noNegZero x h.1, posZeroList_of_noNegZero r h.2]
theorem posZeroKvs_of_noNegZero : ∀ (kvs : List (String × Json)), noNegZeroKvs kvs = true →
    posZeroKvs kvs = kvs
  | [], _ => rfl
  | (k, v) :: r, h => by
    simp only [noNegZeroKvs, Bool.and_eq_true] at h
    simp [posZeroKvs, posZero_of_noNegZero v h.1, posZeroKvs_of_noNegZero r h.2]
end


/-! ## §4 `raw()` normal form, the two carriers, `unmarshal` -/

mutual
/-- text documents (plain arrays only) are their own `raw()` normal form -/
theorem rawNorm_of_rawDoc : ∀ (d : Json), d.rawDoc = true → rawNorm d = d
  | .void, _ => rfl
  | .null, _ => rfl
  | .bool _, _ => rfl
  | .num _, _ => rfl
  | .str _, _ => rfl
  | .arr t xs, h => by
    simp only [Json.rawDoc, Bool.and_eq_true, beq_iff_eq] at h
    obtain ⟨ht, h⟩ := h
    subst ht
    simp [rawNorm, rawNormList_of_rawDoc xs h]
  | .obj kvs, h => by
    simp only [Json.rawDoc] at h
    simp [rawNorm, rawNormKvs_of_rawDoc kvs h]
theorem rawNormList_of_rawDoc : ∀ (xs : List Json), rawDocList xs = true → rawNormList xs = xs
  | [], _ => rfl
  | x :: r, h => by
    simp only [rawDocList, Bool.and_eq_true] at h
    simp [rawNormList, rawNorm_of_rawDoc x h.1, rawNormList_of_rawDoc r h.2]
theorem rawNormKvs_of_rawDoc : ∀ (kvs : List (String × Json)), rawDocKvs kvs = true →
    rawNormKvs kvs = kvs
  | [], _ => rfl
  | (k, v) :: r, h => by
    simp only [rawDocKvs, Bool.and_eq_true] at h
    simp [rawNormKvs, rawNorm_of_rawDoc v h.1, rawNormKvs_of_rawDoc r h.2]
end

theorem rawDocList_iff (xs : List Json) : rawDocList xs = true ↔ ∀ x ∈ xs, x.rawDoc = true := by
  induction xs with
  | nil => simp [rawDocList]
  | cons x r ih => simp [rawDocList, ih]

theorem lastByHash_mem (h : UInt64) : ∀ (ks : List UInt64) (vs : List Json) (y : Json),
    lastByHash h ks vs = some y → y ∈ vs
  | [], _, _, hy => by simp [lastByHash] at hy
  | _ :: _, [], _, hy => by simp [lastByHash] at hy
  | k :: ks, v :: vs, y, hy => by
    simp only [lastByHash] at hy
    split at hy
    · rename_i z hz
      injection hy with hy
      subst hy
      exact List.mem_cons_of_mem _ (lastByHash_mem h ks vs _ hz)
    · split at hy
      · injection hy with hy
        subst hy
        exact List.mem_cons_self
      · exact absurd hy (by simp)

mutual
/-- `raw()` never contains typed array nodes: its normal form is a text document -/
theorem rawDoc_rawNorm : ∀ (d : Json), (rawNorm d).rawDoc = true
  | .void => rfl
  | .null => rfl
  | .bool _ => rfl
  | .num _ => rfl
  | .str _ => rfl
  | .arr t xs => by
    have hl := rawDocList_rawNormList xs
    cases t with
    | set =>
      simp only [rawNorm, Json.rawDoc, beq_self_eq_true, Bool.true_and]
      rw [rawDocList_iff] at hl ⊢
      intro x hx
      simp only [setRawOrder, List.mem_filterMap] at hx
      obtain ⟨a, _, ha⟩ := hx
      exact hl x (lastByHash_mem a _ _ x ha)
    | raw => simpa [rawNorm, Json.rawDoc] using hl
    | list => simpa [rawNorm, Json.rawDoc] using hl
    | mset => simpa [rawNorm, Json.rawDoc] using hl
  | .obj kvs => by
    simpa [rawNorm, Json.rawDoc] using rawDocKvs_rawNormKvs kvs
theorem rawDocList_rawNormList : ∀ (xs : List Json), rawDocList (rawNormList xs) = true
  | [] => rfl
  | x :: r => by
    simp [rawNormList, rawDocList, rawDoc_rawNorm x, rawDocList_rawNormList r]
theorem rawDocKvs_rawNormKvs : ∀ (kvs : List (String × Json)), rawDocKvs (rawNormKvs kvs) = true
  | [] => rfl
  | (k, v) :: r => by
    simp [rawNormKvs, rawDocKvs, rawDoc_rawNorm v, rawDocKvs_rawNormKvs r]
end

/-- (i) JSON carrier, any node (typed arrays included): the glue turns `raw()` back into the
    `raw()` normal form, provided that normal form has unique sorted keys, no void inside and
    finite numbers -/
theorem json_carrier_norm (j : Json) (hw : (rawNorm j).wf = true)
    (hv : voidFree (rawNorm j) = true) (hf : finite (rawNorm j) = true) :
    newJsonNodeM (rawM j) = .ok (rawNorm j) :=
  new_rawOf (rawNorm j) (rawDoc_rawNorm j) hw hv hf

/-- (i) JSON carrier, documents as read from text: `ReadJsonString(n.Json())` is `n` -/
theorem json_carrier (j : Json) (hr : j.rawDoc = true) (hw : j.wf = true)
    (hv : voidFree j = true) (hf : finite j = true) : jsonRoundTripM j = .ok j := by
  unfold jsonRoundTripM rawM
  rw [rawNorm_of_rawDoc j hr]
  exact new_rawOf j hr hw hv hf

/-- (ii) YAML carrier, any node: the glue handles every shape `yamlize` produces and rebuilds the
    `raw()` normal form up to the sign of zero -/
theorem yaml_carrier_norm (j : Json) (hw : (rawNorm j).wf = true)
    (hv : voidFree (rawNorm j) = true) (hf : finite (rawNorm j) = true) :
    newJsonNodeM (yamlize (rawM j)) = .ok (posZero (rawNorm j)) :=
  new_yamlize_rawOf (rawNorm j) (rawDoc_rawNorm j) hw hv hf

/-- (ii) YAML carrier, text documents: `ReadYamlString(n.Yaml())` is `n` with -0 replaced by 0 -/
theorem yaml_carrier_posZero (j : Json) (hr : j.rawDoc = true) (hw : j.wf = true)
    (hv : voidFree j = true) (hf : finite j = true) : yamlRoundTripM j = .ok (posZero j) := by
  unfold yamlRoundTripM rawM
  rw [rawNorm_of_rawDoc j hr]
  exact new_yamlize_rawOf j hr hw hv hf

/-- (ii) YAML carrier, text documents without -0: `ReadYamlString(n.Yaml())` is `n` -/
theorem yaml_carrier (j : Json) (hr : j.rawDoc = true) (hw : j.wf = true)
    (hv : voidFree j = true) (hf : finite j = true) (hz : noNegZero j = true) :
    yamlRoundTripM j = .ok j := by
  rw [yaml_carrier_posZero j hr hw hv hf, posZero_of_noNegZero j hz]

/-- C16 on the glue: the same document comes back from both carriers -/
theorem carriers_agree (j : Json) (hr : j.rawDoc = true) (hw : j.wf = true)
    (hv : voidFree j = true) (hf : finite j = true) (hz : noNegZero j = true) :
    yamlRoundTripM j = jsonRoundTripM j := by
  rw [yaml_carrier j hr hw hv hf hz, json_carrier j hr hw hv hf]

/-- `unmarshal` with a decoder satisfying the contract, on a non-blank rendering -/
theorem unmarshal_yaml (j : Json) (hr : j.rawDoc = true) (hw : j.wf = true)
    (hv : voidFree j = true) (hf : finite j = true) (hz : noNegZero j = true) :
    unmarshalM false (some (yamlize (rawM j))) = .ok j := by
  simpa [unmarshalM, yamlRoundTripM] using yaml_carrier j hr hw hv hf hz

/-- blank text is the void document whatever the decoder would say -/
theorem unmarshal_blank (d : Option Raw) : unmarshalM true d = .ok .void := rfl

/-- the sign of zero is what the YAML carrier loses (yaml.v2 writes "-0" and reads the int 0) -/
theorem yaml_carrier_negZero : yamlRoundTripM (.num negZero) = .ok (.num 0) := by
  have h := yaml_carrier_posZero (.num negZero) rfl rfl rfl (by decide)
  simpa [posZero, posZeroBits] using h

/-! ## §5 what the glue rejects, and what it mishandles -/

/-- (iii) int64 and uint64 are not accepted (only `int`) -/
example : newJsonNodeM (.int64 5) = .error .unsupported := rfl
example : newJsonNodeM (.uint64 5) = .error .unsupported := rfl
example : newJsonNodeM (.slice [.int 1, .int64 2]) = .error .unsupported := rfl
/-- (iii) non-string keys are rejected -/
example : newJsonNodeM (.mapI [(.int 1, .str "a")]) = .error .unsupported := rfl
example : newJsonNodeM (.mapI [(.str "a", .int 1), (.nil, .int 2)]) = .error .unsupported := rfl
/-- (iii) foreign types (time.Time, float32, …) and non-finite floats are rejected -/
example : newJsonNodeM (.other "time.Time") = .error .unsupported := rfl
example : newJsonNodeM (.f64 0x7ff8000000000000) = .error .unsupported := by
  have h : isFinite64 0x7ff8000000000000 = false := by decide
  simp [newJsonNodeM, h]
example : newJsonNodeM (.f64 0x7ff0000000000000) = .error .unsupported := by
  have h : isFinite64 0x7ff0000000000000 = false := by decide
  simp [newJsonNodeM, h]
/-- `int` is accepted -/
example : newJsonNodeM (.mapI [(.str "a", .int 1)]) = .ok (.obj [("a", .num 0x3ff0000000000000)]) := by
  have h : intToF64 1 = 0x3ff0000000000000 := by decide
  simp [newJsonNodeM, newMapI, asNode?, both, ainsert, Except.map, h]
/-- values that already are JsonNodes: stored as they are under `map[string]interface{}`,
    DROPPED under `map[interface{}]interface{}`, a NIL slot under `[]interface{}`, rejected at the top -/
example : newJsonNodeM (.mapS [("a", .node (.str "x"))]) = .ok (.obj [("a", .str "x")]) := rfl
example : newJsonNodeM (.mapI [(.str "a", .node (.str "x"))]) = .ok (.obj []) := rfl
example : newJsonNodeM (.slice [.node (.str "x")]) = .error .nilElem := rfl
example : newJsonNodeM (.node (.str "x")) = .error .unsupported := rfl
/-- an error anywhere wins over a nil slot anywhere -/
example : newJsonNodeM (.slice [.node (.str "x"), .int64 1]) = .error .unsupported := rfl

end Jd.Yaml

#print axioms Jd.Yaml.json_carrier_norm
#print axioms Jd.Yaml.json_carrier
#print axioms Jd.Yaml.yaml_carrier_norm
#print axioms Jd.Yaml.yaml_carrier_posZero
#print axioms Jd.Yaml.yaml_carrier
#print axioms Jd.Yaml.carriers_agree
#print axioms Jd.Yaml.unmarshal_yaml
#print axioms Jd.Yaml.yaml_carrier_negZero
#print axioms Jd.Yaml.new_yamlizeNum
#print axioms Jd.Yaml.intToFloatBits_of_floatToInt
