/-
  JdProofs.MergeTextSetModes (namespace `Jd.MTS`) — property C11 (RFC 7386 output, v2 library) at the
  level of the JSON TEXT for the option combinations that JdProofs/RfcTextLevel.lean (`RTL.merge_text_rfc`:
  MERGE, list reading, no Precision) left open: SET+MERGE, MULTISET+MERGE, SetKeys+MERGE without a
  clash, MULTISET+SetKeys+MERGE, and MERGE with a non-negative Precision.

  Library functions: `diffM` (`a.Diff(b, options...)`), `renderMergeM nc` (`Diff.RenderMerge()`, the
  TEXT), `parseJson nc` (`json.Unmarshal` into a document). Specifications: `Spec.mergePatch` (RFC 7386
  pseudocode), `equals o` (the library's `Equals`), `equivB o` (the advertised equivalence).

  THE NEW POINT. The document `RenderMerge` builds (`renderMergeDoc`, what the document-level theorems
  `MSet.merge_render_correct_setmodes`, `KM.merge_render_correct_setkeys_noclash`,
  `MP.merge_render_correct_precision` talk about) stores an array that replaces one of `a` as a TYPED node
  (`jsonSet` / `jsonMultiset` / `jsonList`) holding `b`'s members as they are. Its TEXT is `Json()` of that
  document, which prints `raw()`: a `jsonSet` is printed in the order of its members' hash codes, ONE
  member per hash code (`rawNorm`, `setRawOrder`). So the parsed text is not the rendered document up to
  tags (as in the list reading) but a re-ordered, de-duplicated version of it
  (`Witness.set_text_reorders_and_dedups`: `["z","x","z"]` is printed `["x","z"]`; replayed on Go), and
  "RFC 7386 yields `b`" holds under the set reading only — also for the arrays replaced wholesale.
  Under the set reading it needs the hash hypothesis once more: a member dropped by `raw()` has the hash
  code of the member that is kept, which must be an equivalent member.

  MAIN THEOREMS (all with conclusion
      ∃ text p, renderMergeM nc (diffM o a b) = .ok (some text) ∧ parseJson nc text = some p ∧
        p.isVoid = false ∧ p.isNull = false ∧
        equals o (mergePatch a p) b = true ∧ equivB o (mergePatch a p) b = true)
    * `merge_text_rfc_setmodes` (`_obj`): SET+MERGE, MULTISET+MERGE (`keysOf o = none`, `precOf o = 0`).
    * `merge_text_rfc_setkeys_noclash` (`_obj`): SetKeys+MERGE, `KM.clash o a b = false`;
      `merge_text_err_of_clash`: with a clash `renderMergeM … = .err` (no text at all).
    * `merge_text_rfc_mset_keys`: MULTISET+SetKeys+MERGE.
    * `merge_text_rfc_precision` / `merge_text_rfc_precision_gen`: MERGE, list reading,
      `nonnegBits (precOf o)`, `PrecMono o`; `_gen`: whenever the diff is not empty or `a` is an object.
    * `merge_text_of_doc`: the step from the document to the text, for any diff `d` and documents of the
      shape `NS` in the codec domain (`PD`); also gives `p = rawNorm m` and what `ReadMergeString` reads.
  LEMMAS of independent use: `rawNorm_mergePatch` (`raw()` commutes with RFC 7386), `equals_rawNorm`,
    `equivB_rawNorm` (`Equals` / the advertised equivalence do not see `raw()` on documents of shape
    `NS`), `setRawOrder_sub`, `setRawOrder_covers`, `hashCode_setRawOrder` (what `jsonSet.raw()` keeps),
    `ObjP.mapply` (a predicate that objects satisfy member-wise holds of the document merge hunks
    build out of values satisfying it), `ds_vals` / `dl_vals` (the values of the pure merge diffs are
    parts of `b`, up to re-typing of an array).

  HYPOTHESES: those of the document-level theorems, with `objVoidFree b` strengthened to
    `Yaml.voidFree b` (void has no JSON text) and `JText.NumOK nc b` added (every number of `b` is
    printed by the codec to one JSON number token it reads back; `strconv` is a parameter of the model;
    only `b`: the patch is made of parts of `b`). `HashFaithful o (subterms a ++ subterms b)` is the one
    of the document level — no new node enters it.
  NOT PROVED: SET / SetKeys with a Precision (no document-level theorem: hash codes ignore the
    precision); a necessity witness for `NumOK` in these readings (`RTL.MergeWitness.numOK_needed_merge`
    is the list-reading one).
-/
import JdModel
import JdSpec
import JdProofs.RfcTextLevel
import JdProofs.MergeSetModes
import JdProofs.MergePrecision
import JdProofs.KeysMergeB

set_option linter.deprecated false
set_option linter.unusedVariables false
set_option autoImplicit false

namespace Jd.MTS
open Jd Jd.Spec Jd.Merge

/-! ## 0. predicates that survive the application of merge hunks to nothing -/

/-- a predicate on documents that an object satisfies exactly member by member (plus sorted keys) -/
structure ObjP (P : Json → Prop) : Prop where
  member : ∀ {kvs : List (String × Json)} {k : String} {v : Json}, P (.obj kvs) → (k, v) ∈ kvs → P v
  sorted : ∀ {kvs : List (String × Json)}, P (.obj kvs) → keysSorted kvs = true
  ofMembers : ∀ {kvs : List (String × Json)}, keysSorted kvs = true →
    (∀ k v, (k, v) ∈ kvs → P v) → P (.obj kvs)

theorem ObjP.and {P Q : Json → Prop} (CP : ObjP P) (CQ : ObjP Q) : ObjP (fun v => P v ∧ Q v) where
  member := fun h hm => ⟨CP.member h.1 hm, CQ.member h.2 hm⟩
  sorted := fun h => CP.sorted h.1
  ofMembers := fun hs h => ⟨CP.ofMembers hs (fun k v hm => (h k v hm).1),
    CQ.ofMembers hs (fun k v hm => (h k v hm).2)⟩

theorem ObjP.put {P : Json → Prop} (C : ObjP P) (k : String) {c : Json}
    {kvs : List (String × Json)} (hc : c.isVoid = false → P c) (h : P (.obj kvs)) :
    P (.obj (putKvs k c kvs)) := by
  apply C.ofMembers (keysSorted_putKvs k c (C.sorted h))
  intro k' v' hm
  unfold putKvs at hm
  split at hm
  · exact C.member h (mem_aerase hm)
  · rename_i hv
    rcases mem_ainsert hm with e | hm'
    · cases e; exact hc (by simpa using hv)
    · exact C.member h hm'

theorem ObjP.empty {P : Json → Prop} (C : ObjP P) : P (.obj []) :=
  C.ofMembers rfl (fun _ _ h => by simp at h)

theorem ObjP.getK {P : Json → Prop} (C : ObjP P) (k : String) {kvs : List (String × Json)}
    (h : P (.obj kvs)) (hv : (getK k kvs).isVoid = false) : P (getK k kvs) := by
  unfold Merge.getK at hv ⊢
  cases hl : alookup k kvs with
  | none => rw [hl] at hv; simp [Json.isVoid] at hv
  | some v => exact C.member h (mem_of_alookup hl)

theorem ObjP.nest {P : Json → Prop} (C : ObjP P) : ∀ (ks : List String) {v : Json}, P v →
    P (nest ks v)
  | [], _, h => h
  | k :: rest, v, h => by
    simp only [Merge.nest]
    exact C.put k (fun _ => ObjP.nest C rest h) C.empty

theorem ObjP.mset {P : Json → Prop} (C : ObjP P) : ∀ (ks : List String) (t : Json) {v : Json},
    (∀ kvs, t = .obj kvs → P t) → P v → P (mset t ks v)
  | [], t, v, _, hv => by cases t <;> simpa [Merge.mset] using hv
  | k :: rest, t, v, ht, hv => by
    cases t with
    | obj kvs =>
      have hk := ht kvs rfl
      simp only [Merge.mset]
      apply C.put k _ hk
      intro _
      apply ObjP.mset C rest _ _ hv
      intro kvs2 e
      exact C.getK k hk (by rw [e]; rfl)
    | arr tg xs => simpa [Merge.mset] using C.nest (k :: rest) hv
    | void => simpa [Merge.mset] using C.nest (k :: rest) hv
    | null => simpa [Merge.mset] using C.nest (k :: rest) hv
    | bool _ => simpa [Merge.mset] using C.nest (k :: rest) hv
    | num _ => simpa [Merge.mset] using C.nest (k :: rest) hv
    | str _ => simpa [Merge.mset] using C.nest (k :: rest) hv

/-- the document a non-empty list of merge hunks builds consists of the hunks' values -/
theorem ObjP.mapply {P : Json → Prop} (C : ObjP P) : ∀ (l : List (List String × Json)) (t : Json),
    (∀ kvs, t = .obj kvs → P t) → (∀ e ∈ l, P e.2) → l ≠ [] → P (mapply l t)
  | [], _, _, _, hne => absurd rfl hne
  | e :: l, t, ht, hl, _ => by
    have h1 := C.mset e.1 t ht (hl e List.mem_cons_self)
    simp only [Merge.mapply, List.foldl_cons]
    cases l with
    | nil => exact h1
    | cons e' l' =>
      exact ObjP.mapply C (e' :: l') _ (fun _ _ => h1)
        (fun x hx => hl x (List.mem_cons_of_mem _ hx)) (by simp)

/-! ## 1. `raw()` (`rawNorm`) commutes with RFC 7386 -/

theorem rawNorm_isNull (v : Json) : (rawNorm v).isNull = v.isNull := by
  cases v with
  | arr t xs => cases t <;> simp [rawNorm, Json.isNull]
  | _ => simp [rawNorm, Json.isNull]

theorem rawNorm_isVoid (v : Json) : (rawNorm v).isVoid = v.isVoid := by
  cases v with
  | arr t xs => cases t <;> simp [rawNorm, Json.isVoid]
  | _ => simp [rawNorm, Json.isVoid]

theorem rawNorm_obj (kvs : List (String × Json)) : rawNorm (.obj kvs) = .obj (rawNormKvs kvs) := by
  simp [rawNorm]

theorem objKvs_rawNorm (t : Json) : objKvs (rawNorm t) = rawNormKvs (objKvs t) := by
  cases t with
  | arr t xs => cases t <;> simp [objKvs, rawNorm, rawNormKvs]
  | _ => simp [objKvs, rawNorm, rawNormKvs]

theorem rawNormKvs_aerase (k : String) :
    ∀ kvs : List (String × Json), rawNormKvs (aerase k kvs) = aerase k (rawNormKvs kvs)
  | [] => by simp [rawNormKvs, aerase]
  | (k', v) :: r => by
    simp only [rawNormKvs, aerase]
    split
    · rfl
    · simp [rawNormKvs, rawNormKvs_aerase k r]

theorem rawNormKvs_ainsert (k : String) (v : Json) :
    ∀ kvs : List (String × Json), rawNormKvs (ainsert k v kvs) = ainsert k (rawNorm v) (rawNormKvs kvs)
  | [] => by simp [rawNormKvs, ainsert]
  | (k', v') :: r => by
    simp only [rawNormKvs, ainsert]
    split
    · simp [rawNormKvs]
    · split
      · simp [rawNormKvs]
      · simp [rawNormKvs, rawNormKvs_ainsert k v r]

theorem alookup_rawNormKvs (k : String) :
    ∀ kvs : List (String × Json), alookup k (rawNormKvs kvs) = (alookup k kvs).map rawNorm
  | [] => by simp [rawNormKvs, alookup]
  | (k', v) :: r => by
    simp only [rawNormKvs, alookup]
    split
    · rfl
    · exact alookup_rawNormKvs k r

theorem rawNorm_getK (k : String) (kvs : List (String × Json)) :
    rawNorm (getK k kvs) = getK k (rawNormKvs kvs) := by
  unfold Merge.getK
  rw [alookup_rawNormKvs]
  cases alookup k kvs <;> simp [rawNorm]

mutual
/-- `raw()` of the RFC 7386 result is the RFC 7386 result on the `raw()` documents -/
theorem rawNorm_mergePatch : ∀ (p t : Json),
    rawNorm (mergePatch t p) = mergePatch (rawNorm t) (rawNorm p)
  | .obj pkvs, t => by
    rw [rawNorm_obj, mergePatch_obj, mergePatch_obj, objKvs_rawNorm,
      ← rawNormKvs_mergeMembers pkvs (objKvs t), rawNorm_obj]
  | .arr tg xs, t => by cases tg <;> simp [mergePatch, rawNorm]
  | .void, _ => by simp [mergePatch, rawNorm]
  | .null, _ => by simp [mergePatch, rawNorm]
  | .bool _, _ => by simp [mergePatch, rawNorm]
  | .num _, _ => by simp [mergePatch, rawNorm]
  | .str _, _ => by simp [mergePatch, rawNorm]
theorem rawNormKvs_mergeMembers : ∀ (pkvs t : List (String × Json)),
    rawNormKvs (mergeMembers t pkvs) = mergeMembers (rawNormKvs t) (rawNormKvs pkvs)
  | [], t => by simp [mergeMembers, rawNormKvs]
  | (k, v) :: r, t => by
    have e : rawNormKvs ((k, v) :: r) = (k, rawNorm v) :: rawNormKvs r := by simp [rawNormKvs]
    rw [e, mergeMembers_cons, mergeMembers_cons, rawNorm_isNull, rawNormKvs_mergeMembers r]
    split
    · rw [rawNormKvs_aerase]
    · rw [rawNormKvs_ainsert, rawNorm_mergePatch v, rawNorm_getK]
end

/-- a document as read from text is its own `raw()` -/
theorem rawNorm_rawDoc (a : Json) (h : a.rawDoc = true) : rawNorm a = a := by
  rw [JText.rawNorm_eq_untag a (JText.setFree_of_listDoc a (rawDoc_listDoc a h)),
    Robust.untag_rawDoc a h]

theorem rawNormList_rawDoc : ∀ xs : List Json, rawDocList xs = true → rawNormList xs = xs
  | [], _ => by simp [rawNormList]
  | x :: r, h => by
    simp only [rawDocList, Bool.and_eq_true] at h
    simp [rawNormList, rawNorm_rawDoc x h.1, rawNormList_rawDoc r h.2]

theorem rawNorm_mergePatch_right {a : Json} (har : a.rawDoc = true) (p : Json) :
    mergePatch a (rawNorm p) = rawNorm (mergePatch a p) := by
  rw [rawNorm_mergePatch, rawNorm_rawDoc a har]

/-! ## 2. the order `jsonSet.raw()` emits: a selection of the members, one per hash code -/

theorem lastByHash_spec (o : Opts) (h : UInt64) : ∀ (ys : List Json) (y : Json),
    lastByHash h (hashList o ys) ys = some y → y ∈ ys ∧ hashCode o y = h
  | [], y, e => by simp [hashList, lastByHash] at e
  | x :: r, y, e => by
    simp only [hashList, lastByHash] at e
    split at e
    · next y' hy =>
      cases e
      have := lastByHash_spec o h r _ hy
      exact ⟨List.mem_cons_of_mem _ this.1, this.2⟩
    · split at e
      · next hk =>
        cases e
        exact ⟨List.mem_cons_self, by simpa using hk⟩
      · cases e

theorem lastByHash_some (o : Opts) (h : UInt64) : ∀ ys : List Json, h ∈ hashList o ys →
    ∃ y, lastByHash h (hashList o ys) ys = some y
  | [], hm => by simp [hashList] at hm
  | x :: r, hm => by
    simp only [hashList, List.mem_cons] at hm
    simp only [hashList, lastByHash]
    cases hl : lastByHash h (hashList o r) r with
    | some y => exact ⟨y, rfl⟩
    | none =>
      rcases hm with e | hm
      · subst e; simp
      · obtain ⟨y, hy⟩ := lastByHash_some o h r hm
        rw [hy] at hl; cases hl

theorem setRawOrder_sub (o : Opts) (ys : List Json) {y : Json}
    (h : y ∈ setRawOrder (hashList o ys) ys) : y ∈ ys := by
  simp only [setRawOrder, List.mem_filterMap] at h
  obtain ⟨c, _, hc⟩ := h
  exact (lastByHash_spec o c ys y hc).1

theorem setRawOrder_covers (o : Opts) (ys : List Json) {y : Json} (h : y ∈ ys) :
    ∃ y' ∈ setRawOrder (hashList o ys) ys, hashCode o y' = hashCode o y := by
  have hm : hashCode o y ∈ hashList o ys := by
    rw [hashList_eq_map]; exact List.mem_map_of_mem h
  obtain ⟨y', hy'⟩ := lastByHash_some o _ ys hm
  refine ⟨y', ?_, (lastByHash_spec o _ ys y' hy').2⟩
  simp only [setRawOrder, List.mem_filterMap]
  exact ⟨_, (DES.mem_hsort_hdedup _ _).2 hm, hy'⟩

/-- the hash code of a set does not change when its members are replaced by the selection -/
theorem hashCode_setRawOrder {o : Opts} (hd : dispatchTag o = .set) (ys : List Json) :
    hashCode o (.arr .raw (setRawOrder (hashList o ys) ys)) = hashCode o (.arr .set ys) := by
  have e : hsort (hdedup (hashList o (setRawOrder (hashList o ys) ys)))
      = hsort (hdedup (hashList o ys)) := by
    apply hsort_hdedup_ext
    intro c
    have m1 : ∀ l : List Json, c ∈ hashList o l ↔ ∃ y ∈ l, hashCode o y = c := by
      intro l; rw [hashList_eq_map, List.mem_map]
    rw [m1, m1]
    constructor
    · rintro ⟨y', hy', rfl⟩
      exact ⟨y', setRawOrder_sub o ys hy', rfl⟩
    · rintro ⟨y, hy, rfl⟩
      obtain ⟨y', h1, h2⟩ := setRawOrder_covers o ys hy
      exact ⟨y', h1, h2⟩
  simp only [hashCode, effTag, hd, hcombine, e]

/-! ## 3. `Equals` and the advertised equivalence do not see `raw()` on documents of the shape
      RFC 7386 builds out of a document read from text and a rendered merge patch -/

/-- the shape: objects of such nodes; arrays that are plain (`jsonArray`) or carry the Go type the
    options dispatch to, with members as read from text (under the set reading: members among `S`,
    the finitely many nodes the hash hypothesis talks about) -/
inductive NS (o : Opts) (S : List Json) : Json → Prop
  | arr (t : Tag) (ys : List Json) : (t = .raw ∨ t = dispatchTag o) → rawDocList ys = true →
      (dispatchTag o = .set → ∀ y ∈ ys, DocOk y ∧ y ∈ S) → NS o S (.arr t ys)
  | obj (kvs : List (String × Json)) : (∀ k v, (k, v) ∈ kvs → NS o S v) → NS o S (.obj kvs)
  | scalar (v : Json) : v.isObj = false → Merge.isArr v = false → NS o S v

theorem rawNorm_scalar {v : Json} (h1 : v.isObj = false) (h2 : Merge.isArr v = false) :
    rawNorm v = v := by
  cases v <;> simp_all [rawNorm, Json.isObj, Merge.isArr]

theorem length_rawNormKvs : ∀ kvs : List (String × Json), (rawNormKvs kvs).length = kvs.length
  | [] => by simp [rawNormKvs]
  | (k, v) :: r => by simp [rawNormKvs, length_rawNormKvs r]

theorem equalsKvs_rawNormKvs (o : Opts) (kvs' : List (String × Json)) :
    ∀ r : List (String × Json),
      (∀ k v, (k, v) ∈ r → ∀ b, equals o (rawNorm v) b = equals o v b) →
      equalsKvs o (rawNormKvs r) kvs' = equalsKvs o r kvs'
  | [], _ => by simp [rawNormKvs, equalsKvs]
  | (k, v) :: r, h => by
    simp only [rawNormKvs, equalsKvs]
    rw [equalsKvs_rawNormKvs o kvs' r (fun k' v' hm => h k' v' (List.mem_cons_of_mem _ hm))]
    cases alookup k kvs' with
    | none => rfl
    | some v' => simp only [h k v List.mem_cons_self v']

/-- **`Equals` does not see `raw()`** -/
theorem equals_rawNorm {o : Opts} {S : List Json} {x : Json} (hx : NS o S x) :
    ∀ b, equals o (rawNorm x) b = equals o x b := by
  induction hx with
  | arr t ys ht hraw hset =>
    intro b
    rcases ht with rfl | rfl
    · rw [rawNorm_rawDoc _ (by simp [Json.rawDoc, hraw])]
    · cases hd : dispatchTag o with
      | raw => exact absurd hd (Real.dispatchTag_ne_raw o)
      | list =>
        simp only [rawNorm, rawNormList_rawDoc ys hraw]
        simp [equals, effTag, hd]
      | mset =>
        simp only [rawNorm, rawNormList_rawDoc ys hraw]
        simp [equals, effTag, hd, hashCode]
      | set =>
        have hh : hashList [.set] ys = hashList o ys := by
          rw [hashList_eq_map, hashList_eq_map]
          exact List.map_congr_left (fun y _ => SetDP.hashCode_optcongr (by rw [hd]; rfl) y)
        simp only [rawNorm, rawNormList_rawDoc ys hraw, hh]
        have e := hashCode_setRawOrder hd ys
        have e2 : hashCode o (.arr .set (setRawOrder (hashList o ys) ys))
            = hashCode o (.arr .raw (setRawOrder (hashList o ys) ys)) := by
          simp [hashCode, effTag, hd]
        simp only [equals, effTag, hd, e2, e]
        generalize Json.dispatch o b = bb
        cases bb with
        | arr t' zs => cases t' <;> rfl
        | _ => rfl
  | obj kvs _ ih =>
    intro b
    rw [rawNorm_obj]
    cases b with
    | obj kvs' =>
      simp only [equals, length_rawNormKvs, equalsKvs_rawNormKvs o kvs' kvs ih]
    | _ => simp [equals]
  | scalar v h1 h2 => intro b; rw [rawNorm_scalar h1 h2]

theorem equivKvs_rawNormKvs (o : Opts) (kvs' : List (String × Json)) :
    ∀ r : List (String × Json),
      (∀ k v, (k, v) ∈ r → ∀ v', alookup k kvs' = some v' → equivB o v v' = true →
        equivB o (rawNorm v) v' = true) →
      equivKvs o r kvs' = true → equivKvs o (rawNormKvs r) kvs' = true
  | [], _, _ => by simp [rawNormKvs, equivKvs]
  | (k, v) :: r, h, he => by
    rw [equivKvs] at he
    simp only [rawNormKvs]
    rw [equivKvs]
    cases hl : alookup k kvs' with
    | none => simp [hl] at he
    | some v' =>
      simp only [hl, Bool.and_eq_true] at he ⊢
      exact ⟨h k v List.mem_cons_self v' hl he.1,
        equivKvs_rawNormKvs o kvs' r (fun k' v0 hm => h k' v0 (List.mem_cons_of_mem _ hm)) he.2⟩

/-- **the advertised equivalence does not see `raw()`**: relative, under the set reading, to the hash
    hypothesis on `S` (a member dropped by `raw()` has the hash code of a member that is kept) -/
theorem equivB_rawNorm {o : Opts} {S : List Json}
    (hs : dispatchTag o = .set → FloatEq0 ∧ precOf o = 0 ∧ HashFaithful o S) {x : Json} (hx : NS o S x) :
    ∀ b, (dispatchTag o = .set → DocOk b ∧ SetDP.Within S b) → equivB o x b = true →
      equivB o (rawNorm x) b = true := by
  induction hx with
  | arr t ys ht hraw hset =>
    intro b hb he
    rcases ht with rfl | rfl
    · rw [rawNorm_rawDoc _ (by simp [Json.rawDoc, hraw])]; exact he
    · cases b with
      | arr t' zs =>
        cases hd : dispatchTag o with
        | raw => exact absurd hd (Real.dispatchTag_ne_raw o)
        | list =>
          simp only [rawNorm, rawNormList_rawDoc ys hraw]
          rw [equivB] at he ⊢; exact he
        | mset =>
          simp only [rawNorm, rawNormList_rawDoc ys hraw]
          rw [equivB] at he ⊢; exact he
        | set =>
          have hh : hashList [.set] ys = hashList o ys := by
            rw [hashList_eq_map, hashList_eq_map]
            exact List.map_congr_left (fun y _ => SetDP.hashCode_optcongr (by rw [hd]; rfl) y)
          simp only [rawNorm, rawNormList_rawDoc ys hraw, hh]
          obtain ⟨F, hp, HF⟩ := hs hd
          obtain ⟨db, wb⟩ := hb hd
          rw [equivB] at he ⊢
          simp only [hd, Bool.and_eq_true, allIn_iff, allCovered_iff] at he ⊢
          refine ⟨fun y' hy' => he.1 y' (setRawOrder_sub o ys hy'), fun z hz => ?_⟩
          obtain ⟨y, hy, hyz⟩ := he.2 z hz
          obtain ⟨y', h1, h2⟩ := setRawOrder_covers o ys hy
          refine ⟨y', h1, ?_⟩
          have hzS : z ∈ S := (wb.elem hz).self
          have hy'S := (hset hd y' (setRawOrder_sub o ys h1)).2
          apply HF y' hy'S z hzS
          rw [h2]
          exact equivB_hash_core F o (.inl hd) hp y z (hset hd y hy).1 (db.elem hz) hyz
      | _ => simp [equivB] at he
  | obj kvs hk ih =>
    intro b hb he
    rw [rawNorm_obj]
    cases b with
    | obj kvs' =>
      rw [equivB] at he ⊢
      simp only [Bool.and_eq_true, length_rawNormKvs] at he ⊢
      refine ⟨he.1, equivKvs_rawNormKvs o kvs' kvs ?_ he.2⟩
      intro k v hm v' hl hv
      exact ih k v hm v' (fun hd => ⟨(hb hd).1.val (mem_of_alookup hl),
        (hb hd).2.val (mem_of_alookup hl)⟩) hv
    | _ => simp [equivB] at he
  | scalar v h1 h2 => intro b _ he; rw [rawNorm_scalar h1 h2]; exact he

/-! ## 4. the shape of RFC 7386 results -/

theorem NS.members {o : Opts} {S : List Json} {kvs : List (String × Json)} (h : NS o S (.obj kvs)) :
    ∀ k v, (k, v) ∈ kvs → NS o S v := by
  cases h with
  | obj _ hk => exact hk
  | scalar _ h1 _ => simp [Json.isObj] at h1

theorem NS.objKvs {o : Opts} {S : List Json} {t : Json} (h : NS o S t) :
    ∀ k v, (k, v) ∈ objKvs t → NS o S v := by
  cases t with
  | obj kvs => exact h.members
  | _ => intro k v hm; simp [Merge.objKvs] at hm

theorem NS.getK {o : Opts} {S : List Json} {kvs : List (String × Json)}
    (h : ∀ k v, (k, v) ∈ kvs → NS o S v) (k : String) : NS o S (getK k kvs) := by
  unfold Merge.getK
  cases hl : alookup k kvs with
  | none => exact NS.scalar _ rfl rfl
  | some v => exact h k v (mem_of_alookup hl)

mutual
theorem ns_mergePatch {o : Opts} {S : List Json} : ∀ (p t : Json), NS o S t → NS o S p →
    NS o S (mergePatch t p)
  | .obj pkvs, t, ht, hp => by
    rw [mergePatch_obj]
    exact NS.obj _ (ns_mergeMembers pkvs (objKvs t) ht.objKvs hp.members)
  | .arr tg xs, _, _, hp => by simpa [mergePatch] using hp
  | .void, _, _, hp => by simpa [mergePatch] using hp
  | .null, _, _, hp => by simpa [mergePatch] using hp
  | .bool _, _, _, hp => by simpa [mergePatch] using hp
  | .num _, _, _, hp => by simpa [mergePatch] using hp
  | .str _, _, _, hp => by simpa [mergePatch] using hp
theorem ns_mergeMembers {o : Opts} {S : List Json} : ∀ (pkvs T : List (String × Json)),
    (∀ k v, (k, v) ∈ T → NS o S v) → (∀ k v, (k, v) ∈ pkvs → NS o S v) →
    ∀ k v, (k, v) ∈ mergeMembers T pkvs → NS o S v
  | [], T, hT, _ => by simpa [mergeMembers] using hT
  | (k, v) :: r, T, hT, hP => by
    rw [mergeMembers_cons]
    apply ns_mergeMembers r _ ?_ (fun k' v' hm => hP k' v' (List.mem_cons_of_mem _ hm))
    split
    · intro k' v' hm; exact hT _ _ (mem_aerase hm)
    · intro k' v' hm
      rcases mem_ainsert hm with e | hm'
      · cases e
        exact ns_mergePatch v (getK k T) (NS.getK hT k) (hP k v List.mem_cons_self)
      · exact hT _ _ hm'
end

theorem rawDoc_of_mem_kvs : ∀ {kvs : List (String × Json)} {k : String} {v : Json},
    rawDocKvs kvs = true → (k, v) ∈ kvs → v.rawDoc = true
  | (k', v') :: r, k, v, h, hm => by
    simp only [rawDocKvs, Bool.and_eq_true] at h
    rcases List.mem_cons.1 hm with e | hm
    · cases e; exact h.1
    · exact rawDoc_of_mem_kvs h.2 hm

/-- a document as read from text has the shape -/
theorem ns_of_rawDoc {o : Opts} {S : List Json} : ∀ a : Json, a.rawDoc = true →
    (dispatchTag o = .set → DocOk a ∧ SetDP.Within S a) → NS o S a := by
  intro a
  induction a using jsonInd with
  | void => intro _ _; exact NS.scalar _ rfl rfl
  | null => intro _ _; exact NS.scalar _ rfl rfl
  | bool x => intro _ _; exact NS.scalar _ rfl rfl
  | num x => intro _ _; exact NS.scalar _ rfl rfl
  | str x => intro _ _; exact NS.scalar _ rfl rfl
  | arr t xs _ =>
    intro hr hs
    simp only [Json.rawDoc, Bool.and_eq_true, beq_iff_eq] at hr
    exact NS.arr t xs (.inl hr.1) hr.2
      (fun hd y hy => ⟨(hs hd).1.elem hy, ((hs hd).2.elem hy).self⟩)
  | obj kvs ih =>
    intro hr hs
    simp only [Json.rawDoc] at hr
    exact NS.obj kvs (fun k v hm => ih k v hm (rawDoc_of_mem_kvs hr hm)
      (fun hd => ⟨(hs hd).1.val hm, (hs hd).2.val hm⟩))

/-! ## 5. the values of the pure merge diffs -/

/-- a predicate inherited by object members and blind to the re-typing of an array -/
structure DsP (o : Opts) (P : Json → Prop) : Prop where
  member : ∀ {kvs : List (String × Json)} {k : String} {v : Json}, P (.obj kvs) → (k, v) ∈ kvs → P v
  retag : ∀ {t : Tag} {ys : List Json}, P (.arr t ys) → P (.arr (dispatchTag o) ys)

mutual
theorem ds_vals {P : Json → Prop} {o : Opts} (C : DsP o P) : ∀ (a b : Json), P b →
    ∀ e ∈ MSet.ds o a b, e.2.isVoid = true ∨ P e.2
  | .obj kvs, b, hb, e, he => by
    cases b with
    | obj kvs' =>
      rw [MSet.ds_obj_obj] at he
      rcases List.mem_append.1 he with he | he
      · exact dsKvs_vals C kvs' (fun k v hm => C.member hb hm) kvs e he
      · obtain ⟨kv, hkv, rfl⟩ := List.mem_map.1 he
        exact .inr (C.member hb (List.mem_filter.1 hkv).1)
    | _ =>
      rw [MSet.ds_obj_other o kvs rfl] at he
      simp only [List.mem_singleton] at he
      subst he; exact .inr hb
  | .arr t xs, b, hb, e, he => by
    cases b with
    | arr t' ys =>
      rw [MSet.ds_arr_arr] at he
      split at he
      · cases he
      · simp only [List.mem_singleton] at he
        subst he; exact .inr (C.retag hb)
    | _ =>
      rw [MSet.ds_arr_other o t xs rfl] at he
      simp only [List.mem_singleton] at he
      subst he; exact .inr hb
  | .void, b, hb, e, he => by
    rw [MSet.ds_scalar o rfl rfl] at he
    split at he
    · cases he
    · simp only [List.mem_singleton] at he; subst he; exact .inr hb
  | .null, b, hb, e, he => by
    rw [MSet.ds_scalar o rfl rfl] at he
    split at he
    · cases he
    · simp only [List.mem_singleton] at he; subst he; exact .inr hb
  | .bool _, b, hb, e, he => by
    rw [MSet.ds_scalar o rfl rfl] at he
    split at he
    · cases he
    · simp only [List.mem_singleton] at he; subst he; exact .inr hb
  | .num _, b, hb, e, he => by
    rw [MSet.ds_scalar o rfl rfl] at he
    split at he
    · cases he
    · simp only [List.mem_singleton] at he; subst he; exact .inr hb
  | .str _, b, hb, e, he => by
    rw [MSet.ds_scalar o rfl rfl] at he
    split at he
    · cases he
    · simp only [List.mem_singleton] at he; subst he; exact .inr hb
theorem dsKvs_vals {P : Json → Prop} {o : Opts} (C : DsP o P) (kvs' : List (String × Json))
    (hb : ∀ k v, (k, v) ∈ kvs' → P v) : ∀ (kvs : List (String × Json)),
    ∀ e ∈ MSet.dsKvs o kvs' kvs, e.2.isVoid = true ∨ P e.2
  | [], e, he => by simp [MSet.dsKvs] at he
  | (k, v) :: r, e, he => by
    simp only [MSet.dsKvs] at he
    rcases List.mem_append.1 he with he | he
    · cases hl : alookup k kvs' with
      | none =>
        rw [hl] at he
        simp only [List.mem_singleton] at he
        subst he; exact .inl rfl
      | some v' =>
        rw [hl] at he
        obtain ⟨e0, he0, rfl⟩ := List.mem_map.1 he
        exact ds_vals C v v' (hb k v' (mem_of_alookup hl)) e0 he0
    · exact dsKvs_vals C kvs' hb r e he
end

mutual
theorem dl_vals {P : Json → Prop} {o : Opts} (C : DsP o P) (ho : dispatchTag o = .list) : ∀ (a b : Json), P b →
    ∀ e ∈ dl o a b, e.2.isVoid = true ∨ P e.2
  | .obj kvs, b, hb, e, he => by
    cases b with
    | obj kvs' =>
      rw [dl_obj_obj] at he
      rcases List.mem_append.1 he with he | he
      · exact dlKvs_vals C ho kvs' (fun k v hm => C.member hb hm) kvs e he
      · obtain ⟨kv, hkv, rfl⟩ := List.mem_map.1 he
        exact .inr (C.member hb (List.mem_filter.1 hkv).1)
    | _ =>
      rw [dl_obj_other o kvs rfl] at he
      simp only [List.mem_singleton] at he
      subst he; exact .inr hb
  | .arr t xs, b, hb, e, he => by
    cases b with
    | arr t' ys =>
      rw [dl_arr_arr] at he
      split at he
      · cases he
      · simp only [List.mem_singleton] at he
        subst he; exact .inr (by rw [← ho]; exact C.retag hb)
    | _ =>
      rw [dl_arr_other o t xs rfl] at he
      simp only [List.mem_singleton] at he
      subst he; exact .inr hb
  | .void, b, hb, e, he => by
    rw [dl_scalar o rfl rfl] at he
    split at he
    · cases he
    · simp only [List.mem_singleton] at he; subst he; exact .inr hb
  | .null, b, hb, e, he => by
    rw [dl_scalar o rfl rfl] at he
    split at he
    · cases he
    · simp only [List.mem_singleton] at he; subst he; exact .inr hb
  | .bool _, b, hb, e, he => by
    rw [dl_scalar o rfl rfl] at he
    split at he
    · cases he
    · simp only [List.mem_singleton] at he; subst he; exact .inr hb
  | .num _, b, hb, e, he => by
    rw [dl_scalar o rfl rfl] at he
    split at he
    · cases he
    · simp only [List.mem_singleton] at he; subst he; exact .inr hb
  | .str _, b, hb, e, he => by
    rw [dl_scalar o rfl rfl] at he
    split at he
    · cases he
    · simp only [List.mem_singleton] at he; subst he; exact .inr hb
theorem dlKvs_vals {P : Json → Prop} {o : Opts} (C : DsP o P) (ho : dispatchTag o = .list) (kvs' : List (String × Json))
    (hb : ∀ k v, (k, v) ∈ kvs' → P v) : ∀ (kvs : List (String × Json)),
    ∀ e ∈ dlKvs o kvs' kvs, e.2.isVoid = true ∨ P e.2
  | [], e, he => by simp [dlKvs] at he
  | (k, v) :: r, e, he => by
    simp only [dlKvs] at he
    rcases List.mem_append.1 he with he | he
    · cases hl : alookup k kvs' with
      | none =>
        rw [hl] at he
        simp only [List.mem_singleton] at he
        subst he; exact .inl rfl
      | some v' =>
        rw [hl] at he
        obtain ⟨e0, he0, rfl⟩ := List.mem_map.1 he
        exact dl_vals C ho v v' (hb k v' (mem_of_alookup hl)) e0 he0
    · exact dlKvs_vals C ho kvs' hb r e he
end

/-! ## 6. the predicate carried through: codec domain and shape -/

theorem wf_of_mem_kvs : ∀ {kvs : List (String × Json)} {k : String} {v : Json},
    wfKvs kvs = true → (k, v) ∈ kvs → v.wf = true
  | (k', v') :: r, k, v, h, hm => by
    simp only [wfKvs, Bool.and_eq_true] at h
    rcases List.mem_cons.1 hm with e | hm
    · cases e; exact h.1
    · exact wf_of_mem_kvs h.2 hm

/-- unique sorted keys, no void, codec-correct numbers, the shape of §3 -/
def PD (nc : NumCodec) (o : Opts) (S : List Json) (v : Json) : Prop :=
  v.wf = true ∧ V1T.TOK nc v ∧ NS o S v

theorem PD.objP (nc : NumCodec) (o : Opts) (S : List Json) : ObjP (PD nc o S) where
  member := by
    intro kvs k v h hm
    have hw := h.1
    simp only [Json.wf, Bool.and_eq_true] at hw
    exact ⟨wf_of_mem_kvs hw.2 hm, (V1T.TOK.closed nc).member h.2.1 hm, h.2.2.members k v hm⟩
  sorted := by
    intro kvs h
    have hw := h.1
    simp only [Json.wf, Bool.and_eq_true] at hw
    exact hw.1
  ofMembers := by
    intro kvs hs h
    refine ⟨?_, V1T.tok_of_members nc kvs (fun k v hm => (h k v hm).2.1),
      NS.obj kvs (fun k v hm => (h k v hm).2.2)⟩
    simp only [Json.wf, Bool.and_eq_true]
    exact ⟨hs, KM.wfKvs_of_forall kvs (fun k v hm => (h k v hm).1)⟩

theorem PD.dsP (nc : NumCodec) (o : Opts) (S : List Json) : DsP o (PD nc o S) where
  member := (PD.objP nc o S).member
  retag := by
    intro t ys h
    refine ⟨by simpa [Json.wf] using h.1, (V1T.TOK.closed nc).retag _ h.2.1, ?_⟩
    cases h.2.2 with
    | arr _ _ _ hraw hset => exact NS.arr _ _ (.inr rfl) hraw hset
    | scalar _ _ h2 => simp [Merge.isArr] at h2

theorem PD.null (nc : NumCodec) (o : Opts) (S : List Json) : PD nc o S .null :=
  ⟨rfl, V1T.tok_null nc, NS.scalar _ rfl rfl⟩

theorem PD.empty (nc : NumCodec) (o : Opts) (S : List Json) : PD nc o S (.obj []) :=
  (PD.objP nc o S).empty

theorem PD.preOK {nc : NumCodec} {o : Opts} {S : List Json} {v : Json} (h : PD nc o S v) :
    JText.preOK nc v = true := by
  rw [JText.preOK_iff, h.1, h.2.1.1, h.2.1.2]; rfl

/-- a document as read from text, in the codec domain -/
theorem PD.of_doc {nc : NumCodec} {o : Opts} {S : List Json} {b : Json} (hw : b.wf = true)
    (hr : b.rawDoc = true) (hv : Yaml.voidFree b = true) (hN : JText.NumOK nc b = true)
    (hs : dispatchTag o = .set → DocOk b ∧ SetDP.Within S b) : PD nc o S b :=
  ⟨hw, ⟨hv, hN⟩, ns_of_rawDoc b hr hs⟩

theorem PD.nulE {nc : NumCodec} {o : Opts} {S : List Json} {e : List String × Json}
    (h : e.2.isVoid = true ∨ PD nc o S e.2) : PD nc o S (Merge.nulE e).2 := by
  rcases h with h | h
  · simp only [Merge.nulE, h, if_true]; exact PD.null nc o S
  · have : e.2.isVoid = false := V1T.voidFree_notVoid h.2.1.1
    simp only [Merge.nulE, this]; exact h

/-- the merge document rendered from the set-mode diff -/
theorem PD.setDoc {nc : NumCodec} {o : Opts} {S : List Json} (a : Json) {b : Json}
    (hb : PD nc o S b) :
    PD nc o S (if MSet.ds o a b = [] then .obj [] else mapply (MSet.rs o a b) .void) := by
  split
  · exact PD.empty nc o S
  · rename_i hd
    apply (PD.objP nc o S).mapply _ _ (fun kvs e => by cases e)
    · intro e he
      obtain ⟨e0, he0, rfl⟩ := List.mem_map.1 he
      exact PD.nulE (ds_vals (PD.dsP nc o S) a b hb e0 he0)
    · simpa [MSet.rs] using hd

/-- the merge document rendered from the list-mode diff (any precision) -/
theorem PD.listDoc {nc : NumCodec} {o : Opts} {S : List Json} (ho : dispatchTag o = .list)
    (a : Json) {b : Json} (hb : PD nc o S b) :
    PD nc o S (if dl o a b = [] then .obj [] else mapply (rl o a b) .void) := by
  split
  · exact PD.empty nc o S
  · rename_i hd
    apply (PD.objP nc o S).mapply _ _ (fun kvs e => by cases e)
    · intro e he
      obtain ⟨e0, he0, rfl⟩ := List.mem_map.1 he
      exact PD.nulE (dl_vals (PD.dsP nc o S) ho a b hb e0 he0)
    · simpa [rl] using hd

/-! ## 7. the text of a rendered merge document, parsed and applied by RFC 7386 -/

/-- **the step from the document to the text**: when `RenderMerge` builds the document `m` (codec
    domain, shape of §3) and RFC 7386 `MergePatch(a, m)` is `b` for `Equals` and for the advertised
    equivalence, then the TEXT `RenderMerge()` returns parses to `raw()` of `m`, which is neither void
    nor `null` when `m` is not, and RFC 7386 applied to the parsed document is `b` in the same sense -/
theorem merge_text_of_doc (nc : NumCodec) {o : Opts} {S : List Json}
    (hs : dispatchTag o = .set → FloatEq0 ∧ precOf o = 0 ∧ HashFaithful o S)
    {d : Diff} {m a b : Json} (hr : renderMergeDoc d = .ok m) (hm : PD nc o S m)
    (har : a.rawDoc = true) (ha : dispatchTag o = .set → DocOk a ∧ SetDP.Within S a)
    (hb : dispatchTag o = .set → DocOk b ∧ SetDP.Within S b)
    (R1 : equals o (mergePatch a m) b = true) (R2 : equivB o (mergePatch a m) b = true) :
    ∃ text p, renderMergeM nc d = .ok (some text) ∧ parseJson nc text = some p ∧
      p = rawNorm m ∧ readMergeM nc text = .ok (readMergeDoc p) ∧
      equals o (mergePatch a p) b = true ∧ equivB o (mergePatch a p) b = true := by
  obtain ⟨s, h1, h2, h3⟩ := RTL.jsonM_text nc m hm.preOK
  have nsx : NS o S (mergePatch a m) := ns_mergePatch m a (ns_of_rawDoc a har ha) hm.2.2
  refine ⟨s, rawNorm m, ?_, h2, rfl, ?_, ?_, ?_⟩
  · simp only [renderMergeM, hr]; exact congrArg _ h1
  · simp only [readMergeM, h3]
  · rw [rawNorm_mergePatch_right har, equals_rawNorm nsx]; exact R1
  · rw [rawNorm_mergePatch_right har]; exact equivB_rawNorm hs nsx b hb R2

/-! ## 8. C11 at the TEXT level: SET+MERGE, MULTISET+MERGE, SetKeys+MERGE, MERGE with a Precision -/

theorem setDoc_parts {a : Json} (h : a.setDoc = true) :
    a.rawDoc = true ∧ a.wf = true ∧ a.finiteNums = true := by
  simp only [Json.setDoc, Bool.and_eq_true] at h
  exact ⟨h.1.1.1, h.1.1.2, h.1.2⟩

/-- the core shared by the set readings: the library's merge diff renders to the document of
    `MSet.ds`; its text, parsed and applied by RFC 7386, yields `b` -/
theorem setmodes_text_core (F : FloatEq0) (L : FloatLaws) (nc : NumCodec) (o : Opts)
    (hm : dispatchTag o = .set ∨ dispatchTag o = .mset) (hp : precOf o = 0) (a b : Json)
    (ha : a.setDoc = true) (hb : b.setDoc = true) (hbn : b.nullFree = true)
    (hbv : Yaml.voidFree b = true) (hbN : JText.NumOK nc b = true)
    (HF : HashFaithful o (subterms a ++ subterms b))
    (form : renderMergeDoc (diffM o a b)
      = .ok (if MSet.ds o a b = [] then .obj [] else mapply (MSet.rs o a b) .void))
    (hne : MSet.ds o a b ≠ [] ∨ a.isObj = true) :
    ∃ text p, renderMergeM nc (diffM o a b) = .ok (some text) ∧ parseJson nc text = some p ∧
      p.isVoid = false ∧ p.isNull = false ∧
      equals o (mergePatch a p) b = true ∧ equivB o (mergePatch a p) b = true := by
  have hov := V1T.objVoidFree_of_voidFree b hbv
  have G : MSet.GoodS (subterms a ++ subterms b) b := MSet.goodS_of_setDoc hb hbn hov
  have Sd := MSet.sound F L hm hp HF a (docOk_of_setDoc ha)
    (fun z hz => List.mem_append.2 (Or.inl hz)) b G
  have wa : SetDP.Within (subterms a ++ subterms b) a := fun z hz => List.mem_append.2 (Or.inl hz)
  have wb : SetDP.Within (subterms a ++ subterms b) b := fun z hz => List.mem_append.2 (Or.inr hz)
  have hbPD : PD nc o (subterms a ++ subterms b) b :=
    PD.of_doc (setDoc_parts hb).2.1 (setDoc_parts hb).1 hbv hbN (fun _ => ⟨docOk_of_setDoc hb, wb⟩)
  have hmPD := PD.setDoc (nc := nc) (o := o) a hbPD
  have proper : (if MSet.ds o a b = [] then Json.obj [] else mapply (MSet.rs o a b) .void).isVoid
        = false ∧
      (if MSet.ds o a b = [] then Json.obj [] else mapply (MSet.rs o a b) .void).isNull = false ∧
      MSet.Rel o (mergePatch a
        (if MSet.ds o a b = [] then Json.obj [] else mapply (MSet.rs o a b) .void)) b := by
    by_cases hd : MSet.ds o a b = []
    · rw [if_pos hd]
      refine ⟨rfl, rfl, ?_⟩
      rcases hne with hne | hobj
      · exact absurd hd hne
      · have : mergePatch a (.obj []) = a := by
          cases a <;> simp_all [Json.isObj, mergePatch, mergeMembers]
        rw [this]; exact Sd.1 hd
    · rw [if_neg hd]; exact Sd.2 hd
  obtain ⟨text, p, c1, c2, c3, _, c5, c6⟩ := merge_text_of_doc nc (fun _ => ⟨F, hp, HF⟩) form hmPD
    (setDoc_parts ha).1 (fun _ => ⟨docOk_of_setDoc ha, wa⟩) (fun _ => ⟨docOk_of_setDoc hb, wb⟩)
    proper.2.2.1 proper.2.2.2
  exact ⟨text, p, c1, c2, by rw [c3, rawNorm_isVoid]; exact proper.1,
    by rw [c3, rawNorm_isNull]; exact proper.2.1, c5, c6⟩

/-- **C11 at the TEXT level, SET+MERGE and MULTISET+MERGE** (no SetKeys, no Precision): for documents
    as read from JSON text, `b` null-free, that `Equals` tells apart: `RenderMerge()` returns a text,
    the text parses to a document `p` (not void, not `null`), and RFC 7386 `MergePatch(a, p)` is `b`
    under the set (bag) reading, for `Equals` and for the advertised equivalence -/
theorem merge_text_rfc_setmodes (F : FloatEq0) (L : FloatLaws) (nc : NumCodec) (o : Opts)
    (hmg : isMerge o = true) (hm : dispatchTag o = .set ∨ dispatchTag o = .mset)
    (hk : keysOf o = none) (hp : precOf o = 0) (a b : Json)
    (ha : a.setDoc = true) (hb : b.setDoc = true) (hbn : b.nullFree = true)
    (hbv : Yaml.voidFree b = true) (hbN : JText.NumOK nc b = true)
    (HF : HashFaithful o (subterms a ++ subterms b)) (hne : equals o a b = false) :
    ∃ text p, renderMergeM nc (diffM o a b) = .ok (some text) ∧ parseJson nc text = some p ∧
      p.isVoid = false ∧ p.isNull = false ∧
      equals o (mergePatch a p) b = true ∧ equivB o (mergePatch a p) b = true := by
  have hov := V1T.objVoidFree_of_voidFree b hbv
  refine setmodes_text_core F L nc o hm hp a b ha hb hbn hbv hbN HF
    (MSet.renderMergeDoc_diffM_setmodes F o hmg hm hk hp a b ha hb hov HF) (Or.inl ?_)
  intro hd
  have G : MSet.GoodS (subterms a ++ subterms b) b := MSet.goodS_of_setDoc hb hbn hov
  have Sd := MSet.sound F L hm hp HF a (docOk_of_setDoc ha)
    (fun z hz => List.mem_append.2 (Or.inl hz)) b G
  have := (Sd.1 hd).1
  rw [hne] at this; cases this

/-- the same without "that differ" when the first document is an object (equal documents: `{}`) -/
theorem merge_text_rfc_setmodes_obj (F : FloatEq0) (L : FloatLaws) (nc : NumCodec) (o : Opts)
    (hmg : isMerge o = true) (hm : dispatchTag o = .set ∨ dispatchTag o = .mset)
    (hk : keysOf o = none) (hp : precOf o = 0) (a b : Json)
    (ha : a.setDoc = true) (hb : b.setDoc = true) (hbn : b.nullFree = true)
    (hbv : Yaml.voidFree b = true) (hbN : JText.NumOK nc b = true)
    (HF : HashFaithful o (subterms a ++ subterms b)) (hobj : a.isObj = true) :
    ∃ text p, renderMergeM nc (diffM o a b) = .ok (some text) ∧ parseJson nc text = some p ∧
      p.isVoid = false ∧ p.isNull = false ∧
      equals o (mergePatch a p) b = true ∧ equivB o (mergePatch a p) b = true :=
  setmodes_text_core F L nc o hm hp a b ha hb hbn hbv hbN HF
    (MSet.renderMergeDoc_diffM_setmodes F o hmg hm hk hp a b ha hb
      (V1T.objVoidFree_of_voidFree b hbv) HF) (Or.inr hobj)

/-- **C11 at the TEXT level, SetKeys+MERGE without a clash** (`keysOf o` arbitrary; `KM.clash` is the
    exact class on which `RenderMerge` fails) -/
theorem merge_text_rfc_setkeys_noclash (F : FloatEq0) (L : FloatLaws) (nc : NumCodec) (o : Opts)
    (hmg : isMerge o = true) (hd : dispatchTag o = .set) (hp : precOf o = 0) (a b : Json)
    (ha : a.setDoc = true) (hb : b.setDoc = true) (hbn : b.nullFree = true)
    (hbv : Yaml.voidFree b = true) (hbN : JText.NumOK nc b = true)
    (HF : HashFaithful o (subterms a ++ subterms b)) (hc : KM.clash o a b = false)
    (hne : equals o a b = false) :
    ∃ text p, renderMergeM nc (diffM o a b) = .ok (some text) ∧ parseJson nc text = some p ∧
      p.isVoid = false ∧ p.isNull = false ∧
      equals o (mergePatch a p) b = true ∧ equivB o (mergePatch a p) b = true := by
  have hov := V1T.objVoidFree_of_voidFree b hbv
  refine setmodes_text_core F L nc o (.inl hd) hp a b ha hb hbn hbv hbN HF
    (KM.renderMergeDoc_diffM_noclash F o hmg hd hp a b ha hb HF hov hc) (Or.inl ?_)
  intro hds
  have G : MSet.GoodS (subterms a ++ subterms b) b := MSet.goodS_of_setDoc hb hbn hov
  have Sd := MSet.sound F L (.inl hd) hp HF a (docOk_of_setDoc ha)
    (fun z hz => List.mem_append.2 (Or.inl hz)) b G
  have := (Sd.1 hds).1
  rw [hne] at this; cases this

/-- SetKeys+MERGE, first document an object, no "that differ" -/
theorem merge_text_rfc_setkeys_noclash_obj (F : FloatEq0) (L : FloatLaws) (nc : NumCodec)
    (o : Opts) (hmg : isMerge o = true) (hd : dispatchTag o = .set) (hp : precOf o = 0)
    (a b : Json) (ha : a.setDoc = true) (hb : b.setDoc = true) (hbn : b.nullFree = true)
    (hbv : Yaml.voidFree b = true) (hbN : JText.NumOK nc b = true)
    (HF : HashFaithful o (subterms a ++ subterms b)) (hc : KM.clash o a b = false)
    (hobj : a.isObj = true) :
    ∃ text p, renderMergeM nc (diffM o a b) = .ok (some text) ∧ parseJson nc text = some p ∧
      p.isVoid = false ∧ p.isNull = false ∧
      equals o (mergePatch a p) b = true ∧ equivB o (mergePatch a p) b = true :=
  setmodes_text_core F L nc o (.inl hd) hp a b ha hb hbn hbv hbN HF
    (KM.renderMergeDoc_diffM_noclash F o hmg hd hp a b ha hb HF
      (V1T.objVoidFree_of_voidFree b hbv) hc) (Or.inr hobj)

/-- with a clash there is NO text: `RenderMerge()` returns an error (a false instance of C11, as at
    the document level) -/
theorem merge_text_err_of_clash (F : FloatEq0) (nc : NumCodec) (o : Opts)
    (hmg : isMerge o = true) (hd : dispatchTag o = .set) (hp : precOf o = 0) (a b : Json)
    (ha : a.setDoc = true) (hb : b.setDoc = true)
    (HF : HashFaithful o (subterms a ++ subterms b)) (hc : KM.clash o a b = true) :
    renderMergeM nc (diffM o a b) = .err := by
  simp only [renderMergeM, KM.render_err_of_clash F o hmg hd hp a b ha hb HF hc]

/-- **C11 at the TEXT level, MERGE with a non-negative Precision** (list reading): whenever the diff
    is not empty (or `a` is an object) -/
theorem merge_text_rfc_precision_gen (L : FloatLaws) (nc : NumCodec) (o : Opts)
    (hm : isMerge o = true) (ho : dispatchTag o = .list) (hp : nonnegBits (precOf o) = true)
    (M : DPL.PrecMono o) (a b : Json) (haw : a.wf = true) (har : a.rawDoc = true)
    (hbw : b.wf = true) (hbr : b.rawDoc = true) (hbn : b.nullFree = true)
    (hbf : b.finiteNums = true) (hbv : Yaml.voidFree b = true) (hbN : JText.NumOK nc b = true)
    (hne : diffM o a b ≠ [] ∨ a.isObj = true) :
    ∃ text p, renderMergeM nc (diffM o a b) = .ok (some text) ∧ parseJson nc text = some p ∧
      p.isVoid = false ∧ p.isNull = false ∧
      equals o (mergePatch a p) b = true ∧ equivB o (mergePatch a p) b = true := by
  have hov := V1T.objVoidFree_of_voidFree b hbv
  obtain ⟨m, hm1, he, hq⟩ := MP.merge_render_correct_precision_gen L o hm ho hp M a b haw har hbw
    hbr hbn hov hbf hne
  obtain ⟨m', hm2, hv, hn⟩ := MP.merge_render_doc_precision L o hm ho hp M a b haw har hbw hbr hbn
    hov hbf
  rw [hm1] at hm2
  cases hm2
  have form := renderMergeDoc_diffM o ho hm a b har hbr hov
  have hset : dispatchTag o = .set → False := by rw [ho]; intro h; cases h
  have hbPD : PD nc o [] b := PD.of_doc hbw hbr hbv hbN (fun h => (hset h).elim)
  have hmPD : PD nc o [] m := by
    have := PD.listDoc (nc := nc) (S := []) ho a hbPD
    rw [form] at hm1
    cases hm1
    exact this
  obtain ⟨text, p, c1, c2, c3, _, c5, c6⟩ := merge_text_of_doc nc (fun h => (hset h).elim) hm1 hmPD
    har (fun h => (hset h).elim) (fun h => (hset h).elim) he hq
  exact ⟨text, p, c1, c2, by rw [c3, rawNorm_isVoid]; exact hv,
    by rw [c3, rawNorm_isNull]; exact hn, c5, c6⟩

/-- **C11 at the TEXT level, MERGE with a Precision**, with C11's hypothesis "`Equals` (under the
    options, precision included) tells the documents apart" -/
theorem merge_text_rfc_precision (L : FloatLaws) (nc : NumCodec) (o : Opts)
    (hm : isMerge o = true) (ho : dispatchTag o = .list) (hp : nonnegBits (precOf o) = true)
    (M : DPL.PrecMono o) (a b : Json) (haw : a.wf = true) (har : a.rawDoc = true)
    (hbw : b.wf = true) (hbr : b.rawDoc = true) (hbn : b.nullFree = true)
    (hbf : b.finiteNums = true) (hbv : Yaml.voidFree b = true) (hbN : JText.NumOK nc b = true)
    (hne : equals o a b = false) :
    ∃ text p, renderMergeM nc (diffM o a b) = .ok (some text) ∧ parseJson nc text = some p ∧
      p.isVoid = false ∧ p.isNull = false ∧
      equals o (mergePatch a p) b = true ∧ equivB o (mergePatch a p) b = true := by
  have hov := V1T.objVoidFree_of_voidFree b hbv
  refine merge_text_rfc_precision_gen L nc o hm ho hp M a b haw har hbw hbr hbn hbf hbv hbN
    (Or.inl ?_)
  intro hd
  have S := MP.soundR L o ho hp M a haw har b ⟨hbw, hbr, hbn, hov, hbf⟩
  have := (S.1 ((MP.diffM_nil_iff_dl o ho hm a b har hbr hov).1 hd)).1
  rw [hne] at this; cases this

/-- **C11 at the TEXT level, MULTISET+SetKeys+MERGE** (`jd -mset -setkeys K -f merge`): the keys play
    no role under the bag reading -/
theorem merge_text_rfc_mset_keys (F : FloatEq0) (L : FloatLaws) (nc : NumCodec) (o : Opts)
    (hmg : isMerge o = true) (hd : dispatchTag o = .mset) (hp : precOf o = 0) (a b : Json)
    (ha : a.setDoc = true) (hb : b.setDoc = true) (hbn : b.nullFree = true)
    (hbv : Yaml.voidFree b = true) (hbN : JText.NumOK nc b = true)
    (HF : HashFaithful o (subterms a ++ subterms b))
    (hne : equals o a b = false ∨ a.isObj = true) :
    ∃ text p, renderMergeM nc (diffM o a b) = .ok (some text) ∧ parseJson nc text = some p ∧
      p.isVoid = false ∧ p.isNull = false ∧
      equals o (mergePatch a p) b = true ∧ equivB o (mergePatch a p) b = true := by
  have hov := V1T.objVoidFree_of_voidFree b hbv
  have FH := DES.diffFaithful_of_hashFaithful F (.inr hd) hp (docOk_of_setDoc ha)
    (docOk_of_setDoc hb) HF
  have h := KM.diffNode_eq_ds_mset hd hp FH a b (docOk_of_setDoc ha) (docOk_of_setDoc hb)
    (DES.within_subterms a) (DES.within_subterms b) hov []
  simp only [List.map_nil, List.nil_append] at h
  have form : renderMergeDoc (diffM o a b)
      = .ok (if MSet.ds o a b = [] then .obj [] else mapply (MSet.rs o a b) .void) := by
    unfold diffM
    rw [hmg, h, MSet.renderMergeDoc_mh]
    rfl
  refine setmodes_text_core F L nc o (.inr hd) hp a b ha hb hbn hbv hbN HF form ?_
  rcases hne with hne | hobj
  · refine Or.inl (fun hds => ?_)
    have G : MSet.GoodS (subterms a ++ subterms b) b := MSet.goodS_of_setDoc hb hbn hov
    have Sd := MSet.sound F L (.inr hd) hp HF a (docOk_of_setDoc ha)
      (fun z hz => List.mem_append.2 (Or.inl hz)) b G
    have := (Sd.1 hds).1
    rw [hne] at this; cases this
  · exact Or.inr hobj

/-! ## 9. what is new at the text level: `raw()` re-orders and de-duplicates a set -/

namespace Witness
open Jd.NativeRT (exCodec)

/-- `{"s":["x","y"],"v":["x"]}` -/
def wA : Json := .obj [("s", .arr .raw [.str "x", .str "y"]), ("v", .arr .raw [.str "x"])]
/-- `{"s":["y","x"],"v":["z","x","z"]}` -/
def wB : Json :=
  .obj [("s", .arr .raw [.str "y", .str "x"]), ("v", .arr .raw [.str "z", .str "x", .str "z"])]

theorem w_docs : wA.setDoc = true ∧ wB.setDoc = true ∧ wB.nullFree = true ∧
    Yaml.voidFree wB = true ∧ JText.NumOK exCodec wB = true := by decide

theorem w_ne : equals [.set, .merge] wA wB = false := by decide +kernel

theorem w_hf : HashFaithful [.set, .merge] (subterms wA ++ subterms wB) := by
  intro x hx y hy
  simp only [wA, wB, subterms, subtermsList, subtermsKvs, List.cons_append, List.nil_append,
    List.append_nil, List.mem_cons, List.not_mem_nil, or_false] at hx hy
  rcases hx with rfl | rfl | rfl | rfl | rfl | rfl | rfl | rfl | rfl | rfl | rfl | rfl | rfl | rfl <;>
  rcases hy with rfl | rfl | rfl | rfl | rfl | rfl | rfl | rfl | rfl | rfl | rfl | rfl | rfl | rfl <;>
  first
  | (intro _; simp [equivB, dispatchTag, allIn, allCovered, anyEquiv, equivKvs, alookup]; done)
  | (intro e; exact absurd e (by decide +kernel))

/-- the document `RenderMerge` builds holds `b`'s array as a `jsonSet` node, members as in `b` -/
theorem w_doc (F : FloatEq0) : renderMergeDoc (diffM [.set, .merge] wA wB)
    = .ok (.obj [("v", .arr .set [.str "z", .str "x", .str "z"])]) := by
  rw [MSet.renderMergeDoc_diffM_setmodes F [.set, .merge] rfl (Or.inl rfl) rfl rfl wA wB w_docs.1
    w_docs.2.1 (by decide) w_hf]
  have e1 : equals [.set, .merge] (.arr .raw [.str "x", .str "y"]) (.arr .raw [.str "y", .str "x"])
      = true := by decide +kernel
  have e2 : equals [.set, .merge] (.arr .raw [.str "x"]) (.arr .raw [.str "z", .str "x", .str "z"])
      = false := by decide +kernel
  have hds : MSet.ds [.set, .merge] wA wB
      = [(["v"], .arr .set [.str "z", .str "x", .str "z"])] := by
    simp [wA, wB, MSet.ds, MSet.dsKvs, alookup, e1, e2, consE, dispatchTag]
  simp [MSet.rs, hds, nulE, Json.isVoid, mapply, mset, nest, putKvs, ainsert]

/-- **the text differs from the document**: under SET the text is `{"v":["x","z"]}` — `b`'s array
    `["z","x","z"]` in hash order without the duplicate (`jsonSet.raw()`); RFC 7386 applied to the
    parsed text gives `{"s":["x","y"],"v":["x","z"]}`, which is `b` ONLY under the set reading (also
    for the member that was replaced wholesale, unlike at the document level) -/
theorem set_text_reorders_and_dedups (F : FloatEq0) :
    renderMergeM exCodec (diffM [.set, .merge] wA wB) = .ok (some "{\"v\":[\"x\",\"z\"]}") ∧
    parseJson exCodec "{\"v\":[\"x\",\"z\"]}" = some (.obj [("v", .arr .raw [.str "x", .str "z"])]) ∧
    mergePatch wA (.obj [("v", .arr .raw [.str "x", .str "z"])])
      = .obj [("s", .arr .raw [.str "x", .str "y"]), ("v", .arr .raw [.str "x", .str "z"])] ∧
    equals [.set, .merge]
      (.obj [("s", .arr .raw [.str "x", .str "y"]), ("v", .arr .raw [.str "x", .str "z"])]) wB = true ∧
    equivB [.set, .merge]
      (.obj [("s", .arr .raw [.str "x", .str "y"]), ("v", .arr .raw [.str "x", .str "z"])]) wB = true ∧
    specEq (.obj [("s", .arr .raw [.str "x", .str "y"]), ("v", .arr .raw [.str "x", .str "z"])]) wB
      = false ∧
    equivB [.mset, .merge]
      (.obj [("s", .arr .raw [.str "x", .str "y"]), ("v", .arr .raw [.str "x", .str "z"])]) wB
      = false := by
  refine ⟨?_, ?_, ?_, by decide +kernel, ?_, ?_, ?_⟩
  · simp only [renderMergeM, w_doc F]
    exact congrArg Outcome.ok (by decide +kernel)
  · exact JText.parseJson_text' exCodec _ _ (by decide) (by decide) (by decide +kernel)
  · simp [wA, mergePatch, mergeMembers, ainsert]
  · simp [wB, equivB, dispatchTag, allIn, allCovered, anyEquiv, equivKvs, alookup]
  · simp [wB, specEq, equivB, dispatchTag, equivList, equivKvs, alookup]
  · simp [wB, equivB, dispatchTag, bagSub, removeFirst, equivKvs, alookup]

end Witness

end Jd.MTS
