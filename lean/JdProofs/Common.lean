/-
  JdProofs.Common — declarations shared by several proof modules (one canonical copy each).

  The proof modules JdProofs.{EqualsSet, SetPatch, DiffEmpty, MergeProofs} were written
  independently and each carried its own copy of the following facts / definitions; they now live
  here so that all modules can be imported together:

    * `bswap_bswap`, `bswap_inj`            the sort key of `hashCodes.Less` is an involution, hence
                                             injective                    (EqualsSet, SetPatch)
    * `hinsert_perm`, `hsort_perm`, `mem_hdedup`, `hashList_eq_map`
                                             sorting / deduplicating hash lists (EqualsSet, SetPatch)
    * `negZeroBits`, `Json.noNegZero`, `noNegZeroList`, `noNegZeroKvs`
                                             the "no `-0`" domain predicate  (EqualsSet, DiffEmpty)
    * `FloatEq0`                            the one IEEE-754 law taken as a hypothesis
                                             (EqualsSet, DiffEmpty; the WEAKER of the two former
                                             versions: it speaks about bit patterns other than `-0` only)
    * `alookup_rawDoc`                      members of raw objects are raw  (EqualsSet, MergeProofs)
    * `rawDoc_listDoc`, `rawDocList_listDocList`, `rawDocKvs_listDocKvs`
                                             raw documents are list documents (DiffEmpty, MergeProofs)
-/
import JdModel
import JdSpec
import JdProofs.EqualsList

namespace Jd
open Jd.Spec

/-! ### 1. the sort key `bswap` -/

/-- `bytes.Compare` on the little-endian arrays is a strict total order on hash codes:
    the sort key is an involution, hence injective -/
theorem bswap_bswap (h : UInt64) : bswap (bswap h) = h := by
  simp only [bswap, ofLe8, le8, List.foldr, List.reverse_cons, List.reverse_nil, List.nil_append,
    List.cons_append]
  apply UInt64.eq_of_toBitVec_eq
  simp only [UInt64.toBitVec_or, UInt64.toBitVec_shiftLeft, UInt8.toBitVec_toUInt64,
    UInt64.toBitVec_toUInt8, UInt64.toBitVec_shiftRight]
  ext i hi
  simp [BitVec.getElem_setWidth, BitVec.getLsbD_setWidth, Nat.sub_sub]
  rw [← BitVec.getLsbD_eq_getElem]
  have hc : i < 8 ∨ (8 ≤ i ∧ i < 16) ∨ (16 ≤ i ∧ i < 24) ∨ (24 ≤ i ∧ i < 32) ∨ (32 ≤ i ∧ i < 40) ∨
      (40 ≤ i ∧ i < 48) ∨ (48 ≤ i ∧ i < 56) ∨ (56 ≤ i ∧ i < 64) := by omega
  rcases hc with hc | hc | hc | hc | hc | hc | hc | hc
  all_goals grind

/-- the sort key of `hashCodes.Less` (`bytes.Compare` on the little-endian arrays) is injective -/
theorem bswap_inj {a b : UInt64} (h : bswap a = bswap b) : a = b := by
  rw [← bswap_bswap a, ← bswap_bswap b, h]

/-! ### 2. sorted / deduplicated hash lists -/

theorem hinsert_perm (h : UInt64) : ∀ l : List UInt64, (hinsert h l).Perm (h :: l)
  | [] => by simp [hinsert]
  | x :: r => by
    simp only [hinsert]
    split
    · exact List.Perm.refl _
    · exact ((hinsert_perm h r).cons x).trans (List.Perm.swap h x r)

theorem hsort_perm : ∀ l : List UInt64, (hsort l).Perm l
  | [] => List.Perm.refl _
  | a :: l => (hinsert_perm a (hsort l)).trans ((hsort_perm l).cons a)

theorem mem_hdedup (h : UInt64) : ∀ l : List UInt64, h ∈ hdedup l ↔ h ∈ l
  | [] => by simp [hdedup]
  | x :: r => by
    simp only [hdedup, List.mem_cons, List.mem_filter, mem_hdedup h r]
    by_cases e : h = x <;> simp [e]

theorem hashList_eq_map (o : Opts) : ∀ xs : List Json, hashList o xs = xs.map (hashCode o)
  | [] => by simp [hashList]
  | x :: r => by simp [hashList, hashList_eq_map o r]

/-! ### 3. the "no negative zero" domain, the IEEE-754 hypothesis -/

/-- the bit pattern of `-0` -/
def negZeroBits : UInt64 := 0x8000000000000000

mutual
/-- no `-0` anywhere in the document (`0` and `-0` are `==` as floats, hence equivalent, but are
    different bit patterns) -/
def Json.noNegZero : Json → Bool
  | .num b => b != negZeroBits
  | .arr _ xs => noNegZeroList xs
  | .obj kvs => noNegZeroKvs kvs
  | _ => true
def noNegZeroList : List Json → Bool
  | [] => true
  | x :: r => x.noNegZero && noNegZeroList r
def noNegZeroKvs : List (String × Json) → Bool
  | [] => true
  | (_, v) :: r => v.noNegZero && noNegZeroKvs r
end

/-- The one IEEE-754 law used (`Float` is opaque to the kernel): `|a - b| ≤ +0` holds only for
    `a == b`, and two finite bit patterns other than `-0` that are `==` are the same pattern. -/
structure FloatEq0 : Prop where
  eq_of_within0 : ∀ a b, finiteBits a = true → finiteBits b = true →
    a ≠ negZeroBits → b ≠ negZeroBits → numWithin 0 a b = true → a = b

/-! ### 4. raw documents -/

theorem alookup_rawDoc {k : String} {v : Json} :
    ∀ {kvs : List (String × Json)}, alookup k kvs = some v → rawDocKvs kvs = true →
      v.rawDoc = true
  | [], h, _ => by simp [alookup] at h
  | (k', v') :: r, h, hd => by
    simp only [rawDocKvs, Bool.and_eq_true] at hd
    simp only [alookup] at h
    split at h
    · cases h; exact hd.1
    · exact alookup_rawDoc h hd.2

mutual
theorem rawDoc_listDoc : ∀ (a : Json), a.rawDoc = true → a.listDoc = true
  | .void, _ => rfl
  | .null, _ => rfl
  | .bool _, _ => rfl
  | .num _, _ => rfl
  | .str _, _ => rfl
  | .arr t xs, h => by
    simp only [Json.rawDoc, Bool.and_eq_true] at h
    simp only [Json.listDoc, Bool.and_eq_true, Bool.or_eq_true]
    exact ⟨.inl h.1, rawDocList_listDocList xs h.2⟩
  | .obj kvs, h => by
    simp only [Json.rawDoc] at h
    simp only [Json.listDoc]
    exact rawDocKvs_listDocKvs kvs h
theorem rawDocList_listDocList : ∀ (xs : List Json), rawDocList xs = true → listDocList xs = true
  | [], _ => rfl
  | x :: r, h => by
    simp only [rawDocList, Bool.and_eq_true] at h
    simp only [listDocList, Bool.and_eq_true]
    exact ⟨rawDoc_listDoc x h.1, rawDocList_listDocList r h.2⟩
theorem rawDocKvs_listDocKvs : ∀ (kvs : List (String × Json)), rawDocKvs kvs = true →
    listDocKvs kvs = true
  | [], _ => rfl
  | (_, v) :: r, h => by
    simp only [rawDocKvs, Bool.and_eq_true] at h
    simp only [listDocKvs, Bool.and_eq_true]
    exact ⟨rawDoc_listDoc v h.1, rawDocKvs_listDocKvs r h.2⟩
end

end Jd
