/-
  JdProofs.RealDiff — property C07 in LIST mode (`dispatchTag o = .list`), strict strategy,
  no precision (`precOf o = 0`): every hunk of `a.Diff(b)` describes a real difference.
  Everything lives in the namespace `Jd.Real`.

  0.  `diff_paths_extend` (list mode, strict, list documents; `diff_paths_extend_all` also says:
      object loops emit below a key of the first object, list loops below an index) and
      `diff_paths_extend_general` (EVERY option set, both strategies, all documents):
      every hunk of `diffNode o m a b p` has `p` as a prefix of its path.
  0c. `diffNode_paths_strict` (every option set, strict strategy, no hypothesis on the documents): the
      sub-diff of two same-kind containers that are not a `mixedPair` (typed array node against a
      plain `jsonArray`) lives STRICTLY below the path it is given; so `Jd.subAfter` (the end block
      of Go's `diffRest`) does not touch it: `subAfter_diffNode_of_not_mixed`.
  1.  equal sub-documents are never mentioned: `equal_member_not_mentioned` (one key),
      `equal_subdoc_not_mentioned` / `diffM_equal_subdoc_not_mentioned` (any depth below keys);
      `hunk_below_keys`: the hunks below a key path are hunks of the sub-diff there.
  2a. arrays of scalars: `diffRest_sublists` (loop invariant, any `c`), `removed_added_sublist`,
      `diffM_removed_added_sublist`, `diffM_removed_added_mem`: all removed values, in hunk order,
      form a sublist of the first array, all added values a sublist of the second;
      `diffRest_located`, `diff_located`, `diffM_located`: hunk by hunk, `remove` is a contiguous run
      of the first array, `add` the contiguous run of the second array standing at the addressed
      index, `before` / `after` are the neighbouring elements (or the boundary marker).
  2b. object members at any depth below keys, and the root, arrays allowed anywhere as values:
      `keyed_hunk_real`, `diffM_keyed_hunk_real`, `diffM_keyed_hunk_values` (`RealAt`): such a hunk
      replaces at most one value by at most one value, removes what `a` holds there (`getAt`; an
      array is reported as a `jsonList`: `asList`), adds what `b` holds there, removes nothing only
      if `a` holds nothing there, adds nothing only if `b` holds nothing there, and the removed
      value is not `Equals` to the added one.
  3.  what a hunk removes differs from what it adds (arrays of scalars): `walk_keeps_lcs` (one step
      of the cursor walk keeps "`c` is a LONGEST common subsequence of the remaining hash lists",
      and in the default step the two cursor elements have different hash codes),
      `diffRest_hashApart` (loop invariant), `diff_hashApart`, `diff_remove_ne_add`,
      `diffM_hashApart`: in every hunk the j-th removed and the j-th added value have different hash
      codes, in particular `remove ≠ add`; `diffM_removed_not_equals_added`: they are not `Equals`.
  4.  no hunk is redundant (arrays of scalars): `applyStrictAll_length`,
      `no_redundant_hunk_length_partial` (dropped hunk with `|remove| ≠ |add|`: the result has the
      wrong length; no hypothesis on hashes or floats) and `no_redundant_hunk_scalar_arrays`
      (ANY dropped hunk, for documents of the domain without hash collision: if the remaining hunks
      apply at all, the result is not structurally equal to `b`).
  5.  `diffM_array_below_keys`: 2a and 3 for an array of scalars held by an object member at any
      depth below keys.

  Boundaries (checked with `#eval` on the model, all OUTSIDE the domain of the theorems):
    * NaN: `diffM [] (num NaN) (num NaN)` is one hunk with `remove = add = [NaN]` (`Equals` is not
      reflexive on NaN; the library rejects non-finite numbers when a node is built).  The
      statements of 2b say "not `Equals`", which also holds there.
    * a typed `jsonList` against a plain `jsonArray` with the same elements gives a non-empty diff
      (`DE.diff_list_vs_array_nonempty`): 2b asks `a.rawDoc`.
  Not covered: list hunks whose elements are containers of the same type (sub-diff inside a list:
  the index in the path is an index of the partially patched array), set / multiset modes (except
  section 0), the merge strategy (except section 0).
-/
import JdProofs.LcsProofs
import JdProofs.EqualsList
import JdProofs.DiffEmpty
import JdProofs.DiffPatchList
import JdProofs.Common
import JdProofs.DiffMinimal

namespace Jd.Real
open Jd Jd.Spec Jd.DPL

/-! ## 0. paths of the hunks of a sub-diff extend the given path -/

theorem accHunk_path {p : Path} {s : Nat} {prev : Json} {R A : List Json} {after : Json} {h : Hunk}
    (hm : h ∈ accHunk p s prev R A after) :
    h.path = p ++ [.idx s] ∧ h.remove = R ∧ h.add = A ∧ h.merge = false := by
  unfold accHunk at hm
  split at hm
  · cases hm
  · simp only [List.mem_singleton] at hm
    subst hm
    exact ⟨rfl, rfl, rfl, rfl⟩

theorem prefix_trans_append {p q : Path} {l : Path} (h : (p ++ q) <+: l) : p <+: l :=
  (List.prefix_append p q).trans h

theorem diffCommon_path {a b : Json} {p : Path} {m : Bool} {h : Hunk} (hm : h ∈ diffCommon m a b p) :
    h.path = p := by
  unfold diffCommon at hm
  split at hm
  · cases hm
  · split at hm <;> (simp only [List.mem_singleton] at hm; subst hm; rfl)

/-- list mode, strict strategy, list documents: the three loops only emit hunks below the path they
    were given; object loops below a key of the first object, list loops below an index -/
theorem diff_paths_extend_all (o : Opts) (ho : dispatchTag o = .list) :
    (∀ a b, a.listDoc = true → b.listDoc = true → ∀ p, ∀ h ∈ diffNode o false a b p, p <+: h.path) ∧
    (∀ kvs' kvs, listDocKvs kvs' = true → listDocKvs kvs = true → ∀ p,
      ∀ h ∈ diffKvs o false p kvs' kvs, ∃ k v, (k, v) ∈ kvs ∧ (p ++ [PathElem.key k]) <+: h.path) ∧
    (∀ k s prev a b c R A, listDocList a = true → listDocList b = true → ∀ p,
      ∀ h ∈ diffRest o p k s prev a b c R A, ∃ i : Nat, (p ++ [PathElem.idx i]) <+: h.path) := by
  apply listDiff_induct o ho
    (mN := fun a b => ∀ p, ∀ h ∈ diffNode o false a b p, p <+: h.path)
    (mK := fun kvs' kvs => ∀ p,
      ∀ h ∈ diffKvs o false p kvs' kvs, ∃ k v, (k, v) ∈ kvs ∧ (p ++ [PathElem.key k]) <+: h.path)
    (mR := fun k s prev a b c R A => ∀ p,
      ∀ h ∈ diffRest o p k s prev a b c R A, ∃ i : Nat, (p ++ [PathElem.idx i]) <+: h.path)
  · intro t t' xs ys ht ht' htt _ _ ih p h hm
    rw [diffNode_arr_arr ho xs ys ht ht' htt] at hm
    obtain ⟨i, hi⟩ := ih p h hm
    exact prefix_trans_append hi
  · intro t xs b ht _ _ hb p h hm
    rw [diffNode_arr_other ho xs b ht hb] at hm
    simp only [List.mem_singleton] at hm
    subst hm
    exact List.prefix_refl _
  · intro kvs kvs' _ _ ih p h hm
    rw [diffNode_obj_obj] at hm
    rcases List.mem_append.1 hm with hm | hm
    · obtain ⟨k, v, _, hk⟩ := ih p h hm
      exact prefix_trans_append hk
    · obtain ⟨kv, _, rfl⟩ := List.mem_map.1 hm
      exact List.prefix_append _ _
  · intro kvs b _ _ hb p h hm
    rw [diffNode_obj_other o kvs b hb] at hm
    simp only [List.mem_singleton] at hm
    subst hm
    exact List.prefix_refl _
  · intro a b h1 h2 _ p h hm
    rw [diffNode_scalar o a b h1 h2] at hm
    rw [diffCommon_path hm]
    exact List.prefix_refl _
  · intro kvs' p h hm
    simp [diffKvs_nil] at hm
  · intro kvs' k v r hl' _ _ ihN ihK p h hm
    rw [diffKvs_cons] at hm
    rcases List.mem_append.1 hm with hm | hm
    · refine ⟨k, v, List.mem_cons_self, ?_⟩
      cases hlk : alookup k kvs' with
      | none =>
        simp only [hlk, List.mem_singleton] at hm
        subst hm
        exact List.prefix_refl _
      | some v' =>
        simp only [hlk] at hm
        exact ihN v' (alookup_listDoc hlk hl') _ h hm
    · obtain ⟨k0, v0, hmem, hk⟩ := ihK p h hm
      exact ⟨k0, v0, List.mem_cons_of_mem _ hmem, hk⟩
  · intro k s prev c R A b _ p h hm
    rw [diffRest_nilA] at hm
    exact ⟨s, by rw [(accHunk_path hm).1]; exact List.prefix_refl _⟩
  · intro k s prev c R A a ha _ p h hm
    rw [diffRest_nilB _ _ _ _ _ _ _ _ _ ha] at hm
    exact ⟨s, by rw [(accHunk_path hm).1]; exact List.prefix_refl _⟩
  · intro k s prev c R A x a' y b' _ _ hA hB ih p h hm
    rw [diffRest_cons] at hm
    simp only [hA, hB, Bool.and_self, if_true] at hm
    rcases List.mem_append.1 hm with hm | hm
    · exact ⟨s, by rw [(accHunk_path hm).1]; exact List.prefix_refl _⟩
    · exact ih p h hm
  · intro k s prev c R A x a' y b' _ _ hA hB ih p h hm
    rw [diffRest_cons] at hm
    simp only [hA, hB, Bool.and_false, Bool.false_eq_true, if_false, if_true] at hm
    exact ih p h hm
  · intro k s prev c R A x a' y b' _ _ hA hB ih p h hm
    rw [diffRest_cons] at hm
    simp only [hA, hB, Bool.false_and, Bool.false_eq_true, if_false, if_true] at hm
    exact ih p h hm
  · intro k s prev c R A x a' y b' _ _ hA hB hs ihN ihR p h hm
    rw [diffRest_cons] at hm
    simp only [hA, hB, hs, Bool.false_and, Bool.false_eq_true, if_false, if_true] at hm
    rcases List.mem_append.1 hm with hm | hm
    · rcases List.mem_append.1 hm with hm | hm
      · exact ⟨s, by rw [(accHunk_path hm).1]; exact List.prefix_refl _⟩
      · obtain ⟨h0, hm0, hp0, _⟩ := mem_subAfter' hm
        exact ⟨k, by rw [hp0]; exact ihN _ h0 hm0⟩
    · exact ihR p h hm
  · intro k s prev c R A x a' y b' _ _ hA hB hs ih p h hm
    rw [diffRest_cons] at hm
    simp only [hA, hB, hs, Bool.false_and, Bool.false_eq_true, if_false] at hm
    exact ih p h hm

/-- every hunk of `diffNode o false a b p` has `p` as a prefix of its path -/
theorem diff_paths_extend {o : Opts} (ho : dispatchTag o = .list) {a b : Json}
    (ha : a.listDoc = true) (hb : b.listDoc = true) (p : Path) :
    ∀ h ∈ diffNode o false a b p, p <+: h.path :=
  (diff_paths_extend_all o ho).1 a b ha hb p

/-! ## 0b. the same for every option set and both strategies -/

theorem mem_kinsert {β} {h : UInt64} {v : β} : ∀ {l : List (UInt64 × β)} {x : UInt64 × β},
    x ∈ kinsert h v l → x = (h, v) ∨ x ∈ l
  | [], x, hm => by simp [kinsert] at hm; exact .inl hm
  | (h', v') :: r, x, hm => by
    simp only [kinsert] at hm
    split at hm
    · rcases List.mem_cons.1 hm with e | hm
      · exact .inl e
      · exact .inr hm
    · rcases List.mem_cons.1 hm with e | hm
      · exact .inr (e ▸ List.mem_cons_self)
      · rcases mem_kinsert hm with e | hm
        · exact .inl e
        · exact .inr (List.mem_cons_of_mem _ hm)

theorem mem_ksort {β} : ∀ {l : List (UInt64 × β)} {x : UInt64 × β}, x ∈ ksort l → x ∈ l
  | [], x, hm => by simp [ksort] at hm
  | p :: r, x, hm => by
    have hm' : x ∈ kinsert p.1 p.2 (ksort r) := hm
    rcases mem_kinsert hm' with e | hm'
    · exact e ▸ List.mem_cons_self
    · exact List.mem_cons_of_mem _ (mem_ksort hm')

/-- "every hunk of every diff of `x` sits below the path given" -/
def PathsOK (o : Opts) (x : Json) : Prop :=
  ∀ (m : Bool) (y : Json) (q : Path), ∀ h ∈ diffNode o m x y q, q <+: h.path

theorem accHunk_path' {p : Path} {s : Nat} {prev : Json} {R A : List Json} {after : Json} {h : Hunk}
    (hm : h ∈ accHunk p s prev R A after) : p <+: h.path := by
  unfold accHunk at hm
  split at hm
  · cases hm
  · simp only [List.mem_singleton] at hm
    subst hm
    exact List.prefix_append _ _

theorem diffRest_paths_general (o : Opts) (p : Path) :
    ∀ (n : Nat) (a b : List Json), a.length + b.length = n → (∀ x ∈ a, PathsOK o x) →
      ∀ (k s : Nat) (prev : Json) (c : List UInt64) (R A : List Json),
        ∀ h ∈ diffRest o p k s prev a b c R A, p <+: h.path := by
  intro n
  induction n using Nat.strongRecOn with
  | _ n ih =>
    intro a b hn hok k s prev c R A h hm
    cases a with
    | nil =>
      rw [diffRest_nilA] at hm
      exact accHunk_path' hm
    | cons x a' =>
      cases b with
      | nil =>
        rw [diffRest_nilB _ _ _ _ _ _ _ _ _ (by simp)] at hm
        exact accHunk_path' hm
      | cons y b' =>
        have hok' : ∀ z ∈ a', PathsOK o z := fun z hz => hok z (List.mem_cons_of_mem _ hz)
        simp only [List.length_cons] at hn
        rw [diffRest_cons] at hm
        split at hm
        · rcases List.mem_append.1 hm with hm | hm
          · exact accHunk_path' hm
          · exact ih (a'.length + b'.length) (by omega) a' b' rfl hok' _ _ _ _ _ _ h hm
        · split at hm
          · exact ih ((x :: a').length + b'.length) (by simp; omega) (x :: a') b' rfl hok _ _ _ _ _ _
              h hm
          · split at hm
            · exact ih (a'.length + (y :: b').length) (by simp; omega) a' (y :: b') rfl hok' _ _ _ _ _
                _ h hm
            · split at hm
              · rcases List.mem_append.1 hm with hm | hm
                · rcases List.mem_append.1 hm with hm | hm
                  · exact accHunk_path' hm
                  · obtain ⟨h0, hm0, hp0, _⟩ := mem_subAfter' hm
                    rw [hp0]
                    exact (List.prefix_append _ _).trans
                      (hok x List.mem_cons_self false y _ h0 hm0)
                · exact ih (a'.length + b'.length) (by omega) a' b' rfl hok' _ _ _ _ _ _ h hm
              · exact ih (a'.length + b'.length) (by omega) a' b' rfl hok' _ _ _ _ _ _ h hm

theorem diffSetElems_paths_general (o : Opts) (m : Bool) (p : Path) (ys : List Json) :
    ∀ (xs : List Json), (∀ x ∈ xs, PathsOK o x) →
      ∀ kp ∈ diffSetElems o m p ys xs, ∀ d, kp.2 = SetPart.sub d → ∀ h ∈ d, p <+: h.path
  | [], _, kp, hm, _, _, _, _ => by
    rw [diffSetElems.eq_def] at hm
    cases hm
  | x :: r, hok, kp, hm, d, hd, h, hh => by
    have ih := diffSetElems_paths_general o m p ys r (fun z hz => hok z (List.mem_cons_of_mem _ hz))
    rw [diffSetElems.eq_def] at hm
    simp only [] at hm
    split at hm
    · exact ih kp hm d hd h hh
    · split at hm
      · rcases List.mem_cons.1 hm with e | hm
        · subst e; cases hd
        · exact ih kp hm d hd h hh
      · split at hm
        · rcases List.mem_cons.1 hm with e | hm
          · subst e
            simp only [SetPart.sub.injEq] at hd
            subst hd
            exact (List.prefix_append _ _).trans (hok _ List.mem_cons_self m _ _ h hh)
          · exact ih kp hm d hd h hh
        · exact ih kp hm d hd h hh

theorem diffKvs_paths_general (o : Opts) (m : Bool) (p : Path) (kvs' : List (String × Json)) :
    ∀ (kvs : List (String × Json)), (∀ kv ∈ kvs, PathsOK o kv.2) →
      ∀ h ∈ diffKvs o m p kvs' kvs, p <+: h.path
  | [], _, h, hm => by simp [DE.diffKvs_nil] at hm
  | (k, v) :: r, hok, h, hm => by
    rw [DE.diffKvs_cons] at hm
    rcases List.mem_append.1 hm with hm | hm
    · split at hm
      · exact (List.prefix_append _ _).trans (hok (k, v) List.mem_cons_self m _ _ h hm)
      · split at hm <;>
        · simp only [List.mem_singleton] at hm
          subst hm
          exact List.prefix_append _ _
    · exact diffKvs_paths_general o m p kvs' r (fun z hz => hok z (List.mem_cons_of_mem _ hz)) h hm

theorem single_prefix_tac {p l : Path} {h h0 : Hunk} (hm : h ∈ [h0]) (hp : h0.path = l) (hl : p <+: l) :
    p <+: h.path := by
  simp only [List.mem_singleton] at hm
  subst hm
  rw [hp]; exact hl

theorem diffNode_arr_paths (o : Opts) (t : Tag) (xs : List Json) (hok : ∀ x ∈ xs, PathsOK o x) :
    PathsOK o (.arr t xs) := by
  intro m b p h hm
  rw [diffNode.eq_def] at hm
  simp only [] at hm
  repeat' split at hm
  all_goals first
    | cases hm; done
    | exact single_prefix_tac hm rfl (List.prefix_refl _)
    | exact single_prefix_tac hm rfl (List.prefix_append _ _)
    | exact diffRest_paths_general o p _ xs _ rfl hok _ _ _ _ _ _ h hm
    | skip
  all_goals
    rcases List.mem_append.1 hm with hm | hm
    · obtain ⟨kp, hkp, hh⟩ := List.mem_flatMap.1 hm
      split at hh
      · next d hd => exact diffSetElems_paths_general o m p _ xs hok kp (mem_ksort hkp) d hd h hh
      · cases hh
    · first
        | cases hm; done
        | exact single_prefix_tac hm rfl (List.prefix_append _ _)

mutual
theorem pathsOK_json (o : Opts) : ∀ (a : Json), PathsOK o a
  | .arr t xs => diffNode_arr_paths o t xs (pathsOK_list o xs)
  | .obj kvs => by
    intro m b p h hm
    rw [diffNode.eq_def] at hm
    simp only [] at hm
    split at hm
    · rcases List.mem_append.1 hm with hm | hm
      · exact diffKvs_paths_general o m p _ kvs (pathsOK_kvs o kvs) h hm
      · obtain ⟨kv, _, rfl⟩ := List.mem_map.1 hm
        exact List.prefix_append _ _
    · split at hm <;> exact single_prefix_tac hm rfl (List.prefix_refl _)
  | .void => fun m b p h hm => by
    rw [DE.diffNode_scalar o m _ b (by intro t xs e; cases e) (by intro kvs e; cases e)] at hm
    rw [diffCommon_path hm]; exact List.prefix_refl _
  | .null => fun m b p h hm => by
    rw [DE.diffNode_scalar o m _ b (by intro t xs e; cases e) (by intro kvs e; cases e)] at hm
    rw [diffCommon_path hm]; exact List.prefix_refl _
  | .bool _ => fun m b p h hm => by
    rw [DE.diffNode_scalar o m _ b (by intro t xs e; cases e) (by intro kvs e; cases e)] at hm
    rw [diffCommon_path hm]; exact List.prefix_refl _
  | .num _ => fun m b p h hm => by
    rw [DE.diffNode_scalar o m _ b (by intro t xs e; cases e) (by intro kvs e; cases e)] at hm
    rw [diffCommon_path hm]; exact List.prefix_refl _
  | .str _ => fun m b p h hm => by
    rw [DE.diffNode_scalar o m _ b (by intro t xs e; cases e) (by intro kvs e; cases e)] at hm
    rw [diffCommon_path hm]; exact List.prefix_refl _
theorem pathsOK_list (o : Opts) : ∀ (xs : List Json), ∀ x ∈ xs, PathsOK o x
  | [], _, hx => by cases hx
  | y :: r, x, hx => by
    rcases List.mem_cons.1 hx with e | hx
    · rw [e]; exact pathsOK_json o y
    · exact pathsOK_list o r x hx
theorem pathsOK_kvs (o : Opts) : ∀ (kvs : List (String × Json)), ∀ kv ∈ kvs, PathsOK o kv.2
  | [], _, hx => by cases hx
  | (k, v) :: r, kv, hx => by
    rcases List.mem_cons.1 hx with e | hx
    · rw [e]; exact pathsOK_json o v
    · exact pathsOK_kvs o r kv hx
end

/-- `diff_paths_extend` for EVERY option set (list, set, multiset, SetKeys, precision) and both
    strategies (strict and merge), all documents: every hunk of `diffNode o m a b p` has `p` as a
    prefix of its path -/
theorem diff_paths_extend_general (o : Opts) (m : Bool) (a b : Json) (p : Path) :
    ∀ h ∈ diffNode o m a b p, p <+: h.path :=
  pathsOK_json o a m b p

/-! ## 0c. strictly below: the sub-diff of two same-kind containers, and `subAfter` -/

theorem lt_of_prefix_snoc {p l : Path} {e : PathElem} (h : (p ++ [e]) <+: l) : p.length < l.length := by
  have := h.length_le
  simp only [List.length_append, List.length_singleton] at this
  omega

theorem accHunk_path_lt {p : Path} {s : Nat} {prev : Json} {R A : List Json} {after : Json} {h : Hunk}
    (hm : h ∈ accHunk p s prev R A after) : p.length < h.path.length := by
  rw [(accHunk_path hm).1]; simp

/-- every hunk of the cursor walk at `p` is addressed strictly below `p` (any options, any elements) -/
theorem diffRest_paths_strict (o : Opts) (p : Path) :
    ∀ (n : Nat) (a b : List Json), a.length + b.length = n →
      ∀ (k s : Nat) (prev : Json) (c : List UInt64) (R A : List Json),
        ∀ h ∈ diffRest o p k s prev a b c R A, p.length < h.path.length := by
  intro n
  induction n using Nat.strongRecOn with
  | _ n ih =>
    intro a b hn k s prev c R A h hm
    cases a with
    | nil =>
      rw [diffRest_nilA] at hm
      exact accHunk_path_lt hm
    | cons x a' =>
      cases b with
      | nil =>
        rw [diffRest_nilB _ _ _ _ _ _ _ _ _ (by simp)] at hm
        exact accHunk_path_lt hm
      | cons y b' =>
        simp only [List.length_cons] at hn
        rw [diffRest_cons] at hm
        split at hm
        · rcases List.mem_append.1 hm with hm | hm
          · exact accHunk_path_lt hm
          · exact ih (a'.length + b'.length) (by omega) a' b' rfl _ _ _ _ _ _ h hm
        · split at hm
          · exact ih ((x :: a').length + b'.length) (by simp; omega) (x :: a') b' rfl _ _ _ _ _ _
              h hm
          · split at hm
            · exact ih (a'.length + (y :: b').length) (by simp; omega) a' (y :: b') rfl _ _ _ _ _
                _ h hm
            · split at hm
              · rcases List.mem_append.1 hm with hm | hm
                · rcases List.mem_append.1 hm with hm | hm
                  · exact accHunk_path_lt hm
                  · obtain ⟨h0, hm0, hp0, _⟩ := mem_subAfter' hm
                    rw [hp0]
                    exact lt_of_prefix_snoc (diff_paths_extend_general o false x y _ h0 hm0)
                · exact ih (a'.length + b'.length) (by omega) a' b' rfl _ _ _ _ _ _ h hm
              · exact ih (a'.length + b'.length) (by omega) a' b' rfl _ _ _ _ _ _ h hm

theorem diffKvs_paths_strict (o : Opts) (m : Bool) (p : Path) (kvs' : List (String × Json)) :
    ∀ (kvs : List (String × Json)), ∀ h ∈ diffKvs o m p kvs' kvs, p.length < h.path.length
  | [], h, hm => by simp [DE.diffKvs_nil] at hm
  | (k, v) :: r, h, hm => by
    rw [DE.diffKvs_cons] at hm
    rcases List.mem_append.1 hm with hm | hm
    · split at hm
      · exact lt_of_prefix_snoc (diff_paths_extend_general o m _ _ _ h hm)
      · split at hm <;>
        · simp only [List.mem_singleton] at hm
          subst hm
          simp
    · exact diffKvs_paths_strict o m p kvs' r h hm

theorem diffSetElems_paths_strict (o : Opts) (m : Bool) (p : Path) (ys : List Json) :
    ∀ (xs : List Json),
      ∀ kp ∈ diffSetElems o m p ys xs, ∀ d, kp.2 = SetPart.sub d → ∀ h ∈ d, p.length < h.path.length
  | [], kp, hm, _, _, _, _ => by
    rw [diffSetElems.eq_def] at hm
    cases hm
  | x :: r, kp, hm, d, hd, h, hh => by
    have ih := diffSetElems_paths_strict o m p ys r
    rw [diffSetElems.eq_def] at hm
    simp only [] at hm
    split at hm
    · exact ih kp hm d hd h hh
    · split at hm
      · rcases List.mem_cons.1 hm with e | hm
        · subst e; cases hd
        · exact ih kp hm d hd h hh
      · split at hm
        · rcases List.mem_cons.1 hm with e | hm
          · subst e
            simp only [SetPart.sub.injEq] at hd
            subst hd
            exact lt_of_prefix_snoc (diff_paths_extend_general o m _ _ _ h hh)
          · exact ih kp hm d hd h hh
        · exact ih kp hm d hd h hh

theorem dispatchTag_ne_raw (o : Opts) : dispatchTag o ≠ .raw := by
  induction o with
  | nil => simp [dispatchTag]
  | cons e r ih => cases e <;> simp [dispatchTag, ih]

theorem effTag_ne_raw (o : Opts) (t : Tag) : effTag o t ≠ .raw := by
  cases t <;> simp [effTag, dispatchTag_ne_raw]

theorem sameContainerType_arr (o : Opts) (t t' : Tag) (xs ys : List Json) :
    sameContainerType o (.arr t xs) (.arr t' ys) = (effTag o t == effTag o t') := by
  cases t <;> cases t' <;> simp [sameContainerType, Json.dispatch, effTag]

/-- **the sub-diff of two same-kind containers that are not a `mixedPair` lives strictly below the
    path it is given** (strict strategy, every option set, no hypothesis on the documents) -/
theorem diffNode_paths_strict (o : Opts) {x y : Json} (hs : sameContainerType o x y = true)
    (hnm : mixedPair x y = false) (q : Path) :
    ∀ h ∈ diffNode o false x y q, q.length < h.path.length := by
  intro h hm
  cases x with
  | obj kvs =>
    cases y with
    | obj kvs' =>
      rw [DE.diffNode_obj_obj] at hm
      rcases List.mem_append.1 hm with hm | hm
      · exact diffKvs_paths_strict o false q kvs' kvs h hm
      · obtain ⟨kv, _, rfl⟩ := List.mem_map.1 hm
        simp
    | arr t ys => cases t <;> simp [sameContainerType, Json.dispatch] at hs
    | _ => simp [sameContainerType, Json.dispatch] at hs
  | arr t xs =>
    cases y with
    | arr t' ys =>
      rw [sameContainerType_arr, beq_iff_eq] at hs
      have hb' : (if (t == Tag.raw) = true then Json.dispatch o (.arr t' ys) else .arr t' ys) =
          .arr (effTag o t) ys := by
        cases t <;> cases t' <;> simp_all [effTag, Json.dispatch, mixedPair]
      rw [diffNode.eq_def] at hm
      simp only [hb'] at hm
      have hne := effTag_ne_raw o t
      cases he : effTag o t with
      | raw => exact absurd he hne
      | list =>
        simp only [he, Bool.false_eq_true, if_false] at hm
        exact diffRest_paths_strict o q _ xs ys rfl _ _ _ _ _ _ h hm
      | set =>
        simp only [he, Bool.false_and, Bool.false_eq_true, if_false] at hm
        rcases List.mem_append.1 hm with hm | hm
        · obtain ⟨kp, hkp, hh⟩ := List.mem_flatMap.1 hm
          split at hh
          · next d hd => exact diffSetElems_paths_strict o false q _ xs kp (mem_ksort hkp) d hd h hh
          · cases hh
        · split at hm
          · cases hm
          · simp only [List.mem_singleton] at hm; subst hm; simp
      | mset =>
        simp only [he, Bool.false_and, Bool.false_eq_true, if_false] at hm
        split at hm
        · cases hm
        · simp only [List.mem_singleton] at hm; subst hm; simp
    | _ => cases t <;> simp [sameContainerType, Json.dispatch] at hs
  | _ => simp [sameContainerType, Json.dispatch] at hs

/-- so `subAfter` does not touch it -/
theorem subAfter_diffNode_of_not_mixed (o : Opts) {x y : Json} (hs : sameContainerType o x y = true)
    (hnm : mixedPair x y = false) (p : Path) (k : Int) (n : Bool) (nx : Json) :
    subAfter p n nx (diffNode o false x y (p ++ [.idx k])) = diffNode o false x y (p ++ [.idx k]) := by
  apply subAfter_of_paths
  intro h hm
  have := diffNode_paths_strict o hs hnm _ h hm
  simpa using this


/-! ## 1. equal sub-documents are never mentioned -/

/-- a path made of object keys only -/
def keysOnly : Path → Bool
  | [] => true
  | .key _ :: r => keysOnly r
  | _ => false

/-- navigation by object keys and list indices; `none` when the location does not exist -/
def getAt : Json → Path → Option Json
  | n, [] => some n
  | .obj kvs, .key k :: r => (alookup k kvs).bind (fun v => getAt v r)
  | .arr _ xs, .idx i :: r => if i < 0 then none else (xs[i.toNat]?).bind (fun v => getAt v r)
  | _, _ => none

theorem key_prefix_unique {p l : Path} {k k' : String} (h1 : (p ++ [PathElem.key k]) <+: l)
    (h2 : (p ++ [PathElem.key k']) <+: l) : k = k' := by
  have h3 := List.prefix_of_prefix_length_le h1 h2 (by simp)
  have h4 := h3.eq_of_length (by simp)
  have h5 := List.append_cancel_left h4
  simp only [List.cons.injEq, and_true] at h5
  exact PathElem.key.inj h5

theorem key_idx_prefix_absurd {p l : Path} {k : String} {i : Int} (h1 : (p ++ [PathElem.key k]) <+: l)
    (h2 : (p ++ [PathElem.idx i]) <+: l) : False := by
  have h3 := List.prefix_of_prefix_length_le h1 h2 (by simp)
  have h4 := h3.eq_of_length (by simp)
  have h5 := List.append_cancel_left h4
  simp only [List.cons.injEq, and_true] at h5
  cases h5

/-- the part of an object diff that ranges over the keys of the first object: every hunk belongs to
    exactly one key of the first object, and sits below it -/
theorem mem_diffKvs {o : Opts} (ho : dispatchTag o = .list) {p : Path} {kvs' : List (String × Json)}
    (hl' : listDocKvs kvs' = true) :
    ∀ {kvs : List (String × Json)} {h : Hunk}, listDocKvs kvs = true →
      h ∈ diffKvs o false p kvs' kvs →
      ∃ k v, (k, v) ∈ kvs ∧ (p ++ [PathElem.key k]) <+: h.path ∧
        ((∃ v', alookup k kvs' = some v' ∧ h ∈ diffNode o false v v' (p ++ [PathElem.key k])) ∨
         (alookup k kvs' = none ∧ h = { path := p ++ [PathElem.key k], remove := v.nodeList }))
  | [], h, _, hm => by simp [diffKvs_nil] at hm
  | (k, v) :: r, h, hl, hm => by
    simp only [listDocKvs, Bool.and_eq_true] at hl
    rw [diffKvs_cons] at hm
    rcases List.mem_append.1 hm with hm | hm
    · refine ⟨k, v, List.mem_cons_self, ?_⟩
      cases hlk : alookup k kvs' with
      | none =>
        simp only [hlk, List.mem_singleton] at hm
        subst hm
        exact ⟨List.prefix_refl _, .inr ⟨rfl, rfl⟩⟩
      | some v' =>
        simp only [hlk] at hm
        exact ⟨diff_paths_extend ho hl.1 (alookup_listDoc hlk hl') _ h hm, .inl ⟨v', rfl, hm⟩⟩
    · obtain ⟨k0, v0, hmem, hk⟩ := mem_diffKvs ho hl' hl.2 hm
      exact ⟨k0, v0, List.mem_cons_of_mem _ hmem, hk⟩

/-- C07, "equal sub-documents are never mentioned", object members at any depth below keys:
    if `a` and `b` hold equal values at the key path `q`, no hunk of the diff has a path that starts
    with `p ++ q` -/
theorem equal_subdoc_not_mentioned (F : FloatEq0) {o : Opts} (ho : dispatchTag o = .list)
    (hp : precOf o = 0) :
    ∀ (q : Path), keysOnly q = true → ∀ (a b : Json), a.rawDoc = true → Dom a → Dom b →
      ∀ v v', getAt a q = some v → getAt b q = some v' → equals o v v' = true →
      ∀ p, ∀ h ∈ diffNode o false a b p, ¬ (p ++ q) <+: h.path
  | [], _, a, b, hr, ha, hb, v, v', hv, hv', he, p, h, hm => by
    simp only [getAt, Option.some.injEq] at hv hv'
    subst hv; subst hv'
    rw [diffNode_nil_of_equals F o ho hp false _ _ hr ha hb he p] at hm
    cases hm
  | .key k :: q', hq, a, b, hr, ha, hb, v, v', hv, hv', he, p, h, hm => by
    simp only [keysOnly] at hq
    cases a with
    | obj kvs =>
      cases b with
      | obj kvs' =>
        intro hpre
        have ha' := dom_obj.1 ha
        have hb' := dom_obj.1 hb
        simp only [Json.rawDoc] at hr
        simp only [getAt] at hv hv'
        cases hu : alookup k kvs with
        | none => simp [hu] at hv
        | some u =>
          cases hu' : alookup k kvs' with
          | none => simp [hu'] at hv'
          | some u' =>
            simp only [hu, hu', Option.bind_some] at hv hv'
            have hpre1 : (p ++ [PathElem.key k]) <+: h.path := by
              refine List.IsPrefix.trans ?_ hpre
              exact ⟨q', by simp⟩
            rw [DPL.diffNode_obj_obj] at hm
            rcases List.mem_append.1 hm with hm | hm
            · obtain ⟨k0, v0, hmem, hpre0, hcase⟩ := mem_diffKvs ho hb'.2.listDoc ha'.2.listDoc hm
              have hk : k0 = k := key_prefix_unique hpre0 hpre1
              subst hk
              have hv0 : alookup k0 kvs = some v0 := alookup_of_mem ha'.1 hmem
              rw [hu] at hv0
              cases hv0
              rcases hcase with ⟨w, hw, hmem'⟩ | ⟨hn, _⟩
              · rw [hu'] at hw
                cases hw
                refine equal_subdoc_not_mentioned F ho hp q' hq u u' (alookup_rawDoc hu hr)
                  (ha'.2.lookup hu) (hb'.2.lookup hu') v v' hv hv' he _ h hmem' ?_
                simpa using hpre
              · rw [hu'] at hn; cases hn
            · obtain ⟨kv, hkv, rfl⟩ := List.mem_map.1 hm
              simp only [List.mem_filter] at hkv
              have hk : kv.1 = k := key_prefix_unique (List.prefix_refl _) hpre1
              rw [hk, hu] at hkv
              simp at hkv
      | _ => simp [getAt] at hv'
    | _ => simp [getAt] at hv
  | .idx _ :: _, hq, _, _, _, _, _, _, _, _, _, _, _, _, _ => by simp [keysOnly] at hq
  | .set :: _, hq, _, _, _, _, _, _, _, _, _, _, _, _, _ => by simp [keysOnly] at hq
  | .mset :: _, hq, _, _, _, _, _, _, _, _, _, _, _, _, _ => by simp [keysOnly] at hq
  | .setKeys _ :: _, hq, _, _, _, _, _, _, _, _, _, _, _, _, _ => by simp [keysOnly] at hq
  | .msetKeys _ :: _, hq, _, _, _, _, _, _, _, _, _, _, _, _, _ => by simp [keysOnly] at hq

/-- the advertised one-level form: a member with equal values on both sides is not mentioned -/
theorem equal_member_not_mentioned (F : FloatEq0) {o : Opts} (ho : dispatchTag o = .list)
    (hp : precOf o = 0) {kvs kvs' : List (String × Json)} (hr : (Json.obj kvs).rawDoc = true)
    (ha : Dom (.obj kvs)) (hb : Dom (.obj kvs')) {k : String} {v v' : Json}
    (hl : alookup k kvs = some v) (hl' : alookup k kvs' = some v') (he : equals o v v' = true)
    (p : Path) :
    ∀ h ∈ diffNode o false (.obj kvs) (.obj kvs') p, ¬ (p ++ [PathElem.key k]) <+: h.path :=
  equal_subdoc_not_mentioned F ho hp [.key k] rfl _ _ hr ha hb v v'
    (by simp [getAt, hl]) (by simp [getAt, hl']) he p

/-- the same for `a.Diff(b)` -/
theorem diffM_equal_subdoc_not_mentioned (F : FloatEq0) {o : Opts} (ho : dispatchTag o = .list)
    (hp : precOf o = 0) (hm : isMerge o = false) {a b : Json} (hr : a.rawDoc = true) (ha : Dom a)
    (hb : Dom b) {q : Path} (hq : keysOnly q = true) {v v' : Json} (hv : getAt a q = some v)
    (hv' : getAt b q = some v') (he : equals o v v' = true) :
    ∀ h ∈ diffM o a b, ¬ q <+: h.path := by
  rw [diffM, hm]
  simpa using equal_subdoc_not_mentioned F ho hp q hq a b hr ha hb v v' hv hv' he []

/-! ## 2a. arrays of scalars: what is removed is in the first array, what is added is in the second -/

/-- all removed values of a diff, in hunk order -/
def removed (d : Diff) : List Json := d.flatMap (·.remove)

/-- all added values of a diff, in hunk order -/
def added (d : Diff) : List Json := d.flatMap (·.add)

@[simp] theorem removed_nil : removed [] = [] := rfl
@[simp] theorem added_nil : added [] = [] := rfl
@[simp] theorem removed_append (d e : Diff) : removed (d ++ e) = removed d ++ removed e := by
  simp [removed]
@[simp] theorem added_append (d e : Diff) : added (d ++ e) = added d ++ added e := by
  simp [added]

@[simp] theorem removed_accHunk (p : Path) (s : Nat) (prev : Json) (R A : List Json) (after : Json) :
    removed (accHunk p s prev R A after) = R := by
  unfold accHunk
  split
  · next h =>
    simp only [Bool.and_eq_true, List.isEmpty_iff] at h
    simp [h.1]
  · simp [removed]

@[simp] theorem added_accHunk (p : Path) (s : Nat) (prev : Json) (R A : List Json) (after : Json) :
    added (accHunk p s prev R A after) = A := by
  unfold accHunk
  split
  · next h =>
    simp only [Bool.and_eq_true, List.isEmpty_iff] at h
    simp [h.2]
  · simp [added]

/-- Loop invariant (strengthening of `Min.diffRest_counts`): on scalar elements, the removed values
    are, in order, a sublist of what was accumulated plus the rest of the first array; the added
    values a sublist of what was accumulated plus the rest of the second array.  Holds for ANY `c`. -/
theorem diffRest_sublists (o : Opts) (p : Path) :
    ∀ (n : Nat) (a b : List Json), a.length + b.length = n →
      ∀ (k s : Nat) (prev : Json) (c : List UInt64) (R A : List Json),
        (∀ x ∈ a, isScalar x = true) →
        (removed (diffRest o p k s prev a b c R A)).Sublist (R ++ a) ∧
        (added (diffRest o p k s prev a b c R A)).Sublist (A ++ b) := by
  intro n
  induction n using Nat.strongRecOn with
  | _ n ih =>
    intro a b hn k s prev c R A hsc
    cases a with
    | nil =>
      rw [diffRest_nilA]
      simp
    | cons x a' =>
      cases b with
      | nil =>
        rw [diffRest_nilB _ _ _ _ _ _ _ _ _ (by simp)]
        simp
      | cons y b' =>
        have hsc' : ∀ z ∈ a', isScalar z = true := fun z hz => hsc z (List.mem_cons_of_mem _ hz)
        have hsame : sameContainerType o x y = false :=
          sameContainerType_scalar o y (hsc x List.mem_cons_self)
        simp only [List.length_cons] at hn
        rw [diffRest_cons]
        simp only [hsame, Bool.false_eq_true, if_false]
        split
        · obtain ⟨h1, h2⟩ := ih (a'.length + b'.length) (by omega) a' b' rfl (k + 1) (k + 1) y
            c.tail [] [] hsc'
          simp only [List.nil_append] at h1 h2
          simp only [removed_append, added_append, removed_accHunk, added_accHunk]
          exact ⟨(List.Sublist.refl R).append (h1.cons x), (List.Sublist.refl A).append (h2.cons y)⟩
        · split
          · obtain ⟨h1, h2⟩ := ih ((x :: a').length + b'.length) (by simp; omega) (x :: a') b' rfl
              (k + 1) s prev c R (A ++ [y]) hsc
            exact ⟨h1, by simpa using h2⟩
          · split
            · obtain ⟨h1, h2⟩ := ih (a'.length + (y :: b').length) (by simp; omega) a' (y :: b') rfl
                k s prev c (R ++ [x]) A hsc'
              exact ⟨by simpa using h1, h2⟩
            · obtain ⟨h1, h2⟩ := ih (a'.length + b'.length) (by omega) a' b' rfl (k + 1) s prev c
                (R ++ [x]) (A ++ [y]) hsc'
              exact ⟨by simpa using h1, by simpa using h2⟩

/-- C07 for two arrays of scalars: all removed values, in hunk order, form a sublist of the first
    array; all added values a sublist of the second array -/
theorem removed_added_sublist (o : Opts) (p : Path) (xs ys : List Json)
    (scalars : ∀ x ∈ xs, isScalar x = true) :
    let d := diffRest o p 0 0 .void xs ys (lcsValues (hashList o xs) (hashList o ys)) [] []
    (d.flatMap (·.remove)).Sublist xs ∧ (d.flatMap (·.add)).Sublist ys := by
  intro d
  simpa [removed, added] using diffRest_sublists o p _ xs ys rfl 0 0 .void
    (lcsValues (hashList o xs) (hashList o ys)) [] [] scalars

theorem diffNode_removed_added_sublist {o : Opts} (ho : dispatchTag o = .list) {t t' : Tag}
    (xs ys : List Json)
    (ht : (t == .raw || t == .list) = true) (ht' : (t' == .raw || t' == .list) = true)
    (htt : t = .raw ∨ t' = .list) (p : Path)
    (scalars : ∀ x ∈ xs, isScalar x = true) :
    let d := diffNode o false (.arr t xs) (.arr t' ys) p
    (d.flatMap (·.remove)).Sublist xs ∧ (d.flatMap (·.add)).Sublist ys := by
  intro d
  have e : d = diffRest o p 0 0 .void xs ys (lcsValues (hashList o xs) (hashList o ys)) [] [] :=
    DPL.diffNode_arr_arr ho xs ys ht ht' htt p
  rw [e]
  exact removed_added_sublist o p xs ys scalars

theorem diffM_removed_added_sublist {o : Opts} (ho : dispatchTag o = .list) (hm : isMerge o = false)
    {t t' : Tag} (xs ys : List Json)
    (ht : (t == .raw || t == .list) = true) (ht' : (t' == .raw || t' == .list) = true)
    (htt : t = .raw ∨ t' = .list)
    (scalars : ∀ x ∈ xs, isScalar x = true) :
    let d := diffM o (.arr t xs) (.arr t' ys)
    (d.flatMap (·.remove)).Sublist xs ∧ (d.flatMap (·.add)).Sublist ys := by
  intro d
  have e : d = diffNode o false (.arr t xs) (.arr t' ys) [] := by
    show diffM o _ _ = _
    rw [diffM, hm]
  rw [e]
  exact diffNode_removed_added_sublist ho xs ys ht ht' htt [] scalars

/-- every removed value is an element of the first array, every added value of the second -/
theorem diffM_removed_added_mem {o : Opts} (ho : dispatchTag o = .list) (hm : isMerge o = false)
    {t t' : Tag} (xs ys : List Json)
    (ht : (t == .raw || t == .list) = true) (ht' : (t' == .raw || t' == .list) = true)
    (htt : t = .raw ∨ t' = .list)
    (scalars : ∀ x ∈ xs, isScalar x = true) :
    ∀ h ∈ diffM o (.arr t xs) (.arr t' ys), (∀ v ∈ h.remove, v ∈ xs) ∧ (∀ w ∈ h.add, w ∈ ys) := by
  intro h hmem
  obtain ⟨h1, h2⟩ := diffM_removed_added_sublist ho hm xs ys ht ht' htt scalars
  exact ⟨fun v hv => h1.subset (List.mem_flatMap.2 ⟨h, hmem, hv⟩),
    fun w hw => h2.subset (List.mem_flatMap.2 ⟨h, hmem, hw⟩)⟩

/-- `h` is addressed to index `i` below `p`; it removes a contiguous run of `X` and adds a contiguous
    run of `Y`; the added run stands in `Y` at index `i`; its before-context is the element of `Y`
    that precedes the added run (the array start marker when there is none) and its after-context
    the element of `X` that follows the removed run (the array end marker when there is none) -/
def Located (p : Path) (X Y : List Json) (h : Hunk) : Prop :=
  ∃ (i : Nat) (preA postA preB postB : List Json),
    h.path = p ++ [PathElem.idx i] ∧ X = preA ++ h.remove ++ postA ∧ Y = preB ++ h.add ++ postB ∧
    preB.length = i ∧ h.before = [preB.getLast?.getD .void] ∧ h.after = [postA.headD .void]

theorem accHunk_located {p : Path} {s : Nat} {R A preA postA preB postB : List Json} {after : Json}
    {X Y : List Json} {h : Hunk}
    (hm : h ∈ accHunk p s (preB.getLast?.getD .void) R A after)
    (hX : X = preA ++ R ++ postA) (hY : Y = preB ++ A ++ postB) (hs : preB.length = s)
    (haft : after = postA.headD .void) : Located p X Y h := by
  unfold accHunk at hm
  split at hm
  · cases hm
  · simp only [List.mem_singleton] at hm
    subst hm
    exact ⟨s, preA, postA, preB, postB, rfl, hX, hY, hs, rfl, by rw [haft]⟩

/-- Loop invariant locating every hunk of the scalar walk in the two arrays -/
theorem diffRest_located (o : Opts) (p : Path) (X Y : List Json) :
    ∀ (n : Nat) (a b : List Json), a.length + b.length = n →
      ∀ (k s : Nat) (c : List UInt64) (R A preA preB : List Json),
        (∀ x ∈ a, isScalar x = true) →
        X = preA ++ R ++ a → Y = preB ++ A ++ b → preB.length = s → k = s + A.length →
        ∀ h ∈ diffRest o p k s (preB.getLast?.getD .void) a b c R A, Located p X Y h := by
  intro n
  induction n using Nat.strongRecOn with
  | _ n ih =>
    intro a b hn k s c R A preA preB hsc hX hY hs hk h hm
    cases a with
    | nil =>
      rw [diffRest_nilA] at hm
      exact accHunk_located (postA := []) (postB := []) hm (by simpa using hX) (by simpa using hY) hs rfl
    | cons x a' =>
      cases b with
      | nil =>
        rw [diffRest_nilB _ _ _ _ _ _ _ _ _ (by simp)] at hm
        exact accHunk_located (postA := []) (postB := []) hm (by simpa using hX) (by simpa using hY) hs
          rfl
      | cons y b' =>
        have hsc' : ∀ z ∈ a', isScalar z = true := fun z hz => hsc z (List.mem_cons_of_mem _ hz)
        have hsame : sameContainerType o x y = false :=
          sameContainerType_scalar o y (hsc x List.mem_cons_self)
        simp only [List.length_cons] at hn
        rw [diffRest_cons] at hm
        simp only [hsame, Bool.false_eq_true, if_false] at hm
        split at hm
        · rcases List.mem_append.1 hm with hm | hm
          · exact accHunk_located hm hX hY hs rfl
          · have hlast : y = (preB ++ A ++ [y]).getLast?.getD .void := by simp
            rw [hlast] at hm
            exact ih (a'.length + b'.length) (by omega) a' b' rfl (k + 1) (k + 1) c.tail [] []
              (preA ++ R ++ [x]) (preB ++ A ++ [y]) hsc' (by simp [hX]) (by simp [hY])
              (by simp; omega) (by simp) h hm
        · split at hm
          · exact ih ((x :: a').length + b'.length) (by simp; omega) (x :: a') b' rfl (k + 1) s c R
              (A ++ [y]) preA preB hsc hX (by simp [hY]) hs (by simp; omega) h hm
          · split at hm
            · exact ih (a'.length + (y :: b').length) (by simp; omega) a' (y :: b') rfl k s c
                (R ++ [x]) A preA preB hsc' (by simp [hX]) hY hs hk h hm
            · exact ih (a'.length + b'.length) (by omega) a' b' rfl (k + 1) s c (R ++ [x]) (A ++ [y])
                preA preB hsc' (by simp [hX]) (by simp [hY]) hs (by simp; omega) h hm

/-- C07 for two arrays of scalars, hunk by hunk: the removed values are a contiguous run of the first
    array, the added values a contiguous run of the second array standing at the addressed index, and
    the context lines are the neighbouring elements -/
theorem diff_located (o : Opts) (p : Path) (xs ys : List Json)
    (scalars : ∀ x ∈ xs, isScalar x = true) :
    ∀ h ∈ diffRest o p 0 0 .void xs ys (lcsValues (hashList o xs) (hashList o ys)) [] [],
      Located p xs ys h := by
  intro h hm
  exact diffRest_located o p xs ys _ xs ys rfl 0 0 _ [] [] [] [] scalars (by simp) (by simp) rfl rfl
    h (by simpa using hm)

theorem diffM_located {o : Opts} (ho : dispatchTag o = .list) (hm : isMerge o = false)
    {t t' : Tag} (xs ys : List Json)
    (ht : (t == .raw || t == .list) = true) (ht' : (t' == .raw || t' == .list) = true)
    (htt : t = .raw ∨ t' = .list)
    (scalars : ∀ x ∈ xs, isScalar x = true) :
    ∀ h ∈ diffM o (.arr t xs) (.arr t' ys), Located [] xs ys h := by
  rw [diffM, hm, DPL.diffNode_arr_arr ho xs ys ht ht' htt []]
  exact diff_located o [] xs ys scalars

/-! ## 3. what a hunk removes differs from what it adds (arrays of scalars) -/

/-- position by position, as far as both lists go, the hash codes differ -/
def HashApart (o : Opts) (R A : List Json) : Prop :=
  ∀ (j : Nat) (r a : Json), R[j]? = some r → A[j]? = some a → hashCode o r ≠ hashCode o a

theorem HashApart.nil (o : Opts) : HashApart o [] [] := by
  intro j r a h; simp at h

theorem HashApart.append_right {o : Opts} {R A : List Json} (h : HashApart o R A)
    (hle : R.length ≤ A.length) (B : List Json) : HashApart o R (A ++ B) := by
  intro j r a hr ha
  have hj : j < R.length := (List.getElem?_eq_some_iff.1 hr).1
  rw [List.getElem?_append_left (by omega)] at ha
  exact h j r a hr ha

theorem HashApart.append_left {o : Opts} {R A : List Json} (h : HashApart o R A)
    (hle : A.length ≤ R.length) (B : List Json) : HashApart o (R ++ B) A := by
  intro j r a hr ha
  have hj : j < A.length := (List.getElem?_eq_some_iff.1 ha).1
  rw [List.getElem?_append_left (by omega)] at hr
  exact h j r a hr ha

theorem HashApart.snoc {o : Opts} {R A : List Json} (h : HashApart o R A)
    (hlen : R.length = A.length) {x y : Json} (hne : hashCode o x ≠ hashCode o y) :
    HashApart o (R ++ [x]) (A ++ [y]) := by
  intro j r a hr ha
  by_cases hj : j < R.length
  · rw [List.getElem?_append_left hj] at hr
    rw [List.getElem?_append_left (by omega)] at ha
    exact h j r a hr ha
  · have hj' : j < (R ++ [x]).length := (List.getElem?_eq_some_iff.1 hr).1
    simp only [List.length_append, List.length_cons, List.length_nil] at hj'
    have e : j = R.length := by omega
    subst e
    have e1 : (R ++ [x])[R.length]? = some x := by simp
    have e2 : (A ++ [y])[R.length]? = some y := by rw [hlen]; simp
    rw [e1] at hr; rw [e2] at ha
    cases hr; cases ha
    exact hne

theorem lopt_nil_left {c hb : List UInt64} (h : LOpt c [] hb) : c = [] := by
  simpa using h.1

theorem lopt_nil_right {c ha : List UInt64} (h : LOpt c ha []) : c = [] := by
  simpa using h.2.1

/-- `walk_keeps_lcs` and its consequence in one invariant: along the cursor walk the remaining common
    sequence `c` stays a LONGEST common subsequence of the two remaining hash lists (`LOpt`, kept by
    `LOpt.both / skipA / skipB`), hence in the default step the two cursor elements have different
    hash codes (`LOpt.heads_ne`); together with the phase structure of the walk (after a one-sided step
    only one-sided steps follow until the next common element) every emitted hunk pairs elements with
    different hash codes. -/
theorem diffRest_hashApart (o : Opts) (p : Path) :
    ∀ (n : Nat) (a b : List Json), a.length + b.length = n →
      ∀ (k s : Nat) (prev : Json) (c : List UInt64) (R A : List Json),
        (∀ x ∈ a, isScalar x = true) →
        LOpt c (hashList o a) (hashList o b) →
        HashApart o R A →
        (R.length < A.length → ∃ x a', a = x :: a' ∧ atC o x c = true) →
        (A.length < R.length → ∃ y b', b = y :: b' ∧ atC o y c = true) →
        ∀ h ∈ diffRest o p k s prev a b c R A, HashApart o h.remove h.add := by
  intro n
  induction n using Nat.strongRecOn with
  | _ n ih =>
    intro a b hn k s prev c R A hsc hL hRA hphA hphB h hm
    cases a with
    | nil =>
      rw [diffRest_nilA] at hm
      obtain ⟨_, hr, ha, _⟩ := accHunk_path hm
      rw [hr, ha]
      have hc : c = [] := lopt_nil_left hL
      have hle : R.length ≤ A.length := by
        apply Nat.le_of_not_lt
        intro hlt
        obtain ⟨y, b', _, hy⟩ := hphB hlt
        rw [hc] at hy
        simp [atC] at hy
      exact hRA.append_right hle b
    | cons x a' =>
      cases b with
      | nil =>
        rw [diffRest_nilB _ _ _ _ _ _ _ _ _ (by simp)] at hm
        obtain ⟨_, hr, ha, _⟩ := accHunk_path hm
        rw [hr, ha]
        have hc : c = [] := lopt_nil_right hL
        have hle : A.length ≤ R.length := by
          apply Nat.le_of_not_lt
          intro hlt
          obtain ⟨x0, a0, _, hx⟩ := hphA hlt
          rw [hc] at hx
          simp [atC] at hx
        exact hRA.append_left hle _
      | cons y b' =>
        have hsc' : ∀ z ∈ a', isScalar z = true := fun z hz => hsc z (List.mem_cons_of_mem _ hz)
        have hsame : sameContainerType o x y = false :=
          sameContainerType_scalar o y (hsc x List.mem_cons_self)
        simp only [List.length_cons] at hn
        rw [hashList_cons, hashList_cons] at hL
        have hxA : ∀ x0 a0, x :: a' = x0 :: a0 → atC o x0 c = true → atC o x c = true := by
          intro x0 a0 e hx; cases e; exact hx
        have hyB : ∀ y0 b0, y :: b' = y0 :: b0 → atC o y0 c = true → atC o y c = true := by
          intro y0 b0 e hy; cases e; exact hy
        rw [diffRest_cons] at hm
        cases hA : atC o x c with
        | true =>
          cases hB : atC o y c with
          | true =>
            simp only [hA, hB, Bool.and_self, if_true] at hm
            rcases List.mem_append.1 hm with hm | hm
            · obtain ⟨_, hr, ha, _⟩ := accHunk_path hm
              rw [hr, ha]; exact hRA
            · have hxy : hashCode o x = hashCode o y := DPL.atC_both_hash hA hB
              have hc := atC_true hA
              rw [hc, ← hxy] at hL
              exact ih (a'.length + b'.length) (by omega) a' b' rfl (k + 1) (k + 1) y c.tail [] []
                hsc' hL.both (HashApart.nil o) (by simp) (by simp) h hm
          | false =>
            simp only [hA, hB, Bool.and_false, Bool.false_eq_true, if_false, if_true] at hm
            have hle : R.length ≤ A.length := by
              apply Nat.le_of_not_lt
              intro hlt
              obtain ⟨y0, b0, e, hy⟩ := hphB hlt
              rw [hyB y0 b0 e hy] at hB
              cases hB
            refine ih ((x :: a').length + b'.length) (by simp; omega) (x :: a') b' rfl (k + 1) s prev
              c R (A ++ [y]) hsc ?_ (hRA.append_right hle _) (fun _ => ⟨x, a', rfl, hA⟩) ?_ h hm
            · rw [hashList_cons]; exact hL.skipB (atC_false hB)
            · intro hlt
              simp only [List.length_append, List.length_cons, List.length_nil] at hlt
              omega
        | false =>
          have hleA : A.length ≤ R.length := by
            apply Nat.le_of_not_lt
            intro hlt
            obtain ⟨x0, a0, e, hx⟩ := hphA hlt
            rw [hxA x0 a0 e hx] at hA
            cases hA
          cases hB : atC o y c with
          | true =>
            simp only [hA, hB, Bool.false_and, Bool.false_eq_true, if_false, if_true] at hm
            refine ih (a'.length + (y :: b').length) (by simp; omega) a' (y :: b') rfl k s prev
              c (R ++ [x]) A hsc' ?_ (hRA.append_left hleA _) ?_ (fun _ => ⟨y, b', rfl, hB⟩) h hm
            · rw [hashList_cons]; exact hL.skipA (atC_false hA)
            · intro hlt
              simp only [List.length_append, List.length_cons, List.length_nil] at hlt
              omega
          | false =>
            simp only [hA, hB, hsame, Bool.false_and, Bool.false_eq_true, if_false] at hm
            have hleB : R.length ≤ A.length := by
              apply Nat.le_of_not_lt
              intro hlt
              obtain ⟨y0, b0, e, hy⟩ := hphB hlt
              rw [hyB y0 b0 e hy] at hB
              cases hB
            have hlen : R.length = A.length := by omega
            have hne : hashCode o x ≠ hashCode o y := by
              intro e
              rw [← e] at hL
              exact hL.heads_ne (atC_false hA)
            have hL' : LOpt c (hashList o a') (hashList o b') :=
              (hL.skipA (atC_false hA)).skipB (atC_false hB)
            refine ih (a'.length + b'.length) (by omega) a' b' rfl (k + 1) s prev c (R ++ [x])
              (A ++ [y]) hsc' hL' (hRA.snoc hlen hne) ?_ ?_ h hm
            · intro hlt
              simp only [List.length_append, List.length_cons, List.length_nil] at hlt
              omega
            · intro hlt
              simp only [List.length_append, List.length_cons, List.length_nil] at hlt
              omega

/-- C07 for two arrays of scalars: in every hunk, the j-th removed value and the j-th added value
    have different hash codes -/
theorem diff_hashApart (o : Opts) (p : Path) (xs ys : List Json)
    (scalars : ∀ x ∈ xs, isScalar x = true) :
    ∀ h ∈ diffRest o p 0 0 .void xs ys (lcsValues (hashList o xs) (hashList o ys)) [] [],
      ∀ (j : Nat) (r a : Json), h.remove[j]? = some r → h.add[j]? = some a →
        hashCode o r ≠ hashCode o a :=
  fun h hm => diffRest_hashApart o p _ xs ys rfl 0 0 .void _ [] [] scalars (LOpt.lcs _ _)
    (HashApart.nil o) (by simp) (by simp) h hm

/-- in particular no hunk removes exactly what it adds -/
theorem diff_remove_ne_add (o : Opts) (p : Path) (xs ys : List Json)
    (scalars : ∀ x ∈ xs, isScalar x = true) :
    ∀ h ∈ diffRest o p 0 0 .void xs ys (lcsValues (hashList o xs) (hashList o ys)) [] [],
      h.remove ≠ h.add := by
  intro h hm e
  have hap := diff_hashApart o p xs ys scalars h hm
  have hsh := (Min.diff_hunk_shape o p xs ys scalars h hm).2.2.2.2
  rw [e] at hap
  cases hadd : h.add with
  | nil => rw [e, hadd] at hsh; simp at hsh
  | cons w r =>
    rw [hadd] at hap
    exact hap 0 w w rfl rfl rfl

theorem diffM_hashApart {o : Opts} (ho : dispatchTag o = .list) (hm : isMerge o = false)
    {t t' : Tag} (xs ys : List Json)
    (ht : (t == .raw || t == .list) = true) (ht' : (t' == .raw || t' == .list) = true)
    (htt : t = .raw ∨ t' = .list)
    (scalars : ∀ x ∈ xs, isScalar x = true) :
    ∀ h ∈ diffM o (.arr t xs) (.arr t' ys),
      (∀ (j : Nat) (r a : Json), h.remove[j]? = some r → h.add[j]? = some a →
        hashCode o r ≠ hashCode o a) ∧ h.remove ≠ h.add := by
  rw [diffM, hm, DPL.diffNode_arr_arr ho xs ys ht ht' htt []]
  exact fun h hmem => ⟨diff_hashApart o [] xs ys scalars h hmem,
    diff_remove_ne_add o [] xs ys scalars h hmem⟩

/-- with the documents in the domain of `hashCode_eq_of_equals` (no hash reasoning left in the
    statement): the j-th removed value and the j-th added value are not `Equals` -/
theorem diffM_removed_not_equals_added (F : FloatEq0) {o : Opts} (ho : dispatchTag o = .list)
    (hp : precOf o = 0) (hm : isMerge o = false)
    {t t' : Tag} (xs ys : List Json)
    (ht : (t == .raw || t == .list) = true) (ht' : (t' == .raw || t' == .list) = true)
    (htt : t = .raw ∨ t' = .list)
    (scalars : ∀ x ∈ xs, isScalar x = true)
    (hxs : ∀ x ∈ xs, Dom x) (hys : ∀ y ∈ ys, Dom y) :
    ∀ h ∈ diffM o (.arr t xs) (.arr t' ys),
      ∀ (j : Nat) (r a : Json), h.remove[j]? = some r → h.add[j]? = some a →
        equals o r a = false := by
  intro h hmem j r a hr ha
  have hne := (diffM_hashApart ho hm xs ys ht ht' htt scalars h hmem).1 j r a hr ha
  obtain ⟨h1, h2⟩ := diffM_removed_added_mem ho hm xs ys ht ht' htt scalars h hmem
  have hrx : r ∈ xs := h1 r (List.mem_of_getElem? hr)
  have hay : a ∈ ys := h2 a (List.mem_of_getElem? ha)
  cases he : equals o r a with
  | false => rfl
  | true => exact absurd (hashCode_eq_of_equals F o ho hp r a (hxs r hrx) (hys a hay) he) hne

/-- one step of the walk keeps the invariant "`c` is a longest common subsequence of the remaining
    hash lists" (`DPL.LOpt`), and in the default step the two cursor elements have different hash
    codes.  At the start the invariant is `LOpt.lcs` (from `lcs_optimal`). -/
theorem walk_keeps_lcs {o : Opts} {x y : Json} {a' b' : List Json} {c : List UInt64}
    (hL : LOpt c (hashList o (x :: a')) (hashList o (y :: b'))) :
    (atC o x c = true → atC o y c = true → LOpt c.tail (hashList o a') (hashList o b')) ∧
    (atC o x c = true → atC o y c = false → LOpt c (hashList o (x :: a')) (hashList o b')) ∧
    (atC o x c = false → atC o y c = true → LOpt c (hashList o a') (hashList o (y :: b'))) ∧
    (atC o x c = false → atC o y c = false →
      LOpt c (hashList o a') (hashList o b') ∧ hashCode o x ≠ hashCode o y) := by
  rw [hashList_cons, hashList_cons] at hL
  refine ⟨fun hA hB => ?_, fun _ hB => ?_, fun hA _ => ?_, fun hA hB => ⟨?_, ?_⟩⟩
  · have hxy : hashCode o x = hashCode o y := DPL.atC_both_hash hA hB
    have hc := atC_true hA
    rw [hc, ← hxy] at hL
    exact hL.both
  · rw [hashList_cons]; exact hL.skipB (atC_false hB)
  · rw [hashList_cons]; exact hL.skipA (atC_false hA)
  · exact (hL.skipA (atC_false hA)).skipB (atC_false hB)
  · intro e
    rw [← e] at hL
    exact hL.heads_ne (atC_false hA)

/-! ## 2b. object members and the root: what a hunk removes is there in `a`, what it adds is there
    in `b` -/

/-- forget the Go dynamic type of the top array node (`jsonArray.diff` reports the removed array as
    a `jsonList`) -/
def asList : Json → Json
  | .arr _ xs => .arr .list xs
  | n => n

/-- `ua` / `ub`: what the two documents hold at the location the hunk is addressed to (`none`:
    nothing there).  The hunk replaces at most one value by at most one value; what it removes is
    what the first document holds (up to the dynamic type of a top array node), what it adds is what
    the second holds; it removes nothing only when the first document holds nothing (or void) there,
    adds nothing only when the second holds nothing there; and the removed value is not `Equals` to
    the added one. -/
def RealOpt (o : Opts) (ua ub : Option Json) (h : Hunk) : Prop :=
  h.remove.length ≤ 1 ∧ h.add.length ≤ 1 ∧
  (∀ v, h.remove = [v] → ∃ u, ua = some u ∧ asList v = asList u) ∧
  (∀ w, h.add = [w] → ub = some w) ∧
  (h.remove = [] → ∀ u, ua = some u → u = .void) ∧
  (h.add = [] → ∀ u, ub = some u → u = .void) ∧
  (∀ v w, h.remove = [v] → h.add = [w] → equals o v w = false)

/-- the hunk `h`, addressed to the key path `q`, describes a real difference between `a` and `b` -/
def RealAt (o : Opts) (a b : Json) (q : Path) (h : Hunk) : Prop :=
  RealOpt o (getAt a q) (getAt b q) h

theorem nodeList_cases (n : Json) : (n = .void ∧ n.nodeList = []) ∨ (n ≠ .void ∧ n.nodeList = [n]) := by
  cases n <;> simp [Json.nodeList, Json.isVoid]

theorem asList_idem (n : Json) : asList (asList n) = asList n := by
  cases n <;> rfl

theorem realOpt_both {o : Opts} {a b : Json} {h : Hunk}
    (hr : h.remove = a.nodeList ∨ h.remove = [asList a])
    (hadd : h.add = b.nodeList ∨ h.add = [b])
    (he : equals o a b = false) (he' : equals o (asList a) b = false) :
    RealOpt o (some a) (some b) h := by
  have hra : ∀ v, h.remove = [v] → v = a ∨ v = asList a := by
    intro v hv
    rcases hr with hr | hr
    · rw [hr] at hv
      rcases nodeList_cases a with ⟨_, e⟩ | ⟨_, e⟩ <;> rw [e] at hv
      · cases hv
      · cases hv; exact .inl rfl
    · rw [hr] at hv; cases hv; exact .inr rfl
  have hab : ∀ w, h.add = [w] → w = b := by
    intro w hw
    rcases hadd with hadd | hadd
    · rw [hadd] at hw
      rcases nodeList_cases b with ⟨_, e⟩ | ⟨_, e⟩ <;> rw [e] at hw
      · cases hw
      · cases hw; rfl
    · rw [hadd] at hw; cases hw; rfl
  refine ⟨?_, ?_, ?_, ?_, ?_, ?_, ?_⟩
  · rcases hr with hr | hr
    · rw [hr]; rcases nodeList_cases a with ⟨_, e⟩ | ⟨_, e⟩ <;> simp [e]
    · simp [hr]
  · rcases hadd with hadd | hadd
    · rw [hadd]; rcases nodeList_cases b with ⟨_, e⟩ | ⟨_, e⟩ <;> simp [e]
    · simp [hadd]
  · intro v hv
    refine ⟨a, rfl, ?_⟩
    rcases hra v hv with e | e
    · rw [e]
    · rw [e, asList_idem]
  · intro w hw
    rw [hab w hw]
  · intro hnil u hu
    cases hu
    rcases hr with hr | hr
    · rw [hr] at hnil
      rcases nodeList_cases a with ⟨e, _⟩ | ⟨_, e⟩
      · exact e
      · rw [e] at hnil; cases hnil
    · rw [hr] at hnil; cases hnil
  · intro hnil u hu
    cases hu
    rcases hadd with hadd | hadd
    · rw [hadd] at hnil
      rcases nodeList_cases b with ⟨e, _⟩ | ⟨_, e⟩
      · exact e
      · rw [e] at hnil; cases hnil
    · rw [hadd] at hnil; cases hnil
  · intro v w hv hw
    rw [hab w hw]
    rcases hra v hv with e | e <;> rw [e]
    · exact he
    · exact he'

theorem realOpt_removeOnly {o : Opts} {v : Json} {h : Hunk}
    (hr : h.remove = v.nodeList) (hadd : h.add = []) : RealOpt o (some v) none h := by
  refine ⟨?_, by simp [hadd], ?_, ?_, ?_, ?_, ?_⟩
  · rw [hr]; rcases nodeList_cases v with ⟨_, e⟩ | ⟨_, e⟩ <;> simp [e]
  · intro v0 hv
    rw [hr] at hv
    rcases nodeList_cases v with ⟨_, e⟩ | ⟨_, e⟩ <;> rw [e] at hv
    · cases hv
    · cases hv; exact ⟨v, rfl, rfl⟩
  · intro w hw; rw [hadd] at hw; cases hw
  · intro hnil u hu
    cases hu
    rw [hr] at hnil
    rcases nodeList_cases v with ⟨e, _⟩ | ⟨_, e⟩
    · exact e
    · rw [e] at hnil; cases hnil
  · intro _ u hu; cases hu
  · intro v0 w _ hw; rw [hadd] at hw; cases hw

theorem realOpt_addOnly {o : Opts} {w : Json} {h : Hunk}
    (hr : h.remove = []) (hadd : h.add = w.nodeList) : RealOpt o none (some w) h := by
  refine ⟨by simp [hr], ?_, ?_, ?_, ?_, ?_, ?_⟩
  · rw [hadd]; rcases nodeList_cases w with ⟨_, e⟩ | ⟨_, e⟩ <;> simp [e]
  · intro v hv; rw [hr] at hv; cases hv
  · intro w0 hw
    rw [hadd] at hw
    rcases nodeList_cases w with ⟨_, e⟩ | ⟨_, e⟩ <;> rw [e] at hw
    · cases hw
    · cases hw; rfl
  · intro _ u hu; cases hu
  · intro hnil u hu
    cases hu
    rw [hadd] at hnil
    rcases nodeList_cases w with ⟨e, _⟩ | ⟨_, e⟩
    · exact e
    · rw [e] at hnil; cases hnil
  · intro v w0 hv _; rw [hr] at hv; cases hv

theorem path_ne_append_cons {p : Path} {e : PathElem} {r : Path} (h : p = p ++ e :: r) : False := by
  have := congrArg List.length h
  simp at this

theorem prefix_snoc_self_absurd {p : Path} {e : PathElem} (h : (p ++ [e]) <+: p) : False := by
  have := h.length_le
  simp only [List.length_append, List.length_cons, List.length_nil] at this
  omega

theorem root_scalar_real {o : Opts} (hp : precOf o = 0) {a b : Json} {p : Path} {h : Hunk}
    (h1 : ∀ t xs, a ≠ .arr t xs) (h2 : ∀ kvs, a ≠ .obj kvs)
    (hm : h ∈ diffNode o false a b p) : RealOpt o (some a) (some b) h := by
  rw [DPL.diffNode_scalar o a b h1 h2] at hm
  unfold diffCommon at hm
  split at hm
  · cases hm
  · next hne =>
    simp only [Bool.false_eq_true, if_false, List.mem_singleton] at hm
    subst hm
    have he := equals_scalar_noopts hp a b h1 h2
    have hs : asList a = a := by
      cases a with
      | arr t xs => exact absurd rfl (h1 t xs)
      | _ => rfl
    refine realOpt_both (.inl rfl) (.inl rfl) ?_ ?_
    · rw [← he]; simpa using hne
    · rw [hs, ← he]; simpa using hne

/-- C07 for object members (at any depth below keys) and the root, list mode, strict strategy:
    a hunk of `diffNode o false a b p` whose path is `p ++ q` with `q` made of keys only describes a
    real difference between what `a` and `b` hold at `q`.  Arrays are allowed anywhere as values. -/
theorem keyed_hunk_real {o : Opts} (ho : dispatchTag o = .list) (hp : precOf o = 0) :
    ∀ (q : Path), keysOnly q = true → ∀ (a b : Json), a.rawDoc = true → b.listDoc = true →
      a.wf = true → b.wf = true →
      ∀ p, ∀ h ∈ diffNode o false a b p, h.path = p ++ q → RealAt o a b q h
  | [], _, a, b, hr, hlb, _, _, p, h, hm, hpath => by
    have hla := rawDoc_listDoc a hr
    simp only [List.append_nil] at hpath
    show RealOpt o (getAt a []) (getAt b []) h
    simp only [getAt]
    cases a with
    | obj kvs =>
      cases b with
      | obj kvs' =>
        exfalso
        simp only [Json.listDoc] at hla hlb
        rw [DPL.diffNode_obj_obj] at hm
        rcases List.mem_append.1 hm with hm | hm
        · obtain ⟨k0, v0, _, hpre0, _⟩ := mem_diffKvs ho hlb hla hm
          rw [hpath] at hpre0
          exact prefix_snoc_self_absurd hpre0
        · obtain ⟨kv, _, rfl⟩ := List.mem_map.1 hm
          exact path_ne_append_cons hpath.symm
      | _ =>
        rw [DPL.diffNode_obj_other o kvs _ (by intro kvs' e; cases e)] at hm
        simp only [List.mem_singleton] at hm
        subst hm
        exact realOpt_both (.inr rfl) (.inr rfl) (by simp [equals]) (by simp [asList, equals])
    | arr t xs =>
      simp only [Json.rawDoc, Bool.and_eq_true, beq_iff_eq] at hr
      obtain ⟨rfl, _⟩ := hr
      have hxs : listDocList xs = true := by
        simp only [Json.listDoc, Bool.and_eq_true] at hla; exact hla.2
      cases b with
      | arr t' ys =>
        exfalso
        simp only [Json.listDoc, Bool.and_eq_true] at hlb
        rw [DPL.diffNode_arr_arr ho xs ys rfl hlb.1 (.inl rfl)] at hm
        obtain ⟨i, hi⟩ := (diff_paths_extend_all o ho).2.2 _ _ _ _ _ _ _ _ hxs hlb.2 p h hm
        rw [hpath] at hi
        exact prefix_snoc_self_absurd hi
      | _ =>
        rw [DPL.diffNode_arr_other ho xs _ rfl (.inl (by intro t' ys e; cases e))] at hm
        simp only [List.mem_singleton] at hm
        subst hm
        exact realOpt_both (.inr rfl) (.inl rfl)
          (equals_kind_ne o _ _ (by simp [Json.kind]))
          (equals_kind_ne o _ _ (by simp [Json.kind, asList]))
    | _ =>
      exact root_scalar_real hp (by intro t xs e; cases e) (by intro kvs e; cases e) hm
  | .key k :: q', hq, a, b, hr, hlb, hwa, hwb, p, h, hm, hpath => by
    have hla := rawDoc_listDoc a hr
    simp only [keysOnly] at hq
    have hpre1 : (p ++ [PathElem.key k]) <+: h.path := by
      rw [hpath]; exact ⟨q', by simp⟩
    cases a with
    | obj kvs =>
      cases b with
      | obj kvs' =>
        simp only [Json.listDoc] at hla hlb
        simp only [Json.rawDoc] at hr
        simp only [Json.wf, Bool.and_eq_true] at hwa hwb
        show RealOpt o (getAt (.obj kvs) (.key k :: q')) (getAt (.obj kvs') (.key k :: q')) h
        simp only [getAt]
        rw [DPL.diffNode_obj_obj] at hm
        rcases List.mem_append.1 hm with hm | hm
        · obtain ⟨k0, v0, hmem, hpre0, hcase⟩ := mem_diffKvs ho hlb hla hm
          have hk : k0 = k := key_prefix_unique hpre0 hpre1
          subst hk
          have hv0 : alookup k0 kvs = some v0 := alookup_of_mem hwa.1 hmem
          rcases hcase with ⟨w, hw, hmem'⟩ | ⟨hn, he⟩
          · rw [hv0, hw]
            simp only [Option.bind_some]
            exact keyed_hunk_real ho hp q' hq v0 w (alookup_rawDoc hv0 hr) (alookup_listDoc hw hlb)
              (alookup_wf hv0 hwa.2) (alookup_wf hw hwb.2) _ h hmem' (by simpa using hpath)
          · rw [hv0, hn]
            subst he
            have hq' : q' = [] := by
              have := congrArg List.length hpath
              simp only [List.length_append, List.length_cons, List.length_nil] at this
              exact List.eq_nil_of_length_eq_zero (by omega)
            subst hq'
            simp only [Option.bind_some, Option.bind_none, getAt]
            exact realOpt_removeOnly rfl rfl
        · obtain ⟨kv, hkv, rfl⟩ := List.mem_map.1 hm
          simp only [List.mem_filter] at hkv
          have hk : kv.1 = k := key_prefix_unique (List.prefix_refl _) hpre1
          have hq' : q' = [] := by
            have := congrArg List.length hpath
            simp only [List.length_append, List.length_cons, List.length_nil] at this
            exact List.eq_nil_of_length_eq_zero (by omega)
          subst hq'
          have hnone : alookup k kvs = none := by
            have := hkv.2
            rw [hk] at this
            simpa using this
          have hsome : alookup k kvs' = some kv.2 := by
            rw [← hk]; exact alookup_of_mem hwb.1 hkv.1
          rw [hnone, hsome]
          simp only [Option.bind_some, Option.bind_none, getAt]
          exact realOpt_addOnly rfl rfl
      | _ =>
        exfalso
        rw [DPL.diffNode_obj_other o kvs _ (by intro kvs' e; cases e)] at hm
        simp only [List.mem_singleton] at hm
        subst hm
        exact path_ne_append_cons hpath
    | arr t xs =>
      exfalso
      simp only [Json.rawDoc, Bool.and_eq_true, beq_iff_eq] at hr
      obtain ⟨rfl, _⟩ := hr
      have hxs : listDocList xs = true := by
        simp only [Json.listDoc, Bool.and_eq_true] at hla; exact hla.2
      cases b with
      | arr t' ys =>
        simp only [Json.listDoc, Bool.and_eq_true] at hlb
        rw [DPL.diffNode_arr_arr ho xs ys rfl hlb.1 (.inl rfl)] at hm
        obtain ⟨i, hi⟩ := (diff_paths_extend_all o ho).2.2 _ _ _ _ _ _ _ _ hxs hlb.2 p h hm
        exact key_idx_prefix_absurd hpre1 hi
      | _ =>
        rw [DPL.diffNode_arr_other ho xs _ rfl (.inl (by intro t' ys e; cases e))] at hm
        simp only [List.mem_singleton] at hm
        subst hm
        exact path_ne_append_cons hpath
    | _ =>
      exfalso
      rw [DPL.diffNode_scalar o _ b (by intro t xs e; cases e) (by intro kvs e; cases e)] at hm
      exact path_ne_append_cons ((diffCommon_path hm).symm.trans hpath)
  | .idx _ :: _, hq, _, _, _, _, _, _, _, _, _, _ => by simp [keysOnly] at hq
  | .set :: _, hq, _, _, _, _, _, _, _, _, _, _ => by simp [keysOnly] at hq
  | .mset :: _, hq, _, _, _, _, _, _, _, _, _, _ => by simp [keysOnly] at hq
  | .setKeys _ :: _, hq, _, _, _, _, _, _, _, _, _, _ => by simp [keysOnly] at hq
  | .msetKeys _ :: _, hq, _, _, _, _, _, _, _, _, _, _ => by simp [keysOnly] at hq

/-- C07 for `a.Diff(b)`: every hunk addressed to a key path (the root included) removes what `a`
    holds there and adds what `b` holds there, and these two are not `Equals` -/
theorem diffM_keyed_hunk_real {o : Opts} (ho : dispatchTag o = .list) (hp : precOf o = 0)
    (hm : isMerge o = false) {a b : Json} (hr : a.rawDoc = true) (hlb : b.listDoc = true)
    (hwa : a.wf = true) (hwb : b.wf = true) :
    ∀ h ∈ diffM o a b, keysOnly h.path = true → RealAt o a b h.path h := by
  intro h hmem hk
  rw [diffM, hm] at hmem
  exact keyed_hunk_real ho hp h.path hk a b hr hlb hwa hwb [] h hmem (by simp)

/-- the plain reading of `diffM_keyed_hunk_real`, for documents made of objects, scalars and (opaque)
    arrays: `remove = [v]` only if `a` holds `v` there (an array is reported as a `jsonList`),
    `add = [w]` only if `b` holds `w` there, and `v` is not `Equals` to `w` -/
theorem diffM_keyed_hunk_values {o : Opts} (ho : dispatchTag o = .list) (hp : precOf o = 0)
    (hm : isMerge o = false) {a b : Json} (hr : a.rawDoc = true) (hlb : b.listDoc = true)
    (hwa : a.wf = true) (hwb : b.wf = true) :
    ∀ h ∈ diffM o a b, keysOnly h.path = true →
      (∀ v, h.remove = [v] → ∃ u, getAt a h.path = some u ∧ asList v = asList u) ∧
      (∀ w, h.add = [w] → getAt b h.path = some w) ∧
      (∀ v w, h.remove = [v] → h.add = [w] → equals o v w = false) := by
  intro h hmem hk
  obtain ⟨_, _, h3, h4, _, _, h7⟩ := diffM_keyed_hunk_real ho hp hm hr hlb hwa hwb h hmem hk
  exact ⟨h3, h4, h7⟩

/-! ## 4. no redundant hunk (arrays of scalars, length argument) -/

theorem prefixEq_length : ∀ (rs xs : List Json), prefixEq rs xs = true → rs.length ≤ xs.length
  | [], _, _ => by simp
  | _ :: _, [], h => by simp [prefixEq] at h
  | r :: rs, x :: xs, h => by
    simp only [prefixEq, Bool.and_eq_true] at h
    have := prefixEq_length rs xs h.2
    simp only [List.length_cons]
    omega

/-- a list splice changes the length by `|add| − |remove|` -/
theorem splice_length {l : List Json} {i : Int} {h : Hunk} {r : List Json}
    (hs : splice l i h = some r) : r.length + h.remove.length = l.length + h.add.length := by
  unfold splice at hs
  split at hs
  · split at hs
    · next he =>
      cases hs
      simp only [List.isEmpty_iff] at he
      simp [he]
    · cases hs
  · split at hs
    · cases hs
    · next hb =>
      simp only [Bool.or_eq_true, decide_eq_true_eq, not_or, Int.not_lt] at hb
      simp only [] at hs
      split at hs
      · next hc =>
        cases hs
        simp only [Bool.and_eq_true] at hc
        have hp := prefixEq_length _ _ hc.1.1
        simp only [List.length_drop] at hp
        simp only [List.length_append, List.length_take, List.length_drop]
        omega
      · cases hs

theorem applyStrict_root_idx (t : Tag) (xs : List Json) (i : Int) (h : Hunk) :
    applyStrict (.arr t xs) [.idx i] h = (splice xs i h).map (Json.arr .raw ·) := by
  simp only [applyStrict]

/-- applying hunks addressed to root indices changes the length by `Σ (|add| − |remove|)` -/
theorem applyStrictAll_length : ∀ (d : Diff) (t : Tag) (xs : List Json) (r : Json),
    (∀ h ∈ d, ∃ i : Nat, h.path = [PathElem.idx i]) →
    applyStrictAll (.arr t xs) d = some r →
    ∃ t' zs, r = .arr t' zs ∧ zs.length + Min.removes d = xs.length + Min.adds d
  | [], t, xs, r, _, hr => by
    simp only [applyStrictAll, Option.some.injEq] at hr
    exact ⟨t, xs, hr.symm, by simp⟩
  | h :: d, t, xs, r, hp, hr => by
    obtain ⟨i, hi⟩ := hp h List.mem_cons_self
    simp only [applyStrictAll, hi, applyStrict_root_idx] at hr
    cases hs : splice xs (i : Int) h with
    | none => simp [hs] at hr
    | some zs1 =>
      simp only [hs, Option.map_some, Option.bind_some] at hr
      obtain ⟨t', zs, e, hlen⟩ := applyStrictAll_length d .raw zs1 r
        (fun h' hm => hp h' (List.mem_cons_of_mem _ hm)) hr
      have h1 := splice_length hs
      refine ⟨t', zs, e, ?_⟩
      simp only [Min.removes, Min.adds, List.map_cons, List.sum_cons] at hlen ⊢
      omega

theorem equivList_length (o : Opts) : ∀ (zs ys : List Json), equivList o zs ys = true →
    zs.length = ys.length
  | [], [], _ => rfl
  | [], _ :: _, h => by simp [equivList] at h
  | _ :: _, [], h => by simp [equivList] at h
  | z :: zs, y :: ys, h => by
    simp only [equivList, Bool.and_eq_true] at h
    simp [equivList_length o zs ys h.2]

/-- C07 "no hunk is redundant", two arrays of scalars, PARTIAL (length argument only): leave out any
    one hunk whose `remove` and `add` have different lengths; if the remaining hunks apply at all,
    the result is an array whose length differs from that of the second array, so it is not the
    second array (not even up to `specEq`).  Hunks with `|remove| = |add|` are NOT covered. -/
theorem no_redundant_hunk_length_partial {o : Opts} (ho : dispatchTag o = .list)
    (hm : isMerge o = false) {t t' : Tag} (xs ys : List Json)
    (ht : (t == .raw || t == .list) = true) (ht' : (t' == .raw || t' == .list) = true)
    (htt : t = .raw ∨ t' = .list)
    (scalars : ∀ x ∈ xs, isScalar x = true)
    (d1 d2 : Diff) (h : Hunk) (hd : diffM o (.arr t xs) (.arr t' ys) = d1 ++ h :: d2)
    (hne : h.remove.length ≠ h.add.length)
    (r : Json) (hr : applyStrictAll (.arr t xs) (d1 ++ d2) = some r) :
    (∃ t'' zs, r = .arr t'' zs ∧ zs.length ≠ ys.length) ∧
    (∀ t'', r ≠ .arr t'' ys) ∧ (∀ t'', specEq r (.arr t'' ys) = false) := by
  have hcount := Min.diffM_removes_adds_count ho hm xs ys ht ht' htt scalars
  have hshape := Min.diffM_hunk_shape ho hm xs ys ht ht' htt scalars
  have hle1 := (lcsValues_sublist_left (hashList o xs) (hashList o ys)).length_le
  have hle2 := (lcsValues_sublist_right (hashList o xs) (hashList o ys)).length_le
  rw [Min.length_hashList] at hle1 hle2
  simp only [hd] at hcount hshape
  have hpaths : ∀ h' ∈ d1 ++ d2, ∃ i : Nat, h'.path = [PathElem.idx i] := by
    intro h' hm'
    refine (hshape h' ?_).2.2.1
    rcases List.mem_append.1 hm' with hm' | hm'
    · exact List.mem_append_left _ hm'
    · exact List.mem_append_right _ (List.mem_cons_of_mem _ hm')
  obtain ⟨t'', zs, e, hlen⟩ := applyStrictAll_length (d1 ++ d2) t xs r hpaths hr
  have hzs : zs.length ≠ ys.length := by
    simp only [Min.removes, Min.adds, List.map_append, List.map_cons, List.sum_append,
      List.sum_cons] at hlen hcount
    omega
  refine ⟨⟨t'', zs, e, hzs⟩, ?_, ?_⟩
  · intro t3 e3
    rw [e] at e3
    cases e3
    exact hzs rfl
  · intro t3
    rw [e]
    cases hq : specEq (Json.arr t'' zs) (Json.arr t3 ys) with
    | false => rfl
    | true =>
      simp only [specEq, equivB, dispatchTag] at hq
      exact absurd (equivList_length [] zs ys hq) hzs

/-! ## 4b. no redundant hunk, arrays of scalars, in full -/

/-- hunks addressed to increasing indices below `p`: each one at or after `n`, the next one beyond
    the values this one adds and at least one kept element -/
def GapFrom (p : Path) : Nat → Diff → Prop
  | _, [] => True
  | n, h :: d => ∃ i : Nat, h.path = p ++ [PathElem.idx i] ∧ n ≤ i ∧ GapFrom p (i + h.add.length + 1) d

theorem GapFrom.mono {p : Path} {n n' : Nat} {d : Diff} (hle : n ≤ n') (h : GapFrom p n' d) :
    GapFrom p n d := by
  cases d with
  | nil => trivial
  | cons h0 d =>
    obtain ⟨i, hp, hn, hr⟩ := h
    exact ⟨i, hp, by omega, hr⟩

theorem GapFrom.accHunk_append {p : Path} {s : Nat} {prev : Json} {R A : List Json} {after : Json}
    {d : Diff} (h : GapFrom p (s + A.length + 1) d) :
    GapFrom p s (accHunk p s prev R A after ++ d) := by
  unfold accHunk
  split
  · simp only [List.nil_append]
    exact GapFrom.mono (by omega) h
  · exact ⟨s, rfl, Nat.le_refl _, h⟩

theorem GapFrom.accHunk {p : Path} {s : Nat} {prev : Json} {R A : List Json} {after : Json} :
    GapFrom p s (accHunk p s prev R A after) := by
  have := GapFrom.accHunk_append (p := p) (s := s) (prev := prev) (R := R) (A := A) (after := after)
    (d := []) trivial
  simpa using this

theorem diffRest_gap (o : Opts) (p : Path) :
    ∀ (n : Nat) (a b : List Json), a.length + b.length = n →
      ∀ (k s : Nat) (prev : Json) (c : List UInt64) (R A : List Json),
        (∀ x ∈ a, isScalar x = true) → k = s + A.length →
        GapFrom p s (diffRest o p k s prev a b c R A) := by
  intro n
  induction n using Nat.strongRecOn with
  | _ n ih =>
    intro a b hn k s prev c R A hsc hk
    cases a with
    | nil =>
      rw [diffRest_nilA]
      exact GapFrom.accHunk
    | cons x a' =>
      cases b with
      | nil =>
        rw [diffRest_nilB _ _ _ _ _ _ _ _ _ (by simp)]
        exact GapFrom.accHunk
      | cons y b' =>
        have hsc' : ∀ z ∈ a', isScalar z = true := fun z hz => hsc z (List.mem_cons_of_mem _ hz)
        have hsame : sameContainerType o x y = false :=
          sameContainerType_scalar o y (hsc x List.mem_cons_self)
        simp only [List.length_cons] at hn
        rw [diffRest_cons]
        simp only [hsame, Bool.false_eq_true, if_false]
        split
        · apply GapFrom.accHunk_append
          have := ih (a'.length + b'.length) (by omega) a' b' rfl (k + 1) (k + 1) y c.tail [] []
            hsc' (by simp)
          rw [hk] at this ⊢
          exact this
        · split
          · exact ih ((x :: a').length + b'.length) (by simp; omega) (x :: a') b' rfl (k + 1) s prev c
              R (A ++ [y]) hsc (by simp; omega)
          · split
            · exact ih (a'.length + (y :: b').length) (by simp; omega) a' (y :: b') rfl k s prev c
                (R ++ [x]) A hsc' hk
            · exact ih (a'.length + b'.length) (by omega) a' b' rfl (k + 1) s prev c (R ++ [x])
                (A ++ [y]) hsc' (by simp; omega)

theorem GapFrom.split {p : Path} : ∀ {d1 : Diff} {n : Nat} {h : Hunk} {d2 : Diff},
    GapFrom p n (d1 ++ h :: d2) →
    ∃ i : Nat, h.path = p ++ [PathElem.idx i] ∧ GapFrom p (i + h.add.length + 1) d2
  | [], _, _, _, hg => by
    obtain ⟨i, hp, _, hr⟩ := hg
    exact ⟨i, hp, hr⟩
  | _ :: d1, _, _, _, hg => by
    obtain ⟨_, _, _, hr⟩ := hg
    exact GapFrom.split (d1 := d1) hr

theorem GapFrom.all_ge {p : Path} : ∀ {d : Diff} {n : Nat}, GapFrom p n d →
    ∀ h' ∈ d, ∃ i' : Nat, h'.path = p ++ [PathElem.idx i'] ∧ n ≤ i'
  | [], _, _, h', hm => by cases hm
  | h0 :: d, n, hg, h', hm => by
    obtain ⟨i, hp, hn, hr⟩ := hg
    rcases List.mem_cons.1 hm with e | hm
    · subst e; exact ⟨i, hp, hn⟩
    · obtain ⟨i', hp', hn'⟩ := GapFrom.all_ge hr h' hm
      exact ⟨i', hp', by omega⟩

/-- anatomy of a successful splice at a natural index -/
theorem splice_nat {l : List Json} {i : Nat} {h : Hunk} {l' : List Json}
    (hs : splice l (i : Int) h = some l') :
    i ≤ l.length ∧ prefixEq h.remove (l.drop i) = true ∧
      l' = l.take i ++ h.add ++ (l.drop i).drop h.remove.length := by
  unfold splice at hs
  have h1 : ((i : Int) == -1) = false := by
    simp only [beq_eq_false_iff_ne, ne_eq]; omega
  simp only [h1, Bool.false_eq_true, if_false, Int.toNat_natCast] at hs
  split at hs
  · cases hs
  · next hb =>
    simp only [Bool.or_eq_true, decide_eq_true_eq, not_or, Int.not_lt] at hb
    split at hs
    · next hc =>
      simp only [Bool.and_eq_true] at hc
      cases hs
      exact ⟨by omega, hc.1.1, rfl⟩
    · cases hs

theorem splice_take {l : List Json} {i : Nat} {h : Hunk} {l' : List Json}
    (hs : splice l (i : Int) h = some l') {n : Nat} (hn : n ≤ i) : l'.take n = l.take n := by
  obtain ⟨hi, _, e⟩ := splice_nat hs
  rw [e, List.append_assoc, List.take_append_of_le_length (by simp; omega), List.take_take]
  congr 1
  omega

theorem splice_mem {l : List Json} {i : Nat} {h : Hunk} {l' : List Json}
    (hs : splice l (i : Int) h = some l') : ∀ z ∈ l', z ∈ l ∨ z ∈ h.add := by
  obtain ⟨_, _, e⟩ := splice_nat hs
  intro z hz
  rw [e] at hz
  rcases List.mem_append.1 hz with hz | hz
  · rcases List.mem_append.1 hz with hz | hz
    · exact .inl (List.mem_of_mem_take hz)
    · exact .inr hz
  · exact .inl (List.mem_of_mem_drop (List.mem_of_mem_drop hz))

/-- applying hunks addressed to root indices `≥ n`: the result is an array, its first `n` elements are
    untouched, and every element comes from the array or from what some hunk adds -/
theorem applyStrictAll_root (n : Nat) : ∀ (d : Diff) (t : Tag) (l : List Json) (r : Json),
    (∀ h' ∈ d, ∃ i' : Nat, h'.path = [PathElem.idx i'] ∧ n ≤ i') →
    applyStrictAll (.arr t l) d = some r →
    ∃ t' l', r = .arr t' l' ∧ l'.take n = l.take n ∧
      ∀ z ∈ l', z ∈ l ∨ ∃ h' ∈ d, z ∈ h'.add
  | [], t, l, r, _, hr => by
    simp only [applyStrictAll, Option.some.injEq] at hr
    exact ⟨t, l, hr.symm, rfl, fun z hz => .inl hz⟩
  | h :: d, t, l, r, hp, hr => by
    obtain ⟨i, hi, hni⟩ := hp h List.mem_cons_self
    simp only [applyStrictAll, hi, applyStrict_root_idx] at hr
    cases hs : splice l (i : Int) h with
    | none => simp [hs] at hr
    | some l1 =>
      simp only [hs, Option.map_some, Option.bind_some] at hr
      obtain ⟨t', l', e, htake, hmem⟩ := applyStrictAll_root n d .raw l1 r
        (fun h' hm => hp h' (List.mem_cons_of_mem _ hm)) hr
      refine ⟨t', l', e, htake.trans (splice_take hs hni), fun z hz => ?_⟩
      rcases hmem z hz with hz | ⟨h', hh', hz⟩
      · rcases splice_mem hs z hz with hz | hz
        · exact .inl hz
        · exact .inr ⟨h, List.mem_cons_self, hz⟩
      · exact .inr ⟨h', List.mem_cons_of_mem _ hh', hz⟩

theorem equivList_getElem (o : Opts) : ∀ (l l' : List Json) (i : Nat) (x y : Json),
    equivList o l l' = true → l[i]? = some x → l'[i]? = some y → equivB o x y = true
  | [], _, _, _, _, _, hx, _ => by simp at hx
  | _ :: _, [], _, _, _, _, _, hy => by simp at hy
  | z :: l, z' :: l', 0, x, y, h, hx, hy => by
    simp only [equivList, Bool.and_eq_true] at h
    simp only [List.getElem?_cons_zero, Option.some.injEq] at hx hy
    subst hx; subst hy
    exact h.1
  | z :: l, z' :: l', i + 1, x, y, h, hx, hy => by
    simp only [equivList, Bool.and_eq_true] at h
    simp only [List.getElem?_cons_succ] at hx hy
    exact equivList_getElem o l l' i x y h.2 hx hy

/-- structurally equal documents of the domain have the same hash code -/
theorem hash_eq_of_specEq (F : FloatEq0) {o : Opts} (ho : dispatchTag o = .list) (hp : precOf o = 0)
    {x y : Json} (hx : Dom x) (hy : Dom y) (h : specEq x y = true) : hashCode o x = hashCode o y := by
  have h1 : equivB o x y = true := equivB_of_specEq ho hp h
  rw [← equals_eq_equivB_list o ho x y hx.listDoc hy.listDoc] at h1
  exact hashCode_eq_of_equals F o ho hp x y hx hy h1

/-- C07 "no hunk is redundant", two arrays of scalars of the domain, no hash collision between an
    element of the first and an element of the second array: leave out ANY one hunk of `a.Diff(b)`;
    if the remaining hunks apply at all, the result is not (structurally equal to) `b`. -/
theorem no_redundant_hunk_scalar_arrays (L : FloatLaws) (F : FloatEq0) {o : Opts}
    (ho : dispatchTag o = .list) (hp : precOf o = 0) (hm : isMerge o = false) {t t' : Tag}
    (xs ys : List Json) (hga : Good (.arr t xs)) (hgb : Good (.arr t' ys))
    (hxs : ∀ x ∈ xs, Dom x) (hys : ∀ y ∈ ys, Dom y) (htt : t = .raw ∨ t' = .list)
    (scalars : ∀ x ∈ xs, isScalar x = true)
    (HashOK : ∀ x ∈ xs, ∀ y ∈ ys, hashCode o x = hashCode o y →
      specEq x y = true ∧ specEq y x = true)
    (d1 d2 : Diff) (h : Hunk) (hd : diffM o (.arr t xs) (.arr t' ys) = d1 ++ h :: d2)
    (r : Json) (hr : applyStrictAll (.arr t xs) (d1 ++ d2) = some r) :
    ∀ t'', specEq r (.arr t'' ys) = false := by
  have ht := (good_arr.1 hga).1
  have ht' := (good_arr.1 hgb).1
  by_cases hlen : h.remove.length = h.add.length
  · intro t3
    -- facts about the dropped hunk
    have hmemd : h ∈ diffM o (.arr t xs) (.arr t' ys) := by rw [hd]; simp
    have hshape := Min.diffM_hunk_shape ho hm xs ys ht ht' htt scalars
    have hloc := diffM_located ho hm xs ys ht ht' htt scalars h hmemd
    have hap := (diffM_hashApart ho hm xs ys ht ht' htt scalars h hmemd).1
    have hmemRA := diffM_removed_added_mem ho hm xs ys ht ht' htt scalars
    have hgap : GapFrom [] 0 (diffM o (.arr t xs) (.arr t' ys)) := by
      rw [diffM, hm, DPL.diffNode_arr_arr ho xs ys ht ht' htt []]
      exact diffRest_gap o [] _ xs ys rfl 0 0 .void _ [] [] scalars (by simp)
    rw [hd] at hgap hshape hmemRA
    obtain ⟨i, hpath, hgap2⟩ := GapFrom.split hgap
    simp only [List.nil_append] at hpath
    -- the hunk is not empty, so both sides have a first element
    have hne := (hshape h (by simp)).2.2.2.2
    obtain ⟨R0, R', hR⟩ : ∃ R0 R', h.remove = R0 :: R' := by
      cases hrm : h.remove with
      | nil =>
        rw [hrm] at hlen hne
        have : h.add = [] := List.eq_nil_of_length_eq_zero (by simpa using hlen.symm)
        rw [this] at hne
        simp at hne
      | cons R0 R' => exact ⟨R0, R', rfl⟩
    obtain ⟨A0, A', hA⟩ : ∃ A0 A', h.add = A0 :: A' := by
      cases hadd : h.add with
      | nil => rw [hR, hadd] at hlen; simp at hlen
      | cons A0 A' => exact ⟨A0, A', rfl⟩
    have hR0 : R0 ∈ xs := (hmemRA h (by simp)).1 R0 (by rw [hR]; simp)
    have hA0 : A0 ∈ ys := (hmemRA h (by simp)).2 A0 (by rw [hA]; simp)
    have hneq : hashCode o R0 ≠ hashCode o A0 := hap 0 R0 A0 (by rw [hR]; rfl) (by rw [hA]; rfl)
    -- `ys` holds `A0` at index `i`
    have hysi : ys[i]? = some A0 := by
      obtain ⟨i', preA, postA, preB, postB, hp', _, hY, hlenB, _, _⟩ := hloc
      rw [hpath] at hp'
      simp only [List.nil_append, List.cons.injEq, PathElem.idx.injEq, Int.natCast_inj,
        and_true] at hp'
      subst hp'
      rw [hY, hA, ← hlenB]
      simp
    -- the complete diff applies
    obtain ⟨t4, zs, hfull, _⟩ := diffM_list_correct_scalar_arrays L o ho hm t t' xs ys hga hgb scalars
      HashOK
    rw [hd, applyStrictAll_append] at hfull
    rw [applyStrictAll_append] at hr
    have hpaths1 : ∀ h' ∈ d1, ∃ i' : Nat, h'.path = [PathElem.idx i'] ∧ 0 ≤ i' := by
      intro h' hm'
      obtain ⟨i', hi'⟩ := (hshape h' (List.mem_append_left _ hm')).2.2.1
      exact ⟨i', hi', Nat.zero_le _⟩
    cases h1 : applyStrictAll (.arr t xs) d1 with
    | none => simp [h1] at hr
    | some z1 =>
      simp only [h1, Option.bind_some] at hfull hr
      obtain ⟨t1, l1, e1, _, hmem1⟩ := applyStrictAll_root 0 d1 t xs z1 hpaths1 h1
      subst e1
      -- the dropped hunk applies to the intermediate array
      simp only [applyStrictAll, hpath, applyStrict_root_idx] at hfull
      cases hs : splice l1 (i : Int) h with
      | none => simp [hs] at hfull
      | some l2 =>
        obtain ⟨hil, hpre, _⟩ := splice_nat hs
        -- so the intermediate array holds, at `i`, a value structurally equal to `R0`
        obtain ⟨x, hx1, hxR⟩ : ∃ x, l1[i]? = some x ∧ specEq x R0 = true := by
          rw [hR] at hpre
          cases hdr : l1.drop i with
          | nil => rw [hdr] at hpre; simp [prefixEq] at hpre
          | cons x rest =>
            rw [hdr] at hpre
            simp only [prefixEq, Bool.and_eq_true] at hpre
            refine ⟨x, ?_, hpre.1⟩
            have := congrArg (fun l => l[0]?) hdr
            simpa using this
        -- the remaining hunks do not touch index `i`
        have hpaths2 : ∀ h' ∈ d2, ∃ i' : Nat, h'.path = [PathElem.idx i'] ∧ i + 1 ≤ i' := by
          intro h' hm'
          obtain ⟨i', hp', hle⟩ := GapFrom.all_ge hgap2 h' hm'
          exact ⟨i', by simpa using hp', by omega⟩
        obtain ⟨tr, lr, er, htake, _⟩ := applyStrictAll_root (i + 1) d2 t1 l1 r hpaths2 hr
        have hlri : lr[i]? = some x := by
          have := congrArg (fun l => l[i]?) htake
          simpa [List.getElem?_take, hx1] using this
        -- hence a result equal to `ys` would make `x` equal to `A0` as well
        cases hq : specEq r (Json.arr t3 ys) with
        | false => rfl
        | true =>
          exfalso
          rw [er] at hq
          simp only [specEq, equivB, dispatchTag] at hq
          have hxA : specEq x A0 = true := equivList_getElem [] lr ys i x A0 hq hlri hysi
          have hxdom : Dom x := by
            rcases hmem1 x (List.mem_of_getElem? hx1) with hx | ⟨h', hh', hx⟩
            · exact hxs x hx
            · exact hys x ((hmemRA h' (List.mem_append_left _ hh')).2 x hx)
          have e1 := hash_eq_of_specEq F ho hp hxdom (hxs R0 hR0) hxR
          have e2 := hash_eq_of_specEq F ho hp hxdom (hys A0 hA0) hxA
          exact hneq (e1.symm.trans e2)
  · exact (no_redundant_hunk_length_partial ho hm xs ys ht ht' htt scalars d1 d2 h hd hlen r hr).2.2

/-! ## 5. localisation below keys: the hunks below a key path are the hunks of the sub-diff there;
    arrays of scalars held by object members -/

/-- the hunks of a diff whose path starts with the key path `q` are hunks of the diff of what the two
    documents hold at `q` -/
theorem hunk_below_keys {o : Opts} (ho : dispatchTag o = .list) :
    ∀ (q : Path), keysOnly q = true → ∀ (a b : Json), a.listDoc = true → b.listDoc = true →
      a.wf = true → ∀ u u', getAt a q = some u → getAt b q = some u' →
      ∀ p, ∀ h ∈ diffNode o false a b p, (p ++ q) <+: h.path → h ∈ diffNode o false u u' (p ++ q)
  | [], _, a, b, _, _, _, u, u', hu, hu', p, h, hm, _ => by
    simp only [getAt, Option.some.injEq] at hu hu'
    subst hu; subst hu'
    simpa using hm
  | .key k :: q', hq, a, b, hla, hlb, hwa, u, u', hu, hu', p, h, hm, hpre => by
    simp only [keysOnly] at hq
    have hpre1 : (p ++ [PathElem.key k]) <+: h.path := by
      refine List.IsPrefix.trans ?_ hpre
      exact ⟨q', by simp⟩
    cases a with
    | obj kvs =>
      cases b with
      | obj kvs' =>
        simp only [Json.listDoc] at hla hlb
        simp only [Json.wf, Bool.and_eq_true] at hwa
        simp only [getAt] at hu hu'
        cases hw : alookup k kvs with
        | none => simp [hw] at hu
        | some w =>
          cases hw' : alookup k kvs' with
          | none => simp [hw'] at hu'
          | some w' =>
            simp only [hw, hw', Option.bind_some] at hu hu'
            rw [DPL.diffNode_obj_obj] at hm
            rcases List.mem_append.1 hm with hm | hm
            · obtain ⟨k0, v0, hmem, hpre0, hcase⟩ := mem_diffKvs ho hlb hla hm
              have hk : k0 = k := key_prefix_unique hpre0 hpre1
              subst hk
              have hv0 : alookup k0 kvs = some v0 := alookup_of_mem hwa.1 hmem
              rw [hw] at hv0
              cases hv0
              rcases hcase with ⟨w0, hw0, hmem'⟩ | ⟨hn, _⟩
              · rw [hw'] at hw0
                cases hw0
                have := hunk_below_keys ho q' hq w w' (alookup_listDoc hw hla)
                  (alookup_listDoc hw' hlb) (alookup_wf hw hwa.2) u u' hu hu' _ h hmem'
                  (by simpa using hpre)
                simpa using this
              · rw [hw'] at hn; cases hn
            · obtain ⟨kv, hkv, rfl⟩ := List.mem_map.1 hm
              simp only [List.mem_filter] at hkv
              have hk : kv.1 = k := key_prefix_unique (List.prefix_refl _) hpre1
              rw [hk, hw] at hkv
              simp at hkv
      | _ => simp [getAt] at hu'
    | _ => simp [getAt] at hu
  | .idx _ :: _, hq, _, _, _, _, _, _, _, _, _, _, _, _, _ => by simp [keysOnly] at hq
  | .set :: _, hq, _, _, _, _, _, _, _, _, _, _, _, _, _ => by simp [keysOnly] at hq
  | .mset :: _, hq, _, _, _, _, _, _, _, _, _, _, _, _, _ => by simp [keysOnly] at hq
  | .setKeys _ :: _, hq, _, _, _, _, _, _, _, _, _, _, _, _, _ => by simp [keysOnly] at hq
  | .msetKeys _ :: _, hq, _, _, _, _, _, _, _, _, _, _, _, _, _ => by simp [keysOnly] at hq

theorem getAt_keys_listDoc : ∀ (q : Path), keysOnly q = true → ∀ (a u : Json), a.listDoc = true →
    getAt a q = some u → u.listDoc = true
  | [], _, a, u, ha, hu => by
    simp only [getAt, Option.some.injEq] at hu
    subst hu; exact ha
  | .key k :: q', hq, a, u, ha, hu => by
    simp only [keysOnly] at hq
    cases a with
    | obj kvs =>
      simp only [getAt] at hu
      cases hw : alookup k kvs with
      | none => simp [hw] at hu
      | some w =>
        simp only [hw, Option.bind_some] at hu
        simp only [Json.listDoc] at ha
        exact getAt_keys_listDoc q' hq w u (alookup_listDoc hw ha) hu
    | _ => simp [getAt] at hu
  | .idx _ :: _, hq, _, _, _, _ => by simp [keysOnly] at hq
  | .set :: _, hq, _, _, _, _ => by simp [keysOnly] at hq
  | .mset :: _, hq, _, _, _, _ => by simp [keysOnly] at hq
  | .setKeys _ :: _, hq, _, _, _, _ => by simp [keysOnly] at hq
  | .msetKeys _ :: _, hq, _, _, _, _ => by simp [keysOnly] at hq

theorem getAt_keys_rawDoc : ∀ (q : Path), keysOnly q = true → ∀ (a u : Json), a.rawDoc = true →
    getAt a q = some u → u.rawDoc = true
  | [], _, a, u, ha, hu => by
    simp only [getAt, Option.some.injEq] at hu
    subst hu; exact ha
  | .key k :: q', hq, a, u, ha, hu => by
    simp only [keysOnly] at hq
    cases a with
    | obj kvs =>
      simp only [getAt] at hu
      cases hw : alookup k kvs with
      | none => simp [hw] at hu
      | some w =>
        simp only [hw, Option.bind_some] at hu
        simp only [Json.rawDoc] at ha
        exact getAt_keys_rawDoc q' hq w u (alookup_rawDoc hw ha) hu
    | _ => simp [getAt] at hu
  | .idx _ :: _, hq, _, _, _, _ => by simp [keysOnly] at hq
  | .set :: _, hq, _, _, _, _ => by simp [keysOnly] at hq
  | .mset :: _, hq, _, _, _, _ => by simp [keysOnly] at hq
  | .setKeys _ :: _, hq, _, _, _, _ => by simp [keysOnly] at hq
  | .msetKeys _ :: _, hq, _, _, _, _ => by simp [keysOnly] at hq

/-- C07 for arrays of scalars held by object members (at any depth below keys): every hunk of
    `a.Diff(b)` below the key path `q`, where `a` holds the scalar array `xs` and `b` the array `ys`,
    is addressed to `q ++ [i]`, removes a contiguous run of `xs`, adds the contiguous run of `ys`
    standing at `i`, pairs only elements with different hash codes, and `remove ≠ add` -/
theorem diffM_array_below_keys {o : Opts} (ho : dispatchTag o = .list) (hm : isMerge o = false)
    {a b : Json} (hr : a.rawDoc = true) (hlb : b.listDoc = true) (hwa : a.wf = true)
    {q : Path} (hq : keysOnly q = true) {t t' : Tag} {xs ys : List Json}
    (hu : getAt a q = some (.arr t xs)) (hu' : getAt b q = some (.arr t' ys))
    (scalars : ∀ x ∈ xs, isScalar x = true) :
    ∀ h ∈ diffM o a b, q <+: h.path →
      Located q xs ys h ∧
      (∀ (j : Nat) (r w : Json), h.remove[j]? = some r → h.add[j]? = some w →
        hashCode o r ≠ hashCode o w) ∧
      h.remove ≠ h.add ∧ (∀ v ∈ h.remove, v ∈ xs) ∧ (∀ w ∈ h.add, w ∈ ys) := by
  intro h hmem hpre
  rw [diffM, hm] at hmem
  have hla := rawDoc_listDoc a hr
  have h1 := hunk_below_keys ho q hq a b hla hlb hwa _ _ hu hu' [] h hmem (by simpa using hpre)
  have hra := getAt_keys_rawDoc q hq a _ hr hu
  have hlb' := getAt_keys_listDoc q hq b _ hlb hu'
  simp only [Json.rawDoc, Bool.and_eq_true, beq_iff_eq] at hra
  simp only [Json.listDoc, Bool.and_eq_true] at hlb'
  obtain ⟨rfl, _⟩ := hra
  simp only [List.nil_append] at h1
  rw [DPL.diffNode_arr_arr ho xs ys rfl hlb'.1 (.inl rfl)] at h1
  obtain ⟨s1, s2⟩ := removed_added_sublist o q xs ys scalars
  exact ⟨diff_located o q xs ys scalars h h1, diff_hashApart o q xs ys scalars h h1,
    diff_remove_ne_add o q xs ys scalars h h1,
    fun v hv => s1.subset (List.mem_flatMap.2 ⟨h, h1, hv⟩),
    fun w hw => s2.subset (List.mem_flatMap.2 ⟨h, h1, hw⟩)⟩

end Jd.Real

#print axioms Jd.Real.diff_paths_extend
#print axioms Jd.Real.diff_paths_extend_general
#print axioms Jd.Real.equal_subdoc_not_mentioned
#print axioms Jd.Real.equal_member_not_mentioned
#print axioms Jd.Real.diffM_equal_subdoc_not_mentioned
#print axioms Jd.Real.diffRest_sublists
#print axioms Jd.Real.diffM_removed_added_sublist
#print axioms Jd.Real.diffM_removed_added_mem
#print axioms Jd.Real.diffRest_located
#print axioms Jd.Real.diffM_located
#print axioms Jd.Real.diffRest_hashApart
#print axioms Jd.Real.diffM_hashApart
#print axioms Jd.Real.diffM_removed_not_equals_added
#print axioms Jd.Real.walk_keeps_lcs
#print axioms Jd.Real.keyed_hunk_real
#print axioms Jd.Real.diffM_keyed_hunk_real
#print axioms Jd.Real.diffM_keyed_hunk_values
#print axioms Jd.Real.applyStrictAll_length
#print axioms Jd.Real.no_redundant_hunk_length_partial
#print axioms Jd.Real.diffRest_gap
#print axioms Jd.Real.no_redundant_hunk_scalar_arrays
#print axioms Jd.Real.hunk_below_keys
#print axioms Jd.Real.diffM_array_below_keys
