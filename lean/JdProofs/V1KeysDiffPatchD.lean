/-
  JdProofs.V1KeysDiffPatchD — property C17 (v1 API `lib/`), SET + setkeys THROUGH THE TEXT (`Render`,
  then `ReadDiffString`): target 3 for target 2. Namespace `Jd.V1K`.

  THEOREMS
    `v1_read_render_setkeys` : `KMode m ks`; `a b`: `setDoc`, `memOK`, `V1P.vfree` (no void inside),
        `b` not void; `V1S.CodecOK nc (diffM m a b)` (the contract about encoding/json used in
        JdProofs/V1SetDiffPatch) and render success:
          V1.readDiffM nc text = .ok (V1.diffM m a b)
        — the keyed diff is read back UNCHANGED. NO hypothesis on hash codes or identities.
    `v1_text_roundtrip_setkeys` : additionally `KeysHyp m ks a b`, `FloatEq0`, `FloatLaws`:
          ∃ d' r, V1.readDiffM nc text = .ok d' ∧ V1.patchM a d' = .ok r ∧ V1.equals m r b = true ∧
                  equivB [.set] r b = true.
    `shape_nodeK` : every hunk of a SET + setkeys diff is a `V1S.GH` hunk (raw documents, no void
        value, not a merge hunk, accepted by `checkDiffElement`), at any path prefix (induction;
        `gh_shift_keyed`: a `GH` hunk below `["set","setkeys=…"], {path object}` is `GH`; `gh_metaK`:
        the set hunk; `shape_parts`).
    `keyless_member_breaks_text` : the witness for `HasKey`, in the reading in which the Go
        library fails as well: for `[{"v":"1","w":"1"}]` → `[{"v":"2","w":"2"}]`, setkeys(id), the text
        is read back as the diff and patching with it is an ERROR.
    `ExampleT.ex_text_roundtrip_setkeys` : a run WITHOUT any codec hypothesis:
        `[{"id":"1","v":"1"}]` → `[{"id":"1","v":"2"}]`, `[SET, Setkeys("id")]`: the rendered text is
        `@ [["set","setkeys=id"],{"id":"1"},"v"]  - "1"  + "2"` (kernel evaluation; what the Go code
        prints), it is read back as the diff, patching yields a document that `Equals` the target
        (`t_codecOK` discharges the codec contract, `t_keysHyp` the hypotheses).
-/
import JdProofs.V1KeysDiffPatchC
namespace Jd.V1K
open Jd Jd.Spec
open Jd.SetDP (Ok Within)
open Jd.V1P (shift ap vfree vfreeList vfreeKvs)
open Jd.V1S (metaItems pm NM GH Shape)

/-! # Part 3b. SET + setkeys through the text -/

theorem rawDocKvs_filter (P : String × Json → Bool) :
    ∀ kvs : List (String × Json), rawDocKvs kvs = true → rawDocKvs (kvs.filter P) = true
  | [], _ => rfl
  | (k, v) :: r, h => by
    simp only [rawDocKvs, Bool.and_eq_true] at h
    simp only [List.filter_cons]
    split
    · simp [rawDocKvs, h.1, rawDocKvs_filter P r h.2]
    · exact rawDocKvs_filter P r h.2

theorem pathObject_rawDoc (m : V1.Metas) {kvs : List (String × Json)} (h : rawDocKvs kvs = true) :
    rawDocKvs (V1.pathObject m kvs) = true := by
  unfold V1.pathObject
  split
  · exact h
  · split
    · exact h
    · simp only []
      split
      · exact h
      · exact rawDocKvs_filter _ kvs h

section TextK
variable {m : V1.Metas} {ks : List String}

theorem pm_noMerge (K : KMode m ks) : V1.hasMerge (pm m) = false := by
  cases h2 : V1.hasMset m <;>
    simp [pm, metaItems, K.set, K.keys, h2, V1.metaOfItems, V1.setkeysString, sk_ne_set,
      sk_ne_mset, sk_ne_merge, V1.hasMerge]

theorem metaItems_raw (K : KMode m ks) : rawDocList (metaItems m) = true := by
  cases h2 : V1.hasMset m <;>
    simp [metaItems, K.set, K.keys, h2, Json.rawDoc, rawDocList]

theorem metaItems_novoid (K : KMode m ks) : (metaItems m).any Json.isVoid = false := by
  cases h2 : V1.hasMset m <;>
    simp [metaItems, K.set, K.keys, h2, Json.isVoid]

/-- a `GH` hunk below a keyed path element is a `GH` hunk -/
theorem gh_shift_keyed (K : KMode m ks) {h : V1.Hunk} (g : GH h) {po : List (String × Json)}
    (hpo : rawDocKvs po = true) : GH (shift [.arr .raw (metaItems m), .obj po] h) where
  nm := nm_metaK K _ _ _
  path := by
    have := g.path
    simp only [shift, List.cons_append, List.nil_append, rawDocList, Json.rawDoc, metaItems_raw K,
      hpo, Bool.true_and, beq_self_eq_true]
    exact this
  mOK := by
    have := g.mOK
    simp only [shift, List.cons_append, List.nil_append, V1S.metaOK, metaItems_novoid K,
      Bool.not_false, Bool.true_and]
    exact this
  nmr := by
    unfold V1S.rendersMerge V1.pathRendersMerge
    show V1.hasMerge (V1.pathNext (V1.liftPath (.arr .raw (metaItems m) :: .obj po :: h.path))).2.1
      = false
    rw [pathNext_keyed K]
    exact pm_noMerge K
  old := g.old
  oldv := g.oldv
  new := g.new
  newv := g.newv
  ne := g.ne
  chk := by
    have h1 := V1S.checkHunk_shift (.obj po) g.chk
    have h2 := V1S.checkHunk_shift (.arr .raw (metaItems m)) h1
    simpa [shift] using h2

/-- the set hunk of a keyed diff -/
theorem gh_metaK (K : KMode m ks) {rem add : List Json}
    (h1 : ∀ v ∈ rem, v.rawDoc = true ∧ v.isVoid = false)
    (h2 : ∀ v ∈ add, v.rawDoc = true ∧ v.isVoid = false) (hne : ¬ (rem = [] ∧ add = [])) :
    GH { path := [.arr .raw (metaItems m), .obj []], old := rem, new := add } where
  nm := nm_metaK K _ _ _
  path := by simp [rawDocList, metaItems_raw K, Json.rawDoc, rawDocKvs]
  mOK := by simp [V1S.metaOK, metaItems_novoid K]
  nmr := by
    unfold V1S.rendersMerge V1.pathRendersMerge
    rw [pathNext_keyed K]
    exact pm_noMerge K
  old := V1S.rawDocList_of_mem (fun v hv => (h1 v hv).1)
  oldv := fun v hv => (h1 v hv).2
  new := V1S.rawDocList_of_mem (fun v hv => (h2 v hv).1)
  newv := fun v hv => (h2 v hv).2
  ne := hne
  chk := by
    unfold V1.checkHunk
    split <;> rfl


/-- the sub-diffs of a list of parts, when each of them is a list of `GH` hunks below `p` -/
theorem shape_parts (p : List Json) :
    ∀ (l : List (UInt64 × V1.SetPart)),
      (∀ kp ∈ l, ∃ D0 : V1.VDiff, V1S.subOf kp = D0.map (shift p) ∧ ∀ h ∈ D0, GH h) →
      ∃ D : V1.VDiff, l.flatMap V1S.subOf = D.map (shift p) ∧ ∀ h ∈ D, GH h
  | [], _ => ⟨[], rfl, by simp⟩
  | kp :: r, H => by
    obtain ⟨D0, e0, g0⟩ := H kp List.mem_cons_self
    obtain ⟨Dr, er, gr⟩ := shape_parts p r (fun kp' h => H kp' (List.mem_cons_of_mem _ h))
    refine ⟨D0 ++ Dr, by simp [List.flatMap_cons, e0, er], ?_⟩
    intro h hh
    rcases List.mem_append.1 hh with hh | hh
    · exact g0 h hh
    · exact gr h hh

/-- the hunks of a SET + setkeys diff are `GH` hunks (raw documents, no void value); no hash
    hypothesis -/
theorem shape_nodeK (K : KMode m ks) :
    ∀ a b, Ok a → Ok b → vfree a = true → vfree b = true → b.isVoid = false → Shape m a b := by
  intro a
  induction a using jsonInd with
  | void =>
    intro b ha hb _ _ hbv
    exact V1S.shape_scalar (fun _ _ e => by cases e) (fun _ e => by cases e) ha.rawDoc hb.rawDoc hbv
  | null =>
    intro b ha hb _ _ hbv
    exact V1S.shape_scalar (fun _ _ e => by cases e) (fun _ e => by cases e) ha.rawDoc hb.rawDoc hbv
  | bool x =>
    intro b ha hb _ _ hbv
    exact V1S.shape_scalar (fun _ _ e => by cases e) (fun _ e => by cases e) ha.rawDoc hb.rawDoc hbv
  | num x =>
    intro b ha hb _ _ hbv
    exact V1S.shape_scalar (fun _ _ e => by cases e) (fun _ e => by cases e) ha.rawDoc hb.rawDoc hbv
  | str x =>
    intro b ha hb _ _ hbv
    exact V1S.shape_scalar (fun _ _ e => by cases e) (fun _ e => by cases e) ha.rawDoc hb.rawDoc hbv
  | arr t xs ih =>
    intro b ha hb va vb hbv
    have ht := ha.raw
    subst ht
    cases b with
    | arr t' ys =>
      have ht' := hb.raw
      subst ht'
      have vxs : vfreeList xs = true := by simpa [vfree] using va
      have vys : vfreeList ys = true := by simpa [vfree] using vb
      have hxs : ∀ v ∈ xs, v.rawDoc = true ∧ v.isVoid = false :=
        fun v hv => ⟨(ha.elem hv).rawDoc, (V1S.vfreeList_mem vxs hv).1⟩
      have hys : ∀ v ∈ ys, v.rawDoc = true ∧ v.isVoid = false :=
        fun v hv => ⟨(hb.elem hv).rawDoc, (V1S.vfreeList_mem vys hv).1⟩
      intro p
      have hperm := ksort_perm (V1.diffSetElems m false p ys xs)
      obtain ⟨D1, e1, g1⟩ := shape_parts p (ksort (V1.diffSetElems m false p ys xs)) (by
        intro kp hkp
        have hkp' := hperm.mem_iff.1 hkp
        obtain ⟨c, part⟩ := kp
        cases part with
        | removed z => exact ⟨[], rfl, by simp⟩
        | sub d =>
          obtain ⟨kvs, kvs', hx, hy, _, _, hdd⟩ := sub_origin m false p ys xs c d hkp'
          have okx := ha.elem hx
          have oky := hb.elem hy
          obtain ⟨D0, e0, g0⟩ := ih _ hx _ okx oky (V1S.vfreeList_mem vxs hx).2
            (V1S.vfreeList_mem vys hy).2 rfl
            (p ++ [.arr .raw (metaItems m), .obj (V1.pathObject m kvs)])
          have hraw : rawDocKvs (V1.pathObject m kvs) = true :=
            pathObject_rawDoc m (by simpa [Json.rawDoc] using okx.rawDoc)
          refine ⟨D0.map (shift [.arr .raw (metaItems m), .obj (V1.pathObject m kvs)]), ?_, ?_⟩
          · simp only [V1S.subOf, hdd, V1S.appendIndex_eq, e0, List.map_map]
            apply List.map_congr_left
            intro h _
            simp [V1S.shift_shift]
          · intro h hh
            obtain ⟨h0, hh0, rfl⟩ := List.mem_map.1 hh
            exact gh_shift_keyed K (g0 h0 hh0) hraw)
      have hR : ∀ z ∈ (ksort (V1.diffSetElems m false p ys xs)).filterMap V1S.remOf, z ∈ xs := by
        intro z hz
        obtain ⟨⟨h, part⟩, hkp, e⟩ := List.mem_filterMap.1 hz
        cases part with
        | sub d => simp [V1S.remOf] at e
        | removed w =>
          simp only [V1S.remOf, Option.some.injEq] at e
          subst e
          exact (absent_of_removed m false p ys xs h w (hperm.mem_iff.1 hkp)).1
      obtain ⟨hA, _⟩ := V1S.setAdd_spec m xs ys
      rw [V1S.diffNode_set_set K.tag, e1]
      generalize (ksort (V1.diffSetElems m false p ys xs)).filterMap V1S.remOf = rem at hR
      generalize V1S.setAdd m xs ys = add at hA
      by_cases hemp : (rem.isEmpty && add.isEmpty) = true
      · rw [if_pos hemp, List.append_nil]; exact ⟨D1, rfl, g1⟩
      · rw [if_neg hemp]
        refine ⟨D1 ++ [{ path := [.arr .raw (metaItems m), .obj []], old := rem, new := add }],
          ?_, ?_⟩
        · rw [V1S.appendIndex_eq]; simp [shift]
        · intro h hh
          rcases List.mem_append.1 hh with hh | hh
          · exact g1 h hh
          · simp only [List.mem_singleton] at hh
            subst hh
            exact gh_metaK K (fun v hv => hxs v (hR v hv)) (fun v hv => hys v (hA v hv))
              (by simpa [List.isEmpty_iff] using hemp)
    | _ =>
      apply V1S.shape_single (x := .arr .raw xs) ha.rawDoc hb.rawDoc (by simp [Json.isVoid])
      intro p
      rw [V1S.diffNode_arr_other (Or.inl K.tag) xs _ (fun _ _ e => by cases e) p]
      rfl
  | obj kvs ih =>
    intro b ha hb va vb hbv
    cases b with
    | obj kvs' =>
      have vkvs : vfreeKvs kvs = true := by simpa [vfree] using va
      have vkvs' : vfreeKvs kvs' = true := by simpa [vfree] using vb
      intro p
      obtain ⟨D1, e1, g1⟩ := V1S.shape_kvs (m := m) kvs' kvs
        (fun k v hm => ⟨(ha.val hm).1.rawDoc, (ha.val hm).2, fun v' hl =>
          ih k v hm v' (ha.val hm).1 (hb.lookup hl).1 (V1S.vfreeKvs_mem vkvs hm).2
            (V1S.vfreeKvs_mem vkvs' (mem_of_alookup hl)).2 (hb.lookup hl).2⟩) p
      obtain ⟨D2, e2, g2⟩ := V1S.shape_adds kvs kvs'
        (fun k v hm => ⟨(hb.val hm).1.rawDoc, (hb.val hm).2⟩) p
      refine ⟨D1 ++ D2, ?_, ?_⟩
      · rw [V1P.diffNode_obj_obj, e1, e2, List.map_append]
      · intro h hh
        rcases List.mem_append.1 hh with hh | hh
        · exact g1 h hh
        · exact g2 h hh
    | _ =>
      apply V1S.shape_single (x := .obj kvs) ha.rawDoc hb.rawDoc (by simp [Json.isVoid])
      intro p
      rw [V1P.diffNode_obj_other m kvs _ (fun _ e => by cases e) p]
      first
      | (simp [Json.nodeList, Json.isVoid]; done)
      | exact absurd hbv (by simp [Json.isVoid])

/-- the SET + setkeys diff is read back from its rendered text UNCHANGED (no hypothesis on hash
    codes or identities; relative to the codec contract and to render success) -/
theorem v1_read_render_setkeys (nc : NumCodec) (K : KMode m ks) (a b : Json)
    (ha : a.setDoc = true) (hb : b.setDoc = true)
    (ha' : DPL.memOK a = true) (hb' : DPL.memOK b = true)
    (va : vfree a = true) (vb : vfree b = true) (hbv : b.isVoid = false)
    (hc : V1S.CodecOK nc (V1.diffM m a b)) (text : String)
    (hr : V1.renderM nc false (V1.liftDiff (V1.diffM m a b)) = .ok (some text)) :
    V1.readDiffM nc text = .ok (V1.diffM m a b) := by
  obtain ⟨D, e, g⟩ := shape_nodeK K a b ⟨ha, ha'⟩ ⟨hb, hb'⟩ va vb hbv []
  rw [V1S.shift_nil_map] at e
  have hd : V1.diffM m a b = D := by unfold V1.diffM; rw [K.noMerge, e]
  rw [hd] at hc hr ⊢
  exact V1S.v1_read_render_raw nc D text g hc hr

/-- **C17, SET + setkeys, through the text** (`Render`, then `ReadDiffString`): the diff read back
    from its rendered text IS the diff, hence — under the hypotheses of `v1_diff_patch_setkeys` —
    patching `a` with it yields a document that `Equals` `b`. -/
theorem v1_text_roundtrip_setkeys (F : FloatEq0) (L : FloatLaws) (nc : NumCodec) (K : KMode m ks)
    (a b : Json) (ha : a.setDoc = true) (hb : b.setDoc = true)
    (ha' : DPL.memOK a = true) (hb' : DPL.memOK b = true)
    (va : vfree a = true) (vb : vfree b = true) (hbv : b.isVoid = false)
    (H : KeysHyp m ks a b)
    (hc : V1S.CodecOK nc (V1.diffM m a b)) (text : String)
    (hr : V1.renderM nc false (V1.liftDiff (V1.diffM m a b)) = .ok (some text)) :
    ∃ d' r, V1.readDiffM nc text = .ok d' ∧ V1.patchM a d' = .ok r ∧ V1.equals m r b = true ∧
      equivB [.set] r b = true := by
  obtain ⟨r, h1, h2, h3, _⟩ := v1_diff_patch_setkeys F L K a b ha hb ha' hb' H
  exact ⟨_, r, v1_read_render_setkeys nc K a b ha hb ha' hb' va vb hbv hc text hr, h1, h2, h3⟩

end TextK

/-! ## the member without any set key, THROUGH THE TEXT (the reading in which the Go library fails) -/

/-- `[{"v":"1","w":"1"}]` → `[{"v":"2","w":"2"}]` under SET + setkeys(id): whenever the diff renders
    (and the codec contract holds for it), the text is read back as the diff itself, and patching
    the first document with it is an ERROR. On the Go library: `ReadDiffString(d.Render())`, then
    `Patch`: "invalid diff: expected object with id {"v":"1","w":"1"} but found none". -/
theorem keyless_member_breaks_text (nc : NumCodec)
    (hc : V1S.CodecOK nc (V1.diffM Witness.m1 Witness.ha Witness.hb)) (text : String)
    (hr : V1.renderM nc false (V1.liftDiff (V1.diffM Witness.m1 Witness.ha Witness.hb))
      = .ok (some text)) :
    ∃ d', V1.readDiffM nc text = .ok d' ∧ V1.patchM Witness.ha d' = .err := by
  refine ⟨_, v1_read_render_setkeys nc Witness.K1 Witness.ha Witness.hb (by decide) (by decide)
    (by decide) (by decide) (by decide) (by decide) (by decide) hc text hr, ?_⟩
  rw [Witness.h_diff]
  exact Witness.h_patch

/-! ## a fully concrete run through the text -/

namespace ExampleT
open Jd.NativeRT (exCodec)
open Witness (m1 K1 dx dy dd d_ident d_m1)

def ta : Json := .arr .raw [dx]
def tb : Json := .arr .raw [dy]

theorem t_diff : V1.diffM m1 ta tb = dd := by
  unfold V1.diffM ta tb
  rw [show V1.hasMerge m1 = false from rfl, V1S.diffNode_set_set (m := m1) rfl]
  rw [V1S.diffSetElems_cons, V1S.diffSetElems_nil]
  simp [d_ident, V1.identLookup, ksort, kinsert, V1S.subOf, V1S.remOf, V1S.setAdd, hdedup, hsort]
  rw [V1P.diffNode_obj_obj, V1P.diffKvs_cons, V1P.diffKvs_cons, V1P.diffKvs_nil]
  simp [alookup, diff_str, V1S.appendIndex_eq, V1.pathObject, V1.keysOf, m1, dd]

theorem t_meta : metaItems m1 = [.str "set", .str "setkeys=id"] := by
  simp only [metaItems, m1, V1.hasSet, V1.hasMset, V1.keysOf, if_true, Bool.false_eq_true, if_false, List.append_nil, List.nil_append, List.cons_append]
  have : V1.setkeysString ["id"] = "setkeys=id" := by decide +kernel
  rw [this]

theorem t_render : V1.renderM exCodec false (V1.liftDiff dd) =
    .ok (some "@ [[\"set\",\"setkeys=id\"],{\"id\":\"1\"},\"v\"]\n- \"1\"\n+ \"2\"\n") := by
  rfl


set_option linter.unusedSimpArgs false in
theorem t_codecOK : V1S.CodecOK exCodec dd := by
  intro h hh
  simp only [dd, List.mem_cons, List.not_mem_nil, or_false] at hh
  subst hh
  refine ⟨?_, ?_⟩
  · intro t ht
    have : t = "[[\"set\",\"setkeys=id\"],{\"id\":\"1\"},\"v\"]" := by
      simpa [t_meta, V1.rawNormList, V1.rawNorm, V1.rawNormKvs, jsonText, jsonTextList,
        jsonTextKvs, quoteString, escapeBody, escapeChar, eq_comm] using ht
    subst this
    refine ⟨by simp, ?_⟩
    simp [t_meta, readJsonM, trimGoSpace, parseJson, parseValue, skipWs, isJsonWs, parseElems,
      lexString, parseMembers, V1.rawNormList, V1.rawNorm, V1.rawNormKvs, ainsert]
  · intro v hv hnv
    simp only [List.cons_append, List.nil_append, List.mem_cons, List.not_mem_nil, or_false] at hv
    rcases hv with rfl | rfl
    all_goals
      intro t ht
      simp [V1.marshalNode, jsonText, quoteString, escapeBody, escapeChar] at ht
      subst ht
      refine ⟨by simp, ?_⟩
      simp [readJsonM, trimGoSpace, parseJson, parseValue, skipWs, isJsonWs, lexString, untag]


theorem t_hf : V1S.HashFaithful m1 [.set] (subterms ta ++ subterms tb) := by
  intro x hx y hy
  simp only [ta, tb, subterms, subtermsList, subtermsKvs, List.cons_append, List.nil_append,
    List.append_nil, List.mem_cons, List.not_mem_nil, or_false] at hx hy
  rcases hx with rfl | rfl | rfl | rfl | rfl | rfl | rfl | rfl <;>
  rcases hy with rfl | rfl | rfl | rfl | rfl | rfl | rfl | rfl <;>
  first
  | (intro e; exact absurd e (by decide +kernel))
  | (intro _; simp [equivB, dispatchTag, allIn, allCovered, anyEquiv, equivKvs, alookup]; done)

theorem t_keysHyp : KeysHyp m1 ["id"] ta tb where
  hf := t_hf
  kd := keyedDistinct_of_check (by decide +kernel)
  hk := hasKey_of_check (by decide +kernel)
  ksep := kindSepI_of_check (by decide +kernel)
  ib := identInj_of_check (by decide +kernel)
  pf := pathFaithful_of_check (by decide +kernel)
  kt := keyTuple_of_check (by decide +kernel)

/-- **the whole of C17 on a concrete pair, SET + setkeys, through the text, no codec hypothesis**:
    `[{"id":"1","v":"1"}]` → `[{"id":"1","v":"2"}]` under `[SET, Setkeys("id")]`: the library's diff
    is rendered (the text shown, evaluated by the kernel; the same text as the Go code prints),
    read back (giving the diff itself), and patching with it yields a document that `Equals` the
    target; only the IEEE-754 laws are left as assumptions -/
theorem ex_text_roundtrip_setkeys (F : FloatEq0) (L : FloatLaws) :
    V1.renderM exCodec false (V1.liftDiff (V1.diffM m1 ta tb)) =
      .ok (some "@ [[\"set\",\"setkeys=id\"],{\"id\":\"1\"},\"v\"]\n- \"1\"\n+ \"2\"\n") ∧
    ∃ d' r, V1.readDiffM exCodec
        "@ [[\"set\",\"setkeys=id\"],{\"id\":\"1\"},\"v\"]\n- \"1\"\n+ \"2\"\n" = .ok d' ∧
      d' = V1.diffM m1 ta tb ∧ V1.patchM ta d' = .ok r ∧ V1.equals m1 r tb = true ∧
      equivB [.set] r tb = true := by
  have hr : V1.renderM exCodec false (V1.liftDiff (V1.diffM m1 ta tb)) =
      .ok (some "@ [[\"set\",\"setkeys=id\"],{\"id\":\"1\"},\"v\"]\n- \"1\"\n+ \"2\"\n") := by
    rw [t_diff]; exact t_render
  have hc : V1S.CodecOK exCodec (V1.diffM m1 ta tb) := by rw [t_diff]; exact t_codecOK
  refine ⟨hr, ?_⟩
  obtain ⟨r, h1, h2, h3, _⟩ := v1_diff_patch_setkeys F L K1 ta tb (by decide) (by decide)
    (by decide) (by decide) t_keysHyp
  exact ⟨_, r, v1_read_render_setkeys exCodec K1 ta tb (by decide) (by decide) (by decide)
    (by decide) (by decide) (by decide) (by decide) hc _ hr, rfl, h1, h2, h3⟩

end ExampleT
end Jd.V1K
