/-
  JdProofs.PatchRenderClosed — property C09 (v2 library, RFC 6902 output), closing the remaining
  hypothesis of JdProps/C09.lean, statement 3: there `HunkOK h ∧ HunkRange h` for every hunk of the
  generated diff was ASSUMED ("that Diff only produces such hunks is not proved"). Here it is PROVED
  for `diffM o a b` in the LIST reading (strict strategy), by induction over
  `diffNode / diffKvs / diffRest` (induction principle `DPL.listDiff_induct`), and the composed
  theorem is restated without any hypothesis on hunks. Everything is about the library functions of
  the model (`diffM`, `renderPatchOps`, `writePointerPath`) and the independent evaluator
  `Jd.Spec.eval` (JdSpec.Rfc6902). Namespace `Jd.PRC`.

  STAGE REACHED: C (full nesting: lists in lists, objects, scalars, void at the root), success and
  refusal directions, no open goal.

  Main results (`o` with `dispatchTag o = .list`, `isMerge o = false`)
   1. `diff_gen` (the induction) / `diffM_gen`: every hunk of `a.Diff(b)` is a generated hunk
      `Gen M h`, `M = Na + Nb + 1`: removed / added values are never the void marker, added values are
      well-formed, the hunk is not empty, every index in its path is a natural number below `M`, and
      the hunk is EITHER a plain replacement (no context line, at most one removed value) OR a list
      hunk at `pp ++ [idx s]` with exactly one before- and one after-context
      line, both well-formed, and `s + |remove| < M`, OR (third shape, `Jd.subAfter`: a typed
      `jsonList` element replaced wholesale by a plain `jsonArray` with nothing accumulated, as the
      end block of Go's `diffRest` does) a replacement at `pp ++ [idx s]` with NO before-context and
      one well-formed after-context line. In particular no hunk is at index −1.
   2. `diffM_hunks_ok` (and `diffM_hunks_ok_N` with a single bound): for `Na + Nb < 2^53`,
        ∀ h ∈ diffM o a b, HunkOK h ∧ HunkRange h.
   3. `diffM_paths_expressible`: if every object key of `a` and of `b` is expressible
      (`keysExpressible`, decidable: not number-like for `strconv.Atoi`, not "-"), every path element
      of every hunk of `a.Diff(b)` is `expressible` (a key of that kind, or a list index).
   4. `render_diffM_ok_iff` / `render_diffM_err_iff` (no length bound needed): on the domain,
        RenderPatch(a.Diff(b)) succeeds  ⇔  every path element of every hunk is expressible,
        RenderPatch(a.Diff(b)) = error   ⇔  some hunk has an inexpressible path element;
      `renderPatchHunk_ne_panic`, `renderPatchOps_ne_panic`: it never panics (any diff);
      `renderPatchOps_refuses`: ANY diff with an inexpressible path element in some hunk is refused.
   5. `rendered_patch_of_diff_yields_target_closed` — C09 statement 3 with NO hypothesis on hunks:
        ∃ ops r, renderPatchOps (diffM o a b) = .ok ops ∧ (∀ op ∈ ops, op is test / remove / add) ∧
                 eval a ops = some r ∧ specEq r b ∧ specEq b r
      for `a`, `b` with expressible keys; `rendered_patch_of_diff_yields_target_of_paths`: the same
      under the sharp condition of 4 (expressible PATHS; keys inside removed / added values are
      unrestricted).
   6. REFUSAL in terms of the inputs (`q` a path of object keys, `Real.getAt` navigation):
      `refuses_changed_at_bad_path`  `a`, `b` hold `u`, `u'` at `q`, `q` contains a key that is
          number-like or "-", `u.Diff(u')` is not empty  ⇒  RenderPatch(a.Diff(b)) = error;
      `refuses_value_changed_at_bad_path`  the same with "`u`, `u'` structurally different"
          (`specEq u u' = false`) on the C01 domain (through the C01 theorem);
      `refuses_member_removed`, `refuses_member_added`  a member present on one side only, its key or
          a key above it number-like or "-" (these two hold in every array reading);
      `hunks_of_subdiff`: the diff of what the documents hold at a key path is part of their diff
          (converse of `Real.hunk_below_keys`).
      So: a changed location at or below a key that is number-like or "-" is always refused with an
      error, never mistranslated. (A changed location below such a key but reached through a LIST
      index in between is covered by 4, not by the input-level statements of 6.)

  HYPOTHESES, and why
    * `a.listDoc`, `b.listDoc`, `dispatchTag o = .list`, `isMerge o = false`: the list reading, strict
      strategy (the domain of C09 / C01);
    * `a.wf`, `b.wf` (sorted unique keys = Go map): context lines and added values are sub-documents
      of `a` and `b`; `HunkOK` asks them well-formed;
    * `vfree a`, `vfree b` (decidable): no void marker strictly inside the document, neither as an
      object member (that is `DPL.memOK`, already in the C01 domain) nor as an ARRAY ELEMENT. The
      second half is new and necessary: `Example.void_element_witness` — `[void]` against `[null]`
      satisfies every hypothesis of the C01 list theorem, the native diff applies, but `RenderPatch`
      silently drops a removal whose first value is void, and the evaluated patch is `[null, void]`.
      The void marker is jd's in-memory "no value"; no reader produces it inside a document, so this
      is a boundary of the model's domain, not a defect of the Go code. The root may be void.
    * `lenLe Na a`, `lenLe Nb b`, `Na + Nb < 2^53` (only for `HunkRange` and the composed theorem):
      list indices travel through a float64. The SUM is needed, not each bound alone: the index
      written for the after-context test is `start + |remove|`, where `start` counts elements of the
      partially patched array (up to `|ys|`) and `remove` holds elements of `xs` (for
      `xs = [c, r₁ … rₙ]`, `ys = [y₁ … yₘ, c, z]` the last hunk sits at `m + 1` and removes `n`
      values);
    * `HashOK`, `ZeroOK`, `finiteNums`, `FloatLaws`: the hypotheses of the C01 list theorem
      (`DPL.diffM_list_correct`), used only by the composed theorems of 5 and by
      `refuses_value_changed_at_bad_path`;
    * `keysExpressible a`, `keysExpressible b` in 3 and 5 (sufficient; the exact condition is in 4).

  ONE EXCEPTION to 2, handled separately and NOT excluded from 4 and 5: `a` an object and `b` void
  ("no document"). The Go code (object.go, "different types") builds `Add: []JsonNode{n}` without
  `nodeList`, so the hunk of `{…}.Diff(void)` ADDS THE VOID MARKER: it is not a `HunkOK` hunk
  (`objVoidHunk_not_hunkOK`). `RenderPatch` skips an addition whose first value is void, the ops are
  `test ""`, `remove ""`, and the evaluator yields void: statement 5 still holds
  (`render_objVoidHunk`, `eval_objVoid`). Lists and scalars against void go through `nodeList`.

  NOT covered: set / multiset readings and the merge strategy (C09 is a list-mode property);
  the text layer around the operations (`renderPatchM`: JSON marshalling of the patch document).

  Structure: §0 predicates (`vfree`, `lenLe`, `keysExpressible`), domain bundles `D / DL / DK`;
  §1 `Gen`, `Gen.hunkOK`, `Gen.hunkRange`, `gen_accHunk`; §2 `diff_gen`; §3 `diff_paths_expressible`;
  §4 rendering of a generated hunk, refusal, no panic; §5 theorems about `diffM`; §6 C09 closed;
  §7 refusal from the inputs; §8 examples and witnesses.
-/
import JdProofs.PatchRender
import JdProofs.RealDiff

namespace Jd.PRC
open Jd Jd.Spec Jd.DPL

/-! ## 0. the decidable predicates on documents -/

mutual
/-- no void marker strictly inside the document (array elements, object members); the root may be
    void ("no document") -/
def vfree : Json → Bool
  | .arr _ xs => vfreeList xs
  | .obj kvs => vfreeKvs kvs
  | _ => true
def vfreeList : List Json → Bool
  | [] => true
  | x :: r => !x.isVoid && vfree x && vfreeList r
def vfreeKvs : List (String × Json) → Bool
  | [] => true
  | (_, v) :: r => !v.isVoid && vfree v && vfreeKvs r
end

mutual
/-- every array of the document has at most `N` elements -/
def lenLe (N : Nat) : Json → Bool
  | .arr _ xs => decide (xs.length ≤ N) && lenLeList N xs
  | .obj kvs => lenLeKvs N kvs
  | _ => true
def lenLeList (N : Nat) : List Json → Bool
  | [] => true
  | x :: r => lenLe N x && lenLeList N r
def lenLeKvs (N : Nat) : List (String × Json) → Bool
  | [] => true
  | (_, v) :: r => lenLe N v && lenLeKvs N r
end

/-- a key jd can write as a JSON Pointer token: not number-like (`strconv.Atoi` fails), not "-" -/
def keyOK (k : String) : Bool := (atoi? k).isNone && k != "-"

mutual
/-- every object key of the document is expressible as a JSON Pointer token -/
def keysExpressible : Json → Bool
  | .arr _ xs => keysExprList xs
  | .obj kvs => keysExprKvs kvs
  | _ => true
def keysExprList : List Json → Bool
  | [] => true
  | x :: r => keysExpressible x && keysExprList r
def keysExprKvs : List (String × Json) → Bool
  | [] => true
  | (k, v) :: r => keyOK k && keysExpressible v && keysExprKvs r
end

theorem keyOK_iff (k : String) : keyOK k = true ↔ expressible (.key k) := by
  simp only [keyOK, expressible, Bool.and_eq_true, Option.isNone_iff_eq_none, bne_iff_ne, ne_eq]

/-! ### the part of the domain the hunk invariant needs: well-formed, void-free, bounded lengths -/

structure D (N : Nat) (x : Json) : Prop where
  wf : x.wf = true
  vf : vfree x = true
  len : lenLe N x = true

structure DL (N : Nat) (xs : List Json) : Prop where
  wf : wfList xs = true
  vf : vfreeList xs = true
  len : lenLeList N xs = true

structure DK (N : Nat) (kvs : List (String × Json)) : Prop where
  wf : wfKvs kvs = true
  vf : vfreeKvs kvs = true
  len : lenLeKvs N kvs = true

theorem DL.nil (N : Nat) : DL N [] := ⟨rfl, rfl, rfl⟩

theorem dl_cons {N : Nat} {x : Json} {r : List Json} :
    DL N (x :: r) ↔ (D N x ∧ x.isVoid = false) ∧ DL N r := by
  constructor
  · rintro ⟨h1, h2, h3⟩
    simp only [wfList, vfreeList, lenLeList, Bool.and_eq_true, Bool.not_eq_true'] at h1 h2 h3
    exact ⟨⟨⟨h1.1, h2.1.2, h3.1⟩, h2.1.1⟩, ⟨h1.2, h2.2, h3.2⟩⟩
  · rintro ⟨⟨⟨h1, h2, h3⟩, hv⟩, ⟨g1, g2, g3⟩⟩
    exact ⟨by simp [wfList, h1, g1], by simp [vfreeList, h2, g2, hv], by simp [lenLeList, h3, g3]⟩

theorem dk_cons {N : Nat} {k : String} {v : Json} {r : List (String × Json)} :
    DK N ((k, v) :: r) ↔ (D N v ∧ v.isVoid = false) ∧ DK N r := by
  constructor
  · rintro ⟨h1, h2, h3⟩
    simp only [wfKvs, vfreeKvs, lenLeKvs, Bool.and_eq_true, Bool.not_eq_true'] at h1 h2 h3
    exact ⟨⟨⟨h1.1, h2.1.2, h3.1⟩, h2.1.1⟩, ⟨h1.2, h2.2, h3.2⟩⟩
  · rintro ⟨⟨⟨h1, h2, h3⟩, hv⟩, ⟨g1, g2, g3⟩⟩
    exact ⟨by simp [wfKvs, h1, g1], by simp [vfreeKvs, h2, g2, hv], by simp [lenLeKvs, h3, g3]⟩

theorem DL.append {N : Nat} {xs ys : List Json} (h1 : DL N xs) (h2 : DL N ys) : DL N (xs ++ ys) := by
  induction xs with
  | nil => exact h2
  | cons x r ih =>
    rw [List.cons_append, dl_cons]
    rw [dl_cons] at h1
    exact ⟨h1.1, ih h1.2⟩

theorem DL.single {N : Nat} {x : Json} (h : D N x) (hv : x.isVoid = false) : DL N [x] :=
  dl_cons.2 ⟨⟨h, hv⟩, DL.nil N⟩

theorem DL.of_mem {N : Nat} {xs : List Json} (h : DL N xs) {x : Json} (hx : x ∈ xs) :
    D N x ∧ x.isVoid = false := by
  induction xs with
  | nil => cases hx
  | cons y r ih =>
    rw [dl_cons] at h
    rcases List.mem_cons.1 hx with rfl | hx
    · exact h.1
    · exact ih h.2 hx

theorem DK.of_mem {N : Nat} {kvs : List (String × Json)} (h : DK N kvs) {k : String} {v : Json}
    (hm : (k, v) ∈ kvs) : D N v ∧ v.isVoid = false := by
  induction kvs with
  | nil => cases hm
  | cons kv r ih =>
    obtain ⟨k', v'⟩ := kv
    rw [dk_cons] at h
    rcases List.mem_cons.1 hm with e | hm
    · cases e; exact h.1
    · exact ih h.2 hm

theorem DK.lookup {N : Nat} {kvs : List (String × Json)} (h : DK N kvs) {k : String} {v : Json}
    (hl : alookup k kvs = some v) : D N v ∧ v.isVoid = false :=
  h.of_mem (mem_of_alookup hl)

theorem d_arr {N : Nat} {t : Tag} {xs : List Json} :
    D N (.arr t xs) ↔ xs.length ≤ N ∧ DL N xs := by
  constructor
  · rintro ⟨h1, h2, h3⟩
    simp only [Json.wf] at h1
    simp only [vfree] at h2
    simp only [lenLe, Bool.and_eq_true, decide_eq_true_eq] at h3
    exact ⟨h3.1, ⟨h1, h2, h3.2⟩⟩
  · rintro ⟨hl, ⟨g1, g2, g3⟩⟩
    exact ⟨by simpa [Json.wf] using g1, by simpa [vfree] using g2, by simp [lenLe, hl, g3]⟩

theorem d_obj {N : Nat} {kvs : List (String × Json)} :
    D N (.obj kvs) ↔ keysSorted kvs = true ∧ DK N kvs := by
  constructor
  · rintro ⟨h1, h2, h3⟩
    simp only [Json.wf, Bool.and_eq_true] at h1
    simp only [vfree] at h2
    simp only [lenLe] at h3
    exact ⟨h1.1, ⟨h1.2, h2, h3⟩⟩
  · rintro ⟨hs, ⟨g1, g2, g3⟩⟩
    exact ⟨by simp [Json.wf, hs, g1], by simpa [vfree] using g2, by simpa [lenLe] using g3⟩

theorem DL.wf_of_mem {N : Nat} {xs : List Json} (h : DL N xs) {x : Json} (hx : x ∈ xs) : x.wf = true :=
  (h.of_mem hx).1.wf

theorem DL.noVoid {N : Nat} {xs : List Json} (h : DL N xs) : noVoid xs :=
  fun _ hx => (h.of_mem hx).2

theorem DL.headD_wf {N : Nat} {xs : List Json} (h : DL N xs) : (xs.headD .void).wf = true := by
  cases xs with
  | nil => rfl
  | cons x r => exact (dl_cons.1 h).1.1.wf

/-! ## 1. the invariant of generated hunks -/

/-- what every hunk of a list-mode diff looks like (`M` bounds the indices): values are real and
    well-formed, the hunk is not empty, indices are non-negative and below `M`, and the hunk is either
    a plain replacement (no context, at most one value removed), or a list hunk `pp ++ [idx s]` with
    one line of before- and of after-context, or (third shape: `subAfter`, the wholesale replacement
    of a typed `jsonList` element by a plain `jsonArray` when nothing was accumulated) a replacement
    of the element at `pp ++ [idx s]` with NO before-context and one line of after-context -/
structure Gen (M : Nat) (h : Hunk) : Prop where
  remNoVoid : noVoid h.remove
  addNoVoid : noVoid h.add
  wfAdd : wfList h.add = true
  nonEmpty : (h.remove.isEmpty && h.add.isEmpty) = false
  pathIdx : ∀ i, PathElem.idx i ∈ h.path → 0 ≤ i ∧ i < (M : Int)
  shape : (h.before = [] ∧ h.after = [] ∧ h.remove.length ≤ 1 ∧
            ∀ i, lastIdx? h.path = some i → i + 1 < (M : Int)) ∨
          (∃ (pp : Path) (s : Nat) (prev after : Json), h.path = pp ++ [.idx (s : Int)] ∧
            h.before = [prev] ∧ h.after = [after] ∧ prev.wf = true ∧ after.wf = true ∧
            s + h.remove.length < M) ∨
          (∃ (pp : Path) (s : Nat) (after : Json), h.path = pp ++ [.idx (s : Int)] ∧
            h.before = [] ∧ h.after = [after] ∧ after.wf = true ∧ h.remove.length ≤ 1 ∧
            s + 1 < M)

theorem lastIdx_mem {p : Path} {i : Int} (h : lastIdx? p = some i) : PathElem.idx i ∈ p := by
  unfold lastIdx? at h
  split at h
  · rename_i j hj
    injection h with h; subst h
    exact List.mem_of_getLast? hj
  · cases h

theorem wfList_nodeList {b : Json} (h : b.wf = true) : wfList b.nodeList = true := by
  unfold Json.nodeList
  split <;> simp [wfList, h]

theorem noVoid_nodeList (b : Json) : noVoid b.nodeList := by
  intro x hx
  unfold Json.nodeList at hx
  split at hx
  · cases hx
  · simp only [List.mem_singleton] at hx; subst hx
    rename_i h; simpa using h

theorem nodeList_length_le (b : Json) : b.nodeList.length ≤ 1 := by
  unfold Json.nodeList; split <;> simp

theorem nodeList_of_nonvoid {b : Json} (h : b.isVoid = false) : b.nodeList = [b] := by
  simp [Json.nodeList, h]

/-- a generated hunk satisfies the side conditions of the rendering theorem -/
theorem Gen.hunkOK {M : Nat} {h : Hunk} (g : Gen M h) : HunkOK h where
  remNoVoid := g.remNoVoid
  addNoVoid := g.addNoVoid
  wfBefore := by
    rcases g.shape with ⟨h1, _⟩ | ⟨pp, s, prev, after, _, h1, _, hw, _⟩ | ⟨pp, s, after, _, h1, _⟩
    · rw [h1]; rfl
    · rw [h1]; simp [wfList, hw]
    · rw [h1]; rfl
  wfAfter := by
    rcases g.shape with ⟨_, h1, _⟩ | ⟨pp, s, prev, after, _, _, h1, _, hw, _⟩ |
      ⟨pp, s, after, _, _, h1, hw, _⟩
    · rw [h1]; rfl
    · rw [h1]; simp [wfList, hw]
    · rw [h1]; simp [wfList, hw]
  wfAdd := g.wfAdd
  append := by
    intro hl
    have := (g.pathIdx _ (lastIdx_mem hl)).1
    omega

theorem Gen.hunkRange {M : Nat} {h : Hunk} (g : Gen M h) (hM : M ≤ 2 ^ 53) : HunkRange h where
  path := by
    intro i hi
    have := g.pathIdx i hi
    omega
  ctx := by
    intro i hi
    have h0 := g.pathIdx i (lastIdx_mem hi)
    rcases g.shape with ⟨_, _, h3, h4⟩ | ⟨pp, s, prev, after, hp, _, _, _, _, hs⟩ |
      ⟨pp, s, after, hp, _, _, _, h3, hs⟩
    · have := h4 i hi
      omega
    · rw [hp, lastIdx_concat_idx] at hi
      injection hi with hi
      omega
    · rw [hp, lastIdx_concat_idx] at hi
      injection hi with hi
      omega

/-- the accumulated list hunk -/
theorem gen_accHunk {M N N' : Nat} {p : Path} {s : Nat} {prev after : Json} {R A : List Json}
    (hp : ∀ i, PathElem.idx i ∈ p → 0 ≤ i ∧ i + 1 < (M : Int))
    (hR : DL N R) (hA : DL N' A) (hprev : prev.wf = true) (hafter : after.wf = true)
    (hs : s + R.length < M) :
    ∀ h ∈ accHunk p s prev R A after, Gen M h := by
  intro h hm
  unfold accHunk at hm
  split at hm
  · cases hm
  · rename_i hne
    simp only [List.mem_singleton] at hm
    subst hm
    refine ⟨hR.noVoid, hA.noVoid, hA.wf, by simpa using hne, ?_,
      .inr (.inl ⟨p, s, prev, after, rfl, rfl, rfl, hprev, hafter, hs⟩)⟩
    intro i hi
    simp only [List.mem_append, List.mem_singleton] at hi
    rcases hi with hi | hi
    · have := hp i hi; omega
    · injection hi with hi; omega

/-! ## 2. every hunk of a list-mode diff is a generated hunk -/

/-- indices of the path prefix handed down by the recursion -/
def PathOK (M : Nat) (p : Path) : Prop := ∀ i, PathElem.idx i ∈ p → 0 ≤ i ∧ i + 1 < (M : Int)

theorem PathOK.nil (M : Nat) : PathOK M [] := fun _ h => by cases h

theorem PathOK.key {M : Nat} {p : Path} (h : PathOK M p) (k : String) : PathOK M (p ++ [.key k]) := by
  intro i hi
  simp only [List.mem_append, List.mem_singleton] at hi
  rcases hi with hi | hi
  · exact h i hi
  · cases hi

theorem PathOK.idx {M : Nat} {p : Path} (h : PathOK M p) {k : Nat} (hk : k + 1 < M) :
    PathOK M (p ++ [.idx (k : Int)]) := by
  intro i hi
  simp only [List.mem_append, List.mem_singleton] at hi
  rcases hi with hi | hi
  · exact h i hi
  · injection hi with hi; omega

/-- a plain replacement hunk at the path `p` -/
theorem gen_plain {M : Nat} {p : Path} (hp : PathOK M p) {rem add : List Json}
    (hr : noVoid rem) (ha : noVoid add) (hw : wfList add = true)
    (hne : (rem.isEmpty && add.isEmpty) = false) (hl : rem.length ≤ 1) :
    Gen M { path := p, remove := rem, add := add } := by
  refine ⟨hr, ha, hw, hne, fun i hi => ?_, .inl ⟨rfl, rfl, hl, fun i hi => ?_⟩⟩
  · have := hp i hi; omega
  · exact (hp i (lastIdx_mem hi)).2

theorem noVoid_single {x : Json} (h : x.isVoid = false) : noVoid [x] := by
  intro y hy; simp only [List.mem_singleton] at hy; subst hy; exact h

theorem equals_void_void : equals [] .void .void = true := by
  simp [equals, Json.isVoid]

theorem isVoid_eq {x : Json} (h : x.isVoid = true) : x = .void := by
  cases x <;> simp_all [Json.isVoid]

theorem gen_diffCommon {M : Nat} {p : Path} (hp : PathOK M p) {a b : Json} (hb : b.wf = true) :
    ∀ h ∈ diffCommon false a b p, Gen M h := by
  intro h hm
  unfold diffCommon at hm
  split at hm
  · cases hm
  · rename_i hne
    simp only [Bool.false_eq_true, if_false, List.mem_singleton] at hm
    subst hm
    refine gen_plain hp (noVoid_nodeList a) (noVoid_nodeList b) (wfList_nodeList hb) ?_
      (nodeList_length_le a)
    cases hva : a.isVoid with
    | false => simp [Json.nodeList, hva]
    | true =>
      cases hvb : b.isVoid with
      | false => simp [Json.nodeList, hvb]
      | true =>
        rw [isVoid_eq hva, isVoid_eq hvb] at hne
        exact absurd equals_void_void hne

section Induction
variable (Na Nb : Nat)

/-- **the hunk invariant**, by induction over `diffNode` / `diffKvs` / `diffRest` (list mode, strict
    strategy): `Na` bounds the array lengths of the first document, `Nb` those of the second;
    the indices written stay below `Na + Nb + 1`.
    In `diffNode` the second document must not be void when the first is an object (that hunk adds the
    void marker: see `obj_void_hunk`). -/
theorem diff_gen (o : Opts) (ho : dispatchTag o = .list) :
    (∀ a b, a.listDoc = true → b.listDoc = true → D Na a → D Nb b →
      (a.isObj && b.isVoid) = false → ∀ p, PathOK (Na + Nb + 1) p →
      ∀ h ∈ diffNode o false a b p, Gen (Na + Nb + 1) h) ∧
    (∀ kvs' kvs, listDocKvs kvs' = true → listDocKvs kvs = true → DK Na kvs → DK Nb kvs' →
      ∀ p, PathOK (Na + Nb + 1) p → ∀ h ∈ diffKvs o false p kvs' kvs, Gen (Na + Nb + 1) h) ∧
    (∀ k s prev a b c R A, listDocList a = true → listDocList b = true →
      DL Na a → DL Nb b → DL Na R → DL Nb A → prev.wf = true → s ≤ k → k + b.length ≤ Nb →
      R.length + a.length ≤ Na → ∀ p, PathOK (Na + Nb + 1) p →
      ∀ h ∈ diffRest o p k s prev a b c R A, Gen (Na + Nb + 1) h) := by
  apply listDiff_induct o ho
    (mN := fun a b => D Na a → D Nb b → (a.isObj && b.isVoid) = false → ∀ p,
      PathOK (Na + Nb + 1) p → ∀ h ∈ diffNode o false a b p, Gen (Na + Nb + 1) h)
    (mK := fun kvs' kvs => DK Na kvs → DK Nb kvs' →
      ∀ p, PathOK (Na + Nb + 1) p → ∀ h ∈ diffKvs o false p kvs' kvs, Gen (Na + Nb + 1) h)
    (mR := fun k s prev a b c R A => DL Na a → DL Nb b → DL Na R → DL Nb A → prev.wf = true →
      s ≤ k → k + b.length ≤ Nb → R.length + a.length ≤ Na → ∀ p, PathOK (Na + Nb + 1) p →
      ∀ h ∈ diffRest o p k s prev a b c R A, Gen (Na + Nb + 1) h)
  · -- list against list
    intro t t' xs ys ht ht' htt _ _ ih da db _ p hp h hm
    rw [diffNode_arr_arr ho xs ys ht ht' htt] at hm
    have da' := d_arr.1 da
    have db' := d_arr.1 db
    exact ih da'.2 db'.2 (DL.nil _) (DL.nil _) rfl (Nat.le_refl _) (by simpa using db'.1)
      (by simpa using da'.1) p hp h hm
  · -- list against something else
    intro t xs b ht _ _ hb da db _ p hp h hm
    rw [diffNode_arr_other ho xs b ht hb] at hm
    simp only [List.mem_singleton] at hm
    subst hm
    exact gen_plain hp (noVoid_single rfl) (noVoid_nodeList b) (wfList_nodeList db.wf) (by simp)
      (by simp)
  · -- object against object
    intro kvs kvs' _ _ ih da db _ p hp h hm
    rw [diffNode_obj_obj] at hm
    have da' := d_obj.1 da
    have db' := d_obj.1 db
    rcases List.mem_append.1 hm with hm | hm
    · exact ih da'.2 db'.2 p hp h hm
    · obtain ⟨kv, hkv, rfl⟩ := List.mem_map.1 hm
      have hkv' := (List.mem_filter.1 hkv).1
      obtain ⟨dv, hv⟩ := db'.2.of_mem (k := kv.1) (v := kv.2) hkv'
      rw [nodeList_of_nonvoid hv]
      exact gen_plain (hp.key kv.1) (fun _ h => by cases h) (noVoid_single hv)
        (by simp [wfList, dv.wf]) (by simp) (by simp)
  · -- object against something else
    intro kvs b _ _ hb da db hv p hp h hm
    rw [diffNode_obj_other o kvs b hb] at hm
    simp only [List.mem_singleton] at hm
    subst hm
    have hv' : b.isVoid = false := by simpa [Json.isObj] using hv
    exact gen_plain hp (noVoid_single rfl) (noVoid_single hv') (by simp [wfList, db.wf]) (by simp)
      (by simp)
  · -- scalar
    intro a b h1 h2 _ da db _ p hp h hm
    rw [diffNode_scalar o a b h1 h2] at hm
    exact gen_diffCommon hp db.wf h hm
  · intro kvs' _ _ p _ h hm
    simp [diffKvs_nil] at hm
  · -- one member of the first object
    intro kvs' k v r hl' _ _ ihN ihK da db p hp h hm
    rw [diffKvs_cons] at hm
    obtain ⟨⟨dv, hv⟩, dr⟩ := dk_cons.1 da
    rcases List.mem_append.1 hm with hm | hm
    · cases hlk : alookup k kvs' with
      | none =>
        simp only [hlk, List.mem_singleton] at hm
        subst hm
        rw [nodeList_of_nonvoid hv]
        exact gen_plain (hp.key k) (noVoid_single hv) (fun _ h => by cases h) rfl (by simp) (by simp)
      | some v' =>
        simp only [hlk] at hm
        obtain ⟨dv', hv'⟩ := db.lookup hlk
        exact ihN v' (alookup_listDoc hlk hl') dv dv' (by simp [hv']) _ (hp.key k) h hm
    · exact ihK dr db p hp h hm
  · -- first list exhausted
    intro k s prev c R A b _ da db dR dA hprev hsk hkb hRa p hp h hm
    rw [diffRest_nilA] at hm
    refine gen_accHunk hp dR (dA.append db) hprev rfl ?_ h hm
    simp at hRa; omega
  · -- second list exhausted
    intro k s prev c R A a hne _ da db dR dA hprev hsk hkb hRa p hp h hm
    rw [diffRest_nilB _ _ _ _ _ _ _ _ _ hne] at hm
    refine gen_accHunk hp (dR.append da) dA hprev rfl ?_ h hm
    simp at hkb ⊢; omega
  · -- common element
    intro k s prev c R A x a' y b' _ _ hA hB ih da db dR dA hprev hsk hkb hRa p hp h hm
    rw [diffRest_cons] at hm
    simp only [hA, hB, Bool.and_self, if_true] at hm
    obtain ⟨⟨dx, _⟩, da'⟩ := dl_cons.1 da
    obtain ⟨⟨dy, _⟩, db'⟩ := dl_cons.1 db
    simp only [List.length_cons] at hkb hRa
    rcases List.mem_append.1 hm with hm | hm
    · exact gen_accHunk hp dR dA hprev dx.wf (by omega) h hm
    · exact ih da' db' (DL.nil _) (DL.nil _) dy.wf (Nat.le_refl _) (by omega) (by simp; omega) p hp h hm
  · -- an element of the second list is added
    intro k s prev c R A x a' y b' _ _ hA hB ih da db dR dA hprev hsk hkb hRa p hp h hm
    rw [diffRest_cons] at hm
    simp only [hA, hB, Bool.and_false, Bool.false_eq_true, if_false, if_true] at hm
    obtain ⟨⟨dy, hy⟩, db'⟩ := dl_cons.1 db
    simp only [List.length_cons] at hkb
    exact ih da db' dR (dA.append (DL.single dy hy)) hprev (by omega) (by omega) hRa p hp h hm
  · -- an element of the first list is removed
    intro k s prev c R A x a' y b' _ _ hA hB ih da db dR dA hprev hsk hkb hRa p hp h hm
    rw [diffRest_cons] at hm
    simp only [hA, hB, Bool.false_and, Bool.false_eq_true, if_false, if_true] at hm
    obtain ⟨⟨dx, hx⟩, da'⟩ := dl_cons.1 da
    simp only [List.length_cons] at hRa
    exact ih da' db (dR.append (DL.single dx hx)) dA hprev hsk hkb (by simp; omega) p hp h hm
  · -- two containers of the same type: sub-diff below the index
    intro k s prev c R A x a' y b' hlx hly hA hB hs ihN ihR da db dR dA hprev hsk hkb hRa p hp h hm
    rw [diffRest_cons] at hm
    simp only [hA, hB, hs, Bool.false_and, Bool.false_eq_true, if_false, if_true] at hm
    obtain ⟨⟨dx, hx⟩, da'⟩ := dl_cons.1 da
    obtain ⟨⟨dy, hy⟩, db'⟩ := dl_cons.1 db
    simp only [List.length_cons] at hkb hRa
    rcases List.mem_append.1 hm with hm | hm
    · rcases List.mem_append.1 hm with hm | hm
      · refine gen_accHunk hp dR dA hprev ?_ (by omega) h hm
        split
        · exact da'.headD_wf
        · exact dx.wf
      · simp only [listDocList, Bool.and_eq_true] at hlx hly
        rcases subAfter_diffNode_cases o ho hlx.1 hly.1 hs p (k : Int) (R.isEmpty && A.isEmpty)
          (a'.headD .void) with e | ⟨_, xs, ys, rfl, rfl, _, e⟩
        · rw [e] at hm
          exact ihN dx dy (by simp [hy]) _ (hp.idx (by omega)) h hm
        · rw [e] at hm
          simp only [List.mem_singleton] at hm
          subst hm
          have hpk := hp.idx (M := Na + Nb + 1) (k := k) (by omega)
          refine ⟨noVoid_single rfl, noVoid_single rfl, by simp [wfList, dy.wf], by simp,
            fun i hi => ?_, .inr (.inr ⟨p, k, a'.headD .void, rfl, rfl, rfl, da'.headD_wf,
              by simp, by omega⟩)⟩
          have := hpk i hi; omega
    · exact ihR da' db' (DL.nil _) (DL.nil _) dy.wf (Nat.le_refl _) (by omega) (by simp; omega) p hp h hm
  · -- two unrelated elements: one removed, one added
    intro k s prev c R A x a' y b' _ _ hA hB hs ih da db dR dA hprev hsk hkb hRa p hp h hm
    rw [diffRest_cons] at hm
    simp only [hA, hB, hs, Bool.false_and, Bool.false_eq_true, if_false] at hm
    obtain ⟨⟨dx, hx⟩, da'⟩ := dl_cons.1 da
    obtain ⟨⟨dy, hy⟩, db'⟩ := dl_cons.1 db
    simp only [List.length_cons] at hkb hRa
    exact ih da' db' (dR.append (DL.single dx hx)) (dA.append (DL.single dy hy)) hprev (by omega)
      (by omega) (by simp; omega) p hp h hm

end Induction

/-! ## 3. the paths of the diff are expressible when the keys of the documents are -/

/-- every element of the path can be written as a JSON Pointer token -/
def PE (p : Path) : Prop := ∀ e ∈ p, expressible e

theorem PE.nil : PE [] := fun _ h => by cases h

theorem PE.snoc {p : Path} (h : PE p) {e : PathElem} (he : expressible e) : PE (p ++ [e]) := by
  intro e' he'
  simp only [List.mem_append, List.mem_singleton] at he'
  rcases he' with he' | rfl
  · exact h e' he'
  · exact he

theorem PE.idx {p : Path} (h : PE p) (i : Int) : PE (p ++ [.idx i]) :=
  h.snoc (e := .idx i) trivial

theorem keysExprKvs_mem : ∀ {kvs : List (String × Json)} {k : String} {v : Json},
    keysExprKvs kvs = true → (k, v) ∈ kvs → keyOK k = true ∧ keysExpressible v = true
  | [], _, _, _, hm => by cases hm
  | (k0, v0) :: r, k, v, h, hm => by
    simp only [keysExprKvs, Bool.and_eq_true] at h
    rcases List.mem_cons.1 hm with e | hm
    · cases e; exact h.1
    · exact keysExprKvs_mem h.2 hm

theorem diff_paths_expressible (o : Opts) (ho : dispatchTag o = .list) :
    (∀ a b, a.listDoc = true → b.listDoc = true → keysExpressible a = true →
      keysExpressible b = true → ∀ p, PE p → ∀ h ∈ diffNode o false a b p, PE h.path) ∧
    (∀ kvs' kvs, listDocKvs kvs' = true → listDocKvs kvs = true → keysExprKvs kvs = true →
      keysExprKvs kvs' = true → ∀ p, PE p → ∀ h ∈ diffKvs o false p kvs' kvs, PE h.path) ∧
    (∀ k s prev a b c R A, listDocList a = true → listDocList b = true → keysExprList a = true →
      keysExprList b = true → ∀ p, PE p → ∀ h ∈ diffRest o p k s prev a b c R A, PE h.path) := by
  apply listDiff_induct o ho
    (mN := fun a b => keysExpressible a = true → keysExpressible b = true → ∀ p, PE p →
      ∀ h ∈ diffNode o false a b p, PE h.path)
    (mK := fun kvs' kvs => keysExprKvs kvs = true → keysExprKvs kvs' = true → ∀ p, PE p →
      ∀ h ∈ diffKvs o false p kvs' kvs, PE h.path)
    (mR := fun k s prev a b c R A => keysExprList a = true → keysExprList b = true → ∀ p, PE p →
      ∀ h ∈ diffRest o p k s prev a b c R A, PE h.path)
  · intro t t' xs ys ht ht' htt _ _ ih ka kb p hp h hm
    rw [diffNode_arr_arr ho xs ys ht ht' htt] at hm
    simp only [keysExpressible] at ka kb
    exact ih ka kb p hp h hm
  · intro t xs b ht _ _ hb _ _ p hp h hm
    rw [diffNode_arr_other ho xs b ht hb] at hm
    simp only [List.mem_singleton] at hm
    subst hm; exact hp
  · intro kvs kvs' _ _ ih ka kb p hp h hm
    rw [diffNode_obj_obj] at hm
    simp only [keysExpressible] at ka kb
    rcases List.mem_append.1 hm with hm | hm
    · exact ih ka kb p hp h hm
    · obtain ⟨kv, hkv, rfl⟩ := List.mem_map.1 hm
      have hkv' := (List.mem_filter.1 hkv).1
      exact hp.snoc ((keyOK_iff _).1 (keysExprKvs_mem (k := kv.1) (v := kv.2) kb hkv').1)
  · intro kvs b _ _ hb _ _ p hp h hm
    rw [diffNode_obj_other o kvs b hb] at hm
    simp only [List.mem_singleton] at hm
    subst hm; exact hp
  · intro a b h1 h2 _ _ _ p hp h hm
    rw [diffNode_scalar o a b h1 h2] at hm
    rw [Real.diffCommon_path hm]; exact hp
  · intro kvs' _ _ p _ h hm
    simp [diffKvs_nil] at hm
  · intro kvs' k v r hl' _ _ ihN ihK ka kb p hp h hm
    rw [diffKvs_cons] at hm
    simp only [keysExprKvs, Bool.and_eq_true] at ka
    have hk : expressible (.key k) := (keyOK_iff k).1 ka.1.1
    rcases List.mem_append.1 hm with hm | hm
    · cases hlk : alookup k kvs' with
      | none =>
        simp only [hlk, List.mem_singleton] at hm
        subst hm; exact hp.snoc hk
      | some v' =>
        simp only [hlk] at hm
        exact ihN v' (alookup_listDoc hlk hl') ka.1.2 (keysExprKvs_mem kb (mem_of_alookup hlk)).2 _
          (hp.snoc hk) h hm
    · exact ihK ka.2 kb p hp h hm
  · intro k s prev c R A b _ _ _ p hp h hm
    rw [diffRest_nilA] at hm
    rw [(Real.accHunk_path hm).1]; exact hp.idx _
  · intro k s prev c R A a hne _ _ _ p hp h hm
    rw [diffRest_nilB _ _ _ _ _ _ _ _ _ hne] at hm
    rw [(Real.accHunk_path hm).1]; exact hp.idx _
  · intro k s prev c R A x a' y b' _ _ hA hB ih ka kb p hp h hm
    rw [diffRest_cons] at hm
    simp only [hA, hB, Bool.and_self, if_true] at hm
    simp only [keysExprList, Bool.and_eq_true] at ka kb
    rcases List.mem_append.1 hm with hm | hm
    · rw [(Real.accHunk_path hm).1]; exact hp.idx _
    · exact ih ka.2 kb.2 p hp h hm
  · intro k s prev c R A x a' y b' _ _ hA hB ih ka kb p hp h hm
    rw [diffRest_cons] at hm
    simp only [hA, hB, Bool.and_false, Bool.false_eq_true, if_false, if_true] at hm
    have kb' := kb
    simp only [keysExprList, Bool.and_eq_true] at kb'
    exact ih ka kb'.2 p hp h hm
  · intro k s prev c R A x a' y b' _ _ hA hB ih ka kb p hp h hm
    rw [diffRest_cons] at hm
    simp only [hA, hB, Bool.false_and, Bool.false_eq_true, if_false, if_true] at hm
    have ka' := ka
    simp only [keysExprList, Bool.and_eq_true] at ka'
    exact ih ka'.2 kb p hp h hm
  · intro k s prev c R A x a' y b' _ _ hA hB hs ihN ihR ka kb p hp h hm
    rw [diffRest_cons] at hm
    simp only [hA, hB, hs, Bool.false_and, Bool.false_eq_true, if_false, if_true] at hm
    simp only [keysExprList, Bool.and_eq_true] at ka kb
    rcases List.mem_append.1 hm with hm | hm
    · rcases List.mem_append.1 hm with hm | hm
      · rw [(Real.accHunk_path hm).1]; exact hp.idx _
      · obtain ⟨h0, hm0, hp0, _⟩ := mem_subAfter' hm
        rw [hp0]
        exact ihN ka.1 kb.1 _ (hp.idx _) h0 hm0
    · exact ihR ka.2 kb.2 p hp h hm
  · intro k s prev c R A x a' y b' _ _ hA hB hs ih ka kb p hp h hm
    rw [diffRest_cons] at hm
    simp only [hA, hB, hs, Bool.false_and, Bool.false_eq_true, if_false] at hm
    simp only [keysExprList, Bool.and_eq_true] at ka kb
    exact ih ka.2 kb.2 p hp h hm

/-! ## 4. rendering a generated hunk: succeeds iff its path is expressible; never panics -/

theorem wtok_of_expressible {e : PathElem} (h : expressible e) : ∃ t, wtok e = some t := by
  cases e with
  | key k =>
    obtain ⟨h1, h2⟩ := h
    exact ⟨ptrEscape k, by simp [wtok, h1, h2]⟩
  | idx i => exact ⟨_, rfl⟩
  | _ => exact absurd h (by simp [expressible])

theorem wpp_ok : ∀ {p : Path}, PE p → ∃ s, writePointerPath p = .ok s
  | [], _ => ⟨"", rfl⟩
  | e :: p, h => by
    obtain ⟨t, ht⟩ := wtok_of_expressible (h e List.mem_cons_self)
    obtain ⟨s, hs⟩ := wpp_ok (p := p) (fun e' he' => h e' (List.mem_cons_of_mem _ he'))
    exact ⟨"/" ++ t ++ s, by rw [writePointerPath_cons, ht, hs]⟩

theorem wpp_ne_panic : ∀ (p : Path), writePointerPath p ≠ .panic
  | [] => by simp [writePointerPath_nil]
  | e :: p => by
    rw [writePointerPath_cons]
    have ih := wpp_ne_panic p
    cases wtok e with
    | none => simp
    | some t =>
      cases hp : writePointerPath p with
      | ok s => simp
      | err => simp
      | panic => exact absurd hp ih

theorem wpp_ok_or_err (p : Path) : (∃ s, writePointerPath p = .ok s) ∨ writePointerPath p = .err := by
  cases h : writePointerPath p with
  | ok s => exact .inl ⟨s, rfl⟩
  | err => exact .inr rfl
  | panic => exact absurd h (wpp_ne_panic p)

theorem ctxOps_ne_panic (h : Hunk) (ctx : List Json) (f : Int → Int) : ctxOps h ctx f ≠ .panic := by
  unfold ctxOps
  split
  · split
    · simp
    · split
      · simp
      · split
        · simp
        · rename_i i _
          rcases wpp_ok_or_err (setLastIdx h.path (f i)) with ⟨s, hs⟩ | hs <;> rw [hs] <;> simp
  · simp

/-- `RenderPatch` never panics on one hunk -/
theorem renderPatchHunk_ne_panic (h : Hunk) : renderPatchHunk h ≠ .panic := by
  rw [renderPatchHunk_eq]
  unfold renderPatchHunk'
  rcases wpp_ok_or_err h.path with ⟨s, hs⟩ | hs
  · rw [hs]
    simp only [Outcome.bind_ok]
    split
    · simp
    split
    · simp
    cases hb : ctxOps h h.before (fun i => i - 1) with
    | panic => exact absurd hb (ctxOps_ne_panic _ _ _)
    | err => simp
    | ok bo =>
      simp only [Outcome.bind_ok]
      split
      · simp
      cases ha : ctxOps h h.after (fun i => i + (h.remove.length : Int)) with
      | panic => exact absurd ha (ctxOps_ne_panic _ _ _)
      | err => simp
      | ok ao => simp only [Outcome.bind_ok]; intro hh; cases hh
  · rw [hs]; simp

/-- REFUSAL, one hunk: an inexpressible path element makes the rendering fail with an error -/
theorem renderPatchHunk_refuses {h : Hunk} (hb : ∃ e ∈ h.path, ¬ expressible e) :
    renderPatchHunk h = .err := by
  rw [renderPatchHunk_eq]
  unfold renderPatchHunk'
  rw [writePointerPath_refuses hb]
  rfl

theorem ctxOps_single_ok {h : Hunk} {pp : Path} {s : Int} (hp : h.path = pp ++ [.idx s]) (he : PE pp)
    (c : Json) (f : Int → Int) : ∃ bo, ctxOps h [c] f = .ok bo := by
  unfold ctxOps
  simp only
  by_cases hv : c.isVoid = true
  · rw [if_pos hv]; exact ⟨_, rfl⟩
  · rw [if_neg hv]
    have hne : h.path.isEmpty = false := by rw [hp]; simp
    rw [hne]
    simp only [Bool.false_eq_true, if_false]
    rw [hp, lastIdx_concat_idx]
    simp only [setLastIdx_concat]
    obtain ⟨t, ht⟩ := wpp_ok (he.idx (f s))
    rw [ht]
    exact ⟨_, rfl⟩

theorem PE.of_append {p q : Path} (h : PE (p ++ q)) : PE p :=
  fun e he => h e (List.mem_append_left _ he)

/-- a generated hunk whose path is expressible renders -/
theorem render_gen_ok {M : Nat} {h : Hunk} (g : Gen M h) (he : PE h.path) :
    ∃ ops, renderPatchHunk h = .ok ops := by
  obtain ⟨s, hs⟩ := wpp_ok he
  rw [renderPatchHunk_eq]
  unfold renderPatchHunk'
  rw [hs]
  simp only [Outcome.bind_ok, g.nonEmpty, Bool.false_eq_true, if_false]
  rcases g.shape with ⟨h1, h2, _, _⟩ | ⟨pp, s', prev, after, hp, h1, h2, _, _, _⟩ |
    ⟨pp, s', after, hp, h1, h2, _⟩
  · rw [h1, h2]
    simp only [ctxOps, List.length_nil, Nat.not_lt_zero, gt_iff_lt, if_false, Outcome.bind_ok]
    exact ⟨_, rfl⟩
  · have hpp : PE pp := by rw [hp] at he; exact he.of_append
    obtain ⟨bo, hbo⟩ := ctxOps_single_ok hp hpp prev (fun i => i - 1)
    obtain ⟨ao, hao⟩ := ctxOps_single_ok hp hpp after (fun i => i + (h.remove.length : Int))
    rw [h1, h2, hbo, hao]
    simp only [List.length_singleton, gt_iff_lt, Nat.lt_irrefl, if_false, Outcome.bind_ok]
    exact ⟨_, rfl⟩
  · have hpp : PE pp := by rw [hp] at he; exact he.of_append
    obtain ⟨ao, hao⟩ := ctxOps_single_ok hp hpp after (fun i => i + (h.remove.length : Int))
    have hbo : ctxOps h [] (fun i => i - 1) = .ok [] := rfl
    rw [h1, h2, hbo, hao]
    simp only [List.length_nil, List.length_singleton, gt_iff_lt, Nat.not_lt_zero, Nat.lt_irrefl,
      if_false, Outcome.bind_ok]
    exact ⟨_, rfl⟩

/-! ### a whole diff -/

theorem renderPatchOps_ok_of_all : ∀ {d : Diff}, (∀ h ∈ d, ∃ ops, renderPatchHunk h = .ok ops) →
    ∃ ops, renderPatchOps d = .ok ops
  | [], _ => ⟨[], rfl⟩
  | h :: d, H => by
    obtain ⟨a, ha⟩ := H h List.mem_cons_self
    obtain ⟨b, hb⟩ := renderPatchOps_ok_of_all (d := d) (fun h' hm => H h' (List.mem_cons_of_mem _ hm))
    exact ⟨a ++ b, by rw [renderPatchOps, ha, hb]; rfl⟩

theorem renderPatchOps_ne_panic : ∀ (d : Diff), renderPatchOps d ≠ .panic
  | [] => by simp [renderPatchOps]
  | h :: d => by
    rw [renderPatchOps]
    cases ha : renderPatchHunk h with
    | panic => exact absurd ha (renderPatchHunk_ne_panic h)
    | err => simp
    | ok a =>
      simp only [Outcome.bind_ok]
      cases hb : renderPatchOps d with
      | panic => exact absurd hb (renderPatchOps_ne_panic d)
      | err => simp
      | ok b => simp only [Outcome.bind_ok]; intro hh; cases hh

/-- REFUSAL, a whole diff (any diff): one hunk with an inexpressible path element makes
    `RenderPatch` fail with an error -/
theorem renderPatchOps_refuses {d : Diff} {h : Hunk} (hm : h ∈ d)
    (hb : ∃ e ∈ h.path, ¬ expressible e) : renderPatchOps d = .err := by
  cases hr : renderPatchOps d with
  | err => rfl
  | panic => exact absurd hr (renderPatchOps_ne_panic d)
  | ok ops =>
    exfalso
    induction d generalizing ops with
    | nil => cases hm
    | cons h0 d ih =>
      obtain ⟨a, b, ha, hb', _⟩ := renderPatchOps_ok_cons hr
      rcases List.mem_cons.1 hm with rfl | hm
      · rw [renderPatchHunk_refuses hb] at ha; cases ha
      · exact ih hm b hb'

/-! ### every document has a length bound (so that the statements about success / refusal of the
    rendering need none) -/

mutual
def maxLen : Json → Nat
  | .arr _ xs => max xs.length (maxLenList xs)
  | .obj kvs => maxLenKvs kvs
  | _ => 0
def maxLenList : List Json → Nat
  | [] => 0
  | x :: r => max (maxLen x) (maxLenList r)
def maxLenKvs : List (String × Json) → Nat
  | [] => 0
  | (_, v) :: r => max (maxLen v) (maxLenKvs r)
end

mutual
theorem lenLe_mono {N N' : Nat} (h : N ≤ N') : ∀ (a : Json), lenLe N a = true → lenLe N' a = true
  | .arr _ xs, ha => by
    simp only [lenLe, Bool.and_eq_true, decide_eq_true_eq] at ha ⊢
    exact ⟨by omega, lenLeList_mono h xs ha.2⟩
  | .obj kvs, ha => by
    simp only [lenLe] at ha ⊢
    exact lenLeKvs_mono h kvs ha
  | .void, _ => rfl
  | .null, _ => rfl
  | .bool _, _ => rfl
  | .num _, _ => rfl
  | .str _, _ => rfl
theorem lenLeList_mono {N N' : Nat} (h : N ≤ N') :
    ∀ (xs : List Json), lenLeList N xs = true → lenLeList N' xs = true
  | [], _ => rfl
  | x :: r, ha => by
    simp only [lenLeList, Bool.and_eq_true] at ha ⊢
    exact ⟨lenLe_mono h x ha.1, lenLeList_mono h r ha.2⟩
theorem lenLeKvs_mono {N N' : Nat} (h : N ≤ N') :
    ∀ (kvs : List (String × Json)), lenLeKvs N kvs = true → lenLeKvs N' kvs = true
  | [], _ => rfl
  | (_, v) :: r, ha => by
    simp only [lenLeKvs, Bool.and_eq_true] at ha ⊢
    exact ⟨lenLe_mono h v ha.1, lenLeKvs_mono h r ha.2⟩
end

mutual
theorem lenLe_maxLen : ∀ (a : Json), lenLe (maxLen a) a = true
  | .arr _ xs => by
    simp only [lenLe, maxLen, Bool.and_eq_true]
    exact ⟨decide_eq_true (Nat.le_max_left _ _), lenLeList_mono (Nat.le_max_right _ _) xs (lenLeList_maxLen xs)⟩
  | .obj kvs => by
    simp only [lenLe, maxLen]
    exact lenLeKvs_maxLen kvs
  | .void => rfl
  | .null => rfl
  | .bool _ => rfl
  | .num _ => rfl
  | .str _ => rfl
theorem lenLeList_maxLen : ∀ (xs : List Json), lenLeList (maxLenList xs) xs = true
  | [] => rfl
  | x :: r => by
    simp only [lenLeList, maxLenList, Bool.and_eq_true]
    exact ⟨lenLe_mono (Nat.le_max_left _ _) x (lenLe_maxLen x),
      lenLeList_mono (Nat.le_max_right _ _) r (lenLeList_maxLen r)⟩
theorem lenLeKvs_maxLen : ∀ (kvs : List (String × Json)), lenLeKvs (maxLenKvs kvs) kvs = true
  | [] => rfl
  | (_, v) :: r => by
    simp only [lenLeKvs, maxLenKvs, Bool.and_eq_true]
    exact ⟨lenLe_mono (Nat.le_max_left _ _) v (lenLe_maxLen v),
      lenLeKvs_mono (Nat.le_max_right _ _) r (lenLeKvs_maxLen r)⟩
end

/-! ## 5. the theorems about `a.Diff(b)` -/

mutual
theorem memOK_of_vfree : ∀ (a : Json), vfree a = true → memOK a = true
  | .arr _ xs, h => by simp only [vfree] at h; simp only [memOK]; exact memOKList_of_vfree xs h
  | .obj kvs, h => by simp only [vfree] at h; simp only [memOK]; exact memOKKvs_of_vfree kvs h
  | .void, _ => rfl
  | .null, _ => rfl
  | .bool _, _ => rfl
  | .num _, _ => rfl
  | .str _, _ => rfl
theorem memOKList_of_vfree : ∀ (xs : List Json), vfreeList xs = true → memOKList xs = true
  | [], _ => rfl
  | x :: r, h => by
    simp only [vfreeList, Bool.and_eq_true] at h
    simp only [memOKList, Bool.and_eq_true]
    exact ⟨memOK_of_vfree x h.1.2, memOKList_of_vfree r h.2⟩
theorem memOKKvs_of_vfree : ∀ (kvs : List (String × Json)), vfreeKvs kvs = true → memOKKvs kvs = true
  | [], _ => rfl
  | (_, v) :: r, h => by
    simp only [vfreeKvs, Bool.and_eq_true] at h
    simp only [memOKKvs, Bool.and_eq_true]
    exact ⟨⟨h.1.1, memOK_of_vfree v h.1.2⟩, memOKKvs_of_vfree r h.2⟩
end

/-- the one diff whose hunk is not a `HunkOK` hunk: an object against "no document" -/
def objVoidHunk (kvs : List (String × Json)) : Hunk :=
  { path := [], remove := [Json.obj kvs], add := [.void] }

theorem diffM_obj_void (o : Opts) (hm : isMerge o = false) (kvs : List (String × Json)) :
    diffM o (.obj kvs) .void = [objVoidHunk kvs] := by
  unfold diffM
  rw [hm, diffNode_obj_other o kvs .void (fun _ h => by cases h)]
  rfl

theorem render_objVoidHunk (kvs : List (String × Json)) :
    renderPatchOps [objVoidHunk kvs] =
      .ok [{ op := "test", path := "", value := .obj kvs }, { op := "remove", path := "", value := .obj kvs }] := by
  have : renderPatchHunk (objVoidHunk kvs) =
      .ok [{ op := "test", path := "", value := .obj kvs }, { op := "remove", path := "", value := .obj kvs }] := by
    rw [renderPatchHunk_eq]
    simp [renderPatchHunk', objVoidHunk, writePointerPath_nil, ctxOps, remOpsOf, addOpsOf, Json.isVoid]
    rfl
  rw [renderPatchOps, this]
  rfl

/-- FINDING (boundary, not a defect of the Go code: the void marker is not a JSON value): the hunk of
    `{…}.Diff(void)` adds the void marker, so it is not a `HunkOK` hunk -/
theorem objVoidHunk_not_hunkOK (kvs : List (String × Json)) : ¬ HunkOK (objVoidHunk kvs) := by
  intro h
  have := h.addNoVoid .void (by simp [objVoidHunk])
  simp [Json.isVoid] at this

section Main
variable (o : Opts) (ho : dispatchTag o = .list) (hm : isMerge o = false) (a b : Json)
  (ha1 : a.listDoc = true) (ha2 : a.wf = true) (ha4 : vfree a = true)
  (hb1 : b.listDoc = true) (hb2 : b.wf = true) (hb4 : vfree b = true)
  {Na Nb : Nat} (la : lenLe Na a = true) (lb : lenLe Nb b = true)
include ho hm ha1 ha2 ha4 hb1 hb2 hb4 la lb

/-- every hunk of `a.Diff(b)` is a generated hunk (`Gen`), except for an object against void -/
theorem diffM_gen (hv : (a.isObj && b.isVoid) = false) : ∀ h ∈ diffM o a b, Gen (Na + Nb + 1) h := by
  unfold diffM
  rw [hm]
  exact (diff_gen Na Nb o ho).1 a b ha1 hb1 ⟨ha2, ha4, la⟩ ⟨hb2, hb4, lb⟩ hv [] (PathOK.nil _)

/-- **HunkOK / HunkRange are theorems about `Diff`** (list reading): every hunk of `a.Diff(b)`
    satisfies the side conditions of the rendering theorem of C09 -/
theorem diffM_hunks_ok (hN : Na + Nb < 2 ^ 53) (hv : (a.isObj && b.isVoid) = false) :
    ∀ h ∈ diffM o a b, HunkOK h ∧ HunkRange h := by
  intro h hh
  have g := diffM_gen o ho hm a b ha1 ha2 ha4 hb1 hb2 hb4 la lb hv h hh
  exact ⟨g.hunkOK, g.hunkRange (by omega)⟩

omit ha2 ha4 hb2 hb4 la lb in
/-- the paths of `a.Diff(b)` are expressible when all object keys of `a` and `b` are -/
theorem diffM_paths_expressible (ka : keysExpressible a = true) (kb : keysExpressible b = true) :
    ∀ h ∈ diffM o a b, PE h.path := by
  unfold diffM
  rw [hm]
  exact (diff_paths_expressible o ho).1 a b ha1 hb1 ka kb [] PE.nil

omit la lb in
/-- **when `RenderPatch` succeeds on `a.Diff(b)`**: exactly when every path element of every hunk is
    expressible (an object key that is not number-like and not "-", or a list index) -/
theorem render_diffM_ok_iff :
    (∃ ops, renderPatchOps (diffM o a b) = .ok ops) ↔ ∀ h ∈ diffM o a b, PE h.path := by
  constructor
  · rintro ⟨ops, hr⟩ h hh
    refine Classical.byContradiction fun hn => ?_
    have : ∃ e ∈ h.path, ¬ expressible e := by
      refine Classical.byContradiction fun hn' => hn (fun e he => Classical.byContradiction fun hx => hn' ⟨e, he, hx⟩)
    rw [renderPatchOps_refuses hh this] at hr
    cases hr
  · intro hp
    cases hv : (a.isObj && b.isVoid) with
    | false =>
      exact renderPatchOps_ok_of_all fun h hh =>
        render_gen_ok (diffM_gen o ho hm a b ha1 ha2 ha4 hb1 hb2 hb4 (lenLe_maxLen a) (lenLe_maxLen b)
          hv h hh) (hp h hh)
    | true =>
      simp only [Bool.and_eq_true] at hv
      cases a with
      | obj kvs =>
        rw [isVoid_eq hv.2, diffM_obj_void o hm, render_objVoidHunk]
        exact ⟨_, rfl⟩
      | _ => simp [Json.isObj] at hv

omit la lb in
/-- **REFUSAL on generated diffs**: otherwise `RenderPatch` returns an error (never a panic, never a
    mistranslated patch) -/
theorem render_diffM_err_iff :
    renderPatchOps (diffM o a b) = .err ↔ ∃ h ∈ diffM o a b, ∃ e ∈ h.path, ¬ expressible e := by
  constructor
  · intro he
    refine Classical.byContradiction fun hn => ?_
    have hp : ∀ h ∈ diffM o a b, PE h.path := fun h hh e hee =>
      Classical.byContradiction fun hx => hn ⟨h, hh, e, hee, hx⟩
    obtain ⟨ops, hr⟩ := (render_diffM_ok_iff o ho hm a b ha1 ha2 ha4 hb1 hb2 hb4).2 hp
    rw [hr] at he; cases he
  · rintro ⟨h, hh, hb⟩
    exact renderPatchOps_refuses hh hb

end Main

/-! ## 6. C09 on the source, without the hunk hypothesis -/

theorem eval_objVoid (L : FloatLaws) {kvs : List (String × Json)} (g : Good (.obj kvs)) :
    eval (.obj kvs)
      (([{ op := "test", path := "", value := .obj kvs },
         { op := "remove", path := "", value := .obj kvs }] : List PatchOp).map PatchOp.toSpec) =
      some .void := by
  have hs : equivB [] (Json.obj kvs) (Json.obj kvs) = true := DPL.specEq_refl L g
  have hp : parsePointer "" = some [] := by decide
  simp [eval, evalOp, PatchOp.toSpec, hp, getP, removeP, Json.isVoid, hs]

/-- **C09, statement 3, closed** (sharp form): the hypothesis on the hunks is gone; what remains of it
    is that the paths of the diff are expressible, which is exactly the condition under which
    `RenderPatch` succeeds (`render_diffM_ok_iff`). -/
theorem rendered_patch_of_diff_yields_target_of_paths (L : FloatLaws) (o : Opts)
    (ho : dispatchTag o = .list) (hm : isMerge o = false) (a b : Json)
    (ha1 : a.listDoc = true) (ha2 : a.wf = true) (ha3 : a.finiteNums = true) (ha4 : vfree a = true)
    (hb1 : b.listDoc = true) (hb2 : b.wf = true) (hb3 : b.finiteNums = true) (hb4 : vfree b = true)
    {Na Nb : Nat} (la : lenLe Na a = true) (lb : lenLe Nb b = true) (hN : Na + Nb < 2 ^ 53)
    (H : DPL.HashOK o a b) (Z : DPL.ZeroOK a b)
    (hp : ∀ h ∈ diffM o a b, PE h.path) :
    ∃ ops r, renderPatchOps (diffM o a b) = .ok ops ∧ (∀ op ∈ ops, op.wfOp) ∧
      eval a (ops.map PatchOp.toSpec) = some r ∧ specEq r b = true ∧ specEq b r = true := by
  obtain ⟨ops, er⟩ := (render_diffM_ok_iff o ho hm a b ha1 ha2 ha4 hb1 hb2 hb4).2 hp
  have ga : Good a := ⟨ha1, ha2, ha3, memOK_of_vfree a ha4⟩
  cases hv : (a.isObj && b.isVoid) with
  | false =>
    have hd := diffM_hunks_ok o ho hm a b ha1 ha2 ha4 hb1 hb2 hb4 la lb hN hv
    obtain ⟨r, hr, hs, hs', _⟩ := DPL.diffM_list_correct L o ho hm a b ha1 ha2 ha3
      (memOK_of_vfree a ha4) hb1 hb2 hb3 (memOK_of_vfree b hb4) H Z
    obtain ⟨r', h1, h2⟩ := renderPatchOps_correct L ha2 hd hr er
    refine ⟨ops, r', er, renderPatchOps_wfOps er, h1, ?_, ?_⟩
    · rw [← specEq_untag_left, h2, specEq_untag_left]; exact hs
    · rw [← specEq_untag_right, h2, specEq_untag_right]; exact hs'
  | true =>
    simp only [Bool.and_eq_true] at hv
    cases a with
    | obj kvs =>
      have hb : b = .void := isVoid_eq hv.2
      subst hb
      rw [diffM_obj_void o hm, render_objVoidHunk] at er
      injection er with er
      subst er
      exact ⟨_, .void, by rw [diffM_obj_void o hm, render_objVoidHunk], renderPatchOps_wfOps (render_objVoidHunk kvs),
        eval_objVoid L ga, DPL.specEq_void_void, DPL.specEq_void_void⟩
    | _ => simp [Json.isObj] at hv

/-- **C09, statement 3, closed**: for `a`, `b` in the C01 list domain (list documents, sorted unique
    keys, finite numbers, no void marker inside, no hash collision, no `0` / `-0` pair), array lengths
    bounded by `Na`, `Nb` with `Na + Nb < 2^53`, and all object keys expressible as JSON Pointer
    tokens: `RenderPatch(a.Diff(b))` succeeds, is a list of `test` / `remove` / `add` operations, and
    the independent RFC 6902 evaluator turns `a` into a document structurally equal to `b`. -/
theorem rendered_patch_of_diff_yields_target_closed (L : FloatLaws) (o : Opts)
    (ho : dispatchTag o = .list) (hm : isMerge o = false) (a b : Json)
    (ha1 : a.listDoc = true) (ha2 : a.wf = true) (ha3 : a.finiteNums = true) (ha4 : vfree a = true)
    (hb1 : b.listDoc = true) (hb2 : b.wf = true) (hb3 : b.finiteNums = true) (hb4 : vfree b = true)
    {Na Nb : Nat} (la : lenLe Na a = true) (lb : lenLe Nb b = true) (hN : Na + Nb < 2 ^ 53)
    (H : DPL.HashOK o a b) (Z : DPL.ZeroOK a b)
    (ka : keysExpressible a = true) (kb : keysExpressible b = true) :
    ∃ ops r, renderPatchOps (diffM o a b) = .ok ops ∧ (∀ op ∈ ops, op.wfOp) ∧
      eval a (ops.map PatchOp.toSpec) = some r ∧ specEq r b = true ∧ specEq b r = true :=
  rendered_patch_of_diff_yields_target_of_paths L o ho hm a b ha1 ha2 ha3 ha4 hb1 hb2 hb3 hb4 la lb hN
    H Z (diffM_paths_expressible o ho hm a b ha1 hb1 ka kb)

/-! ## 7. REFUSAL in terms of the inputs: a changed location at or below a key that is number-like
    or "-" makes `RenderPatch(a.Diff(b))` fail with an error -/


theorem keys_induct (P : Path → Prop) (nil : P [])
    (cons : ∀ k q, Real.keysOnly q = true → P q → P (.key k :: q)) : ∀ q, Real.keysOnly q = true → P q
  | [], _ => nil
  | .key k :: q, h => by
    simp only [Real.keysOnly] at h
    exact cons k q h (keys_induct P nil cons q h)
  | .idx _ :: _, h => by simp [Real.keysOnly] at h
  | .set :: _, h => by simp [Real.keysOnly] at h
  | .mset :: _, h => by simp [Real.keysOnly] at h
  | .setKeys _ :: _, h => by simp [Real.keysOnly] at h
  | .msetKeys _ :: _, h => by simp [Real.keysOnly] at h

theorem getAt_key_inv {a u : Json} {k : String} {q : Path} (h : Real.getAt a (.key k :: q) = some u) :
    ∃ kvs w, a = .obj kvs ∧ alookup k kvs = some w ∧ Real.getAt w q = some u := by
  cases a with
  | obj kvs =>
    simp only [Real.getAt] at h
    cases hw : alookup k kvs with
    | none => simp [hw] at h
    | some w =>
      simp only [hw, Option.bind_some] at h
      exact ⟨kvs, w, rfl, hw, h⟩
  | _ => simp [Real.getAt] at h

/-- a member present on both sides: its sub-diff is part of the first loop of the object diff -/
theorem mem_diffKvs_of_lookup {o : Opts} {p : Path} {kvs' : List (String × Json)} {k : String}
    {w w' : Json} (hw' : alookup k kvs' = some w') :
    ∀ {kvs : List (String × Json)}, alookup k kvs = some w →
      ∀ h ∈ diffNode o false w w' (p ++ [.key k]), h ∈ diffKvs o false p kvs' kvs
  | [], hw, _, _ => by simp [alookup] at hw
  | (k0, v0) :: r, hw, h, hm => by
    rw [diffKvs_cons]
    simp only [alookup] at hw
    split at hw
    · next e =>
      injection hw with hw
      subst e; subst hw
      exact List.mem_append_left _ (by simpa only [hw'] using hm)
    · exact List.mem_append_right _ (mem_diffKvs_of_lookup hw' hw h hm)

/-- a member of the first object that the second lacks: its removal hunk -/
theorem mem_diffKvs_removed {o : Opts} {p : Path} {kvs' : List (String × Json)} {k : String}
    {w : Json} (hw' : alookup k kvs' = none) :
    ∀ {kvs : List (String × Json)}, alookup k kvs = some w →
      ({ path := p ++ [.key k], remove := w.nodeList } : Hunk) ∈ diffKvs o false p kvs' kvs
  | [], hw => by simp [alookup] at hw
  | (k0, v0) :: r, hw => by
    rw [diffKvs_cons]
    simp only [alookup] at hw
    split at hw
    · next e =>
      injection hw with hw
      subst e; subst hw
      exact List.mem_append_left _ (by simp only [hw', List.mem_singleton])
    · exact List.mem_append_right _ (mem_diffKvs_removed hw' hw)

/-- the diff of what two documents hold at a key path is part of their diff (converse of
    `Real.hunk_below_keys`) -/
theorem hunks_of_subdiff {o : Opts} :
    ∀ (q : Path), Real.keysOnly q = true → ∀ (a b u u' : Json), Real.getAt a q = some u →
      Real.getAt b q = some u' → ∀ p, ∀ h ∈ diffNode o false u u' (p ++ q), h ∈ diffNode o false a b p := by
  refine keys_induct _ ?_ ?_
  · intro a b u u' hu hu' p h hm
    simp only [Real.getAt, Option.some.injEq] at hu hu'
    subst hu; subst hu'
    simpa using hm
  · intro k q _ ih a b u u' hu hu' p h hm
    obtain ⟨kvs, w, rfl, hw, hu⟩ := getAt_key_inv hu
    obtain ⟨kvs', w', rfl, hw', hu'⟩ := getAt_key_inv hu'
    rw [diffNode_obj_obj]
    refine List.mem_append_left _ (mem_diffKvs_of_lookup hw' hw h ?_)
    exact ih w w' u u' hu hu' (p ++ [.key k]) h (by simpa using hm)

/-- a path below which something is inexpressible -/
def BadPath (q : Path) : Prop := ∃ e ∈ q, ¬ expressible e

theorem BadPath.of_prefix {q l : Path} (h : BadPath q) (hp : q <+: l) : BadPath l := by
  obtain ⟨e, he, hn⟩ := h
  exact ⟨e, hp.subset he, hn⟩

theorem badPath_key {k : String} (h : keyOK k = false) (q r : Path) : BadPath (q ++ .key k :: r) :=
  ⟨.key k, by simp, fun he => by rw [(keyOK_iff k).2 he] at h; cases h⟩

/-- **REFUSAL (i)**: `a` and `b` hold `u` and `u'` at the key path `q`, which contains a key that is
    number-like or "-", and `u.Diff(u')` is not empty: `RenderPatch(a.Diff(b))` is an error -/
theorem refuses_changed_at_bad_path {o : Opts} (ho : dispatchTag o = .list) (hm : isMerge o = false)
    {a b : Json} (ha : a.listDoc = true) (hb : b.listDoc = true) {q : Path} (hq : Real.keysOnly q = true)
    (hbad : BadPath q) {u u' : Json} (hu : Real.getAt a q = some u) (hu' : Real.getAt b q = some u')
    (hne : diffM o u u' ≠ []) : renderPatchOps (diffM o a b) = .err := by
  have hlu := Real.getAt_keys_listDoc q hq a u ha hu
  have hlu' := Real.getAt_keys_listDoc q hq b u' hb hu'
  unfold diffM at hne ⊢
  rw [hm] at hne ⊢
  have e := (diff_shift o ho).1 u u' hlu hlu' q []
  simp only [List.append_nil] at e
  cases hd : diffNode o false u u' q with
  | nil => rw [hd] at e; exact absurd (List.map_eq_nil_iff.1 e.symm) hne
  | cons h d =>
    have hmem : h ∈ diffNode o false u u' q := by rw [hd]; exact List.mem_cons_self
    have hpre := Real.diff_paths_extend ho hlu hlu' q h hmem
    have hin := hunks_of_subdiff q hq a b u u' hu hu' [] h (by simpa using hmem)
    exact renderPatchOps_refuses hin (hbad.of_prefix hpre)

/-- on the C01 domain a structural difference gives a non-empty diff -/
theorem diffM_ne_nil_of_ne (L : FloatLaws) {o : Opts} (ho : dispatchTag o = .list)
    (hm : isMerge o = false) {u u' : Json} (gu : Good u) (gu' : Good u') (H : DPL.HashOK o u u')
    (Z : DPL.ZeroOK u u') (hne : specEq u u' = false) : diffM o u u' ≠ [] := by
  intro hd
  obtain ⟨r, hr, hs, _⟩ := DPL.diffM_list_correct L o ho hm u u' gu.listDoc gu.wf gu.fin gu.mem
    gu'.listDoc gu'.wf gu'.fin gu'.mem H Z
  rw [hd] at hr
  simp only [applyStrictAll, Option.some.injEq] at hr
  subst hr
  rw [hs] at hne; cases hne

theorem getAt_sub : ∀ (q : Path), Real.keysOnly q = true → ∀ (a u : Json), Real.getAt a q = some u →
    Sub (subterms u) (subterms a) := by
  refine keys_induct _ ?_ ?_
  · intro a u hu
    simp only [Real.getAt, Option.some.injEq] at hu
    subst hu; exact fun _ h => h
  · intro k q _ ih a u hu
    obtain ⟨kvs, w, rfl, hw, hu⟩ := getAt_key_inv hu
    intro z hz
    have h1 := ih w u hu z hz
    simp only [subterms, List.mem_cons]
    exact .inr (subterms_of_mem_kvs (mem_of_alookup hw) z h1)

/-- **REFUSAL (i), on the C01 domain**: a value that differs structurally at a key path containing a
    key that is number-like or "-" -/
theorem refuses_value_changed_at_bad_path (L : FloatLaws) {o : Opts} (ho : dispatchTag o = .list)
    (hm : isMerge o = false) {a b : Json} (ga : Good a) (gb : Good b) (H : DPL.HashOK o a b)
    (Z : DPL.ZeroOK a b) {q : Path} (hq : Real.keysOnly q = true) (hbad : BadPath q) {u u' : Json}
    (hu : Real.getAt a q = some u) (hu' : Real.getAt b q = some u') (hne : specEq u u' = false) :
    renderPatchOps (diffM o a b) = .err := by
  have su := getAt_sub q hq a u hu
  have su' := getAt_sub q hq b u' hu'
  refine refuses_changed_at_bad_path ho hm ga.listDoc gb.listDoc hq hbad hu hu' ?_
  refine diffM_ne_nil_of_ne L ho hm (good_subterms a ga u (su u (self_mem_subterms u)))
    (good_subterms b gb u' (su' u' (self_mem_subterms u'))) ?_ ?_ hne
  · intro x hx y hy; exact H x (su x hx) y (su' y hy)
  · intro x y hx hy; exact Z x y (su _ hx) (su' _ hy)

/-- **REFUSAL (ii)**: a member removed at or below a key that is number-like or "-" -/
theorem refuses_member_removed {o : Opts} (hm : isMerge o = false)
    {a b : Json} {q : Path} (hq : Real.keysOnly q = true)
    {kvs kvs' : List (String × Json)} (hu : Real.getAt a q = some (.obj kvs))
    (hu' : Real.getAt b q = some (.obj kvs')) {k : String} {w : Json} (hw : alookup k kvs = some w)
    (hw' : alookup k kvs' = none) (hbad : BadPath (q ++ [.key k])) :
    renderPatchOps (diffM o a b) = .err := by
  have hin : ({ path := q ++ [.key k], remove := w.nodeList } : Hunk) ∈ diffM o a b := by
    unfold diffM
    rw [hm]
    refine hunks_of_subdiff q hq a b _ _ hu hu' [] _ ?_
    rw [diffNode_obj_obj]
    exact List.mem_append_left _ (by simpa using mem_diffKvs_removed (o := o) (p := q) hw' hw)
  exact renderPatchOps_refuses hin hbad

/-- **REFUSAL (iii)**: a member added at or below a key that is number-like or "-" -/
theorem refuses_member_added {o : Opts} (hm : isMerge o = false)
    {a b : Json} {q : Path} (hq : Real.keysOnly q = true)
    {kvs kvs' : List (String × Json)} (hu : Real.getAt a q = some (.obj kvs))
    (hu' : Real.getAt b q = some (.obj kvs')) {k : String} {w' : Json} (hw : alookup k kvs = none)
    (hw' : (k, w') ∈ kvs') (hbad : BadPath (q ++ [.key k])) :
    renderPatchOps (diffM o a b) = .err := by
  have hin : ({ merge := false, path := q ++ [.key k], add := w'.nodeList } : Hunk) ∈ diffM o a b := by
    unfold diffM
    rw [hm]
    refine hunks_of_subdiff q hq a b _ _ hu hu' [] _ ?_
    rw [diffNode_obj_obj]
    refine List.mem_append_right _ (List.mem_map.2 ⟨(k, w'), List.mem_filter.2 ⟨hw', by simp [hw]⟩, ?_⟩)
    simp
  exact renderPatchOps_refuses hin hbad

/-- the same with one bound `N` on all array lengths of both documents (`2 N < 2^53`) -/
theorem diffM_hunks_ok_N (o : Opts) (ho : dispatchTag o = .list) (hm : isMerge o = false) (a b : Json)
    (ha1 : a.listDoc = true) (ha2 : a.wf = true) (ha4 : vfree a = true)
    (hb1 : b.listDoc = true) (hb2 : b.wf = true) (hb4 : vfree b = true)
    {N : Nat} (la : lenLe N a = true) (lb : lenLe N b = true) (hN : 2 * N < 2 ^ 53)
    (hv : (a.isObj && b.isVoid) = false) : ∀ h ∈ diffM o a b, HunkOK h ∧ HunkRange h :=
  diffM_hunks_ok o ho hm a b ha1 ha2 ha4 hb1 hb2 hb4 la lb (by omega) hv

/-! ## 8. non-vacuity, witnesses -/

namespace Example

def one : Json := .num 0x3FF0000000000000
/-- `{"a~/b": [true, 1, [1], null], "k": null}` (a key that needs both escapes) -/
def exA : Json := .obj [("a~/b", DPL.Example.exA), ("k", .null)]
/-- `{"a~/b": [false, 1, [1, 1], null, null], "m": 1}` -/
def exB : Json := .obj [("a~/b", DPL.Example.exB), ("m", one)]

-- five hunks: three list hunks below the key (one of them in the nested list), a member removed, a
-- member added; eleven operations
#eval (diffM [] exA exB).map (·.path)
#eval renderPatchOps (diffM [] exA exB)

theorem subA {x : Json} (hx : x ∈ subterms exA) : x = exA ∨ x ∈ subterms DPL.Example.exA := by
  simp only [exA, subterms, subtermsKvs, List.mem_cons, List.mem_append, List.not_mem_nil,
    or_false] at hx
  rcases hx with rfl | hx | rfl
  · exact .inl rfl
  · exact .inr hx
  · exact .inr (by simp [DPL.Example.exA, subterms, subtermsList])

theorem subB {y : Json} (hy : y ∈ subterms exB) : y = exB ∨ y ∈ subterms DPL.Example.exB := by
  simp only [exB, one, subterms, subtermsKvs, List.mem_cons, List.mem_append, List.not_mem_nil,
    or_false] at hy
  rcases hy with rfl | hy | rfl
  · exact .inl rfl
  · exact .inr hy
  · exact .inr (by simp [DPL.Example.exB, DPL.Example.one, subterms, subtermsList])

/-- all the hypotheses of `rendered_patch_of_diff_yields_target_closed` (and of the other theorems of
    sections 5 and 6) hold for this pair, with `Na = 4`, `Nb = 5` -/
theorem hyps (L : FloatLaws) :
    exA.listDoc = true ∧ exA.wf = true ∧ exA.finiteNums = true ∧ vfree exA = true ∧
    exB.listDoc = true ∧ exB.wf = true ∧ exB.finiteNums = true ∧ vfree exB = true ∧
    lenLe 4 exA = true ∧ lenLe 5 exB = true ∧ 4 + 5 < 2 ^ 53 ∧
    HashOK [] exA exB ∧ ZeroOK exA exB ∧
    keysExpressible exA = true ∧ keysExpressible exB = true ∧ (exA.isObj && exB.isVoid) = false := by
  obtain ⟨_, _, _, _, _, _, _, _, H, Z⟩ := DPL.Example.hyps L
  refine ⟨by decide, by decide, by decide, by decide, by decide, by decide, by decide, by decide,
    by decide, by decide, by decide, ?_, ?_, by decide, by decide, by decide⟩
  · intro x hx y hy h
    rcases subA hx with rfl | hx <;> rcases subB hy with rfl | hy
    · exact absurd h (by decide +kernel)
    · simp [DPL.Example.exB, DPL.Example.one, subterms, subtermsList] at hy
      rcases hy with rfl | rfl | rfl | rfl | rfl | rfl <;> exact absurd h (by decide +kernel)
    · simp [DPL.Example.exA, DPL.Example.one, subterms, subtermsList] at hx
      rcases hx with rfl | rfl | rfl | rfl | rfl | rfl <;> exact absurd h (by decide +kernel)
    · exact H x hx y hy h
  · intro u v hu hv huv
    rcases subA hu with h | hu
    · cases h
    rcases subB hv with h | hv
    · cases h
    exact Z u v hu hv huv

example (L : FloatLaws) :
    ∃ ops r, renderPatchOps (diffM [] exA exB) = .ok ops ∧ (∀ op ∈ ops, op.wfOp) ∧
      eval exA (ops.map PatchOp.toSpec) = some r ∧ specEq r exB = true ∧ specEq exB r = true := by
  obtain ⟨h1, h2, h3, h4, h5, h6, h7, h8, h9, h10, h11, h12, h13, h14, h15, _⟩ := hyps L
  exact rendered_patch_of_diff_yields_target_closed L [] rfl rfl exA exB h1 h2 h3 h4 h5 h6 h7 h8 h9 h10
    h11 h12 h13 h14 h15

example (L : FloatLaws) : ∀ h ∈ diffM [] exA exB, HunkOK h ∧ HunkRange h := by
  obtain ⟨h1, h2, _, h4, h5, h6, _, h8, h9, h10, h11, _, _, _, _, h16⟩ := hyps L
  exact diffM_hunks_ok [] rfl rfl exA exB h1 h2 h4 h5 h6 h8 h9 h10 h11 h16

/-! ### refusal: concrete inputs -/

/-- `{"1": null, "x": null}` against `{"1": true, "x": null}`: the changed member is number-like -/
def nA : Json := .obj [("1", .null), ("x", .null)]
def nB : Json := .obj [("1", .bool true), ("x", .null)]

theorem numberlike_key_refused : renderPatchOps (diffM [] nA nB) = .err := by
  refine refuses_changed_at_bad_path (q := [.key "1"]) rfl rfl (by decide) (by decide) rfl
    (badPath_key (by decide) [] []) (u := .null) (u' := .bool true)
    (by simp [Real.getAt, nA, alookup]) (by simp [Real.getAt, nB, alookup]) ?_
  unfold diffM
  rw [show isMerge [] = false from rfl,
    diffNode_scalar [] _ _ (by intro t xs h; cases h) (by intro k h; cases h)]
  simp [diffCommon, equals, Json.isNull]

/-- the hypotheses of `refuses_value_changed_at_bad_path` hold for this pair -/
example (L : FloatLaws) : renderPatchOps (diffM [] nA nB) = .err := by
  have gn : Good Json.null := ⟨by decide, by decide, by decide, by decide⟩
  refine refuses_value_changed_at_bad_path L (q := [.key "1"]) rfl rfl
    ⟨by decide, by decide, by decide, by decide⟩ ⟨by decide, by decide, by decide, by decide⟩ ?_ ?_ rfl
    (badPath_key (by decide) [] []) (u := .null) (u' := .bool true)
    (by simp [Real.getAt, nA, alookup]) (by simp [Real.getAt, nB, alookup])
    (by simp [specEq, equivB])
  · intro x hx y hy h
    simp [nA, nB, subterms, subtermsKvs] at hx hy
    rcases hx with rfl | rfl <;> rcases hy with rfl | rfl | rfl <;>
      first
        | exact absurd h (by decide +kernel)
        | exact DPL.specEq_refl L gn
  · intro u v hu _ _
    simp [nA, subterms, subtermsKvs] at hu

/-- `{"-": null}` against `{}`: the removed member is the key "-" -/
example : renderPatchOps (diffM [] (.obj [("-", .null)]) (.obj [])) = .err :=
  refuses_member_removed (q := []) rfl rfl rfl rfl (k := "-") (w := .null) (by simp [alookup]) rfl
    (badPath_key (by decide) [] [])

/-- `{}` against `{"+7": null}`: the added member is number-like (`strconv.Atoi` accepts a sign) -/
example : renderPatchOps (diffM [] (.obj []) (.obj [("+7", .null)])) = .err :=
  refuses_member_added (q := []) rfl rfl rfl rfl (k := "+7") (w' := .null) rfl (by simp)
    (badPath_key (by decide) [] [])

/-! ### why `vfree` (no void marker among the ELEMENTS of an array) is asked on top of the C01 domain

  The C01 list theorem (`DPL.diffM_list_correct`) only asks that no object MEMBER is void (`memOK`).
  `[void]` against `[null]` is in that domain; the native hunk `@ [0]  - void  + null` applies, but
  `RenderPatch` drops a removal whose first value is void, so the JSON Patch is the single operation
  `add /0 null`, and RFC 6902 gives `[null, void]`. The void marker is jd's in-memory "no value"; no
  reader produces it inside a document, so this is a boundary of the MODEL's domain and not a defect
  of the Go code; it is recorded as a proved witness rather than silently excluded. -/

def vA : Json := .arr .raw [.void]
def vB : Json := .arr .raw [.null]
def vHunk : Hunk :=
  { path := [.idx 0], before := [.void], remove := [.void], add := [.null], after := [.void] }

theorem diff_v : diffM [] vA vB = [vHunk] := by
  have hl : lcsValues (hashList [] [Json.void]) (hashList [] [Json.null]) = [] := by decide +kernel
  unfold diffM vA vB
  rw [show isMerge [] = false from rfl, diffNode_arr_arr (o := []) rfl _ _ rfl rfl (.inl rfl), hl,
    diffRest_cons]
  have h1 : atC [] Json.void [] = false := rfl
  have h2 : atC [] Json.null [] = false := rfl
  have h3 : sameContainerType [] Json.void Json.null = false := rfl
  simp only [h1, h2, h3, Bool.false_and, Bool.false_eq_true, if_false]
  rw [diffRest_nilA]
  rfl

theorem wpp0 : writePointerPath [.idx 0] = .ok "/0" := by
  rw [writePointerPath_cons, writePointerPath_nil]
  have : wtok (.idx 0) = some "0" := by
    simp only [wtok, floatTrunc_intToFloatBits (i := 0) (by decide)]
    decide
  rw [this]; rfl

theorem render_v : renderPatchOps [vHunk] = .ok [{ op := "add", path := "/0", value := .null }] := by
  have : renderPatchHunk vHunk = .ok [{ op := "add", path := "/0", value := .null }] := by
    rw [renderPatchHunk_eq]
    simp [renderPatchHunk', vHunk, wpp0, ctxOps, remOpsOf, addOpsOf, Json.isVoid]
    rfl
  rw [renderPatchOps, this]; rfl

theorem pp0 : parsePointer "/0" = some ["0"] := parsePointer_of_toList (by decide)

/-- WITNESS (void array element, outside the intended domain): all hypotheses of the C01 list theorem
    hold, the rendering succeeds, and the evaluated JSON Patch is NOT the target -/
theorem void_element_witness :
    Good vA ∧ Good vB ∧ vfree vA = false ∧
    (∃ r, applyStrictAll vA (diffM [] vA vB) = some r ∧ specEq r vB = true) ∧
    renderPatchOps (diffM [] vA vB) = .ok [{ op := "add", path := "/0", value := .null }] ∧
    eval vA (([{ op := "add", path := "/0", value := .null }] : List PatchOp).map PatchOp.toSpec) =
      some (.arr .raw [.null, .void]) ∧
    specEq (.arr .raw [.null, .void]) vB = false := by
  refine ⟨⟨by decide, by decide, by decide, by decide⟩, ⟨by decide, by decide, by decide, by decide⟩,
    by decide, ⟨.arr .raw [.null], ?_, ?_⟩, by rw [diff_v, render_v], ?_, ?_⟩
  · rw [diff_v]
    simp [applyStrictAll, applyStrict, vHunk, vA, splice, prefixEq, beforeOk, afterOk, specEq, equivB,
      Json.isVoid]
  · simp [specEq, equivB, equivList, vB, dispatchTag]
  · have : arrayIndex? "0" = some 0 := by decide
    simp [eval, evalOp, PatchOp.toSpec, pp0, addP, vA, this]
  · simp [specEq, equivB, equivList, vB, dispatchTag]

end Example

/-! ### axioms -/

#print axioms diff_gen
#print axioms diff_paths_expressible
#print axioms diffM_hunks_ok
#print axioms diffM_hunks_ok_N
#print axioms diffM_paths_expressible
#print axioms renderPatchHunk_ne_panic
#print axioms renderPatchOps_refuses
#print axioms render_diffM_ok_iff
#print axioms render_diffM_err_iff
#print axioms rendered_patch_of_diff_yields_target_of_paths
#print axioms rendered_patch_of_diff_yields_target_closed
#print axioms hunks_of_subdiff
#print axioms refuses_changed_at_bad_path
#print axioms refuses_value_changed_at_bad_path
#print axioms refuses_member_removed
#print axioms refuses_member_added
#print axioms objVoidHunk_not_hunkOK
#print axioms Example.hyps
#print axioms Example.numberlike_key_refused
#print axioms Example.void_element_witness

end Jd.PRC
