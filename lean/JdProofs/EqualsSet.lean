/-
  JdProofs.EqualsSet — property C04, SET / MULTISET / SetKeys part (the `_partial` statement).

  In the set modes `Equals` compares 64-bit FNV hash codes of array nodes. The full statement
  "Equals = advertised equivalence" is FALSE there (known finding KF-C04-alias: the hash pre-image
  encoding is not domain separated; the former KF-C04-negzero, `0` and `-0`, was repaired in the Go
  code: they now hash alike — the hypothesis `noNegZero` below is kept and is now stronger than
  necessary). What is proved here:

    OUTSIDE those aliases and FNV collisions, i.e. when among the finitely many sub-terms at hand
    equal hash codes occur only for equivalent nodes (`HashFaithful`), and when no `-0` occurs,
    `equals o a b = equivB o a b`           (SET / SetKeys: `equals_eq_equivB_set`,
                                             MULTISET:       `equals_eq_equivB_mset`).

  The converse direction of `HashFaithful` (equivalent nodes have equal hash codes) is PROVED
  (`equivB_hash`): it rests on the canonical-form lemmas `hsort_eq_of_perm` /
  `hsort_hdedup_ext` (the sorted hash list depends only on the bag / on the set of hash codes),
  which in turn need that the sort key `bswap` is injective (`bswap_inj`, proved in JdProofs.Common).
  Declarations shared with other proof modules (`bswap_inj`, `hinsert_perm`, `hsort_perm`,
  `mem_hdedup`, `hashList_eq_map`, `negZeroBits`, `Json.noNegZero`, `FloatEq0`, `alookup_rawDoc`)
  live in JdProofs.Common.

  Explicit hypotheses and why (all are needed, see the comments at the theorems):
    * `dispatchTag o = .set` / `.mset`   the reading; SetKeys dispatches to `.set`;
    * `precOf o = 0`                     hash codes ignore Precision (known finding D5);
    * `FloatEq0`                         one IEEE-754 law: `|x - y| ≤ +0` only for `x = y`, for finite
                                         bit patterns other than `-0` (`Float` is opaque to the kernel);
    * `a.setDoc` = rawDoc ∧ wf ∧ finiteNums ∧ noNegZero   documents as read from JSON text, objects
                                         with sorted unique keys (model invariant), no `-0`;
    * `HashFaithful o (subterms a ++ subterms b)`          no collision / alias among the sub-terms.
  Reflexivity and symmetry of `equals` in the set modes need none of the hash hypotheses.
-/
import JdProofs.EqualsList
import JdProofs.Common

namespace Jd
open Jd.Spec

/-! ### 0. the sort key `bswap` reverses the base-256 digits
  (`bswap_inj` itself is in JdProofs.Common, proved there from `bswap_bswap`) -/

theorem ofLe8_step_toNat (acc : UInt64) (c : UInt8) :
    ((acc <<< 8) ||| c.toUInt64).toNat = (acc.toNat % 2 ^ 56) * 256 + c.toNat := by
  have hc : c.toNat < 2 ^ 8 := c.toNat_lt
  have h1 : (acc <<< 8).toNat = (acc.toNat % 2 ^ 56) <<< 8 := by
    simp [UInt64.toNat_shiftLeft, Nat.shiftLeft_eq]
    omega
  rw [UInt64.toNat_or, h1, UInt8.toNat_toUInt64, ← Nat.shiftLeft_add_eq_or_of_lt hc,
    Nat.shiftLeft_eq]

/-- `bswap` reverses the eight base-256 digits -/
theorem bswap_toNat (h : UInt64) : (bswap h).toNat =
    h.toNat % 256 * 2 ^ 56 + h.toNat / 2 ^ 8 % 256 * 2 ^ 48 + h.toNat / 2 ^ 16 % 256 * 2 ^ 40 +
    h.toNat / 2 ^ 24 % 256 * 2 ^ 32 + h.toNat / 2 ^ 32 % 256 * 2 ^ 24 +
    h.toNat / 2 ^ 40 % 256 * 2 ^ 16 + h.toNat / 2 ^ 48 % 256 * 2 ^ 8 + h.toNat / 2 ^ 56 % 256 := by
  simp only [bswap, le8, ofLe8, List.reverse_cons, List.reverse_nil, List.nil_append,
    List.cons_append, List.foldr_cons, List.foldr_nil, ofLe8_step_toNat]
  simp [UInt64.toNat_shiftRight, Nat.shiftRight_eq_div_pow]
  omega

set_option linter.unusedVariables false in
theorem digits_inj (a0 a1 a2 a3 a4 a5 a6 a7 b0 b1 b2 b3 b4 b5 b6 b7 : Nat)
    (h0 : a0 < 256) (h1 : a1 < 256) (h2 : a2 < 256) (h3 : a3 < 256) (h4 : a4 < 256)
    (h5 : a5 < 256) (h6 : a6 < 256) (h7 : a7 < 256)
    (g0 : b0 < 256) (g1 : b1 < 256) (g2 : b2 < 256) (g3 : b3 < 256) (g4 : b4 < 256)
    (g5 : b5 < 256) (g6 : b6 < 256) (g7 : b7 < 256)
    (h : a0 * 2 ^ 56 + a1 * 2 ^ 48 + a2 * 2 ^ 40 + a3 * 2 ^ 32 + a4 * 2 ^ 24 + a5 * 2 ^ 16 +
          a6 * 2 ^ 8 + a7
       = b0 * 2 ^ 56 + b1 * 2 ^ 48 + b2 * 2 ^ 40 + b3 * 2 ^ 32 + b4 * 2 ^ 24 + b5 * 2 ^ 16 +
          b6 * 2 ^ 8 + b7) :
    a0 + a1 * 2 ^ 8 + a2 * 2 ^ 16 + a3 * 2 ^ 24 + a4 * 2 ^ 32 + a5 * 2 ^ 40 + a6 * 2 ^ 48 +
      a7 * 2 ^ 56
    = b0 + b1 * 2 ^ 8 + b2 * 2 ^ 16 + b3 * 2 ^ 24 + b4 * 2 ^ 32 + b5 * 2 ^ 40 + b6 * 2 ^ 48 +
      b7 * 2 ^ 56 := by
  have e7 : a7 = b7 := by omega
  have e6 : a6 = b6 := by omega
  have e5 : a5 = b5 := by omega
  have e4 : a4 = b4 := by omega
  have e3 : a3 = b3 := by omega
  have e2 : a2 = b2 := by omega
  have e1 : a1 = b1 := by omega
  have e0 : a0 = b0 := by omega
  subst e0 e1 e2 e3 e4 e5 e6 e7
  rfl

theorem digits_sum (n : Nat) (h : n < 2 ^ 64) :
    n = n % 256 + n / 2 ^ 8 % 256 * 2 ^ 8 + n / 2 ^ 16 % 256 * 2 ^ 16 + n / 2 ^ 24 % 256 * 2 ^ 24 +
      n / 2 ^ 32 % 256 * 2 ^ 32 + n / 2 ^ 40 % 256 * 2 ^ 40 + n / 2 ^ 48 % 256 * 2 ^ 48 +
      n / 2 ^ 56 % 256 * 2 ^ 56 := by
  omega

/-! ### 1. canonical form of sorted hash lists -/

/-- the non-strict order of `hashCodes.Less` -/
def hle (a b : UInt64) : Prop := bswap a ≤ bswap b

theorem hinsert_sorted_es (h : UInt64) : ∀ l, l.Pairwise hle → (hinsert h l).Pairwise hle
  | [], _ => by simp [hinsert]
  | x :: r, hs => by
    rw [List.pairwise_cons] at hs
    simp only [hinsert]
    split
    · next hlt =>
      have hlt' : bswap h < bswap x := by simpa [hashLt] using hlt
      refine List.pairwise_cons.2 ⟨?_, List.pairwise_cons.2 hs⟩
      intro y hy
      rcases List.mem_cons.1 hy with rfl | hy
      · exact UInt64.le_of_lt hlt'
      · exact UInt64.le_trans (UInt64.le_of_lt hlt') (hs.1 y hy)
    · next hnlt =>
      have hle' : bswap x ≤ bswap h := by simpa [hashLt, UInt64.not_lt] using hnlt
      refine List.pairwise_cons.2 ⟨?_, hinsert_sorted_es h r hs.2⟩
      intro y hy
      rcases List.mem_cons.1 ((hinsert_perm h r).subset hy) with rfl | hy
      · exact hle'
      · exact hs.1 y hy

theorem hsort_sorted_es : ∀ l, (hsort l).Pairwise hle
  | [] => List.Pairwise.nil
  | a :: l => hinsert_sorted_es a (hsort l) (hsort_sorted_es l)

/-- `sort.Sort(hashCodes)` depends only on the bag of hash codes -/
theorem hsort_eq_of_perm {l l' : List UInt64} (hp : l.Perm l') : hsort l = hsort l' :=
  List.Perm.eq_of_pairwise (le := hle)
    (fun _ _ _ _ h1 h2 => bswap_inj (UInt64.le_antisymm h1 h2))
    (hsort_sorted_es l) (hsort_sorted_es l') ((hsort_perm l).trans (hp.trans (hsort_perm l').symm))

theorem hdedup_nodup : ∀ l, (hdedup l).Nodup
  | [] => by simp [hdedup]
  | x :: r => by
    simp only [hdedup]
    exact List.nodup_cons.2 ⟨by simp [List.mem_filter], (hdedup_nodup r).filter _⟩

/-- the sorted list of distinct hash codes depends only on the SET of hash codes -/
theorem hsort_hdedup_ext {l l' : List UInt64} (h : ∀ c, c ∈ l ↔ c ∈ l') :
    hsort (hdedup l) = hsort (hdedup l') :=
  hsort_eq_of_perm ((List.perm_ext_iff_of_nodup (hdedup_nodup l) (hdedup_nodup l')).2
    (fun c => by rw [mem_hdedup, mem_hdedup, h c]))

/-! ### 2. induction principle for documents, sub-terms -/

mutual
/-- structural induction on documents with membership-style induction hypotheses -/
theorem jsonInd {motive : Json → Prop}
    (void : motive .void) (null : motive .null) (bool : ∀ b, motive (.bool b))
    (num : ∀ b, motive (.num b)) (str : ∀ s, motive (.str s))
    (arr : ∀ t xs, (∀ x ∈ xs, motive x) → motive (.arr t xs))
    (obj : ∀ kvs, (∀ k v, (k, v) ∈ kvs → motive v) → motive (.obj kvs)) : ∀ a, motive a
  | .void => void
  | .null => null
  | .bool b => bool b
  | .num b => num b
  | .str s => str s
  | .arr t xs => arr t xs (jsonIndList void null bool num str arr obj xs)
  | .obj kvs => obj kvs (jsonIndKvs void null bool num str arr obj kvs)
theorem jsonIndList {motive : Json → Prop}
    (void : motive .void) (null : motive .null) (bool : ∀ b, motive (.bool b))
    (num : ∀ b, motive (.num b)) (str : ∀ s, motive (.str s))
    (arr : ∀ t xs, (∀ x ∈ xs, motive x) → motive (.arr t xs))
    (obj : ∀ kvs, (∀ k v, (k, v) ∈ kvs → motive v) → motive (.obj kvs)) :
    ∀ xs : List Json, ∀ x ∈ xs, motive x
  | [], _, h => by simp at h
  | y :: r, x, h => by
    rcases List.mem_cons.1 h with e | h'
    · exact e ▸ jsonInd void null bool num str arr obj y
    · exact jsonIndList void null bool num str arr obj r x h'
theorem jsonIndKvs {motive : Json → Prop}
    (void : motive .void) (null : motive .null) (bool : ∀ b, motive (.bool b))
    (num : ∀ b, motive (.num b)) (str : ∀ s, motive (.str s))
    (arr : ∀ t xs, (∀ x ∈ xs, motive x) → motive (.arr t xs))
    (obj : ∀ kvs, (∀ k v, (k, v) ∈ kvs → motive v) → motive (.obj kvs)) :
    ∀ kvs : List (String × Json), ∀ k v, (k, v) ∈ kvs → motive v
  | [], _, _, h => by simp at h
  | (k', v') :: r, k, v, h => by
    rcases List.mem_cons.1 h with e | h'
    · have : v = v' := (Prod.mk.inj e).2
      exact this ▸ jsonInd void null bool num str arr obj v'
    · exact jsonIndKvs void null bool num str arr obj r k v h'
end

mutual
/-- every node of the tree, the node itself included -/
def subterms : Json → List Json
  | .arr t xs => .arr t xs :: subtermsList xs
  | .obj kvs => .obj kvs :: subtermsKvs kvs
  | a => [a]
def subtermsList : List Json → List Json
  | [] => []
  | x :: r => subterms x ++ subtermsList r
def subtermsKvs : List (String × Json) → List Json
  | [] => []
  | (_, v) :: r => subterms v ++ subtermsKvs r
end

theorem mem_subterms_self (a : Json) : a ∈ subterms a := by
  cases a <;> simp [subterms]

theorem mem_subtermsList {z : Json} : ∀ {xs : List Json} {x : Json}, x ∈ xs → z ∈ subterms x →
    z ∈ subtermsList xs
  | [], _, h, _ => by simp at h
  | y :: r, x, h, hz => by
    simp only [subtermsList, List.mem_append]
    rcases List.mem_cons.1 h with e | h'
    · exact Or.inl (e ▸ hz)
    · exact Or.inr (mem_subtermsList h' hz)

theorem mem_subtermsKvs {z : Json} : ∀ {kvs : List (String × Json)} {k : String} {v : Json},
    (k, v) ∈ kvs → z ∈ subterms v → z ∈ subtermsKvs kvs
  | [], _, _, h, _ => by simp at h
  | (k', v') :: r, k, v, h, hz => by
    simp only [subtermsKvs, List.mem_append]
    rcases List.mem_cons.1 h with e | h'
    · have : v = v' := (Prod.mk.inj e).2
      exact Or.inl (this ▸ hz)
    · exact Or.inr (mem_subtermsKvs h' hz)

theorem subterms_elem_sub {t : Tag} {xs : List Json} {x z : Json} (h : x ∈ xs)
    (hz : z ∈ subterms x) : z ∈ subterms (.arr t xs) := by
  simp only [subterms, List.mem_cons]
  exact Or.inr (mem_subtermsList h hz)

theorem subterms_val_sub {kvs : List (String × Json)} {k : String} {v z : Json} (h : (k, v) ∈ kvs)
    (hz : z ∈ subterms v) : z ∈ subterms (.obj kvs) := by
  simp only [subterms, List.mem_cons]
  exact Or.inr (mem_subtermsKvs h hz)

/-! ### 3. hypotheses -/

/-- the documents of the set-mode theorems: as read from JSON text (every array node a plain
    `jsonArray`, finite numbers), objects with strictly increasing keys (the model's invariant
    standing for Go maps), and no `-0` -/
def Json.setDoc (a : Json) : Bool := a.rawDoc && a.wf && a.finiteNums && a.noNegZero

/-- "no FNV collision and no pre-image alias among these nodes": equal hash codes only for
    equivalent nodes. (The converse, equivalent ⇒ equal hash codes, is the theorem `equivB_hash`.) -/
def HashFaithful (o : Opts) (S : List Json) : Prop :=
  ∀ x ∈ S, ∀ y ∈ S, hashCode o x = hashCode o y → equivB o x y = true

theorem HashFaithful.mono {o : Opts} {S T : List Json} (h : HashFaithful o T) (hs : S ⊆ T) :
    HashFaithful o S :=
  fun x hx y hy e => h x (hs hx) y (hs hy) e

def Json.isArr : Json → Bool
  | .arr _ _ => true
  | _ => false

/-- the local condition on one node behind `setDoc` -/
def nodeOk : Json → Bool
  | .arr t _ => t == .raw
  | .obj kvs => keysSorted kvs
  | .num b => finiteBits b && b != negZeroBits
  | _ => true

/-- every node of the document satisfies the local condition -/
def DocOk (a : Json) : Prop := ∀ x ∈ subterms a, nodeOk x = true

theorem DocOk.elem {t : Tag} {xs : List Json} {x : Json} (h : DocOk (.arr t xs)) (hx : x ∈ xs) :
    DocOk x := fun z hz => h z (subterms_elem_sub hx hz)

theorem DocOk.val {kvs : List (String × Json)} {k : String} {v : Json} (h : DocOk (.obj kvs))
    (hm : (k, v) ∈ kvs) : DocOk v := fun z hz => h z (subterms_val_sub hm hz)

theorem DocOk.raw {t : Tag} {xs : List Json} (h : DocOk (.arr t xs)) : t = .raw := by
  simpa [nodeOk] using h _ (mem_subterms_self _)

theorem DocOk.sorted {kvs : List (String × Json)} (h : DocOk (.obj kvs)) :
    keysSorted kvs = true := by
  simpa [nodeOk] using h _ (mem_subterms_self _)

mutual
theorem docOk_of_doc : ∀ a : Json, a.rawDoc = true → a.wf = true → a.finiteNums = true →
    a.noNegZero = true → ∀ x ∈ subterms a, nodeOk x = true
  | .void, _, _, _, _, x, hx => by simp [subterms] at hx; subst hx; rfl
  | .null, _, _, _, _, x, hx => by simp [subterms] at hx; subst hx; rfl
  | .bool _, _, _, _, _, x, hx => by simp [subterms] at hx; subst hx; rfl
  | .str _, _, _, _, _, x, hx => by simp [subterms] at hx; subst hx; rfl
  | .num b, _, _, h3, h4, x, hx => by
    simp only [subterms, List.mem_singleton] at hx
    subst hx
    simp only [Json.finiteNums] at h3
    simp only [Json.noNegZero] at h4
    simp [nodeOk, h3, h4]
  | .arr t xs, h1, h2, h3, h4, x, hx => by
    simp only [Json.rawDoc, Bool.and_eq_true] at h1
    simp only [Json.wf] at h2
    simp only [Json.finiteNums] at h3
    simp only [Json.noNegZero] at h4
    simp only [subterms, List.mem_cons] at hx
    rcases hx with rfl | hx
    · simpa [nodeOk] using h1.1
    · exact docOk_of_docList xs h1.2 h2 h3 h4 x hx
  | .obj kvs, h1, h2, h3, h4, x, hx => by
    simp only [Json.rawDoc] at h1
    simp only [Json.wf, Bool.and_eq_true] at h2
    simp only [Json.finiteNums] at h3
    simp only [Json.noNegZero] at h4
    simp only [subterms, List.mem_cons] at hx
    rcases hx with rfl | hx
    · simpa [nodeOk] using h2.1
    · exact docOk_of_docKvs kvs h1 h2.2 h3 h4 x hx
theorem docOk_of_docList : ∀ xs : List Json, rawDocList xs = true → wfList xs = true →
    finiteNumsList xs = true → noNegZeroList xs = true → ∀ x ∈ subtermsList xs, nodeOk x = true
  | [], _, _, _, _, x, hx => by simp [subtermsList] at hx
  | y :: r, h1, h2, h3, h4, x, hx => by
    simp only [rawDocList, wfList, finiteNumsList, noNegZeroList, Bool.and_eq_true] at h1 h2 h3 h4
    simp only [subtermsList, List.mem_append] at hx
    rcases hx with hx | hx
    · exact docOk_of_doc y h1.1 h2.1 h3.1 h4.1 x hx
    · exact docOk_of_docList r h1.2 h2.2 h3.2 h4.2 x hx
theorem docOk_of_docKvs : ∀ kvs : List (String × Json), rawDocKvs kvs = true → wfKvs kvs = true →
    finiteNumsKvs kvs = true → noNegZeroKvs kvs = true → ∀ x ∈ subtermsKvs kvs, nodeOk x = true
  | [], _, _, _, _, x, hx => by simp [subtermsKvs] at hx
  | (k, v) :: r, h1, h2, h3, h4, x, hx => by
    simp only [rawDocKvs, wfKvs, finiteNumsKvs, noNegZeroKvs, Bool.and_eq_true] at h1 h2 h3 h4
    simp only [subtermsKvs, List.mem_append] at hx
    rcases hx with hx | hx
    · exact docOk_of_doc v h1.1 h2.1 h3.1 h4.1 x hx
    · exact docOk_of_docKvs r h1.2 h2.2 h3.2 h4.2 x hx
end

theorem docOk_of_setDoc {a : Json} (h : a.setDoc = true) : DocOk a := by
  simp only [Json.setDoc, Bool.and_eq_true] at h
  exact docOk_of_doc a h.1.1.1 h.1.1.2 h.1.2 h.2

/-! ### 4. the spec, relationally -/

theorem anyEquiv_iff (o : Opts) (y : Json) :
    ∀ xs, anyEquiv o xs y = true ↔ ∃ x ∈ xs, equivB o x y = true
  | [] => by simp [anyEquiv]
  | x :: r => by rw [anyEquiv, Bool.or_eq_true, anyEquiv_iff o y r]; simp

theorem allIn_iff (o : Opts) (ys : List Json) :
    ∀ xs, allIn o xs ys = true ↔ ∀ x ∈ xs, ∃ y ∈ ys, equivB o x y = true
  | [] => by simp [allIn]
  | x :: r => by rw [allIn, Bool.and_eq_true, allIn_iff o ys r]; simp [List.any_eq_true]

theorem allCovered_iff (o : Opts) (xs : List Json) :
    ∀ ys, allCovered o xs ys = true ↔ ∀ y ∈ ys, ∃ x ∈ xs, equivB o x y = true
  | [] => by simp [allCovered]
  | y :: r => by
    rw [allCovered, Bool.and_eq_true, allCovered_iff o xs r, anyEquiv_iff]; simp

theorem equivKvs_eq_lookAll (o : Opts) (kvs' : List (String × Json)) :
    ∀ (kvs : List (String × Json)), equivKvs o kvs kvs' = lookAll (equivB o) kvs kvs'
  | [] => by simp [equivKvs, lookAll]
  | (k, v) :: r => by rw [equivKvs, lookAll, equivKvs_eq_lookAll o kvs' r]; rfl

theorem removeFirst_some {α} (p : α → Bool) : ∀ {ys ys' : List α}, removeFirst p ys = some ys' →
    ∃ y, p y = true ∧ ys.Perm (y :: ys')
  | [], _, h => by simp [removeFirst] at h
  | x :: r, ys', h => by
    simp only [removeFirst] at h
    split at h
    · next hp => cases h; exact ⟨x, hp, List.Perm.refl _⟩
    · cases hr : removeFirst p r with
      | none => simp [hr] at h
      | some r' =>
        simp only [hr, Option.map_some, Option.some.injEq] at h
        subst h
        obtain ⟨y, hy, hperm⟩ := removeFirst_some p hr
        exact ⟨y, hy, (hperm.cons x).trans (List.Perm.swap y x r')⟩

/-- a bag matching whose matched pairs have equal hash codes: the hash lists are permutations -/
theorem bagSub_hash_perm (o : Opts) : ∀ (xs ys : List Json), xs.length = ys.length →
    bagSub o xs ys = true →
    (∀ x ∈ xs, ∀ y ∈ ys, equivB o x y = true → hashCode o x = hashCode o y) →
    (xs.map (hashCode o)).Perm (ys.map (hashCode o))
  | [], ys, hl, _, _ => by
    cases ys with
    | nil => exact List.Perm.refl _
    | cons _ _ => simp at hl
  | x :: r, ys, hl, hb, hh => by
    rw [bagSub] at hb
    cases hr : removeFirst (fun y => equivB o x y) ys with
    | none => simp [hr] at hb
    | some ys' =>
      simp only [hr] at hb
      obtain ⟨y, hy, hperm⟩ := removeFirst_some _ hr
      have hymem : y ∈ ys := hperm.symm.subset List.mem_cons_self
      have hlen : r.length = ys'.length := by
        have := hperm.length_eq
        simp only [List.length_cons] at this hl
        omega
      have ih := bagSub_hash_perm o r ys' hlen hb
        (fun x' hx' y' hy' e => hh x' (List.mem_cons_of_mem _ hx') y'
          (hperm.symm.subset (List.mem_cons_of_mem _ hy')) e)
      have e := hh x List.mem_cons_self y hymem hy
      have h2 : (ys.map (hashCode o)).Perm (hashCode o x :: ys'.map (hashCode o)) := by
        have := hperm.map (hashCode o)
        simpa [e] using this
      exact (List.Perm.cons _ ih).trans h2.symm

/-- objects with the same keys (sorted, unique) and pointwise equal value hashes hash alike -/
theorem hashKvs_congr (o : Opts) (R : Json → Json → Bool) :
    ∀ (kvs kvs' : List (String × Json)), keysSorted kvs = true → keysSorted kvs' = true →
      AllLook R kvs kvs' → AllLook (fun x y => R y x) kvs' kvs →
      (∀ k v v', (k, v) ∈ kvs → (k, v') ∈ kvs' → R v v' = true → hashCode o v = hashCode o v') →
      hashKvs o kvs = hashKvs o kvs'
  | [], [], _, _, _, _, _ => rfl
  | [], (k', v') :: r', _, _, _, h2, _ => by
    obtain ⟨_, hl, _⟩ := h2 k' v' List.mem_cons_self
    simp [alookup] at hl
  | (k, v) :: r, [], _, _, h1, _, _ => by
    obtain ⟨_, hl, _⟩ := h1 k v List.mem_cons_self
    simp [alookup] at hl
  | (k, v) :: r, (k', v') :: r', hs, hs', h1, h2, hh => by
    have hkk : k = k' := by
      obtain ⟨w, hl, _⟩ := h1 k v List.mem_cons_self
      obtain ⟨w', hl', _⟩ := h2 k' v' List.mem_cons_self
      have m1 := mem_of_alookup hl
      have m2 := mem_of_alookup hl'
      rcases List.mem_cons.1 m1 with e1 | m1
      · exact (Prod.mk.inj e1).1
      · rcases List.mem_cons.1 m2 with e2 | m2
        · exact (Prod.mk.inj e2).1.symm
        · exact absurd (keysSorted_head_lt hs' k w m1)
            (String.lt_asymm (keysSorted_head_lt hs k' w' m2))
    subst hkk
    have hv : R v v' = true := by
      obtain ⟨w, hl, hr⟩ := h1 k v List.mem_cons_self
      simp only [alookup, if_true] at hl
      cases hl
      exact hr
    have t1 : AllLook R r r' := by
      intro k1 v1 hm1
      obtain ⟨w, hl, hr⟩ := h1 k1 v1 (List.mem_cons_of_mem _ hm1)
      have hlt := keysSorted_head_lt hs k1 v1 hm1
      have hne : k1 ≠ k := fun e => String.lt_irrefl k (e ▸ hlt)
      simp only [alookup, hne, if_false] at hl
      exact ⟨w, hl, hr⟩
    have t2 : AllLook (fun x y => R y x) r' r := by
      intro k1 v1 hm1
      obtain ⟨w, hl, hr⟩ := h2 k1 v1 (List.mem_cons_of_mem _ hm1)
      have hlt := keysSorted_head_lt hs' k1 v1 hm1
      have hne : k1 ≠ k := fun e => String.lt_irrefl k (e ▸ hlt)
      simp only [alookup, hne, if_false] at hl
      exact ⟨w, hl, hr⟩
    simp only [hashKvs]
    rw [hh k v v' List.mem_cons_self List.mem_cons_self hv,
      hashKvs_congr o R r r' (keysSorted_tail hs) (keysSorted_tail hs') t1 t2
        (fun k1 v1 v1' m m' e =>
          hh k1 v1 v1' (List.mem_cons_of_mem _ m) (List.mem_cons_of_mem _ m') e)]

/-! ### 5. equivalent documents have equal hash codes (PROVED, both set modes) -/

theorem equivB_hash_core (F : FloatEq0) (o : Opts)
    (hm : dispatchTag o = .set ∨ dispatchTag o = .mset) (hp : precOf o = 0) :
    ∀ a b, DocOk a → DocOk b → equivB o a b = true → hashCode o a = hashCode o b := by
  intro a
  induction a using jsonInd with
  | void => intro b _ _ h; cases b <;> simp [equivB] at h ⊢
  | null => intro b _ _ h; cases b <;> simp [equivB] at h ⊢
  | bool x => intro b _ _ h; cases b <;> simp [equivB] at h ⊢; simp [h]
  | str x => intro b _ _ h; cases b <;> simp [equivB] at h ⊢; simp [h]
  | num x =>
    intro b ha hb h
    cases b with
    | num y =>
      have hx := ha (.num x) (mem_subterms_self _)
      have hy := hb (.num y) (mem_subterms_self _)
      simp only [nodeOk, Bool.and_eq_true, bne_iff_ne, ne_eq] at hx hy
      simp only [equivB, hp] at h
      rw [F.eq_of_within0 x y hx.1 hy.1 hx.2 hy.2 h]
    | _ => simp [equivB] at h
  | arr t xs ih =>
    intro b ha hb h
    cases b with
    | arr t' ys =>
      have ht := ha.raw
      have ht' := hb.raw
      subst ht ht'
      have ihx : ∀ x ∈ xs, ∀ y ∈ ys, equivB o x y = true → hashCode o x = hashCode o y :=
        fun x hx y hy e => ih x hx y (ha.elem hx) (hb.elem hy) e
      rcases hm with hd | hd
      · simp only [equivB, hd, Bool.and_eq_true, allIn_iff, allCovered_iff] at h
        have key : hsort (hdedup (hashList o xs)) = hsort (hdedup (hashList o ys)) := by
          apply hsort_hdedup_ext
          intro c
          simp only [hashList_eq_map, List.mem_map]
          constructor
          · rintro ⟨x, hx, rfl⟩
            obtain ⟨y, hy, e⟩ := h.1 x hx
            exact ⟨y, hy, (ihx x hx y hy e).symm⟩
          · rintro ⟨y, hy, rfl⟩
            obtain ⟨x, hx, e⟩ := h.2 y hy
            exact ⟨x, hx, ihx x hx y hy e⟩
        simp only [hashCode, effTag, hd, hcombine, key]
      · simp only [equivB, hd, Bool.and_eq_true, beq_iff_eq] at h
        have key : hsort (hashList o xs) = hsort (hashList o ys) := by
          apply hsort_eq_of_perm
          rw [hashList_eq_map, hashList_eq_map]
          exact bagSub_hash_perm o xs ys h.1 h.2 ihx
        simp only [hashCode, effTag, hd, key]
    | _ => simp [equivB] at h
  | obj kvs ih =>
    intro b ha hb h
    cases b with
    | obj kvs' =>
      have hs := ha.sorted
      have hs' := hb.sorted
      simp only [equivB, Bool.and_eq_true, beq_iff_eq, equivKvs_eq_lookAll, lookAll_iff] at h
      have hflip := AllLook.flip hs hs' h.1 h.2
      have key : hashKvs o kvs = hashKvs o kvs' :=
        hashKvs_congr o (equivB o) kvs kvs' hs hs' h.2 hflip
          (fun k v v' hm1 hm2 e => ih k v hm1 v' (ha.val hm1) (hb.val hm2) e)
      simp only [hashCode, key]
    | _ => simp [equivB] at h

/-- **equivalent ⇒ equal hash codes** (SET, SetKeys and MULTISET readings; no hash hypothesis) -/
theorem equivB_hash (F : FloatEq0) (o : Opts)
    (hm : dispatchTag o = .set ∨ dispatchTag o = .mset) (hp : precOf o = 0)
    (a b : Json) (ha : a.setDoc = true) (hb : b.setDoc = true)
    (h : equivB o a b = true) : hashCode o a = hashCode o b :=
  equivB_hash_core F o hm hp a b (docOk_of_setDoc ha) (docOk_of_setDoc hb) h

/-! ### 6. `equals` is the advertised equivalence outside hash aliases -/

theorem equals_arr_raw_set {o : Opts} (hd : dispatchTag o = .set) (xs ys : List Json) :
    equals o (.arr .raw xs) (.arr .raw ys)
      = (hashCode o (.arr .raw xs) == hashCode o (.arr .raw ys)) := by
  simp [equals, effTag, Json.dispatch, hd, hashCode]

theorem equals_arr_raw_mset {o : Opts} (hd : dispatchTag o = .mset) (xs ys : List Json) :
    equals o (.arr .raw xs) (.arr .raw ys)
      = (xs.length == ys.length && hashCode o (.arr .raw xs) == hashCode o (.arr .raw ys)) := by
  simp [equals, effTag, Json.dispatch, hd, hashCode]

/-- core statement: only pairs of ARRAY nodes (one from each document) need faithful hash codes -/
theorem equals_eq_equivB_core (F : FloatEq0) (o : Opts)
    (hm : dispatchTag o = .set ∨ dispatchTag o = .mset) (hp : precOf o = 0) :
    ∀ a b, DocOk a → DocOk b →
      (∀ x ∈ subterms a, ∀ y ∈ subterms b, x.isArr = true → y.isArr = true →
        hashCode o x = hashCode o y → equivB o x y = true) →
      equals o a b = equivB o a b := by
  intro a
  induction a using jsonInd with
  | void => intro b _ _ _; cases b <;> simp [equals, equivB, Json.isVoid]
  | null => intro b _ _ _; cases b <;> simp [equals, equivB, Json.isNull]
  | bool x => intro b _ _ _; cases b <;> simp [equals, equivB]
  | num x => intro b _ _ _; cases b <;> simp [equals, equivB]
  | str x => intro b _ _ _; cases b <;> simp [equals, equivB]
  | arr t xs _ =>
    intro b ha hb hf
    have ht := ha.raw
    subst ht
    cases b with
    | arr t' ys =>
      have ht' := hb.raw
      subst ht'
      rw [Bool.eq_iff_iff]
      constructor
      · intro h
        apply hf _ (mem_subterms_self _) _ (mem_subterms_self _) rfl rfl
        rcases hm with hd | hd
        · simpa [equals_arr_raw_set hd] using h
        · rw [equals_arr_raw_mset hd, Bool.and_eq_true] at h
          simpa using h.2
      · intro h
        have hh := equivB_hash_core F o hm hp _ _ ha hb h
        rcases hm with hd | hd
        · simp [equals_arr_raw_set hd, hh]
        · have hlen : xs.length = ys.length := by
            simp only [equivB, hd, Bool.and_eq_true, beq_iff_eq] at h
            exact h.1
          simp [equals_arr_raw_mset hd, hh, hlen]
    | _ => rcases hm with hd | hd <;> simp [equals, equivB, Json.dispatch, effTag, hd]
  | obj kvs ih =>
    intro b ha hb hf
    cases b with
    | obj kvs' =>
      have key : ∀ r : List (String × Json), (∀ kv ∈ r, kv ∈ kvs) →
          equalsKvs o r kvs' = equivKvs o r kvs' := by
        intro r
        induction r with
        | nil => intro _; simp [equalsKvs, equivKvs]
        | cons kv r ihr =>
          intro hsub
          obtain ⟨k, v⟩ := kv
          rw [equalsKvs, equivKvs, ihr (fun kv h => hsub kv (List.mem_cons_of_mem _ h))]
          cases hl : alookup k kvs' with
          | none => rfl
          | some v' =>
            have hm1 : (k, v) ∈ kvs := hsub _ List.mem_cons_self
            have hm2 : (k, v') ∈ kvs' := mem_of_alookup hl
            have := ih k v hm1 v' (ha.val hm1) (hb.val hm2)
              (fun x hx y hy => hf x (subterms_val_sub hm1 hx) y (subterms_val_sub hm2 hy))
            simp [this]
      simp [equals, equivB, key kvs (fun _ h => h)]
    | _ => simp [equals, equivB]

/-- **C04, SET / SetKeys reading (partial):** outside hash aliases and collisions among the
    sub-terms at hand, `Equals` is exactly the advertised equivalence. -/
theorem equals_eq_equivB_set (F : FloatEq0) (o : Opts) (hd : dispatchTag o = .set)
    (hp : precOf o = 0) (a b : Json) (ha : a.setDoc = true) (hb : b.setDoc = true)
    (hf : HashFaithful o (subterms a ++ subterms b)) :
    equals o a b = equivB o a b :=
  equals_eq_equivB_core F o (Or.inl hd) hp a b (docOk_of_setDoc ha) (docOk_of_setDoc hb)
    (fun x hx y hy _ _ e =>
      hf x (List.mem_append.2 (Or.inl hx)) y (List.mem_append.2 (Or.inr hy)) e)

/-- **C04, MULTISET reading (partial)** -/
theorem equals_eq_equivB_mset (F : FloatEq0) (o : Opts) (hd : dispatchTag o = .mset)
    (hp : precOf o = 0) (a b : Json) (ha : a.setDoc = true) (hb : b.setDoc = true)
    (hf : HashFaithful o (subterms a ++ subterms b)) :
    equals o a b = equivB o a b :=
  equals_eq_equivB_core F o (Or.inr hd) hp a b (docOk_of_setDoc ha) (docOk_of_setDoc hb)
    (fun x hx y hy _ _ e =>
      hf x (List.mem_append.2 (Or.inl hx)) y (List.mem_append.2 (Or.inr hy)) e)

/-! ### 7. reflexivity and symmetry in the set modes (no hash hypothesis needed)

  Array nodes are compared by hash code (and length), which is an equivalence relation whatever the
  hash function; objects and scalars are compared structurally as in list mode. -/

theorem equals_arr_raw_refl {o : Opts} (hm : dispatchTag o = .set ∨ dispatchTag o = .mset)
    (xs : List Json) : equals o (.arr .raw xs) (.arr .raw xs) = true := by
  rcases hm with hd | hd
  · simp [equals_arr_raw_set hd]
  · simp [equals_arr_raw_mset hd]

theorem equals_arr_raw_symm {o : Opts} (hm : dispatchTag o = .set ∨ dispatchTag o = .mset)
    (xs ys : List Json) :
    equals o (.arr .raw xs) (.arr .raw ys) = equals o (.arr .raw ys) (.arr .raw xs) := by
  rcases hm with hd | hd
  · rw [equals_arr_raw_set hd, equals_arr_raw_set hd, Bool.eq_iff_iff]
    simp only [beq_iff_eq]
    exact ⟨Eq.symm, Eq.symm⟩
  · rw [equals_arr_raw_mset hd, equals_arr_raw_mset hd, Bool.eq_iff_iff]
    simp only [Bool.and_eq_true, beq_iff_eq]
    exact ⟨fun h => ⟨h.1.symm, h.2.symm⟩, fun h => ⟨h.1.symm, h.2.symm⟩⟩

mutual
/-- `Equals` is reflexive in the set modes (finite numbers, eps ≥ 0) -/
theorem equals_refl_setmode (L : FloatLaws) (o : Opts)
    (hm : dispatchTag o = .set ∨ dispatchTag o = .mset) (hp : nonnegBits (precOf o) = true) :
    ∀ (a : Json), a.rawDoc = true → a.wf = true → a.finiteNums = true → equals o a a = true
  | .void, _, _, _ => by simp [equals, Json.isVoid]
  | .null, _, _, _ => by simp [equals, Json.isNull]
  | .bool x, _, _, _ => by simp [equals]
  | .num x, _, _, hf => by
    simp only [Json.finiteNums] at hf
    simp [equals, L.refl _ _ hf hp]
  | .str x, _, _, _ => by simp [equals]
  | .arr t xs, ha, _, _ => by
    simp only [Json.rawDoc, Bool.and_eq_true, beq_iff_eq] at ha
    obtain ⟨rfl, _⟩ := ha
    exact equals_arr_raw_refl hm xs
  | .obj kvs, ha, hw, hf => by
    simp only [Json.rawDoc] at ha
    simp only [Json.wf, Bool.and_eq_true] at hw
    simp only [Json.finiteNums] at hf
    simp only [equals, beq_self_eq_true, Bool.true_and]
    exact equalsKvs_refl_setmode L o hm hp kvs kvs (fun k v h => alookup_of_mem hw.1 h) ha hw.2 hf
theorem equalsKvs_refl_setmode (L : FloatLaws) (o : Opts)
    (hm : dispatchTag o = .set ∨ dispatchTag o = .mset) (hp : nonnegBits (precOf o) = true) :
    ∀ (r kvs : List (String × Json)), (∀ k v, (k, v) ∈ r → alookup k kvs = some v) →
      rawDocKvs r = true → wfKvs r = true → finiteNumsKvs r = true → equalsKvs o r kvs = true
  | [], _, _, _, _, _ => by simp [equalsKvs]
  | (k, v) :: r, kvs, hsub, ha, hw, hf => by
    simp only [rawDocKvs, wfKvs, finiteNumsKvs, Bool.and_eq_true] at ha hw hf
    rw [equalsKvs, hsub k v List.mem_cons_self]
    simp [equals_refl_setmode L o hm hp v ha.1 hw.1 hf.1,
      equalsKvs_refl_setmode L o hm hp r kvs
        (fun k' v' h => hsub k' v' (List.mem_cons_of_mem _ h)) ha.2 hw.2 hf.2]
end

mutual
/-- `Equals` is symmetric in the set modes -/
theorem equals_symm_setmode (L : FloatLaws) (o : Opts)
    (hm : dispatchTag o = .set ∨ dispatchTag o = .mset) :
    ∀ (a b : Json), a.rawDoc = true → b.rawDoc = true → a.wf = true → b.wf = true →
      equals o a b = equals o b a
  | .void, b, _, _, _, _ => by
    cases b <;> simp [equals, Json.isVoid, Json.isNull, Json.dispatch, effTag]
  | .null, b, _, _, _, _ => by
    cases b <;> simp [equals, Json.isVoid, Json.isNull, Json.dispatch]
  | .bool x, b, _, _, _, _ => by
    cases b <;> simp [equals, Json.isVoid, Json.isNull, Json.dispatch, Bool.beq_comm]
  | .num x, b, _, _, _, _ => by
    cases b <;> simp [equals, Json.isVoid, Json.isNull, Json.dispatch, L.symm _ x]
  | .str x, b, _, _, _, _ => by
    cases b <;> simp [equals, Json.isVoid, Json.isNull, Json.dispatch, Bool.beq_comm]
  | .arr t xs, b, ha, hb, _, _ => by
    simp only [Json.rawDoc, Bool.and_eq_true, beq_iff_eq] at ha
    obtain ⟨rfl, _⟩ := ha
    cases b with
    | arr t' ys =>
      simp only [Json.rawDoc, Bool.and_eq_true, beq_iff_eq] at hb
      obtain ⟨rfl, _⟩ := hb
      exact equals_arr_raw_symm hm xs ys
    | _ =>
      rcases hm with hd | hd <;>
        simp [equals, Json.isVoid, Json.isNull, Json.dispatch, effTag, hd]
  | .obj kvs, b, ha, hb, hw, hw' => by
    cases b with
    | obj kvs' =>
      simp only [Json.rawDoc] at ha hb
      simp only [Json.wf, Bool.and_eq_true] at hw hw'
      simp only [equals]
      by_cases hlen : kvs.length = kvs'.length
      · rw [equalsKvs_flip_setmode L o hm kvs kvs' ha hb hw.2 hw'.2,
          lookAll_flip (equals o) hw.1 hw'.1 hlen, ← equalsKvs_eq_lookAll, hlen]
      · have hlen' : ¬ kvs'.length = kvs.length := fun e => hlen e.symm
        rw [beq_false_of_ne hlen, beq_false_of_ne hlen']; rfl
    | _ => simp [equals, Json.isVoid, Json.isNull, Json.dispatch]
theorem equalsKvs_flip_setmode (L : FloatLaws) (o : Opts)
    (hm : dispatchTag o = .set ∨ dispatchTag o = .mset) :
    ∀ (r kvs' : List (String × Json)), rawDocKvs r = true → rawDocKvs kvs' = true →
      wfKvs r = true → wfKvs kvs' = true →
      equalsKvs o r kvs' = lookAll (fun x y => equals o y x) r kvs'
  | [], _, _, _, _, _ => by simp [equalsKvs, lookAll]
  | (k, v) :: r, kvs', ha, hb, hw, hw' => by
    simp only [rawDocKvs, wfKvs, Bool.and_eq_true] at ha hw
    rw [equalsKvs, lookAll, equalsKvs_flip_setmode L o hm r kvs' ha.2 hb hw.2 hw']
    cases hl : alookup k kvs' with
    | none => rfl
    | some v' =>
      show (equals o v v' && _) = (equals o v' v && _)
      rw [equals_symm_setmode L o hm v v' ha.1 (alookup_rawDoc hl hb) hw.1 (alookup_wf hl hw')]
end

/-! ### 8. the hypotheses are needed; non-vacuity -/

/-- `rawDoc` is needed: `Equals` looks at the Go dynamic type of the receiver, the advertised
    equivalence does not. A `jsonList` receiver is never Equal to a plain array under SET. -/
theorem mixed_tags_differ :
    equals [.set] (.arr .list [.null]) (.arr .raw [.null]) = false ∧
    equivB [.set] (.arr .list [.null]) (.arr .raw [.null]) = true := by
  constructor
  · simp [equals, effTag, Json.dispatch, dispatchTag]
  · simp [equivB, dispatchTag, allIn, allCovered, anyEquiv]

/-- `wf` (sorted keys) is needed by `equivB_hash`: the object hash follows the stored key order
    (in Go the keys are sorted before hashing, which is what `wf` stands for). -/
theorem unsorted_object_hash_differs :
    equivB [.set] (.obj [("a", .null), ("b", .void)]) (.obj [("b", .void), ("a", .null)]) = true ∧
    hashCode [.set] (.obj [("a", .null), ("b", .void)])
      ≠ hashCode [.set] (.obj [("b", .void), ("a", .null)]) := by
  constructor
  · simp [equivB, equivKvs, alookup]
  · decide +kernel

/-! Non-vacuity: a nested pair of documents satisfying every hypothesis of the SET theorem
    (the `FloatEq0` law is about the opaque `Float` and is the only assumption left). -/

def setExA : Json := .arr .raw [.str "a", .obj [("k", .arr .raw [.str "b", .str "a"])]]
def setExB : Json :=
  .arr .raw [.obj [("k", .arr .raw [.str "a", .str "b", .str "a"])], .str "a", .str "a"]

theorem ex_setDoc : setExA.setDoc = true ∧ setExB.setDoc = true := by decide

theorem ex_hashFaithful : HashFaithful [.set] (subterms setExA ++ subterms setExB) := by
  intro x hx y hy
  simp only [setExA, setExB, subterms, subtermsList, subtermsKvs, List.cons_append, List.nil_append,
    List.append_nil, List.mem_cons, List.not_mem_nil, or_false] at hx hy
  rcases hx with rfl | rfl | rfl | rfl | rfl | rfl | rfl | rfl | rfl | rfl | rfl | rfl | rfl | rfl <;>
  rcases hy with rfl | rfl | rfl | rfl | rfl | rfl | rfl | rfl | rfl | rfl | rfl | rfl | rfl | rfl <;>
  first
  | (intro _; simp [equivB, dispatchTag, allIn, allCovered, anyEquiv, equivKvs, alookup]; done)
  | (intro e; exact absurd e (by decide +kernel))

theorem ex_equals_eq_equivB (F : FloatEq0) :
    equals [.set] setExA setExB = equivB [.set] setExA setExB ∧ equals [.set] setExA setExB = true :=
  ⟨equals_eq_equivB_set F [.set] rfl rfl setExA setExB ex_setDoc.1 ex_setDoc.2 ex_hashFaithful,
   by decide +kernel⟩

/-! ### axioms -/

#print axioms bswap_inj
#print axioms hsort_eq_of_perm
#print axioms hsort_hdedup_ext
#print axioms equivB_hash
#print axioms equals_eq_equivB_core
#print axioms equals_eq_equivB_set
#print axioms equals_eq_equivB_mset
#print axioms equals_refl_setmode
#print axioms equals_symm_setmode
#print axioms mixed_tags_differ
#print axioms ex_equals_eq_equivB

end Jd
