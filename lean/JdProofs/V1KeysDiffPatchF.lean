/-
  JdProofs.V1KeysDiffPatchF — property C17 (v1 API `lib/`), MERGE together with setkeys:
  SET + setkeys + MERGE and MULTISET (+ setkeys) + MERGE, in memory and through the text.
  Namespace `Jd.V1K`.

  `MergeKit m o S SB`: the five facts the merge-strategy proofs of file A use about the metadata
  (`Equals = equivB` on `S`, equivalent documents have an EMPTY merge diff, reflexivity, scalars,
  SET or MULTISET); `kit_eq_ds1`, `kit_memSound` (the two inductions of file A, from a kit),
  `kit_main`, `kit_text` (the results for a metadata list holding MERGE, from a kit for `strip m`).

  THEOREMS
    `v1_merge_diff_patch_setkeys` : `KMergeMode m ks` (SET, `keysOf m = some ks`, `ks ≠ []`, MERGE,
        precision 0); `a b : setDoc`, `memOK b`; `V1S.HashFaithful m [.set] (subterms a ++ subterms b)`;
        `IdentInj m (subterms b)`; `FloatEq0`, `FloatLaws`:
          ∃ r, V1.patchM a (V1.diffM m a b) = .ok r ∧ V1.equals m r b = true ∧ equivB [.set] r b = true.
        Of the setkeys hypotheses of file B only `hf` and `ib` remain: the merge strategy never
        patches INTO an array (it keeps an `Equal` array, replaces any other), so no keyed lookup
        takes place; `ib` is used because `Equal` arrays are still handed to the strict keyed set
        diff, which must be empty (`diffNode_merge_nil_of_equivB_K`). `ib` is NOT KNOWN to be
        necessary here (without it the strict diff of two `Equal` arrays could contain a sub-diff
        whose path starts with a metadata array, where `prependMetadataMerge` loses MERGE — no
        concrete pair inside `hf` was found).
    `v1_merge_diff_empty_iff_equals_setkeys`, `v1_text_roundtrip_merge_setkeys` : same hypotheses
        (+ `CodecOK`, render success).
    `v1_merge_diff_patch_mset_setkeys`, `v1_merge_diff_empty_iff_equals_mset_setkeys`,
    `v1_text_roundtrip_merge_mset_setkeys` : `XMergeMode m` (MULTISET, no SET, MERGE, precision 0, set
        keys allowed); hypotheses of the MULTISET + MERGE theorem of file A.
  Non-vacuity: §5.3. Nothing was found false.
-/
import JdProofs.V1KeysDiffPatchE

namespace Jd.V1K
open Jd Jd.Spec Jd.Merge
open Jd.SetDP (Ok Within)

/-! # Part 5. MERGE together with setkeys (SET or MULTISET), in memory and through the text -/

/-- what the merge-strategy proofs need of the metadata `m` (read against the options `o`) on the
    sub-terms `S` (both documents) and `SB` (the second document) -/
structure MergeKit (m : V1.Metas) (o : Opts) (S SB : List Json) : Prop where
  sm : V1.dispatchTag m = .set ∨ V1.dispatchTag m = .mset
  eqv : ∀ a b, DocOk a → DocOk b → Within S a → Within S b → V1.equals m a b = equivB o a b
  nil : ∀ a b, DocOk a → DocOk b → Within S a → Within S b → Within SB b →
    equivB o a b = true → ∀ p, V1.diffNode m true a b p = []
  refl : ∀ b, Ok b → Within S b → Rel1 m o b b
  sc : ∀ a b : Json, (∀ t xs, a ≠ .arr t xs) → (∀ kvs, a ≠ .obj kvs) →
    equivB o a b = V1.equals m a b

section Kit
variable {m : V1.Metas} {o : Opts} {S SB : List Json}

/-- the library's merge diff is `ds1`, hunk by hunk -/
theorem kit_eq_ds1 (Kt : MergeKit m o S SB) :
    ∀ a b, DocOk a → Ok b → Within S a → Within S b → Within SB b →
      ∀ q : List String,
        V1.diffNode m true a b (q.map Json.str)
          = (ds1 m (V1.dispatchTag m) a b).map (fun e => V1M.vh (q ++ e.1) e.2) := by
  have scalar : ∀ a b : Json, (∀ t xs, a ≠ .arr t xs) → (∀ kvs, a ≠ .obj kvs) →
      ∀ q : List String,
        V1.diffNode m true a b (q.map Json.str)
          = (ds1 m (V1.dispatchTag m) a b).map (fun e => V1M.vh (q ++ e.1) e.2) := by
    intro a b h1 h2 q
    have g1 : a.isObj = false := by cases a <;> simp_all [Json.isObj]
    have g2 : Merge.isArr a = false := by cases a <;> simp_all [Merge.isArr]
    rw [V1M.diffNode_scalar m a b h1 h2, ds1_scalar m _ g1 g2]
    split <;> simp [V1M.whole_keys]
  intro a
  induction a using jsonInd with
  | void => intro b _ _ _ _ _ q; exact scalar _ b (fun _ _ e => by cases e) (fun _ e => by cases e) q
  | null => intro b _ _ _ _ _ q; exact scalar _ b (fun _ _ e => by cases e) (fun _ e => by cases e) q
  | bool x => intro b _ _ _ _ _ q; exact scalar _ b (fun _ _ e => by cases e) (fun _ e => by cases e) q
  | num x => intro b _ _ _ _ _ q; exact scalar _ b (fun _ _ e => by cases e) (fun _ e => by cases e) q
  | str x => intro b _ _ _ _ _ q; exact scalar _ b (fun _ _ e => by cases e) (fun _ e => by cases e) q
  | arr t xs _ =>
    intro b ha hb wa wb wb' q
    have ht := ha.raw
    subst ht
    cases b with
    | arr t' ys =>
      have ht' := hb.raw
      subst ht'
      rw [ds1_arr_arr]
      cases he : V1.equals m (.arr .raw xs) (.arr .raw ys) with
      | true =>
        have heq : equivB o (.arr .raw xs) (.arr .raw ys) = true := by
          rw [← Kt.eqv _ _ ha hb.docOk wa wb]; exact he
        rw [Kt.nil _ _ ha hb.docOk wa wb wb' heq]
        simp
      | false =>
        rw [diffNode_merge_arr_ne Kt.sm xs ys _ he]
        simp [V1M.whole_keys]
    | _ =>
      rw [diffNode_merge_arr_other Kt.sm xs _ (by simp), ds1_arr_other m _ _ xs rfl]
      simp [V1M.whole_keys]
  | obj kvs ih =>
    intro b ha hb wa wb wb' q
    cases b with
    | obj kvs' =>
      have hkv : ∀ r : List (String × Json), (∀ kv ∈ r, kv ∈ kvs) →
          V1.diffKvs m true (q.map Json.str) kvs' r
            = (ds1Kvs m (V1.dispatchTag m) kvs' r).map (fun e => V1M.vh (q ++ e.1) e.2) := by
        intro r
        induction r with
        | nil => intro _; rw [dk_nil, ds1Kvs_nil]; rfl
        | cons kv r ihr =>
          intro hsub
          obtain ⟨k, v⟩ := kv
          have hm1 : (k, v) ∈ kvs := hsub _ List.mem_cons_self
          rw [V1M.diffKvs_cons, ds1Kvs_cons, List.map_append,
            ihr (fun kv hh => hsub kv (List.mem_cons_of_mem _ hh))]
          congr 1
          cases hl : alookup k kvs' with
          | none => simp [V1M.whole_keys_snoc]
          | some v' =>
            have hm2 := mem_of_alookup hl
            have := ih k v hm1 v' (ha.val hm1) (hb.val hm2).1 (wa.val hm1) (wb.val hm2)
              (fun z hz => wb' z (subterms_val_sub hm2 hz)) (q ++ [k])
            simp only [List.map_append, List.map_cons, List.map_nil] at this
            simp only [this]
            simp [consE, Function.comp_def]
      rw [V1M.diffNode_obj_obj, ds1_obj_obj, List.map_append, hkv kvs (fun _ hh => hh),
        additions_eq1 q kvs kvs' (fun k v hm => (hb.val hm).2)]
    | _ =>
      rw [V1M.diffNode_obj_other m kvs _ (by simp), ds1_obj_other m _ kvs rfl]
      simp [V1M.whole_keys]

theorem kit_typed_arr (Kt : MergeKit m o S SB) {τ : Tag}
    (hτ : τ = .raw ∨ τ = V1.dispatchTag m) {ys : List Json} (hb : Ok (.arr .raw ys))
    (wb : Within S (.arr .raw ys)) : Rel1 m o (.arr τ ys) (.arr .raw ys) := by
  obtain ⟨e1, e2⟩ := Kt.refl _ hb wb
  constructor
  · rcases hτ with rfl | rfl
    · exact e1
    · rcases Kt.sm with hd | hd <;> rw [hd] <;> simp [V1.equals, V1.effTag, V1.dispatch, hd]
  · rw [equivB] at e2 ⊢
    exact e2

theorem kit_memSound (Kt : MergeKit m o S SB) {τ : Tag}
    (hτ : τ = .raw ∨ τ = V1.dispatchTag m) :
    ∀ a, DocOk a → Within S a → ∀ b, Ok b → Within S b →
      Rel1 m o (mapply (ds1 m τ a b) a) b := by
  have scalar : ∀ a b : Json, (∀ t xs, a ≠ .arr t xs) → (∀ kvs, a ≠ .obj kvs) → Ok b →
      Within S b → Rel1 m o (mapply (ds1 m τ a b) a) b := by
    intro a b h1 h2 hb wb
    have g1 : a.isObj = false := by cases a <;> simp_all [Json.isObj]
    have g2 : Merge.isArr a = false := by cases a <;> simp_all [Merge.isArr]
    rw [ds1_scalar m τ g1 g2]
    cases he : V1.equals m a b with
    | true =>
      simp only [if_true, mapply, List.foldl_nil]
      exact ⟨he, by rw [Kt.sc a b h1 h2]; exact he⟩
    | false => simpa [mapply, mset] using Kt.refl b hb wb
  intro a
  induction a using jsonInd with
  | void => intro _ _ b hb wb; exact scalar _ b (fun _ _ e => by cases e) (fun _ e => by cases e) hb wb
  | null => intro _ _ b hb wb; exact scalar _ b (fun _ _ e => by cases e) (fun _ e => by cases e) hb wb
  | bool x => intro _ _ b hb wb; exact scalar _ b (fun _ _ e => by cases e) (fun _ e => by cases e) hb wb
  | num x => intro _ _ b hb wb; exact scalar _ b (fun _ _ e => by cases e) (fun _ e => by cases e) hb wb
  | str x => intro _ _ b hb wb; exact scalar _ b (fun _ _ e => by cases e) (fun _ e => by cases e) hb wb
  | arr t xs _ =>
    intro ha wa b hb wb
    have ht := ha.raw
    subst ht
    cases b with
    | arr t' ys =>
      have ht' := hb.raw
      subst ht'
      rw [ds1_arr_arr]
      cases he : V1.equals m (.arr .raw xs) (.arr .raw ys) with
      | true =>
        simp only [if_true, mapply, List.foldl_nil]
        refine ⟨he, ?_⟩
        rw [← Kt.eqv _ _ ha hb.docOk wa wb]; exact he
      | false =>
        simp only [Bool.false_eq_true, if_false, mapply, List.foldl_cons, List.foldl_nil, mset]
        exact kit_typed_arr Kt hτ hb wb
    | _ =>
      rw [ds1_arr_other m τ _ xs rfl]
      simpa [mapply, mset] using Kt.refl _ hb wb
  | obj kvs ih =>
    intro ha wa b hb wb
    cases b with
    | obj kvs' =>
      rw [ds1_obj_obj]
      refine obj_step1 m o (ds1 m τ) (ds1Kvs m τ) kvs kvs' (ds1Kvs_nil m τ kvs')
        (ds1Kvs_cons m τ kvs') ha.sorted hb.sorted (fun j v' hj => (hb.lookup hj).2) ?_ ?_
      · intro j v v' hja hjb
        have hm1 := mem_of_alookup hja
        have hm2 := mem_of_alookup hjb
        exact ih j v hm1 (ha.val hm1) (wa.val hm1) v' (hb.val hm2).1 (wb.val hm2)
      · intro j v' _ hjb
        have hm2 := mem_of_alookup hjb
        exact Kt.refl _ (hb.val hm2).1 (wb.val hm2)
    | _ =>
      rw [ds1_obj_other m τ kvs rfl]
      simpa [mapply, mset] using Kt.refl _ hb wb

end Kit

/-- the three results for a metadata list `m` holding MERGE, from a kit for `strip m` -/
theorem kit_main {m : V1.Metas} {o : Opts} (hmg : V1.hasMerge m = true) (a b : Json)
    (ha : a.setDoc = true) (hb : b.setDoc = true) (hb' : DPL.memOK b = true)
    (Kt : MergeKit (strip m) o (subterms a ++ subterms b) (subterms b)) :
    (V1.diffM m a b = (ds1 (strip m) (V1.dispatchTag m) a b).map (fun e => V1M.vh e.1 e.2)) ∧
    (∃ r, V1.patchM a (V1.diffM m a b) = .ok r ∧ V1.equals m r b = true ∧ equivB o r b = true) ∧
    (V1.diffM m a b = [] ↔ V1.equals m a b = true) ∧
    Rel1 (strip m) o (mapply (ds1 (strip m) .raw a b) a) b := by
  have E := strip_metaEq m
  have wa : Within (subterms a ++ subterms b) a := fun z hz => List.mem_append.2 (Or.inl hz)
  have wb : Within (subterms a ++ subterms b) b := fun z hz => List.mem_append.2 (Or.inr hz)
  have okb : Ok b := ⟨hb, hb'⟩
  have hd := kit_eq_ds1 Kt a b (docOk_of_setDoc ha) okb wa wb (fun _ hz => hz) []
  simp only [List.map_nil, List.nil_append] at hd
  have e : V1.diffM m a b
      = (ds1 (strip m) (V1.dispatchTag m) a b).map (fun e => V1M.vh e.1 e.2) := by
    unfold V1.diffM
    rw [hmg, diffNode_meq E, hd, E.tag]
  have S1 := kit_memSound Kt (τ := V1.dispatchTag m) (Or.inr E.tag) a (docOk_of_setDoc ha) wa b
    okb wb
  have S2 := kit_memSound Kt (τ := .raw) (Or.inl rfl) a (docOk_of_setDoc ha) wa b okb wb
  have hp : V1.patchM a (V1.diffM m a b)
      = .ok (mapply (ds1 (strip m) (V1.dispatchTag m) a b) a) := by rw [e, V1M.patchM_vh]
  refine ⟨e, ⟨_, hp, by rw [E.equals]; exact S1.1, S1.2⟩, ⟨fun h0 => ?_, fun he => ?_⟩, S2⟩
  · have hds : ds1 (strip m) (V1.dispatchTag m) a b = [] := by
      rw [e] at h0
      exact List.map_eq_nil_iff.1 h0
    rw [hds] at S1
    rw [E.equals]
    simpa [mapply] using S1.1
  · rw [E.equals, Kt.eqv _ _ (docOk_of_setDoc ha) (docOk_of_setDoc hb) wa wb] at he
    unfold V1.diffM
    rw [hmg, diffNode_meq E]
    exact Kt.nil a b (docOk_of_setDoc ha) (docOk_of_setDoc hb) wa wb (fun _ hz => hz) he []

/-- … and through the text -/
theorem kit_text {m : V1.Metas} {o : Opts} (hmg : V1.hasMerge m = true) (nc : NumCodec)
    (a b : Json) (ha : a.setDoc = true) (hb : b.setDoc = true) (hb' : DPL.memOK b = true)
    (Kt : MergeKit (strip m) o (subterms a ++ subterms b) (subterms b))
    (hc : V1S.CodecOK nc (V1.diffM m a b)) (text : String)
    (hr : V1.renderM nc false (V1.liftDiff (V1.diffM m a b)) = .ok (some text)) :
    ∃ d' r, V1.readDiffM nc text = .ok d' ∧ V1.patchM a d' = .ok r ∧ V1.equals m r b = true ∧
      equivB o r b = true := by
  have E := strip_metaEq m
  have okb : Ok b := ⟨hb, hb'⟩
  obtain ⟨hd, _, _, S⟩ := kit_main hmg a b ha hb hb' Kt
  have hrd : V1.readDiffM nc text = .ok (V1S.normDiff (V1.diffM m a b)) := by
    apply V1S.v1_read_render nc _ text _ hc hr
    intro h hh
    rw [hd] at hh
    obtain ⟨e, _, rfl⟩ := List.mem_map.1 hh
    exact V1S.wfHunk_vh e.1 e.2
  have hnd : V1S.normDiff (V1.diffM m a b) =
      (ds1 (strip m) .raw a b).map (fun e => V1M.vh e.1 e.2) := by
    rw [hd, V1S.normDiff, List.map_map, ← ds1_untag (strip m) (V1.dispatchTag m) a b okb.rawDoc,
      List.map_map]
    apply List.map_congr_left
    intro e _
    simp [V1S.normHunk_vh, V1S.untagE]
  refine ⟨_, _, hrd, ?_, by rw [E.equals]; exact S.1, S.2⟩
  rw [hnd, V1M.patchM_vh]

/-! ## 5.1 SET + setkeys + MERGE -/

section KM
variable {m : V1.Metas} {ks : List String}

/-- equivalent documents have an EMPTY merge diff under SET + setkeys -/
theorem diffNode_merge_nil_of_equivB_K (F : FloatEq0) (K : KMode m ks) {S SB : List Json}
    (HF : V1S.HashFaithful m [.set] S) (IB : IdentInj m SB) :
    ∀ a b, DocOk a → DocOk b → Within S a → Within S b → Within SB b →
      equivB [.set] a b = true → ∀ p, V1.diffNode m true a b p = [] := by
  have scalar : ∀ a b : Json, (∀ t xs, a ≠ .arr t xs) → (∀ kvs, a ≠ .obj kvs) →
      equivB [.set] a b = true → ∀ p, V1.diffNode m true a b p = [] := by
    intro a b h1 h2 h p
    rw [V1M.diffNode_scalar m a b h1 h2 p,
      ← V1S.equivB_scalar_equals (m := m) (o := [.set]) rfl K.prec0 h1 h2, h]
    rfl
  intro a
  induction a using jsonInd with
  | void => intro b _ _ _ _ _ h; exact scalar _ b (fun _ _ e => by cases e) (fun _ e => by cases e) h
  | null => intro b _ _ _ _ _ h; exact scalar _ b (fun _ _ e => by cases e) (fun _ e => by cases e) h
  | bool x => intro b _ _ _ _ _ h; exact scalar _ b (fun _ _ e => by cases e) (fun _ e => by cases e) h
  | num x => intro b _ _ _ _ _ h; exact scalar _ b (fun _ _ e => by cases e) (fun _ e => by cases e) h
  | str x => intro b _ _ _ _ _ h; exact scalar _ b (fun _ _ e => by cases e) (fun _ e => by cases e) h
  | arr t xs ih =>
    intro b ha hb wa wb wb' h p
    cases b with
    | arr t' ys =>
      have ht := ha.raw
      have ht' := hb.raw
      subst ht ht'
      have he : V1.equals m (.arr .raw xs) (.arr .raw ys) = true := by
        rw [k_equals K, V1S.equals_eq_equivB_of F M0 (k_hf K HF) ha hb wa wb]; exact h
      have h0 := h
      simp only [equivB, dispatchTag, Bool.and_eq_true, allIn_iff, allCovered_iff] at h
      have hident : ∀ x ∈ xs, ∀ y ∈ ys, equivB [.set] x y = true →
          V1.identOf m x = V1.identOf m y := by
        intro x hx y hy e
        have hh : V1.hashCode m x = V1.hashCode m y := by
          rw [k_hash K]
          exact V1S.equivB_hash_core F M0 x y (ha.elem hx) (hb.elem hy) e
        exact (hash_facts F K HF (ha.elem hx) (hb.elem hy) (wa.elem hx) (wb.elem hy) hh).2
      have H : ∀ kvs kvs', Json.obj kvs ∈ xs → Json.obj kvs' ∈ ys →
          V1.identOf m (.obj kvs) = V1.identOf m (.obj kvs') →
          ∀ q, V1.diffNode m true (.obj kvs) (.obj kvs') q
            = V1.diffNode m false (.obj kvs) (.obj kvs') q := by
        intro kvs kvs' hx hy' hid q
        obtain ⟨y, hy, e⟩ := h.1 _ hx
        have hiy : V1.identOf m y = V1.identOf m (.obj kvs') :=
          (hident _ hx y hy e).symm.trans hid
        have hhy : V1.hashCode m y = V1.hashCode m (.obj kvs') :=
          IB.apply wb'.self hy hy' hiy
        have e2 : equivB [.set] y (.obj kvs') = true :=
          HF y (wb.elem hy).self _ (wb.elem hy').self hhy
        have e3 : equivB [.set] (.obj kvs) (.obj kvs') = true :=
          DPK.equivB_trans_right F (o := [.set]) rfl rfl _ _ _ (hb.elem hy) (hb.elem hy') e e2
        have wy' : Within SB (.obj kvs') := fun z hz => wb' z (subterms_elem_sub hy' hz)
        rw [ih _ hx _ (ha.elem hx) (hb.elem hy') (wa.elem hx) (wb.elem hy') wy' e3 q,
          diffNode_nil_of_equivB_K F K HF IB _ _ (ha.elem hx) (hb.elem hy') (wa.elem hx)
            (wb.elem hy') wy' e3 q]
      rw [diffNode_merge_arr_eq (Or.inl K.tag) xs ys p he H]
      exact diffNode_nil_of_equivB_K F K HF IB _ _ ha hb wa wb wb' h0 p
    | _ => simp [equivB] at h
  | obj kvs ih =>
    intro b ha hb wa wb wb' h p
    cases b with
    | obj kvs' =>
      have hs := ha.sorted
      have hs' := hb.sorted
      simp only [equivB, Bool.and_eq_true, beq_iff_eq, equivKvs_eq_lookAll, lookAll_iff] at h
      have hflip := AllLook.flip hs hs' h.1 h.2
      have hkv : ∀ r : List (String × Json), (∀ kv ∈ r, kv ∈ kvs) →
          V1.diffKvs m true p kvs' r = [] := by
        intro r
        induction r with
        | nil => intro _; exact dk_nil m true p kvs'
        | cons kv r ihr =>
          intro hsub
          obtain ⟨k, v⟩ := kv
          have hm1 : (k, v) ∈ kvs := hsub _ List.mem_cons_self
          obtain ⟨v', hl, he⟩ := h.2 k v hm1
          have hm2 := mem_of_alookup hl
          rw [dk_cons, ihr (fun kv hh => hsub kv (List.mem_cons_of_mem _ hh)), hl]
          simp only [List.append_nil]
          exact ih k v hm1 v' (ha.val hm1) (hb.val hm2) (wa.val hm1) (wb.val hm2)
            (fun z hz => wb' z (subterms_val_sub hm2 hz)) he _
      rw [V1M.diffNode_obj_obj, hkv kvs (fun _ hh => hh),
        filter_added_nil (kvs := kvs) (kvs' := kvs') (fun k' v' hm' => by
          obtain ⟨w, hl, _⟩ := hflip k' v' hm'
          simp [hl])]
      rfl
    | _ => simp [equivB] at h

theorem kitK (F : FloatEq0) (L : FloatLaws) (K : KMode m ks) {S SB : List Json}
    (HF : V1S.HashFaithful m [.set] S) (IB : IdentInj m SB) : MergeKit m [.set] S SB where
  sm := Or.inl K.tag
  eqv := fun a b da db wa wb => by
    rw [k_equals K]; exact V1S.equals_eq_equivB_of F M0 (k_hf K HF) da db wa wb
  nil := diffNode_merge_nil_of_equivB_K F K HF IB
  refl := fun b hb wb => by
    obtain ⟨e1, _, e3⟩ := qr_refl F L K HF hb wb
    exact ⟨e1, e3⟩
  sc := fun a b h1 h2 => V1S.equivB_scalar_equals (m := m) (o := [.set]) rfl K.prec0 h1 h2

end KM

/-- SET + setkeys + MERGE as the caller writes it. Decidable. -/
structure KMergeMode (m : V1.Metas) (ks : List String) : Prop where
  set : V1.hasSet m = true
  keys : V1.keysOf m = some ks
  nonempty : ks.isEmpty = false
  merge : V1.hasMerge m = true
  prec0 : V1.precOf m = 0

theorem KMergeMode.single (k : String) (r : List String) :
    KMergeMode [.set, .setkeys (k :: r), .merge] (k :: r) := ⟨rfl, rfl, rfl, rfl, rfl⟩

theorem KMergeMode.kmode {m : V1.Metas} {ks : List String} (h : KMergeMode m ks) :
    KMode (strip m) ks :=
  have E := strip_metaEq m
  ⟨E.set.symm.trans h.set, E.keys.symm.trans h.keys, h.nonempty, strip_noMerge m,
    E.prec.symm.trans h.prec0⟩

theorem identInj_strip {m : V1.Metas} {SB : List Json} (h : IdentInj m SB) :
    IdentInj (strip m) SB := by
  have E := strip_metaEq m
  intro n hn
  have := h n hn
  unfold nodeIdentInj at this ⊢
  rw [← E.identOf, ← E.hashCode]
  exact this

theorem kit_of_kmerge (F : FloatEq0) (L : FloatLaws) {m : V1.Metas} {ks : List String}
    (h : KMergeMode m ks) {S SB : List Json} (HF : V1S.HashFaithful m [.set] S)
    (IB : IdentInj m SB) : MergeKit (strip m) [.set] S SB :=
  kitK F L h.kmode (hashFaithful_strip HF) (identInj_strip IB)

/-- **C17, SET + setkeys + MERGE, in memory.** The merge strategy never descends into arrays: an
    array is kept (when `Equal`) or replaced as a whole; so of the setkeys hypotheses only `hf`
    (equal hash codes only for equivalent nodes) and `ib` (in the arrays of `b`, members with the
    same identity have the same hash code) are needed — the latter because `Equal` arrays are still
    handed to the strict keyed set diff, which must be empty. -/
theorem v1_merge_diff_patch_setkeys (F : FloatEq0) (L : FloatLaws) {m : V1.Metas}
    {ks : List String} (hm : KMergeMode m ks) (a b : Json)
    (ha : a.setDoc = true) (hb : b.setDoc = true) (hb' : DPL.memOK b = true)
    (HF : V1S.HashFaithful m [.set] (subterms a ++ subterms b))
    (IB : IdentInj m (subterms b)) :
    ∃ r, V1.patchM a (V1.diffM m a b) = .ok r ∧ V1.equals m r b = true ∧
      equivB [.set] r b = true :=
  (kit_main hm.merge a b ha hb hb' (kit_of_kmerge F L hm HF IB)).2.1

theorem v1_merge_diff_empty_iff_equals_setkeys (F : FloatEq0) (L : FloatLaws) {m : V1.Metas}
    {ks : List String} (hm : KMergeMode m ks) (a b : Json)
    (ha : a.setDoc = true) (hb : b.setDoc = true) (hb' : DPL.memOK b = true)
    (HF : V1S.HashFaithful m [.set] (subterms a ++ subterms b))
    (IB : IdentInj m (subterms b)) :
    V1.diffM m a b = [] ↔ V1.equals m a b = true :=
  (kit_main hm.merge a b ha hb hb' (kit_of_kmerge F L hm HF IB)).2.2.1

theorem v1_text_roundtrip_merge_setkeys (F : FloatEq0) (L : FloatLaws) (nc : NumCodec)
    {m : V1.Metas} {ks : List String} (hm : KMergeMode m ks) (a b : Json)
    (ha : a.setDoc = true) (hb : b.setDoc = true) (hb' : DPL.memOK b = true)
    (HF : V1S.HashFaithful m [.set] (subterms a ++ subterms b))
    (IB : IdentInj m (subterms b))
    (hc : V1S.CodecOK nc (V1.diffM m a b)) (text : String)
    (hr : V1.renderM nc false (V1.liftDiff (V1.diffM m a b)) = .ok (some text)) :
    ∃ d' r, V1.readDiffM nc text = .ok d' ∧ V1.patchM a d' = .ok r ∧ V1.equals m r b = true ∧
      equivB [.set] r b = true :=
  kit_text hm.merge nc a b ha hb hb' (kit_of_kmerge F L hm HF IB) hc text hr

/-! ## 5.2 MULTISET (+ setkeys) + MERGE -/

section XM
variable {m : V1.Metas}

theorem diffNode_merge_mset_eq (hd : V1.dispatchTag m = .mset) (xs ys : List Json)
    (p : List Json) (he : V1.equals m (.arr .raw xs) (.arr .raw ys) = true) :
    V1.diffNode m true (.arr .raw xs) (.arr .raw ys) p
      = V1.diffNode m false (.arr .raw xs) (.arr .raw ys) p := by
  rw [← equals_tag_mset hd] at he
  rw [V1.diffNode.eq_def, V1.diffNode.eq_def (merge := false)]
  simp only [V1.effTag, hd, V1.dispatch, beq_self_eq_true, if_true, he, Bool.not_true,
    Bool.and_false, Bool.false_eq_true, if_false]

theorem diffNode_merge_nil_of_equivB_X (F : FloatEq0) (X : XMsMode m) {S : List Json}
    (HF : V1S.HashFaithful m [.mset] S) :
    ∀ a b, DocOk a → DocOk b → Within S a → Within S b → equivB [.mset] a b = true →
      ∀ p, V1.diffNode m true a b p = [] := by
  have scalar : ∀ a b : Json, (∀ t xs, a ≠ .arr t xs) → (∀ kvs, a ≠ .obj kvs) →
      equivB [.mset] a b = true → ∀ p, V1.diffNode m true a b p = [] := by
    intro a b h1 h2 h p
    rw [V1M.diffNode_scalar m a b h1 h2 p,
      ← V1S.equivB_scalar_equals (m := m) (o := [.mset]) rfl X.prec0 h1 h2, h]
    rfl
  intro a
  induction a using jsonInd with
  | void => intro b _ _ _ _ h; exact scalar _ b (fun _ _ e => by cases e) (fun _ e => by cases e) h
  | null => intro b _ _ _ _ h; exact scalar _ b (fun _ _ e => by cases e) (fun _ e => by cases e) h
  | bool x => intro b _ _ _ _ h; exact scalar _ b (fun _ _ e => by cases e) (fun _ e => by cases e) h
  | num x => intro b _ _ _ _ h; exact scalar _ b (fun _ _ e => by cases e) (fun _ e => by cases e) h
  | str x => intro b _ _ _ _ h; exact scalar _ b (fun _ _ e => by cases e) (fun _ e => by cases e) h
  | arr t xs _ =>
    intro b ha hb wa wb h p
    cases b with
    | arr t' ys =>
      have ht := ha.raw
      have ht' := hb.raw
      subst ht ht'
      have he : V1.equals m (.arr .raw xs) (.arr .raw ys) = true := by
        rw [x_equals X, V1S.equals_eq_equivB_of F MX (x_hf X HF) ha hb wa wb]; exact h
      rw [diffNode_merge_mset_eq X.tag xs ys p he]
      exact diffNode_nil_of_equivB_X F X _ _ ha hb h p
    | _ => simp [equivB] at h
  | obj kvs ih =>
    intro b ha hb wa wb h p
    cases b with
    | obj kvs' =>
      have hs := ha.sorted
      have hs' := hb.sorted
      simp only [equivB, Bool.and_eq_true, beq_iff_eq, equivKvs_eq_lookAll, lookAll_iff] at h
      have hflip := AllLook.flip hs hs' h.1 h.2
      have hkv : ∀ r : List (String × Json), (∀ kv ∈ r, kv ∈ kvs) →
          V1.diffKvs m true p kvs' r = [] := by
        intro r
        induction r with
        | nil => intro _; exact dk_nil m true p kvs'
        | cons kv r ihr =>
          intro hsub
          obtain ⟨k, v⟩ := kv
          have hm1 : (k, v) ∈ kvs := hsub _ List.mem_cons_self
          obtain ⟨v', hl, he⟩ := h.2 k v hm1
          have hm2 := mem_of_alookup hl
          rw [dk_cons, ihr (fun kv hh => hsub kv (List.mem_cons_of_mem _ hh)), hl]
          simp only [List.append_nil]
          exact ih k v hm1 v' (ha.val hm1) (hb.val hm2) (wa.val hm1) (wb.val hm2) he _
      rw [V1M.diffNode_obj_obj, hkv kvs (fun _ hh => hh),
        filter_added_nil (kvs := kvs) (kvs' := kvs') (fun k' v' hm' => by
          obtain ⟨w, hl, _⟩ := hflip k' v' hm'
          simp [hl])]
      rfl
    | _ => simp [equivB] at h

theorem kitX (F : FloatEq0) (L : FloatLaws) (X : XMsMode m) {S SB : List Json}
    (HF : V1S.HashFaithful m [.mset] S) : MergeKit m [.mset] S SB where
  sm := Or.inr X.tag
  eqv := fun a b da db wa wb => by
    rw [x_equals X]; exact V1S.equals_eq_equivB_of F MX (x_hf X HF) da db wa wb
  nil := fun a b da db wa wb _ h p => diffNode_merge_nil_of_equivB_X F X HF a b da db wa wb h p
  refl := fun b hb wb => by
    obtain ⟨e1, e2⟩ := refl_bothX F L X HF hb wb
    exact ⟨e2, e1⟩
  sc := fun a b h1 h2 => V1S.equivB_scalar_equals (m := m) (o := [.mset]) rfl X.prec0 h1 h2

end XM

/-- MULTISET (+ setkeys) + MERGE as the caller writes it (no SET). Decidable. -/
structure XMergeMode (m : V1.Metas) : Prop where
  noSet : V1.hasSet m = false
  mset : V1.hasMset m = true
  merge : V1.hasMerge m = true
  prec0 : V1.precOf m = 0

theorem XMergeMode.withKeys (ks : List String) : XMergeMode [.mset, .setkeys ks, .merge] :=
  ⟨rfl, rfl, rfl, rfl⟩

theorem XMergeMode.xmode {m : V1.Metas} (h : XMergeMode m) : XMsMode (strip m) :=
  have E := strip_metaEq m
  ⟨E.set.symm.trans h.noSet, E.mset.symm.trans h.mset, strip_noMerge m,
    E.prec.symm.trans h.prec0⟩

theorem hashFaithful_stripX {m : V1.Metas} {o : Opts} {S : List Json}
    (HF : V1S.HashFaithful m o S) : V1S.HashFaithful (strip m) o S := hashFaithful_strip HF

/-- **C17, MULTISET (+ setkeys) + MERGE, in memory** -/
theorem v1_merge_diff_patch_mset_setkeys (F : FloatEq0) (L : FloatLaws) {m : V1.Metas}
    (hm : XMergeMode m) (a b : Json)
    (ha : a.setDoc = true) (hb : b.setDoc = true) (hb' : DPL.memOK b = true)
    (HF : V1S.HashFaithful m [.mset] (subterms a ++ subterms b)) :
    ∃ r, V1.patchM a (V1.diffM m a b) = .ok r ∧ V1.equals m r b = true ∧
      equivB [.mset] r b = true :=
  (kit_main hm.merge a b ha hb hb' (kitX F L hm.xmode (hashFaithful_strip HF))).2.1

theorem v1_merge_diff_empty_iff_equals_mset_setkeys (F : FloatEq0) (L : FloatLaws)
    {m : V1.Metas} (hm : XMergeMode m) (a b : Json)
    (ha : a.setDoc = true) (hb : b.setDoc = true) (hb' : DPL.memOK b = true)
    (HF : V1S.HashFaithful m [.mset] (subterms a ++ subterms b)) :
    V1.diffM m a b = [] ↔ V1.equals m a b = true :=
  (kit_main hm.merge a b ha hb hb' (kitX F L hm.xmode (hashFaithful_strip HF))).2.2.1

theorem v1_text_roundtrip_merge_mset_setkeys (F : FloatEq0) (L : FloatLaws) (nc : NumCodec)
    {m : V1.Metas} (hm : XMergeMode m) (a b : Json)
    (ha : a.setDoc = true) (hb : b.setDoc = true) (hb' : DPL.memOK b = true)
    (HF : V1S.HashFaithful m [.mset] (subterms a ++ subterms b))
    (hc : V1S.CodecOK nc (V1.diffM m a b)) (text : String)
    (hr : V1.renderM nc false (V1.liftDiff (V1.diffM m a b)) = .ok (some text)) :
    ∃ d' r, V1.readDiffM nc text = .ok d' ∧ V1.patchM a d' = .ok r ∧ V1.equals m r b = true ∧
      equivB [.mset] r b = true :=
  kit_text hm.merge nc a b ha hb hb' (kitX F L hm.xmode (hashFaithful_strip HF)) hc text hr

/-! ## 5.3 non-vacuity -/

/-- the pair of `ExampleK` (file C) under `[SET, Setkeys("id"), MERGE]`: the outer arrays are not
    `Equal`, the diff is one merge hunk replacing the array -/
example (F : FloatEq0) (L : FloatLaws) :
    ∃ r, V1.patchM ExampleK.exA
        (V1.diffM [.set, .setkeys ["id"], .merge] ExampleK.exA ExampleK.exB) = .ok r ∧
      V1.equals [.set, .setkeys ["id"], .merge] r ExampleK.exB = true ∧
      equivB [.set] r ExampleK.exB = true :=
  v1_merge_diff_patch_setkeys F L (KMergeMode.single "id" []) _ _ ExampleK.ex_docs.1
    ExampleK.ex_docs.2.1 ExampleK.ex_docs.2.2.2
    (ExampleM.hashFaithful_of_tag (m := Witness.m1) rfl ExampleK.ex_hf)
    (identInj_of_check (by decide +kernel))

/-- the pair of JdProofs/V1SetDiffPatch under `[MULTISET, Setkeys("id"), MERGE]` -/
example (F : FloatEq0) (L : FloatLaws) :
    ∃ r, V1.patchM V1S.Example.exA
        (V1.diffM [.mset, .setkeys ["id"], .merge] V1S.Example.exA V1S.Example.exB) = .ok r ∧
      V1.equals [.mset, .setkeys ["id"], .merge] r V1S.Example.exB = true ∧
      equivB [.mset] r V1S.Example.exB = true :=
  v1_merge_diff_patch_mset_setkeys F L (XMergeMode.withKeys ["id"]) _ _ V1S.Example.ex_docs.1
    V1S.Example.ex_docs.2.1 V1S.Example.ex_docs.2.2.2
    (ExampleM.hashFaithful_of_tag (m := [.mset]) rfl V1S.Example.ex_hashFaithful_mset)

end Jd.V1K
