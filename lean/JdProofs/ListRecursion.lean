/-
  JdProofs.ListRecursion — property C06 (v2 library, LIST mode `dispatchTag o = .list`, strict
  strategy), the clauses about arrays whose elements may be CONTAINERS (objects, arrays; any
  nesting):
    "… recurses into same-position containers of the same kind instead of replacing them. Every
     hunk that edits an array position carries exactly one line of before-context and one of
     after-context, equal to the neighbouring elements or the array boundary."
  Everything lives in the namespace `Jd.Rec`. All statements are about the library functions of
  the model (`diffM`, `diffNode`, `diffRest`); the reference semantics of hunks is
  `Jd.Spec.applyStrictAll` / `splice` (JdSpec.HunkSem).

  MAIN THEOREMS
  (1) RECURSION
    * `diffM_same_kind_containers` (`diffNode_same_kind_containers`, `…_mem`): two arrays of equal
      length whose elements are position by position containers of the same kind (`sameKinds`,
      decidable: `sameContainerType` pairwise) and such that no element of the first has the hash
      code of an element of the second: `a.Diff(b)` IS the concatenation of the sub-diffs
      `diffNode o false xs[i] ys[i] [.idx i]`; there is no array-level hunk. One more hypothesis
      (since the model follows the end block of Go's `diffRest`, `Jd.subAfter`): `noMixed xs ys`, no
      position holds a typed `jsonList` against a plain `jsonArray` (decidable; true of documents read
      from text, `noMixed_of_rawDocList`). Such a pair is replaced wholesale by ONE hunk at the
      element's own path and `subAfter` gives that hunk the after-context, so the diff is not the bare
      concatenation: `Example.mixed_not_concatenation`.
    * `diffM_recurses_at` (`diffRest_recurses_at` for the loop with any common sequence,
      `diffM_recurses_at_whole`): `Reach` is the cursor walk of `jsonList.diffRest` (the decisions
      of the code, without the hunks). If the walk reaches a position whose cursor elements `x`, `y`
      are containers of the same kind, not a typed list against a plain array (`mixedPair x y =
      false`), and neither is the next element of the remaining common sequence (`atC … = false`), then
         a.Diff(b) = D1 ++ diffNode o false x y [.idx j] ++ D2,     j = position of `y` in `ys`,
      no hunk of the sub-diff is an array-level hunk (`isTop`), the array-level hunks of `D1` remove
      a sublist of the elements BEFORE `x` and add a sublist of those before `y`, the array-level
      hunks of `D2` remove a sublist of the elements AFTER `x` and add a sublist of those after `y`:
      no array-level hunk removes `x` or adds `y`. Hypothesis: the elements are list documents
      (`listDocList`: no set / multiset typed node; what the readers produce).
      `diffRest_recurses_at_subAfter` is the form WITHOUT the `mixedPair` hypothesis (the sub-diff
      appears passed through `subAfter`); `diffM_recurses_at_whole` needs no such hypothesis.
      `sub_diff_strictly_inside`: for documents as read from text (`rawDoc`) every hunk of the
      sub-diff is addressed strictly inside the container (it is never replaced as a whole).
    * `diffM_top_removes_adds_le` (`diffRest_top_counts_le`): the array-level hunks remove at most
      `|xs| − LCS` and add at most `|ys| − LCS` elements (textbook LCS length of the hash lists):
      the minimality clause of C06 extended from scalars (`Jd.Min`, equality) to containers (≤).
  (3) SHAPE
    * `diffM_array_hunks` (`diffNode_array_hunks`, loop invariant `diffRest_classify`): the only
      hypothesis on the elements is `∀ x ∈ xs, ∀ y ∈ ys, mixedPair x y = false` (no typed array
      node of the first array against a plain `jsonArray` of the second; the wholesale hunk of such a
      pair, with the after-context `subAfter` gives it, is neither an array-level hunk of the
      advertised shape nor literally a hunk of the sub-diff). Every hunk of the diff of two arrays is an array-level hunk —
      strict, path `[.idx i]`, exactly one before- and one after-context line, `remove ≠ [] ∨
      add ≠ []` — or belongs to the sub-diff at `[.idx j]` of two same-kind containers `x ∈ xs`,
      `y = ys[j]`. (`sub_hunk_not_array_level`: on list documents the alternatives exclude each
      other.)
    * `diffM_hunk_shape_all_levels` (`diff_deep`): documents as read from text (`rawDoc`), every
      level: every hunk is strict; a hunk whose path ends with a list index `i` has `0 ≤ i`, exactly
      one before- and one after-context line and is not empty; every other hunk has no context.
  (2) CONTEXT
    * `diffM_hunk_applies`, `diffM_context_is_neighbours`, `diffM_context_all_levels`: operational
      form, every level. Hypotheses: those of the C01 list theorem `DPL.diffM_list_correct`, from
      which they are derived (list documents / raw documents; `wf` sorted unique keys; finite
      numbers; `memOK` no void member; `HashOK` no FNV collision between a sub-term of `a` and one
      of `b` — list elements are matched by hash code, a collision makes the before-context the
      colliding element of `b` instead of the kept element of `a`; `ZeroOK` no `0`/`-0` pair;
      `FloatLaws` reflexivity / symmetry of the opaque float comparison). For every split
      `a.Diff(b) = D1 ++ h :: D2` with `h.path = q ++ [.idx i]`: `D1` applies to `a`, giving `m`; the
      node of `m` at `q` (`Real.getAt`) is a list `l`; `splice l i h` succeeds; `h` has one context
      line on each side and `CtxIsNeighbours l i h`: before-context `specEq` to `l[i-1]` (void
      marker iff `i = 0`), removed values `specEq` to `l[i…]`, after-context `specEq` to the element
      following them (void marker at the end of the list).
    * `diffM_located_containers` (`diffRest_located_containers`): static form, top-level array with
      containers. Hypotheses: elements `GoodL` (list documents, `wf`, finite numbers, no void
      member) and `NumHashOK` (numbers equal as floats have equal hash codes: true of all finite
      doubles since `0` and `-0` hash alike; implied by `ZeroOK`), no `mixedPair` between an element
      of `xs` and one of `ys`; NO hash-collision hypothesis.
      Every hunk is `Real.Located` — `remove` a contiguous run of `xs`, `add` the contiguous run of
      `ys` at the addressed index, `before` LITERALLY the element of `ys` preceding it (void at the
      start), `after` LITERALLY the element of `xs` following the removed run (void at the end) —
      or belongs to the sub-diff of two same-kind containers.
  WITNESS (`Example.nonwf_diff`, `Example.nonwf_context_not_neighbour`): OUTSIDE the domain (an
    object with a duplicate key) two same-kind containers with different hash codes have an EMPTY
    sub-diff; the code then takes the after-context from the position after the container
    (`if sub.isEmpty then a'.headD .void`), it is NOT the neighbour and the reference interpreter
    rejects the diff. This is why `wf` is a hypothesis of the context theorems; inside the domain
    that branch is unreachable (`diff_empty_hash'` + optimality of the common sequence). No
    counterexample was found inside the domain.

  NOT PROVED / LIMITS
    * The operational context theorems inherit `HashOK` and `ZeroOK` from `DPL.diffM_list_correct`
      (`ZeroOK` is stronger than necessary since the hash repair; removing it needs a re-proof of
      `DPL.diff_correct`). The static form needs neither.
    * The static form (`Located`) is stated for one array level at a time (`diffM_located_containers`
      for the top-level array, `diffNode_located_containers` for the call `diffNode … p` on an array at
      any path); it is not threaded through the nesting (the operational form is).
    * (1) general is stated along `Reach` (the condition "as the code decides it"); no static
      criterion on `xs`, `ys` is given for a position to be reached, beyond the special case.
    * list documents with a typed `jsonList` element against a plain `jsonArray` element: the
      sub-diff is a wholesale replacement (`Jd.diff_list_vs_array_nonempty` in JdProofs/DiffEmpty.lean, known); it is still
      not an array-level hunk (`subAfter_isTop_false`: no before-context), but when nothing was
      accumulated it receives an after-context (`Jd.subAfter`, the end block of Go's `diffRest`), so
      the statements that mention the sub-diff `diffNode o false x y …` LITERALLY exclude such pairs
      (`noMixed`, `mixedPair`). Documents read from text (`rawDoc`) never contain such pairs.
-/
import JdProofs.LcsProofs
import JdProofs.DiffPatchList
import JdProofs.DiffMinimal
import JdProofs.RealDiff

namespace Jd.Rec
open Jd Jd.Spec Jd.DPL

/-! ## A. pairwise same-kind containers with no common hash code: only sub-diffs -/

/-- the sub-diffs of the pairs standing at the same position, the first pair at index `k` -/
def subDiffs (o : Opts) (p : Path) : Nat → List Json → List Json → Diff
  | k, x :: xs, y :: ys => diffNode o false x y (p ++ [.idx (k : Int)]) ++ subDiffs o p (k + 1) xs ys
  | _, _, _ => []

theorem subDiffs_eq_flatMap (o : Opts) (p : Path) : ∀ (xs ys : List Json) (k : Nat),
    subDiffs o p k xs ys =
      ((xs.zip ys).zipIdx k).flatMap
        (fun q => diffNode o false q.1.1 q.1.2 (p ++ [.idx (q.2 : Int)]))
  | [], _, _ => by simp [subDiffs]
  | _ :: _, [], _ => by simp [subDiffs]
  | x :: xs, y :: ys, k => by
    simp [subDiffs, List.zipIdx_cons, subDiffs_eq_flatMap o p xs ys (k + 1)]

/-- the two lists have the same length and hold, position by position, containers of the same kind
    (`sameContainerType`: two objects, or two arrays read the same way) — decidable -/
def sameKinds (o : Opts) : List Json → List Json → Bool
  | [], [] => true
  | x :: xs, y :: ys => sameContainerType o x y && sameKinds o xs ys
  | _, _ => false

theorem accHunk_nil_nil (p : Path) (s : Nat) (prev after : Json) :
    accHunk p s prev [] [] after = [] := by
  simp [accHunk]

theorem atC_nil (o : Opts) (x : Json) : atC o x [] = false := rfl

/-- with an EMPTY common sequence and nothing accumulated, the walk over two lists of pairwise
    same-kind containers of equal length, no pair being a typed list against a plain array
    (`noMixed`: such a pair is replaced wholesale and `subAfter` gives that hunk an after-context),
    emits the sub-diffs and nothing else -/
theorem diffRest_pairs (o : Opts) (p : Path) :
    ∀ (xs ys : List Json), sameKinds o xs ys = true → noMixed xs ys = true →
      ∀ (k : Nat) (prev : Json),
        diffRest o p k k prev xs ys [] [] [] = subDiffs o p k xs ys
  | [], [], _, _, k, prev => by rw [diffRest_nil_nil]; rfl
  | [], _ :: _, h, _, _, _ => by simp [sameKinds] at h
  | _ :: _, [], h, _, _, _ => by simp [sameKinds] at h
  | x :: xs, y :: ys, h, hn, k, prev => by
    simp only [sameKinds, Bool.and_eq_true] at h
    simp only [noMixed, Bool.and_eq_true, Bool.not_eq_true'] at hn
    rw [diffRest_cons]
    simp only [atC_nil, Bool.and_self, Bool.false_eq_true, if_false, h.1, if_true,
      accHunk_nil_nil, List.nil_append, subDiffs, diffRest_pairs o p xs ys h.2 hn.2,
      Real.subAfter_diffNode_of_not_mixed o h.1 hn.1]

/-- no hash code in common: the golcs common sequence is empty -/
theorem lcsValues_nil_of_apart (o : Opts) (xs ys : List Json)
    (apart : ∀ x ∈ xs, ∀ y ∈ ys, hashCode o x ≠ hashCode o y) :
    lcsValues (hashList o xs) (hashList o ys) = [] := by
  cases hc : lcsValues (hashList o xs) (hashList o ys) with
  | nil => rfl
  | cons z c =>
    have h1 : z ∈ hashList o xs :=
      (lcsValues_sublist_left (hashList o xs) (hashList o ys)).subset (by rw [hc]; simp)
    have h2 : z ∈ hashList o ys :=
      (lcsValues_sublist_right (hashList o xs) (hashList o ys)).subset (by rw [hc]; simp)
    rw [hashList_eq_map] at h1 h2
    obtain ⟨x, hx, rfl⟩ := List.mem_map.1 h1
    obtain ⟨y, hy, e⟩ := List.mem_map.1 h2
    exact absurd e.symm (apart x hx y hy)

/-- **(1), special case, at any path.** Two arrays of EQUAL length whose elements are, position by
    position, containers of the same kind, and no element of the first has the hash code of an
    element of the second: the diff is exactly the concatenation of the sub-diffs at
    `p ++ [.idx i]`; there is no array-level hunk. -/
theorem diffNode_same_kind_containers {o : Opts} (ho : dispatchTag o = .list) {t t' : Tag}
    (xs ys : List Json)
    (ht : (t == .raw || t == .list) = true) (ht' : (t' == .raw || t' == .list) = true)
    (htt : t = .raw ∨ t' = .list) (p : Path)
    (same : sameKinds o xs ys = true) (nomix : noMixed xs ys = true)
    (apart : ∀ x ∈ xs, ∀ y ∈ ys, hashCode o x ≠ hashCode o y) :
    diffNode o false (.arr t xs) (.arr t' ys) p = subDiffs o p 0 xs ys := by
  rw [diffNode_arr_arr ho xs ys ht ht' htt p, lcsValues_nil_of_apart o xs ys apart]
  exact diffRest_pairs o p xs ys same nomix 0 .void

/-- **(1), special case, `a.Diff(b)`.** -/
theorem diffM_same_kind_containers {o : Opts} (ho : dispatchTag o = .list) (hm : isMerge o = false)
    {t t' : Tag} (xs ys : List Json)
    (ht : (t == .raw || t == .list) = true) (ht' : (t' == .raw || t' == .list) = true)
    (htt : t = .raw ∨ t' = .list)
    (same : sameKinds o xs ys = true) (nomix : noMixed xs ys = true)
    (apart : ∀ x ∈ xs, ∀ y ∈ ys, hashCode o x ≠ hashCode o y) :
    diffM o (.arr t xs) (.arr t' ys) =
      ((xs.zip ys).zipIdx).flatMap
        (fun q => diffNode o false q.1.1 q.1.2 [.idx (q.2 : Int)]) := by
  rw [diffM, hm, diffNode_same_kind_containers ho xs ys ht ht' htt [] same nomix apart,
    subDiffs_eq_flatMap]
  rfl

/-- in particular every hunk belongs to the sub-diff of the two elements at some position `i`, and
    its path starts with that index: no hunk removes or adds an element of the arrays as a whole
    at array level -/
theorem diffM_same_kind_containers_mem {o : Opts} (ho : dispatchTag o = .list)
    (hm : isMerge o = false) {t t' : Tag} (xs ys : List Json)
    (ht : (t == .raw || t == .list) = true) (ht' : (t' == .raw || t' == .list) = true)
    (htt : t = .raw ∨ t' = .list)
    (same : sameKinds o xs ys = true) (nomix : noMixed xs ys = true)
    (apart : ∀ x ∈ xs, ∀ y ∈ ys, hashCode o x ≠ hashCode o y) :
    ∀ h ∈ diffM o (.arr t xs) (.arr t' ys), ∃ (i : Nat) (x y : Json),
      xs[i]? = some x ∧ ys[i]? = some y ∧ h ∈ diffNode o false x y [.idx (i : Int)] ∧
        [PathElem.idx (i : Int)] <+: h.path := by
  intro h hmem
  rw [diffM_same_kind_containers ho hm xs ys ht ht' htt same nomix apart, List.mem_flatMap] at hmem
  obtain ⟨⟨⟨x, y⟩, i⟩, hq, hh⟩ := hmem
  have hq' := List.mem_zipIdx hq
  simp only [Nat.zero_le, Nat.sub_zero, true_and, Nat.zero_add] at hq'
  obtain ⟨hi, e⟩ := hq'
  have e' : (xs.zip ys)[i]? = some (x, y) := by
    rw [List.getElem?_eq_getElem hi, e]
  rw [List.getElem?_zip_eq_some] at e'
  exact ⟨i, x, y, e'.1, e'.2, hh, Real.diff_paths_extend_general o false x y _ h hh⟩

/-! ## B. every hunk of an array diff is an array-level hunk of the advertised shape, or belongs to
    the sub-diff of two same-kind containers (only hypothesis on the elements: no `mixedPair`) -/

/-- `h` belongs to the sub-diff of two same-kind containers `x` (an element of `a`) and `y` (an
    element of `b`), computed at `p ++ [.idx j]` where `j` is `k` plus the position of `y` in `b` -/
def SubHunk (o : Opts) (p : Path) (k : Nat) (a b : List Json) (h : Hunk) : Prop :=
  ∃ (preA : List Json) (x : Json) (postA preB : List Json) (y : Json) (postB : List Json),
    a = preA ++ x :: postA ∧ b = preB ++ y :: postB ∧ sameContainerType o x y = true ∧
      h ∈ diffNode o false x y (p ++ [.idx ((k + preB.length : Nat) : Int)])

theorem SubHunk.consA {o : Opts} {p : Path} {k : Nat} {a b : List Json} {h : Hunk} (x : Json)
    (hs : SubHunk o p k a b h) : SubHunk o p k (x :: a) b h := by
  obtain ⟨preA, x', postA, preB, y, postB, ea, eb, hk, hm⟩ := hs
  exact ⟨x :: preA, x', postA, preB, y, postB, by simp [ea], eb, hk, hm⟩

theorem SubHunk.consB {o : Opts} {p : Path} {k : Nat} {a b : List Json} {h : Hunk} (y : Json)
    (hs : SubHunk o p (k + 1) a b h) : SubHunk o p k a (y :: b) h := by
  obtain ⟨preA, x', postA, preB, y', postB, ea, eb, hk, hm⟩ := hs
  refine ⟨preA, x', postA, y :: preB, y', postB, ea, by simp [eb], hk, ?_⟩
  have e : k + (y :: preB).length = k + 1 + preB.length := by simp; omega
  rw [e]; exact hm

/-- **(3), loop invariant.** Containers allowed, any common sequence, any accumulators: a hunk of
    the cursor walk is an array-level hunk of the advertised shape (`Min.ListHunk`: strict, at
    `p ++ [.idx i]`, exactly one line of before- and one of after-context, not empty), or it
    belongs to the sub-diff of two same-kind containers standing in the two remaining lists. -/
theorem diffRest_classify (o : Opts) (p : Path) :
    ∀ (n : Nat) (a b : List Json), a.length + b.length = n →
      (∀ x ∈ a, ∀ y ∈ b, mixedPair x y = false) →
      ∀ (k s : Nat) (prev : Json) (c : List UInt64) (R A : List Json),
        ∀ h ∈ diffRest o p k s prev a b c R A, Min.ListHunk p h ∨ SubHunk o p k a b h := by
  intro n
  induction n using Nat.strongRecOn with
  | _ n ih =>
    intro a b hn hnm k s prev c R A h hm
    cases a with
    | nil =>
      rw [diffRest_nilA] at hm
      exact .inl (Min.accHunk_shape hm)
    | cons x a' =>
      cases b with
      | nil =>
        rw [diffRest_nilB _ _ _ _ _ _ _ _ _ (by simp)] at hm
        exact .inl (Min.accHunk_shape hm)
      | cons y b' =>
        simp only [List.length_cons] at hn
        have hAA : ∀ z ∈ a', ∀ w ∈ b', mixedPair z w = false := fun z hz w hw =>
          hnm z (List.mem_cons_of_mem _ hz) w (List.mem_cons_of_mem _ hw)
        have hA1 : ∀ z ∈ a', ∀ w ∈ y :: b', mixedPair z w = false := fun z hz w hw =>
          hnm z (List.mem_cons_of_mem _ hz) w hw
        have h1B : ∀ z ∈ x :: a', ∀ w ∈ b', mixedPair z w = false := fun z hz w hw =>
          hnm z hz w (List.mem_cons_of_mem _ hw)
        rw [diffRest_cons] at hm
        split at hm
        · rcases List.mem_append.1 hm with hm | hm
          · exact .inl (Min.accHunk_shape hm)
          · exact (ih (a'.length + b'.length) (by omega) a' b' rfl hAA _ _ _ _ _ _ h hm).imp id
              (fun hs => (hs.consA x).consB y)
        · split at hm
          · exact (ih ((x :: a').length + b'.length) (by simp; omega) (x :: a') b' rfl h1B _ _ _ _ _ _
              h hm).imp id (fun hs => hs.consB y)
          · split at hm
            · exact (ih (a'.length + (y :: b').length) (by simp; omega) a' (y :: b') rfl hA1 _ _ _ _ _ _
                h hm).imp id (fun hs => hs.consA x)
            · split at hm
              · next hsame =>
                rw [Real.subAfter_diffNode_of_not_mixed o hsame
                  (hnm x List.mem_cons_self y List.mem_cons_self)] at hm
                rcases List.mem_append.1 hm with hm | hm
                · rcases List.mem_append.1 hm with hm | hm
                  · exact .inl (Min.accHunk_shape hm)
                  · exact .inr ⟨[], x, a', [], y, b', rfl, rfl, hsame, by simpa using hm⟩
                · exact (ih (a'.length + b'.length) (by omega) a' b' rfl hAA _ _ _ _ _ _ h hm).imp id
                    (fun hs => (hs.consA x).consB y)
              · exact (ih (a'.length + b'.length) (by omega) a' b' rfl hAA _ _ _ _ _ _ h hm).imp id
                  (fun hs => (hs.consA x).consB y)

/-- **(3) for `diffNode`.** -/
theorem diffNode_array_hunks {o : Opts} (ho : dispatchTag o = .list) {t t' : Tag}
    (xs ys : List Json)
    (ht : (t == .raw || t == .list) = true) (ht' : (t' == .raw || t' == .list) = true)
    (htt : t = .raw ∨ t' = .list) (p : Path)
    (nomix : ∀ x ∈ xs, ∀ y ∈ ys, mixedPair x y = false) :
    ∀ h ∈ diffNode o false (.arr t xs) (.arr t' ys) p,
      (h.before.length = 1 ∧ h.after.length = 1 ∧ (∃ i : Nat, h.path = p ++ [.idx i]) ∧
        h.merge = false ∧ (h.remove ≠ [] ∨ h.add ≠ [])) ∨
      SubHunk o p 0 xs ys h := by
  rw [diffNode_arr_arr ho xs ys ht ht' htt p]
  exact fun h hm => diffRest_classify o p _ xs ys rfl nomix 0 0 .void _ [] [] h hm

/-- **(3) for `a.Diff(b)`**, two arrays with arbitrary elements (containers allowed, any nesting):
    every hunk is an ARRAY-LEVEL hunk — strict, addressed to an index of the array, exactly one line
    of before-context and one of after-context, removing or adding at least one element — or it
    belongs to the sub-diff, at `[.idx j]`, of two containers of the same kind `x ∈ xs` and
    `y = ys[j]`. -/
theorem diffM_array_hunks {o : Opts} (ho : dispatchTag o = .list) (hm : isMerge o = false)
    {t t' : Tag} (xs ys : List Json)
    (ht : (t == .raw || t == .list) = true) (ht' : (t' == .raw || t' == .list) = true)
    (htt : t = .raw ∨ t' = .list)
    (nomix : ∀ x ∈ xs, ∀ y ∈ ys, mixedPair x y = false) :
    ∀ h ∈ diffM o (.arr t xs) (.arr t' ys),
      (h.before.length = 1 ∧ h.after.length = 1 ∧ (∃ i : Nat, h.path = [.idx i]) ∧
        h.merge = false ∧ (h.remove ≠ [] ∨ h.add ≠ [])) ∨
      (∃ (preA : List Json) (x : Json) (postA preB : List Json) (y : Json) (postB : List Json),
        xs = preA ++ x :: postA ∧ ys = preB ++ y :: postB ∧ sameContainerType o x y = true ∧
          h ∈ diffNode o false x y [.idx (preB.length : Int)]) := by
  rw [diffM, hm]
  intro h hmem
  rcases diffNode_array_hunks ho xs ys ht ht' htt [] nomix h hmem with h1 | h1
  · exact .inl (by simpa using h1)
  · obtain ⟨preA, x, postA, preB, y, postB, ea, eb, hk, hh⟩ := h1
    exact .inr ⟨preA, x, postA, preB, y, postB, ea, eb, hk, by simpa using hh⟩

/-- on list documents the two alternatives exclude each other: a hunk of the sub-diff of two
    same-kind containers at `p ++ [.idx j]` is never an array-level hunk at `p` (its path is longer,
    or it carries no context: the wholesale replacement of a typed `jsonList` by a plain `jsonArray`,
    which documents read from text never contain) -/
theorem sub_hunk_not_array_level {o : Opts} (ho : dispatchTag o = .list) {x y : Json}
    (hx : x.listDoc = true) (hy : y.listDoc = true) (hs : sameContainerType o x y = true)
    (p : Path) (j : Int) {h : Hunk} (hm : h ∈ diffNode o false x y (p ++ [.idx j])) :
    (p ++ [PathElem.idx j]).length < h.path.length ∨ (h.before = [] ∧ h.after = []) := by
  have e := (diff_shift o ho).1 x y hx hy (p ++ [.idx j]) []
  rw [List.append_nil] at e
  rw [e] at hm
  obtain ⟨h0, hm0, rfl⟩ := List.mem_map.1 hm
  have hnv := sameContainerType_notVoid hs
  rcases (diff_frameOK o ho).1 x y hx hy hnv.1 hnv.2 h0 hm0 with hp | ⟨hb, ha, _⟩
  · left
    simp only [shiftHunk, List.length_append]
    have : 0 < h0.path.length := List.length_pos_iff.2 hp
    omega
  · exact .inr ⟨hb, ha⟩

/-! ### all levels: documents as read from text (`rawDoc`) -/

/-- what a hunk must look like given the LAST element of its path: below a list index it carries
    exactly one line of context on each side and is not empty; anywhere else it carries no context -/
def LastOK (e : PathElem) (h : Hunk) : Prop :=
  match e with
  | .idx i => 0 ≤ i ∧ h.before.length = 1 ∧ h.after.length = 1 ∧ (h.remove ≠ [] ∨ h.add ≠ [])
  | _ => h.before = [] ∧ h.after = []

/-- a hunk of a sub-diff computed at `p`: strict, and its path is `p` itself (then it carries no
    context) or a proper extension of `p` whose last element fixes the shape -/
def Deep (p : Path) (h : Hunk) : Prop :=
  h.merge = false ∧ ∃ (q : Path) (e : PathElem), h.path = p ++ q ++ [e] ∧ LastOK e h

theorem accHunk_deep {p : Path} {s : Nat} {prev : Json} {R A : List Json} {after : Json} {h : Hunk}
    (hm : h ∈ accHunk p s prev R A after) : Deep p h := by
  obtain ⟨h1, h2, ⟨i, h3⟩, h4, h5⟩ := Min.accHunk_shape hm
  exact ⟨h4, [], .idx i, by simpa using h3, Int.natCast_nonneg i, h1, h2, h5⟩

theorem Deep.below {p : Path} {e0 : PathElem} {h : Hunk} (hd : Deep (p ++ [e0]) h) : Deep p h := by
  obtain ⟨h1, q, e, h2, h3⟩ := hd
  exact ⟨h1, e0 :: q, e, by simpa using h2, h3⟩

theorem sameContainerType_arr_other {o : Opts} {t : Tag} {xs : List Json} {b : Json}
    (hb : ∀ t' ys, b ≠ .arr t' ys) : sameContainerType o (.arr t xs) b = false := by
  cases b with
  | arr t' ys => exact absurd rfl (hb t' ys)
  | _ => cases t <;> simp [sameContainerType, Json.dispatch]

theorem sameContainerType_obj_other {o : Opts} {kvs : List (String × Json)} {b : Json}
    (hb : ∀ kvs', b ≠ .obj kvs') : sameContainerType o (.obj kvs) b = false := by
  cases b with
  | obj kvs' => exact absurd rfl (hb kvs')
  | arr t ys => cases t <;> simp [sameContainerType, Json.dispatch]
  | _ => simp [sameContainerType, Json.dispatch]

theorem sameContainerType_scalar' {o : Opts} {a b : Json} (h1 : ∀ t xs, a ≠ .arr t xs)
    (h2 : ∀ kvs, a ≠ .obj kvs) : sameContainerType o a b = false := by
  cases a with
  | arr t xs => exact absurd rfl (h1 t xs)
  | obj kvs => exact absurd rfl (h2 kvs)
  | _ => simp [sameContainerType, Json.dispatch]

theorem rawDocList_cons {x : Json} {r : List Json} (h : rawDocList (x :: r) = true) :
    x.rawDoc = true ∧ rawDocList r = true := by
  simpa [rawDocList] using h

/-- the shape of every hunk at every level, documents as read from text -/
theorem diff_deep (o : Opts) (ho : dispatchTag o = .list) :
    (∀ a b, a.listDoc = true → b.listDoc = true → a.rawDoc = true → b.rawDoc = true →
      ∀ p, ∀ h ∈ diffNode o false a b p,
        (h.merge = false ∧ h.path = p ∧ h.before = [] ∧ h.after = [] ∧
          sameContainerType o a b = false) ∨ Deep p h) ∧
    (∀ kvs' kvs, listDocKvs kvs' = true → listDocKvs kvs = true →
      rawDocKvs kvs' = true → rawDocKvs kvs = true →
      ∀ p, ∀ h ∈ diffKvs o false p kvs' kvs, Deep p h) ∧
    (∀ k s prev a b c R A, listDocList a = true → listDocList b = true →
      rawDocList a = true → rawDocList b = true →
      ∀ p, ∀ h ∈ diffRest o p k s prev a b c R A, Deep p h) := by
  apply listDiff_induct o ho
    (mN := fun a b => a.rawDoc = true → b.rawDoc = true →
      ∀ p, ∀ h ∈ diffNode o false a b p,
        (h.merge = false ∧ h.path = p ∧ h.before = [] ∧ h.after = [] ∧
          sameContainerType o a b = false) ∨ Deep p h)
    (mK := fun kvs' kvs => rawDocKvs kvs' = true → rawDocKvs kvs = true →
      ∀ p, ∀ h ∈ diffKvs o false p kvs' kvs, Deep p h)
    (mR := fun k s prev a b c R A => rawDocList a = true → rawDocList b = true →
      ∀ p, ∀ h ∈ diffRest o p k s prev a b c R A, Deep p h)
  · intro t t' xs ys ht ht' htt _ _ ih ha hb p h hm
    rw [diffNode_arr_arr ho xs ys ht ht' htt] at hm
    simp only [Json.rawDoc, Bool.and_eq_true] at ha hb
    exact .inr (ih ha.2 hb.2 p h hm)
  · intro t xs b ht _ _ hb' ha hb p h hm
    rw [diffNode_arr_other ho xs b ht hb'] at hm
    simp only [List.mem_singleton] at hm
    subst hm
    left
    refine ⟨rfl, rfl, rfl, rfl, ?_⟩
    rcases hb' with hb' | ⟨rfl, _⟩
    · exact sameContainerType_arr_other hb'
    · simp [Json.rawDoc] at ha
  · intro kvs kvs' _ _ ih ha hb p h hm
    rw [diffNode_obj_obj, List.mem_append] at hm
    simp only [Json.rawDoc] at ha hb
    rcases hm with hm | hm
    · exact .inr (ih hb ha p h hm)
    · obtain ⟨kv, _, rfl⟩ := List.mem_map.1 hm
      exact .inr ⟨rfl, [], .key kv.1, by simp, rfl, rfl⟩
  · intro kvs b _ _ hb' _ _ p h hm
    rw [diffNode_obj_other o kvs b hb'] at hm
    simp only [List.mem_singleton] at hm
    subst hm
    exact .inl ⟨rfl, rfl, rfl, rfl, sameContainerType_obj_other hb'⟩
  · intro a b h1 h2 _ _ _ p h hm
    rw [diffNode_scalar o a b h1 h2] at hm
    unfold diffCommon at hm
    split at hm
    · cases hm
    · simp only [Bool.false_eq_true, if_false, List.mem_singleton] at hm
      subst hm
      exact .inl ⟨rfl, rfl, rfl, rfl, sameContainerType_scalar' h1 h2⟩
  · intro kvs' _ _ p h hm
    rw [diffKvs_nil] at hm; cases hm
  · intro kvs' k v r _ _ _ ihN ihK hr' hr p h hm
    simp only [rawDocKvs, Bool.and_eq_true] at hr
    rw [diffKvs_cons, List.mem_append] at hm
    rcases hm with hm | hm
    · cases hlk : alookup k kvs' with
      | none =>
        rw [hlk] at hm
        simp only [List.mem_singleton] at hm
        subst hm
        exact ⟨rfl, [], .key k, by simp, rfl, rfl⟩
      | some v' =>
        rw [hlk] at hm
        simp only [] at hm
        have hv' := alookup_rawDoc hlk hr'
        rcases ihN v' (rawDoc_listDoc v' hv') hr.1 hv' _ h hm with ⟨g1, g2, g3, g4, _⟩ | hd
        · exact ⟨g1, [], .key k, by simpa using g2, g3, g4⟩
        · exact hd.below
    · exact ihK hr' hr.2 p h hm
  · intro k s prev c R A b _ _ _ p h hm
    rw [diffRest_nilA] at hm
    exact accHunk_deep hm
  · intro k s prev c R A a hne _ _ _ p h hm
    rw [diffRest_nilB _ _ _ _ _ _ _ _ _ hne] at hm
    exact accHunk_deep hm
  · intro k s prev c R A x a' y b' _ _ hA hB ih ha hb p h hm
    rw [diffRest_cons] at hm
    simp only [hA, hB, Bool.and_self, if_true, List.mem_append] at hm
    rcases hm with hm | hm
    · exact accHunk_deep hm
    · exact ih (rawDocList_cons ha).2 (rawDocList_cons hb).2 p h hm
  · intro k s prev c R A x a' y b' _ _ hA hB ih ha hb p h hm
    rw [diffRest_cons] at hm
    simp only [hA, hB, Bool.and_false, Bool.false_eq_true, if_false, if_true] at hm
    exact ih ha (rawDocList_cons hb).2 p h hm
  · intro k s prev c R A x a' y b' _ _ hA hB ih ha hb p h hm
    rw [diffRest_cons] at hm
    simp only [hA, hB, Bool.false_and, Bool.false_eq_true, if_false, if_true] at hm
    exact ih (rawDocList_cons ha).2 hb p h hm
  · intro k s prev c R A x a' y b' _ _ hA hB hs ihN ihR ha hb p h hm
    rw [diffRest_cons] at hm
    simp only [hA, hB, hs, Bool.false_and, Bool.false_eq_true, if_false, if_true,
      List.mem_append] at hm
    rcases hm with (hm | hm) | hm
    · exact accHunk_deep hm
    · rw [Real.subAfter_diffNode_of_not_mixed o hs
        (mixedPair_of_rawDoc_left y (rawDocList_cons ha).1)] at hm
      rcases ihN (rawDocList_cons ha).1 (rawDocList_cons hb).1 _ h hm with ⟨_, _, _, _, g⟩ | hd
      · rw [hs] at g; cases g
      · exact hd.below
    · exact ihR (rawDocList_cons ha).2 (rawDocList_cons hb).2 p h hm
  · intro k s prev c R A x a' y b' _ _ hA hB hs ih ha hb p h hm
    rw [diffRest_cons] at hm
    simp only [hA, hB, hs, Bool.false_and, Bool.false_eq_true, if_false] at hm
    exact ih (rawDocList_cons ha).2 (rawDocList_cons hb).2 p h hm

/-- **(3) at every level.** `a.Diff(b)` for two documents as read from JSON / YAML text (`rawDoc`;
    any nesting of objects and arrays): every hunk is strict; a hunk whose path ends with a list
    index (a non-negative one) carries exactly one line of before-context and one line of
    after-context and removes or adds at least one element; every other hunk (root, object member)
    carries no context. -/
theorem diffM_hunk_shape_all_levels {o : Opts} (ho : dispatchTag o = .list) (hm : isMerge o = false)
    (a b : Json) (ha : a.rawDoc = true) (hb : b.rawDoc = true) :
    ∀ h ∈ diffM o a b, h.merge = false ∧
      (match h.path.getLast? with
       | some (.idx i) =>
         0 ≤ i ∧ h.before.length = 1 ∧ h.after.length = 1 ∧ (h.remove ≠ [] ∨ h.add ≠ [])
       | _ => h.before = [] ∧ h.after = []) := by
  rw [diffM, hm]
  intro h hmem
  rcases (diff_deep o ho).1 a b (rawDoc_listDoc a ha) (rawDoc_listDoc b hb) ha hb [] h hmem with
    ⟨g1, g2, g3, g4, _⟩ | ⟨g1, q, e, g2, g3⟩
  · refine ⟨g1, ?_⟩
    rw [g2]
    exact ⟨g3, g4⟩
  · refine ⟨g1, ?_⟩
    rw [g2]
    simp only [List.nil_append, List.getLast?_append, List.getLast?_singleton, Option.some_or]
    cases e <;> exact g3

/-- documents as read from text: the sub-diff of two same-kind containers computed at `q` only has
    hunks addressed STRICTLY inside the container (`q ++ r ++ [e]`): it never replaces the
    container as a whole -/
theorem sub_diff_strictly_inside {o : Opts} (ho : dispatchTag o = .list) {x y : Json}
    (hx : x.rawDoc = true) (hy : y.rawDoc = true) (hs : sameContainerType o x y = true)
    (q : Path) : ∀ h ∈ diffNode o false x y q, h.merge = false ∧
      ∃ (r : Path) (e : PathElem), h.path = q ++ r ++ [e] := by
  intro h hm
  rcases (diff_deep o ho).1 x y (rawDoc_listDoc x hx) (rawDoc_listDoc y hy) hx hy q h hm with
    ⟨_, _, _, _, g⟩ | ⟨g1, r, e, g2, _⟩
  · rw [hs] at g; cases g
  · exact ⟨g1, r, e, g2⟩

/-! ## C. the context lines are the neighbouring elements (reference semantics, every level) -/

/-- anatomy of a successful `splice` at a natural index: the context checks it performed -/
theorem splice_ctx {l : List Json} {i : Nat} {h : Hunk} {l' : List Json}
    (hs : splice l (i : Int) h = some l') :
    beforeOk l (i : Int) h.before.length 0 h.before = true ∧
      afterOk ((l.drop i).drop h.remove.length) 0 h.after = true := by
  unfold splice at hs
  have h1 : ((i : Int) == -1) = false := by
    simp only [beq_eq_false_iff_ne, ne_eq]; omega
  simp only [h1, Bool.false_eq_true, if_false, Int.toNat_natCast] at hs
  split at hs
  · cases hs
  · split at hs
    · next hc =>
      simp only [Bool.and_eq_true] at hc
      exact ⟨hc.1.2, hc.2⟩
    · cases hs

/-- **what "the context lines equal the neighbours" means**, for a hunk addressed to index `i` of
    the list `l` it is applied to: it has exactly one before-context line `prev` and one
    after-context line `next`; `prev` is the boundary marker (void) when `i = 0` and otherwise
    structurally equal (`specEq`) to `l[i-1]`; the removed values are structurally equal, in order,
    to `l[i], l[i+1], …`; `next` is structurally equal to the element following the removed run,
    or is the boundary marker when the removed run ends the list. -/
structure CtxIsNeighbours (l : List Json) (i : Nat) (h : Hunk) : Prop where
  idx_le : i + h.remove.length ≤ l.length
  removed : prefixEq h.remove (l.drop i) = true
  ctx : ∃ prev next, h.before = [prev] ∧ h.after = [next] ∧
    (match i with
     | 0 => prev.isVoid = true
     | j + 1 => ∃ z, l[j]? = some z ∧ specEq prev z = true) ∧
    (match l[i + h.remove.length]? with
     | some z => specEq next z = true
     | none => next.isVoid = true)

theorem ctxIsNeighbours_of_splice {l : List Json} {i : Nat} {h : Hunk} {l' : List Json}
    (hs : splice l (i : Int) h = some l') (hb : h.before.length = 1) (ha : h.after.length = 1) :
    CtxIsNeighbours l i h := by
  obtain ⟨hi, hpre, _⟩ := Real.splice_nat hs
  obtain ⟨hbe, haf⟩ := splice_ctx hs
  have hlen := Real.prefixEq_length _ _ hpre
  simp only [List.length_drop] at hlen
  obtain ⟨prev, eprev⟩ : ∃ prev, h.before = [prev] := by
    cases hq : h.before with
    | nil => simp [hq] at hb
    | cons x r => cases r with
      | nil => exact ⟨x, rfl⟩
      | cons _ _ => simp [hq] at hb
  obtain ⟨next, enext⟩ : ∃ next, h.after = [next] := by
    cases hq : h.after with
    | nil => simp [hq] at ha
    | cons x r => cases r with
      | nil => exact ⟨x, rfl⟩
      | cons _ _ => simp [hq] at ha
  refine ⟨by omega, hpre, prev, next, eprev, enext, ?_, ?_⟩
  · rw [eprev] at hbe
    have hbe' : beforeOk l (i : Int) 1 0 [prev] = true := hbe
    rw [beforeOk_one] at hbe'
    cases i with
    | zero => exact hbe'
    | succ j =>
      simp only at hbe' ⊢
      cases hz : l[j]? with
      | none => simp [hz] at hbe'
      | some z => rw [hz] at hbe'; exact ⟨z, rfl, hbe'⟩
  · rw [enext] at haf
    simp only [afterOk, Bool.and_true] at haf
    have e : ((l.drop i).drop h.remove.length)[0]? = l[i + h.remove.length]? := by
      rw [List.getElem?_drop, List.getElem?_drop]; simp
    rw [e] at haf
    cases hz : l[i + h.remove.length]? with
    | none =>
      rw [hz] at haf
      simp only [Bool.and_eq_true] at haf
      exact haf.2
    | some z => rw [hz] at haf; exact haf

theorem getAt_void_ne_arr (q : Path) (t : Tag) (l : List Json) :
    Real.getAt .void q ≠ some (.arr t l) := by
  cases q with
  | nil => simp [Real.getAt]
  | cons e r => simp [Real.getAt]

/-- a strict hunk whose path ends with a list index and that the reference interpreter accepts was
    spliced into the list standing at the path without its last element -/
theorem applyStrict_snoc_idx (i : Int) (h : Hunk) :
    ∀ (q : Path) (m m' : Json), applyStrict m (q ++ [.idx i]) h = some m' →
      ∃ (t : Tag) (l l' : List Json), Real.getAt m q = some (.arr t l) ∧ splice l i h = some l' := by
  intro q
  induction q with
  | nil =>
    intro m m' hm
    cases m with
    | arr t xs =>
      simp only [List.nil_append, applyStrict] at hm
      cases hs : splice xs i h with
      | none => simp [hs] at hm
      | some l' => exact ⟨t, xs, l', rfl, hs⟩
    | _ => simp [applyStrict] at hm
  | cons e q ih =>
    intro m m' hm
    obtain ⟨e1, r1, hr1⟩ : ∃ e1 r1, q ++ [PathElem.idx i] = e1 :: r1 := by
      cases q with
      | nil => exact ⟨_, _, rfl⟩
      | cons e1 r1 => exact ⟨_, _, rfl⟩
    cases e with
    | idx j =>
      cases m with
      | arr t xs =>
        rw [List.cons_append, hr1, applyStrict] at hm
        · rw [← hr1] at hm
          split at hm
          · cases hm
          · next hj =>
            cases hx : xs[j.toNat]? with
            | none => simp [hx] at hm
            | some x =>
              simp only [hx] at hm
              cases hv : applyStrict x (q ++ [.idx i]) h with
              | none => simp [hv] at hm
              | some v =>
                obtain ⟨t1, l, l', g1, g2⟩ := ih x v hv
                refine ⟨t1, l, l', ?_, g2⟩
                simp [Real.getAt, hj, hx, g1]
        · intro e; cases e
      | _ =>
        rw [List.cons_append, hr1] at hm
        simp [applyStrict] at hm
    | key k =>
      cases m with
      | obj kvs =>
        rw [List.cons_append, applyStrict] at hm
        cases hv : applyStrict ((alookup k kvs).getD .void) (q ++ [.idx i]) h with
        | none => simp [hv] at hm
        | some v =>
          obtain ⟨t1, l, l', g1, g2⟩ := ih _ v hv
          refine ⟨t1, l, l', ?_, g2⟩
          cases hl : alookup k kvs with
          | none =>
            rw [hl] at g1
            exact absurd g1 (getAt_void_ne_arr q t1 l)
          | some w =>
            rw [hl] at g1
            simpa [Real.getAt, hl] using g1
      | _ =>
        rw [List.cons_append, hr1] at hm
        simp [applyStrict] at hm
    | _ =>
      rw [List.cons_append, hr1] at hm
      simp [applyStrict] at hm

/-- **(2), every level, against the reference interpreter.** Documents of the C01 list theorem
    (list documents, sorted unique keys, finite numbers, no void member, no hash collision between
    a sub-term of `a` and one of `b`, no `0` / `-0` pair), any nesting.  Split `a.Diff(b)` anywhere:
    `D1 ++ h :: D2`.  The hunks before `h` apply to `a` and give a document `m`; `h` itself is
    accepted by the reference interpreter on `m`; and when `h` is addressed to a list index
    (`h.path = q ++ [.idx i]`) the node of `m` at `q` is a list `l` into which `h` is spliced at `i`,
    with its removed values and context lines checked (`splice l i h` succeeds). -/
theorem diffM_hunk_applies (L : FloatLaws) (o : Opts) (ho : dispatchTag o = .list)
    (hm : isMerge o = false) (a b : Json)
    (ha1 : a.listDoc = true) (ha2 : a.wf = true) (ha3 : a.finiteNums = true) (ha4 : memOK a = true)
    (hb1 : b.listDoc = true) (hb2 : b.wf = true) (hb3 : b.finiteNums = true) (hb4 : memOK b = true)
    (H : HashOK o a b) (Z : ZeroOK a b) (D1 : Diff) (h : Hunk) (D2 : Diff)
    (hd : diffM o a b = D1 ++ h :: D2) :
    ∃ m m', applyStrictAll a D1 = some m ∧ applyStrict m h.path h = some m' ∧
      ∀ (q : Path) (i : Nat), h.path = q ++ [.idx (i : Int)] →
        ∃ (t : Tag) (l l' : List Json), Real.getAt m q = some (.arr t l) ∧
          splice l (i : Int) h = some l' := by
  obtain ⟨r, hr, _⟩ := diffM_list_correct L o ho hm a b ha1 ha2 ha3 ha4 hb1 hb2 hb3 hb4 H Z
  rw [hd, applyStrictAll_append] at hr
  cases hm1 : applyStrictAll a D1 with
  | none => simp [hm1] at hr
  | some m =>
    rw [hm1] at hr
    simp only [Option.bind_some, applyStrictAll] at hr
    cases hm2 : applyStrict m h.path h with
    | none => simp [hm2] at hr
    | some m' =>
      refine ⟨m, m', rfl, hm2, fun q i hp => ?_⟩
      rw [hp] at hm2
      exact applyStrict_snoc_idx _ h q m m' hm2

/-- **(2), every level: the context lines ARE the neighbouring elements.** Same documents. For every
    hunk `h` of `a.Diff(b)` addressed to a list index, `h.path = q ++ [.idx i]`, with one line of
    context on each side (every array-level hunk has that shape: `diffM_array_hunks`,
    `diffM_hunk_shape_all_levels`): after the hunks that precede it have been applied to `a`, the
    node at `q` is a list `l`, and in `l` the before-context line equals the element just before
    index `i` (the boundary marker when `i = 0`), the removed values equal the elements from `i` on,
    and the after-context line equals the element following them (the boundary marker at the end
    of the list). -/
theorem diffM_context_is_neighbours (L : FloatLaws) (o : Opts) (ho : dispatchTag o = .list)
    (hm : isMerge o = false) (a b : Json)
    (ha1 : a.listDoc = true) (ha2 : a.wf = true) (ha3 : a.finiteNums = true) (ha4 : memOK a = true)
    (hb1 : b.listDoc = true) (hb2 : b.wf = true) (hb3 : b.finiteNums = true) (hb4 : memOK b = true)
    (H : HashOK o a b) (Z : ZeroOK a b) (D1 : Diff) (h : Hunk) (D2 : Diff)
    (hd : diffM o a b = D1 ++ h :: D2) (q : Path) (i : Nat) (hp : h.path = q ++ [.idx (i : Int)])
    (hbl : h.before.length = 1) (hal : h.after.length = 1) :
    ∃ (m : Json) (t : Tag) (l : List Json), applyStrictAll a D1 = some m ∧
      Real.getAt m q = some (.arr t l) ∧ CtxIsNeighbours l i h := by
  obtain ⟨m, m', g1, _, g3⟩ :=
    diffM_hunk_applies L o ho hm a b ha1 ha2 ha3 ha4 hb1 hb2 hb3 hb4 H Z D1 h D2 hd
  obtain ⟨t, l, l', g4, g5⟩ := g3 q i hp
  exact ⟨m, t, l, g1, g4, ctxIsNeighbours_of_splice g5 hbl hal⟩

theorem dropLast_snoc_of_getLast? {α} {l : List α} {a : α} (h : l.getLast? = some a) :
    l = l.dropLast ++ [a] := by
  rcases List.eq_nil_or_concat l with rfl | ⟨l', b, rfl⟩
  · simp at h
  · simp at h
    simp [h]

/-- **(2) + (3) together, every level, documents as read from text.** `a`, `b`: raw documents with
    sorted unique keys, finite numbers, no void member, no hash collision, no `0` / `-0` pair. Split
    `a.Diff(b) = D1 ++ h :: D2` anywhere. If the path of `h` ends with a list index `i` — the hunk
    edits an array position — then after `D1` has been applied to `a` the node at the path of `h`
    without its last element is a list `l`, `h` carries exactly one before- and one after-context
    line, and they equal the neighbours of the edited run in `l` (`CtxIsNeighbours`). -/
theorem diffM_context_all_levels (L : FloatLaws) (o : Opts) (ho : dispatchTag o = .list)
    (hm : isMerge o = false) (a b : Json)
    (ha1 : a.rawDoc = true) (ha2 : a.wf = true) (ha3 : a.finiteNums = true) (ha4 : memOK a = true)
    (hb1 : b.rawDoc = true) (hb2 : b.wf = true) (hb3 : b.finiteNums = true) (hb4 : memOK b = true)
    (H : HashOK o a b) (Z : ZeroOK a b) (D1 : Diff) (h : Hunk) (D2 : Diff)
    (hd : diffM o a b = D1 ++ h :: D2) (i : Int) (hlast : h.path.getLast? = some (.idx i)) :
    ∃ (m : Json) (t : Tag) (l : List Json), applyStrictAll a D1 = some m ∧
      Real.getAt m h.path.dropLast = some (.arr t l) ∧ 0 ≤ i ∧ CtxIsNeighbours l i.toNat h := by
  have hmem : h ∈ diffM o a b := by rw [hd]; simp
  have hshape := (diffM_hunk_shape_all_levels ho hm a b ha1 hb1 h hmem).2
  rw [hlast] at hshape
  obtain ⟨hi, hbl, hal, _⟩ := hshape
  have hp : h.path = h.path.dropLast ++ [.idx ((i.toNat : Nat) : Int)] := by
    have e : ((i.toNat : Nat) : Int) = i := Int.toNat_of_nonneg hi
    rw [e]
    exact dropLast_snoc_of_getLast? hlast
  obtain ⟨m, t, l, g1, g2, g3⟩ := diffM_context_is_neighbours L o ho hm a b
    (rawDoc_listDoc a ha1) ha2 ha3 ha4 (rawDoc_listDoc b hb1) hb2 hb3 hb4 H Z D1 h D2 hd
    h.path.dropLast i.toNat hp hbl hal
  exact ⟨m, t, l, g1, g2, hi, g3⟩

/-! ## D. recursion at any position the cursor walk reaches -/

/-- the positions visited by the cursor walk of `jsonList.diffRest` started on `a0 b0 c0`
    (remaining elements of the two arrays, remaining common sequence): exactly the decisions of the
    code, without the hunks -/
inductive Reach (o : Opts) (a0 b0 : List Json) (c0 : List UInt64) :
    List Json → List Json → List UInt64 → Prop
  | start : Reach o a0 b0 c0 a0 b0 c0
  | both {x y : Json} {a' b' : List Json} {c : List UInt64} :
      Reach o a0 b0 c0 (x :: a') (y :: b') c → atC o x c = true → atC o y c = true →
      Reach o a0 b0 c0 a' b' c.tail
  | addB {x y : Json} {a' b' : List Json} {c : List UInt64} :
      Reach o a0 b0 c0 (x :: a') (y :: b') c → atC o x c = true → atC o y c = false →
      Reach o a0 b0 c0 (x :: a') b' c
  | remA {x y : Json} {a' b' : List Json} {c : List UInt64} :
      Reach o a0 b0 c0 (x :: a') (y :: b') c → atC o x c = false → atC o y c = true →
      Reach o a0 b0 c0 a' (y :: b') c
  | sub {x y : Json} {a' b' : List Json} {c : List UInt64} :
      Reach o a0 b0 c0 (x :: a') (y :: b') c → atC o x c = false → atC o y c = false →
      sameContainerType o x y = true → Reach o a0 b0 c0 a' b' c
  | repl {x y : Json} {a' b' : List Json} {c : List UInt64} :
      Reach o a0 b0 c0 (x :: a') (y :: b') c → atC o x c = false → atC o y c = false →
      sameContainerType o x y = false → Reach o a0 b0 c0 a' b' c

/-- an array-level hunk of the array at `p`: addressed one step below `p`, with context -/
def isTop (p : Path) (h : Hunk) : Bool :=
  h.path.length == p.length + 1 && !h.before.isEmpty

/-- everything the array-level hunks at `p` remove, in hunk order -/
def removedTop (p : Path) (D : Diff) : List Json := (D.filter (isTop p)).flatMap (·.remove)

/-- everything the array-level hunks at `p` add, in hunk order -/
def addedTop (p : Path) (D : Diff) : List Json := (D.filter (isTop p)).flatMap (·.add)

@[simp] theorem removedTop_nil (p : Path) : removedTop p [] = [] := rfl
@[simp] theorem addedTop_nil (p : Path) : addedTop p [] = [] := rfl

@[simp] theorem removedTop_append (p : Path) (D E : Diff) :
    removedTop p (D ++ E) = removedTop p D ++ removedTop p E := by
  simp [removedTop]

@[simp] theorem addedTop_append (p : Path) (D E : Diff) :
    addedTop p (D ++ E) = addedTop p D ++ addedTop p E := by
  simp [addedTop]

@[simp] theorem removedTop_accHunk (p : Path) (s : Nat) (prev : Json) (R A : List Json)
    (after : Json) : removedTop p (accHunk p s prev R A after) = R := by
  unfold accHunk
  split
  · next h =>
    simp only [Bool.and_eq_true, List.isEmpty_iff] at h
    simp [h.1]
  · simp [removedTop, isTop]

@[simp] theorem addedTop_accHunk (p : Path) (s : Nat) (prev : Json) (R A : List Json)
    (after : Json) : addedTop p (accHunk p s prev R A after) = A := by
  unfold accHunk
  split
  · next h =>
    simp only [Bool.and_eq_true, List.isEmpty_iff] at h
    simp [h.2]
  · simp [addedTop, isTop]

theorem removedTop_of_all_false {p : Path} {D : Diff} (h : ∀ x ∈ D, isTop p x = false) :
    removedTop p D = [] := by
  have : D.filter (isTop p) = [] := List.filter_eq_nil_iff.2 (fun x hx => by simp [h x hx])
  simp [removedTop, this]

theorem addedTop_of_all_false {p : Path} {D : Diff} (h : ∀ x ∈ D, isTop p x = false) :
    addedTop p D = [] := by
  have : D.filter (isTop p) = [] := List.filter_eq_nil_iff.2 (fun x hx => by simp [h x hx])
  simp [addedTop, this]

/-- no hunk of the sub-diff of two same-kind containers (list documents) is an array-level hunk
    of the enclosing array -/
theorem sub_isTop_false {o : Opts} (ho : dispatchTag o = .list) {x y : Json}
    (hx : x.listDoc = true) (hy : y.listDoc = true) (hs : sameContainerType o x y = true)
    (p : Path) (j : Int) : ∀ h ∈ diffNode o false x y (p ++ [.idx j]), isTop p h = false := by
  intro h hm
  rcases sub_hunk_not_array_level ho hx hy hs p j hm with hlt | ⟨hb, _⟩
  · simp only [List.length_append, List.length_singleton] at hlt
    simp only [isTop, Bool.and_eq_false_iff, beq_eq_false_iff_ne, ne_eq]
    left; omega
  · simp [isTop, hb]

/-- the same after `subAfter` (it only touches the `after` field of a hunk without before-context) -/
theorem subAfter_isTop_false {o : Opts} (ho : dispatchTag o = .list) {x y : Json}
    (hx : x.listDoc = true) (hy : y.listDoc = true) (hs : sameContainerType o x y = true)
    (p : Path) (j : Int) (n : Bool) (nx : Json) :
    ∀ h ∈ subAfter p n nx (diffNode o false x y (p ++ [.idx j])), isTop p h = false := by
  intro h hm
  obtain ⟨h0, hm0, hp0, _, _, hb0, _⟩ := mem_subAfter' hm
  have := sub_isTop_false ho hx hy hs p j h0 hm0
  simpa [isTop, hp0, hb0] using this

theorem listDocList_append {xs ys : List Json} :
    listDocList (xs ++ ys) = true ↔ listDocList xs = true ∧ listDocList ys = true := by
  induction xs with
  | nil => simp [listDocList]
  | cons x r ih => simp [listDocList, ih, and_assoc]

/-- **loop invariant for what the array-level hunks remove and add**, containers allowed: in hunk
    order, a sublist of `R ++ a` and a sublist of `A ++ b` -/
theorem diffRest_top_sublists {o : Opts} (ho : dispatchTag o = .list) (p : Path) :
    ∀ (n : Nat) (a b : List Json), a.length + b.length = n →
      listDocList a = true → listDocList b = true →
      ∀ (k s : Nat) (prev : Json) (c : List UInt64) (R A : List Json),
        (removedTop p (diffRest o p k s prev a b c R A)).Sublist (R ++ a) ∧
        (addedTop p (diffRest o p k s prev a b c R A)).Sublist (A ++ b) := by
  intro n
  induction n using Nat.strongRecOn with
  | _ n ih =>
    intro a b hn hla hlb k s prev c R A
    cases a with
    | nil =>
      rw [diffRest_nilA]
      simp
    | cons x a' =>
      cases b with
      | nil =>
        rw [diffRest_nilB _ _ _ _ _ _ _ _ _ (by simp)]
        simp
      | cons y b' =>
        simp only [List.length_cons] at hn
        have hla' := hla; have hlb' := hlb
        simp only [listDocList, Bool.and_eq_true] at hla' hlb'
        rw [diffRest_cons]
        split
        · obtain ⟨h1, h2⟩ := ih (a'.length + b'.length) (by omega) a' b' rfl hla'.2 hlb'.2
            (k + 1) (k + 1) y c.tail [] []
          simp only [List.nil_append] at h1 h2
          simp only [removedTop_append, addedTop_append, removedTop_accHunk, addedTop_accHunk]
          exact ⟨List.Sublist.append (List.Sublist.refl R) (h1.cons x),
            List.Sublist.append (List.Sublist.refl A) (h2.cons y)⟩
        · split
          · obtain ⟨h1, h2⟩ := ih ((x :: a').length + b'.length) (by simp; omega) (x :: a') b' rfl
              hla hlb'.2 (k + 1) s prev c R (A ++ [y])
            exact ⟨h1, by simpa using h2⟩
          · split
            · obtain ⟨h1, h2⟩ := ih (a'.length + (y :: b').length) (by simp; omega) a' (y :: b') rfl
                hla'.2 hlb k s prev c (R ++ [x]) A
              exact ⟨by simpa using h1, h2⟩
            · split
              · next hsame =>
                obtain ⟨h1, h2⟩ := ih (a'.length + b'.length) (by omega) a' b' rfl hla'.2 hlb'.2
                  (k + 1) (k + 1) y c [] []
                simp only [List.nil_append] at h1 h2
                have hf := subAfter_isTop_false ho hla'.1 hlb'.1 hsame p (k : Int)
                  (R.isEmpty && A.isEmpty) (a'.headD .void)
                simp only [removedTop_append, addedTop_append, removedTop_accHunk,
                  addedTop_accHunk, removedTop_of_all_false hf, addedTop_of_all_false hf,
                  List.append_nil]
                exact ⟨List.Sublist.append (List.Sublist.refl R) (h1.cons x),
                  List.Sublist.append (List.Sublist.refl A) (h2.cons y)⟩
              · obtain ⟨h1, h2⟩ := ih (a'.length + b'.length) (by omega) a' b' rfl hla'.2 hlb'.2
                  (k + 1) s prev c (R ++ [x]) (A ++ [y])
                exact ⟨by simpa using h1, by simpa using h2⟩

/-- the output of the walk, cut at a position it reaches: what was emitted before, then the walk
    from that position; the array-level hunks emitted before together with what is being
    accumulated remove (add) a sublist of the elements already passed -/
theorem reach_decomp {o : Opts} (ho : dispatchTag o = .list) (p : Path) {a0 b0 : List Json}
    {c0 : List UInt64} (hla : listDocList a0 = true) (hlb : listDocList b0 = true)
    (k0 s0 : Nat) (prev0 : Json) (R0 A0 : List Json) {a b : List Json} {c : List UInt64}
    (hr : Reach o a0 b0 c0 a b c) :
    ∃ (D1 : Diff) (s : Nat) (prev : Json) (R A preA preB : List Json),
      diffRest o p k0 s0 prev0 a0 b0 c0 R0 A0 =
        D1 ++ diffRest o p (k0 + preB.length) s prev a b c R A ∧
      a0 = preA ++ a ∧ b0 = preB ++ b ∧
      (removedTop p D1 ++ R).Sublist (R0 ++ preA) ∧ (addedTop p D1 ++ A).Sublist (A0 ++ preB) := by
  induction hr with
  | start => exact ⟨[], s0, prev0, R0, A0, [], [], by simp, rfl, rfl, by simp, by simp⟩
  | @both x y a' b' c _ hA hB ih =>
    obtain ⟨D1, s, prev, R, A, preA, preB, e, ea, eb, h1, h2⟩ := ih
    refine ⟨D1 ++ accHunk p s prev R A x, k0 + preB.length + 1, y, [], [], preA ++ [x],
      preB ++ [y], ?_, by simp [ea], by simp [eb], ?_, ?_⟩
    · rw [e, diffRest_cons]
      simp only [hA, hB, Bool.and_self, if_true, List.append_assoc, List.length_append,
        List.length_singleton, Nat.add_assoc]
    · simp only [removedTop_append, removedTop_accHunk, List.append_nil, ← List.append_assoc]
      exact h1.trans (List.sublist_append_left _ _)
    · simp only [addedTop_append, addedTop_accHunk, List.append_nil, ← List.append_assoc]
      exact h2.trans (List.sublist_append_left _ _)
  | @addB x y a' b' c _ hA hB ih =>
    obtain ⟨D1, s, prev, R, A, preA, preB, e, ea, eb, h1, h2⟩ := ih
    refine ⟨D1, s, prev, R, A ++ [y], preA, preB ++ [y], ?_, ea, by simp [eb], h1, ?_⟩
    · rw [e, diffRest_cons]
      simp only [hA, hB, Bool.and_false, Bool.false_eq_true, if_false, if_true,
        List.length_append, List.length_singleton, Nat.add_assoc]
    · simp only [← List.append_assoc]
      exact List.Sublist.append h2 (List.Sublist.refl _)
  | @remA x y a' b' c _ hA hB ih =>
    obtain ⟨D1, s, prev, R, A, preA, preB, e, ea, eb, h1, h2⟩ := ih
    refine ⟨D1, s, prev, R ++ [x], A, preA ++ [x], preB, ?_, by simp [ea], eb, ?_, h2⟩
    · rw [e, diffRest_cons]
      simp only [hA, hB, Bool.false_and, Bool.false_eq_true, if_false, if_true]
    · simp only [← List.append_assoc]
      exact List.Sublist.append h1 (List.Sublist.refl _)
  | @sub x y a' b' c _ hA hB hs ih =>
    obtain ⟨D1, s, prev, R, A, preA, preB, e, ea, eb, h1, h2⟩ := ih
    have hlx : x.listDoc = true := by
      rw [ea, listDocList_append] at hla
      have := hla.2
      simp only [listDocList, Bool.and_eq_true] at this
      exact this.1
    have hly : y.listDoc = true := by
      rw [eb, listDocList_append] at hlb
      have := hlb.2
      simp only [listDocList, Bool.and_eq_true] at this
      exact this.1
    have hf := subAfter_isTop_false ho hlx hly hs p ((k0 + preB.length : Nat) : Int)
      (R.isEmpty && A.isEmpty) (a'.headD .void)
    refine ⟨D1 ++ (accHunk p s prev R A
        (if (diffNode o false x y (p ++ [.idx ((k0 + preB.length : Nat) : Int)])).isEmpty then
          a'.headD .void else x) ++
        subAfter p (R.isEmpty && A.isEmpty) (a'.headD .void)
          (diffNode o false x y (p ++ [.idx ((k0 + preB.length : Nat) : Int)]))),
      k0 + preB.length + 1, y, [], [], preA ++ [x], preB ++ [y], ?_, by simp [ea], by simp [eb],
      ?_, ?_⟩
    · rw [e, diffRest_cons]
      simp only [hA, hB, hs, Bool.false_and, Bool.false_eq_true, if_false, if_true,
        List.append_assoc, List.length_append, List.length_singleton, Nat.add_assoc]
    · simp only [removedTop_append, removedTop_accHunk, removedTop_of_all_false hf,
        List.append_nil, ← List.append_assoc]
      exact h1.trans (List.sublist_append_left _ _)
    · simp only [addedTop_append, addedTop_accHunk, addedTop_of_all_false hf,
        List.append_nil, ← List.append_assoc]
      exact h2.trans (List.sublist_append_left _ _)
  | @repl x y a' b' c _ hA hB hs ih =>
    obtain ⟨D1, s, prev, R, A, preA, preB, e, ea, eb, h1, h2⟩ := ih
    refine ⟨D1, s, prev, R ++ [x], A ++ [y], preA ++ [x], preB ++ [y], ?_, by simp [ea],
      by simp [eb], ?_, ?_⟩
    · rw [e, diffRest_cons]
      simp only [hA, hB, hs, Bool.false_and, Bool.false_eq_true, if_false,
        List.length_append, List.length_singleton, Nat.add_assoc]
    · simp only [← List.append_assoc]
      exact List.Sublist.append h1 (List.Sublist.refl _)
    · simp only [← List.append_assoc]
      exact List.Sublist.append h2 (List.Sublist.refl _)

/-- the general loop form behind `diffRest_recurses_at` and `diffM_recurses_at_whole`, WITHOUT the
    `mixedPair` hypothesis: the sub-diff appears passed through `subAfter` (which is the identity
    unless `x` is a typed list and `y` a plain array). -/
theorem diffRest_recurses_at_subAfter {o : Opts} (ho : dispatchTag o = .list) (p : Path)
    {xs ys : List Json} {c0 : List UInt64}
    (hla : listDocList xs = true) (hlb : listDocList ys = true)
    {x y : Json} {a' b' : List Json} {c : List UInt64}
    (hr : Reach o xs ys c0 (x :: a') (y :: b') c)
    (hA : atC o x c = false) (hB : atC o y c = false) (hs : sameContainerType o x y = true) :
    ∃ (D1 D2 : Diff) (preA preB : List Json) (n : Bool),
      xs = preA ++ x :: a' ∧ ys = preB ++ y :: b' ∧
      diffRest o p 0 0 .void xs ys c0 [] [] =
        D1 ++ subAfter p n (a'.headD .void)
          (diffNode o false x y (p ++ [.idx (preB.length : Int)])) ++ D2 ∧
      (∀ h ∈ subAfter p n (a'.headD .void)
          (diffNode o false x y (p ++ [.idx (preB.length : Int)])), isTop p h = false) ∧
      (removedTop p D1).Sublist preA ∧ (addedTop p D1).Sublist preB ∧
      (removedTop p D2).Sublist a' ∧ (addedTop p D2).Sublist b' := by
  obtain ⟨D1, s, prev, R, A, preA, preB, e, ea, eb, h1, h2⟩ :=
    reach_decomp ho p hla hlb 0 0 .void [] [] hr
  simp only [Nat.zero_add, List.nil_append] at e h1 h2
  have hla' := hla; have hlb' := hlb
  rw [ea, listDocList_append] at hla'
  rw [eb, listDocList_append] at hlb'
  have hxa := hla'.2; have hyb := hlb'.2
  simp only [listDocList, Bool.and_eq_true] at hxa hyb
  have hf := subAfter_isTop_false ho hxa.1 hyb.1 hs p (preB.length : Int)
    (R.isEmpty && A.isEmpty) (a'.headD .void)
  obtain ⟨g1, g2⟩ := diffRest_top_sublists ho p _ a' b' rfl hxa.2 hyb.2 (preB.length + 1)
    (preB.length + 1) y c [] []
  simp only [List.nil_append] at g1 g2
  refine ⟨D1 ++ accHunk p s prev R A
      (if (diffNode o false x y (p ++ [.idx (preB.length : Int)])).isEmpty then a'.headD .void
        else x),
    diffRest o p (preB.length + 1) (preB.length + 1) y a' b' c [] [], preA, preB,
    (R.isEmpty && A.isEmpty), ea, eb, ?_, hf, ?_, ?_, g1, g2⟩
  · rw [e, diffRest_cons]
    simp only [hA, hB, hs, Bool.false_and, Bool.false_eq_true, if_false, if_true,
      List.append_assoc]
  · simpa using h1
  · simpa using h2

/-- **(1), general, loop form.** The walk started on `xs ys c0` reaches a position where the two
    cursor elements `x` and `y` are containers of the same kind and neither is the next element
    of the remaining common sequence (`atC … = false`: the condition as the code decides it), and
    `x`, `y` are not a typed list against a plain array (`mixedPair x y = false`; for such a pair the
    sub-diff is one wholesale hunk and `subAfter` gives it an after-context:
    `diffRest_recurses_at_subAfter`).
    Then the output is `D1 ++ diffNode o false x y (p ++ [.idx j]) ++ D2` where `j` is the position
    of `y` in `ys`; no hunk of the sub-diff is an array-level hunk; the array-level hunks of `D1`
    remove a sublist of the elements of `xs` BEFORE `x` and add a sublist of the elements of `ys`
    before `y`, those of `D2` remove a sublist of the elements AFTER `x` and add a sublist of the
    elements after `y`: no array-level hunk removes `x` or adds `y`. -/
theorem diffRest_recurses_at {o : Opts} (ho : dispatchTag o = .list) (p : Path)
    {xs ys : List Json} {c0 : List UInt64}
    (hla : listDocList xs = true) (hlb : listDocList ys = true)
    {x y : Json} {a' b' : List Json} {c : List UInt64}
    (hr : Reach o xs ys c0 (x :: a') (y :: b') c)
    (hA : atC o x c = false) (hB : atC o y c = false) (hs : sameContainerType o x y = true)
    (hnm : mixedPair x y = false) :
    ∃ (D1 D2 : Diff) (preA preB : List Json),
      xs = preA ++ x :: a' ∧ ys = preB ++ y :: b' ∧
      diffRest o p 0 0 .void xs ys c0 [] [] =
        D1 ++ diffNode o false x y (p ++ [.idx (preB.length : Int)]) ++ D2 ∧
      (∀ h ∈ diffNode o false x y (p ++ [.idx (preB.length : Int)]), isTop p h = false) ∧
      (removedTop p D1).Sublist preA ∧ (addedTop p D1).Sublist preB ∧
      (removedTop p D2).Sublist a' ∧ (addedTop p D2).Sublist b' := by
  obtain ⟨D1, D2, preA, preB, n, ea, eb, e, hf, h1, h2, h3, h4⟩ :=
    diffRest_recurses_at_subAfter ho p hla hlb hr hA hB hs
  rw [Real.subAfter_diffNode_of_not_mixed o hs hnm] at e hf
  exact ⟨D1, D2, preA, preB, ea, eb, e, hf, h1, h2, h3, h4⟩

/-- **(1), general, for `a.Diff(b)`** of two arrays (list documents: every array node a plain
    `jsonArray` or a `jsonList`). -/
theorem diffM_recurses_at {o : Opts} (ho : dispatchTag o = .list) (hm : isMerge o = false)
    {t t' : Tag} (xs ys : List Json)
    (ht : (t == .raw || t == .list) = true) (ht' : (t' == .raw || t' == .list) = true)
    (htt : t = .raw ∨ t' = .list)
    (hla : listDocList xs = true) (hlb : listDocList ys = true)
    {x y : Json} {a' b' : List Json} {c : List UInt64}
    (hr : Reach o xs ys (lcsValues (hashList o xs) (hashList o ys)) (x :: a') (y :: b') c)
    (hA : atC o x c = false) (hB : atC o y c = false) (hs : sameContainerType o x y = true)
    (hnm : mixedPair x y = false) :
    ∃ (D1 D2 : Diff) (preA preB : List Json),
      xs = preA ++ x :: a' ∧ ys = preB ++ y :: b' ∧
      diffM o (.arr t xs) (.arr t' ys) =
        D1 ++ diffNode o false x y [.idx (preB.length : Int)] ++ D2 ∧
      (∀ h ∈ diffNode o false x y [.idx (preB.length : Int)], isTop [] h = false) ∧
      (removedTop [] D1).Sublist preA ∧ (addedTop [] D1).Sublist preB ∧
      (removedTop [] D2).Sublist a' ∧ (addedTop [] D2).Sublist b' := by
  rw [diffM, hm, diffNode_arr_arr ho xs ys ht ht' htt []]
  simpa using diffRest_recurses_at ho [] hla hlb hr hA hB hs hnm

/-- the array-level hunks, all together, remove `x`'s neighbours only: a sublist of `xs` with the
    position of `x` taken out (and add a sublist of `ys` with the position of `y` taken out) -/
theorem diffM_recurses_at_whole {o : Opts} (ho : dispatchTag o = .list) (hm : isMerge o = false)
    {t t' : Tag} (xs ys : List Json)
    (ht : (t == .raw || t == .list) = true) (ht' : (t' == .raw || t' == .list) = true)
    (htt : t = .raw ∨ t' = .list)
    (hla : listDocList xs = true) (hlb : listDocList ys = true)
    {x y : Json} {a' b' : List Json} {c : List UInt64}
    (hr : Reach o xs ys (lcsValues (hashList o xs) (hashList o ys)) (x :: a') (y :: b') c)
    (hA : atC o x c = false) (hB : atC o y c = false) (hs : sameContainerType o x y = true) :
    ∃ (preA preB : List Json), xs = preA ++ x :: a' ∧ ys = preB ++ y :: b' ∧
      (removedTop [] (diffM o (.arr t xs) (.arr t' ys))).Sublist (preA ++ a') ∧
      (addedTop [] (diffM o (.arr t xs) (.arr t' ys))).Sublist (preB ++ b') := by
  obtain ⟨D1, D2, preA, preB, n, ea, eb, e, hf, h1, h2, h3, h4⟩ :=
    diffRest_recurses_at_subAfter ho [] hla hlb hr hA hB hs
  rw [diffM, hm, diffNode_arr_arr ho xs ys ht ht' htt []]
  refine ⟨preA, preB, ea, eb, ?_, ?_⟩
  · rw [e]
    simp only [removedTop_append, removedTop_of_all_false hf, List.append_nil]
    exact List.Sublist.append h1 h3
  · rw [e]
    simp only [addedTop_append, addedTop_of_all_false hf, List.append_nil]
    exact List.Sublist.append h2 h4

/-! ### the array-level hunks never remove or add more than the LCS edit script -/

/-- loop invariant: for any common subsequence `c` of the remaining hash lists handed to the walk,
    the array-level hunks remove at most `|R| + |a| − |c|` and add at most `|A| + |b| − |c|`
    elements (each recursion into a pair of same-kind containers saves one removal and one
    addition with respect to the scalar count of `Min.diffRest_counts`) -/
theorem diffRest_top_counts_le {o : Opts} (ho : dispatchTag o = .list) (p : Path) :
    ∀ (n : Nat) (a b : List Json), a.length + b.length = n →
      listDocList a = true → listDocList b = true →
      ∀ (k s : Nat) (prev : Json) (c : List UInt64) (R A : List Json),
        c.Sublist (hashList o a) → c.Sublist (hashList o b) →
        (removedTop p (diffRest o p k s prev a b c R A)).length + c.length ≤ R.length + a.length ∧
        (addedTop p (diffRest o p k s prev a b c R A)).length + c.length ≤ A.length + b.length := by
  intro n
  induction n using Nat.strongRecOn with
  | _ n ih =>
    intro a b hn hla hlb k s prev c R A hca hcb
    cases a with
    | nil =>
      have hc : c = [] := by simpa [hashList] using hca
      subst hc
      rw [diffRest_nilA]
      simp
    | cons x a' =>
      cases b with
      | nil =>
        have hc : c = [] := by simpa [hashList] using hcb
        subst hc
        rw [diffRest_nilB _ _ _ _ _ _ _ _ _ (by simp)]
        simp
      | cons y b' =>
        simp only [List.length_cons] at hn
        have hla' := hla; have hlb' := hlb
        simp only [listDocList, Bool.and_eq_true] at hla' hlb'
        rw [hashList_cons] at hca hcb
        rw [diffRest_cons]
        cases hA : atC o x c <;> cases hB : atC o y c <;>
          simp only [Bool.and_self, Bool.and_false, Bool.false_and, Bool.false_eq_true,
            if_false, if_true]
        · have hca' := sublist_of_head_ne hca (atC_false hA)
          have hcb' := sublist_of_head_ne hcb (atC_false hB)
          cases hsame : sameContainerType o x y <;>
            simp only [Bool.false_eq_true, if_false, if_true]
          · obtain ⟨h1, h2⟩ := ih (a'.length + b'.length) (by omega) a' b' rfl hla'.2 hlb'.2
              (k + 1) s prev c (R ++ [x]) (A ++ [y]) hca' hcb'
            simp only [List.length_append, List.length_cons, List.length_nil] at h1 h2 ⊢
            omega
          · obtain ⟨h1, h2⟩ := ih (a'.length + b'.length) (by omega) a' b' rfl hla'.2 hlb'.2
              (k + 1) (k + 1) y c [] [] hca' hcb'
            have hf := subAfter_isTop_false ho hla'.1 hlb'.1 hsame p (k : Int)
              (R.isEmpty && A.isEmpty) (a'.headD .void)
            simp only [removedTop_append, addedTop_append, removedTop_accHunk, addedTop_accHunk,
              removedTop_of_all_false hf, addedTop_of_all_false hf, List.append_nil,
              List.length_append, List.length_nil, List.length_cons] at h1 h2 ⊢
            omega
        · obtain ⟨h1, h2⟩ := ih (a'.length + (y :: b').length) (by simp; omega) a' (y :: b') rfl
            hla'.2 hlb k s prev c (R ++ [x]) A (sublist_of_head_ne hca (atC_false hA))
            (by rw [hashList_cons]; exact hcb)
          simp only [List.length_append, List.length_cons, List.length_nil] at h1 h2 ⊢
          omega
        · obtain ⟨h1, h2⟩ := ih ((x :: a').length + b'.length) (by simp; omega) (x :: a') b' rfl
            hla hlb'.2 (k + 1) s prev c R (A ++ [y]) (by rw [hashList_cons]; exact hca)
            (sublist_of_head_ne hcb (atC_false hB))
          simp only [List.length_append, List.length_cons, List.length_nil] at h1 h2 ⊢
          omega
        · have ec := atC_true hA
          have hca' : c.tail.Sublist (hashList o a') := by
            rw [ec] at hca; exact List.cons_sublist_cons.1 hca
          have hcb' : c.tail.Sublist (hashList o b') := by
            rw [atC_true hB] at hcb; exact List.cons_sublist_cons.1 hcb
          have hlen : c.length = c.tail.length + 1 := by
            conv => lhs; rw [ec]
            simp
          obtain ⟨h1, h2⟩ := ih (a'.length + b'.length) (by omega) a' b' rfl hla'.2 hlb'.2
            (k + 1) (k + 1) y c.tail [] [] hca' hcb'
          simp only [removedTop_append, addedTop_append, removedTop_accHunk, addedTop_accHunk,
            List.length_append, List.length_nil, List.length_cons] at h1 h2 ⊢
          omega

/-- **minimality, containers allowed.** The array-level hunks of `a.Diff(b)` remove at most
    `|xs| − LCS` and add at most `|ys| − LCS` elements, LCS the textbook longest-common-subsequence
    length of the two hash lists: never more than an optimal edit script (for arrays of scalars
    `Min.diffM_removes_adds_count_spec` gives equality). -/
theorem diffM_top_removes_adds_le {o : Opts} (ho : dispatchTag o = .list) (hm : isMerge o = false)
    {t t' : Tag} (xs ys : List Json)
    (ht : (t == .raw || t == .list) = true) (ht' : (t' == .raw || t' == .list) = true)
    (htt : t = .raw ∨ t' = .list)
    (hla : listDocList xs = true) (hlb : listDocList ys = true) :
    (removedTop [] (diffM o (.arr t xs) (.arr t' ys))).length ≤
        xs.length - lcsLenSpec (hashList o xs) (hashList o ys) ∧
    (addedTop [] (diffM o (.arr t xs) (.arr t' ys))).length ≤
        ys.length - lcsLenSpec (hashList o xs) (hashList o ys) := by
  rw [diffM, hm, diffNode_arr_arr ho xs ys ht ht' htt []]
  obtain ⟨h1, h2⟩ := diffRest_top_counts_le ho [] _ xs ys rfl hla hlb 0 0 .void
    (lcsValues (hashList o xs) (hashList o ys)) [] []
    (lcsValues_sublist_left _ _) (lcsValues_sublist_right _ _)
  rw [lcsValues_length_spec] at h1 h2
  simp only [List.length_nil, Nat.zero_add] at h1 h2
  omega

/-! ## E. the context lines, statically: elements of the two arrays (no hash-collision hypothesis) -/

/-- numbers of the source and of the target that `Equals` identifies (`|u − v| ≤ +0` as IEEE
    doubles) have the same hash code. True of all finite doubles since `0` and `-0` hash alike
    (JdModel.Hash); a hypothesis because the kernel cannot evaluate `Float`. Implied by
    `DPL.ZeroOK` (`numHashOK_of_zero`). -/
def NumHashOK (o : Opts) (S T : List Json) : Prop :=
  ∀ u v, Json.num u ∈ S → Json.num v ∈ T → numWithin 0 u v = true →
    hashCode o (.num u) = hashCode o (.num v)

theorem numHashOK_of_zero {o : Opts} {S T : List Json}
    (Z : ∀ u v, Json.num u ∈ S → Json.num v ∈ T → numWithin 0 u v = true → u = v) :
    NumHashOK o S T := fun u v hu hv h => by rw [Z u v hu hv h]

/- `diffCommon_empty_hash'`, `diff_empty_hash'`: `DPL.diff_empty_hash` (an empty diff means equal
   hash codes) re-proved from `NumHashOK` alone — the original takes `NoCollision`, of which it
   only uses the part about numbers. -/
theorem diffCommon_empty_hash' (o : Opts) {S T : List Json} (N : NumHashOK o S T) (a b : Json)
    (h1 : ∀ t xs, a ≠ .arr t xs) (h2 : ∀ kvs, a ≠ .obj kvs) (ha : a ∈ S) (hb : b ∈ T) (p : Path)
    (h : diffCommon false a b p = []) : hashCode o a = hashCode o b := by
  unfold diffCommon at h
  split at h
  · next he =>
    cases a with
    | arr t xs => exact absurd rfl (h1 t xs)
    | obj kvs => exact absurd rfl (h2 kvs)
    | num u =>
      cases b <;> simp [equals] at he
      next v =>
      exact N u v ha hb (by simpa [precOf] using he)
    | _ => cases b <;> simp_all [equals, Json.isVoid, Json.isNull]
  · simp at h


theorem diff_empty_hash' (o : Opts) (ho : dispatchTag o = .list) {S T : List Json}
    (N : NumHashOK o S T) :
    (∀ a b, a.listDoc = true → b.listDoc = true →
      Sub (subterms a) S → Sub (subterms b) T → Good a → Good b →
      ∀ p, diffNode o false a b p = [] → hashCode o a = hashCode o b) ∧
    (∀ kvs' kvs, listDocKvs kvs' = true → listDocKvs kvs = true →
      Sub (subtermsKvs kvs) S → Sub (subtermsKvs kvs') T → GoodK kvs → GoodK kvs' →
      ∀ p, diffKvs o false p kvs' kvs = [] →
        ∀ k v, (k, v) ∈ kvs → ∃ v', alookup k kvs' = some v' ∧ hashCode o v = hashCode o v') ∧
    (∀ k s prev a b c R A, listDocList a = true → listDocList b = true →
      Sub (subtermsList a) S → Sub (subtermsList b) T → GoodL a → GoodL b →
      ∀ p, diffRest o p k s prev a b c R A = [] → R = [] ∧ A = [] ∧ hashList o a = hashList o b) := by
  apply listDiff_induct o ho
    (mN := fun a b => Sub (subterms a) S → Sub (subterms b) T → Good a → Good b →
      ∀ p, diffNode o false a b p = [] → hashCode o a = hashCode o b)
    (mK := fun kvs' kvs => Sub (subtermsKvs kvs) S → Sub (subtermsKvs kvs') T → GoodK kvs →
      GoodK kvs' → ∀ p, diffKvs o false p kvs' kvs = [] →
        ∀ k v, (k, v) ∈ kvs → ∃ v', alookup k kvs' = some v' ∧ hashCode o v = hashCode o v')
    (mR := fun k s prev a b c R A => Sub (subtermsList a) S → Sub (subtermsList b) T → GoodL a →
      GoodL b → ∀ p, diffRest o p k s prev a b c R A = [] →
        R = [] ∧ A = [] ∧ hashList o a = hashList o b)
  · intro t t' xs ys ht ht' htt _ _ ih hS hT ha hb p h
    rw [diffNode_arr_arr ho xs ys ht ht' htt] at h
    have := ih (sub_arr hS) (sub_arr hT) (good_arr.1 ha).2 (good_arr.1 hb).2 p h
    rw [hashCode_arr_list ho xs ht, hashCode_arr_list ho ys ht', this.2.2]
  · intro t xs b ht _ _ hb _ _ _ _ p h
    rw [diffNode_arr_other ho xs b ht hb] at h
    cases h
  · intro kvs kvs' _ _ ih hS hT ha hb p h
    rw [diffNode_obj_obj, List.append_eq_nil_iff, List.map_eq_nil_iff, List.filter_eq_nil_iff] at h
    have ha' := good_obj.1 ha
    have hb' := good_obj.1 hb
    have h1 := ih (sub_obj hS) (sub_obj hT) ha'.2 hb'.2 p h.1
    have h2 : ∀ k v', (k, v') ∈ kvs' → (alookup k kvs).isSome = true := by
      intro k v' hm
      have := h.2 (k, v') hm
      cases hl : alookup k kvs with
      | none => simp [hl] at this
      | some _ => rfl
    simp only [hashCode, hashKvs_eq_of o kvs kvs' ha'.1 hb'.1 h1 h2]
  · intro kvs b _ _ hb _ _ _ _ p h
    rw [diffNode_obj_other o kvs b hb] at h
    cases h
  · intro a b h1 h2 _ hS hT _ _ p h
    rw [diffNode_scalar o a b h1 h2] at h
    exact diffCommon_empty_hash' o N a b h1 h2 (hS a (self_mem_subterms a))
      (hT b (self_mem_subterms b)) p h
  · intro kvs' _ _ _ _ p _ k v hm
    cases hm
  · intro kvs' k v r hl' _ _ ihN ihK hS hT ha hb p h k0 v0 hm
    rw [diffKvs_cons, List.append_eq_nil_iff] at h
    have ha' := goodK_cons.1 ha
    have hS' := sub_kvs_cons hS
    rcases List.mem_cons.1 hm with e | hm
    · cases e
      cases hlk : alookup k kvs' with
      | none => rw [hlk] at h; cases h.1
      | some v' =>
        rw [hlk] at h
        exact ⟨v', rfl, ihN v' (alookup_listDoc hlk hl') hS'.1 (sub_lookup hT hlk) ha'.1.1
          (hb.lookup hlk).1 _ h.1⟩
    · exact ihK hS'.2 hT ha'.2 hb p h.2 k0 v0 hm
  · intro k s prev c R A b _ _ _ _ _ p h
    rw [diffRest_nilA] at h
    have := accHunk_eq_nil h
    have hb : b = [] := by simpa using List.append_eq_nil_iff.1 this.2 |>.2
    have hA : A = [] := (List.append_eq_nil_iff.1 this.2).1
    subst hb
    exact ⟨this.1, hA, rfl⟩
  · intro k s prev c R A a hne _ _ _ _ _ p h
    rw [diffRest_nilB _ _ _ _ _ _ _ _ _ hne] at h
    have := accHunk_eq_nil h
    exact absurd (List.append_eq_nil_iff.1 this.1).2 hne
  · intro k s prev c R A x a' y b' _ _ hA hB ih hS hT ha hb p h
    rw [diffRest_cons] at h
    simp only [hA, hB, Bool.and_self, if_true, List.append_eq_nil_iff] at h
    have h1 := accHunk_eq_nil h.1
    have h2 := ih (sub_cons hS).2 (sub_cons hT).2 (goodL_cons.1 ha).2 (goodL_cons.1 hb).2 p h.2
    refine ⟨h1.1, h1.2, ?_⟩
    simp only [hashList, atC_both_hash hA hB, h2.2.2]
  · intro k s prev c R A x a' y b' _ _ hA hB ih hS hT ha hb p h
    rw [diffRest_cons] at h
    simp only [hA, hB, Bool.and_false, Bool.false_eq_true, if_false, if_true] at h
    have h2 := ih hS (sub_cons hT).2 ha (goodL_cons.1 hb).2 p h
    simp at h2
  · intro k s prev c R A x a' y b' _ _ hA hB ih hS hT ha hb p h
    rw [diffRest_cons] at h
    simp only [hA, hB, Bool.false_and, Bool.false_eq_true, if_false, if_true] at h
    have h2 := ih (sub_cons hS).2 hT (goodL_cons.1 ha).2 hb p h
    simp at h2
  · intro k s prev c R A x a' y b' _ _ hA hB hs ihN ihR hS hT ha hb p h
    rw [diffRest_cons] at h
    simp only [hA, hB, hs, Bool.false_and, Bool.false_eq_true, if_false, if_true,
      List.append_eq_nil_iff] at h
    have h1 := accHunk_eq_nil h.1.1
    have h2 := ihR (sub_cons hS).2 (sub_cons hT).2 (goodL_cons.1 ha).2 (goodL_cons.1 hb).2 p h.2
    have h3 := ihN (sub_cons hS).1 (sub_cons hT).1 (goodL_cons.1 ha).1 (goodL_cons.1 hb).1 _
      ((subAfter_eq_nil_iff _ _ _ _).1 h.1.2)
    refine ⟨h1.1, h1.2, ?_⟩
    simp only [hashList, h3, h2.2.2]
  · intro k s prev c R A x a' y b' _ _ hA hB hs ih hS hT ha hb p h
    rw [diffRest_cons] at h
    simp only [hA, hB, hs, Bool.false_and, Bool.false_eq_true, if_false] at h
    have h2 := ih (sub_cons hS).2 (sub_cons hT).2 (goodL_cons.1 ha).2 (goodL_cons.1 hb).2 p h
    simp at h2

theorem subterms_sub_of_mem {x : Json} : ∀ {xs : List Json}, x ∈ xs →
    Sub (subterms x) (subtermsList xs)
  | [], h => by cases h
  | y :: r, h => by
    intro z hz
    simp only [subtermsList, List.mem_append]
    rcases List.mem_cons.1 h with rfl | h
    · exact .inl hz
    · exact .inr (subterms_sub_of_mem h z hz)

/-- the sub-diff of an element of `a` and an element of `b` is empty only if they have the same
    hash code -/
def EmptyMeansSameHash (o : Opts) (a b : List Json) : Prop :=
  ∀ x ∈ a, ∀ y ∈ b, ∀ q, diffNode o false x y q = [] → hashCode o x = hashCode o y

theorem emptyMeansSameHash_of_good {o : Opts} (ho : dispatchTag o = .list) {xs ys : List Json}
    (gx : GoodL xs) (gy : GoodL ys) (Z : NumHashOK o (subtermsList xs) (subtermsList ys)) :
    EmptyMeansSameHash o xs ys := by
  intro x hx y hy q he
  exact (diff_empty_hash' o ho Z).1 x y (gx.of_mem hx).listDoc (gy.of_mem hy).listDoc
    (subterms_sub_of_mem hx) (subterms_sub_of_mem hy) (gx.of_mem hx) (gy.of_mem hy) q he

theorem EmptyMeansSameHash.tailA {o : Opts} {x : Json} {a b : List Json}
    (h : EmptyMeansSameHash o (x :: a) b) : EmptyMeansSameHash o a b :=
  fun x' hx' => h x' (List.mem_cons_of_mem _ hx')

theorem EmptyMeansSameHash.tailB {o : Opts} {y : Json} {a b : List Json}
    (h : EmptyMeansSameHash o a (y :: b)) : EmptyMeansSameHash o a b :=
  fun x' hx' y' hy' => h x' hx' y' (List.mem_cons_of_mem _ hy')

/-- **(2), static loop invariant, containers allowed.** `X = preA ++ R ++ a`, `Y = preB ++ A ++ b`
    are the two arrays, `c` is a LONGEST common subsequence of the remaining hash lists and the
    sub-diff of two remaining elements is empty only for equal hash codes. Every hunk of the walk
    is `Real.Located` — at `p ++ [.idx i]`, `remove` a contiguous run of `X`, `add` the contiguous
    run of `Y` standing at index `i`, `before` = the element of `Y` just before it (void at the
    start), `after` = the element of `X` following the removed run (void at the end) — or belongs
    to the sub-diff of two same-kind containers. -/
theorem diffRest_located_containers (o : Opts) (p : Path) (X Y : List Json) :
    ∀ (n : Nat) (a b : List Json), a.length + b.length = n →
      (∀ x ∈ a, ∀ y ∈ b, mixedPair x y = false) →
      ∀ (k s : Nat) (c : List UInt64) (R A preA preB : List Json),
        EmptyMeansSameHash o a b → LOpt c (hashList o a) (hashList o b) →
        X = preA ++ R ++ a → Y = preB ++ A ++ b → preB.length = s → k = s + A.length →
        ∀ h ∈ diffRest o p k s (preB.getLast?.getD .void) a b c R A,
          Real.Located p X Y h ∨ SubHunk o p k a b h := by
  intro n
  induction n using Nat.strongRecOn with
  | _ n ih =>
    intro a b hn hnm k s c R A preA preB hE hopt hX hY hs hk h hm
    cases a with
    | nil =>
      rw [diffRest_nilA] at hm
      exact .inl (Real.accHunk_located (postA := []) (postB := []) hm (by simpa using hX)
        (by simpa using hY) hs rfl)
    | cons x a' =>
      cases b with
      | nil =>
        rw [diffRest_nilB _ _ _ _ _ _ _ _ _ (by simp)] at hm
        exact .inl (Real.accHunk_located (postA := []) (postB := []) hm (by simpa using hX)
          (by simpa using hY) hs rfl)
      | cons y b' =>
        simp only [List.length_cons] at hn
        have hAA : ∀ z ∈ a', ∀ w ∈ b', mixedPair z w = false := fun z hz w hw =>
          hnm z (List.mem_cons_of_mem _ hz) w (List.mem_cons_of_mem _ hw)
        have hA1 : ∀ z ∈ a', ∀ w ∈ y :: b', mixedPair z w = false := fun z hz w hw =>
          hnm z (List.mem_cons_of_mem _ hz) w hw
        have h1B : ∀ z ∈ x :: a', ∀ w ∈ b', mixedPair z w = false := fun z hz w hw =>
          hnm z hz w (List.mem_cons_of_mem _ hw)
        have hlast : y = (preB ++ A ++ [y]).getLast?.getD .void := by simp
        rw [diffRest_cons] at hm
        rw [hashList_cons o x, hashList_cons o y] at hopt
        cases hA : atC o x c <;> cases hB : atC o y c <;>
          simp only [hA, hB, Bool.and_self, Bool.and_false, Bool.false_and, Bool.false_eq_true,
            if_false, if_true] at hm
        · -- neither cursor element is the next common element
          have hopt' := (hopt.skipA (atC_false hA)).skipB (atC_false hB)
          cases hsame : sameContainerType o x y <;>
            simp only [hsame, Bool.false_eq_true, if_false, if_true] at hm
          · exact (ih (a'.length + b'.length) (by omega) a' b' rfl hAA (k + 1) s c (R ++ [x]) (A ++ [y])
              preA preB hE.tailA.tailB hopt' (by simp [hX]) (by simp [hY]) hs (by simp; omega)
              h hm).imp id (fun hs => (hs.consA x).consB y)
          · have hne : hashCode o x ≠ hashCode o y := by
              intro e
              rw [← e] at hopt
              exact hopt.heads_ne (atC_false hA)
            have hD : (diffNode o false x y (p ++ [.idx (k : Int)])).isEmpty = false := by
              cases hd : diffNode o false x y (p ++ [.idx (k : Int)]) with
              | nil => exact absurd (hE x List.mem_cons_self y List.mem_cons_self _ hd) hne
              | cons _ _ => rfl
            simp only [hD, Bool.false_eq_true, if_false] at hm
            rw [Real.subAfter_diffNode_of_not_mixed o hsame
              (hnm x List.mem_cons_self y List.mem_cons_self)] at hm
            rcases List.mem_append.1 hm with hm | hm
            · rcases List.mem_append.1 hm with hm | hm
              · exact .inl (Real.accHunk_located hm hX hY hs rfl)
              · exact .inr ⟨[], x, a', [], y, b', rfl, rfl, hsame, by simpa using hm⟩
            · rw [hlast] at hm
              exact (ih (a'.length + b'.length) (by omega) a' b' rfl hAA (k + 1) (k + 1) c [] []
                (preA ++ R ++ [x]) (preB ++ A ++ [y]) hE.tailA.tailB hopt' (by simp [hX])
                (by simp [hY]) (by simp; omega) (by simp) h hm).imp id
                (fun hs => (hs.consA x).consB y)
        · -- `y` is the next common element: remove `x`
          exact (ih (a'.length + (y :: b').length) (by simp; omega) a' (y :: b') rfl hA1 k s c
            (R ++ [x]) A preA preB hE.tailA
            (by rw [hashList_cons]; exact hopt.skipA (atC_false hA)) (by simp [hX]) hY hs hk
            h hm).imp id (fun hs => hs.consA x)
        · -- `x` is the next common element: add `y`
          exact (ih ((x :: a').length + b'.length) (by simp; omega) (x :: a') b' rfl h1B (k + 1) s c R
            (A ++ [y]) preA preB hE.tailB
            (by rw [hashList_cons]; exact hopt.skipB (atC_false hB)) hX (by simp [hY]) hs
            (by simp; omega) h hm).imp id (fun hs => hs.consB y)
        · -- both at the next common element
          have hh := atC_both_hash hA hB
          have hopt' : LOpt c.tail (hashList o a') (hashList o b') := by
            rw [← hh, atC_true hA] at hopt
            exact hopt.both
          rcases List.mem_append.1 hm with hm | hm
          · exact .inl (Real.accHunk_located hm hX hY hs rfl)
          · rw [hlast] at hm
            exact (ih (a'.length + b'.length) (by omega) a' b' rfl hAA (k + 1) (k + 1) c.tail [] []
              (preA ++ R ++ [x]) (preB ++ A ++ [y]) hE.tailA.tailB hopt' (by simp [hX])
              (by simp [hY]) (by simp; omega) (by simp) h hm).imp id
              (fun hs => (hs.consA x).consB y)

/-- **(2), static form, at any path** (so: for an array at any depth, as `diffNode` is called on it) -/
theorem diffNode_located_containers {o : Opts} (ho : dispatchTag o = .list)
    {t t' : Tag} (xs ys : List Json)
    (ht : (t == .raw || t == .list) = true) (ht' : (t' == .raw || t' == .list) = true)
    (htt : t = .raw ∨ t' = .list) (p : Path) (gx : GoodL xs) (gy : GoodL ys)
    (Z : NumHashOK o (subtermsList xs) (subtermsList ys))
    (nomix : ∀ x ∈ xs, ∀ y ∈ ys, mixedPair x y = false) :
    ∀ h ∈ diffNode o false (.arr t xs) (.arr t' ys) p,
      Real.Located p xs ys h ∨ SubHunk o p 0 xs ys h := by
  rw [diffNode_arr_arr ho xs ys ht ht' htt p]
  intro h hmem
  exact diffRest_located_containers o p xs ys _ xs ys rfl nomix 0 0 _ [] [] [] []
    (emptyMeansSameHash_of_good ho gx gy Z) (LOpt.lcs _ _) (by simp) (by simp) rfl rfl h
    (by simpa using hmem)

/-- **(2), static form, `a.Diff(b)` of two arrays with containers.** Elements: list documents with
    sorted unique keys, finite numbers, no void member (`GoodL`); `NumHashOK` (numbers equal as
    floats hash alike). NO hypothesis about hash collisions. Every hunk is an array-level hunk
    addressed to `[.idx i]` whose removed values are a contiguous run of `xs`, whose added values
    are the contiguous run of `ys` standing at index `i`, whose before-context is LITERALLY the
    element of `ys` just before that run (the boundary marker void at the start) and whose
    after-context is LITERALLY the element of `xs` following the removed run (void at the end) —
    or it belongs to the sub-diff of two same-kind containers `x ∈ xs`, `y = ys[j]` at `[.idx j]`. -/
theorem diffM_located_containers {o : Opts} (ho : dispatchTag o = .list) (hm : isMerge o = false)
    {t t' : Tag} (xs ys : List Json)
    (ht : (t == .raw || t == .list) = true) (ht' : (t' == .raw || t' == .list) = true)
    (htt : t = .raw ∨ t' = .list) (gx : GoodL xs) (gy : GoodL ys)
    (Z : NumHashOK o (subtermsList xs) (subtermsList ys))
    (nomix : ∀ x ∈ xs, ∀ y ∈ ys, mixedPair x y = false) :
    ∀ h ∈ diffM o (.arr t xs) (.arr t' ys),
      Real.Located [] xs ys h ∨
      (∃ (preA : List Json) (x : Json) (postA preB : List Json) (y : Json) (postB : List Json),
        xs = preA ++ x :: postA ∧ ys = preB ++ y :: postB ∧ sameContainerType o x y = true ∧
          h ∈ diffNode o false x y [.idx (preB.length : Int)]) := by
  rw [diffM, hm, diffNode_arr_arr ho xs ys ht ht' htt []]
  intro h hmem
  rcases diffRest_located_containers o [] xs ys _ xs ys rfl nomix 0 0 _ [] [] [] []
    (emptyMeansSameHash_of_good ho gx gy Z) (LOpt.lcs _ _) (by simp) (by simp) rfl rfl h
    (by simpa using hmem) with h1 | ⟨preA, x, postA, preB, y, postB, ea, eb, hk, hh⟩
  · exact .inl h1
  · exact .inr ⟨preA, x, postA, preB, y, postB, ea, eb, hk, by simpa using hh⟩

/-! ## F. non-vacuity, and a witness for the well-formedness hypothesis -/

namespace Example


/-- `[{"a":"u"}, ["p"]]` -/
def xsE : List Json := [.obj [("a", .str "u")], .arr .raw [.str "p"]]
/-- `[{"a":"v"}, ["p","q"]]` -/
def ysE : List Json := [.obj [("a", .str "v")], .arr .raw [.str "p", .str "q"]]

theorem same : sameKinds [] xsE ysE = true := by decide +kernel
theorem apart : ∀ x ∈ xsE, ∀ y ∈ ysE, hashCode [] x ≠ hashCode [] y := by decide +kernel
theorem nomixE : noMixed xsE ysE = true := by decide +kernel
theorem nomixE' : ∀ x ∈ xsE, ∀ y ∈ ysE, mixedPair x y = false := by decide +kernel

-- two hunks, both inside the elements: `@ [0,"a"] - "u" + "v"` and `@ [1,1] "p" + "q" ]`
#eval diffM [] (.arr .raw xsE) (.arr .raw ysE)

/-- `diffM_same_kind_containers` applies to a concrete pair -/
example : diffM [] (.arr .raw xsE) (.arr .raw ysE) =
    ((xsE.zip ysE).zipIdx).flatMap (fun q => diffNode [] false q.1.1 q.1.2 [.idx (q.2 : Int)]) :=
  diffM_same_kind_containers rfl rfl xsE ysE rfl rfl (.inl rfl) same nomixE apart

/-- `diffM_array_hunks`: the only hypothesis on the elements is "no typed list against a plain array" -/
example := diffM_array_hunks (o := []) rfl rfl (t := .raw) (t' := .raw) xsE ysE rfl rfl (.inl rfl) nomixE'

/-- `diffM_hunk_shape_all_levels`: the documents are raw -/
example : (Json.arr .raw xsE).rawDoc = true ∧ (Json.arr .raw ysE).rawDoc = true := by decide +kernel

theorem lcsE : lcsValues (hashList [] xsE) (hashList [] ysE) = [] :=
  lcsValues_nil_of_apart [] xsE ysE apart

/-- `diffM_recurses_at` at the SECOND position of the walk (index 1: `["p"]` against `["p","q"]`) -/
example : ∃ (D1 D2 : Diff) (preA preB : List Json),
    xsE = preA ++ Json.arr .raw [.str "p"] :: [] ∧
    ysE = preB ++ Json.arr .raw [.str "p", .str "q"] :: [] ∧
    diffM [] (.arr .raw xsE) (.arr .raw ysE) =
      D1 ++ diffNode [] false (.arr .raw [.str "p"]) (.arr .raw [.str "p", .str "q"])
        [.idx (preB.length : Int)] ++ D2 ∧
    (∀ h ∈ diffNode [] false (.arr .raw [.str "p"]) (.arr .raw [.str "p", .str "q"])
        [.idx (preB.length : Int)], isTop [] h = false) ∧
    (removedTop [] D1).Sublist preA ∧ (addedTop [] D1).Sublist preB ∧
    (removedTop [] D2).Sublist [] ∧ (addedTop [] D2).Sublist [] := by
  have h0 : Reach [] xsE ysE (lcsValues (hashList [] xsE) (hashList [] ysE)) xsE ysE [] := by
    have := Reach.start (o := []) (a0 := xsE) (b0 := ysE)
      (c0 := lcsValues (hashList [] xsE) (hashList [] ysE))
    rw [lcsE] at this ⊢
    exact this
  have h1 := Reach.sub h0 rfl rfl (by decide +kernel)
  exact diffM_recurses_at rfl rfl xsE ysE rfl rfl (.inl rfl) (by decide +kernel) (by decide +kernel)
    h1 rfl rfl (by decide +kernel) (by decide +kernel)

/-- `diffRest_recurses_at` with a NON-empty common sequence: `["k", X]` against `["k", Y]` -/
theorem reachK : Reach [] (.str "k" :: xsE) (.str "k" :: ysE) [hashCode [] (.str "k")] xsE ysE [] :=
  Reach.both Reach.start (by simp [atC]) (by simp [atC])

example := diffRest_recurses_at (o := []) rfl [] (xs := .str "k" :: xsE) (ys := .str "k" :: ysE)
  (by decide +kernel) (by decide +kernel) reachK rfl rfl (by decide +kernel) (by decide +kernel)

theorem goodX : GoodL xsE := ⟨by decide +kernel, by decide +kernel, by decide +kernel, by decide +kernel⟩
theorem goodY : GoodL ysE := ⟨by decide +kernel, by decide +kernel, by decide +kernel, by decide +kernel⟩

/-- `diffM_located_containers`: the hypotheses hold (there is no number at all) -/
example : GoodL xsE ∧ GoodL ysE ∧ NumHashOK [] (subtermsList xsE) (subtermsList ysE) := by
  refine ⟨goodX, goodY, ?_⟩
  intro u v hu
  simp [xsE, subtermsList, subterms, subtermsKvs] at hu

/-- `diffM_top_removes_adds_le`: the arrays are list documents -/
example : listDocList xsE = true ∧ listDocList ysE = true := by decide +kernel

/-- the context theorems: the three-hunk example of `DPL.Example` (one hunk inside a nested list)
    satisfies the hypotheses of `diffM_context_all_levels` -/
example (L : FloatLaws) (D1 : Diff) (h : Hunk) (D2 : Diff)
    (hd : diffM [] DPL.Example.exA DPL.Example.exB = D1 ++ h :: D2) (i : Int)
    (hlast : h.path.getLast? = some (.idx i)) :
    ∃ (m : Json) (t : Tag) (l : List Json), applyStrictAll DPL.Example.exA D1 = some m ∧
      Real.getAt m h.path.dropLast = some (.arr t l) ∧ 0 ≤ i ∧ CtxIsNeighbours l i.toNat h := by
  obtain ⟨_, h2, h3, h4, _, h6, h7, h8, h9, h10⟩ := DPL.Example.hyps L
  exact diffM_context_all_levels L [] rfl rfl _ _ (by decide +kernel) h2 h3 h4 (by decide +kernel) h6 h7 h8
    h9 h10 D1 h D2 hd i hlast

/-- … and those of `diffM_hunk_applies` / `diffM_context_is_neighbours` (list documents) -/
example (L : FloatLaws) (D1 : Diff) (h : Hunk) (D2 : Diff)
    (hd : diffM [] DPL.Example.exA DPL.Example.exB = D1 ++ h :: D2) :
    ∃ m m', applyStrictAll DPL.Example.exA D1 = some m ∧ applyStrict m h.path h = some m' := by
  obtain ⟨h1, h2, h3, h4, h5, h6, h7, h8, h9, h10⟩ := DPL.Example.hyps L
  obtain ⟨m, m', g1, g2, _⟩ :=
    diffM_hunk_applies L [] rfl rfl _ _ h1 h2 h3 h4 h5 h6 h7 h8 h9 h10 D1 h D2 hd
  exact ⟨m, m', g1, g2⟩

/-! ### why `noMixed` / `mixedPair … = false` is a hypothesis of the statements that speak of the
  sub-diff `diffNode o false x y …` literally

  A typed `jsonList` element against a plain `jsonArray` element: same-kind containers, the
  sub-diff is ONE wholesale hunk at the element's own path, and the end block of `diffRest`
  (`subAfter`) gives it the after-context (here the array-end marker): the diff is not the bare
  concatenation of the sub-diffs. -/

def xsM : List Json := [.arr .list [.bool true]]
def ysM : List Json := [.arr .raw [.bool false]]

theorem mixed_not_concatenation :
    sameKinds [] xsM ysM = true ∧ (∀ x ∈ xsM, ∀ y ∈ ysM, hashCode [] x ≠ hashCode [] y) ∧
    noMixed xsM ysM = false ∧
    diffM [] (.arr .raw xsM) (.arr .raw ysM) =
      [{ path := [.idx 0], remove := [.arr .list [.bool true]], add := [.arr .raw [.bool false]],
         after := [.void] }] ∧
    ((xsM.zip ysM).zipIdx).flatMap (fun q => diffNode [] false q.1.1 q.1.2 [.idx (q.2 : Int)]) =
      [{ path := [.idx 0], remove := [.arr .list [.bool true]], add := [.arr .raw [.bool false]] }] := by
  have hap : ∀ x ∈ xsM, ∀ y ∈ ysM, hashCode [] x ≠ hashCode [] y := by decide +kernel
  have e : ∀ p, diffNode [] false (.arr .list [.bool true]) (.arr .raw [.bool false]) p =
      [{ path := p, remove := [.arr .list [.bool true]], add := [.arr .raw [.bool false]] }] := by
    intro p
    rw [diffNode_arr_other (o := []) rfl _ _ rfl (.inr ⟨rfl, _, rfl⟩)]
    rfl
  refine ⟨by decide +kernel, hap, by decide +kernel, ?_, ?_⟩
  · rw [diffM]
    simp only [isMerge]
    rw [diffNode_arr_arr rfl xsM ysM rfl rfl (.inl rfl) [], lcsValues_nil_of_apart [] xsM ysM hap]
    simp only [xsM, ysM]
    rw [diffRest_cons]
    have s1 : sameContainerType [] (.arr .list [.bool true]) (.arr .raw [.bool false]) = true := rfl
    simp only [atC_nil, s1, Bool.and_self, Bool.false_eq_true, if_false, if_true, e,
      diffRest_nil_nil, subAfter_single]
    simp [accHunk, subAfterFires]
  · simp [xsM, ysM, List.zipIdx, e]

/-! ### why well-formedness (unique keys) is a hypothesis of the context theorems

  OUTSIDE the domain (an object with a duplicate key, which a Go map cannot hold): the two objects
  below have different hash codes and an EMPTY sub-diff, `diffRest` then takes the after-context of
  the accumulated hunk from the position AFTER the object (`if sub.isEmpty then a'.headD .void`),
  here the end of the array, while the element following the removed `"p"` is the object: the
  context line is not the neighbour and the reference interpreter rejects the hunk. Inside the
  domain this branch is never taken (`diff_empty_hash'`, `LOpt.heads_ne`). -/

def xw : List Json := [.str "p", .obj [("a", .str "u")]]
def yw : List Json := [.str "q", .obj [("a", .str "u"), ("a", .str "v")]]

theorem apartw : ∀ x ∈ xw, ∀ y ∈ yw, hashCode [] x ≠ hashCode [] y := by decide +kernel

theorem nonwf_diff : diffM [] (.arr .raw xw) (.arr .raw yw) =
    [{ path := [.idx 0], before := [.void], remove := [.str "p"], add := [.str "q"],
       after := [.void] }] := by
  rw [diffM]
  simp only [isMerge]
  rw [diffNode_arr_arr rfl xw yw rfl rfl (.inl rfl) [], lcsValues_nil_of_apart [] xw yw apartw]
  simp only [xw, yw]
  rw [diffRest_cons]
  have s1 : sameContainerType [] (.str "p") (.str "q") = false := by decide +kernel
  simp only [atC_nil, s1, Bool.and_self, Bool.false_eq_true, if_false, List.nil_append]
  rw [diffRest_cons]
  have s2 : sameContainerType [] (.obj [("a", .str "u")])
      (.obj [("a", .str "u"), ("a", .str "v")]) = true := by decide +kernel
  have e : diffNode [] false (.obj [("a", .str "u")]) (.obj [("a", .str "u"), ("a", .str "v")])
      ([] ++ [.idx ((0 + 1 : Nat) : Int)]) = [] := by
    rw [diffNode_obj_obj, diffKvs_cons, diffKvs_nil]
    simp [alookup, diffNode_scalar, diffCommon, equals]
  simp only [atC_nil, s2, Bool.and_self, Bool.false_eq_true, if_false, if_true, e,
    List.isEmpty_nil, diffRest_nil_nil, subAfter_nil]
  simp [accHunk]

/-- the after-context `void` is not the neighbour `{"a":"u"}`: the hunk is rejected -/
theorem nonwf_context_not_neighbour :
    (Json.arr .raw yw).wf = false ∧
    applyStrictAll (.arr .raw xw) (diffM [] (.arr .raw xw) (.arr .raw yw)) = none := by
  refine ⟨by decide +kernel, ?_⟩
  rw [nonwf_diff]
  simp [applyStrictAll, applyStrict, splice, xw, prefixEq, beforeOk, afterOk, specEq, equivB,
    Json.isVoid]

end Example

end Jd.Rec

#print axioms Jd.Rec.diffM_same_kind_containers
#print axioms Jd.Rec.diffM_same_kind_containers_mem
#print axioms Jd.Rec.diffRest_classify
#print axioms Jd.Rec.diffM_array_hunks
#print axioms Jd.Rec.sub_hunk_not_array_level
#print axioms Jd.Rec.diffM_hunk_shape_all_levels
#print axioms Jd.Rec.sub_diff_strictly_inside
#print axioms Jd.Rec.diffM_hunk_applies
#print axioms Jd.Rec.diffM_context_is_neighbours
#print axioms Jd.Rec.diffM_context_all_levels
#print axioms Jd.Rec.diffRest_recurses_at
#print axioms Jd.Rec.diffM_recurses_at
#print axioms Jd.Rec.diffM_recurses_at_whole
#print axioms Jd.Rec.diffM_top_removes_adds_le
#print axioms Jd.Rec.diffRest_located_containers
#print axioms Jd.Rec.diffNode_located_containers
#print axioms Jd.Rec.diffM_located_containers
#print axioms Jd.Rec.Example.mixed_not_concatenation
#print axioms Jd.Rec.Example.nonwf_diff
#print axioms Jd.Rec.Example.nonwf_context_not_neighbour
