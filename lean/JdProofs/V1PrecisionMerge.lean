/-
  JdProofs.V1PrecisionMerge — C17 for the v1 library, MERGE metadata COMBINED WITH a precision
  (`SetPrecision(eps)`, any finite non-negative `eps`), list reading of arrays (no SET, no MULTISET).

  Port of JdProofs.V1MergeRender §3–6 and JdProofs.V1SetDiffPatch Part 1 / MergeText (both stated for
  precision 0) with "structurally equal" replaced by "`Equal` under the metadata". `Merge.dl`
  compares with the v2 `equals`; the v1 diff compares with `V1.equals m` (precision included), so the
  pure diff is re-defined here (`dlp m`).

  MAIN THEOREMS (`PMergeMode m`: MERGE, no SET, no MULTISET, `nonnegBits (precOf m)`)
    * `v1_merge_diff_patch_precision` (FloatLaws): a, b as read from text, b void-free with finite
      numbers ⟹ `patchM a (diffM m a b) = .ok r`, `V1.equals m r b`, `r.listDoc`.
    * `v1_merge_diff_empty_iff_equals_precision` (no float law, no finiteness):
      `diffM m a b = [] ↔ V1.equals m a b`; general form `..._anyprec` for ANY precision value.
    * `v1_text_roundtrip_merge_precision`: the same through `Render` / `ReadDiffString`.
    * `diffM_eq_dlp`: the v1 merge diff is `dlp m a b` mapped through `vh`.
  WITNESSES (relative to the float facts, `#eval`ed in `Example`)
    * `Witness.precNN_needed_merge`: `precNN` cannot be dropped (eps = -1).
    * `Witness.merge_result_not_structural`: the result is NOT `specEq` to `b` (1, 1.05, eps 0.1).
    * `Example.mA`, `Example.mB`: a pair satisfying every hypothesis where members of `a` survive.
-/
import JdProofs.V1SetDiffPatch
import JdProofs.V1Precision

namespace Jd.V1PM
open Jd Jd.Spec Jd.Merge Jd.V1M

/-! ## 0. the metadata -/

/-- MERGE, no SET, no MULTISET, and the precision (first precision metadata, +0 when there is none)
    is a finite non-negative float64; a `setkeys` metadata is allowed -/
structure PMergeMode (m : V1.Metas) : Prop where
  merge : V1.hasMerge m = true
  noSet : V1.hasSet m = false
  noMset : V1.hasMset m = false
  precNN : nonnegBits (V1.precOf m) = true

/-- the same as a Bool -/
def pMergeModeB (m : V1.Metas) : Bool :=
  V1.hasMerge m && !V1.hasSet m && !V1.hasMset m && nonnegBits (V1.precOf m)

theorem pMergeMode_iff (m : V1.Metas) : PMergeMode m ↔ pMergeModeB m = true := by
  simp only [pMergeModeB, Bool.and_eq_true, Bool.not_eq_true']
  exact ⟨fun h => ⟨⟨⟨h.merge, h.noSet⟩, h.noMset⟩, h.precNN⟩,
    fun h => ⟨h.1.1.1, h.1.1.2, h.1.2, h.2⟩⟩

instance (m : V1.Metas) : Decidable (PMergeMode m) := decidable_of_iff _ (pMergeMode_iff m).symm

/-- the array reading only (what the unfolding lemmas need): no SET, no MULTISET -/
structure LR (m : V1.Metas) : Prop where
  noSet : V1.hasSet m = false
  noMset : V1.hasMset m = false

theorem PMergeMode.lr {m : V1.Metas} (hm : PMergeMode m) : LR m := ⟨hm.noSet, hm.noMset⟩

theorem LR.tag {m : V1.Metas} (hm : LR m) : V1.dispatchTag m = .list := by
  simp [V1.dispatchTag, hm.noSet, hm.noMset]

theorem PMergeMode.tag {m : V1.Metas} (hm : PMergeMode m) : V1.dispatchTag m = .list := hm.lr.tag

/-- `MergeMode` (precision 0) is a special case -/
theorem PMergeMode.of_mergeMode {m : V1.Metas} (hm : MergeMode m) : PMergeMode m :=
  ⟨hm.merge, hm.noSet, hm.noMset, by rw [hm.prec0]; exact DPL.nonnegBits_zero⟩

theorem PMergeMode.mk' (eps : UInt64) (h : nonnegBits eps = true) : PMergeMode [.merge, .prec eps] :=
  ⟨rfl, rfl, rfl, h⟩

/-- the metadata list with the same precision and nothing else: `Equals` cannot tell it from `m` -/
def pm (m : V1.Metas) : V1.Metas := [.prec (V1.precOf m)]

theorem equals_pm {m : V1.Metas} (hm : LR m) (a b : Json) :
    V1.equals m a b = V1.equals (pm m) a b :=
  V1S.equals_congr (m' := pm m) (hm.tag.trans rfl) rfl a b

theorem pm_lr (m : V1.Metas) : V1Pr.ListReading (pm m) := V1Pr.ListReading.prec _

theorem pm_prec {m : V1.Metas} (hm : PMergeMode m) : V1Pr.PrecMode (pm m) :=
  V1Pr.PrecMode.prec _ hm.precNN

/-! ## 1. `Equals` under the metadata, list reading -/

theorem effTag_ok {m : V1.Metas} (hm : LR m) {t : Tag} (ht : okTag t) :
    V1.effTag m t = .list := by
  cases t <;> simp_all [V1.effTag, hm.tag, okTag]

theorem dispatch_listDoc {m : V1.Metas} (hm : LR m) {b : Json} (hb : b.listDoc = true) :
    (V1.dispatch m b).listDoc = true := by
  cases b with
  | arr t ys => cases t <;> simp_all [V1.dispatch, hm.tag, Json.listDoc]
  | _ => simpa [V1.dispatch] using hb

theorem dispatch_idem {m : V1.Metas} (hm : LR m) (b : Json) :
    V1.dispatch m (V1.dispatch m b) = V1.dispatch m b := by
  cases b with
  | arr t ys => cases t <;> simp [V1.dispatch, hm.tag]
  | _ => rfl

theorem equals_arr {m : V1.Metas} (hm : LR m) {t : Tag} (ht : okTag t) (xs : List Json)
    (b : Json) :
    V1.equals m (.arr t xs) b =
      match b with
      | .arr .raw ys => V1.equalsList m xs ys
      | .arr .list ys => V1.equalsList m xs ys
      | _ => false := by
  rw [V1.equals.eq_def]
  simp only [effTag_ok hm ht]
  cases b with
  | arr t' ys => cases t' <;> simp [V1.dispatch, hm.tag]
  | _ => simp [V1.dispatch]

theorem equals_dispatch {m : V1.Metas} (hm : LR m) (x y : Json) :
    V1.equals m x (V1.dispatch m y) = V1.equals m x y := by
  cases x with
  | arr t xs => rw [V1.equals.eq_def, V1.equals.eq_def]; simp only [dispatch_idem hm]
  | obj kvs =>
    cases y with
    | arr t ys => cases t <;> simp [V1.dispatch, V1.equals]
    | _ => rfl
  | _ =>
    cases y with
    | arr t ys => cases t <;> simp [V1.dispatch, V1.equals, Json.isVoid, Json.isNull]
    | _ => rfl

/-- reflexivity of `Equals` under a merge + precision metadata -/
theorem equals_refl (L : FloatLaws) {m : V1.Metas} (hm : PMergeMode m) (a : Json)
    (h1 : a.listDoc = true) (h2 : a.wf = true) (h3 : a.finiteNums = true) :
    V1.equals m a a = true := by
  rw [equals_pm hm.lr]; exact V1Pr.v1_equals_refl L (pm_prec hm) a h1 h2 h3

/-! ## 2. unfolding equations of the v1 diff, merge strategy, list reading, any precision -/

theorem diffNode_arr_arr {m : V1.Metas} (hm : LR m) {t' : Tag} (xs ys : List Json)
    (ht' : okTag t') (p : List Json) :
    V1.diffNode m true (.arr .raw xs) (.arr t' ys) p =
      if V1.equalsList m xs ys then
        (if xs.length < ys.length then
          (V1.diffElems m true p 0 ys xs).flatten ++ (ys.drop xs.length).map (fun y =>
            { path := p ++ [V1.numNeg1], old := [], new := y.nodeList })
        else
          ((xs.drop ys.length).zipIdx ys.length).reverse.map (fun xi =>
            { path := p ++ [V1.numOfNat xi.2], old := xi.1.nodeList, new := [] }) ++
          (V1.diffElems m true p 0 ys xs).reverse.flatten)
      else [whole p (.arr .list ys)] := by
  rw [V1.diffNode.eq_def]
  have he : V1.equals m (.arr .list xs) (.arr .list ys) = V1.equalsList m xs ys := by
    rw [equals_arr hm (t := .list) rfl]
  have hd : V1.dispatch m (.arr t' ys) = .arr .list ys := by
    cases t' <;> simp_all [V1.dispatch, hm.tag, okTag]
  simp only [effTag_ok hm (t := .raw) rfl, beq_self_eq_true, if_true, hd, he, Bool.true_and]
  cases V1.equalsList m xs ys <;> simp [whole, Json.nodeList, Json.isVoid]

theorem diffNode_arr_other {m : V1.Metas} (hm : LR m) (xs : List Json) (b : Json)
    (hb : ∀ t' ys, b ≠ .arr t' ys) (p : List Json) :
    V1.diffNode m true (.arr .raw xs) b p = [whole p b] := by
  rw [V1.diffNode.eq_def]
  simp only [effTag_ok hm (t := .raw) rfl]
  cases b <;> simp_all [V1.dispatch, whole]

/-! ### equal documents have an empty merge diff (whatever the path) -/

mutual
theorem empty_node {m : V1.Metas} (hm : LR m) :
    ∀ (a b : Json) (p : List Json), a.rawDoc = true → a.wf = true → b.listDoc = true →
      b.wf = true → V1.equals m a b = true → V1.diffNode m true a b p = []
  | .arr t xs, b, p, hr, hw, hl, hwb, he => by
    simp only [Json.rawDoc, Bool.and_eq_true, beq_iff_eq] at hr
    obtain ⟨rfl, hrx⟩ := hr
    rw [equals_arr hm (t := .raw) rfl] at he
    cases b with
    | arr t' ys =>
      simp only [Json.listDoc, Bool.and_eq_true] at hl
      simp only [Json.wf] at hw hwb
      have he' : V1.equalsList m xs ys = true := by cases t' <;> simp_all
      rw [diffNode_arr_arr hm xs ys hl.1, he', if_pos rfl]
      have hlen := V1P.v1_equalsList_length m xs ys he'
      rw [if_neg (by omega), List.drop_of_length_le (by omega)]
      simp only [List.zipIdx_nil, List.reverse_nil, List.map_nil, List.nil_append]
      exact List.flatten_eq_nil_iff.2 (fun d hd =>
        empty_elems hm xs ys p 0 hrx hw hl.2 hwb he' d (List.mem_reverse.1 hd))
    | _ => simp at he
  | .obj kvs, b, p, hr, hw, hl, hwb, he => by
    cases b with
    | obj kvs' =>
      simp only [Json.rawDoc] at hr
      simp only [Json.listDoc] at hl
      simp only [Json.wf, Bool.and_eq_true] at hw hwb
      simp only [V1.equals, Bool.and_eq_true, beq_iff_eq] at he
      rw [diffNode_obj_obj, empty_kvs hm kvs kvs' p hr hw.2 hl hwb.2 he.2, List.nil_append,
        List.map_eq_nil_iff, V1P.filter_isNone_eq_nil_iff]
      exact subset_of_nodup_subset_length _ _ (keysSorted_nodup hw.1)
        (V1P.v1_equalsKvs_keys m kvs' kvs he.2) (by simp [he.1])
    | _ => simp [V1.equals] at he
  | .void, b, p, _, _, _, _, he => by
    rw [diffNode_scalar m _ b (by simp) (by simp), he]; rfl
  | .null, b, p, _, _, _, _, he => by
    rw [diffNode_scalar m _ b (by simp) (by simp), he]; rfl
  | .bool _, b, p, _, _, _, _, he => by
    rw [diffNode_scalar m _ b (by simp) (by simp), he]; rfl
  | .num _, b, p, _, _, _, _, he => by
    rw [diffNode_scalar m _ b (by simp) (by simp), he]; rfl
  | .str _, b, p, _, _, _, _, he => by
    rw [diffNode_scalar m _ b (by simp) (by simp), he]; rfl
theorem empty_kvs {m : V1.Metas} (hm : LR m) :
    ∀ (kvs kvs' : List (String × Json)) (p : List Json), rawDocKvs kvs = true → wfKvs kvs = true →
      listDocKvs kvs' = true → wfKvs kvs' = true → V1.equalsKvs m kvs kvs' = true →
      V1.diffKvs m true p kvs' kvs = []
  | [], kvs', p, _, _, _, _, _ => diffKvs_nil m p kvs'
  | (k, v) :: r, kvs', p, hr, hw, hl, hwb, he => by
    simp only [rawDocKvs, wfKvs, Bool.and_eq_true] at hr hw
    rw [V1.equalsKvs, Bool.and_eq_true] at he
    rw [diffKvs_cons, empty_kvs hm r kvs' p hr.2 hw.2 hl hwb he.2, List.append_nil]
    cases hlk : alookup k kvs' with
    | none => rw [hlk] at he; simp at he
    | some v' =>
      rw [hlk] at he
      exact empty_node hm v v' _ hr.1 hw.1 (alookup_listDoc hlk hl) (alookup_wf hlk hwb) he.1
theorem empty_elems {m : V1.Metas} (hm : LR m) :
    ∀ (xs ys : List Json) (p : List Json) (i : Nat), rawDocList xs = true → wfList xs = true →
      listDocList ys = true → wfList ys = true → V1.equalsList m xs ys = true →
      ∀ d ∈ V1.diffElems m true p i ys xs, d = []
  | [], ys, p, i, _, _, _, _, _ => by simp [diffElems_nil]
  | x :: xs, [], p, i, _, _, _, _, he => by simp [V1.equalsList] at he
  | x :: xs, y :: ys, p, i, hr, hw, hl, hwb, he => by
    simp only [rawDocList, wfList, listDocList, Bool.and_eq_true] at hr hw hl hwb
    simp only [V1.equalsList, Bool.and_eq_true] at he
    rw [diffElems_cons, List.forall_mem_cons]
    refine ⟨?_, empty_elems hm xs ys p (i + 1) hr.2 hw.2 hl.2 hwb.2 he.2⟩
    exact empty_node hm x (V1.dispatch m y) _ hr.1 hw.1 (dispatch_listDoc hm hl.1)
      (by rw [V1P.dispatch_wf]; exact hwb.1) (by rw [equals_dispatch hm]; exact he.1)
end

/-! ## 3. the v1 merge diff with a precision, purely -/

mutual
/-- `V1.diffNode m true a b p` on documents as read from text, list reading: relative key paths and
    bare values (`void` = delete). Every comparison is the v1 `Equals` WITH the metadata (precision
    included) — this is where it differs from `Merge.dl`. -/
def dlp (m : V1.Metas) : Json → Json → List (List String × Json)
  | .obj kvs, b =>
    match b with
    | .obj kvs' =>
      dlpKvs m kvs' kvs ++
        (kvs'.filter (fun kv => (alookup kv.1 kvs).isNone)).map (fun kv => ([kv.1], kv.2))
    | _ => [([], b)]
  | .arr _ xs, b =>
    match b with
    | .arr _ ys => if V1.equalsList m xs ys then [] else [([], .arr .list ys)]
    | _ => [([], b)]
  | a, b => if V1.equals m a b then [] else [([], b)]
def dlpKvs (m : V1.Metas) (kvs' : List (String × Json)) :
    List (String × Json) → List (List String × Json)
  | [] => []
  | (k, v) :: r =>
    (match alookup k kvs' with
     | some v' => (dlp m v v').map (consE k)
     | none => [([k], .void)]) ++ dlpKvs m kvs' r
end

theorem dlp_obj_obj (m : V1.Metas) (kvs kvs' : List (String × Json)) :
    dlp m (.obj kvs) (.obj kvs') = dlpKvs m kvs' kvs ++
      (kvs'.filter (fun kv => (alookup kv.1 kvs).isNone)).map (fun kv => ([kv.1], kv.2)) := by
  simp [dlp]

theorem dlp_obj_other (m : V1.Metas) (kvs : List (String × Json)) {b : Json}
    (hb : b.isObj = false) : dlp m (.obj kvs) b = [([], b)] := by
  cases b <;> simp_all [dlp, Json.isObj]

theorem dlp_arr_arr (m : V1.Metas) (t t' : Tag) (xs ys : List Json) :
    dlp m (.arr t xs) (.arr t' ys)
      = if V1.equalsList m xs ys then [] else [([], .arr .list ys)] := by
  simp [dlp]

theorem dlp_arr_other (m : V1.Metas) (t : Tag) (xs : List Json) {b : Json} (hb : isArr b = false) :
    dlp m (.arr t xs) b = [([], b)] := by
  cases b <;> simp_all [dlp, isArr]

theorem dlp_scalar (m : V1.Metas) {a : Json} (h1 : a.isObj = false) (h2 : isArr a = false)
    (b : Json) : dlp m a b = if V1.equals m a b then [] else [([], b)] := by
  cases a <;> simp_all [dlp, Json.isObj, isArr]

mutual
theorem diffNode_eq_dlp {m : V1.Metas} (hm : LR m) :
    ∀ (a b : Json) (q : List String), a.rawDoc = true → a.wf = true → b.listDoc = true →
      b.wf = true → objVoidFree b = true →
      V1.diffNode m true a b (q.map Json.str) = (dlp m a b).map (fun e => vh (q ++ e.1) e.2)
  | .obj kvs, b, q, ha, haw, hb, hbw, hv => by
    cases b with
    | obj kvs' =>
      simp only [Json.rawDoc, Json.listDoc, objVoidFree] at ha hb hv
      simp only [Json.wf, Bool.and_eq_true] at haw hbw
      simp only [diffNode_obj_obj, dlp_obj_obj, List.map_append]
      rw [diffKvs_eq_dlpKvs hm kvs' hb hbw.2 hv kvs q ha haw.2, V1M.additions_eq q kvs kvs' hv]
    | _ => rw [dlp_obj_other m kvs rfl, diffNode_obj_other m kvs _ (by simp)]; simp [whole_keys]
  | .arr t xs, b, q, ha, haw, hb, hbw, hv => by
    have ha0 := ha
    simp only [Json.rawDoc, Bool.and_eq_true, beq_iff_eq] at ha
    obtain ⟨rfl, hrx⟩ := ha
    cases b with
    | arr t' ys =>
      have hb0 := hb
      simp only [Json.listDoc, Bool.and_eq_true] at hb
      have h1 : V1.equals m (.arr .raw xs) (.arr t' ys) = V1.equalsList m xs ys := by
        rw [equals_arr hm (t := .raw) rfl]; cases t' <;> simp_all
      rw [dlp_arr_arr]
      cases he : V1.equalsList m xs ys with
      | true =>
        rw [empty_node hm _ _ _ ha0 haw hb0 hbw (h1.trans he)]; rfl
      | false =>
        rw [diffNode_arr_arr hm xs ys hb.1, he]
        simp [whole_keys]
    | _ => rw [dlp_arr_other m _ xs rfl, diffNode_arr_other hm xs _ (by simp)]; simp [whole_keys]
  | .void, b, q, _, _, _, _, _ => by
    rw [diffNode_scalar m _ b (by simp) (by simp), dlp_scalar m rfl rfl]
    split <;> simp [whole_keys]
  | .null, b, q, _, _, _, _, _ => by
    rw [diffNode_scalar m _ b (by simp) (by simp), dlp_scalar m rfl rfl]
    split <;> simp [whole_keys]
  | .bool _, b, q, _, _, _, _, _ => by
    rw [diffNode_scalar m _ b (by simp) (by simp), dlp_scalar m rfl rfl]
    split <;> simp [whole_keys]
  | .num _, b, q, _, _, _, _, _ => by
    rw [diffNode_scalar m _ b (by simp) (by simp), dlp_scalar m rfl rfl]
    split <;> simp [whole_keys]
  | .str _, b, q, _, _, _, _, _ => by
    rw [diffNode_scalar m _ b (by simp) (by simp), dlp_scalar m rfl rfl]
    split <;> simp [whole_keys]
theorem diffKvs_eq_dlpKvs {m : V1.Metas} (hm : LR m) (kvs' : List (String × Json))
    (hb : listDocKvs kvs' = true) (hbw : wfKvs kvs' = true) (hv : objVoidFreeKvs kvs' = true) :
    ∀ (kvs : List (String × Json)) (q : List String), rawDocKvs kvs = true → wfKvs kvs = true →
      V1.diffKvs m true (q.map Json.str) kvs' kvs
        = (dlpKvs m kvs' kvs).map (fun e => vh (q ++ e.1) e.2)
  | [], q, _, _ => by rw [diffKvs_nil, dlpKvs]; rfl
  | (k, v) :: r, q, ha, haw => by
    simp only [rawDocKvs, wfKvs, Bool.and_eq_true] at ha haw
    rw [diffKvs_cons, dlpKvs]
    simp only [List.map_append]
    rw [diffKvs_eq_dlpKvs hm kvs' hb hbw hv r q ha.2 haw.2]
    congr 1
    cases hl : alookup k kvs' with
    | none => simp [whole_keys_snoc]
    | some v' =>
      have := diffNode_eq_dlp hm v v' (q ++ [k]) ha.1 haw.1 (alookup_listDoc hl hb)
        (alookup_wf hl hbw) (alookup_objVoidFree hl hv)
      simp only [List.map_append, List.map_cons, List.map_nil] at this
      simp only [this]
      simp [consE, Function.comp_def]
end

/-- the v1 merge diff under a merge + precision metadata is `dlp m`, hunk by hunk -/
theorem diffM_eq_dlp {m : V1.Metas} (hm : PMergeMode m) (a b : Json) (ha : a.rawDoc = true)
    (haw : a.wf = true) (hb : b.listDoc = true) (hbw : b.wf = true) (hv : objVoidFree b = true) :
    V1.diffM m a b = (dlp m a b).map (fun e => vh e.1 e.2) := by
  have hd := diffNode_eq_dlp hm.lr a b [] ha haw hb hbw hv
  simp only [List.map_nil, List.nil_append] at hd
  rw [V1.diffM, hm.merge, hd]

/-! ### an empty pure diff means `Equal` (no float law needed) -/

mutual
theorem dlp_nil {m : V1.Metas} (hm : LR m) :
    ∀ (a b : Json), a.rawDoc = true → a.wf = true → b.listDoc = true → b.wf = true →
      dlp m a b = [] → V1.equals m a b = true
  | .obj kvs, b, hr, hw, hl, hwb, hd => by
    cases b with
    | obj kvs' =>
      simp only [Json.rawDoc] at hr
      simp only [Json.listDoc] at hl
      simp only [Json.wf, Bool.and_eq_true] at hw hwb
      rw [dlp_obj_obj, List.append_eq_nil_iff, List.map_eq_nil_iff,
        V1P.filter_isNone_eq_nil_iff] at hd
      have hk := dlpKvs_nil hm kvs' hl hwb.2 kvs hr hw.2 hd.1
      have h1 := DPL.nodup_subset_length_le _ _ (keysSorted_nodup hw.1)
        (V1P.v1_equalsKvs_keys m kvs' kvs hk)
      have h2 := DPL.nodup_subset_length_le _ _ (keysSorted_nodup hwb.1) hd.2
      simp only [List.length_map] at h1 h2
      simp only [V1.equals, Bool.and_eq_true, beq_iff_eq]
      exact ⟨by omega, hk⟩
    | _ => rw [dlp_obj_other m kvs rfl] at hd; cases hd
  | .arr t xs, b, hr, hw, hl, hwb, hd => by
    simp only [Json.rawDoc, Bool.and_eq_true, beq_iff_eq] at hr
    obtain ⟨rfl, _⟩ := hr
    cases b with
    | arr t' ys =>
      simp only [Json.listDoc, Bool.and_eq_true] at hl
      rw [dlp_arr_arr] at hd
      have he : V1.equalsList m xs ys = true := by
        cases h : V1.equalsList m xs ys with
        | true => rfl
        | false => rw [h] at hd; simp at hd
      rw [equals_arr hm (t := .raw) rfl]
      cases t' <;> simp_all
    | _ => rw [dlp_arr_other m _ xs rfl] at hd; cases hd
  | .void, b, _, _, _, _, hd => by
    rw [dlp_scalar m rfl rfl] at hd
    cases h : V1.equals m .void b with
    | true => rfl
    | false => rw [h] at hd; simp at hd
  | .null, b, _, _, _, _, hd => by
    rw [dlp_scalar m rfl rfl] at hd
    cases h : V1.equals m .null b with
    | true => rfl
    | false => rw [h] at hd; simp at hd
  | .bool x, b, _, _, _, _, hd => by
    rw [dlp_scalar m rfl rfl] at hd
    cases h : V1.equals m (.bool x) b with
    | true => rfl
    | false => rw [h] at hd; simp at hd
  | .num x, b, _, _, _, _, hd => by
    rw [dlp_scalar m rfl rfl] at hd
    cases h : V1.equals m (.num x) b with
    | true => rfl
    | false => rw [h] at hd; simp at hd
  | .str x, b, _, _, _, _, hd => by
    rw [dlp_scalar m rfl rfl] at hd
    cases h : V1.equals m (.str x) b with
    | true => rfl
    | false => rw [h] at hd; simp at hd
theorem dlpKvs_nil {m : V1.Metas} (hm : LR m) (kvs' : List (String × Json))
    (hl : listDocKvs kvs' = true) (hwb : wfKvs kvs' = true) :
    ∀ (kvs : List (String × Json)), rawDocKvs kvs = true → wfKvs kvs = true →
      dlpKvs m kvs' kvs = [] → V1.equalsKvs m kvs kvs' = true
  | [], _, _, _ => by simp [V1.equalsKvs]
  | (k, v) :: r, hr, hw, hd => by
    simp only [rawDocKvs, wfKvs, Bool.and_eq_true] at hr hw
    rw [dlpKvs, List.append_eq_nil_iff] at hd
    rw [V1.equalsKvs, Bool.and_eq_true]
    refine ⟨?_, dlpKvs_nil hm kvs' hl hwb r hr.2 hw.2 hd.2⟩
    cases hlk : alookup k kvs' with
    | none => rw [hlk] at hd; simp at hd
    | some v' =>
      rw [hlk] at hd
      exact dlp_nil hm v v' hr.1 hw.1 (alookup_listDoc hlk hl) (alookup_wf hlk hwb)
        (List.map_eq_nil_iff.1 hd.1)
end

/-! ## 4. applying the hunks of `dlp m a b` to `a` gives a document `Equal` to `b` -/

open Jd.V1S in
/-- reflexivity on the domain of the second document -/
theorem goodC_refl (L : FloatLaws) {m : V1.Metas} (hm : PMergeMode m) {b : Json} (G : V1S.GoodC b) :
    V1.equals m b b = true :=
  equals_refl L hm b G.listDoc G.wf G.fin

/-- the hunks for a key of the first object (values as they are: void = delete) -/
def grpP (m : V1.Metas) (kvs' : List (String × Json)) (k : String) (v : Json) :
    List (List String × Json) :=
  match alookup k kvs' with
  | some v' => dlp m v v'
  | none => [([], .void)]

def groupsP (m : V1.Metas) (kvs' kvs : List (String × Json)) :
    List (String × List (List String × Json)) :=
  kvs.map (fun kv => (kv.1, grpP m kvs' kv.1 kv.2))

theorem dlpKvs_groups (m : V1.Metas) (kvs' : List (String × Json)) :
    ∀ kvs : List (String × Json), dlpKvs m kvs' kvs = flatG (groupsP m kvs' kvs)
  | [] => by simp [dlpKvs, groupsP, flatG]
  | (k, v) :: r => by
    have ih := dlpKvs_groups m kvs' r
    rw [dlpKvs, ih]
    have : flatG (groupsP m kvs' ((k, v) :: r))
        = (grpP m kvs' k v).map (consE k) ++ flatG (groupsP m kvs' r) := by
      simp [flatG, groupsP]
    rw [this]
    congr 1
    unfold grpP
    cases alookup k kvs' with
    | none => simp [consE]
    | some v' => rfl

theorem dlp_obj_obj_groups (m : V1.Metas) (kvs kvs' : List (String × Json)) :
    dlp m (.obj kvs) (.obj kvs') = flatG (groupsP m kvs' kvs ++ groupsB kvs kvs') := by
  rw [dlp_obj_obj, dlpKvs_groups, V1S.additions_groups, flatG_append]

theorem groupsP_lookup (m : V1.Metas) (kvs kvs' : List (String × Json)) (j : String) :
    alookup j (groupsP m kvs' kvs ++ groupsB kvs kvs') = match alookup j kvs with
      | some v => some (grpP m kvs' j v)
      | none => (alookup j kvs').map (fun v' => [([], v')]) := by
  rw [alookup_append, groupsP, alookup_mapk (fun k v => grpP m kvs' k v) j kvs]
  cases hj : alookup j kvs with
  | some v => rfl
  | none =>
    simp only [Option.map_none]
    rw [groupsB, alookup_mapk (fun _ v => [(([] : List String), v)]) j,
      alookup_filter (fun k => (alookup k kvs).isNone) j kvs']
    simp [hj]

theorem groupsP_nodup (m : V1.Metas) {kvs kvs' : List (String × Json)}
    (hs : keysSorted kvs = true) (hs' : keysSorted kvs' = true) :
    ((groupsP m kvs' kvs ++ groupsB kvs kvs').map Prod.fst).Nodup := by
  have hA : (groupsP m kvs' kvs).map Prod.fst = kvs.map Prod.fst := by
    simp [groupsP, Function.comp_def]
  have hB : (groupsB kvs kvs').map Prod.fst
      = (kvs'.filter (fun kv => (alookup kv.1 kvs).isNone)).map Prod.fst := by
    simp [groupsB, Function.comp_def]
  rw [List.map_append, hA, hB, List.nodup_append]
  refine ⟨keysSorted_nodup hs, ?_, ?_⟩
  · exact (keysSorted_nodup hs').sublist (List.Sublist.map _ List.filter_sublist)
  · intro k hk k' hk' he
    subst he
    obtain ⟨⟨k1, v1⟩, hm1, rfl⟩ := List.mem_map.1 hk
    obtain ⟨⟨k2, v2⟩, hm2, he2⟩ := List.mem_map.1 hk'
    simp only at he2
    subst he2
    have := (List.mem_filter.1 hm2).2
    rw [alookup_of_mem hs hm1] at this
    simp at this

/-- what is proved of a pair of documents: the hunks of the pure merge diff, applied to the first
    document in sequence, give a list document `Equal` to the second UNDER THE METADATA -/
def Direct (m : V1.Metas) (a b : Json) : Prop :=
  V1.equals m (mapply (dlp m a b) a) b = true ∧ (mapply (dlp m a b) a).listDoc = true

theorem direct_single (L : FloatLaws) {m : V1.Metas} (hm : PMergeMode m) {a b : Json}
    (h : dlp m a b = [([], b)]) (G : V1S.GoodC b) : Direct m a b := by
  have : mapply (dlp m a b) a = b := by
    rw [h]; cases a <;> simp [mapply, mset]
  unfold Direct
  rw [this]
  exact ⟨goodC_refl L hm G, G.listDoc⟩

theorem direct_scalar (L : FloatLaws) {m : V1.Metas} (hm : PMergeMode m) {a b : Json}
    (h1 : a.isObj = false) (h2 : isArr a = false) (G : V1S.GoodC b) : Direct m a b := by
  have hd := dlp_scalar m h1 h2 b
  cases he : V1.equals m a b with
  | true =>
    rw [he, if_pos rfl] at hd
    unfold Direct
    rw [hd]
    refine ⟨by simpa [mapply] using he, ?_⟩
    cases a <;> simp_all [mapply, Json.listDoc, Json.isObj, isArr]
  | false =>
    rw [he] at hd
    exact direct_single L hm (by simpa using hd) G

mutual
theorem direct (L : FloatLaws) {m : V1.Metas} (hm : PMergeMode m) :
    ∀ (a : Json), a.wf = true → a.rawDoc = true → ∀ b : Json, V1S.GoodC b → Direct m a b
  | .obj kvs, hw, hr, b, G => by
    cases b with
    | obj kvs' =>
      simp only [Json.wf, Bool.and_eq_true] at hw
      simp only [Json.rawDoc] at hr
      have hs' : keysSorted kvs' = true := by
        have := G.wf; simp only [Json.wf, Bool.and_eq_true] at this; exact this.1
      -- an empty group only where the member is not void
      have hne : ∀ kg ∈ groupsP m kvs' kvs ++ groupsB kvs kvs', kg.2 = [] →
          alookup kg.1 kvs ≠ some .void := by
        intro kg hkg hnil hl
        rcases List.mem_append.1 hkg with hm' | hm'
        · simp only [groupsP, List.mem_map] at hm'
          obtain ⟨⟨k, v⟩, hkv, rfl⟩ := hm'
          have hv : v = .void := by
            have := alookup_of_mem hw.1 hkv
            simp only at hl
            rw [this] at hl
            cases hl; rfl
          subst hv
          simp only [grpP] at hnil
          cases hb : alookup k kvs' with
          | none => simp [hb] at hnil
          | some v' =>
            have hnv := (G.member hb).notVoid
            simp only [hb] at hnil
            rw [dlp_scalar m rfl rfl] at hnil
            simp [V1.equals, hnv] at hnil
        · simp only [groupsB, List.mem_map] at hm'
          obtain ⟨kv, _, rfl⟩ := hm'
          simp at hnil
      obtain ⟨acc', he, hsa, hl⟩ := mapply_groups (groupsP m kvs' kvs ++ groupsB kvs kvs') kvs
        hne (groupsP_nodup m hw.1 hs') hw.1
      -- member by member
      have key : ∀ j, (match alookup j kvs' with
            | none => alookup j acc' = none
            | some v' => ∃ z, alookup j acc' = some z ∧ V1.equals m z v' = true) ∧
          ∀ z, alookup j acc' = some z → z.listDoc = true := by
        intro j
        rw [hl j, groupsP_lookup]
        cases hja : alookup j kvs with
        | some v =>
          simp only [grpP]
          cases hjb : alookup j kvs' with
          | some v' =>
            have S := directKvs L hm kvs hw.2 hr j v hja v' (G.member hjb)
            have hnv : (mapply (dlp m v v') v).isVoid = false := by
              rw [V1Pr.v1_equals_isVoid m S.1]; exact (G.member hjb).notVoid
            simp only [getK, hja, Option.getD_some, toOpt, hnv, Bool.false_eq_true, if_false,
              Option.some.injEq]
            exact ⟨⟨_, rfl, S.1⟩, fun z hz => hz ▸ S.2⟩
          | none =>
            simp [mapply, mset, toOpt, Json.isVoid]
        | none =>
          cases hjb : alookup j kvs' with
          | none => simp
          | some v' =>
            have Gv := G.member hjb
            simp only [Option.map_some, mapply, List.foldl_cons, List.foldl_nil, mset, toOpt,
              Gv.notVoid, Bool.false_eq_true, if_false, Option.some.injEq]
            exact ⟨⟨_, rfl, goodC_refl L hm Gv⟩, fun z hz => hz ▸ Gv.listDoc⟩
      unfold Direct
      rw [dlp_obj_obj_groups, he]
      refine ⟨V1Pr.v1_equals_obj m hsa hs' (fun j => (key j).1), ?_⟩
      simp only [Json.listDoc]
      exact listDocKvs_of_mem (fun k v hm' => (key k).2 v (alookup_of_mem hsa hm'))
    | _ => exact direct_single L hm (dlp_obj_other m kvs rfl) G
  | .arr t xs, hw, hr, b, G => by
    cases b with
    | arr t' ys =>
      have hd := dlp_arr_arr m t t' xs ys
      have ht : t = .raw := by
        simp only [Json.rawDoc, Bool.and_eq_true, beq_iff_eq] at hr; exact hr.1
      have ht' : t' = .raw := by
        have := G.raw
        simp only [Json.rawDoc, Bool.and_eq_true, beq_iff_eq] at this; exact this.1
      subst ht; subst ht'
      have hys : listDocList ys = true := by
        have := G.listDoc
        simp only [Json.listDoc, Bool.and_eq_true] at this; exact this.2
      unfold Direct
      cases he : V1.equalsList m xs ys with
      | true =>
        rw [he, if_pos rfl] at hd
        rw [hd]
        refine ⟨?_, rawDoc_listDoc _ hr⟩
        simpa [mapply, equals_arr hm.lr (t := .raw) rfl] using he
      | false =>
        rw [he] at hd
        rw [show dlp m (.arr .raw xs) (.arr .raw ys) = [([], .arr .list ys)] by simpa using hd]
        have := goodC_refl L hm G
        rw [equals_arr hm.lr (t := .raw) rfl] at this
        refine ⟨?_, ?_⟩
        · simpa [mapply, mset, equals_arr hm.lr (t := .list) rfl] using this
        · simp [mapply, mset, Json.listDoc, hys]
    | _ => exact direct_single L hm (dlp_arr_other m t xs rfl) G
  | .void, _, _, b, G => direct_scalar L hm rfl rfl G
  | .null, _, _, b, G => direct_scalar L hm rfl rfl G
  | .bool _, _, _, b, G => direct_scalar L hm rfl rfl G
  | .num _, _, _, b, G => direct_scalar L hm rfl rfl G
  | .str _, _, _, b, G => direct_scalar L hm rfl rfl G
theorem directKvs (L : FloatLaws) {m : V1.Metas} (hm : PMergeMode m) :
    ∀ (kvs : List (String × Json)), wfKvs kvs = true → rawDocKvs kvs = true →
    ∀ k v, alookup k kvs = some v → ∀ b : Json, V1S.GoodC b → Direct m v b
  | [], _, _, k, v, h => by simp [alookup] at h
  | (k0, v0) :: r, hw, hr, k, v, h => by
    simp only [wfKvs, rawDocKvs, Bool.and_eq_true] at hw hr
    simp only [alookup] at h
    split at h
    · cases h; exact direct L hm v0 hw.1 hr.1
    · exact directKvs L hm r hw.2 hr.2 k v h
end

/-! ## 5. the theorems -/

/-- **C17, MERGE + precision, in memory.** For documents as read from JSON text (`rawDoc`, `wf`), the
    second one with finite numbers and no void member, and metadata `PMergeMode m` (MERGE, no SET, no
    MULTISET, a finite non-negative precision): `a.Patch(a.Diff(b, m...))` succeeds and the result
    `Equals` `b` UNDER THE METADATA, and is a list document. (It need not be structurally equal to
    `b`: see `Witness.merge_result_not_structural`.) `b` MAY contain nulls. -/
theorem v1_merge_diff_patch_precision (L : FloatLaws) {m : V1.Metas} (hm : PMergeMode m)
    (a b : Json) (haw : a.wf = true) (har : a.rawDoc = true)
    (hbw : b.wf = true) (hbr : b.rawDoc = true) (hbv : objVoidFree b = true)
    (hbf : b.finiteNums = true) :
    ∃ r, V1.patchM a (V1.diffM m a b) = .ok r ∧ V1.equals m r b = true ∧ r.listDoc = true := by
  have G : V1S.GoodC b := ⟨hbw, hbr, hbv, hbf⟩
  obtain ⟨h1, h2⟩ := direct L hm a haw har b G
  refine ⟨mapply (dlp m a b) a, ?_, h1, h2⟩
  rw [diffM_eq_dlp hm a b har haw G.listDoc hbw hbv, patchM_vh]

/-- the diff is empty exactly when the documents are `Equal` under the metadata — for ANY precision
    metadata (negative, NaN, infinite included): only MERGE and the list reading are used -/
theorem v1_merge_diff_empty_iff_equals_anyprec {m : V1.Metas} (hmg : V1.hasMerge m = true)
    (hm : LR m) (a b : Json) (haw : a.wf = true) (har : a.rawDoc = true)
    (hbw : b.wf = true) (hbr : b.rawDoc = true) (hbv : objVoidFree b = true) :
    V1.diffM m a b = [] ↔ V1.equals m a b = true := by
  constructor
  · intro h
    have hd := diffNode_eq_dlp hm a b [] har haw (rawDoc_listDoc b hbr) hbw hbv
    simp only [List.map_nil, List.nil_append] at hd
    rw [V1.diffM, hmg, hd, List.map_eq_nil_iff] at h
    exact dlp_nil hm a b har haw (rawDoc_listDoc b hbr) hbw h
  · intro h
    rw [V1.diffM, hmg]
    exact empty_node hm a b [] har haw (rawDoc_listDoc b hbr) hbw h

/-- **C17, MERGE + precision: the diff is empty exactly when the documents are `Equal` under the
    metadata.** (No float law and no finiteness hypothesis is needed for this half.) -/
theorem v1_merge_diff_empty_iff_equals_precision {m : V1.Metas} (hm : PMergeMode m)
    (a b : Json) (haw : a.wf = true) (har : a.rawDoc = true)
    (hbw : b.wf = true) (hbr : b.rawDoc = true) (hbv : objVoidFree b = true) :
    V1.diffM m a b = [] ↔ V1.equals m a b = true :=
  v1_merge_diff_empty_iff_equals_anyprec hm.merge hm.lr a b haw har hbw hbr hbv

/-! ## 6. witnesses (relative to the float facts they need: `numWithin` is opaque to the kernel) -/

namespace Witness

/-- **`precNN` cannot be dropped** from `v1_merge_diff_patch_precision`: with a precision `eps` such
    that `|x - x| ≤ eps` is false (any negative `eps`, e.g. -1.0 = 0xBFF0000000000000, or NaN),
    metadata `[MERGE, SetPrecision(eps)]`, the merge diff of `x` and `x` is the one hunk
    `@ [["MERGE"]] + x`, the patch applies and returns `x`, which is not `Equal` to `x` under the
    metadata. -/
theorem precNN_needed_merge (eps x : UInt64) (hneg : numWithin eps x x = false) :
    V1.diffM [.merge, .prec eps] (.num x) (.num x) = [vh [] (.num x)] ∧
    V1.patchM (.num x) (V1.diffM [.merge, .prec eps] (.num x) (.num x)) = .ok (.num x) ∧
    V1.equals [.merge, .prec eps] (.num x) (.num x) = false := by
  have he : V1.equals [.merge, .prec eps] (.num x) (.num x) = false := by
    simpa [V1.equals, V1.precOf] using hneg
  have hd : V1.diffM [.merge, .prec eps] (.num x) (.num x) = [vh [] (.num x)] := by
    simp only [V1.diffM, V1.hasMerge]
    rw [diffNode_scalar _ _ _ (fun _ _ h => by cases h) (fun _ h => by cases h), he]
    simpa using whole_keys [] (.num x)
  refine ⟨hd, ?_, he⟩
  rw [hd]
  exact patchM_vh [([], .num x)] (.num x)

/-- **the patched document is `Equal` to the target under the metadata, NOT structurally equal**:
    two numbers within `eps` of each other that are not equal (`1`, `1.05`, `eps = 0.1`) as the
    member `k` of two objects: the merge diff is EMPTY, the patch returns `a`; `a` `Equals` `b` with
    the metadata, and `specEq a b` is false. -/
theorem merge_result_not_structural (eps x y : UInt64) (h1 : numWithin eps x y = true)
    (h0 : numWithin 0 x y = false) :
    V1.diffM [.merge, .prec eps] (.obj [("k", .num x)]) (.obj [("k", .num y)]) = [] ∧
    V1.patchM (.obj [("k", .num x)])
      (V1.diffM [.merge, .prec eps] (.obj [("k", .num x)]) (.obj [("k", .num y)]))
        = .ok (.obj [("k", .num x)]) ∧
    V1.equals [.merge, .prec eps] (.obj [("k", .num x)]) (.obj [("k", .num y)]) = true ∧
    specEq (.obj [("k", .num x)]) (.obj [("k", .num y)]) = false := by
  have he : V1.equals [.merge, .prec eps] (.obj [("k", .num x)]) (.obj [("k", .num y)]) = true := by
    simp [V1.equals, V1.equalsKvs, alookup, V1.precOf, h1]
  have hd : V1.diffM [.merge, .prec eps] (.obj [("k", .num x)]) (.obj [("k", .num y)]) = [] :=
    (v1_merge_diff_empty_iff_equals_anyprec (m := [.merge, .prec eps]) rfl ⟨rfl, rfl⟩ _ _
      (by simp [Json.wf, wfKvs, keysSorted]) (by simp [Json.rawDoc, rawDocKvs])
      (by simp [Json.wf, wfKvs, keysSorted]) (by simp [Json.rawDoc, rawDocKvs])
      (by simp [objVoidFree, objVoidFreeKvs])).2 he
  refine ⟨hd, ?_, he, ?_⟩
  · rw [hd]; rfl
  · simp [specEq, equivB, equivKvs, alookup, precOf, h0]

end Witness

/-! ## 7. a pair satisfying every hypothesis, on which the precision matters -/

namespace Example

/-- `0.1` -/
def eps : UInt64 := 0x3FB999999999999A
/-- `-1.0` -/
def epsNeg : UInt64 := 0xBFF0000000000000
def one : Json := .num 0x3FF0000000000000
/-- `1.05` -/
def x105 : Json := .num 0x3FF0CCCCCCCCCCCD
def two : Json := .num 0x4000000000000000

/-- `{"a":1,"b":[1,2],"c":{"d":1,"e":null,"g":1},"l":[1,{"p":1}],"z":"s"}` -/
def mA : Json := .obj [("a", one), ("b", .arr .raw [one, two]),
  ("c", .obj [("d", one), ("e", .null), ("g", one)]),
  ("l", .arr .raw [one, .obj [("p", one)]]), ("z", .str "s")]
/-- `{"a":1.05,"b":[1.05,2],"c":{"d":2,"f":[1],"g":1.05},"l":[1.05,{"p":2}],"y":null}` -/
def mB : Json := .obj [("a", x105), ("b", .arr .raw [x105, two]),
  ("c", .obj [("d", two), ("f", .arr .raw [one]), ("g", x105)]),
  ("l", .arr .raw [x105, .obj [("p", two)]]), ("y", .null)]

-- the model on `mA` → `mB` with `[MERGE, SetPrecision(0.1)]`: six hunks (c.d := 2, c.e deleted,
-- c.f := [1], l := [1.05,{"p":2}] wholesale, z deleted, y := null); "a", "b" and "c.g" of the source
-- are within 0.1 of the target and STAY: the result is
-- `{"a":1,"b":[1,2],"c":{"d":2,"f":[1],"g":1},"l":[1.05,{"p":2}],"y":null}`,
-- `Equal` to `mB` under the metadata, not under `[MERGE]` alone, not `specEq`: (true, false, false)
#eval (V1.diffM [.merge, .prec eps] mA mB).map (fun h => (h.path, h.old, h.new))
#eval V1.patchM mA (V1.diffM [.merge, .prec eps] mA mB)
#eval match V1.patchM mA (V1.diffM [.merge, .prec eps] mA mB) with
  | .ok r => some (V1.equals [.merge, .prec eps] r mB, V1.equals [.merge] r mB, specEq r mB)
  | _ => none
-- the float facts of the witnesses: |1 - 1.05| ≤ 0.1, not ≤ 0; |1 - 1| ≤ -1 is false
#eval (numWithin eps 0x3FF0000000000000 0x3FF0CCCCCCCCCCCD,
       numWithin 0 0x3FF0000000000000 0x3FF0CCCCCCCCCCCD,
       numWithin epsNeg 0x3FF0000000000000 0x3FF0000000000000)

theorem eps_ok : PMergeMode [.merge, .prec eps] := PMergeMode.mk' eps (by decide)
theorem eps_ok' : PMergeMode [.prec eps, .setkeys ["id"], .merge] := by decide
theorem epsNeg_not_ok : ¬ PMergeMode [.merge, .prec epsNeg] := by decide

set_option maxRecDepth 8000 in
theorem hyps :
    mA.wf = true ∧ mA.rawDoc = true ∧ mB.wf = true ∧ mB.rawDoc = true ∧
    objVoidFree mB = true ∧ mB.finiteNums = true := by
  decide

/-- non-vacuity of `v1_merge_diff_patch_precision` -/
example (L : FloatLaws) :
    ∃ r, V1.patchM mA (V1.diffM [.merge, .prec eps] mA mB) = .ok r ∧
      V1.equals [.merge, .prec eps] r mB = true ∧ r.listDoc = true :=
  v1_merge_diff_patch_precision L eps_ok mA mB hyps.1 hyps.2.1 hyps.2.2.1 hyps.2.2.2.1
    hyps.2.2.2.2.1 hyps.2.2.2.2.2

/-- non-vacuity of `v1_merge_diff_empty_iff_equals_precision` -/
example : V1.diffM [.merge, .prec eps] mA mB = [] ↔ V1.equals [.merge, .prec eps] mA mB = true :=
  v1_merge_diff_empty_iff_equals_precision eps_ok mA mB hyps.1 hyps.2.1 hyps.2.2.1 hyps.2.2.2.1
    hyps.2.2.2.2.1

/-- … and of the general form, at the NEGATIVE precision -/
example :
    V1.diffM [.merge, .prec epsNeg] mA mB = [] ↔ V1.equals [.merge, .prec epsNeg] mA mB = true :=
  v1_merge_diff_empty_iff_equals_anyprec rfl ⟨rfl, rfl⟩ mA mB hyps.1 hyps.2.1 hyps.2.2.1
    hyps.2.2.2.1 hyps.2.2.2.2.1

end Example

/-! ## 8. through the text (`Render`, then `ReadDiffString`) -/

section Text
open Jd.V1S

/-- under the list reading `Equals` does not see the Go dynamic type of the array nodes of its
    first argument -/
theorem equals_untag_left {m : V1.Metas} (hm : LR m) {r r' b : Json} (hr : r.listDoc = true)
    (hr' : r'.listDoc = true) (hb : b.listDoc = true) (hu : untag r = untag r') :
    V1.equals m r b = V1.equals m r' b := by
  rw [equals_pm hm, equals_pm hm, V1Pr.v1_equals_eq_equivB (pm_lr m) hr hb,
    V1Pr.v1_equals_eq_equivB (pm_lr m) hr' hb,
    ← equivB_untag_left _ (V1Pr.optsOf_tag (pm m)) r, hu,
    equivB_untag_left _ (V1Pr.optsOf_tag (pm m))]

/-- **C17, MERGE + precision, through the text**: the rendered v1 merge diff is read back as the
    diff with its values untagged (a replaced array comes back as a plain `jsonArray`), and patching
    `a` with the diff read back yields a list document that `Equals` `b` under the metadata.
    Relative to the codec contract `CodecOK` on the paths and values of the diff. -/
theorem v1_text_roundtrip_merge_precision (L : FloatLaws) (nc : NumCodec) {m : V1.Metas}
    (hm : PMergeMode m) (a b : Json) (haw : a.wf = true) (har : a.rawDoc = true)
    (hbw : b.wf = true) (hbr : b.rawDoc = true) (hbv : objVoidFree b = true)
    (hbf : b.finiteNums = true)
    (hc : CodecOK nc (V1.diffM m a b)) (text : String)
    (hr : V1.renderM nc false (V1.liftDiff (V1.diffM m a b)) = .ok (some text)) :
    ∃ d' r, V1.readDiffM nc text = .ok d' ∧ V1.patchM a d' = .ok r ∧ V1.equals m r b = true ∧
      r.listDoc = true := by
  have G : GoodC b := ⟨hbw, hbr, hbv, hbf⟩
  have hd := diffM_eq_dlp hm a b har haw G.listDoc hbw hbv
  obtain ⟨h1, h2⟩ := direct L hm a haw har b G
  have hrd : V1.readDiffM nc text = .ok (normDiff (V1.diffM m a b)) := by
    apply v1_read_render nc _ text _ hc hr
    intro h hh
    rw [hd] at hh
    obtain ⟨e, _, rfl⟩ := List.mem_map.1 hh
    exact wfHunk_vh e.1 e.2
  have hnd : normDiff (V1.diffM m a b) =
      ((dlp m a b).map untagE).map (fun e => vh e.1 e.2) := by
    rw [hd, normDiff, List.map_map, List.map_map]
    apply List.map_congr_left
    intro e _
    simp [normHunk_vh, untagE]
  have hu : untag (mapply ((dlp m a b).map untagE) a) = untag (mapply (dlp m a b) a) := by
    rw [untag_mapply, untag_mapply, List.map_map]
    congr 1
    apply List.map_congr_left
    intro e _
    simp [untagE, untag_idem]
  have hl : (mapply ((dlp m a b).map untagE) a).listDoc = true := by
    apply listDoc_mapply _ (rawDoc_listDoc a har)
    intro e he
    obtain ⟨e0, _, rfl⟩ := List.mem_map.1 he
    exact untag_listDoc e0.2
  refine ⟨_, mapply ((dlp m a b).map untagE) a, hrd, ?_, ?_, hl⟩
  · rw [hnd, patchM_vh]
  · rw [equals_untag_left hm.lr hl h2 G.listDoc hu]; exact h1

/-- the document hypotheses of the text round trip hold for the pair of `Example` (the codec
    contract and the rendered text stay hypotheses: they depend on the number codec) -/
example (L : FloatLaws) (nc : NumCodec) (text : String)
    (hc : CodecOK nc (V1.diffM [.merge, .prec Example.eps] Example.mA Example.mB))
    (hr : V1.renderM nc false
      (V1.liftDiff (V1.diffM [.merge, .prec Example.eps] Example.mA Example.mB)) = .ok (some text)) :
    ∃ d' r, V1.readDiffM nc text = .ok d' ∧ V1.patchM Example.mA d' = .ok r ∧
      V1.equals [.merge, .prec Example.eps] r Example.mB = true ∧ r.listDoc = true :=
  v1_text_roundtrip_merge_precision L nc Example.eps_ok _ _ Example.hyps.1 Example.hyps.2.1
    Example.hyps.2.2.1 Example.hyps.2.2.2.1 Example.hyps.2.2.2.2.1 Example.hyps.2.2.2.2.2 hc text hr

end Text

end Jd.V1PM
