/-
  JdProofs.CliRoundTripModesEx (namespace `Jd.CliRTM.Ex`) — NON-VACUITY of the end-to-end theorems
  of JdProofs.CliRoundTripModes / CliRoundTripModesPatch, and one counter-witness.

  For each of the four theorems a concrete command line, concrete input files and the codec
  `NativeRT.exCodec` are given on which EVERY hypothesis holds (only the IEEE-754 laws `FloatLaws` /
  `FloatEq0` remain as hypotheses), and the theorem is applied:
    `MergeEx.ex_merge_cli`   `jd -f merge a.json b.json`, `jd -p -f merge -o out.json T a.json`
                             `{"s":["x","y"],"u":"x","v":["x"]}` → `{"s":["y","x"],"t":[true],"v":["x","z"]}`
                             (arrays replaced, a member deleted with `null`, a member added);
    `SetEx.ex_set_cli`       `jd -set a.json b.json` (binary B), `jd -p -set T` with the document on stdin
                             `{"s":[true,null,{"k":null}]}` → `{"s":[{"k":null},null,false],"t":null}`;
    `KeysEx.ex_keys_cli`     `jd -setkeys id,k -o T a.json b.json`, `jd -p -setkeys id,k T a.json`
                             (the pair of JdProofs.DiffPatchKeys; `splitKeys "id,k" = ["id","k"]`
                             through `splitOn_comma`);
    `PatchEx.ex_patch_cli`   `jd -f patch a.json` (second document on stdin), `jd -p -f patch T a.json`
                             `{"a~/b":[true,1,[1],null],"k":null}` → `{"a~/b":[false,1,[1,1],null,null],"m":1}`
                             (five hunks, eleven operations, numbers, a key needing both escapes).
  The input files are the JSON texts of the documents (`txt v = Json()` of `v`), read back by
  `ReadJsonString` (`read_txt`, from `JText.readJsonM_jsonM`) — no string is evaluated.
  The hash / key hypotheses for the option lists the CLI builds (`[SET, Precision 0]`,
  `[SetKeys [id,k], Precision 0]`, `[Precision 0]`) are re-proved with the tactics of the existing
  examples (`hashFaithful_oS`, `paths_oS`, `hf_oK`, `keysHyp_oK`; `HashOK` transported with
  `SetDP.hashCode_optcongr`).

  COUNTER-WITNESS `ColorSet.color_no_libRoundTrip_set`: with `-set -color` the library round trip
  fails (`{"a":"ab"}` → `{"a":"ac"}`: the coloured text is rejected by `ReadDiffString`), as in
  `CliRT.ColorWitness` for the list reading: `fl.color = false` is needed in
  `native_cli_round_trip_setmodes`.
-/
import JdProofs.CliRoundTripModes
import JdProofs.CliRoundTripModesPatch
import JdProofs.NativeEndToEndKeysB

set_option linter.unusedVariables false
set_option autoImplicit false

namespace Jd.CliRTM.Ex
open Jd Jd.Spec Jd.Cli Jd.CliRT Jd.CliRTM Jd.NativeRT

/-- the JSON text of a document (`Json()`), as the content of an input file -/
def txt (v : Json) : String := (jsonM exCodec v).getD ""

/-- a document as read from text is what `ReadJsonString` makes of its own JSON text -/
theorem read_txt (v : Json) (hp : JText.preOK exCodec v = true) (hr : v.rawDoc = true) :
    readJsonM exCodec (txt v) = .ok v := by
  obtain ⟨s, h1, h2⟩ := JText.readJsonM_jsonM exCodec v (Or.inr hp)
  rw [Yaml.rawNorm_of_rawDoc v hr] at h2
  simp only [txt, h1, Option.getD_some]
  exact h2

def noYaml : YamlCarrier := { read := fun _ => .error "no yaml", render := fun _ _ => "" }
def Ls : Bool → LibPack := fun _ => ⟨Json, Diff, nativeLib exCodec noYaml⟩

theorem readDoc_txt (fl : Flags) (hy : fl.yaml = false) (v : Json)
    (hp : JText.preOK exCodec v = true) (hr : v.rawDoc = true) :
    (nativeLib exCodec noYaml).readDoc fl.yaml (txt v) = .ok v := by
  rw [hy, nativeLib_readDoc_json, read_txt v hp hr]; rfl

/-! ### `-f merge`: `{"s":["x","y"],"u":"x","v":["x"]}` → `{"s":["y","x"],"t":[true],"v":["x","z"]}` -/

namespace MergeEx
open MSet.Example

/-- `jd -f merge a.json b.json` -/
def fl1 : Flags := { f := "merge", nargs := 2 }
/-- `jd -p -f merge -o out.json T a.json` -/
def fl2 : Flags := { fl1 with p := true, o := "out.json" }
def e1 : Env := { in1 := .ok (txt exA), in2 := .ok (txt exB) }
def e2 : Env := { in1 := .ok (emitted (proc Ls .v2jd fl1 e1)), in2 := .ok (txt exA) }

/-- **`merge_cli_round_trip` on a concrete pair of files**: every hypothesis is discharged -/
theorem ex_merge_cli (L : FloatLaws) :
    ∃ T r, emitted (proc Ls .v2jd fl1 e1) = T ∧ (proc Ls .v2jd fl1 e1).stdout = T ∧
      equals [.merge, .prec 0] r exB = true ∧ specEq r exB = true ∧
      (proc Ls .v2jd fl2 e2).exit = 0 ∧ (proc Ls .v2jd fl2 e2).stdout = "" ∧
      (proc Ls .v2jd fl2 e2).outfile = some ((jsonM exCodec r).getD "") := by
  have hdm : isDiffMode fl1 := ⟨rfl, rfl, rfl, rfl, rfl⟩
  obtain ⟨T, d', r, c0, c1, c2, c3, c4, c5, c6, c7, R⟩ :=
    merge_cli_round_trip L exCodec noYaml Ls rfl .v2jd (fl := fl1) (fl2 := fl2) (e1 := e1)
      (e2 := e2) hdm (patchTwin_with hdm "out.json" 2 (.inr rfl)) rfl rfl rfl rfl rfl rfl
      (.inr rfl) (ta := txt exA) (tb := txt exB) (a := exA) (b' := exB) rfl rfl (.inl rfl)
      (readDoc_txt fl1 rfl exA (by decide) (by decide))
      (readDoc_txt fl1 rfl exB (by decide) (by decide))
      (by decide) (by decide) (by decide) (by decide) (by decide) (by decide) (by decide)
      (by decide) (by decide) rfl rfl (.inr rfl)
  exact ⟨T, r, R.emit1, (R.std1 rfl).1, c4, c6, R.exit2, (R.file2 (by decide)).1,
    (R.file2 (by decide)).2⟩

end MergeEx

/-! ### `-set`: `{"s":[true,null,{"k":null}]}` → `{"s":[{"k":null},null,false],"t":null}` -/

namespace SetEx
open SetDP.Example E2ES E2ES.Example

/-- the option list of `jd -set` -/
abbrev oS : List Opt := [Opt.set, Opt.prec 0]

/-- `jd -set a.json b.json` -/
def fl1 : Flags := { set := true, nargs := 2 }
/-- `jd -p -set T` (the document to patch on stdin) -/
def fl2 : Flags := { fl1 with p := true, nargs := 1 }
def e1 : Env := { in1 := .ok (txt exA), in2 := .ok (txt exB) }
def e2 : Env := { in1 := .ok (emitted (proc Ls .top fl1 e1)), in2 := .ok (txt exA) }

theorem modeOpts_fl1 : modeOpts fl1 = oS := rfl

theorem hashFaithful_oS : HashFaithful oS (subterms exA ++ subterms exB) := by
  intro x hx y hy
  simp only [exA, exB, subterms, subtermsList, subtermsKvs, List.cons_append, List.nil_append,
    List.append_nil, List.mem_cons, List.not_mem_nil, or_false] at hx hy
  rcases hx with rfl | rfl | rfl | rfl | rfl | rfl | rfl | rfl | rfl | rfl | rfl | rfl | rfl <;>
  rcases hy with rfl | rfl | rfl | rfl | rfl | rfl | rfl | rfl | rfl | rfl | rfl | rfl | rfl <;>
  first
  | (intro _; simp [equivB, dispatchTag, allIn, allCovered, anyEquiv, equivKvs, alookup]; done)
  | (intro e; exact absurd e (by decide +kernel))

theorem paths_oS : ∀ h ∈ diffM oS exA exB,
    (jsonM exCodec (pathToJson h.path)).isSome = true ∧ PathOK exCodec h.path := by
  intro h hh
  have hm : DES.SetReading oS := .inl ⟨rfl, rfl⟩
  obtain ⟨k, tl, ht, hpath, hk⟩ := flat_paths_set hm rfl rfl _ _ (by decide) (by decide) (by decide)
    (by decide) (DES.diffFaithful_of_check (by decide +kernel)) (by decide) h hh
  rw [hpath]
  refine path_key_tail k ?_ tl ht
  rcases hk with hk | hk
  · simp at hk; exact .inl hk
  · simp at hk; exact hk

/-- **`native_cli_round_trip_setmodes` on a concrete pair of files** (binary B, second run reading
    the document from stdin): every hypothesis is discharged -/
theorem ex_set_cli (F : FloatEq0) (L : FloatLaws) :
    ∃ T r, (proc Ls .top fl1 e1).stdout = T ∧ (proc Ls .top fl1 e1).exit = (if T = "" then 0 else 1) ∧
      equals oS r exB = true ∧ equivB oS r exB = true ∧
      (proc Ls .top fl2 e2).exit = 0 ∧ (proc Ls .top fl2 e2).stdout = (jsonM exCodec r).getD "" := by
  have hdm : isDiffMode fl1 := ⟨rfl, rfl, rfl, rfl, rfl⟩
  obtain ⟨T, d', r, c0, c1, c2, c3, c4, c5, R⟩ :=
    native_cli_round_trip_setmodes F L exCodec noYaml Ls rfl .top (fl := fl1) (fl2 := fl2)
      (e1 := e1) (e2 := e2) hdm (patchTwin_with hdm "" 1 (.inl rfl)) rfl (.inl rfl) rfl rfl rfl rfl
      (.inr rfl) (ta := txt exA) (tb := txt exB) (a := exA) (b' := exB) rfl rfl (.inl rfl)
      (readDoc_txt fl1 rfl exA (by decide) (by decide))
      (readDoc_txt fl1 rfl exB (by decide) (by decide))
      ex_docs.1 ex_docs.2.1 voidFree_set.1 voidFree_set.2 hashFaithful_oS vals_set paths_oS
      rfl rfl (.inl rfl)
  exact ⟨T, r, (R.std1 rfl).1, R.exit1, c5, c4, R.exit2, (R.std2 rfl).1⟩

end SetEx

/-! ### `-setkeys id,k`: the pair of JdProofs.DiffPatchKeys / NativeEndToEndKeysB -/

namespace KeysEx
open DPK DPK.ExampleB E2EK E2EK.Example

/-- the option list of `jd -setkeys id,k` -/
abbrev oK : List Opt := [Opt.setKeys ["id", "k"], Opt.prec 0]

/-- `jd -setkeys id,k -o T a.json b.json` -/
def fl1 : Flags := { setkeys := "id,k", o := "T", nargs := 2 }
/-- `jd -p -setkeys id,k T a.json` -/
def fl2 : Flags := { fl1 with p := true, o := "" }
def e1 : Env := { in1 := .ok (txt exA), in2 := .ok (txt exB) }
def e2 : Env := { in1 := .ok (emitted (proc Ls .v2jd fl1 e1)), in2 := .ok (txt exA) }

theorem keysOpts_fl1 : keysOpts fl1 ["id", "k"] = oK := rfl

theorem split_fl1 : splitKeys fl1.setkeys = .ok ["id", "k"] := by
  unfold splitKeys
  rw [splitOn_comma]
  rfl

theorem hf_oK : HashFaithful oK (subterms exA ++ subterms exB) := by
  intro x hx y hy
  simp only [exA, exB, subterms, subtermsList, subtermsKvs, List.cons_append, List.nil_append,
    List.append_nil, List.mem_cons, List.not_mem_nil, or_false] at hx hy
  rcases hx with rfl | rfl | rfl | rfl | rfl | rfl | rfl | rfl | rfl | rfl | rfl | rfl | rfl | rfl | rfl | rfl | rfl | rfl | rfl | rfl | rfl | rfl | rfl <;>
  rcases hy with rfl | rfl | rfl | rfl | rfl | rfl | rfl | rfl | rfl | rfl | rfl | rfl | rfl | rfl | rfl | rfl | rfl | rfl | rfl | rfl | rfl | rfl | rfl <;>
  first
  | (intro e; exact absurd e (by decide +kernel))
  | (intro _; simp [equivB, dispatchTag, allIn, allCovered, anyEquiv, equivKvs, alookup]; done)

theorem keysHyp_oK : KeysHyp oK ["id", "k"] exA exB where
  hf := hf_oK
  kd := keyedDistinct_of_check (by decide +kernel)
  ksep := DES.Example.kindSepI_of_check (by decide +kernel)
  ib := DES.Example.identInj_of_check (by decide +kernel)
  pf := pathFaithful_of_check (by decide +kernel)
  kt := keyTuple_of_check (by decide +kernel)

/-- **`native_cli_round_trip_setkeys` on a concrete pair of files** (`-o` in the first run) -/
theorem ex_keys_cli (F : FloatEq0) (L : FloatLaws) :
    ∃ T r, (proc Ls .v2jd fl1 e1).outfile = some T ∧ (proc Ls .v2jd fl1 e1).stdout = "" ∧
      equals oK r exB = true ∧ equivB oK r exB = true ∧
      (proc Ls .v2jd fl2 e2).exit = 0 ∧ (proc Ls .v2jd fl2 e2).stdout = (jsonM exCodec r).getD "" := by
  have hdm : isDiffMode fl1 := ⟨rfl, rfl, rfl, rfl, rfl⟩
  obtain ⟨T, d', r, c0, c1, c2, c3, c4, c5, R⟩ :=
    native_cli_round_trip_setkeys F L exCodec noYaml Ls rfl .v2jd (fl := fl1) (fl2 := fl2)
      (e1 := e1) (e2 := e2) hdm (patchTwin_with hdm "" 2 (.inr rfl)) rfl (ks := ["id", "k"])
      (by decide) split_fl1 rfl rfl rfl rfl
      (.inr rfl) (ta := txt exA) (tb := txt exB) (a := exA) (b' := exB) rfl rfl (.inr rfl)
      (readDoc_txt fl1 rfl exA (by decide) (by decide))
      (readDoc_txt fl1 rfl exB (by decide) (by decide))
      ex_docs.1 ex_docs.2.1 (by decide) (by decide) keysHyp_oK vals_ok
      (diffM_pathOK_of_inputs_setkeys (o := oK) rfl rfl rfl exA exB (by decide) (by decide)
        (by decide) (by decide) paths_ok)
      rfl rfl (.inl rfl)
  exact ⟨T, r, (R.file1 (by decide)).2, (R.file1 (by decide)).1, c5, c4, R.exit2, (R.std2 rfl).1⟩

end KeysEx

/-! ### `-f patch`: `{"a~/b":[true,1,[1],null],"k":null}` → `{"a~/b":[false,1,[1,1],null,null],"m":1}`
    (the five-hunk pair of JdProofs.PatchRenderClosed / PatchOwnOutput: eleven operations) -/

namespace PatchEx
open PRC.Example DPL

/-- `jd -f patch -yaml=false a.json` (the second document on stdin) -/
def fl1 : Flags := { f := "patch", nargs := 1 }
/-- `jd -p -f patch T a.json` -/
def fl2 : Flags := { fl1 with p := true, nargs := 2 }
def e1 : Env := { in1 := .ok (txt exA), in2 := .ok (txt exB) }
def e2 : Env := { in1 := .ok (emitted (proc Ls .v2jd fl1 e1)), in2 := .ok (txt exA) }

theorem numOK_exA : JText.NumOK exCodec exA = true := by
  simp [exA, DPL.Example.exA, DPL.Example.one, JText.NumOK, JText.NumOKList, JText.NumOKKvs,
    JText.numOK_one]

theorem numOK_exB : JText.NumOK exCodec exB = true := by
  simp [exB, one, DPL.Example.exB, DPL.Example.one, JText.NumOK, JText.NumOKList, JText.NumOKKvs,
    JText.numOK_one]

theorem docOK_exA : JText.DocOK exCodec exA := ⟨by decide, by decide, by decide, numOK_exA⟩
theorem docOK_exB : JText.DocOK exCodec exB := ⟨by decide, by decide, by decide, numOK_exB⟩

/-- **`patch_cli_round_trip` on a concrete pair of files**: every hypothesis is discharged -/
theorem ex_patch_cli (L : FloatLaws) (F : FloatEq0) :
    ∃ T r, (proc Ls .v2jd fl1 e1).stdout = T ∧
      (proc Ls .v2jd fl1 e1).exit = (if T = "[]" then 0 else 1) ∧
      specEq r exB = true ∧ equals [Opt.prec 0] r exB = true ∧
      (proc Ls .v2jd fl2 e2).exit = 0 ∧ (proc Ls .v2jd fl2 e2).stdout = (jsonM exCodec r).getD "" := by
  obtain ⟨h1, h2, h3, h4, h5, h6, h7, h8, h9, h10, h11, h12, h13, h14, h15, _⟩ := hyps L
  have hdm : isDiffMode fl1 := ⟨rfl, rfl, rfl, rfl, rfl⟩
  have H : HashOK [Opt.prec fl1.precision] exA exB := by
    intro x hx y hy e
    refine h12 x hx y hy ?_
    rw [SetDP.hashCode_optcongr (o := []) (o' := [Opt.prec fl1.precision]) rfl x,
      SetDP.hashCode_optcongr (o := []) (o' := [Opt.prec fl1.precision]) rfl y]
    exact e
  obtain ⟨T, d', r, c0, c1, c2, c3, c4, c5, c6, c7, R⟩ :=
    patch_cli_round_trip L F exCodec noYaml Ls rfl .v2jd (fl := fl1) (fl2 := fl2) (e1 := e1)
      (e2 := e2) hdm (patchTwin_with hdm "" 2 (.inr rfl)) rfl rfl rfl rfl rfl
      (.inl rfl) (ta := txt exA) (tb := txt exB) (a := exA) (b' := exB) rfl rfl (.inl rfl)
      (readDoc_txt fl1 rfl exA docOK_exA.preOK docOK_exA.1)
      (readDoc_txt fl1 rfl exB docOK_exB.preOK docOK_exB.1)
      docOK_exA h3 docOK_exB h7 h9 h10 h11 H h13 h14 h15 rfl rfl (.inl rfl)
  exact ⟨T, r, (R.std1 rfl).1, R.exit1, c4, (c7 (PrecMono.of_noPrecision rfl)).2, R.exit2,
    (R.std2 rfl).1⟩

end PatchEx

/-! ### COUNTER-WITNESS: `-color` with `-set` (why `fl.color = false` is a hypothesis of
    `native_cli_round_trip_setmodes`): the pair of `CliRT.ColorWitness` under `[SET, Precision 0]` -/

namespace ColorSet
open Jd.DPL Jd.E2E CliRT.ColorWitness

theorem c_diff_set : diffM SetEx.oS cA cB = cDiff := by
  unfold diffM cA cB
  rw [show isMerge SetEx.oS = false from rfl, diffNode_obj_obj]
  simp [diffKvs_cons, diffKvs_nil, alookup, cDiff]
  rw [diffNode_scalar _ _ _ (by simp) (by simp)]
  simp [diffCommon, equals, Json.nodeList, Json.isVoid]

/-- the library round trip FAILS with `-set -color`: the coloured text is not input for
    `ReadDiffString` -/
theorem color_no_libRoundTrip_set :
    ¬ LibRoundTrip (nativeLib exCodec noYaml) .jd true SetEx.oS cA cB (fun _ => True) := by
  intro h
  obtain ⟨d', r, h1, _, _⟩ := h cText (by
    simp [renderAs, nativeLib_renderJd_color, nativeLib_diff, c_diff_set, c_render])
  rw [nativeLib_readDiff_jd, c_read] at h1
  cases h1

end ColorSet

#print axioms MergeEx.ex_merge_cli
#print axioms SetEx.ex_set_cli
#print axioms KeysEx.ex_keys_cli
#print axioms PatchEx.ex_patch_cli
#print axioms ColorSet.color_no_libRoundTrip_set

end Jd.CliRTM.Ex
