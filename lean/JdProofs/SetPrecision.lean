/-
  JdProofs.SetPrecision — properties C01, C04, C05 of the v2 library for a `Precision(eps)` option
  TOGETHER WITH the SET, MULTISET or SetKeys reading of arrays (strict strategy; MERGE for SET /
  MULTISET). Namespace `Jd.SP`. Statement file: JdProps/C01Precision.lean.

  WHAT THE CODE DOES. In the set readings arrays are compared through hash codes, and the hash code
  of a number ignores the precision; `diff_common.go` compares scalars WITHOUT the options. So the
  only place where the precision is looked at is `Equals` on numbers OUTSIDE arrays.

  §0 `stripPrec o`: the option list without its Precision options (same `dispatchTag`, `keysOf`,
     `isMerge`; `precOf = 0`; same hash codes).
  §1 `equals_mono`: `Equals` without a precision ⇒ `Equals` with one (all readings, all tags), under
     `DPL.PrecMono o` (`|u-v| ≤ 0 → |u-v| ≤ eps`).
  §2 `diffNode_congr`, `diffM_strip`: for `a.rawDoc` and a set / bag reading, strict or MERGE,
     `diffM o a b = diffM (stripPrec o) a b`.
  §3 `equivB_mono_set`: the advertised equivalence is monotone in the precision in the SET reading
     (FALSE for MULTISET: `Witness.greedy_bag_not_monotone`, a weakness of the greedy bag matching
     of the spec).
  §4 C01: `diff_then_patch_setmodes_precision`, `diff_then_patch_set_precision`,
     `diff_then_patch_setkeys_precision`, `merge_diff_then_patch_setmodes_precision` — each the
     existing precision-free theorem applied to `stripPrec o`, transported by §2 and §1 / §3.
  §5 C05: `equals_of_diffM_nil_precision` (⇒, no hash hypothesis), `diffM_nil_iff_equals_strip`,
     `diffM_nil_iff_equals_strip_keys`: empty diff ⇔ `Equals` WITHOUT the precision.
  §5b C04: `equivP` (hash-free: numbers outside arrays within eps, arrays and everything below them
     exactly) and `equals_eq_equivP(_core)`: `Equals o = equivP o` relative to `HashFaithful
     (stripPrec o)`; `equivP_eq_equivB_noPrec`; `equivB_of_equivP` (finer than advertised, SET).
  §6 witnesses (relative to IEEE facts about concrete numbers, evaluated by `#eval` in the
     statement file; all replayed on the Go library, /tmp/pf/pc/gocheck):
     `equals_exact_inside_arrays` (C04 false inside arrays), `converse_fails_member` (C05 ⇐ false),
     `greedy_bag_not_monotone`, `mset_equivB_conclusion_fails` (spec weakness), `precMono_used`.
  §7 non-vacuity: `Example.ex_set`, `ex_mset` (documents with numbers inside and outside arrays).
     `merge_diff_then_patch_setkeys_precision_iff`: SetKeys + MERGE + Precision holds iff no clash.
  NOT PROVED: the text layer (render / read back) under these option lists; `eps = +Inf` is covered
  only through the hypothesis `PrecMono`.
-/
import JdModel
import JdSpec
import JdProofs.Common
import JdProofs.EqualsList
import JdProofs.EqualsSet
import JdProofs.DiffEmpty
import JdProofs.DiffPatchList
import JdProofs.SetDiffPatch
import JdProofs.DiffEmptySet
import JdProofs.DiffPatchKeys
import JdProofs.KeysMergeB

namespace Jd.SP
open Jd Jd.Spec Jd.SetDP
open Jd.DPL (PrecMono)

/-! ## 0. the option list without its Precision options -/

/-- the option list with every `Precision` option removed (what `diff_common.go` and the hash codes
    effectively see) -/
def stripPrec : Opts → Opts
  | [] => []
  | .prec _ :: r => stripPrec r
  | .merge :: r => .merge :: stripPrec r
  | .set :: r => .set :: stripPrec r
  | .mset :: r => .mset :: stripPrec r
  | .color :: r => .color :: stripPrec r
  | .setKeys ks :: r => .setKeys ks :: stripPrec r

@[simp] theorem dispatchTag_strip : ∀ o : Opts, dispatchTag (stripPrec o) = dispatchTag o
  | [] => rfl
  | x :: r => by cases x <;> simp [stripPrec, dispatchTag, dispatchTag_strip r]

@[simp] theorem keysOf_strip : ∀ o : Opts, keysOf (stripPrec o) = keysOf o
  | [] => rfl
  | x :: r => by cases x <;> simp [stripPrec, keysOf, keysOf_strip r]

@[simp] theorem isMerge_strip : ∀ o : Opts, isMerge (stripPrec o) = isMerge o
  | [] => rfl
  | x :: r => by cases x <;> simp [stripPrec, isMerge, isMerge_strip r]

@[simp] theorem precOf_strip : ∀ o : Opts, precOf (stripPrec o) = 0
  | [] => rfl
  | x :: r => by cases x <;> simp [stripPrec, precOf, precOf_strip r]

theorem stripPrec_of_noPrec : ∀ o : Opts, (∀ e, Opt.prec e ∉ o) → stripPrec o = o
  | [], _ => rfl
  | x :: r, h => by
    have hr := stripPrec_of_noPrec r (fun e he => h e (List.mem_cons_of_mem _ he))
    cases x <;> simp [stripPrec, hr]
    exact h _ List.mem_cons_self

theorem hashCode_strip (o : Opts) (a : Json) : hashCode (stripPrec o) a = hashCode o a :=
  hashCode_optcongr (dispatchTag_strip o) a

theorem hashList_strip (o : Opts) (xs : List Json) : hashList (stripPrec o) xs = hashList o xs :=
  hashList_optcongr (dispatchTag_strip o) xs

/-! ## 1. `Equals` is monotone in the precision -/

mutual
/-- `Equals` under options WITHOUT a precision implies `Equals` under the same options WITH one
    (`PrecMono o`: a float within `0` of another is within `eps` of it) — every reading, every tag -/
theorem equals_mono {o o' : Opts} (h : dispatchTag o' = dispatchTag o) (hp : precOf o' = 0)
    (M : PrecMono o) : ∀ a b : Json, equals o' a b = true → equals o a b = true
  | .void, b, e => by simpa [equals] using e
  | .null, b, e => by simpa [equals] using e
  | .bool _, b, e => by cases b <;> simp_all [equals]
  | .num x, b, e => by
    cases b with
    | num y => simp only [equals, hp] at e ⊢; exact M x y e
    | _ => simp [equals] at e
  | .str _, b, e => by cases b <;> simp_all [equals]
  | .arr t xs, b, e => by
    have el := equalsList_mono h hp M xs
    rw [equals] at e ⊢
    rw [effTag_optcongr h t, dispatch_optcongr h b] at e
    simp only [hashCode_optcongr h] at e
    split <;> simp_all
  | .obj kvs, b, e => by
    cases b with
    | obj kvs' =>
      simp only [equals, Bool.and_eq_true] at e ⊢
      exact ⟨e.1, equalsKvs_mono h hp M kvs kvs' e.2⟩
    | _ => simp [equals] at e
theorem equalsList_mono {o o' : Opts} (h : dispatchTag o' = dispatchTag o) (hp : precOf o' = 0)
    (M : PrecMono o) : ∀ xs ys : List Json, equalsList o' xs ys = true → equalsList o xs ys = true
  | [], ys, e => by cases ys <;> simp_all [equalsList]
  | x :: r, ys, e => by
    cases ys with
    | nil => simp [equalsList] at e
    | cons y ys =>
      simp only [equalsList, Bool.and_eq_true] at e ⊢
      exact ⟨equals_mono h hp M x y e.1, equalsList_mono h hp M r ys e.2⟩
theorem equalsKvs_mono {o o' : Opts} (h : dispatchTag o' = dispatchTag o) (hp : precOf o' = 0)
    (M : PrecMono o) :
    ∀ r kvs' : List (String × Json), equalsKvs o' r kvs' = true → equalsKvs o r kvs' = true
  | [], _, _ => by simp [equalsKvs]
  | (k, v) :: r, kvs', e => by
    simp only [equalsKvs, Bool.and_eq_true] at e ⊢
    refine ⟨?_, equalsKvs_mono h hp M r kvs' e.2⟩
    cases hl : alookup k kvs' with
    | none => simp [hl] at e
    | some v' =>
      have e1 := e.1
      simp only [hl] at e1 ⊢
      exact equals_mono h hp M v v' e1
end

/-! ## 2. the diff of the set readings does not see the precision -/

theorem identKeyHashes_congr {o o' : Opts} (h : dispatchTag o' = dispatchTag o)
    (kvs : List (String × Json)) : ∀ ks, identKeyHashes o' kvs ks = identKeyHashes o kvs ks
  | [] => rfl
  | k :: r => by
    simp only [identKeyHashes, identKeyHashes_congr h kvs r]
    cases alookup k kvs <;> simp [hashCode_optcongr h]

theorem identOf_congr {o o' : Opts} (h : dispatchTag o' = dispatchTag o)
    (hk : keysOf o' = keysOf o) : identOf o' = identOf o := by
  funext x
  cases x with
  | obj kvs =>
    simp only [identOf, identObj, hk]
    cases keysOf o with
    | none => exact hashCode_optcongr h _
    | some ks => simp only [identKeyHashes_congr h kvs ks]
  | _ => exact hashCode_optcongr h _

theorem identLookup_congr {o o' : Opts} (h : dispatchTag o' = dispatchTag o)
    (hk : keysOf o' = keysOf o) : identLookup o' = identLookup o := by
  funext c l
  induction l with
  | nil => rfl
  | cons x r ih => simp only [identLookup, ih, identOf_congr h hk]

theorem hashLookup_congr {o o' : Opts} (h : dispatchTag o' = dispatchTag o) :
    hashLookup o' = hashLookup o := by
  funext c l
  induction l with
  | nil => rfl
  | cons x r ih => simp only [hashLookup, ih, hashCode_optcongr h x]

theorem newPathSetKeys_congr {o o' : Opts} (hk : keysOf o' = keysOf o) :
    newPathSetKeys o' = newPathSetKeys o := by
  funext kvs
  simp only [newPathSetKeys, hk]

theorem diffSetElems_congr {o o' : Opts} (h : dispatchTag o' = dispatchTag o)
    (hk : keysOf o' = keysOf o) (m : Bool) (p : Path) (ys : List Json) :
    ∀ xs : List Json, (∀ x ∈ xs, ∀ b q, diffNode o' m x b q = diffNode o m x b q) →
      diffSetElems o' m p ys xs = diffSetElems o m p ys xs
  | [], _ => by rw [DES.diffSetElems_nil_m, DES.diffSetElems_nil_m]
  | x :: r, ih => by
    rw [DES.diffSetElems_cons_m, DES.diffSetElems_cons_m,
      diffSetElems_congr h hk m p ys r (fun x hx => ih x (List.mem_cons_of_mem _ hx))]
    simp only [identOf_congr h hk, identLookup_congr h hk, newPathSetKeys_congr hk]
    split
    · rfl
    · split
      · rfl
      · split
        · rw [ih _ List.mem_cons_self]
        · rfl

theorem diffKvs_congr {o o' : Opts} (m : Bool) (p : Path) (kvs' : List (String × Json)) :
    ∀ kvs : List (String × Json),
      (∀ k v, (k, v) ∈ kvs → ∀ b q, diffNode o' m v b q = diffNode o m v b q) →
      diffKvs o' m p kvs' kvs = diffKvs o m p kvs' kvs
  | [], _ => by rw [DE.diffKvs_nil, DE.diffKvs_nil]
  | (k, v) :: r, ih => by
    rw [diffKvs.eq_def, diffKvs.eq_def o]
    simp only []
    rw [diffKvs_congr m p kvs' r (fun k v hm => ih k v (List.mem_cons_of_mem _ hm))]
    cases alookup k kvs' with
    | none => rfl
    | some v' => simp only [ih k v List.mem_cons_self]

/-- **The diff of the SET / MULTISET / SetKeys readings ignores the Precision option**, strict and
    MERGE strategy, for a first document as read from text (`rawDoc`: every array a plain
    `jsonArray`): arrays are compared through hash codes, which do not depend on the precision, and
    scalars by `diff_common.go`, which calls `Equals` without the options. -/
theorem diffNode_congr {o o' : Opts} (h : dispatchTag o' = dispatchTag o)
    (hk : keysOf o' = keysOf o) (hm : dispatchTag o = .set ∨ dispatchTag o = .mset) (m : Bool) :
    ∀ a : Json, a.rawDoc = true → ∀ b p, diffNode o' m a b p = diffNode o m a b p := by
  have scalar : ∀ a : Json, (∀ t xs, a ≠ .arr t xs) → (∀ kvs, a ≠ .obj kvs) →
      ∀ b p, diffNode o' m a b p = diffNode o m a b p :=
    fun a h1 h2 b p => by rw [DE.diffNode_scalar o' m a b h1 h2, DE.diffNode_scalar o m a b h1 h2]
  intro a
  induction a using jsonInd with
  | void => intro _ b p; exact scalar _ (fun _ _ e => by cases e) (fun _ e => by cases e) b p
  | null => intro _ b p; exact scalar _ (fun _ _ e => by cases e) (fun _ e => by cases e) b p
  | bool x => intro _ b p; exact scalar _ (fun _ _ e => by cases e) (fun _ e => by cases e) b p
  | num x => intro _ b p; exact scalar _ (fun _ _ e => by cases e) (fun _ e => by cases e) b p
  | str x => intro _ b p; exact scalar _ (fun _ _ e => by cases e) (fun _ e => by cases e) b p
  | arr t xs ih =>
    intro hr b p
    simp only [Json.rawDoc, Bool.and_eq_true, beq_iff_eq] at hr
    obtain ⟨rfl, hrx⟩ := hr
    have ihx : ∀ x ∈ xs, ∀ b q, diffNode o' m x b q = diffNode o m x b q :=
      fun x hx => ih x hx (DES.rawDocList_mem hrx hx)
    rw [diffNode.eq_def, diffNode.eq_def o]
    simp only [effTag, h, beq_self_eq_true, if_true, dispatch_optcongr h b]
    generalize b.dispatch o = b'
    rcases hm with hd | hd
    · have eq : ∀ ys, equals o' (.arr .set xs) (.arr .set ys) = equals o (.arr .set xs) (.arr .set ys) :=
        fun ys => by rw [DES.equals_set_set, DES.equals_set_set]; simp only [hashList_optcongr h]
      simp only [hd, eq, diffSetElems_congr h hk m p _ xs ihx, identOf_congr h hk,
        identLookup_congr h hk]
    · have eq : ∀ ys, equals o' (.arr .mset xs) (.arr .mset ys) = equals o (.arr .mset xs) (.arr .mset ys) :=
        fun ys => by rw [DES.equals_mset_mset, DES.equals_mset_mset]; simp only [hashList_optcongr h]
      simp only [hd, eq, hashList_optcongr h, hashLookup_congr h]
  | obj kvs ih =>
    intro hr b p
    simp only [Json.rawDoc] at hr
    cases b with
    | obj kvs' =>
      rw [DE.diffNode_obj_obj, DE.diffNode_obj_obj,
        diffKvs_congr m p kvs' kvs (fun k v hm => ih k v hm (DES.rawDocKvs_mem hr hm))]
    | _ => rw [diffNode.eq_def, diffNode.eq_def o]

theorem diffM_strip (o : Opts) (hm : dispatchTag o = .set ∨ dispatchTag o = .mset) (a b : Json)
    (ha : a.rawDoc = true) : diffM o a b = diffM (stripPrec o) a b := by
  unfold diffM
  rw [isMerge_strip, diffNode_congr (dispatchTag_strip o) (keysOf_strip o) hm (isMerge o) a ha b []]

/-! ## 3. the advertised equivalence is monotone in the precision in the SET reading -/

/-- SET / SetKeys reading: equivalent without a precision ⇒ equivalent with it ("some member is
    equivalent" is monotone). FALSE for the MULTISET reading of the spec `equivB`, whose bag
    comparison is a greedy matching: `Witness.greedy_bag_not_monotone`. -/
theorem equivB_mono_set {o o' : Opts} (h : dispatchTag o' = dispatchTag o)
    (hd : dispatchTag o = .set) (hp : precOf o' = 0) (M : PrecMono o) :
    ∀ a b : Json, equivB o' a b = true → equivB o a b = true := by
  have hd' : dispatchTag o' = .set := by rw [h, hd]
  intro a
  induction a using jsonInd with
  | void => intro b e; cases b <;> simp_all [equivB]
  | null => intro b e; cases b <;> simp_all [equivB]
  | bool x => intro b e; cases b <;> simp_all [equivB]
  | num x =>
    intro b e
    cases b with
    | num y => simp only [equivB, hp] at e ⊢; exact M x y e
    | _ => simp [equivB] at e
  | str x => intro b e; cases b <;> simp_all [equivB]
  | arr t xs ih =>
    intro b e
    cases b with
    | arr t' ys =>
      simp only [equivB, hd, hd', Bool.and_eq_true, allIn_iff, allCovered_iff] at e ⊢
      refine ⟨fun x hx => ?_, fun y hy => ?_⟩
      · obtain ⟨y, hy, e1⟩ := e.1 x hx
        exact ⟨y, hy, ih x hx y e1⟩
      · obtain ⟨x, hx, e1⟩ := e.2 y hy
        exact ⟨x, hx, ih x hx y e1⟩
    | _ => simp [equivB] at e
  | obj kvs ih =>
    intro b e
    cases b with
    | obj kvs' =>
      simp only [equivB, Bool.and_eq_true] at e ⊢
      refine ⟨e.1, ?_⟩
      have key : ∀ r : List (String × Json), (∀ kv ∈ r, kv ∈ kvs) →
          equivKvs o' r kvs' = true → equivKvs o r kvs' = true := by
        intro r
        induction r with
        | nil => intro _ _; simp [equivKvs]
        | cons kv r ihr =>
          obtain ⟨k, v⟩ := kv
          intro hsub e2
          rw [equivKvs, Bool.and_eq_true] at e2 ⊢
          refine ⟨?_, ihr (fun kv hh => hsub kv (List.mem_cons_of_mem _ hh)) e2.2⟩
          cases hl : alookup k kvs' with
          | none => simp [hl] at e2
          | some v' =>
            have e1 := e2.1
            simp only [hl] at e1 ⊢
            exact ih k v (hsub _ List.mem_cons_self) v' e1
      exact key kvs (fun _ hh => hh) e.2
    | _ => simp [equivB] at e

/-! ## 4. C01: diff-then-patch under SET / MULTISET / SetKeys with a Precision -/

/-- **C01, SET and MULTISET readings with a Precision option (strict strategy).** The diff is the
    diff computed without the precision (`diffM_strip`), it applies to `a` with the library's own
    patch code, and the result `Equals` `b` under the full options `o` — and, stronger, under the
    options without the precision, for `Equals` and for the advertised equivalence. -/
theorem diff_then_patch_setmodes_precision (F : FloatEq0) (L : FloatLaws) (sw : Bool) (o : Opts)
    (hm : dispatchTag o = .set ∨ dispatchTag o = .mset) (hk : keysOf o = none)
    (hmg : isMerge o = false) (M : PrecMono o) (a b : Json)
    (ha : a.setDoc = true) (hb : b.setDoc = true)
    (ha' : DPL.memOK a = true) (hb' : DPL.memOK b = true)
    (HF : HashFaithful (stripPrec o) (subterms a ++ subterms b)) :
    ∃ r, patchAll sw a (diffM o a b) = .ok r ∧ equals o r b = true ∧
      equals (stripPrec o) r b = true ∧ equivB (stripPrec o) r b = true := by
  have hr : a.rawDoc = true := (Ok.rawDoc ⟨ha, ha'⟩)
  obtain ⟨r, h1, h2, h3⟩ := diff_then_patch_setmodes F L sw (stripPrec o)
    (by simpa using hm) (by simpa using hk) (by simpa using hmg) (precOf_strip o) a b ha hb ha' hb' HF
  refine ⟨r, ?_, equals_mono (dispatchTag_strip o) (precOf_strip o) M r b h3, h3, h2⟩
  rw [diffM_strip o hm a b hr]
  exact h1

/-- **C01, SET reading with a Precision**: in addition the result is equivalent to `b` for the
    advertised equivalence under the full options (sets recursively, numbers within `eps`). -/
theorem diff_then_patch_set_precision (F : FloatEq0) (L : FloatLaws) (sw : Bool) (o : Opts)
    (hd : dispatchTag o = .set) (hk : keysOf o = none)
    (hmg : isMerge o = false) (M : PrecMono o) (a b : Json)
    (ha : a.setDoc = true) (hb : b.setDoc = true)
    (ha' : DPL.memOK a = true) (hb' : DPL.memOK b = true)
    (HF : HashFaithful (stripPrec o) (subterms a ++ subterms b)) :
    ∃ r, patchAll sw a (diffM o a b) = .ok r ∧ equals o r b = true ∧ equivB o r b = true := by
  obtain ⟨r, h1, h2, _, h4⟩ := diff_then_patch_setmodes_precision F L sw o (.inl hd) hk hmg M a b
    ha hb ha' hb' HF
  exact ⟨r, h1, h2, equivB_mono_set (dispatchTag_strip o) hd (precOf_strip o) M r b h4⟩

/-- **C01, SetKeys reading with a Precision (strict strategy)**, under `DPK.KeysHyp` read without
    the precision. -/
theorem diff_then_patch_setkeys_precision (F : FloatEq0) (L : FloatLaws) (sw : Bool) (o : Opts)
    (ks : List String) (hd : dispatchTag o = .set) (hk : keysOf o = some ks)
    (hmg : isMerge o = false) (M : PrecMono o) (a b : Json)
    (ha : a.setDoc = true) (hb : b.setDoc = true)
    (ha' : DPL.memOK a = true) (hb' : DPL.memOK b = true)
    (K : DPK.KeysHyp (stripPrec o) ks a b) :
    ∃ r, patchAll sw a (diffM o a b) = .ok r ∧ equals o r b = true ∧ equivB o r b = true ∧
      equals (stripPrec o) r b = true ∧ equivB (stripPrec o) r b = true ∧
      hashCode o r = hashCode o b := by
  have hr : a.rawDoc = true := (Ok.rawDoc ⟨ha, ha'⟩)
  obtain ⟨r, h1, h2, h3, h4⟩ := DPK.diff_then_patch_setkeys F L sw (stripPrec o) ks
    (by simpa using hd) (by simpa using hk) (by simpa using hmg) (precOf_strip o) a b ha hb ha' hb' K
  refine ⟨r, ?_, equals_mono (dispatchTag_strip o) (precOf_strip o) M r b h2,
    equivB_mono_set (dispatchTag_strip o) hd (precOf_strip o) M r b h3, h2, h3, ?_⟩
  · rw [diffM_strip o (.inl hd) a b hr]
    exact h1
  · rw [← hashCode_strip, ← hashCode_strip o b]; exact h4

/-- **C01, MERGE strategy with SET / MULTISET and a Precision** (in memory) -/
theorem merge_diff_then_patch_setmodes_precision (F : FloatEq0) (L : FloatLaws) (sw : Bool)
    (o : Opts) (hmg : isMerge o = true) (hm : dispatchTag o = .set ∨ dispatchTag o = .mset)
    (hk : keysOf o = none) (M : PrecMono o) (a b : Json)
    (ha : a.setDoc = true) (hb : b.setDoc = true) (hbn : b.nullFree = true)
    (hbv : Merge.objVoidFree b = true) (HF : HashFaithful (stripPrec o) (subterms a ++ subterms b)) :
    ∃ r, patchAll sw a (diffM o a b) = .ok r ∧ equals o r b = true ∧
      equals (stripPrec o) r b = true ∧ equivB (stripPrec o) r b = true ∧
      (dispatchTag o = .set → equivB o r b = true) := by
  have hr : a.rawDoc = true := by
    have := ha; simp only [Json.setDoc, Bool.and_eq_true] at this; exact this.1.1.1
  obtain ⟨r, h1, h2, h3⟩ := DPK.merge_diff_then_patch_setmodes F L sw (stripPrec o)
    (by simpa using hmg) (by simpa using hm) (by simpa using hk) (precOf_strip o) a b ha hb hbn hbv HF
  refine ⟨r, ?_, equals_mono (dispatchTag_strip o) (precOf_strip o) M r b h2, h2, h3,
    fun hd => equivB_mono_set (dispatchTag_strip o) hd (precOf_strip o) M r b h3⟩
  rw [diffM_strip o hm a b hr]
  exact h1

/-- **C01, SetKeys + MERGE + Precision: the property holds exactly on the pairs without a clash**
    (`KM.clash`, read without the precision: two members of one array with the same identity and
    different content on both sides; then `Diff` emits a merge hunk below a keyed path element,
    which `Patch` rejects). -/
theorem merge_diff_then_patch_setkeys_precision_iff (F : FloatEq0) (L : FloatLaws) (sw : Bool)
    (o : Opts) (hmg : isMerge o = true) (hd : dispatchTag o = .set) (M : PrecMono o) (a b : Json)
    (ha : a.setDoc = true) (hb : b.setDoc = true)
    (HF : HashFaithful (stripPrec o) (subterms a ++ subterms b))
    (hbn : b.nullFree = true) (hbv : Merge.objVoidFree b = true) :
    (∃ r, patchAll sw a (diffM o a b) = .ok r ∧ equals o r b = true ∧ equivB o r b = true)
      ↔ KM.clash (stripPrec o) a b = false := by
  have hr : a.rawDoc = true := by
    have := ha; simp only [Json.setDoc, Bool.and_eq_true] at this; exact this.1.1.1
  have hmg' : isMerge (stripPrec o) = true := by simpa using hmg
  have hd' : dispatchTag (stripPrec o) = .set := by simpa using hd
  rw [diffM_strip o (.inl hd) a b hr]
  constructor
  · rintro ⟨r, h, _⟩
    cases hc : KM.clash (stripPrec o) a b with
    | false => rfl
    | true =>
      rw [KM.patch_err_of_clash F (stripPrec o) hmg' hd' (precOf_strip o) a b ha hb HF sw hc] at h
      cases h
  · intro hc
    obtain ⟨r, h1, h2, h3⟩ := KM.merge_diff_then_patch_setkeys_noclash F (stripPrec o) hmg' hd'
      (precOf_strip o) a b ha hb HF L sw hbn hbv hc
    exact ⟨r, h1, equals_mono (dispatchTag_strip o) (precOf_strip o) M r b h2,
      equivB_mono_set (dispatchTag_strip o) hd (precOf_strip o) M r b h3⟩

/-! ## 5. C05: the diff is empty iff the documents are Equal WITHOUT the precision -/

theorem setReading_modes {o : Opts} (hm : DES.SetReading o) :
    dispatchTag o = .set ∨ dispatchTag o = .mset := by
  rcases hm with ⟨h, _⟩ | h
  · exact .inl h
  · exact .inr h

theorem setReading_strip {o : Opts} (hm : DES.SetReading o) : DES.SetReading (stripPrec o) := by
  unfold DES.SetReading at hm ⊢
  simpa using hm

/-- **C05 (⇒), SET / MULTISET with a Precision, strict or MERGE**: an empty diff means `Equals`
    under the options (no hash hypothesis), and even `Equals` without the precision. -/
theorem equals_of_diffM_nil_precision (o : Opts) (hm : DES.SetReading o) (M : PrecMono o)
    (a b : Json) (hr : a.rawDoc = true) (hw : a.wf = true) (hw' : b.wf = true)
    (h : diffM o a b = []) : equals o a b = true ∧ equals (stripPrec o) a b = true := by
  rw [diffM_strip o (setReading_modes hm) a b hr] at h
  have e := DES.equals_of_diffM_nil (stripPrec o) (setReading_strip hm) (precOf_strip o) a b hr hw hw' h
  exact ⟨equals_mono (dispatchTag_strip o) (precOf_strip o) M a b e, e⟩

/-- **C05, what is true in the SET / MULTISET readings with a Precision**: the diff is empty iff
    the documents are `Equals` under the options WITHOUT the precision. -/
theorem diffM_nil_iff_equals_strip (o : Opts) (hm : DES.SetReading o) (a b : Json)
    (hr : a.rawDoc = true) (hw : a.wf = true) (hw' : b.wf = true)
    (FH : DES.DiffFaithful (stripPrec o) (subterms a) (subterms b)) :
    diffM o a b = [] ↔ equals (stripPrec o) a b = true := by
  rw [diffM_strip o (setReading_modes hm) a b hr]
  exact DES.diffM_nil_iff_equals (stripPrec o) (setReading_strip hm) (precOf_strip o) a b hr hw hw' FH

/-- **C05 with SetKeys and a Precision**: empty diff iff `Equals` without the precision; and an
    empty diff implies `Equals` under the full options. -/
theorem diffM_nil_iff_equals_strip_keys (F : FloatEq0) (o : Opts) (hd : dispatchTag o = .set)
    (a b : Json) (ha : a.setDoc = true) (hb : b.setDoc = true)
    (IA : DES.IdentInj (stripPrec o) (subterms a)) (IB : DES.IdentInj (stripPrec o) (subterms b))
    (KI : DES.KindSepI (stripPrec o) (subterms a) (subterms b))
    (KH : DES.KindSepH (stripPrec o) (subterms a) (subterms b))
    (FH : DES.DiffFaithful (stripPrec o) (subterms a) (subterms b)) :
    (diffM o a b = [] ↔ equals (stripPrec o) a b = true) ∧
    (PrecMono o → diffM o a b = [] → equals o a b = true) := by
  have hr : a.rawDoc = true := by
    have := ha; simp only [Json.setDoc, Bool.and_eq_true] at this; exact this.1.1.1
  have key := DES.diffM_nil_iff_equals_keys F (stripPrec o) (by simpa using hd) (precOf_strip o)
    a b ha hb IA IB KI KH FH
  rw [diffM_strip o (.inl hd) a b hr]
  exact ⟨key, fun M h => equals_mono (dispatchTag_strip o) (precOf_strip o) M a b (key.1 h)⟩

/-! ## 5b. C04: what `Equals` decides in the set readings with a Precision -/

mutual
/-- what `Equals` actually decides under SET / MULTISET / SetKeys with `Precision(eps)`: numbers
    OUTSIDE arrays are compared within `eps`, objects member by member, and an array — with
    everything below it — is compared as a set / bag for the equivalence WITHOUT the precision
    (numbers inside arrays must be equal). Written without hashes. -/
def equivP (o : Opts) : Json → Json → Bool
  | .obj kvs, .obj kvs' => kvs.length == kvs'.length && equivPKvs o kvs kvs'
  | .obj _, _ => false
  | .arr t xs, b => equivB (stripPrec o) (.arr t xs) b
  | .void, b => equivB o .void b
  | .null, b => equivB o .null b
  | .bool x, b => equivB o (.bool x) b
  | .num x, b => equivB o (.num x) b
  | .str x, b => equivB o (.str x) b
def equivPKvs (o : Opts) : List (String × Json) → List (String × Json) → Bool
  | [], _ => true
  | (k, v) :: r, kvs' =>
    (match alookup k kvs' with
     | some v' => equivP o v v'
     | none => false) && equivPKvs o r kvs'
end

theorem equals_arr_strip {o : Opts} (hm : dispatchTag o = .set ∨ dispatchTag o = .mset)
    (xs : List Json) (b : Json) (hb : ∀ t ys, b = .arr t ys → t = .raw) :
    equals o (.arr .raw xs) b = equals (stripPrec o) (.arr .raw xs) b := by
  cases b with
  | arr t ys =>
    obtain rfl := hb t ys rfl
    rcases hm with hd | hd
    · rw [equals_arr_raw_set hd, equals_arr_raw_set (by simpa using hd)]
      simp only [hashCode_strip]
    · rw [equals_arr_raw_mset hd, equals_arr_raw_mset (by simpa using hd)]
      simp only [hashCode_strip]
  | _ => rcases hm with hd | hd <;> simp [equals, Json.dispatch, effTag, hd]

/-- **C04, SET / MULTISET / SetKeys with a Precision (partial: relative to hash faithfulness of the
    ARRAY nodes for the precision-free equivalence):** `Equals` is exactly `equivP`. -/
theorem equals_eq_equivP_core (F : FloatEq0) (o : Opts)
    (hm : dispatchTag o = .set ∨ dispatchTag o = .mset) :
    ∀ a b, DocOk a → DocOk b →
      (∀ x ∈ subterms a, ∀ y ∈ subterms b, x.isArr = true → y.isArr = true →
        hashCode o x = hashCode o y → equivB (stripPrec o) x y = true) →
      equals o a b = equivP o a b := by
  intro a
  induction a using jsonInd with
  | void => intro b _ _ _; cases b <;> simp [equals, equivP, equivB, Json.isVoid]
  | null => intro b _ _ _; cases b <;> simp [equals, equivP, equivB, Json.isNull]
  | bool x => intro b _ _ _; cases b <;> simp [equals, equivP, equivB]
  | num x => intro b _ _ _; cases b <;> simp [equals, equivP, equivB]
  | str x => intro b _ _ _; cases b <;> simp [equals, equivP, equivB]
  | arr t xs _ =>
    intro b ha hb hf
    have ht := ha.raw
    subst ht
    rw [equals_arr_strip hm xs b (fun t ys e => by subst e; exact hb.raw), equivP]
    exact equals_eq_equivB_core F (stripPrec o) (by simpa using hm) (precOf_strip o) _ b ha hb
      (fun x hx y hy h1 h2 e => hf x hx y hy h1 h2 (by rw [← hashCode_strip, e, hashCode_strip]))
  | obj kvs ih =>
    intro b ha hb hf
    cases b with
    | obj kvs' =>
      have key : ∀ r : List (String × Json), (∀ kv ∈ r, kv ∈ kvs) →
          equalsKvs o r kvs' = equivPKvs o r kvs' := by
        intro r
        induction r with
        | nil => intro _; simp [equalsKvs, equivPKvs]
        | cons kv r ihr =>
          intro hsub
          obtain ⟨k, v⟩ := kv
          rw [equalsKvs, equivPKvs, ihr (fun kv h => hsub kv (List.mem_cons_of_mem _ h))]
          cases hl : alookup k kvs' with
          | none => rfl
          | some v' =>
            have hm1 : (k, v) ∈ kvs := hsub _ List.mem_cons_self
            have hm2 : (k, v') ∈ kvs' := mem_of_alookup hl
            have := ih k v hm1 v' (ha.val hm1) (hb.val hm2)
              (fun x hx y hy => hf x (subterms_val_sub hm1 hx) y (subterms_val_sub hm2 hy))
            simp [this]
      simp [equals, equivP, key kvs (fun _ h => h)]
    | _ => simp [equals, equivP]

/-- the same, for documents as read from text and `HashFaithful` without the precision -/
theorem equals_eq_equivP (F : FloatEq0) (o : Opts)
    (hm : dispatchTag o = .set ∨ dispatchTag o = .mset) (a b : Json)
    (ha : a.setDoc = true) (hb : b.setDoc = true)
    (hf : HashFaithful (stripPrec o) (subterms a ++ subterms b)) :
    equals o a b = equivP o a b :=
  equals_eq_equivP_core F o hm a b (docOk_of_setDoc ha) (docOk_of_setDoc hb)
    (fun x hx y hy _ _ e =>
      hf x (List.mem_append.2 (Or.inl hx)) y (List.mem_append.2 (Or.inr hy))
        (by rw [hashCode_strip, e, hashCode_strip]))

/-- without a precision `equivP` is the advertised equivalence -/
theorem equivP_eq_equivB_noPrec (o : Opts) (hs : stripPrec o = o) :
    ∀ a b, equivP o a b = equivB o a b := by
  intro a
  induction a using jsonInd with
  | void => intro b; rw [equivP]
  | null => intro b; rw [equivP]
  | bool x => intro b; rw [equivP]
  | num x => intro b; rw [equivP]
  | str x => intro b; rw [equivP]
  | arr t xs _ => intro b; rw [equivP, hs]
  | obj kvs ih =>
    intro b
    cases b with
    | obj kvs' =>
      have key : ∀ r : List (String × Json), (∀ kv ∈ r, kv ∈ kvs) →
          equivPKvs o r kvs' = equivKvs o r kvs' := by
        intro r
        induction r with
        | nil => intro _; simp [equivPKvs, equivKvs]
        | cons kv r ihr =>
          intro hsub
          obtain ⟨k, v⟩ := kv
          rw [equivPKvs, equivKvs, ihr (fun kv h => hsub kv (List.mem_cons_of_mem _ h))]
          cases hl : alookup k kvs' with
          | none => rfl
          | some v' => simp [ih k v (hsub _ List.mem_cons_self) v']
      simp [equivP, equivB, key kvs (fun _ h => h)]
    | _ => simp [equivP, equivB]

/-- SET / SetKeys reading: what `Equals` decides is FINER than the advertised equivalence
    (the converse fails: `Witness.equals_exact_inside_arrays`) -/
theorem equivB_of_equivP {o : Opts} (hd : dispatchTag o = .set) (M : PrecMono o) :
    ∀ a b, equivP o a b = true → equivB o a b = true := by
  intro a
  induction a using jsonInd with
  | void => intro b e; rwa [equivP] at e
  | null => intro b e; rwa [equivP] at e
  | bool x => intro b e; rwa [equivP] at e
  | num x => intro b e; rwa [equivP] at e
  | str x => intro b e; rwa [equivP] at e
  | arr t xs _ =>
    intro b e
    rw [equivP] at e
    exact equivB_mono_set (dispatchTag_strip o) hd (precOf_strip o) M _ b e
  | obj kvs ih =>
    intro b e
    cases b with
    | obj kvs' =>
      simp only [equivP, equivB, Bool.and_eq_true] at e ⊢
      refine ⟨e.1, ?_⟩
      have key : ∀ r : List (String × Json), (∀ kv ∈ r, kv ∈ kvs) →
          equivPKvs o r kvs' = true → equivKvs o r kvs' = true := by
        intro r
        induction r with
        | nil => intro _ _; simp [equivKvs]
        | cons kv r ihr =>
          obtain ⟨k, v⟩ := kv
          intro hsub e2
          rw [equivPKvs, Bool.and_eq_true] at e2
          rw [equivKvs, Bool.and_eq_true]
          refine ⟨?_, ihr (fun kv hh => hsub kv (List.mem_cons_of_mem _ hh)) e2.2⟩
          cases hl : alookup k kvs' with
          | none => simp [hl] at e2
          | some v' =>
            have e1 := e2.1
            simp only [hl] at e1 ⊢
            exact ih k v (hsub _ List.mem_cons_self) v' e1
      exact key kvs (fun _ hh => hh) e.2
    | _ => simp [equivP] at e

/-! ## 6. witnesses -/

namespace Witness

/-- bit patterns of `1`, `1.00001`, `1.001`, `0.999` -/
abbrev one : UInt64 := 0x3ff0000000000000
abbrev oneE : UInt64 := 0x3ff0000a7c5ac472
abbrev n1001 : UInt64 := 0x3ff004189374bc6a
abbrev n999 : UInt64 := 0x3feff7ced916872b

/-- `[1]` -/
def wa : Json := .arr .raw [.num one]
/-- `[1.00001]` -/
def wb : Json := .arr .raw [.num oneE]

theorem hash_set_prec (eps : UInt64) (x : Json) : hashCode [.set, .prec eps] x = hashCode [.set] x :=
  hashCode_optcongr (o := [.set, .prec eps]) (o' := [.set]) rfl x
theorem hash_mset_prec (eps : UInt64) (x : Json) :
    hashCode [.mset, .prec eps] x = hashCode [.mset] x :=
  hashCode_optcongr (o := [.mset, .prec eps]) (o' := [.mset]) rfl x

/-- **C04 as worded is false for SET / MULTISET with a Precision**: `[1]` and `[1.00001]` are
    equivalent for the advertised equivalence under `Precision(eps)` as soon as
    `|1 - 1.00001| ≤ eps` (IEEE fact `h1`, e.g. `eps = 0.001`), but `Equals` says NO for every
    `eps`: members of arrays are compared through hash codes, which ignore the precision. -/
theorem equals_exact_inside_arrays (eps : UInt64) (h1 : numWithin eps one oneE = true) :
    equals [.set, .prec eps] wa wb = false ∧ equivB [.set, .prec eps] wa wb = true ∧
    equals [.mset, .prec eps] wa wb = false ∧ equivB [.mset, .prec eps] wa wb = true := by
  refine ⟨?_, ?_, ?_, ?_⟩
  · rw [wa, wb, equals_arr_raw_set rfl, hash_set_prec, hash_set_prec]; decide +kernel
  · simp [wa, wb, equivB, dispatchTag, allIn, allCovered, anyEquiv, precOf, h1]
  · rw [wa, wb, equals_arr_raw_mset rfl, hash_mset_prec, hash_mset_prec]; decide +kernel
  · simp [wa, wb, equivB, dispatchTag, bagSub, removeFirst, precOf, h1]

/-- **C05 (⇐) is false in the set readings with a Precision** (KF-C05-precision outside arrays):
    `{"a":x}` vs `{"a":y}` with `|x - y| ≤ eps` but not `|x - y| ≤ 0`: `Equals`, non-empty diff. -/
theorem converse_fails_member (o : Opts) (x y : UInt64) (h1 : numWithin (precOf o) x y = true)
    (h0 : numWithin 0 x y = false) :
    equals o (.obj [("a", .num x)]) (.obj [("a", .num y)]) = true ∧
    diffM o (.obj [("a", .num x)]) (.obj [("a", .num y)]) ≠ [] := by
  constructor
  · simp [equals, equalsKvs, alookup, h1]
  · unfold diffM
    rw [DE.diffNode_obj_obj, diffKvs.eq_def]
    simp only [alookup, if_true]
    rw [DE.diffNode_scalar _ _ _ _ (fun _ _ e => by cases e) (fun _ e => by cases e)]
    cases isMerge o <;> simp [diffCommon, equals, precOf, h0]

/-- the three-element bags `[1, 1.001, 0.999]` and `[0.999, 1, 1.001]` -/
def ga : Json := .arr .raw [.num one, .num n1001, .num n999]
def gb : Json := .arr .raw [.num n999, .num one, .num n1001]

/-- **The spec `equivB` is not a sound reading of "bags, numbers within eps"**: its bag comparison
    is a greedy matching, and "within eps" is not transitive. `gb` is a permutation of `ga`; `Equals`
    says yes (same bag of hash codes); `equivB` says NO when `|1 - 0.999| ≤ eps`, `|1.001 - 1| ≤ eps`
    but not `|0.999 - 1.001| ≤ eps` (e.g. `eps = 0.0015`). So `equivB` is not monotone in the
    precision in the MULTISET reading, and not even permutation invariant. -/
theorem greedy_bag_not_monotone (eps : UInt64) (h1 : numWithin eps one n999 = true)
    (h2 : numWithin eps n1001 one = true) (h3 : numWithin eps n999 n1001 = false) :
    equals [.mset, .prec eps] ga gb = true ∧ equivB [.mset, .prec eps] ga gb = false := by
  constructor
  · rw [ga, gb, equals_arr_raw_mset rfl, hash_mset_prec, hash_mset_prec]; decide +kernel
  · simp [ga, gb, equivB, dispatchTag, bagSub, removeFirst, precOf, h1, h2, h3]

theorem g_faithful : DES.DiffFaithful [.mset] (subterms ga) (subterms gb) :=
  DES.diffFaithful_of_check (by decide +kernel)

/-- consequence for C01 in the MULTISET reading with a Precision: the diff of `ga` and `gb` is
    empty, so diff-then-patch returns `ga`, which `Equals` `gb` but is NOT `equivB`-equivalent to it
    under the full options: the conclusion `equivB o r b` of the SET theorem cannot be had here. -/
theorem mset_equivB_conclusion_fails (eps : UInt64) (h1 : numWithin eps one n999 = true)
    (h2 : numWithin eps n1001 one = true) (h3 : numWithin eps n999 n1001 = false) :
    patchM ga (diffM [.mset, .prec eps] ga gb) = .ok ga ∧
    equals [.mset, .prec eps] ga gb = true ∧ equivB [.mset, .prec eps] ga gb = false := by
  have hd : diffM [.mset, .prec eps] ga gb = [] := by
    rw [diffM_nil_iff_equals_strip [.mset, .prec eps] (.inr rfl) ga gb (by decide) (by decide)
      (by decide) g_faithful]
    show equals [.mset] ga gb = true
    decide +kernel
  refine ⟨by rw [hd]; rfl, greedy_bag_not_monotone eps h1 h2 h3⟩

/-- **`PrecMono o` is what is used, and it is needed**: if a number were within `+0` of another
    but not within the precision of `o` — which IEEE arithmetic excludes for `eps ≥ +0`, but which
    HAPPENS for a negative or NaN `eps` with `x = y` (`Precision(-1)` is accepted by the library) —
    the diff is empty, diff-then-patch returns `x`, and `x` does not `Equals` `y` under `o`.
    Any option list (SET, MULTISET, SetKeys, MERGE or not). -/
theorem precMono_used (sw : Bool) (o : Opts) (x y : UInt64) (h0 : numWithin 0 x y = true)
    (h1 : numWithin (precOf o) x y = false) :
    patchAll sw (.num x) (diffM o (.num x) (.num y)) = .ok (.num x) ∧
      equals o (.num x) (.num y) = false := by
  have hd : diffM o (.num x) (.num y) = [] := by
    unfold diffM
    rw [DE.diffNode_scalar _ _ _ _ (fun _ _ e => by cases e) (fun _ e => by cases e)]
    simp [diffCommon, equals, precOf, h0]
  refine ⟨?_, by simp [equals, h1]⟩
  rw [hd]; simp [patchAll]

end Witness

/-! ## 7. non-vacuity -/

namespace Example
open Witness (one oneE)

abbrev two : UInt64 := 0x4000000000000000
/-- `0.001` -/
abbrev eps : UInt64 := 0x3f50624dd2f1a9fc

/-- `{"n":1,"s":[1,{"k":2}]}` -/
def exA : Json := .obj [("n", .num one), ("s", .arr .raw [.num one, .obj [("k", .num two)]])]
/-- `{"n":1.00001,"s":[{"k":2},1.00001]}`: the number outside the array moved by less than `eps`
    (Equal under the precision, reported by the diff all the same), the array lost `1` and gained
    `1.00001` (different members: hash codes ignore the precision) -/
def exB : Json := .obj [("n", .num oneE), ("s", .arr .raw [.obj [("k", .num two)], .num oneE])]

def oS : Opts := [.set, .prec eps]
def oM : Opts := [.mset, .prec eps]

theorem ex_docs : exA.setDoc = true ∧ exB.setDoc = true ∧ DPL.memOK exA = true ∧
    DPL.memOK exB = true := by decide

theorem ex_strip : stripPrec oS = [.set] ∧ stripPrec oM = [.mset] := ⟨rfl, rfl⟩

/-- no two sub-terms of the example collide (relative to `|x - x| ≤ 0` for `1`, `1.00001`, `2`) -/
theorem ex_hashFaithful_set (L : FloatLaws) :
    HashFaithful (stripPrec oS) (subterms exA ++ subterms exB) := by
  have r1 := L.refl 0 one (by decide) (by decide)
  have r2 := L.refl 0 oneE (by decide) (by decide)
  have r3 := L.refl 0 two (by decide) (by decide)
  intro x hx y hy
  simp only [exA, exB, subterms, subtermsList, subtermsKvs, List.cons_append, List.nil_append,
    List.append_nil, List.mem_cons, List.not_mem_nil, or_false] at hx hy
  rcases hx with rfl | rfl | rfl | rfl | rfl | rfl | rfl | rfl | rfl | rfl | rfl | rfl <;>
  rcases hy with rfl | rfl | rfl | rfl | rfl | rfl | rfl | rfl | rfl | rfl | rfl | rfl <;>
  first
  | (intro _; simp [oS, stripPrec, equivB, dispatchTag, allIn, allCovered, anyEquiv, equivKvs,
      alookup, precOf, r1, r2, r3]; done)
  | (intro e; exact absurd e (by decide +kernel))

theorem ex_hashFaithful_mset (L : FloatLaws) :
    HashFaithful (stripPrec oM) (subterms exA ++ subterms exB) := by
  have r1 := L.refl 0 one (by decide) (by decide)
  have r2 := L.refl 0 oneE (by decide) (by decide)
  have r3 := L.refl 0 two (by decide) (by decide)
  intro x hx y hy
  simp only [exA, exB, subterms, subtermsList, subtermsKvs, List.cons_append, List.nil_append,
    List.append_nil, List.mem_cons, List.not_mem_nil, or_false] at hx hy
  rcases hx with rfl | rfl | rfl | rfl | rfl | rfl | rfl | rfl | rfl | rfl | rfl | rfl <;>
  rcases hy with rfl | rfl | rfl | rfl | rfl | rfl | rfl | rfl | rfl | rfl | rfl | rfl <;>
  first
  | (intro _; simp [oM, stripPrec, equivB, dispatchTag, bagSub, removeFirst, equivKvs,
      alookup, precOf, r1, r2, r3]; done)
  | (intro e; exact absurd e (by decide +kernel))

/-- the SET theorem describes an actual run (only IEEE-754 facts are left as assumptions) -/
theorem ex_set (F : FloatEq0) (L : FloatLaws) (M : PrecMono oS) :
    ∃ r, patchM exA (diffM oS exA exB) = .ok r ∧ equals oS r exB = true ∧
      equivB oS r exB = true :=
  diff_then_patch_set_precision F L true oS rfl rfl rfl M exA exB ex_docs.1 ex_docs.2.1
    ex_docs.2.2.1 ex_docs.2.2.2 (ex_hashFaithful_set L)

theorem ex_mset (F : FloatEq0) (L : FloatLaws) (M : PrecMono oM) :
    ∃ r, patchM exA (diffM oM exA exB) = .ok r ∧ equals oM r exB = true ∧
      equals [.mset] r exB = true ∧ equivB [.mset] r exB = true :=
  diff_then_patch_setmodes_precision F L true oM (.inr rfl) rfl rfl M exA exB ex_docs.1
    ex_docs.2.1 ex_docs.2.2.1 ex_docs.2.2.2 (ex_hashFaithful_mset L)

end Example

end Jd.SP
