/-
  JdProofs.CliRoundTripV1 (namespace `Jd.CliV1`) — property C14, last sentence ("feeding the output of
  `jd [flags] a b` to `jd -p [flags]` on a reproduces b"), for the V1 LIBRARY: binary B (/repo/main.go)
  started with `-v2=false` calls package `lib` (`printDiff`, `printPatch`, `parseMetadata`).
  JdProofs.CliRoundTrip / CliRoundTripModes prove the round trip for `Ls false = nativeLib nc Y` (v2
  library) only; here the `CliRT.Lib` instance of the v1 model is built and the same statements are
  proved for `libIsV1 b fl = true`.

  §1  `v1MetaOf`, `metasOf` — the `[]jd.Metadata` of `parseMetadata` as `V1.Metas`;
      `metasOf_parsedOptions` (for the v1 library `Plan.opts` is the `ofV1` image of
      `metadataOfTopV1 fl` and `metasOf` gives that list back), `metas_facts` (what `checkMetadata` /
      `getPrecision` read: SET = `-set`, MULTISET = `-mset`, MERGE = `-f merge`, precision =
      `-precision`).
  §2  `v1Lib nc Y : Lib Json V1.PDiff` — `readJsonM` (v1 `unmarshal` is the v2 one), `V1.diffM` with
      `metasOf opts`, `V1.renderM` (colour flag), `V1.renderPatchM`, `V1.renderMergeM`, `V1.readDiffM`,
      `V1.readPatchM`, `V1.readMergeM`, `V1.patchP`, and for `Json(metadata...)`
      `V1.jsonM nc (V1.dispatch m r)`: v1 `jsonArray.Json` dispatches the ROOT array on the metadata
      (array.go), so `jd -v2=false -set -p` prints a root array deduplicated and in hash order —
      replayed on the real binary: `[3,1,2,1]` with an empty diff prints `[3,2,1]`.
  §3  `v1_total_cli_round_trip` — the two-process step (`CliRTM.TwoRuns`) on `proc` for `v1Lib`, any
      format, from the three library facts (render, read back, patch).
  §4  LIBRARY LEVEL, native format, list reading, hypotheses on the INPUT documents only:
      `valOK_of_wtok`, `pathOK_of_idx`, `render_ok`, `list_diff_facts`, `v1_list_lib_round_trip` — the
      codec contract `V1S.CodecOK` and render success of `V1S.v1_text_roundtrip_list` are discharged
      from `Yaml.voidFree`, `JText.NumOK` of the two documents (through `V1T.diff_valsP`,
      `V1R.diff_shape`, `JText.V1T.readJsonM_marshalNode`, `JText.readJsonM_text`) and the named
      hypothesis `IdxNumOK nc N` (the codec prints and reads back the float64 list indices below `N`
      and -1; `Float` is opaque to the kernel; `#eval` gives `true`).
  §5  `v1_native_cli_round_trip` — END TO END, native format, list reading (`-set -mset` absent, ANY
      `-setkeys`: in v1 `Setkeys` alone leaves arrays lists; `-precision` 0 or absent), no `-color`.
  §6  `v1_merge_lib_round_trip`, `v1_merge_cli_round_trip` — `-f merge` (any `-color`, any `-setkeys`),
      domain of `V1T.v1_merge_text_readback` plus equal documents; `mergeRTDom`, `nullFree` as for v2.
  §7  `v1_patch_cli_round_trip` — `-f patch`, list reading, precision 0, no key `-`.
  §8  `v1_setmodes_cli_round_trip` — native format with `-set` / `-mset` (SET wins when both), codec
      contract as a hypothesis on the paths and values of the diff (`hp`, `hv`).
  §9  `v1_native_cli_round_trip_precision` — list reading with `-precision eps`, `eps ≥ 0` finite:
      `Equals` under the metadata, `equivB [Precision eps]`; codec contract on the diff (`hp`, `hv`).
  §10 `Example.ex_v1_cli_end_to_end`, `Example.ex_v1_merge_cli` — concrete files.

  NOT PROVED: `-color` (fails as for v2: `Render(COLOR)` output is rejected by `ReadDiffString`;
  evaluated on the model and on the real binary, exit 2); `-set` / `-mset` with `-setkeys`, with
  `-f merge` / `-f patch`, or with a precision; `-f merge` / `-f patch` with a precision; the codec
  contract of §8 / §9 from the input documents (needs the analogue of `V1T.diff_valsP` /
  `V1R.diff_shape` for the set readings resp. for `V1Pr.ListReading`).
-/
import JdModel
import JdSpec
import JdProofs.CliProofs
import JdProofs.CliRoundTrip
import JdProofs.CliRoundTripModes
import JdProofs.JsonTextRoundTrip
import JdProofs.V1ListDiffPatch
import JdProofs.V1SetDiffPatch
import JdProofs.V1PatchRender
import JdProofs.V1MergeRender
import JdProofs.V1JsonText
import JdProofs.V1Precision

set_option linter.unusedVariables false
set_option autoImplicit false

namespace Jd.CliV1
open Jd Jd.Spec Jd.Cli Jd.CliRT Jd.CliRTM

/-! ## 1. the metadata `main` hands to the v1 library -/

/-- a v1 `Metadata` value of the CLI model as a metadata value of the v1 library model.  COLOR is a
    `RenderOption` that also implements `Metadata`; `checkMetadata`, `getPrecision`,
    `getSetkeysMetadata` and `dispatch` ignore it, and the library model has no constructor for it. -/
def v1MetaOf : Cli.Meta → Option V1.Meta
  | .MERGE => some .merge
  | .SET => some .set
  | .MULTISET => some .mset
  | .COLOR => none
  | .SetPrecision e => some (.prec e)
  | .Setkeys ks => some (.setkeys ks)

/-- the metadata list of the v1 library for the option list of a plan (`Plan.opts` is in v2 naming:
    for the v1 library it is the image under `ofV1` of what `parseMetadata` built; `toV1` undoes it) -/
def metasOf (o : List Opt) : V1.Metas := (o.map toV1).filterMap v1MetaOf

theorem toV1_ofV1 (x : Cli.Meta) : toV1 (ofV1 x) = x := by cases x <;> rfl

/-- **the metadata are those of `parseMetadata`**: when binary B runs the v1 library, the option
    list of the plan is the image of the `[]jd.Metadata` that `parseMetadata` of /repo/main.go built,
    and `metasOf` gives that list back, constructor by constructor -/
theorem metasOf_parsedOptions {b : Binary} {fl : Flags} {opts : List Opt}
    (hv1 : libIsV1 b fl = true) (ho : parsedOptions b fl = .ok opts) :
    ∃ ms, metadataOfTopV1 fl = .ok ms ∧ opts = ms.map ofV1 ∧ metasOf opts = ms.filterMap v1MetaOf := by
  have hb : b ≠ .v2jd := by intro e; subst e; simp [libIsV1] at hv1
  have : parsedOptions b fl = (metadataOfTopV1 fl).map (List.map ofV1) := by
    cases b <;> simp_all [parsedOptions]
  rw [this] at ho
  cases hm : metadataOfTopV1 fl with
  | error e => rw [hm] at ho; cases ho
  | ok ms =>
    rw [hm] at ho
    have e : opts = ms.map ofV1 := by cases ho; rfl
    refine ⟨ms, rfl, e, ?_⟩
    subst e
    simp only [metasOf, List.map_map]
    congr 1
    conv => rhs; rw [← List.map_id ms]
    apply List.map_congr_left
    intro x _
    exact toV1_ofV1 x

/-- what the v1 library reads off the metadata list, in terms of the flags -/
theorem metas_facts {b : Binary} {fl : Flags} {opts : List Opt}
    (ho : parsedOptions b fl = .ok opts) :
    V1.hasSet (metasOf opts) = fl.set ∧ V1.hasMset (metasOf opts) = fl.mset ∧
    V1.hasMerge (metasOf opts) = (fl.f == "merge") ∧ V1.precOf (metasOf opts) = fl.precision := by
  rw [parsedOptions_same] at ho
  unfold optionsOf at ho
  split at ho
  · cases ho
  · split at ho
    · cases ho
    · rename_i ks hks
      cases ho
      cases hs : fl.set <;> cases hms : fl.mset <;> cases hf : (fl.f == "merge") <;> cases ks <;>
        simp [metasOf, toV1, v1MetaOf, V1.hasSet, V1.hasMset, V1.hasMerge, V1.precOf]

/-! ## 2. the v1 library of the model as a `Lib` -/

/-- `Render` has no error result in Go: a text the codec cannot print (`.ok none`), and the panic of
    `raw()` on a nil metadata entry, which `cliM` does not represent, are mapped to the empty text -/
def textOrEmpty : Jd.Outcome (Option String) → String
  | .ok (some s) => s
  | _ => ""

def liftOutcome : Jd.Outcome V1.VDiff → Jd.Outcome V1.PDiff
  | .ok d => .ok (V1.liftDiff d)
  | .err => .err
  | .panic => .panic

/-- **the v1 library functions of the model, in the shape `printDiff` / `printPatch` of /repo/main.go
    call them** (`-v2=false`).  Documents: `Json`; diffs: `V1.PDiff` (what `ReadPatchString` returns
    may hold `jsonStringOrInteger` tokens; `Diff` and the other two readers give node-only paths,
    lifted with `liftDiff`).
      readDoc   `jd.ReadJsonString` (the same `unmarshal` as v2: `readJsonM`) / `jd.ReadYamlString`
      diff      `aNode.Diff(bNode, metadata...)` with `metadata = metasOf opts`
      renderJd  `diff.Render()` / `diff.Render(jd.COLOR)`
      renderPatch / renderMerge   `diff.RenderPatch()` / `diff.RenderMerge()`
      readDiff  `jd.ReadDiffString` / `jd.ReadPatchString` / `jd.ReadMergeString`
      patch     `aNode.Patch(diff)`
      renderDoc `bNode.Json(metadata...)` / `bNode.Yaml(metadata...)`: in v1 `jsonArray.Json`
                dispatches the ROOT array on the metadata before printing (array.go), every other
                node kind ignores them: `V1.jsonM nc (V1.dispatch m n)`. -/
def v1Lib (nc : NumCodec) (Y : YamlCarrier) : Lib Json V1.PDiff where
  readDoc yaml s := if yaml then Y.read s else ofOutcome (readJsonM nc s)
  diff o a b := V1.liftDiff (V1.diffM (metasOf o) a b)
  diffLen d := d.length
  renderJd color d := textOrEmpty (V1.renderM nc color d)
  renderPatch d := ofOutcomeText (V1.renderPatchM nc d)
  renderMerge d := ofOutcomeText (V1.renderMergeM nc d)
  readDiff fmt s := ofOutcome (match fmt with
    | .jd => liftOutcome (V1.readDiffM nc s)
    | .patch => V1.readPatchM nc s
    | .merge => liftOutcome (V1.readMergeM nc s))
  patch a d := ofOutcome (V1.patchP a d)
  renderDoc yaml o n :=
    if yaml then Y.render o n else (V1.jsonM nc (V1.dispatch (metasOf o) n)).getD ""

theorem v1Lib_diff (nc : NumCodec) (Y : YamlCarrier) (o : List Opt) (a b : Json) :
    (v1Lib nc Y).diff o a b = V1.liftDiff (V1.diffM (metasOf o) a b) := rfl
theorem v1Lib_renderJd_plain (nc : NumCodec) (Y : YamlCarrier) (d : V1.PDiff) :
    (v1Lib nc Y).renderJd false d = textOrEmpty (V1.renderM nc false d) := rfl
theorem v1Lib_readDiff_jd (nc : NumCodec) (Y : YamlCarrier) (s : String) :
    (v1Lib nc Y).readDiff .jd s = ofOutcome (liftOutcome (V1.readDiffM nc s)) := rfl
theorem v1Lib_readDiff_merge (nc : NumCodec) (Y : YamlCarrier) (s : String) :
    (v1Lib nc Y).readDiff .merge s = ofOutcome (liftOutcome (V1.readMergeM nc s)) := rfl
theorem v1Lib_readDiff_patch (nc : NumCodec) (Y : YamlCarrier) (s : String) :
    (v1Lib nc Y).readDiff .patch s = ofOutcome (V1.readPatchM nc s) := rfl
theorem v1Lib_patch (nc : NumCodec) (Y : YamlCarrier) (a : Json) (d : V1.PDiff) :
    (v1Lib nc Y).patch a d = ofOutcome (V1.patchP a d) := rfl
theorem v1Lib_readDoc_json (nc : NumCodec) (Y : YamlCarrier) (s : String) :
    (v1Lib nc Y).readDoc false s = ofOutcome (readJsonM nc s) := rfl
theorem v1Lib_renderDoc_json (nc : NumCodec) (Y : YamlCarrier) (o : List Opt) (n : Json) :
    (v1Lib nc Y).renderDoc false o n = (V1.jsonM nc (V1.dispatch (metasOf o) n)).getD "" := rfl
theorem v1Lib_diffLen (nc : NumCodec) (Y : YamlCarrier) (d : V1.VDiff) :
    (v1Lib nc Y).diffLen (V1.liftDiff d) = d.length := by
  simp [v1Lib, V1.liftDiff]

/-- `n.Patch(d)` on a diff with node-only paths is `patchP` on the lifted diff -/
theorem patchP_lift (a : Json) (d : V1.VDiff) : V1.patchP a (V1.liftDiff d) = V1.patchM a d := rfl

/-! ## 3. the two processes, for the v1 library -/

/-- **total form of the CLI step on the PROCESS, for the model of the v1 library**: `Ls true` is
    `v1Lib nc Y` and the command line selects the v1 library (`libIsV1 b fl = true`: binary B with
    `-v2=false`).  If the two inputs are read and parsed, the diff renders to `T` in the format of
    `-f`, the reader of that format reads `T` back as `d'` and `Patch` of `d'` on `a` gives `r`,
    then the first process does not fail and emits `T`, the second exits 0 and emits
    `Json(metadata…)` / `Yaml(metadata…)` of `r`. -/
theorem v1_total_cli_round_trip (nc : NumCodec) (Y : YamlCarrier)
    (Ls : Bool → LibPack) (hL : Ls true = ⟨Json, V1.PDiff, v1Lib nc Y⟩)
    (b : Binary) {fl fl2 : Flags} {e1 e2 : Env} {opts : List Opt} {fmt : Format}
    (hm : isDiffMode fl) (h : PatchTwin fl fl2) (hv1 : libIsV1 b fl = true)
    (ho : parsedOptions b fl = .ok opts) (hn : fl.nargs = 1 ∨ fl.nargs = 2)
    (hfmt : formatOf fl.f = some fmt)
    {ta tb : String} {a b' : Json}
    (hi1 : e1.in1 = .ok ta) (hi2 : e1.in2 = .ok tb) (hw1 : fl.o = "" ∨ e1.write = .ok ())
    (hra : (v1Lib nc Y).readDoc fl.yaml ta = .ok a)
    (hrb : (v1Lib nc Y).readDoc fl.yaml tb = .ok b')
    {T : String} {d' : V1.PDiff} {r : Json}
    (hren : renderAs (v1Lib nc Y) fmt fl.color (V1.liftDiff (V1.diffM (metasOf opts) a b')) = .ok T)
    (hrd : (v1Lib nc Y).readDiff fmt T = .ok d') (hpa : V1.patchP a d' = .ok r)
    (hT : e2.in1 = .ok (emitted (proc Ls b fl e1)))
    (ha : e2.in2 = e1.in1) (hw : fl2.o = "" ∨ e2.write = .ok ()) :
    TwoRuns (proc Ls b fl e1) (proc Ls b fl2 e2) fl fl2 T
      (firstExit (v1Lib nc Y) fmt (V1.liftDiff (V1.diffM (metasOf opts) a b')) T)
      ((v1Lib nc Y).renderDoc fl.yaml opts r) := by
  have hplan := planOf_diff_ok b hm ho hn
  rw [proc_diff Ls b e1 hplan] at hT ⊢
  rw [proc_twin Ls b e2 h ho]
  rw [hv1, hL] at hT ⊢
  simp only at hT ⊢
  exact total_core_round_trip (v1Lib nc Y) b hm h ho hn hfmt hi1 hi2 hw1 hra hrb hren hrd
    (by rw [v1Lib_patch, hpa]; rfl) hT ha hw

/-! ## 4. LIBRARY LEVEL, native format, list reading: the codec contract and render success from
      hypotheses on the INPUT documents -/

section ListLib
open Jd.V1P (plain HOK ListMode IdxLaws lenLe vfree)

/-- the number codec on list indices: v1 writes a list index into a diff path as the float64
    `jsonNumber(i)` and the append index as `jsonNumber(-1)`; `Float` is opaque to the kernel, so that
    the codec prints these numbers and reads them back (`JText.numOK`; true of `strconv` for every
    `i < 2^53`) is a named hypothesis, needed for the indices below `N` only -/
structure IdxNumOK (nc : NumCodec) (N : Nat) : Prop where
  nat : ∀ i : Nat, i < N → JText.numOK nc (Float.ofNat i).toBits = true
  neg1 : JText.numOK nc (Float.ofInt (-1)).toBits = true

/-- the part of the text domain inherited by the parts of a document -/
def WTOK (nc : NumCodec) (v : Json) : Prop :=
  v.wf = true ∧ Yaml.voidFree v = true ∧ JText.NumOK nc v = true

theorem WTOK.closed (nc : NumCodec) : V1T.Closed (WTOK nc) where
  elem := by
    intro t xs x h hx
    have hw : wfList xs = true := by simpa [Json.wf] using h.1
    exact ⟨DES.wfList_mem hw hx, ((V1T.TOK.closed nc).elem ⟨h.2.1, h.2.2⟩ hx)⟩
  member := by
    intro kvs k v h hx
    have hw : wfKvs kvs = true := by
      have := h.1; simp only [Json.wf, Bool.and_eq_true] at this; exact this.2
    exact ⟨DES.wfKvs_mem hw hx, ((V1T.TOK.closed nc).member ⟨h.2.1, h.2.2⟩ hx)⟩
  retag := by
    intro t xs t' h
    exact ⟨by simpa [Json.wf] using h.1, (V1T.TOK.closed nc).retag t' ⟨h.2.1, h.2.2⟩⟩

/-- a value of the text domain that is a list document is printed by `json.Marshal(node)`, the text
    has no newline, and `ReadJsonString` of the payload gives the value back up to array tags -/
theorem valOK_of_wtok (nc : NumCodec) {v : Json} (hl : v.listDoc = true) (h : WTOK nc v) :
    (V1.marshalNode nc v).isSome = true ∧ V1S.ValOK nc v := by
  have hp : JText.preOK nc v = true := by rw [JText.preOK_iff, h.1, h.2.1, h.2.2]; rfl
  obtain ⟨s, hs, hnl, hrd⟩ :=
    JText.V1T.readJsonM_marshalNode nc v (JText.mOK_of_preOK nc v hp) [' '] [] (by decide) rfl
  refine ⟨by rw [hs]; rfl, ?_⟩
  intro t ht
  rw [hs] at ht
  cases ht
  refine ⟨hnl, ?_⟩
  rw [V1T.mnorm_listDoc v hl h.2.1] at hrd
  have e : " " ++ s = String.ofList ([' '] ++ s.toList ++ []) := by
    rw [← String.toList_inj]; simp [String.toList_append]
  rw [e]; exact hrd

/-- a plain path whose index elements are `jsonNumber(-1)` or `jsonNumber(k)`, `k < N` -/
theorem preOKList_path (nc : NumCodec) {N : Nat} (J : IdxNumOK nc N) :
    ∀ p : List Json, plain p = true → V1R.idxP N p →
      JText.preOKList nc p = true ∧ rawDocList p = true
  | [], _, _ => ⟨rfl, rfl⟩
  | x :: r, hp, hi => by
    have ih : plain r = true → JText.preOKList nc r = true ∧ rawDocList r = true := fun h =>
      preOKList_path nc J r h (fun e he => hi e (List.mem_cons_of_mem _ he))
    cases x with
    | str s =>
      obtain ⟨i1, i2⟩ := ih (by simpa [plain] using hp)
      simp [JText.preOKList, JText.preOK, rawDocList, Json.rawDoc, i1, i2]
    | num bts =>
      obtain ⟨i1, i2⟩ := ih (by simpa [plain] using hp)
      have hn : JText.numOK nc bts = true := by
        rcases hi (.num bts) List.mem_cons_self bts rfl with e | ⟨k, hk, e⟩
        · have : bts = (Float.ofInt (-1)).toBits := by simpa [V1.numNeg1] using e
          rw [this]; exact J.neg1
        · have : bts = (Float.ofNat k).toBits := by simpa [V1.numOfNat] using e
          rw [this]; exact J.nat k hk
      simp [JText.preOKList, JText.preOK, rawDocList, Json.rawDoc, i1, i2, hn]
    | _ => simp [plain] at hp

/-- … such a path is printed, and the codec contract `V1S.PathOK` holds of it -/
theorem pathOK_of_idx (nc : NumCodec) {N : Nat} (J : IdxNumOK nc N) (p : List Json)
    (hp : plain p = true) (hi : V1R.idxP N p) :
    (jsonText nc (.arr .raw (V1.rawNormList p))).isSome = true ∧ V1S.PathOK nc p := by
  obtain ⟨h1, h2⟩ := preOKList_path nc J p hp hi
  have hpre : JText.preOK nc (.arr .raw p) = true := by simpa [JText.preOK] using h1
  have hraw : (Json.arr .raw p).rawDoc = true := by simpa [Json.rawDoc] using h2
  rw [V1S.rawNormList_plain p hp]
  obtain ⟨s, hs⟩ := JText.jsonText_some nc _ hpre
  refine ⟨by rw [hs]; rfl, ?_⟩
  unfold V1S.PathOK
  rw [V1S.rawNormList_plain p hp]
  intro t ht
  rw [hs] at ht
  cases ht
  refine ⟨JText.jsonText_noNL nc _ s hpre hs, ?_⟩
  have := JText.readJsonM_text nc _ s hpre hraw hs [' '] [] (by decide) rfl
  have e : " " ++ s = String.ofList ([' '] ++ s.toList ++ []) := by
    rw [← String.toList_inj]; simp [String.toList_append]
  rw [e]; exact this

/-- `Render` succeeds on a diff whose paths can be written and printed and whose non-void values
    can be printed -/
theorem render_ok (nc : NumCodec) (d : V1.VDiff) (hm : ∀ h ∈ d, V1S.metaOK h.path = true)
    (hp : ∀ h ∈ d, (jsonText nc (.arr .raw (V1.rawNormList h.path))).isSome = true)
    (hv : ∀ h ∈ d, ∀ v ∈ h.old ++ h.new, v.isVoid = false → (V1.marshalNode nc v).isSome = true) :
    ∃ text, V1.renderM nc false (V1.liftDiff d) = .ok (some text) := by
  rw [V1S.renderM_lines nc d hm]
  have hall : (optAll (d.map (V1S.hunkLines nc))).isSome = true := by
    apply E2E.optAll_isSome
    intro x hx
    obtain ⟨h, hh, rfl⟩ := List.mem_map.1 hx
    obtain ⟨pt, hpt⟩ := Option.isSome_iff_exists.1 (hp h hh)
    have ho : (optAll ((V1S.oldVals h).map (V1S.remLine nc))).isSome = true := by
      apply E2E.optAll_isSome
      intro y hy
      obtain ⟨v, hv', rfl⟩ := List.mem_map.1 hy
      obtain ⟨t, ht⟩ := Option.isSome_iff_exists.1
        (hv h hh v (V1S.mem_oldVals hv').1 (V1S.mem_oldVals hv').2)
      simp [V1S.remLine, ht]
    have hn : (optAll ((V1S.newVals h).map (V1S.addLine nc))).isSome = true := by
      apply E2E.optAll_isSome
      intro y hy
      obtain ⟨v, hv', rfl⟩ := List.mem_map.1 hy
      unfold V1S.addLine
      by_cases hvv : v.isVoid = true
      · simp [hvv]
      · obtain ⟨t, ht⟩ := Option.isSome_iff_exists.1
          (hv h hh v (V1S.mem_newVals hv') (by simpa using hvv))
        simp [hvv, ht]
    obtain ⟨o, ho'⟩ := Option.isSome_iff_exists.1 ho
    obtain ⟨n, hn'⟩ := Option.isSome_iff_exists.1 hn
    simp [V1S.hunkLines, hpt, ho', hn']
  obtain ⟨ls, hls⟩ := Option.isSome_iff_exists.1 hall
  exact ⟨NativeRT.unlines ls.flatten, by simp [V1S.diffLines, hls]⟩

/-- what is known of every hunk of a list-mode v1 diff of two documents of the text domain -/
theorem list_diff_facts (nc : NumCodec) {N : Nat} (m : V1.Metas) (hm : ListMode m) (a b : Json)
    (ha1 : a.listDoc = true) (ha2 : a.wf = true) (ha3 : a.finiteNums = true)
    (ha4 : Yaml.voidFree a = true) (ha5 : lenLe N a = true) (ha6 : JText.NumOK nc a = true)
    (hb1 : b.listDoc = true) (hb2 : b.wf = true) (hb3 : b.finiteNums = true)
    (hb4 : Yaml.voidFree b = true) (hb6 : JText.NumOK nc b = true) :
    ∀ h ∈ V1.diffM m a b, plain h.path = true ∧ V1R.idxP N h.path ∧
      ∀ v ∈ h.old ++ h.new, v.listDoc = true ∧ WTOK nc v := by
  have hd : V1.diffM m a b = V1.diffNode m false a b [] := by
    unfold V1.diffM; rw [hm.noMerge]
  have va := V1T.vfree_of_voidFree a ha4
  have vb := V1T.vfree_of_voidFree b hb4
  have hbv := V1T.voidFree_notVoid hb4
  intro h hh
  rw [hd] at hh
  have k1 := ((V1P.diff_hunks m hm).1 a b ha1 hb1 h hh).1
  have k2 := (V1S.diff_vals m hm).1 a b ha1 hb1 va vb hbv h hh
  have k3 := (V1R.diff_shape N m hm).1 a b ha1 hb1 (V1P.Dom.mk' ha1 ha2 ha3 va)
    (V1P.Dom.mk' hb1 hb2 hb3 vb) ha5 h hh
  have k4 := (V1T.diff_valsP (WTOK nc) (WTOK.closed nc) m hm).1 a b ha1 hb1 ⟨ha2, ha4, ha6⟩
    ⟨hb2, hb4, hb6⟩ h hh
  refine ⟨k1.plain, k3.1.idx, ?_⟩
  intro v hv
  rcases List.mem_append.1 hv with hv | hv
  · exact ⟨V1S.listDocList_mem k2.old hv, k4.1 v hv⟩
  · exact ⟨V1S.listDocList_mem k2.new hv, k4.2 v hv⟩

/-- **LIBRARY LEVEL (v1), native format, list reading, hypotheses on the two documents only**:
    `a.Diff(b, m...)` is rendered by `Render()`, `ReadDiffString` reads the text back, and `a.Patch`
    of the diff read yields a document that `Equals` `b` (and is structurally equal to it).
    The codec contract `V1S.CodecOK` and render success of `V1S.v1_text_roundtrip_list` are
    discharged from `Yaml.voidFree`, `JText.NumOK` on `a`, `b` and `IdxNumOK nc N`. -/
theorem v1_list_lib_round_trip (L : FloatLaws) {N : Nat} (I : IdxLaws N) (nc : NumCodec)
    (J : IdxNumOK nc N) (m : V1.Metas) (hm : ListMode m) (a b : Json)
    (ha1 : a.listDoc = true) (ha2 : a.wf = true) (ha3 : a.finiteNums = true)
    (ha4 : Yaml.voidFree a = true) (ha5 : lenLe N a = true) (ha6 : JText.NumOK nc a = true)
    (hb1 : b.listDoc = true) (hb2 : b.wf = true) (hb3 : b.finiteNums = true)
    (hb4 : Yaml.voidFree b = true) (hb6 : JText.NumOK nc b = true) :
    ∃ text d' r, V1.renderM nc false (V1.liftDiff (V1.diffM m a b)) = .ok (some text) ∧
      V1.readDiffM nc text = .ok d' ∧ V1.patchM a d' = .ok r ∧ V1.equals m r b = true ∧
      specEq r b = true := by
  have F := list_diff_facts nc (N := N) m hm a b ha1 ha2 ha3 ha4 ha5 ha6 hb1 hb2 hb3 hb4 hb6
  have hc : V1S.CodecOK nc (V1.diffM m a b) := by
    intro h hh
    obtain ⟨f1, f2, f3⟩ := F h hh
    exact ⟨(pathOK_of_idx nc J h.path f1 f2).2,
      fun v hv _ => (valOK_of_wtok nc (f3 v hv).1 (f3 v hv).2).2⟩
  obtain ⟨text, hr⟩ := render_ok nc (V1.diffM m a b)
    (fun h hh => V1S.metaOK_plain h.path (F h hh).1)
    (fun h hh => (pathOK_of_idx nc J h.path (F h hh).1 (F h hh).2.1).1)
    (fun h hh v hv _ => (valOK_of_wtok nc ((F h hh).2.2 v hv).1 ((F h hh).2.2 v hv).2).1)
  obtain ⟨d', r, g1, g2, g3, g4⟩ :=
    V1S.v1_text_roundtrip_list L I nc m hm a b ha1 ha2 ha3 (V1T.vfree_of_voidFree a ha4) ha5
      hb1 hb2 hb3 (V1T.vfree_of_voidFree b hb4) (V1T.voidFree_notVoid hb4) hc text hr
  exact ⟨text, d', r, hr, g1, g2, g3, g4⟩

end ListLib

/-! ## 5. END TO END, native format, list reading, v1 library -/

section NativeCli
open Jd.V1P (ListMode IdxLaws lenLe)

/-- native format, color off: what `renderAs` / `readDiff` of `v1Lib` are -/
theorem renderAs_jd_plain_v1 (nc : NumCodec) (Y : YamlCarrier) (d : V1.PDiff) {text : String}
    (h : V1.renderM nc false d = .ok (some text)) : renderAs (v1Lib nc Y) .jd false d = .ok text := by
  simp [renderAs, v1Lib_renderJd_plain, h, textOrEmpty]

theorem readDiff_jd_ok_v1 (nc : NumCodec) (Y : YamlCarrier) {T : String} {d' : V1.VDiff}
    (h : V1.readDiffM nc T = .ok d') : (v1Lib nc Y).readDiff .jd T = .ok (V1.liftDiff d') := by
  rw [v1Lib_readDiff_jd, h]; rfl

/-- list reading on the command line (`-set`, `-mset` absent, native format, `-precision` 0 or
    absent; ANY `-setkeys`: in v1 `Setkeys` alone leaves arrays lists): the metadata are `ListMode` -/
theorem listMode_of_flags {b : Binary} {fl : Flags} {opts : List Opt}
    (ho : parsedOptions b fl = .ok opts) (hset : fl.set = false) (hmset : fl.mset = false)
    (hfmt : formatOf fl.f = some .jd) (hprec : fl.precision = 0) : ListMode (metasOf opts) := by
  obtain ⟨m1, m2, m3, m4⟩ := metas_facts ho
  exact ⟨by rw [m1, hset], by rw [m2, hmset], by rw [m3, not_merge_of_jd hfmt], by rw [m4, hprec]⟩

/-- without `-setkeys` the metadata list is `[SetPrecision(*precision)]` -/
theorem metasOf_list (b : Binary) {fl : Flags} (hset : fl.set = false) (hmset : fl.mset = false)
    (hkeys : fl.setkeys = "") (hfmt : formatOf fl.f = some .jd) :
    parsedOptions b fl = .ok [Opt.prec fl.precision] ∧
    metasOf [Opt.prec fl.precision] = [V1.Meta.prec fl.precision] :=
  ⟨parsedOptions_list b hset hmset hkeys hfmt, rfl⟩

/-- **END TO END, native format, list reading, v1 library** (`v1_native_cli_round_trip`): the
    analogue of `CliRT.native_cli_round_trip` for binary B started with `-v2=false`.
    `jd -v2=false [-setkeys ks] [-yaml] [-o F] a b` followed by
    `jd -v2=false -p [same flags] [-o G] T a`: the first process exits 0 or 1 (1 exactly when the
    text is not empty) and emits the text `T` of `a.Diff(b, metadata...)`; `ReadDiffString` reads
    `T` back, `a.Patch` of it gives `r`; `r` `Equals` `b` under the metadata and is structurally
    equal to it; the second process exits 0 and emits `r.Json(metadata...)` / `r.Yaml(metadata...)`.
    No library hypothesis and no hypothesis about the diff: only the two parsed documents, the flags
    and the two float / codec laws on list indices (`IdxLaws N`, `IdxNumOK nc N`). -/
theorem v1_native_cli_round_trip (FL : FloatLaws) {N : Nat} (I : IdxLaws N) (nc : NumCodec)
    (J : IdxNumOK nc N) (Y : YamlCarrier)
    (Ls : Bool → LibPack) (hL : Ls true = ⟨Json, V1.PDiff, v1Lib nc Y⟩)
    (b : Binary) {fl fl2 : Flags} {e1 e2 : Env} {opts : List Opt}
    (hm : isDiffMode fl) (h : PatchTwin fl fl2) (hv1 : libIsV1 b fl = true)
    (ho : parsedOptions b fl = .ok opts)
    (hset : fl.set = false) (hmset : fl.mset = false) (hprec : fl.precision = 0)
    (hfmt : formatOf fl.f = some .jd) (hcolor : fl.color = false)
    (hn : fl.nargs = 1 ∨ fl.nargs = 2)
    {ta tb : String} {a b' : Json}
    (hi1 : e1.in1 = .ok ta) (hi2 : e1.in2 = .ok tb) (hw1 : fl.o = "" ∨ e1.write = .ok ())
    (hra : (v1Lib nc Y).readDoc fl.yaml ta = .ok a)
    (hrb : (v1Lib nc Y).readDoc fl.yaml tb = .ok b')
    (ha1 : a.listDoc = true) (ha2 : a.wf = true) (ha3 : a.finiteNums = true)
    (ha4 : Yaml.voidFree a = true) (ha5 : lenLe N a = true) (ha6 : JText.NumOK nc a = true)
    (hb1 : b'.listDoc = true) (hb2 : b'.wf = true) (hb3 : b'.finiteNums = true)
    (hb4 : Yaml.voidFree b' = true) (hb6 : JText.NumOK nc b' = true)
    (hT : e2.in1 = .ok (emitted (proc Ls b fl e1)))
    (ha : e2.in2 = e1.in1) (hw : fl2.o = "" ∨ e2.write = .ok ()) :
    ∃ T d' r,
      V1.renderM nc false (V1.liftDiff (V1.diffM (metasOf opts) a b')) = .ok (some T) ∧
      V1.readDiffM nc T = .ok d' ∧ V1.patchM a d' = .ok r ∧
      V1.equals (metasOf opts) r b' = true ∧ specEq r b' = true ∧
      TwoRuns (proc Ls b fl e1) (proc Ls b fl2 e2) fl fl2 T (if T = "" then 0 else 1)
        ((v1Lib nc Y).renderDoc fl.yaml opts r) := by
  have hM := listMode_of_flags ho hset hmset hfmt hprec
  obtain ⟨T, d', r, g1, g2, g3, g4, g5⟩ :=
    v1_list_lib_round_trip FL I nc J (metasOf opts) hM a b' ha1 ha2 ha3 ha4 ha5 ha6
      hb1 hb2 hb3 hb4 hb6
  refine ⟨T, d', r, g1, g2, g3, g4, g5, ?_⟩
  have := v1_total_cli_round_trip nc Y Ls hL b hm h hv1 ho hn hfmt hi1 hi2 hw1 hra hrb
    (T := T) (d' := V1.liftDiff d') (r := r)
    (by rw [hcolor]; exact renderAs_jd_plain_v1 nc Y _ g1)
    (readDiff_jd_ok_v1 nc Y g2) (by rw [patchP_lift]; exact g3) hT ha hw
  simpa [firstExit] using this

end NativeCli

/-! ## 6. `-f merge` (RFC 7386 text), v1 library -/

section MergeCli
open Jd.Merge Jd.V1M

/-- **LIBRARY LEVEL (v1), `RenderMerge` / `ReadMergeString` / `Patch`**, equal documents included:
    composition of `V1T.v1_merge_text_readback` (the documents differ) with the empty diff (the text
    `{}` is read back as the empty diff, `Patch` returns `a`, which `Equals` `b`). -/
theorem v1_merge_lib_round_trip (L : FloatLaws) (nc : NumCodec) {m : V1.Metas} (hm : MergeMode m)
    (a b : Json) (haw : a.wf = true) (har : a.rawDoc = true)
    (hbw : b.wf = true) (hbr : b.rawDoc = true) (hbn : b.nullFree = true)
    (hbf : b.finiteNums = true) (hbv : Yaml.voidFree b = true) (hbN : JText.NumOK nc b = true)
    (hab : mergeRTDom a b = true) :
    ∃ text d' r, V1.renderMergeM nc (V1.liftDiff (V1.diffM m a b)) = .ok (some text) ∧
      V1.readMergeM nc text = .ok d' ∧ V1.patchM a d' = .ok r ∧ V1.equals m r b = true ∧
      specEq r b = true ∧ r.listDoc = true := by
  have hov := V1T.objVoidFree_of_voidFree b hbv
  by_cases heq : V1.equals m a b = true
  · have hd := (V1S.v1_merge_diff_empty_iff_equals L hm a b haw har hbw hbr hov hbf).2 heq
    obtain ⟨r, p1, p2, p3, p4⟩ := V1S.v1_merge_diff_patch L hm a b haw har hbw hbr hov hbf
    rw [hd] at p1
    have hr : r = a := by
      have : V1.patchM a [] = .ok a := rfl
      rw [this] at p1; cases p1; rfl
    subst hr
    refine ⟨"{}", [], r, ?_, (V1T.empty_object_text nc).2, rfl, p2, p3, p4⟩
    rw [hd]; rfl
  · obtain ⟨text, p, d, r, g1, _, g3, g4, _, g6, g7, g8⟩ :=
      V1T.v1_merge_text_readback L nc hm a b haw har hbw hbr hbn hbf hbv hbN
        (by simpa using heq) ((mergeRTDom_iff a b).1 hab)
    exact ⟨text, d, r, g1, g3, g4, g6, g7, g8⟩

theorem renderAs_merge_ok_v1 (nc : NumCodec) (Y : YamlCarrier) (color : Bool) (d : V1.PDiff)
    {text : String} (h : V1.renderMergeM nc d = .ok (some text)) :
    renderAs (v1Lib nc Y) .merge color d = .ok text := by
  show ofOutcomeText (V1.renderMergeM nc d) = .ok text
  rw [h]; rfl

theorem readDiff_merge_ok_v1 (nc : NumCodec) (Y : YamlCarrier) {T : String} {d' : V1.VDiff}
    (h : V1.readMergeM nc T = .ok d') : (v1Lib nc Y).readDiff .merge T = .ok (V1.liftDiff d') := by
  rw [v1Lib_readDiff_merge, h]; rfl

/-- `-f merge`, no `-set` / `-mset`, `-precision` 0 or absent (any `-setkeys`): `MergeMode` -/
theorem mergeMode_of_flags {b : Binary} {fl : Flags} {opts : List Opt}
    (ho : parsedOptions b fl = .ok opts) (hset : fl.set = false) (hmset : fl.mset = false)
    (hf : fl.f = "merge") (hprec : fl.precision = 0) : MergeMode (metasOf opts) := by
  obtain ⟨m1, m2, m3, m4⟩ := metas_facts ho
  exact ⟨by rw [m3, hf]; rfl, by rw [m1, hset], by rw [m2, hmset], by rw [m4, hprec]⟩

/-- **END TO END, `-f merge` (RFC 7386), list reading, v1 library**:
    `jd -v2=false -f merge [-yaml] [-color] [-o F] a b` followed by
    `jd -v2=false -p -f merge [same flags] [-o G] T a`. -/
theorem v1_merge_cli_round_trip (L : FloatLaws) (nc : NumCodec)
    (Y : YamlCarrier) (Ls : Bool → LibPack) (hL : Ls true = ⟨Json, V1.PDiff, v1Lib nc Y⟩)
    (b : Binary) {fl fl2 : Flags} {e1 e2 : Env} {opts : List Opt}
    (hm : isDiffMode fl) (h : PatchTwin fl fl2) (hv1 : libIsV1 b fl = true)
    (ho : parsedOptions b fl = .ok opts)
    (hf : fl.f = "merge") (hset : fl.set = false) (hmset : fl.mset = false)
    (hprec : fl.precision = 0) (hn : fl.nargs = 1 ∨ fl.nargs = 2)
    {ta tb : String} {a b' : Json}
    (hi1 : e1.in1 = .ok ta) (hi2 : e1.in2 = .ok tb) (hw1 : fl.o = "" ∨ e1.write = .ok ())
    (hra : (v1Lib nc Y).readDoc fl.yaml ta = .ok a)
    (hrb : (v1Lib nc Y).readDoc fl.yaml tb = .ok b')
    (haw : a.wf = true) (har : a.rawDoc = true)
    (hbw : b'.wf = true) (hbr : b'.rawDoc = true) (hbn : b'.nullFree = true)
    (hbf : b'.finiteNums = true) (hbv : Yaml.voidFree b' = true) (hbN : JText.NumOK nc b' = true)
    (hab : mergeRTDom a b' = true)
    (hT : e2.in1 = .ok (emitted (proc Ls b fl e1)))
    (ha2 : e2.in2 = e1.in1) (hw : fl2.o = "" ∨ e2.write = .ok ()) :
    ∃ T d' r,
      V1.renderMergeM nc (V1.liftDiff (V1.diffM (metasOf opts) a b')) = .ok (some T) ∧
      V1.readMergeM nc T = .ok d' ∧ V1.patchM a d' = .ok r ∧
      V1.equals (metasOf opts) r b' = true ∧ specEq r b' = true ∧ r.listDoc = true ∧
      TwoRuns (proc Ls b fl e1) (proc Ls b fl2 e2) fl fl2 T
        (if (V1.diffM (metasOf opts) a b').length > 0 then 1 else 0)
        ((v1Lib nc Y).renderDoc fl.yaml opts r) := by
  have hM := mergeMode_of_flags ho hset hmset hf hprec
  have hfmt : formatOf fl.f = some .merge := by rw [hf]; rfl
  obtain ⟨T, d', r, g1, g2, g3, g4, g5, g6⟩ :=
    v1_merge_lib_round_trip L nc hM a b' haw har hbw hbr hbn hbf hbv hbN hab
  refine ⟨T, d', r, g1, g2, g3, g4, g5, g6, ?_⟩
  have := v1_total_cli_round_trip nc Y Ls hL b hm h hv1 ho hn hfmt hi1 hi2 hw1 hra hrb
    (T := T) (d' := V1.liftDiff d') (r := r)
    (renderAs_merge_ok_v1 nc Y _ _ g1) (readDiff_merge_ok_v1 nc Y g2)
    (by rw [patchP_lift]; exact g3) hT ha2 hw
  simpa [firstExit, v1Lib_diffLen] using this

end MergeCli

/-! ## 7. `-f patch` (RFC 6902 text), v1 library -/

section PatchCli
open Jd.V1P (ListMode IdxLaws lenLe)

theorem renderAs_patch_ok_v1 (nc : NumCodec) (Y : YamlCarrier) (color : Bool) (d : V1.PDiff)
    {text : String} (h : V1.renderPatchM nc d = .ok (some text)) :
    renderAs (v1Lib nc Y) .patch color d = .ok text := by
  show ofOutcomeText (V1.renderPatchM nc d) = .ok text
  rw [h]; rfl

theorem readDiff_patch_ok_v1 (nc : NumCodec) (Y : YamlCarrier) {T : String} {d' : V1.PDiff}
    (h : V1.readPatchM nc T = .ok d') : (v1Lib nc Y).readDiff .patch T = .ok d' := by
  rw [v1Lib_readDiff_patch, h]; rfl

theorem not_merge_of_patch {s : String} (h : formatOf s = some .patch) : (s == "merge") = false := by
  by_cases hs : s = "merge"
  · subst hs; exact absurd h (by decide)
  · simp [hs]

/-- **END TO END, `-f patch` (RFC 6902), list reading, v1 library**:
    `jd -v2=false -f patch [-setkeys ks] [-yaml] [-color] [-o F] a b` followed by
    `jd -v2=false -p -f patch [same flags] [-o G] T a`.  The diff read back by `ReadPatchString`
    holds `jsonStringOrInteger` path tokens (`V1.PDiff`); `Patch` decides key-or-index when it
    uses them.  No key `-` in the documents (`RenderPatch` refuses it: `V1R.noDash`). -/
theorem v1_patch_cli_round_trip (L : FloatLaws) {N : Nat} (I : IdxLaws N) (hN : N ≤ 2 ^ 63)
    (nc : NumCodec)
    (Y : YamlCarrier) (Ls : Bool → LibPack) (hL : Ls true = ⟨Json, V1.PDiff, v1Lib nc Y⟩)
    (b : Binary) {fl fl2 : Flags} {e1 e2 : Env} {opts : List Opt}
    (hm : isDiffMode fl) (h : PatchTwin fl fl2) (hv1 : libIsV1 b fl = true)
    (ho : parsedOptions b fl = .ok opts)
    (hfmt : formatOf fl.f = some .patch) (hset : fl.set = false) (hmset : fl.mset = false)
    (hprec : fl.precision = 0) (hn : fl.nargs = 1 ∨ fl.nargs = 2)
    {ta tb : String} {a b' : Json}
    (hi1 : e1.in1 = .ok ta) (hi2 : e1.in2 = .ok tb) (hw1 : fl.o = "" ∨ e1.write = .ok ())
    (hra : (v1Lib nc Y).readDoc fl.yaml ta = .ok a)
    (hrb : (v1Lib nc Y).readDoc fl.yaml tb = .ok b')
    (ha1 : a.listDoc = true) (ha2 : a.wf = true) (ha3 : a.finiteNums = true)
    (ha4 : Yaml.voidFree a = true) (ha5 : lenLe N a = true) (ha6 : JText.NumOK nc a = true)
    (hb1 : b'.listDoc = true) (hb2 : b'.wf = true) (hb3 : b'.finiteNums = true)
    (hb4 : Yaml.voidFree b' = true) (hb6 : JText.NumOK nc b' = true)
    (hda : V1R.noDash a = true) (hdb : V1R.noDash b' = true)
    (hT : e2.in1 = .ok (emitted (proc Ls b fl e1)))
    (ha : e2.in2 = e1.in1) (hw : fl2.o = "" ∨ e2.write = .ok ()) :
    ∃ T d' r,
      V1.renderPatchM nc (V1.liftDiff (V1.diffM (metasOf opts) a b')) = .ok (some T) ∧
      V1.readPatchM nc T = .ok d' ∧ V1.patchP a d' = .ok r ∧
      V1.equals (metasOf opts) r b' = true ∧ specEq r b' = true ∧ specEq b' r = true ∧
      TwoRuns (proc Ls b fl e1) (proc Ls b fl2 e2) fl fl2 T (if T = "[]" then 0 else 1)
        ((v1Lib nc Y).renderDoc fl.yaml opts r) := by
  obtain ⟨m1, m2, m3, m4⟩ := metas_facts ho
  have hM : ListMode (metasOf opts) :=
    ⟨by rw [m1, hset], by rw [m2, hmset], by rw [m3, not_merge_of_patch hfmt], by rw [m4, hprec]⟩
  obtain ⟨T, d', r, g1, g2, g3, g4, g5, g6⟩ :=
    V1T.v1_patch_text_readback_noDash L I hN nc (metasOf opts) hM a b' ha1 ha2 ha3 ha4 ha5 ha6
      hb1 hb2 hb3 hb4 hb6 hda hdb
  refine ⟨T, d', r, g1, g2, g3, g4, g5, g6, ?_⟩
  have := v1_total_cli_round_trip nc Y Ls hL b hm h hv1 ho hn hfmt hi1 hi2 hw1 hra hrb
    (T := T) (d' := d') (r := r)
    (renderAs_patch_ok_v1 nc Y _ _ g1) (readDiff_patch_ok_v1 nc Y g2) g3 hT ha hw
  simpa [firstExit] using this

end PatchCli

/-! ## 8. native format with `-set` / `-mset`, v1 library (codec contract on the diff) -/

section SetCli
open Jd.V1P (vfree)

/-- the reading the v1 library gives `-set` / `-mset` / both: SET wins (`dispatch`, metadata.go) -/
def setReading (fl : Flags) : Opts := if fl.set then [Opt.set] else [Opt.mset]

/-- the metadata `parseMetadata` builds for `jd -v2=false -set` / `-mset` (no `-setkeys`, native
    format, precision 0) select the SET resp. MULTISET reading of `V1S.Mode` -/
theorem mode_of_flags {fl : Flags} (hsm : fl.set = true ∨ fl.mset = true)
    (hprec : fl.precision = 0) : V1S.Mode (metasOf (modeOpts fl)) (setReading fl) := by
  unfold modeOpts setReading
  rw [hprec]
  cases hs : fl.set <;> cases hms : fl.mset
  · simp [hs, hms] at hsm
  · exact (show V1S.MsetMode [.mset, .prec 0] from ⟨rfl, rfl, rfl, rfl, rfl⟩).mode
  · exact (show V1S.SetMode [.set, .prec 0] from ⟨rfl, rfl, rfl, rfl⟩).mode
  · exact (show V1S.SetMode [.set, .mset, .prec 0] from ⟨rfl, rfl, rfl, rfl⟩).mode

/-- **END TO END, native format, `-set` / `-mset`, v1 library**: the diff read back from the text IS
    the diff.  The codec contract is a hypothesis on the paths and values of the diff at hand (`hp`,
    `hv`: each is printed, the text has no newline and reads back), as `hp` of
    `CliRT.native_cli_round_trip`; the hash hypothesis is `V1S.HashFaithful` (v1 hashes). -/
theorem v1_setmodes_cli_round_trip (F : FloatEq0) (FL : FloatLaws) (nc : NumCodec)
    (Y : YamlCarrier) (Ls : Bool → LibPack) (hL : Ls true = ⟨Json, V1.PDiff, v1Lib nc Y⟩)
    (b : Binary) {fl fl2 : Flags} {e1 e2 : Env}
    (hm : isDiffMode fl) (h : PatchTwin fl fl2) (hv1 : libIsV1 b fl = true)
    (hsm : fl.set = true ∨ fl.mset = true) (hkeys : fl.setkeys = "") (hprec : fl.precision = 0)
    (hfmt : formatOf fl.f = some .jd) (hcolor : fl.color = false)
    (hn : fl.nargs = 1 ∨ fl.nargs = 2)
    {ta tb : String} {a b' : Json}
    (hi1 : e1.in1 = .ok ta) (hi2 : e1.in2 = .ok tb) (hw1 : fl.o = "" ∨ e1.write = .ok ())
    (hra : (v1Lib nc Y).readDoc fl.yaml ta = .ok a)
    (hrb : (v1Lib nc Y).readDoc fl.yaml tb = .ok b')
    (ha : a.setDoc = true) (hb : b'.setDoc = true)
    (hva : Yaml.voidFree a = true) (hvb : Yaml.voidFree b' = true)
    (HF : V1S.HashFaithful (metasOf (modeOpts fl)) (setReading fl) (subterms a ++ subterms b'))
    (hp : ∀ h ∈ V1.diffM (metasOf (modeOpts fl)) a b',
      (jsonText nc (.arr .raw (V1.rawNormList h.path))).isSome = true ∧ V1S.PathOK nc h.path)
    (hv : ∀ h ∈ V1.diffM (metasOf (modeOpts fl)) a b', ∀ v ∈ h.old ++ h.new,
      (V1.marshalNode nc v).isSome = true ∧ V1S.ValOK nc v)
    (hT : e2.in1 = .ok (emitted (proc Ls b fl e1)))
    (ha2 : e2.in2 = e1.in1) (hw : fl2.o = "" ∨ e2.write = .ok ()) :
    ∃ T r,
      parsedOptions b fl = .ok (modeOpts fl) ∧
      V1.renderM nc false (V1.liftDiff (V1.diffM (metasOf (modeOpts fl)) a b')) = .ok (some T) ∧
      V1.readDiffM nc T = .ok (V1.diffM (metasOf (modeOpts fl)) a b') ∧
      V1.patchM a (V1.diffM (metasOf (modeOpts fl)) a b') = .ok r ∧
      V1.equals (metasOf (modeOpts fl)) r b' = true ∧ equivB (setReading fl) r b' = true ∧
      TwoRuns (proc Ls b fl e1) (proc Ls b fl2 e2) fl fl2 T (if T = "" then 0 else 1)
        ((v1Lib nc Y).renderDoc fl.yaml (modeOpts fl) r) := by
  have ho := parsedOptions_setmodes b hkeys hprec hfmt
  have M := mode_of_flags hsm hprec
  have va := V1T.vfree_of_voidFree a hva
  have vb := V1T.vfree_of_voidFree b' hvb
  have ma := V1P.memOK_of_vfree a va
  have mb := V1P.memOK_of_vfree b' vb
  have hbv := V1T.voidFree_notVoid hvb
  -- the hunks are `GH` hunks: their paths can be written
  have hmeta : ∀ h ∈ V1.diffM (metasOf (modeOpts fl)) a b', V1S.metaOK h.path = true := by
    obtain ⟨D, e, g⟩ := V1S.shape_node F M HF a b' ⟨ha, ma⟩ ⟨hb, mb⟩ va vb hbv
      (fun z hz => List.mem_append.2 (Or.inl hz)) (fun z hz => List.mem_append.2 (Or.inr hz)) []
    rw [V1S.shift_nil_map] at e
    have hd : V1.diffM (metasOf (modeOpts fl)) a b' = D := by
      unfold V1.diffM; rw [M.noMerge, e]
    rw [hd]
    exact fun h hh => (g h hh).mOK
  have hc : V1S.CodecOK nc (V1.diffM (metasOf (modeOpts fl)) a b') :=
    fun h hh => ⟨(hp h hh).2, fun v hv' _ => (hv h hh v hv').2⟩
  obtain ⟨T, hr⟩ := render_ok nc _ hmeta (fun h hh => (hp h hh).1)
    (fun h hh v hv' _ => (hv h hh v hv').1)
  obtain ⟨g2, r, g3, g4, g5⟩ :=
    V1S.v1_text_roundtrip_setmodes F FL nc M a b' ha hb ma mb va vb hbv HF hc T hr
  refine ⟨T, r, ho, hr, g2, g3, g4, g5, ?_⟩
  have := v1_total_cli_round_trip nc Y Ls hL b hm h hv1 ho hn hfmt hi1 hi2 hw1 hra hrb
    (T := T) (d' := V1.liftDiff (V1.diffM (metasOf (modeOpts fl)) a b')) (r := r)
    (by rw [hcolor]; exact renderAs_jd_plain_v1 nc Y _ hr)
    (readDiff_jd_ok_v1 nc Y g2) (by rw [patchP_lift]; exact g3) hT ha2 hw
  simpa [firstExit] using this

end SetCli

/-! ## 9. native format, list reading, `-precision eps` (eps ≥ 0), v1 library -/

section PrecCli
open Jd.V1P (IdxLaws lenLe vfree)

/-- **END TO END, native format, list reading with `-precision eps`, `eps` finite and non-negative,
    v1 library**: v1 `Diff` honours the precision, so the patched document `Equals` `b` UNDER THE
    METADATA (it keeps the numbers of `a` that were within `eps`), not structurally.  The codec
    contract is a hypothesis on the paths and values of the diff at hand (`hp`, `hv`). -/
theorem v1_native_cli_round_trip_precision (FL : FloatLaws) {N : Nat} (I : IdxLaws N)
    (nc : NumCodec) (Y : YamlCarrier)
    (Ls : Bool → LibPack) (hL : Ls true = ⟨Json, V1.PDiff, v1Lib nc Y⟩)
    (b : Binary) {fl fl2 : Flags} {e1 e2 : Env} {opts : List Opt}
    (hm : isDiffMode fl) (h : PatchTwin fl fl2) (hv1 : libIsV1 b fl = true)
    (ho : parsedOptions b fl = .ok opts)
    (hset : fl.set = false) (hmset : fl.mset = false) (hprec : nonnegBits fl.precision = true)
    (hfmt : formatOf fl.f = some .jd) (hcolor : fl.color = false)
    (hn : fl.nargs = 1 ∨ fl.nargs = 2)
    {ta tb : String} {a b' : Json}
    (hi1 : e1.in1 = .ok ta) (hi2 : e1.in2 = .ok tb) (hw1 : fl.o = "" ∨ e1.write = .ok ())
    (hra : (v1Lib nc Y).readDoc fl.yaml ta = .ok a)
    (hrb : (v1Lib nc Y).readDoc fl.yaml tb = .ok b')
    (ha1 : a.listDoc = true) (ha2 : a.wf = true) (ha3 : a.finiteNums = true)
    (ha4 : Yaml.voidFree a = true) (ha5 : lenLe N a = true)
    (hb1 : b'.listDoc = true) (hb2 : b'.wf = true) (hb3 : b'.finiteNums = true)
    (hb4 : Yaml.voidFree b' = true)
    (hp : ∀ h ∈ V1.diffM (metasOf opts) a b',
      (jsonText nc (.arr .raw (V1.rawNormList h.path))).isSome = true ∧ V1S.PathOK nc h.path)
    (hv : ∀ h ∈ V1.diffM (metasOf opts) a b', ∀ v ∈ h.old ++ h.new,
      (V1.marshalNode nc v).isSome = true ∧ V1S.ValOK nc v)
    (hT : e2.in1 = .ok (emitted (proc Ls b fl e1)))
    (ha : e2.in2 = e1.in1) (hw : fl2.o = "" ∨ e2.write = .ok ()) :
    ∃ T d' r,
      V1.renderM nc false (V1.liftDiff (V1.diffM (metasOf opts) a b')) = .ok (some T) ∧
      V1.readDiffM nc T = .ok d' ∧ V1.patchM a d' = .ok r ∧
      V1.equals (metasOf opts) r b' = true ∧ equivB [Opt.prec fl.precision] r b' = true ∧
      TwoRuns (proc Ls b fl e1) (proc Ls b fl2 e2) fl fl2 T (if T = "" then 0 else 1)
        ((v1Lib nc Y).renderDoc fl.yaml opts r) := by
  obtain ⟨m1, m2, m3, m4⟩ := metas_facts ho
  have hM : V1Pr.PrecMode (metasOf opts) :=
    ⟨by rw [m1, hset], by rw [m2, hmset], by rw [m3, not_merge_of_jd hfmt], by rw [m4]; exact hprec⟩
  have va := V1T.vfree_of_voidFree a ha4
  have vb := V1T.vfree_of_voidFree b' hb4
  have hd : V1.diffM (metasOf opts) a b' = V1.diffNode (metasOf opts) false a b' [] := by
    unfold V1.diffM; rw [hM.noMerge]
  have hmeta : ∀ h ∈ V1.diffM (metasOf opts) a b', V1S.metaOK h.path = true := by
    intro h hh
    rw [hd] at hh
    exact V1S.metaOK_plain h.path ((V1Pr.diff_hunks _ hM.lr).1 a b' ha1 hb1 h hh).1.plain
  have hc : V1S.CodecOK nc (V1.diffM (metasOf opts) a b') :=
    fun h hh => ⟨(hp h hh).2, fun v hv' _ => (hv h hh v hv').2⟩
  obtain ⟨T, hr⟩ := render_ok nc _ hmeta (fun h hh => (hp h hh).1)
    (fun h hh v hv' _ => (hv h hh v hv').1)
  obtain ⟨d', r, g2, g3, g4, g5⟩ :=
    V1Pr.v1_text_roundtrip_list_precision FL I nc (metasOf opts) hM a b' ha1 ha2 ha3 va ha5
      hb1 hb2 hb3 vb (V1T.voidFree_notVoid hb4) hc T hr
  have hopt : V1Pr.optsOf (metasOf opts) = [Opt.prec fl.precision] := by
    simp [V1Pr.optsOf, m4]
  rw [hopt] at g5
  refine ⟨T, d', r, hr, g2, g3, g4, g5, ?_⟩
  have := v1_total_cli_round_trip nc Y Ls hL b hm h hv1 ho hn hfmt hi1 hi2 hw1 hra hrb
    (T := T) (d' := V1.liftDiff d') (r := r)
    (by rw [hcolor]; exact renderAs_jd_plain_v1 nc Y _ hr)
    (readDiff_jd_ok_v1 nc Y g2) (by rw [patchP_lift]; exact g3) hT ha hw
  simpa [firstExit] using this

end PrecCli

/-! ## 10. non-vacuity: the hypotheses hold on concrete files -/

namespace Example
open Jd.NativeRT (exCodec)
open Jd.E2E.Example (exA exB)
open Jd.CliRT.NativeExample (taE tbE read_a read_b noYaml)

/-- binary B, v1 library for `Plan.v1 = true` -/
def Ls : Bool → LibPack := fun _ => ⟨Json, V1.PDiff, v1Lib exCodec noYaml⟩
/-- `jd -v2=false a.json b.json` -/
def fl1 : Flags := { nargs := 2, v2 := false }
/-- `jd -v2=false -p -o out.json T a.json` -/
def fl2 : Flags := { fl1 with p := true, o := "out.json" }
def e1 : Env := { in1 := .ok taE, in2 := .ok tbE }
def e2 : Env := { in1 := .ok (emitted (proc Ls .top fl1 e1)), in2 := .ok taE }

theorem docs_ok :
    exA.listDoc = true ∧ exA.wf = true ∧ exA.finiteNums = true ∧ Yaml.voidFree exA = true ∧
    V1P.lenLe 3 exA = true ∧ JText.NumOK exCodec exA = true ∧
    exB.listDoc = true ∧ exB.wf = true ∧ exB.finiteNums = true ∧ Yaml.voidFree exB = true ∧
    JText.NumOK exCodec exB = true := by
  refine ⟨by decide, by decide, by decide, by decide, by decide, by decide, by decide, by decide,
    by decide, by decide, by decide⟩

/-- **`v1_native_cli_round_trip` on two concrete JSON files**
    (`{"k":[true,null,["x"]]}` → `{"k":[false,null,["x","y"]],"n":null}`), binary B with
    `-v2=false`: every hypothesis is discharged except the IEEE laws and the two laws on list
    indices (`Float` is opaque to the kernel).  `jd -v2=false a.json b.json` prints the text `T` of
    the v1 diff and exits 1 or 0 according to `T`; `jd -v2=false -p -o out.json T a.json` exits 0,
    prints nothing and writes to `out.json` the JSON text of a document that `Equals` `b.json`. -/
theorem ex_v1_cli_end_to_end (L : FloatLaws) (I : V1P.IdxLaws 3) (J : IdxNumOK exCodec 3) :
    ∃ T r, (proc Ls .top fl1 e1).stdout = T ∧ (proc Ls .top fl1 e1).exit = (if T = "" then 0 else 1) ∧
      specEq r exB = true ∧ V1.equals [.prec 0] r exB = true ∧
      (proc Ls .top fl2 e2).exit = 0 ∧ (proc Ls .top fl2 e2).stdout = "" ∧
      (proc Ls .top fl2 e2).outfile = some ((V1.jsonM exCodec (V1.dispatch [.prec 0] r)).getD "") := by
  obtain ⟨a1, a2, a3, a4, a5, a6, b1, b2, b3, b4, b6⟩ := docs_ok
  have hdm : isDiffMode fl1 := ⟨rfl, rfl, rfl, rfl, rfl⟩
  obtain ⟨T, d', r, c1, c2, c3, c4, c5, c6⟩ :=
    v1_native_cli_round_trip L I exCodec J noYaml Ls rfl .top (fl := fl1) (fl2 := fl2) (e1 := e1)
      (e2 := e2) (opts := [Opt.prec 0]) hdm (patchTwin_with hdm "out.json" 2 (.inr rfl)) rfl rfl
      rfl rfl rfl rfl rfl (.inr rfl) (ta := taE) (tb := tbE) (a := exA) (b' := exB) rfl rfl
      (.inl rfl)
      (by rw [show fl1.yaml = false from rfl, v1Lib_readDoc_json, read_a]; rfl)
      (by rw [show fl1.yaml = false from rfl, v1Lib_readDoc_json, read_b]; rfl)
      a1 a2 a3 a4 a5 a6 b1 b2 b3 b4 b6 rfl rfl (.inr rfl)
  refine ⟨T, r, (c6.std1 rfl).1, c6.exit1, c5, c4, c6.exit2, (c6.file2 (by decide)).1, ?_⟩
  rw [(c6.file2 (by decide)).2]; rfl

/-- `jd -v2=false -f merge a.json b.json` with `{"a":"x","b":[true]}` → `{"a":"y","c":[true,"z"]}` -/
def tmA : String := "{\"a\":\"x\",\"b\":[true]}"
def tmB : String := "{\"a\":\"y\",\"c\":[true,\"z\"]}"
def mA : Json := .obj [("a", .str "x"), ("b", .arr .raw [.bool true])]
def mB : Json := .obj [("a", .str "y"), ("c", .arr .raw [.bool true, .str "z"])]

theorem read_mA : readJsonM exCodec tmA = .ok mA := by
  simp [tmA, mA, readJsonM, trimGoSpace, parseJson, parseValue, skipWs, isJsonWs, parseElems,
    parseMembers, lexString, ainsert]

theorem read_mB : readJsonM exCodec tmB = .ok mB := by
  simp [tmB, mB, readJsonM, trimGoSpace, parseJson, parseValue, skipWs, isJsonWs, parseElems,
    parseMembers, lexString, ainsert]

def flm : Flags := { nargs := 2, v2 := false, f := "merge", color := true }
def flm2 : Flags := { flm with p := true, nargs := 1 }
def em1 : Env := { in1 := .ok tmA, in2 := .ok tmB }
/-- the second run reads `a.json` from stdin -/
def em2 : Env := { in1 := .ok (emitted (proc Ls .top flm em1)), in2 := .ok tmA }

/-- **`v1_merge_cli_round_trip` on two concrete JSON files**, `-f merge -color`, the second run
    reading the document from stdin: only `FloatLaws` remains a hypothesis. -/
theorem ex_v1_merge_cli (L : FloatLaws) :
    ∃ T r, (proc Ls .top flm em1).stdout = T ∧ specEq r mB = true ∧
      (proc Ls .top flm2 em2).exit = 0 ∧
      (proc Ls .top flm2 em2).stdout =
        (V1.jsonM exCodec (V1.dispatch [.merge, .prec 0] r)).getD "" := by
  have hdm : isDiffMode flm := ⟨rfl, rfl, rfl, rfl, rfl⟩
  obtain ⟨T, d', r, c1, c2, c3, c4, c5, c6, c7⟩ :=
    v1_merge_cli_round_trip L exCodec noYaml Ls rfl .top (fl := flm) (fl2 := flm2) (e1 := em1)
      (e2 := em2) (opts := [Opt.merge, Opt.prec 0]) hdm (patchTwin_with hdm "" 1 (.inl rfl)) rfl
      rfl rfl rfl rfl rfl (.inr rfl) (ta := tmA) (tb := tmB) (a := mA) (b' := mB) rfl rfl
      (.inl rfl)
      (by rw [show flm.yaml = false from rfl, v1Lib_readDoc_json, read_mA]; rfl)
      (by rw [show flm.yaml = false from rfl, v1Lib_readDoc_json, read_mB]; rfl)
      (by decide) (by decide) (by decide) (by decide) (by decide) (by decide) (by decide)
      (by decide) (by decide) rfl rfl (.inl rfl)
  exact ⟨T, r, (c7.std1 rfl).1, c5, c7.exit2, (c7.std2 rfl).1⟩

end Example

end Jd.CliV1
