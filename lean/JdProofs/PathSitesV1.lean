/-
  JdProofs.PathSitesV1 — the aliasing discipline on the sites of lib/ (the v1 library) only: the v1 property rests on
  this module, so that a changed site of v2/ does not break it (see JdProofs/PathSites.lean for the discipline).
-/
import JdProofs.PathSitesDefs

namespace Jd.PathSites
open Jd Jd.PathHeap

/-- v1 (lib/): the same -/
theorem v1_diff_paths_ok : (Gen.pathSites.filter (fun s => isV1 s && !isWrite s)).all ok = true := by
  decide +kernel

end Jd.PathSites
